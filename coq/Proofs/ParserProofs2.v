(* ParserProofs2.v — C02, part 2: the round trip  parse (print s) = desugar s  for the proved
   fragment of the surface syntax, by induction on the size of s, level by level.

   Shape.  [Rspec s]: at every level L >= level s the level-L parser, run on the text of s
   followed by any continuation [rest] that level L does not consume, returns (desugar s, rest).
   [Ospec x]: the same for an operand x printed at a position (L, powleft), parenthesised or
   not as the printer decides.  Nested expressions (inside parentheses) go through [pe], which
   is assumed correct for smaller trees ([Hpe]); [parse_expression_ok] closes the knot by
   induction on the fuel. *)
From Coq Require Import Lia List Arith Bool.
From Ka Require Import Model.Parser Model.Printer Proofs.ParserProofs.
Local Open Scope nat_scope.

(* ------------------------------------------------------------------ the proved fragment *)
(* All stages are proved: the fragment is the whole surface syntax, restricted only by the
   well-formedness no printer can repair ([wf], Model/Printer.v: a unit list is never empty, a
   comprehension has at least one clause). *)
Notation covered := wf (only parsing).

(* the text of s (operands unparenthesised as the mode decides) ends in a unit signature *)
Definition ends_u (m : mode) (s : sst) : bool :=
  match m with Min => ends_units s | Full => is_qty s end.

(* ------------------------------------------------------------------ facts about the printer *)
Lemma level_le_10 s : level s <= 10.
Proof. destruct s; simpl; try lia. destruct op; simpl; lia. Qed.

Lemma wrap_false_level m L pl s : wrap m L pl s = false -> level s <= L.
Proof.
  destruct m; simpl.
  - intros H. apply orb_false_iff in H. destruct H as [H _].
    apply negb_false_iff in H. apply Nat.leb_le in H. exact H.
  - intros H. apply negb_false_iff in H. apply Nat.eqb_eq in H. lia.
Qed.

Lemma ends_u_level m s : ends_u m s = true -> 3 <= level s.
Proof.
  destruct m; simpl.
  - destruct s; simpl; try discriminate; try lia. destruct op; simpl; try discriminate; lia.
  - destruct s; simpl; try discriminate; lia.
Qed.

Lemma wrap_false_endsu m L s : wrap m L true s = false -> ends_u m s = false.
Proof.
  destruct m; simpl.
  - intros H. apply orb_false_iff in H. destruct H as [_ H]. exact H.
  - intros H. apply negb_false_iff in H. apply Nat.eqb_eq in H.
    destruct s; simpl in *; try reflexivity; lia.
Qed.

Lemma ends_u_pow_right m a b :
  wrap m 5 false b = false -> ends_u m b = true -> ends_u m (SBin BPow a b) = true.
Proof.
  destruct m; simpl; intros W EU.
  - apply orb_false_iff in W. destruct W as [W _]. apply negb_false_iff, Nat.leb_le in W.
    destruct b; simpl in *; try discriminate; try reflexivity; try exact EU.
    destruct op; simpl in *; try discriminate; lia.
  - apply negb_false_iff, Nat.eqb_eq in W. destruct b; simpl in *; try discriminate; lia.
Qed.

(* the position one level tighter prints an operand the same way when it is parenthesised
   already or fits there *)
Lemma wrap_pred m L pl s :
  (wrap m (S L) pl s = true \/ level s <= L) -> wrap m L pl s = wrap m (S L) pl s.
Proof.
  destruct m; simpl; [|reflexivity].
  intros [H|H].
  - rewrite H. apply orb_true_iff in H. apply orb_true_iff. destruct H as [H|H]; [left|right; exact H].
    apply negb_true_iff in H. apply negb_true_iff. apply Nat.leb_gt in H. apply Nat.leb_gt. lia.
  - replace (level s <=? L) with true by (symmetry; apply Nat.leb_le; lia).
    replace (level s <=? S L) with true by (symmetry; apply Nat.leb_le; lia). reflexivity.
Qed.

(* first tokens *)
Definition low (ts : list tok) : Prop :=
  match ts with KLP :: _ | KNum _ :: _ | KVar _ :: _ => True | _ => False end.
Definition mid (ts : list tok) : Prop :=
  match ts with KLP :: _ | KNum _ :: _ | KVar _ :: _ | KPlus :: _ | KMinus :: _ => True | _ => False end.

Lemma low_nosign ts : low ts -> nosign ts.
Proof. destruct ts as [|t r]; simpl; [tauto|]. destruct t; simpl; tauto. Qed.
Lemma low_mid ts : low ts -> mid ts.
Proof. destruct ts as [|t r]; simpl; [tauto|]. destruct t; simpl; tauto. Qed.
Lemma mid_noterm ts : mid ts -> notermatom ts.
Proof. destruct ts as [|t r]; simpl; [tauto|]. destruct t; simpl; tauto. Qed.

Lemma parens_app b ts k : parens b ts ++ k = if b then KLP :: ts ++ KRP :: k else ts ++ k.
Proof. destruct b; simpl; [|reflexivity]. rewrite <- app_assoc. reflexivity. Qed.

Lemma first_tokens m s : forall k,
  (level s <= 1 -> low (raw m s ++ k)) /\ (level s <= 4 -> mid (raw m s ++ k)).
Proof.
  induction s; intros k; simpl; split; intros HL; try exact I; try lia.
  - (* SSign *) destruct neg; exact I.
  - (* SFact *) rewrite <- app_assoc, parens_app. destruct (wrap m 0 false s) eqn:W; [exact I|].
    apply IHs. apply wrap_false_level in W. lia.
  - rewrite <- app_assoc, parens_app. destruct (wrap m 0 false s) eqn:W; [exact I|].
    apply low_mid. apply IHs. apply wrap_false_level in W. lia.
  - destruct op; simpl in HL; lia.
  - destruct op; simpl in HL; lia.
  - (* SRange *) rewrite <- app_assoc, parens_app. destruct (wrap m 3 false s1) eqn:W; [exact I|].
    apply IHs1. apply wrap_false_level in W. lia.
  - (* SQty *) rewrite <- app_assoc, parens_app. destruct (wrap m 2 false s) eqn:W; [exact I|].
    apply IHs. apply wrap_false_level in W. lia.
Qed.

Lemma pr_low m L pl x k : L <= 1 -> low (pr m L pl x ++ k).
Proof.
  intros HL. unfold pr. rewrite parens_app. destruct (wrap m L pl x) eqn:W; [exact I|].
  apply first_tokens. apply wrap_false_level in W. lia.
Qed.

Lemma pr_mid m L pl x k : L <= 4 -> mid (pr m L pl x ++ k).
Proof.
  intros HL. unfold pr. rewrite parens_app. destruct (wrap m L pl x) eqn:W; [exact I|].
  apply first_tokens. apply wrap_false_level in W. lia.
Qed.

(* every text starts with a token that can start an expression *)
Definition opener (ts : list tok) : Prop :=
  match ts with
  | KLP :: _ | KNum _ :: _ | KVar _ :: _ | KPlus :: _ | KMinus :: _
  | KStr _ :: _ | KInst _ :: _ | KLBrace :: _ | KLBrack :: _ => True
  | _ => False
  end.

Lemma raw_opener m s : forall k, opener (raw m s ++ k).
Proof.
  induction s; intros k; simpl; try exact I;
    rewrite <- ?app_assoc, ?parens_app;
    try match goal with |- context [wrap ?mm ?L ?pl ?x] => destruct (wrap mm L pl x); [exact I|] end;
    auto.
  destruct neg; exact I.
Qed.

Lemma pr_opener m L pl x k : opener (pr m L pl x ++ k).
Proof. unfold pr. rewrite parens_app. destruct (wrap m L pl x); [exact I|apply raw_opener]. Qed.

Lemma opener_not_rp ts : opener ts -> starts_rp ts = false.
Proof. destruct ts as [|t r]; simpl; [tauto|]. destruct t; simpl; tauto. Qed.
Lemma opener_not_rbrace ts : opener ts -> starts_rbrace ts = false.
Proof. destruct ts as [|t r]; simpl; [tauto|]. destruct t; simpl; tauto. Qed.

(* no text starts "identifier :" (so a positional argument is never taken for a keyword) *)
Definition nocolon (k : list tok) : Prop := match k with KColon :: _ => False | _ => True end.

Lemma usig_nocolon u k : nocolon k -> nocolon (pr_usig u ++ k).
Proof.
  intros Hk. destruct u as [[|[v z] us] inv]; unfold pr_usig; simpl.
  - destruct inv; simpl; [exact Hk|exact I].
  - exact I.
Qed.

Lemma var_colon_cons x k : nocolon k -> starts_var_colon (KVar x :: k) = false.
Proof. destruct k as [|t r]; simpl; [reflexivity|]. destruct t; simpl; tauto. Qed.

Lemma raw_no_var_colon m s : forall k, nocolon k -> starts_var_colon (raw m s ++ k) = false.
Proof.
  induction s; intros k Hk; simpl; try reflexivity;
    rewrite <- ?app_assoc, ?parens_app;
    try match goal with |- context [wrap ?mm ?L ?pl ?x] => destruct (wrap mm L pl x); [reflexivity|] end;
    try (match goal with IH : forall k, nocolon k -> starts_var_colon (raw m ?x ++ k) = false |- context [raw m ?x ++ ?kk] =>
           apply IH end; simpl; try exact I).
  - destruct k as [|t r]; [reflexivity|]. destruct t; try reflexivity. contradiction.
  - destruct neg; reflexivity.
  - destruct op; exact I.
  - apply usig_nocolon; exact Hk.
  - destruct op; exact I.
  - destruct op1; exact I.
Qed.

Lemma pr_no_var_colon m L pl x k : nocolon k -> starts_var_colon (pr m L pl x ++ k) = false.
Proof.
  intros Hk. unfold pr. rewrite parens_app. destruct (wrap m L pl x); [reflexivity|].
  apply raw_no_var_colon; exact Hk.
Qed.

Lemma size_pos s : 1 <= size s.
Proof. destruct s; simpl; lia. Qed.

(* sizes of list members *)
Lemma size_in l x : In x l -> size x <= fold_right (fun e n => size e + n) 0 l.
Proof. induction l as [|y l IH]; simpl; [tauto|]. intros [->|H]; [lia|]. specialize (IH H). lia. Qed.

Lemma size_in_snd {K} (l : list (K * sst)) p :
  In p l -> size (snd p) <= fold_right (fun c n => size (snd c) + n) 0 l.
Proof. induction l as [|y l IH]; simpl; [tauto|]. intros [->|H]; [lia|]. specialize (IH H). lia. Qed.

(* ------------------------------------------------------------------ the binary levels *)
Definition isop_of (L : nat) : tok -> option string :=
  match L with 6 => pow_op | 7 => mul_op | _ => add_op end.

Definition binL (L : nat) : Prop := L = 6 \/ L = 7 \/ L = 8.

Lemma p_level_bin pe L : binL L ->
  p_level pe L = binlevel (p_level pe (pred L)) (isop_of L).
Proof. intros [->|[->| ->]]; reflexivity. Qed.

Lemma isop_tok L o : binL L -> binlevel_of o = L -> isop_of L (tok_of_bin o) = Some (bin_name o).
Proof. intros [->|[->| ->]]; destruct o; simpl; intros H; try discriminate; reflexivity. Qed.

Lemma isop_level L t : binL L -> isop_of L t <> None -> tok_level t = L.
Proof. intros [->|[->| ->]]; destruct t; simpl; intros H; try congruence; reflexivity. Qed.

Lemma noop_of L rest : binL L -> follow L rest -> noop (isop_of L) rest.
Proof.
  intros [->|[->| ->]]; [apply noop_pow | apply noop_mul | apply noop_add].
Qed.

Lemma binlevel_powleft o L : binlevel_of o = L ->
  (match o with BPow => true | _ => false end) = (L =? 6).
Proof. intros <-. destruct o; reflexivity. Qed.

Definition is_binL (L : nat) (s : sst) : bool :=
  match s with SBin o _ _ => binlevel_of o =? L | _ => false end.

Lemma not_binL_level L s : binL L -> is_binL L s = false -> level s <= L -> level s <= pred L.
Proof.
  intros HL. unfold binL in HL. destruct s; simpl; try lia.
  destruct HL as [->|[->| ->]]; destruct op; simpl; intros; try discriminate; lia.
Qed.

Lemma match_var {A} (ts : list tok) (a b : A) v r :
  ts = KVar v :: r -> (match ts with KVar _ :: _ => a | _ => b end) = a.
Proof. intros ->. reflexivity. Qed.

(* ------------------------------------------------------------------ the round trip *)
Section Round.
  Variable m : mode.
  Variable pe : parser ptree.
  Variable n : nat.
  Hypothesis Hpe : forall s, covered s = true -> size s <= n -> forall rest, follow 10 rest ->
                    pe (raw m s ++ rest) = POk (desugar s, rest).

  Definition Rspec (s : sst) : Prop :=
    forall L rest, level s <= L -> L <= 10 -> follow L rest ->
      (L <= 5 -> ends_u m s = true -> nexp rest) ->
      p_level pe L (raw m s ++ rest) = POk (desugar s, rest).

  Definition Ospec (x : sst) : Prop :=
    forall L pl rest, L <= 10 -> follow L rest ->
      (wrap m L pl x = false -> L <= 5 -> ends_u m x = true -> nexp rest) ->
      p_level pe L (pr m L pl x ++ rest) = POk (desugar x, rest).

  (* a parenthesised expression, at any level *)
  Lemma paren_parse x L rest :
    covered x = true -> size x <= n -> L <= 10 -> follow L rest ->
    p_level pe L (KLP :: raw m x ++ KRP :: rest) = POk (desugar x, rest).
  Proof.
    intros C Hsz HL F.
    apply (lift_up pe 0 L); [lia| |intros; exact I|intros; exact I|exact F].
    simpl. rewrite (Hpe x C Hsz (KRP :: rest)); [reflexivity|]. simpl. lia.
  Qed.

  Lemma O_of_R x : covered x = true -> size x <= n -> Rspec x -> Ospec x.
  Proof.
    intros C Hsz R L pl rest HL F E. unfold pr. rewrite parens_app.
    destruct (wrap m L pl x) eqn:W.
    - apply paren_parse; assumption.
    - apply R; [apply (wrap_false_level _ _ _ _ W) | exact HL | exact F | apply E; reflexivity].
  Qed.

  (* ---------------------------------------------------------------- atoms *)
  Lemma R_num v : Rspec (SNum v).
  Proof.
    intros L rest _ HL F _. apply (lift_up pe 0 L); [lia|reflexivity|intros; exact I|intros; exact I|exact F].
  Qed.

  Lemma R_var x : Rspec (SVar x).
  Proof.
    intros L rest _ HL F _. apply (lift_up pe 0 L); [lia| |intros; exact I|intros; exact I|exact F].
    simpl. destruct rest as [|t r]; [reflexivity|]. destruct t; simpl in F; try lia; reflexivity.
  Qed.

  Lemma R_paren e : covered e = true -> size e <= n -> Rspec (SParen e).
  Proof.
    intros C S L rest _ HL F _. simpl. rewrite <- app_assoc. simpl. apply paren_parse; assumption.
  Qed.

  (* ---------------------------------------------------------------- postfix ! and unary sign *)
  Lemma R_fact e : Ospec e -> Rspec (SFact e).
  Proof.
    intros O L rest HLv HL F _. simpl in HLv.
    apply (lift_up pe 1 L); [exact HLv| | | |exact F].
    - change (raw m (SFact e)) with (pr m 0 false e ++ [KBang]). rewrite <- app_assoc.
      change ([KBang] ++ rest) with (KBang :: rest).
      change (p_level pe 1) with (p_unsigned pe). unfold p_unsigned.
      change (p_atom pe) with (p_level pe 0).
      rewrite (O 0 false (KBang :: rest)); [reflexivity|lia|simpl; lia|intros; exact I].
    - intros _ _. simpl. rewrite <- app_assoc. apply low_nosign. apply (pr_low m 0 false e). lia.
    - intros _ _. simpl. rewrite <- app_assoc. apply mid_noterm, low_mid. apply (pr_low m 0 false e). lia.
  Qed.

  Lemma R_sign neg e : Ospec e -> Rspec (SSign neg e).
  Proof.
    intros O L rest HLv HL F _. simpl in HLv.
    apply (lift_up pe 2 L); [exact HLv| |intros; lia| |exact F].
    - assert (H : p_unsigned pe (pr m 1 false e ++ rest) = POk (desugar e, rest)).
      { apply (O 1 false rest); [lia|apply (follow_mono 1 L); [lia|exact F]|].
        intros W _ E. apply ends_u_level in E. apply wrap_false_level in W. lia. }
      unfold pr in H. simpl. destruct neg; simpl; rewrite H; reflexivity.
    - intros _ _. simpl. destruct neg; exact I.
  Qed.

  (* an operand parsed by the nested parse_expression (behind "[" "{" "," ":" "(" of a call) *)
  Lemma pe_operand x rest :
    covered x = true -> S (size x) <= n -> follow 10 rest ->
    pe (pr m 10 false x ++ rest) = POk (desugar x, rest).
  Proof.
    intros C Hsz F. unfold pr. rewrite parens_app. destruct (wrap m 10 false x).
    - change (KLP :: raw m x ++ KRP :: rest) with (KLP :: raw m x ++ [KRP] ++ rest).
      rewrite app_assoc. change (KLP :: (raw m x ++ [KRP]) ++ rest) with (raw m (SParen x) ++ rest).
      apply (Hpe (SParen x)); [exact C|simpl; lia|exact F].
    - apply Hpe; [exact C|lia|exact F].
  Qed.

  Lemma nexp_from s L rest :
    follow L rest -> (L <= 5 -> ends_u m s = true -> nexp rest) -> ends_u m s = true -> nexp rest.
  Proof.
    intros F E EU. destruct (le_lt_dec L 5) as [H|H]; [apply E; assumption|].
    apply (follow_nexp L); [lia|exact F].
  Qed.

  (* ---------------------------------------------------------------- string and instant literals *)
  Lemma R_str t : Rspec (SStr t).
  Proof.
    intros L rest HLv HL F _. simpl in HLv.
    apply (lift_up pe 5 L); [exact HLv|reflexivity|intros; lia|intros; lia|exact F].
  Qed.

  Lemma R_inst t : Rspec (SInst t).
  Proof.
    intros L rest HLv HL F _. simpl in HLv.
    apply (lift_up pe 5 L); [exact HLv|reflexivity|intros; lia|intros; lia|exact F].
  Qed.

  (* ---------------------------------------------------------------- quantities, ranges *)
  Lemma R_qty e u : usig_ok u = true -> Ospec e -> Rspec (SQty e u).
  Proof.
    intros OK O L rest HLv HL F E. simpl in HLv.
    assert (NX : nexp rest) by (apply (nexp_from (SQty e u) L); [exact F|exact E|destruct m; reflexivity]).
    assert (Hhd : exists v r, pr_usig u ++ rest = KVar v :: r).
    { destruct u as [[|[v z] us] inv]; [discriminate|]. unfold pr_usig. simpl. eauto. }
    destruct Hhd as (v & r & Hhd).
    apply (lift_up pe 3 L); [exact HLv| |intros; lia| |exact F].
    - change (raw m (SQty e u)) with (pr m 2 false e ++ pr_usig u). rewrite <- app_assoc.
      change (p_level pe 3) with (p_mq pe). unfold p_mq. change (p_unitless pe) with (p_level pe 2).
      rewrite (O 2 false (pr_usig u ++ rest)); [|lia|rewrite Hhd; simpl; lia|rewrite Hhd; intros; exact I].
      cbn [pbind]. rewrite (match_var _ _ _ v r Hhd).
      rewrite (p_usig_ok u rest OK); [reflexivity|].
      apply (usig_follow_of L); [exact HLv|exact F|exact NX].
    - intros _ _. change (raw m (SQty e u)) with (pr m 2 false e ++ pr_usig u). rewrite <- app_assoc.
      apply mid_noterm. apply pr_mid. lia.
  Qed.

  Lemma R_range a b : Ospec a -> Ospec b -> Rspec (SRange a b).
  Proof.
    intros Oa Ob L rest HLv HL F E. simpl in HLv.
    apply (lift_up pe 4 L); [exact HLv| |intros; lia| |exact F].
    - change (raw m (SRange a b)) with (pr m 3 false a ++ KDots :: pr m 3 false b). rewrite <- app_assoc.
      change ((KDots :: pr m 3 false b) ++ rest) with (KDots :: pr m 3 false b ++ rest).
      change (p_level pe 4) with (p_mr pe). unfold p_mr. change (p_mq pe) with (p_level pe 3).
      rewrite (Oa 3 false (KDots :: pr m 3 false b ++ rest)); [|lia|simpl; lia|intros; exact I].
      cbn [pbind].
      rewrite (Ob 3 false rest); [reflexivity|lia|apply (follow_mono 3 L); [lia|exact F]|].
      intros W _ EU. apply (nexp_from (SRange a b) L); [exact F|exact E|].
      destruct m; simpl in *.
      + apply orb_false_iff in W. destruct W as [W _]. apply negb_false_iff, Nat.leb_le in W.
        destruct b; simpl in *; try discriminate; try reflexivity; try lia.
        destruct op; simpl in *; try discriminate; lia.
      + apply negb_false_iff, Nat.eqb_eq in W. destruct b; simpl in *; try discriminate; lia.
    - intros _ _. change (raw m (SRange a b)) with (pr m 3 false a ++ KDots :: pr m 3 false b).
      rewrite <- app_assoc. apply mid_noterm. apply pr_mid. lia.
  Qed.

  (* ---------------------------------------------------------------- conversions, comparisons *)
  Lemma R_conv e u : usig_ok u = true -> Ospec e -> Rspec (SConv e u).
  Proof.
    intros OK O L rest HLv HL F _. simpl in HLv. assert (L = 10) by lia. subst L.
    change (raw m (SConv e u)) with (pr m 9 false e ++ KTo :: pr_usig u). rewrite <- app_assoc.
    change ((KTo :: pr_usig u) ++ rest) with (KTo :: pr_usig u ++ rest).
    change (p_level pe 10) with (p_expr pe). unfold p_expr. change (p_cmp pe) with (p_level pe 9).
    rewrite (O 9 false (KTo :: pr_usig u ++ rest)); [|lia|simpl; lia|intros; lia].
    cbn [pbind]. rewrite (p_usig_ok u rest OK); [reflexivity|].
    apply (usig_follow_of 10); [lia|exact F|apply (follow_nexp 10); [lia|exact F]].
  Qed.

  Lemma cmp_tok_level o : tok_level (tok_of_cmp o) = 9.
  Proof. destruct o; reflexivity. Qed.
  Lemma cmp_of_tok_of o : cmp_of_tok (tok_of_cmp o) = Some o.
  Proof. destruct o; reflexivity. Qed.
  Lemma no_cmp_follow rest L : 9 <= L -> follow L rest ->
    match rest with [] => True | t :: _ => cmp_of_tok t = None end.
  Proof. destruct rest as [|t r]; [tauto|]. destruct t; simpl; intros; try reflexivity; lia. Qed.

  Lemma R_cmp1 o a b : Ospec a -> Ospec b -> Rspec (SCmp1 o a b).
  Proof.
    intros Oa Ob L rest HLv HL F _. simpl in HLv.
    apply (lift_up pe 9 L); [exact HLv| |intros; lia|intros; lia|exact F].
    change (raw m (SCmp1 o a b)) with (pr m 8 false a ++ tok_of_cmp o :: pr m 8 false b). rewrite <- app_assoc.
    change ((tok_of_cmp o :: pr m 8 false b) ++ rest) with (tok_of_cmp o :: pr m 8 false b ++ rest).
    change (p_level pe 9) with (p_cmp pe). unfold p_cmp. change (p_sum pe) with (p_level pe 8).
    rewrite (Oa 8 false (tok_of_cmp o :: pr m 8 false b ++ rest)); [|lia|simpl; rewrite cmp_tok_level; lia|intros; lia].
    cbn [pbind]. rewrite cmp_of_tok_of.
    rewrite (Ob 8 false rest); [|lia|apply (follow_mono 8 L); [lia|exact F]|intros; lia].
    cbn [pbind]. pose proof (no_cmp_follow rest L HLv F) as N.
    destruct rest as [|t r]; [reflexivity|]. rewrite N. reflexivity.
  Qed.

  Lemma R_cmp2 o1 o2 a b c : Ospec a -> Ospec b -> Ospec c -> Rspec (SCmp2 o1 o2 a b c).
  Proof.
    intros Oa Ob Oc L rest HLv HL F _. simpl in HLv.
    apply (lift_up pe 9 L); [exact HLv| |intros; lia|intros; lia|exact F].
    change (raw m (SCmp2 o1 o2 a b c))
      with (pr m 8 false a ++ tok_of_cmp o1 :: pr m 8 false b ++ tok_of_cmp o2 :: pr m 8 false c).
    rewrite <- app_assoc.
    change ((tok_of_cmp o1 :: pr m 8 false b ++ tok_of_cmp o2 :: pr m 8 false c) ++ rest)
      with (tok_of_cmp o1 :: (pr m 8 false b ++ tok_of_cmp o2 :: pr m 8 false c) ++ rest).
    rewrite <- app_assoc.
    change ((tok_of_cmp o2 :: pr m 8 false c) ++ rest) with (tok_of_cmp o2 :: pr m 8 false c ++ rest).
    change (p_level pe 9) with (p_cmp pe). unfold p_cmp. change (p_sum pe) with (p_level pe 8).
    rewrite (Oa 8 false); [|lia|simpl; rewrite cmp_tok_level; lia|intros; lia].
    cbn [pbind]. rewrite cmp_of_tok_of.
    rewrite (Ob 8 false); [|lia|simpl; rewrite cmp_tok_level; lia|intros; lia].
    cbn [pbind]. rewrite cmp_of_tok_of.
    rewrite (Oc 8 false rest); [reflexivity|lia|apply (follow_mono 8 L); [lia|exact F]|intros; lia].
  Qed.

  (* ---------------------------------------------------------------- intervals *)
  Lemma R_interval a b :
    covered a = true -> covered b = true -> S (size a) <= n -> S (size b) <= n -> Rspec (SInterval a b).
  Proof.
    intros Ca Cb Sa Sb L rest HLv HL F _. simpl in HLv.
    apply (lift_up pe 5 L); [exact HLv| |intros; lia|intros; lia|exact F].
    change (raw m (SInterval a b)) with (KLBrack :: pr m 10 false a ++ KComma :: pr m 10 false b ++ [KRBrack]).
    change ((KLBrack :: pr m 10 false a ++ KComma :: pr m 10 false b ++ [KRBrack]) ++ rest)
      with (KLBrack :: (pr m 10 false a ++ KComma :: pr m 10 false b ++ [KRBrack]) ++ rest).
    rewrite <- app_assoc.
    change ((KComma :: pr m 10 false b ++ [KRBrack]) ++ rest) with (KComma :: (pr m 10 false b ++ [KRBrack]) ++ rest).
    rewrite <- app_assoc. change ([KRBrack] ++ rest) with (KRBrack :: rest).
    change (p_level pe 5 (KLBrack :: ?x)) with (p_interval pe x).
    unfold p_interval.
    rewrite (pe_operand a _ Ca Sa); [|simpl; lia]. cbn [pbind].
    rewrite (pe_operand b _ Cb Sb); [|simpl; lia]. reflexivity.
  Qed.

  (* ---------------------------------------------------------------- arrays *)
  Definition entry_of (e : sst) : list tok * ptree := (pr m 10 false e, desugar e).

  Lemma centries_of k l :
    follow 10 k -> (forall x, In x l -> covered x = true /\ S (size x) <= n) ->
    centries_ok pe k (map entry_of l).
  Proof.
    intros Fk. induction l as [|x l IH]; intros Hl; simpl; [exact I|]. split.
    - destruct (Hl x (or_introl eq_refl)) as [C Hsz].
      apply pe_operand; [exact C|exact Hsz|apply cflat_follow; exact Fk].
    - apply IH. intros y Hy. apply Hl. right. exact Hy.
  Qed.

  Lemma map_snd_entries l : map snd (map entry_of l) = map desugar l.
  Proof. rewrite map_map. reflexivity. Qed.

  Lemma R_arr l : (forall x, In x l -> covered x = true /\ S (size x) <= n) -> Rspec (SArr l).
  Proof.
    intros Hl L rest HLv HL F _. simpl in HLv.
    apply (lift_up pe 5 L); [exact HLv| |intros; lia|intros; lia|exact F].
    change (raw m (SArr l)) with (KLBrace :: join KComma (map (pr m 10 false) l) ++ [KRBrace]).
    change ((KLBrace :: join KComma (map (pr m 10 false) l) ++ [KRBrace]) ++ rest)
      with (KLBrace :: (join KComma (map (pr m 10 false) l) ++ [KRBrace]) ++ rest).
    rewrite <- app_assoc. change ([KRBrace] ++ rest) with (KRBrace :: rest).
    change (p_level pe 5 (KLBrace :: ?x)) with (p_array pe x).
    destruct l as [|x l']; [reflexivity|].
    change (map (pr m 10 false) (x :: l')) with (pr m 10 false x :: map (pr m 10 false) l').
    rewrite join_cons, <- app_assoc, (cflat_map (pr m 10 false) desugar l').
    change (map (fun b => (pr m 10 false b, desugar b)) l') with (map entry_of l').
    unfold p_array. rewrite (opener_not_rbrace _ (pr_opener m 10 false x _)).
    destruct (Hl x (or_introl eq_refl)) as [Cx Sx].
    assert (Fk : follow 10 (KRBrace :: rest)) by (simpl; lia).
    rewrite (pe_operand x _ Cx Sx (cflat_follow _ _ Fk)). cbn [pbind].
    assert (NC : starts_colon (cflat (map entry_of l') ++ KRBrace :: rest) = false)
      by (destruct l'; reflexivity).
    rewrite NC.
    rewrite (comma_loop_ok pe (KRBrace :: rest) I (map entry_of l')); [| |lia].
    - cbn [pbind]. rewrite map_snd_entries. reflexivity.
    - apply centries_of; [exact Fk|]. intros y Hy. apply Hl. right. exact Hy.
  Qed.

  (* ---------------------------------------------------------------- comprehensions *)
  Definition clpr (c : option string * sst) : list tok :=
    match fst c with
    | Some x => KVar x :: KIn :: pr m 10 false (snd c)
    | None => guard is_in (pr m 10 false (snd c))
    end.
  Definition clause_of (c : option string * sst) : list tok * (option string * ptree) :=
    (clpr c, (fst c, desugar (snd c))).

  Definition noin (k : list tok) : Prop := match k with KIn :: _ => False | _ => True end.

  Lemma p_clause_cond ts k :
    starts_var_with is_in ts = false -> ts <> [] -> noin k ->
    p_clause pe (ts ++ k) = dop (e, ts1) <- pe (ts ++ k); POk ((None, e), ts1).
  Proof.
    intros H NE Hk. destruct ts as [|t r]; [congruence|].
    destruct t; try reflexivity.
    destruct r as [|t' r']; simpl.
    - destruct k as [|t'' r'']; [reflexivity|]. destruct t''; try reflexivity. contradiction.
    - simpl in H. destruct t'; try reflexivity. discriminate.
  Qed.

  Lemma pr_nonempty L pl x k : pr m L pl x ++ k <> [].
  Proof.
    pose proof (pr_opener m L pl x k) as H. destruct (pr m L pl x ++ k); [contradiction|discriminate].
  Qed.

  Lemma pr_len L pl x : 1 <= List.length (pr m L pl x).
  Proof.
    pose proof (pr_opener m L pl x []) as H. rewrite app_nil_r in H.
    destruct (pr m L pl x); [contradiction|simpl; lia].
  Qed.

  Lemma clause_ok c k :
    covered (snd c) = true -> S (S (size (snd c))) <= n -> follow 10 k -> noin k ->
    p_clause pe (clpr c ++ k) = POk ((fst c, desugar (snd c)), k).
  Proof.
    intros C Hsz Fk Nk. destruct c as [[x|] e]; unfold clpr; simpl fst; simpl snd in *.
    - simpl. rewrite (pe_operand e k C); [reflexivity|lia|exact Fk].
    - unfold guard. destruct (starts_var_with is_in (pr m 10 false e)) eqn:G.
      + (* parenthesised: the text is that of (e) *)
        assert (W : wrap m 10 false e = false).
        { destruct (wrap m 10 false e) eqn:W; [|reflexivity]. unfold pr in G. rewrite W in G. discriminate. }
        unfold pr in *. rewrite W in *. unfold parens at 2. unfold parens.
        change ((KLP :: raw m e ++ [KRP]) ++ k) with (raw m (SParen e) ++ k).
        assert (HP : forall ts, p_clause pe (KLP :: ts) = dop (e0, ts1) <- pe (KLP :: ts); POk ((None, e0), ts1))
          by reflexivity.
        change (raw m (SParen e) ++ k) with (KLP :: (raw m e ++ [KRP]) ++ k) at 1. rewrite HP.
        change (KLP :: (raw m e ++ [KRP]) ++ k) with (raw m (SParen e) ++ k).
        rewrite (Hpe (SParen e)); [reflexivity|exact C|simpl; lia|exact Fk].
      + unfold parens. rewrite p_clause_cond; [|exact G| |exact Nk].
        * rewrite (pe_operand e k C); [reflexivity|lia|exact Fk].
        * pose proof (pr_nonempty 10 false e []) as H. rewrite app_nil_r in H. exact H.
  Qed.

  Lemma clentries_of k cl :
    follow 10 k -> noin k ->
    (forall c, In c cl -> covered (snd c) = true /\ S (S (size (snd c))) <= n) ->
    centries_ok (p_clause pe) k (map clause_of cl).
  Proof.
    intros Fk Nk. induction cl as [|c cl IH]; intros Hl; simpl; [exact I|]. split.
    - destruct (Hl c (or_introl eq_refl)) as [C Hsz].
      apply clause_ok; [exact C|exact Hsz|apply cflat_follow; exact Fk|].
      destruct cl; simpl; [exact Nk|exact I].
    - apply IH. intros y Hy. apply Hl. right. exact Hy.
  Qed.

  Lemma mk_compr_desugar b cl :
    mk_compr (desugar b) (map (fun c => (fst c, desugar (snd c))) cl) = desugar (SCompr b cl).
  Proof.
    unfold mk_compr. simpl. f_equal; induction cl as [|[[x|] e] cl IH]; simpl; congruence.
  Qed.

  Lemma R_compr body cl :
    covered body = true -> S (size body) <= n -> cl <> [] ->
    (forall c, In c cl -> covered (snd c) = true /\ S (S (size (snd c))) <= n) ->
    Rspec (SCompr body cl).
  Proof.
    intros Cb Sb NE Hl L rest HLv HL F _. simpl in HLv.
    apply (lift_up pe 5 L); [exact HLv| |intros; lia|intros; lia|exact F].
    change (raw m (SCompr body cl))
      with (KLBrace :: pr m 10 false body ++ KColon :: join KComma (map clpr cl) ++ [KRBrace]).
    change ((KLBrace :: pr m 10 false body ++ KColon :: join KComma (map clpr cl) ++ [KRBrace]) ++ rest)
      with (KLBrace :: (pr m 10 false body ++ KColon :: join KComma (map clpr cl) ++ [KRBrace]) ++ rest).
    rewrite <- app_assoc.
    change ((KColon :: join KComma (map clpr cl) ++ [KRBrace]) ++ rest)
      with (KColon :: (join KComma (map clpr cl) ++ [KRBrace]) ++ rest).
    rewrite <- app_assoc. change ([KRBrace] ++ rest) with (KRBrace :: rest).
    change (p_level pe 5 (KLBrace :: ?x)) with (p_array pe x).
    destruct cl as [|c cl']; [congruence|].
    change (map clpr (c :: cl')) with (clpr c :: map clpr cl').
    rewrite join_cons, <- app_assoc, (cflat_map clpr (fun c => (fst c, desugar (snd c))) cl').
    change (map (fun b => (clpr b, (fst b, desugar (snd b)))) cl') with (map clause_of cl').
    unfold p_array. rewrite (opener_not_rbrace _ (pr_opener m 10 false body _)).
    rewrite (pe_operand body _ Cb Sb); [|simpl; lia]. cbn [pbind].
    change (starts_colon (KColon :: ?x)) with true. cbv iota. change (tl (KColon :: ?x)) with x.
    assert (Fk : follow 10 (KRBrace :: rest)) by (simpl; lia).
    destruct (Hl c (or_introl eq_refl)) as [Cc Sc].
    rewrite (clause_ok c _ Cc Sc (cflat_follow _ _ Fk)); [|destruct cl'; simpl; exact I].
    cbn [pbind].
    rewrite (comma_loop_ok (p_clause pe) (KRBrace :: rest) I (map clause_of cl')); [| |lia].
    - cbn [pbind]. rewrite <- mk_compr_desugar. simpl map.
      rewrite map_map. reflexivity.
    - apply clentries_of; [exact Fk|exact I|]. intros y Hy. apply Hl. right. exact Hy.
  Qed.

  (* ---------------------------------------------------------------- function calls *)
  Definition kwpr (p : string * sst) : list tok := KVar (fst p) :: KColon :: pr m 10 false (snd p).
  Definition kentry_of (p : string * sst) : string * list tok * ptree :=
    (fst p, pr m 10 false (snd p), desugar (snd p)).

  Lemma kflat_map kw :
    flat_map (fun y => KComma :: y) (map kwpr kw) = kflat (map kentry_of kw).
  Proof. induction kw as [|p kw IH]; simpl; [reflexivity|]. rewrite IH. reflexivity. Qed.

  Lemma kentries_of r kw :
    (forall p, In p kw -> covered (snd p) = true /\ S (size (snd p)) <= n) ->
    kentries_ok pe (KRP :: r) (map kentry_of kw).
  Proof.
    induction kw as [|p kw IH]; intros Hl; simpl; [exact I|]. split.
    - destruct (Hl p (or_introl eq_refl)) as [C Hsz].
      apply pe_operand; [exact C|exact Hsz|apply kflat_follow].
    - apply IH. intros y Hy. apply Hl. right. exact Hy.
  Qed.

  (* the keyword part: "k : v , k : v )" *)
  Definition kwtext (kw : list (string * sst)) : list tok :=
    match kw with [] => [] | p :: more => kwpr p ++ kflat (map kentry_of more) end.

  Lemma kw_phase kw r fuel :
    (forall p, In p kw -> covered (snd p) = true /\ S (size (snd p)) <= n) ->
    List.length (kwtext kw ++ KRP :: r) < fuel ->
    kw_args pe fuel true (kwtext kw ++ KRP :: r)
    = POk (map (fun p => (fst p, desugar (snd p))) kw, KRP :: r).
  Proof.
    intros Hl Hf. destruct fuel as [|f]; [lia|].
    destruct kw as [|p more]; [reflexivity|].
    unfold kwtext, kwpr in *. cbn [app] in *. rewrite <- app_assoc in *.
    simpl kw_args.
    destruct (Hl p (or_introl eq_refl)) as [C Hsz].
    rewrite (pe_operand (snd p) _ C Hsz (kflat_follow _ _)). cbn [pbind].
    rewrite (kw_tail pe (map kentry_of more) r).
    - rewrite map_map. reflexivity.
    - apply kentries_of. intros y Hy. apply Hl. right. exact Hy.
    - simpl in Hf. rewrite app_length in Hf. lia.
  Qed.

  Lemma pentries_of k l :
    follow 10 k -> nocolon k ->
    (forall x, In x l -> covered x = true /\ S (size x) <= n) ->
    pentries_ok pe k (map entry_of l).
  Proof.
    intros Fk Nk. induction l as [|x l IH]; intros Hl; simpl; [exact I|]. split; [|split].
    - destruct (Hl x (or_introl eq_refl)) as [C Hsz].
      apply pe_operand; [exact C|exact Hsz|apply cflat_follow; exact Fk].
    - apply pr_no_var_colon. destruct l; simpl; [exact Nk|exact I].
    - apply IH. intros y Hy. apply Hl. right. exact Hy.
  Qed.

  Lemma call_text args kw :
    join KComma (map (pr m 10 false) args ++ map kwpr kw)
    = match args with
      | [] => kwtext kw
      | a :: more =>
          pr m 10 false a ++ cflat (map entry_of more)
            ++ match kw with [] => [] | _ => KComma :: kwtext kw end
      end.
  Proof.
    destruct args as [|a more].
    - simpl. destruct kw as [|p kw']; [reflexivity|].
      change (map kwpr (p :: kw')) with (kwpr p :: map kwpr kw').
      rewrite join_cons, kflat_map. reflexivity.
    - change (map (pr m 10 false) (a :: more) ++ map kwpr kw)
        with (pr m 10 false a :: (map (pr m 10 false) more ++ map kwpr kw)).
      rewrite join_cons, flat_map_app, (cflat_map (pr m 10 false) desugar more).
      change (map (fun b => (pr m 10 false b, desugar b)) more) with (map entry_of more).
      destruct kw as [|p kw']; [reflexivity|].
      change (map kwpr (p :: kw')) with (kwpr p :: map kwpr kw').
      simpl flat_map. rewrite kflat_map. reflexivity.
  Qed.

  Lemma R_call f args kw :
    (forall x, In x args -> covered x = true /\ S (size x) <= n) ->
    (forall p, In p kw -> covered (snd p) = true /\ S (size (snd p)) <= n) ->
    Rspec (SCall f args kw).
  Proof.
    intros Ha Hk L rest _ HL F _.
    apply (lift_up pe 0 L); [lia| |intros; exact I|intros; exact I|exact F].
    change (raw m (SCall f args kw))
      with (KVar f :: KLP :: join KComma (map (pr m 10 false) args ++ map kwpr kw) ++ [KRP]).
    change ((KVar f :: KLP :: join KComma (map (pr m 10 false) args ++ map kwpr kw) ++ [KRP]) ++ rest)
      with (KVar f :: KLP :: (join KComma (map (pr m 10 false) args ++ map kwpr kw) ++ [KRP]) ++ rest).
    rewrite <- app_assoc. change ([KRP] ++ rest) with (KRP :: rest).
    change (p_level pe 0 (KVar f :: KLP :: ?x)) with (p_call pe f x).
    rewrite call_text. unfold p_call.
    destruct args as [|a more].
    - (* no positional argument *)
      assert (HP : pos_args pe (S (List.length (kwtext kw ++ KRP :: rest))) true (kwtext kw ++ KRP :: rest)
                   = POk ([], kwtext kw ++ KRP :: rest)).
      { destruct kw as [|p kw']; reflexivity. }
      rewrite HP. cbn [pbind]. rewrite (kw_phase kw rest _ Hk); [reflexivity|lia].
    - destruct (Ha a (or_introl eq_refl)) as [Ca Sa].
      assert (Hmore : forall x, In x more -> covered x = true /\ S (size x) <= n)
        by (intros x Hx; apply Ha; right; exact Hx).
      rewrite <- !app_assoc.
      destruct kw as [|p kw'].
      + (* positional arguments only *)
        cbn [app].
        set (T := cflat (map entry_of more) ++ KRP :: rest).
        assert (FT : follow 10 T) by (apply cflat_follow; simpl; lia).
        assert (NT : nocolon T) by (unfold T; destruct more; exact I).
        assert (HP : pos_args pe (S (List.length (pr m 10 false a ++ T))) true (pr m 10 false a ++ T)
                     = POk (desugar a :: map desugar more, KRP :: rest)).
        { simpl pos_args. rewrite (opener_not_rp _ (pr_opener m 10 false a T)).
          rewrite (pr_no_var_colon m 10 false a T NT).
          rewrite (pe_operand a T Ca Sa FT). cbn [pbind]. unfold T.
          rewrite (pos_tail_rp pe (map entry_of more) rest).
          - rewrite map_snd_entries. reflexivity.
          - apply pentries_of; [simpl; lia|exact I|exact Hmore].
          - pose proof (pr_len 10 false a). rewrite (app_length (pr m 10 false a)). fold T. lia. }
        rewrite HP. cbn [pbind]. reflexivity.
      + (* positional, then keyword arguments *)
        set (K := kwtext (p :: kw') ++ KRP :: rest).
        assert (HK : K = KVar (fst p) :: KColon :: (pr m 10 false (snd p) ++ kflat (map kentry_of kw') ++ KRP :: rest)).
        { unfold K, kwtext, kwpr. cbn [app]. rewrite <- app_assoc. reflexivity. }
        change ((KComma :: kwtext (p :: kw')) ++ KRP :: rest) with (KComma :: K).
        set (T := cflat (map entry_of more) ++ KComma :: K).
        assert (FT : follow 10 T) by (apply cflat_follow; simpl; lia).
        assert (NT : nocolon T) by (unfold T; destruct more; exact I).
        assert (HP : pos_args pe (S (List.length (pr m 10 false a ++ T))) true (pr m 10 false a ++ T)
                     = POk (desugar a :: map desugar more, K)).
        { simpl pos_args. rewrite (opener_not_rp _ (pr_opener m 10 false a T)).
          rewrite (pr_no_var_colon m 10 false a T NT).
          rewrite (pe_operand a T Ca Sa FT). cbn [pbind]. unfold T. rewrite HK.
          rewrite (pos_tail_kw pe (map entry_of more)).
          - rewrite map_snd_entries. reflexivity.
          - apply pentries_of; [simpl; lia|exact I|exact Hmore].
          - pose proof (pr_len 10 false a). rewrite (app_length (pr m 10 false a)). rewrite <- HK. fold T. lia. }
        rewrite HP. cbn [pbind]. unfold K. rewrite (kw_phase (p :: kw') rest _ Hk); [reflexivity|lia].
  Qed.

  (* ---------------------------------------------------------------- the binary levels *)
  Section Step.
    Variable k : nat.
    Hypothesis Hk : k <= n.
    Hypothesis IHk : forall x, size x <= k -> covered x = true -> Rspec x.

    Lemma O_k x : size x <= k -> covered x = true -> Ospec x.
    Proof. intros Hsz C. apply O_of_R; [exact C|lia|apply IHk; assumption]. Qed.

    Definition item_of (L : nat) (ob : binop * sst) : item :=
      (tok_of_bin (fst ob), pr m (pred L) false (snd ob), desugar (snd ob)).

    (* an operand in front of the remaining items of a chain *)
    Lemma operand_in_chain Lb x pl items rest :
      binL Lb -> size x <= k -> covered x = true -> follow Lb rest ->
      items_ok (p_level pe (pred Lb)) (isop_of Lb) rest items ->
      (wrap m (pred Lb) pl x = false -> Lb = 6 -> ends_u m x = true -> nexp (flat_items items ++ rest)) ->
      p_level pe (pred Lb) (pr m (pred Lb) pl x ++ flat_items items ++ rest)
      = POk (desugar x, flat_items items ++ rest).
    Proof.
      intros HLb Hsz C F Hok E.
      apply (O_k x Hsz C).
      - destruct HLb as [->|[->| ->]]; simpl; lia.
      - destruct items as [|it more].
        + simpl. apply (follow_mono _ Lb); [lia|exact F].
        + destruct (items_head _ _ _ _ Hok) as (t & k' & Heq & Hop); [congruence|].
          rewrite Heq. simpl. rewrite (isop_level Lb t HLb Hop). destruct HLb as [->|[->| ->]]; simpl; lia.
      - intros W HL5 EU. apply E; [exact W| |exact EU].
        destruct HLb as [->|[->| ->]]; simpl in HL5; [reflexivity|lia|lia].
    Qed.

    (* LEFT SPINE: the text of s, a left operand of level Lb, followed by the remaining items of
       the chain, folds to the left *)
    Lemma chain Lb : binL Lb -> forall s,
      covered s = true -> size s <= S k ->
      (is_binL Lb s = true \/ size s <= k) ->
      (is_binL Lb s = true \/ wrap m Lb (Lb =? 6) s = false) ->
      forall items rest,
      follow Lb rest ->
      items_ok (p_level pe (pred Lb)) (isop_of Lb) rest items ->
      (Lb = 6 -> ends_u m s = true -> nexp (flat_items items ++ rest)) ->
      binlevel (p_level pe (pred Lb)) (isop_of Lb) (raw m s ++ flat_items items ++ rest)
      = POk (fold_items (isop_of Lb) items (desugar s), rest).
    Proof.
      intros HLb.
      assert (BASE : forall s, covered s = true -> size s <= S k ->
                (is_binL Lb s = true \/ size s <= k) ->
                (is_binL Lb s = true \/ wrap m Lb (Lb =? 6) s = false) ->
                is_binL Lb s = false ->
                forall items rest, follow Lb rest ->
                items_ok (p_level pe (pred Lb)) (isop_of Lb) rest items ->
                (Lb = 6 -> ends_u m s = true -> nexp (flat_items items ++ rest)) ->
                binlevel (p_level pe (pred Lb)) (isop_of Lb) (raw m s ++ flat_items items ++ rest)
                = POk (fold_items (isop_of Lb) items (desugar s), rest)).
      { intros s C Hsz [HB|HS] [HB'|HW] NB items rest F Hok E; try congruence.
        apply binlevel_correct; [apply noop_of; assumption| |exact Hok].
        assert (W' : wrap m (pred Lb) (Lb =? 6) s = false).
        { assert (HSL : S (pred Lb) = Lb) by (destruct HLb as [->|[->| ->]]; reflexivity).
          rewrite (wrap_pred m (pred Lb) (Lb =? 6) s); rewrite HSL; [exact HW|].
          right. apply not_binL_level; [exact HLb|exact NB|apply (wrap_false_level _ _ _ _ HW)]. }
        pose proof (operand_in_chain Lb s (Lb =? 6) items rest HLb HS C F Hok) as H.
        unfold pr in H. rewrite W' in H. simpl in H. apply H. intros _. exact E. }
      induction s; intros C Hsz HS HW items rest F Hok E;
        try (apply BASE; [assumption..|reflexivity|assumption|assumption|assumption]).
      (* SBin *)
      destruct (Nat.eq_dec (binlevel_of op) Lb) as [EB|NEB];
        [|apply BASE; try assumption; simpl; apply Nat.eqb_neq; exact NEB].
      simpl in C. apply andb_true_iff in C. destruct C as [C1 C2].
      simpl in Hsz.
      (* the right operand, as an item in front of the remaining ones *)
      assert (Hitem : items_ok (p_level pe (pred Lb)) (isop_of Lb) rest (item_of Lb (op, s2) :: items)).
      { simpl. split; [rewrite (isop_tok Lb op HLb EB); congruence|]. split; [|exact Hok].
        apply (operand_in_chain Lb s2 false items rest HLb); [lia|exact C2|exact F|exact Hok|].
        intros W HL6 EU. apply E; [exact HL6|].
        rewrite HL6 in EB, W. destruct op; simpl in EB; try discriminate.
        apply ends_u_pow_right; assumption. }
      assert (Hfold : fold_items (isop_of Lb) (item_of Lb (op, s2) :: items) (desugar s1)
                      = fold_items (isop_of Lb) items (desugar (SBin op s1 s2))).
      { unfold fold_items. simpl. rewrite (isop_tok Lb op HLb EB). reflexivity. }
      assert (Htext : raw m (SBin op s1 s2) ++ flat_items items ++ rest
                      = parens (wrap m Lb (Lb =? 6) s1) (raw m s1) ++ flat_items (item_of Lb (op, s2) :: items) ++ rest).
      { simpl. rewrite (binlevel_powleft op Lb EB), EB. unfold pr.
        rewrite <- ?app_assoc. simpl. rewrite <- ?app_assoc. reflexivity. }
      rewrite Htext, <- Hfold.
      destruct (wrap m Lb (Lb =? 6) s1) eqn:W1.
      - (* parenthesised left operand: it is the head of the chain *)
        simpl parens. apply binlevel_correct; [apply noop_of; assumption| |exact Hitem].
        destruct (items_head _ _ _ _ Hitem) as (t & k' & Heq & Hop); [congruence|].
        rewrite Heq. cbn [app]. rewrite <- app_assoc. cbn [app].
        apply paren_parse; [exact C1|lia| |].
        + destruct HLb as [->|[->| ->]]; simpl; lia.
        + simpl. rewrite (isop_level Lb t HLb Hop). destruct HLb as [->|[->| ->]]; simpl; lia.
      - (* unparenthesised: go down the spine *)
        simpl parens. apply IHs1; [exact C1|lia|right; lia|right; reflexivity|exact F|exact Hitem|].
        intros HL6 EU. rewrite HL6 in W1. simpl Nat.eqb in W1. rewrite (wrap_false_endsu _ _ _ W1) in EU. discriminate.
    Qed.

    Lemma R_bin o a b : covered (SBin o a b) = true -> size (SBin o a b) <= S k -> Rspec (SBin o a b).
    Proof.
      intros C Hsz L rest HLv HL F _.
      assert (HLb : binL (binlevel_of o)) by (destruct o; simpl; unfold binL; lia).
      assert (Hlv : level (SBin o a b) = binlevel_of o) by (destruct o; reflexivity).
      apply (lift_up pe (binlevel_of o) L); [lia| |intros; destruct o; simpl in *; lia|intros; destruct o; simpl in *; lia|exact F].
      rewrite (p_level_bin pe _ HLb).
      pose proof (chain (binlevel_of o) HLb (SBin o a b) C Hsz) as H.
      specialize (H (or_introl (Nat.eqb_refl _)) (or_introl (Nat.eqb_refl _)) [] rest).
      simpl flat_items in H. simpl app in H. apply H.
      - apply (follow_mono _ L); [lia|exact F].
      - exact I.
      - intros HL6 _. apply (follow_nexp L); [lia|exact F].
    Qed.
  End Step.

  (* ---------------------------------------------------------------- all trees of the fragment *)
  Lemma R_all : forall k s, size s <= k -> k <= S n -> covered s = true -> Rspec s.
  Proof.
    induction k as [|k IH]; intros s Hsz Hk C.
    - destruct s; simpl in Hsz; lia.
    - assert (IHk : forall x, size x <= k -> covered x = true -> Rspec x)
        by (intros x Sx Cx; apply (IH x Sx); [lia|exact Cx]).
      assert (Hk' : k <= n) by lia.
      destruct s; simpl in C; try discriminate.
      + apply R_num.
      + apply R_var.
      + apply R_str.
      + apply R_inst.
      + apply R_paren; [exact C|simpl in Hsz; lia].
      + apply R_sign. apply (O_k k Hk' IHk); [simpl in Hsz; lia|exact C].
      + apply R_fact. apply (O_k k Hk' IHk); [simpl in Hsz; lia|exact C].
      + apply (R_bin k Hk' IHk); assumption.
      + apply andb_true_iff in C. destruct C as [C1 C2]. simpl in Hsz.
        apply R_range; apply (O_k k Hk' IHk); (lia || assumption).
      + apply andb_true_iff in C. destruct C as [C1 C2]. simpl in Hsz.
        apply R_interval; (lia || assumption).
      + apply andb_true_iff in C. destruct C as [C1 C2]. simpl in Hsz. apply R_call.
        * intros x Hx. split; [rewrite forallb_forall in C1; apply C1; exact Hx|].
          pose proof (size_in args x Hx). lia.
        * intros p Hp. split; [rewrite forallb_forall in C2; apply (C2 p Hp)|].
          pose proof (size_in_snd kw p Hp). lia.
      + apply R_arr. intros x Hx. split.
        * rewrite forallb_forall in C. apply C. exact Hx.
        * simpl in Hsz. pose proof (size_in l x Hx). lia.
      + apply andb_true_iff in C. destruct C as [C C3]. apply andb_true_iff in C. destruct C as [C1 C2].
        simpl in Hsz. pose proof (size_pos s) as Hpos. apply R_compr.
        * exact C1.
        * lia.
        * destruct cl; [discriminate|congruence].
        * intros c Hc. split; [rewrite forallb_forall in C3; apply (C3 c Hc)|].
          pose proof (size_in_snd cl c Hc). lia.
      + apply andb_true_iff in C. destruct C as [C1 C2]. simpl in Hsz.
        apply R_qty; [exact C2|]. apply (O_k k Hk' IHk); (lia || assumption).
      + apply andb_true_iff in C. destruct C as [C1 C2]. simpl in Hsz.
        apply R_conv; [exact C2|]. apply (O_k k Hk' IHk); (lia || assumption).
      + apply andb_true_iff in C. destruct C as [C1 C2]. simpl in Hsz.
        apply R_cmp1; apply (O_k k Hk' IHk); (lia || assumption).
      + apply andb_true_iff in C. destruct C as [C C3]. apply andb_true_iff in C. destruct C as [C1 C2].
        simpl in Hsz. apply R_cmp2; apply (O_k k Hk' IHk); (lia || assumption).
  Qed.
End Round.

(* closing the knot: parse_expression on enough fuel *)
Lemma parse_expression_ok m : forall f s, covered s = true -> size s <= f ->
  forall rest, follow 10 rest -> parse_expression f (raw m s ++ rest) = POk (desugar s, rest).
Proof.
  induction f as [|f IH]; intros s C Hsz rest F.
  - destruct s; simpl in Hsz; lia.
  - change (parse_expression (S f)) with (p_level (parse_expression f) 10).
    apply (R_all m (parse_expression f) f IH (S f) s Hsz (le_n _) C 10 rest); [apply level_le_10|lia|exact F|intros; lia].
Qed.

Lemma len_parens b ts : List.length ts <= List.length (parens b ts).
Proof. destruct b; simpl; rewrite ?app_length; simpl; lia. Qed.

Lemma len_usig u : usig_ok u = true -> 1 <= List.length (pr_usig u).
Proof.
  destruct u as [[|[v z] us] inv]; [discriminate|]. intros _. unfold pr_usig. simpl. lia.
Qed.

Ltac len_parens_tac :=
  repeat match goal with
         | |- context [List.length (parens ?b ?ts)] =>
             let H := fresh "HP" in
             pose proof (len_parens b ts) as H;
             let np := fresh "np" in
             set (np := List.length (parens b ts)) in *; clearbody np
         end.

Lemma sst_size_ind (P : sst -> Prop) :
  (forall s, (forall x, size x < size s -> P x) -> P s) -> forall s, P s.
Proof.
  intros H. assert (G : forall k s, size s <= k -> P s).
  { induction k as [|k IH]; intros s Hs.
    - pose proof (size_pos s). lia.
    - apply H. intros x Hx. apply IH. lia. }
  intros s. apply (G (size s)). lia.
Qed.

(* total length of a list of texts, and of their comma-separated concatenation *)
Definition total (ls : list (list tok)) : nat := fold_right (fun x k => List.length x + k) 0 ls.

Lemma total_app a b : total (a ++ b) = total a + total b.
Proof. induction a as [|x a IH]; simpl; [reflexivity|]. rewrite IH. lia. Qed.

Lemma total_flat sep ls : total ls <= List.length (flat_map (fun y => sep :: y) ls).
Proof. induction ls as [|x ls IH]; simpl; [lia|]. rewrite app_length. lia. Qed.

Lemma join_len sep ls : total ls <= List.length (join sep ls).
Proof.
  destruct ls as [|x ls]; [simpl; lia|]. rewrite join_cons, app_length. simpl.
  pose proof (total_flat sep ls). lia.
Qed.

Lemma total_map {B} (g : B -> nat) (f : B -> list tok) l :
  (forall x, In x l -> g x <= List.length (f x)) ->
  fold_right (fun x k => g x + k) 0 l <= total (map f l).
Proof.
  induction l as [|x l IH]; intros H; simpl; [lia|].
  pose proof (H x (or_introl eq_refl)). assert (forall y, In y l -> g y <= List.length (f y)) by (intros; apply H; right; assumption).
  specialize (IH H1). lia.
Qed.

Lemma size_le_raw m : forall s, covered s = true -> size s <= List.length (raw m s).
Proof.
  apply (sst_size_ind (fun s => covered s = true -> size s <= List.length (raw m s))).
  intros s IH C.
  assert (IHp : forall x, size x < size s -> covered x = true -> size x <= List.length (parens (wrap m 10 false x) (raw m x))).
  { intros x Hx Cx. pose proof (IH x Hx Cx). pose proof (len_parens (wrap m 10 false x) (raw m x)). lia. }
  destruct s; simpl in C |- *; try lia.
  - pose proof (IH s ltac:(simpl; lia) C). rewrite app_length. simpl. lia.
  - pose proof (IH s ltac:(simpl; lia) C). len_parens_tac. lia.
  - pose proof (IH s ltac:(simpl; lia) C). rewrite app_length. simpl. len_parens_tac. lia.
  - apply andb_true_iff in C. destruct C as [C1 C2].
    pose proof (IH s1 ltac:(simpl; lia) C1). pose proof (IH s2 ltac:(simpl; lia) C2).
    rewrite app_length. simpl. len_parens_tac. lia.
  - apply andb_true_iff in C. destruct C as [C1 C2].
    pose proof (IH s1 ltac:(simpl; lia) C1). pose proof (IH s2 ltac:(simpl; lia) C2).
    rewrite app_length. simpl. len_parens_tac. lia.
  - apply andb_true_iff in C. destruct C as [C1 C2].
    pose proof (IH s1 ltac:(simpl; lia) C1). pose proof (IH s2 ltac:(simpl; lia) C2).
    rewrite !app_length. simpl. rewrite !app_length. simpl. len_parens_tac. lia.
  - (* SCall *)
    apply andb_true_iff in C. destruct C as [C1 C2].
    rewrite app_length. simpl.
    match goal with |- context [join KComma ?ls] => pose proof (join_len KComma ls) as HJ end.
    rewrite total_app in HJ.
    pose proof (total_map size (fun e => parens (wrap m 10 false e) (raw m e)) args) as HA.
    pose proof (total_map (fun p => size (snd p))
                  (fun p : string * sst => KVar (fst p) :: KColon :: parens (wrap m 10 false (snd p)) (raw m (snd p))) kw) as HK.
    assert (G1 : forall x, In x args -> size x <= List.length (parens (wrap m 10 false x) (raw m x))).
    { intros x Hx. apply IHp; [pose proof (size_in args x Hx); simpl; lia|].
      rewrite forallb_forall in C1. apply C1. exact Hx. }
    assert (G2 : forall p, In p kw -> size (snd p) <=
              List.length (KVar (fst p) :: KColon :: parens (wrap m 10 false (snd p)) (raw m (snd p)))).
    { intros p Hp. simpl.
      assert (size (snd p) <= List.length (parens (wrap m 10 false (snd p)) (raw m (snd p)))).
      { apply IHp; [pose proof (size_in_snd kw p Hp); simpl; lia|].
        rewrite forallb_forall in C2. apply (C2 p Hp). }
      lia. }
    specialize (HA G1). specialize (HK G2). lia.
  - (* SArr *)
    rewrite app_length. simpl.
    match goal with |- context [join KComma ?ls] => pose proof (join_len KComma ls) as HJ end.
    pose proof (total_map size (fun e => parens (wrap m 10 false e) (raw m e)) l) as HA.
    assert (G1 : forall x, In x l -> size x <= List.length (parens (wrap m 10 false x) (raw m x))).
    { intros x Hx. apply IHp; [pose proof (size_in l x Hx); simpl; lia|].
      rewrite forallb_forall in C. apply C. exact Hx. }
    specialize (HA G1). lia.
  - (* SCompr *)
    apply andb_true_iff in C. destruct C as [C C3]. apply andb_true_iff in C. destruct C as [C1 C2].
    pose proof (IHp s ltac:(simpl; lia) C1) as Hb.
    rewrite !app_length. simpl. rewrite !app_length. simpl.
    match goal with |- context [join KComma ?ls] => pose proof (join_len KComma ls) as HJ end.
    match type of HJ with context [map ?f cl] =>
      pose proof (total_map (fun c : option string * sst => size (snd c)) f cl) as HA end.
    assert (G2 : forall c, In c cl -> covered (snd c) = true /\ size (snd c) < size (SCompr s cl)).
    { intros c Hc. split; [rewrite forallb_forall in C3; apply (C3 c Hc)|].
      pose proof (size_in_snd cl c Hc). simpl. lia. }
    match type of HA with (?X -> _) => assert (G3 : X) end.
    { intros c Hc. destruct (G2 c Hc) as [Cc Sc]. pose proof (IHp (snd c) Sc Cc) as Hc'.
      destruct (fst c); [simpl; lia|]. unfold guard.
      match goal with |- context [parens ?b (parens ?b2 ?ts)] => pose proof (len_parens b (parens b2 ts)) end. lia. }
    specialize (HA G3). lia.
  - apply andb_true_iff in C. destruct C as [C1 C2].
    pose proof (IH s ltac:(simpl; lia) C1). rewrite app_length. pose proof (len_usig u C2). len_parens_tac. lia.
  - apply andb_true_iff in C. destruct C as [C1 C2].
    pose proof (IH s ltac:(simpl; lia) C1). rewrite app_length. simpl. len_parens_tac. lia.
  - apply andb_true_iff in C. destruct C as [C1 C2].
    pose proof (IH s1 ltac:(simpl; lia) C1). pose proof (IH s2 ltac:(simpl; lia) C2).
    rewrite app_length. simpl. len_parens_tac. lia.
  - apply andb_true_iff in C. destruct C as [C C3]. apply andb_true_iff in C. destruct C as [C1 C2].
    pose proof (IH s1 ltac:(simpl; lia) C1). pose proof (IH s2 ltac:(simpl; lia) C2). pose proof (IH s3 ltac:(simpl; lia) C3).
    rewrite !app_length. simpl. rewrite !app_length. simpl. len_parens_tac. lia.
Qed.
