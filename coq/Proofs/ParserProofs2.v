(* ParserProofs2.v — C02, part 2: the round trip  parse (print s) = desugar s  for the proved
   fragment of the surface syntax, by induction on the size of s, level by level.

   Shape.  [Rspec s]: at every level L >= level s the level-L parser, run on the text of s
   followed by any continuation [rest] that level L does not consume, returns (desugar s, rest).
   [Ospec x]: the same for an operand x printed at a position (L, powleft), parenthesised or
   not as the printer decides.  Nested expressions (inside parentheses) go through [pe], which
   is assumed correct for smaller trees ([Hpe]); [parse_expression_ok] closes the knot by
   induction on the fuel. *)
From Coq Require Import Lia List Arith Bool.
From Ka Require Import Model.Parser Model.Printer Proofs.ParserProofs.
Local Open Scope nat_scope.

(* ------------------------------------------------------------------ the proved fragment *)
Fixpoint covered (s : sst) : bool :=
  match s with
  | SNum _ | SVar _ => true
  | SParen e | SSign _ e | SFact e => covered e
  | SBin _ a b => covered a && covered b
  | _ => false
  end.

(* the text of s (operands unparenthesised as the mode decides) ends in a unit signature *)
Definition ends_u (m : mode) (s : sst) : bool :=
  match m with Min => ends_units s | Full => is_qty s end.

(* ------------------------------------------------------------------ facts about the printer *)
Lemma level_le_10 s : level s <= 10.
Proof. destruct s; simpl; try lia. destruct op; simpl; lia. Qed.

Lemma wrap_false_level m L pl s : wrap m L pl s = false -> level s <= L.
Proof.
  destruct m; simpl.
  - intros H. apply orb_false_iff in H. destruct H as [H _].
    apply negb_false_iff in H. apply Nat.leb_le in H. exact H.
  - intros H. apply negb_false_iff in H. apply Nat.eqb_eq in H. lia.
Qed.

Lemma ends_u_level m s : ends_u m s = true -> 3 <= level s.
Proof.
  destruct m; simpl.
  - destruct s; simpl; try discriminate; try lia. destruct op; simpl; try discriminate; lia.
  - destruct s; simpl; try discriminate; lia.
Qed.

Lemma wrap_false_endsu m L s : wrap m L true s = false -> ends_u m s = false.
Proof.
  destruct m; simpl.
  - intros H. apply orb_false_iff in H. destruct H as [_ H]. exact H.
  - intros H. apply negb_false_iff in H. apply Nat.eqb_eq in H.
    destruct s; simpl in *; try reflexivity; lia.
Qed.

(* the position one level tighter prints an operand the same way when it is parenthesised
   already or fits there *)
Lemma wrap_pred m L pl s :
  (wrap m (S L) pl s = true \/ level s <= L) -> wrap m L pl s = wrap m (S L) pl s.
Proof.
  destruct m; simpl; [|reflexivity].
  intros [H|H].
  - rewrite H. apply orb_true_iff in H. apply orb_true_iff. destruct H as [H|H]; [left|right; exact H].
    apply negb_true_iff in H. apply negb_true_iff. apply Nat.leb_gt in H. apply Nat.leb_gt. lia.
  - replace (level s <=? L) with true by (symmetry; apply Nat.leb_le; lia).
    replace (level s <=? S L) with true by (symmetry; apply Nat.leb_le; lia). reflexivity.
Qed.

(* first tokens *)
Definition low (ts : list tok) : Prop :=
  match ts with KLP :: _ | KNum _ :: _ | KVar _ :: _ => True | _ => False end.
Definition mid (ts : list tok) : Prop :=
  match ts with KLP :: _ | KNum _ :: _ | KVar _ :: _ | KPlus :: _ | KMinus :: _ => True | _ => False end.

Lemma low_nosign ts : low ts -> nosign ts.
Proof. destruct ts as [|t r]; simpl; [tauto|]. destruct t; simpl; tauto. Qed.
Lemma low_mid ts : low ts -> mid ts.
Proof. destruct ts as [|t r]; simpl; [tauto|]. destruct t; simpl; tauto. Qed.
Lemma mid_noterm ts : mid ts -> notermatom ts.
Proof. destruct ts as [|t r]; simpl; [tauto|]. destruct t; simpl; tauto. Qed.

Lemma parens_app b ts k : parens b ts ++ k = if b then KLP :: ts ++ KRP :: k else ts ++ k.
Proof. destruct b; simpl; [|reflexivity]. rewrite <- app_assoc. reflexivity. Qed.

Lemma first_tokens m s : forall k,
  (level s <= 1 -> low (raw m s ++ k)) /\ (level s <= 4 -> mid (raw m s ++ k)).
Proof.
  induction s; intros k; simpl; split; intros HL; try exact I; try lia.
  - (* SSign *) destruct neg; exact I.
  - (* SFact *) rewrite <- app_assoc, parens_app. destruct (wrap m 0 false s) eqn:W; [exact I|].
    apply IHs. apply wrap_false_level in W. lia.
  - rewrite <- app_assoc, parens_app. destruct (wrap m 0 false s) eqn:W; [exact I|].
    apply low_mid. apply IHs. apply wrap_false_level in W. lia.
  - destruct op; simpl in HL; lia.
  - destruct op; simpl in HL; lia.
  - (* SRange *) rewrite <- app_assoc, parens_app. destruct (wrap m 3 false s1) eqn:W; [exact I|].
    apply IHs1. apply wrap_false_level in W. lia.
  - (* SQty *) rewrite <- app_assoc, parens_app. destruct (wrap m 2 false s) eqn:W; [exact I|].
    apply IHs. apply wrap_false_level in W. lia.
Qed.

Lemma pr_low m L pl x k : L <= 1 -> low (pr m L pl x ++ k).
Proof.
  intros HL. unfold pr. rewrite parens_app. destruct (wrap m L pl x) eqn:W; [exact I|].
  apply first_tokens. apply wrap_false_level in W. lia.
Qed.

Lemma pr_mid m L pl x k : L <= 4 -> mid (pr m L pl x ++ k).
Proof.
  intros HL. unfold pr. rewrite parens_app. destruct (wrap m L pl x) eqn:W; [exact I|].
  apply first_tokens. apply wrap_false_level in W. lia.
Qed.

(* ------------------------------------------------------------------ the binary levels *)
Definition isop_of (L : nat) : tok -> option string :=
  match L with 6 => pow_op | 7 => mul_op | _ => add_op end.

Definition binL (L : nat) : Prop := L = 6 \/ L = 7 \/ L = 8.

Lemma p_level_bin pe L : binL L ->
  p_level pe L = binlevel (p_level pe (pred L)) (isop_of L).
Proof. intros [->|[->| ->]]; reflexivity. Qed.

Lemma isop_tok L o : binL L -> binlevel_of o = L -> isop_of L (tok_of_bin o) = Some (bin_name o).
Proof. intros [->|[->| ->]]; destruct o; simpl; intros H; try discriminate; reflexivity. Qed.

Lemma isop_level L t : binL L -> isop_of L t <> None -> tok_level t = L.
Proof. intros [->|[->| ->]]; destruct t; simpl; intros H; try congruence; reflexivity. Qed.

Lemma noop_of L rest : binL L -> follow L rest -> noop (isop_of L) rest.
Proof.
  intros [->|[->| ->]]; [apply noop_pow | apply noop_mul | apply noop_add].
Qed.

Lemma binlevel_powleft o L : binlevel_of o = L ->
  (match o with BPow => true | _ => false end) = (L =? 6).
Proof. intros <-. destruct o; reflexivity. Qed.

Definition is_binL (L : nat) (s : sst) : bool :=
  match s with SBin o _ _ => binlevel_of o =? L | _ => false end.

Lemma not_binL_level L s : binL L -> is_binL L s = false -> level s <= L -> level s <= pred L.
Proof.
  intros HL. unfold binL in HL. destruct s; simpl; try lia.
  destruct HL as [->|[->| ->]]; destruct op; simpl; intros; try discriminate; lia.
Qed.

(* ------------------------------------------------------------------ the round trip *)
Section Round.
  Variable m : mode.
  Variable pe : parser ptree.
  Variable n : nat.
  Hypothesis Hpe : forall s, covered s = true -> size s <= n -> forall rest, follow 10 rest ->
                    pe (raw m s ++ rest) = POk (desugar s, rest).

  Definition Rspec (s : sst) : Prop :=
    forall L rest, level s <= L -> L <= 10 -> follow L rest ->
      (L <= 5 -> ends_u m s = true -> nexp rest) ->
      p_level pe L (raw m s ++ rest) = POk (desugar s, rest).

  Definition Ospec (x : sst) : Prop :=
    forall L pl rest, L <= 10 -> follow L rest ->
      (wrap m L pl x = false -> L <= 5 -> ends_u m x = true -> nexp rest) ->
      p_level pe L (pr m L pl x ++ rest) = POk (desugar x, rest).

  (* a parenthesised expression, at any level *)
  Lemma paren_parse x L rest :
    covered x = true -> size x <= n -> L <= 10 -> follow L rest ->
    p_level pe L (KLP :: raw m x ++ KRP :: rest) = POk (desugar x, rest).
  Proof.
    intros C Hsz HL F.
    apply (lift_up pe 0 L); [lia| |intros; exact I|intros; exact I|exact F].
    simpl. rewrite (Hpe x C Hsz (KRP :: rest)); [reflexivity|]. simpl. lia.
  Qed.

  Lemma O_of_R x : covered x = true -> size x <= n -> Rspec x -> Ospec x.
  Proof.
    intros C Hsz R L pl rest HL F E. unfold pr. rewrite parens_app.
    destruct (wrap m L pl x) eqn:W.
    - apply paren_parse; assumption.
    - apply R; [apply (wrap_false_level _ _ _ _ W) | exact HL | exact F | apply E; reflexivity].
  Qed.

  (* ---------------------------------------------------------------- atoms *)
  Lemma R_num v : Rspec (SNum v).
  Proof.
    intros L rest _ HL F _. apply (lift_up pe 0 L); [lia|reflexivity|intros; exact I|intros; exact I|exact F].
  Qed.

  Lemma R_var x : Rspec (SVar x).
  Proof.
    intros L rest _ HL F _. apply (lift_up pe 0 L); [lia| |intros; exact I|intros; exact I|exact F].
    simpl. destruct rest as [|t r]; [reflexivity|]. destruct t; simpl in F; try lia; reflexivity.
  Qed.

  Lemma R_paren e : covered e = true -> size e <= n -> Rspec (SParen e).
  Proof.
    intros C S L rest _ HL F _. simpl. rewrite <- app_assoc. simpl. apply paren_parse; assumption.
  Qed.

  (* ---------------------------------------------------------------- postfix ! and unary sign *)
  Lemma R_fact e : Ospec e -> Rspec (SFact e).
  Proof.
    intros O L rest HLv HL F _. simpl in HLv.
    apply (lift_up pe 1 L); [exact HLv| | | |exact F].
    - change (raw m (SFact e)) with (pr m 0 false e ++ [KBang]). rewrite <- app_assoc.
      change ([KBang] ++ rest) with (KBang :: rest).
      change (p_level pe 1) with (p_unsigned pe). unfold p_unsigned.
      change (p_atom pe) with (p_level pe 0).
      rewrite (O 0 false (KBang :: rest)); [reflexivity|lia|simpl; lia|intros; exact I].
    - intros _ _. simpl. rewrite <- app_assoc. apply low_nosign. apply (pr_low m 0 false e). lia.
    - intros _ _. simpl. rewrite <- app_assoc. apply mid_noterm, low_mid. apply (pr_low m 0 false e). lia.
  Qed.

  Lemma R_sign neg e : Ospec e -> Rspec (SSign neg e).
  Proof.
    intros O L rest HLv HL F _. simpl in HLv.
    apply (lift_up pe 2 L); [exact HLv| |intros; lia| |exact F].
    - assert (H : p_unsigned pe (pr m 1 false e ++ rest) = POk (desugar e, rest)).
      { apply (O 1 false rest); [lia|apply (follow_mono 1 L); [lia|exact F]|].
        intros W _ E. apply ends_u_level in E. apply wrap_false_level in W. lia. }
      unfold pr in H. simpl. destruct neg; simpl; rewrite H; reflexivity.
    - intros _ _. simpl. destruct neg; exact I.
  Qed.

  (* ---------------------------------------------------------------- the binary levels *)
  Section Step.
    Variable k : nat.
    Hypothesis Hk : k <= n.
    Hypothesis IHk : forall x, size x <= k -> covered x = true -> Rspec x.

    Lemma O_k x : size x <= k -> covered x = true -> Ospec x.
    Proof. intros Hsz C. apply O_of_R; [exact C|lia|apply IHk; assumption]. Qed.

    Definition item_of (L : nat) (ob : binop * sst) : item :=
      (tok_of_bin (fst ob), pr m (pred L) false (snd ob), desugar (snd ob)).

    (* an operand in front of the remaining items of a chain *)
    Lemma operand_in_chain Lb x pl items rest :
      binL Lb -> size x <= k -> covered x = true -> follow Lb rest ->
      items_ok (p_level pe (pred Lb)) (isop_of Lb) rest items ->
      (wrap m (pred Lb) pl x = false -> Lb = 6 -> ends_u m x = true -> nexp (flat_items items ++ rest)) ->
      p_level pe (pred Lb) (pr m (pred Lb) pl x ++ flat_items items ++ rest)
      = POk (desugar x, flat_items items ++ rest).
    Proof.
      intros HLb Hsz C F Hok E.
      apply (O_k x Hsz C).
      - destruct HLb as [->|[->| ->]]; simpl; lia.
      - destruct items as [|it more].
        + simpl. apply (follow_mono _ Lb); [lia|exact F].
        + destruct (items_head _ _ _ _ Hok) as (t & k' & Heq & Hop); [congruence|].
          rewrite Heq. simpl. rewrite (isop_level Lb t HLb Hop). destruct HLb as [->|[->| ->]]; simpl; lia.
      - intros W HL5 EU. apply E; [exact W| |exact EU].
        destruct HLb as [->|[->| ->]]; simpl in HL5; [reflexivity|lia|lia].
    Qed.

    (* LEFT SPINE: the text of s, a left operand of level Lb, followed by the remaining items of
       the chain, folds to the left *)
    Lemma chain Lb : binL Lb -> forall s,
      covered s = true -> size s <= S k ->
      (is_binL Lb s = true \/ size s <= k) ->
      (is_binL Lb s = true \/ wrap m Lb (Lb =? 6) s = false) ->
      forall items rest,
      follow Lb rest ->
      items_ok (p_level pe (pred Lb)) (isop_of Lb) rest items ->
      (Lb = 6 -> ends_u m s = true -> nexp (flat_items items ++ rest)) ->
      binlevel (p_level pe (pred Lb)) (isop_of Lb) (raw m s ++ flat_items items ++ rest)
      = POk (fold_items (isop_of Lb) items (desugar s), rest).
    Proof.
      intros HLb.
      assert (BASE : forall s, covered s = true -> size s <= S k ->
                (is_binL Lb s = true \/ size s <= k) ->
                (is_binL Lb s = true \/ wrap m Lb (Lb =? 6) s = false) ->
                is_binL Lb s = false ->
                forall items rest, follow Lb rest ->
                items_ok (p_level pe (pred Lb)) (isop_of Lb) rest items ->
                (Lb = 6 -> ends_u m s = true -> nexp (flat_items items ++ rest)) ->
                binlevel (p_level pe (pred Lb)) (isop_of Lb) (raw m s ++ flat_items items ++ rest)
                = POk (fold_items (isop_of Lb) items (desugar s), rest)).
      { intros s C Hsz [HB|HS] [HB'|HW] NB items rest F Hok E; try congruence.
        apply binlevel_correct; [apply noop_of; assumption| |exact Hok].
        assert (W' : wrap m (pred Lb) (Lb =? 6) s = false).
        { assert (HSL : S (pred Lb) = Lb) by (destruct HLb as [->|[->| ->]]; reflexivity).
          rewrite (wrap_pred m (pred Lb) (Lb =? 6) s); rewrite HSL; [exact HW|].
          right. apply not_binL_level; [exact HLb|exact NB|apply (wrap_false_level _ _ _ _ HW)]. }
        pose proof (operand_in_chain Lb s (Lb =? 6) items rest HLb HS C F Hok) as H.
        unfold pr in H. rewrite W' in H. simpl in H. apply H. intros _. exact E. }
      induction s; intros C Hsz HS HW items rest F Hok E;
        try (apply BASE; [assumption..|reflexivity|assumption|assumption|assumption]).
      (* SBin *)
      destruct (is_binL Lb (SBin op s1 s2)) eqn:EB;
        [|apply BASE; assumption].
      simpl in EB. apply Nat.eqb_eq in EB.
      simpl in C. apply andb_true_iff in C. destruct C as [C1 C2].
      simpl in Hsz.
      (* the right operand, as an item in front of the remaining ones *)
      assert (Hitem : items_ok (p_level pe (pred Lb)) (isop_of Lb) rest (item_of Lb (op, s2) :: items)).
      { simpl. split; [rewrite (isop_tok Lb op HLb EB); congruence|]. split; [|exact Hok].
        apply (operand_in_chain Lb s2 false items rest HLb); [lia|exact C2|exact F|exact Hok|].
        intros W HL6 EU. apply E; [exact HL6|].
        subst Lb. destruct op; simpl in EB; try discriminate. clear - W EU.
        destruct m; simpl in *.
        - apply orb_false_iff in W. destruct W as [W _]. apply negb_false_iff, Nat.leb_le in W.
          destruct s2; simpl in *; try discriminate; try lia; try reflexivity.
          + destruct op; simpl in *; try discriminate; lia.
          + exact EU.
        - apply negb_false_iff, Nat.eqb_eq in W. destruct s2; simpl in *; try discriminate; lia. }
      assert (Hfold : fold_items (isop_of Lb) (item_of Lb (op, s2) :: items) (desugar s1)
                      = fold_items (isop_of Lb) items (desugar (SBin op s1 s2))).
      { unfold fold_items. simpl. rewrite (isop_tok Lb op HLb EB). reflexivity. }
      assert (Htext : raw m (SBin op s1 s2) ++ flat_items items ++ rest
                      = parens (wrap m Lb (Lb =? 6) s1) (raw m s1) ++ flat_items (item_of Lb (op, s2) :: items) ++ rest).
      { simpl. rewrite (binlevel_powleft op Lb EB), EB. rewrite <- app_assoc. simpl.
        unfold pr. rewrite <- app_assoc. reflexivity. }
      rewrite Htext, <- Hfold.
      destruct (wrap m Lb (Lb =? 6) s1) eqn:W1.
      - (* parenthesised left operand: it is the head of the chain *)
        simpl parens. apply binlevel_correct; [apply noop_of; assumption| |exact Hitem].
        rewrite <- app_assoc. simpl.
        destruct (items_head _ _ _ _ Hitem) as (t & k' & Heq & Hop); [congruence|].
        apply paren_parse; [exact C1|lia| |].
        + destruct HLb as [->|[->| ->]]; simpl; lia.
        + rewrite Heq. simpl. rewrite (isop_level Lb t HLb Hop). destruct HLb as [->|[->| ->]]; simpl; lia.
      - (* unparenthesised: go down the spine *)
        simpl parens. apply IHs1; [exact C1|lia|right; lia|right; exact W1|exact F|exact Hitem|].
        intros HL6 EU. subst Lb. simpl in W1. rewrite (wrap_false_endsu _ _ _ W1) in EU. discriminate.
    Qed.

    Lemma R_bin o a b : covered (SBin o a b) = true -> size (SBin o a b) <= S k -> Rspec (SBin o a b).
    Proof.
      intros C S L rest HLv HL F _.
      assert (HLb : binL (binlevel_of o)) by (destruct o; simpl; unfold binL; lia).
      assert (Hlv : level (SBin o a b) = binlevel_of o) by (destruct o; reflexivity).
      apply (lift_up pe (binlevel_of o) L); [lia| |intros; destruct o; simpl in *; lia|intros; destruct o; simpl in *; lia|exact F].
      rewrite (p_level_bin pe _ HLb).
      pose proof (chain (binlevel_of o) HLb (SBin o a b) C Hsz) as H.
      specialize (H (or_introl (Nat.eqb_refl _)) (or_introl (Nat.eqb_refl _)) [] rest).
      simpl flat_items in H. simpl app in H. apply H.
      - apply (follow_mono _ L); [lia|exact F].
      - exact I.
      - intros HL6 _. apply (follow_nexp L); [lia|exact F].
    Qed.
  End Step.

  (* ---------------------------------------------------------------- all trees of the fragment *)
  Lemma R_all : forall k s, size s <= k -> k <= S n -> covered s = true -> Rspec s.
  Proof.
    induction k as [|k IH]; intros s Hsz Hk C.
    - destruct s; simpl in Hsz; lia.
    - assert (IHk : forall x, size x <= k -> covered x = true -> Rspec x)
        by (intros x Sx Cx; apply (IH x Sx); [lia|exact Cx]).
      assert (Hk' : k <= n) by lia.
      destruct s; simpl in C; try discriminate.
      + apply R_num.
      + apply R_var.
      + apply R_paren; [exact C|simpl in Hsz; lia].
      + apply R_sign. apply (O_k k Hk' IHk); [simpl in Hsz; lia|exact C].
      + apply R_fact. apply (O_k k Hk' IHk); [simpl in Hsz; lia|exact C].
      + apply (R_bin k Hk' IHk); assumption.
  Qed.
End Round.

(* closing the knot: parse_expression on enough fuel *)
Lemma parse_expression_ok m : forall f s, covered s = true -> size s <= f ->
  forall rest, follow 10 rest -> parse_expression f (raw m s ++ rest) = POk (desugar s, rest).
Proof.
  induction f as [|f IH]; intros s C Hsz rest F.
  - destruct s; simpl in Hsz; lia.
  - change (parse_expression (S f)) with (p_level (parse_expression f) 10).
    apply (R_all m (parse_expression f) f IH (S f) s Hsz (le_n _) C 10 rest); [apply level_le_10|lia|exact F|intros; lia].
Qed.

Lemma size_le_raw m s : covered s = true -> size s <= List.length (raw m s).
Proof.
  induction s; simpl; intros C; try discriminate; try lia.
  - rewrite app_length. simpl. specialize (IHs C). lia.
  - specialize (IHs C). destruct (wrap m 1 false s); simpl; rewrite ?app_length; simpl; lia.
  - specialize (IHs C). rewrite app_length. destruct (wrap m 0 false s); simpl; rewrite ?app_length; simpl; lia.
  - apply andb_true_iff in C. destruct C as [C1 C2]. specialize (IHs1 C1). specialize (IHs2 C2).
    rewrite app_length. simpl.
    destruct (wrap m (binlevel_of op) _ s1), (wrap m (pred (binlevel_of op)) false s2);
      simpl; rewrite ?app_length; simpl; lia.
Qed.
