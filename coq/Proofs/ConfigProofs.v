(* Proofs about Model/Config.v.  The facts about the regenerated tables (which exception classes
   the handlers name, the built-in currency table, the option kinds) enter as hypotheses of the
   section and are discharged in Properties/C19.v with GenFacts/ConfigFacts.v. *)
From Coq Require Import Lia Ascii.
From Ka Require Import Model.Config Proofs.CurrencyProofs.
Local Open Scope string_scope.

(* ------------------------------------------------------------------ text lemmas *)
Lemma split1_app sep a b : contains sep a = false -> split1 sep (a ++ String sep b) = Some (a, b).
Proof.
  induction a as [|c a IH]; cbn.
  - intros _. rewrite Ascii.eqb_refl. reflexivity.
  - intros H. apply orb_false_elim in H as [H1 H2]. rewrite H1, (IH H2). reflexivity.
Qed.

Lemma lstrip_sub ch : forall s, contains ch (lstrip s) = true -> contains ch s = true.
Proof.
  induction s as [|c s IH]; cbn; [auto|].
  destruct (is_space c); [|auto]. intros H. rewrite (IH H). apply orb_true_r.
Qed.
Lemma rstrip_sub ch : forall s, contains ch (rstrip s) = true -> contains ch s = true.
Proof.
  induction s as [|c s IH]; cbn [rstrip]; [auto|].
  destruct (rstrip s) as [|a b] eqn:E.
  - destruct (is_space c); cbn; [discriminate|]. rewrite orb_false_r. intros ->. reflexivity.
  - cbn [contains] in *. intros H. apply orb_prop in H as [H|H]; [rewrite H; reflexivity|].
    rewrite (IH H). apply orb_true_r.
Qed.
Lemma strip_sub ch s : contains ch (strip s) = true -> contains ch s = true.
Proof. unfold strip. intros H. apply lstrip_sub, rstrip_sub, H. Qed.

Lemma neq_count c ch : is_space c = true -> is_space ch = false -> Ascii.eqb c ch = false.
Proof. intros H1 H2. destruct (Ascii.eqb c ch) eqn:E; [|reflexivity]. apply Ascii.eqb_eq in E. congruence. Qed.

Lemma lstrip_count ch : is_space ch = false -> forall s, count_char ch (lstrip s) = count_char ch s.
Proof.
  intros Hs. induction s as [|c s IH]; cbn; [reflexivity|].
  destruct (is_space c) eqn:E; [|reflexivity]. rewrite (neq_count c ch E Hs), IH. reflexivity.
Qed.
Lemma rstrip_count ch : is_space ch = false -> forall s, count_char ch (rstrip s) = count_char ch s.
Proof.
  intros Hs. induction s as [|c s IH]; cbn [rstrip]; [reflexivity|].
  destruct (rstrip s) as [|a b] eqn:E.
  - cbn [count_char] in *. rewrite <- IH. destruct (is_space c) eqn:Ec.
    + rewrite (neq_count c ch Ec Hs). reflexivity.
    + reflexivity.
  - cbn [count_char] in *. rewrite IH. reflexivity.
Qed.
(* stripping removes no occurrence of a non-blank character *)
Lemma strip_count ch s : is_space ch = false -> count_char ch (strip s) = count_char ch s.
Proof. intros Hs. unfold strip. rewrite (rstrip_count ch Hs), (lstrip_count ch Hs). reflexivity. Qed.

(* ------------------------------------------------------------------ the configuration reader *)
Fixpoint last_effect (k : string) (ls : list string) : option cval :=
  match ls with
  | [] => None
  | l :: r =>
      match last_effect k r with
      | Some v => Some v
      | None => match line_effect l with
                | ESet k' v => if String.eqb k k' then Some v else None
                | _ => None
                end
      end
  end.

Lemma apply_lines_assoc k : forall ls c w,
  assoc k (fst (apply_lines (c, w) ls))
  = match last_effect k ls with Some v => Some v | None => assoc k c end.
Proof.
  induction ls as [|l ls IH]; intros c w; cbn [apply_lines fold_left last_effect]; [reflexivity|].
  fold (apply_lines (apply_line (c, w) l) ls).
  destruct (apply_line (c, w) l) as [c1 w1] eqn:A. rewrite IH.
  destruct (last_effect k ls); [reflexivity|].
  unfold apply_line in A. destruct (line_effect l) as [k' v|w'|]; cbn [fst snd] in A; injection A as <- <-.
  - cbn [assoc]. destruct (String.eqb k k'); reflexivity.
  - reflexivity.
  - reflexivity.
Qed.

Lemma last_effect_none k post :
  (forall l' v', In l' post -> line_effect l' <> ESet k v') -> last_effect k post = None.
Proof.
  induction post as [|l post IH]; intros H; cbn [last_effect]; [reflexivity|].
  rewrite IH; [|intros l' v' I; apply H; right; exact I].
  destruct (line_effect l) as [k' v| |] eqn:E; try reflexivity.
  destruct (String.eqb k k') eqn:Ek; [|reflexivity].
  apply String.eqb_eq in Ek. subst k'. exfalso. apply (H l v); [left; reflexivity|exact E].
Qed.

Lemma last_effect_app k v l : forall pre post,
  line_effect l = ESet k v ->
  (forall l' v', In l' post -> line_effect l' <> ESet k v') ->
  last_effect k (pre ++ l :: post) = Some v.
Proof.
  induction pre as [|p pre IH]; intros post E H; cbn [app last_effect].
  - rewrite (last_effect_none k post H), E, String.eqb_refl. reflexivity.
  - rewrite (IH post E H). reflexivity.
Qed.

(* every binding of the CONFIG dict was put there by a line that passed all the checks *)
Definition cfg_from_lines (c : config) : Prop :=
  Forall (fun kv => exists l, line_effect l = ESet (fst kv) (snd kv)) c.

Lemma apply_lines_from_lines : forall ls c w,
  cfg_from_lines c -> cfg_from_lines (fst (apply_lines (c, w) ls)).
Proof.
  induction ls as [|l ls IH]; intros c w H; cbn [apply_lines fold_left]; [exact H|].
  fold (apply_lines (apply_line (c, w) l) ls).
  destruct (apply_line (c, w) l) as [c1 w1] eqn:A. apply IH.
  unfold apply_line in A. destruct (line_effect l) as [k' v|w'|] eqn:E; cbn [fst snd] in A; injection A as <- <-; try exact H.
  constructor; [|exact H]. exists l. exact E.
Qed.

Lemma assoc_in {A} k (l : list (string * A)) v : assoc k l = Some v -> In (k, v) l.
Proof.
  induction l as [|[k' v'] l IH]; cbn; [discriminate|].
  destruct (String.eqb k k') eqn:E.
  - apply String.eqb_eq in E. subst. intros [= ->]. left. reflexivity.
  - intros H. right. exact (IH H).
Qed.

Lemma find_prop_name name p : prop_of name = Some p -> cp_name p = name.
Proof.
  unfold prop_of. intros H. apply find_in in H as [_ H]. apply String.eqb_eq in H. exact H.
Qed.

(* a stored value of a numeric option is an integer in [0, 2^31) *)
Lemma line_effect_num l k v p :
  line_effect l = ESet k v -> prop_of k = Some p -> cp_num p = true ->
  exists z, v = VInt z /\ (0 <= z < max_num)%Z.
Proof.
  unfold line_effect. destruct (split1 ch_eq l) as [[k0 v0]|]; [|discriminate].
  destruct (prop_of (strip k0)) as [p0|] eqn:P0; [|discriminate].
  destruct (cp_num p0) eqn:N0.
  - destruct (parse_int (strip v0)) as [z|]; [|discriminate].
    destruct (z <? 0)%Z eqn:Z0; [discriminate|].
    destruct (max_num <=? z)%Z eqn:Z1; [discriminate|].
    destruct (cp_bool p0); [discriminate|].
    intros [= <- <-] _ _. exists z. split; [reflexivity|]. lia.
  - destruct (cp_bool p0).
    + destruct (String.eqb (strip v0) "true"); [|destruct (String.eqb (strip v0) "false")];
        try discriminate; intros [= <- <-] P N; rewrite P0 in P; injection P as <-; congruence.
    + intros [= <- <-] P N. rewrite P0 in P. injection P as <-. congruence.
Qed.

Section WithFacts.
  Hypothesis HC : handlers_catch.
  Hypothesis HT : builtin_table_ok.
  Hypothesis HP : props_okb = true.

  Let HC_cfg_io := proj1 HC.
  Let HC_cfg_dec := proj1 (proj2 HC).
  Let HC_cur_io := proj1 (proj2 (proj2 HC)).
  Let HC_cur_dec := proj1 (proj2 (proj2 (proj2 HC))).
  Let HC_cur_val := proj1 (proj2 (proj2 (proj2 (proj2 HC)))).
  Let HC_hl_io := proj1 (proj2 (proj2 (proj2 (proj2 (proj2 HC))))).
  Let HC_hl_dec := proj1 (proj2 (proj2 (proj2 (proj2 (proj2 (proj2 HC)))))).
  Let HC_hs := proj2 (proj2 (proj2 (proj2 (proj2 (proj2 (proj2 HC)))))).

  (* read_config always returns; only a readable, decodable regular file changes the dict *)
  Lemma read_config_ok s c :
    exists c' w, read_config s c = POk (c', w) /\
      match s with
      | Bytes true text => (c', w) = apply_lines (c, []) (readlines (universal_newlines text))
      | _ => c' = c
      end.
  Proof.
    unfold read_config, read_config_file, try_.
    destruct s as [| |e|[|] text]; cbn [path_exists path_isfile negb andb open_read pbind].
    - eauto.
    - eauto.
    - rewrite HC_cfg_io. eauto.
    - destruct (apply_lines (c, []) (readlines (universal_newlines text))) as [c' w] eqn:E.
      exists c', w. auto.
    - rewrite HC_cfg_dec. eauto.
  Qed.

  Lemma read_config_from_lines s c c' w :
    cfg_from_lines c -> read_config s c = POk (c', w) -> cfg_from_lines c'.
  Proof.
    intros H R. destruct (read_config_ok s c) as (c2 & w2 & R2 & M). rewrite R in R2.
    injection R2 as <- <-. destruct s as [| |e|[|] text]; try (subst; exact H).
    pose proof (apply_lines_from_lines (readlines (universal_newlines text)) c [] H) as A.
    rewrite <- M in A. exact A.
  Qed.

  (* ---------------------------------------------------------------- currency table *)
  Lemma parse_rows_positive pf : forall ls t, parse_rows pf ls = PTable t -> rates_positive t.
  Proof.
    induction ls as [|l ls IH]; intros t; cbn [parse_rows].
    - intros [= <-]. constructor.
    - destruct (is_blank l); [apply IH|].
      destruct (split_on ch_comma l) as [|f0 [|f1 [|f2 r]]]; try discriminate.
      destruct (pf f2) as [q|]; [|discriminate].
      destruct (Qle_bool q 0) eqn:Q; [discriminate|].
      destruct (parse_rows pf ls) as [t'| |]; try discriminate.
      intros [= <-]. constructor; [|apply IH; reflexivity].
      cbn. apply Qle_bool_false_pos. exact Q.
  Qed.

  (* the table in use is the built-in one unless the file gives a non-empty table *)
  Lemma load_currency_cases pf c fs :
    (exists w, load_currency_data pf c fs = POk (currency_data, false, w)) \/
    (exists text x t,
        fs (path_of c "currency-path") = Bytes true text
        /\ parse_currency_data pf (universal_newlines text) = PTable (x :: t)
        /\ load_currency_data pf c fs = POk (x :: t, true, [])).
  Proof.
    unfold load_currency_data, try_.
    destruct (fs (path_of c "currency-path")) as [| |e|[|] text] eqn:S;
      cbn [path_exists open_read pbind fst snd].
    - left. eauto.
    - pose proof (HC_cur_io EIsADirectory) as Hd. cbn [ioerr_name] in Hd. rewrite Hd. left. cbn [pbind fst snd]. eauto.
    - rewrite HC_cur_io. left. cbn [pbind fst snd]. eauto.
    - destruct (parse_currency_data pf (universal_newlines text)) as [[|x t]| |] eqn:P; cbn [pbind fst snd].
      + left. eauto.
      + right. exists text, x, t. auto.
      + left. eauto.
      + rewrite HC_cur_val. cbn [pbind fst snd]. left. eauto.
    - rewrite HC_cur_dec. left. cbn [pbind fst snd]. eauto.
  Qed.

  Lemma builtin_positive : rates_positive currency_data.
  Proof.
    destruct HT as [H _]. unfold rates_positiveb in H. unfold rates_positive.
    apply Forall_forall. intros c Hc. rewrite forallb_forall in H. specialize (H c Hc).
    apply Qle_bool_false_pos. destruct (Qle_bool (c_rate c) 0); [discriminate|reflexivity].
  Qed.

  Lemma load_currency_positive pf c fs t b w :
    load_currency_data pf c fs = POk (t, b, w) -> rates_positive t /\ t <> [].
  Proof.
    intros L. destruct (load_currency_cases pf c fs) as [(w' & L')|(text & x & t' & _ & P & L')];
      rewrite L in L'; injection L' as -> -> ->.
    - split; [exact builtin_positive|exact (proj2 HT)].
    - split; [|discriminate]. exact (parse_rows_positive pf _ _ P).
  Qed.

  Lemma select_base_has configured t b : select_base configured t = Some b -> has_currency b t = true.
  Proof.
    unfold select_base. destruct (has_currency configured t) eqn:H1; [intros [= <-]; exact H1|].
    destruct (has_currency default_base_currency t) eqn:H2; [intros [= <-]; exact H2|discriminate].
  Qed.

  Lemma registry_for_ok nn t configured :
    rates_positive t -> exists r, registry_for nn t configured = POk r.
  Proof.
    intros Hp. unfold registry_for. destruct (select_base configured t) as [b|] eqn:S; [|eauto].
    destruct (registration_never_raises nn pre_names pre_syms t b Hp (select_base_has _ _ _ S))
      as (st & bb & _ & _ & R & _).
    rewrite R. cbn [pbind]. eauto.
  Qed.

  (* ---------------------------------------------------------------- start-up *)
  Theorem startup_starts pf nn fs : exists s, startup pf nn fs = Started s.
  Proof.
    unfold startup.
    destruct (read_config_ok (fs PConfig) []) as (c1 & w1 & R1 & _). rewrite R1.
    destruct (load_currency_data pf c1 fs) as [[[t b] w2]|e] eqn:L.
    2:{ destruct (load_currency_cases pf c1 fs) as [(w' & L')|(? & ? & ? & _ & _ & L')]; congruence. }
    destruct (load_currency_positive pf c1 fs t b w2 L) as [Hp _].
    destruct (registry_for_ok nn t (cfg_str c1 "base-currency") Hp) as (r & Rg). rewrite Rg.
    destruct (read_config_ok (fs PConfig) c1) as (c2 & w3 & R2 & _). rewrite R2.
    eauto.
  Qed.

  (* what the started state is made of *)
  Lemma startup_inv pf nn fs s : startup pf nn fs = Started s ->
    exists c1 w1 w3,
      read_config (fs PConfig) [] = POk (c1, w1)
      /\ read_config (fs PConfig) c1 = POk (st_cfg s, w3)
      /\ load_currency_data pf c1 fs = POk (st_table s, st_from_file s, st_printed s)
      /\ registry_for nn (st_table s) (cfg_str c1 "base-currency") = POk (st_reg s).
  Proof.
    unfold startup.
    destruct (read_config (fs PConfig) []) as [[c1 w1]|] eqn:R1; [|discriminate].
    destruct (load_currency_data pf c1 fs) as [[[t b] w2]|] eqn:L; [|discriminate].
    destruct (registry_for nn t (cfg_str c1 "base-currency")) as [r|] eqn:G; [|discriminate].
    destruct (read_config (fs PConfig) c1) as [[c2 w3]|] eqn:R2; [|discriminate].
    intros [= <-]. cbn [st_cfg st_table st_from_file st_printed st_reg]. exists c1, w1, w3.
    rewrite R2, L, G. repeat split; reflexivity.
  Qed.

  (* reading the file twice (ka.config.get at import, then main) gives what one reading gives *)
  Lemma startup_cfg_lookup pf nn fs s text k :
    fs PConfig = Bytes true text -> startup pf nn fs = Started s ->
    assoc k (st_cfg s) = last_effect k (readlines (universal_newlines text)).
  Proof.
    intros F S. destruct (startup_inv pf nn fs s S) as (c1 & w1 & w3 & R1 & R2 & _).
    rewrite F in R1, R2.
    destruct (read_config_ok (Bytes true text) []) as (a1 & b1 & Q1 & M1). rewrite R1 in Q1.
    injection Q1 as <- <-.
    destruct (read_config_ok (Bytes true text) c1) as (a2 & b2 & Q2 & M2). rewrite R2 in Q2.
    injection Q2 as <- <-.
    pose proof (apply_lines_assoc k (readlines (universal_newlines text)) c1 []) as A2.
    rewrite <- M2 in A2. cbn [fst] in A2.
    pose proof (apply_lines_assoc k (readlines (universal_newlines text)) [] []) as A1.
    rewrite <- M1 in A1. cbn [fst assoc] in A1.
    rewrite A2, A1. destruct (last_effect k _); reflexivity.
  Qed.

  Theorem valid_settings_survive pf nn fs text pre l post k v :
    fs PConfig = Bytes true text ->
    readlines (universal_newlines text) = (pre ++ l :: post)%list ->
    line_effect l = ESet k v ->
    (forall l' v', In l' post -> line_effect l' <> ESet k v') ->
    exists s, startup pf nn fs = Started s /\ assoc k (st_cfg s) = Some v /\ cfg_get (st_cfg s) k = Some v.
  Proof.
    intros F Ls E Later. destruct (startup_starts pf nn fs) as (s & S). exists s. split; [exact S|].
    assert (A : assoc k (st_cfg s) = Some v).
    { rewrite (startup_cfg_lookup pf nn fs s text k F S), Ls. exact (last_effect_app k v l pre post E Later). }
    split; [exact A|]. unfold cfg_get. rewrite A. reflexivity.
  Qed.

  Theorem separator_in_value k0 v0 p :
    contains ch_eq k0 = false -> prop_of (strip k0) = Some p -> cp_num p = false -> cp_bool p = false ->
    line_effect (k0 ++ String ch_eq v0) = ESet (strip k0) (VStr (strip v0))
    /\ count_char ch_eq (strip v0) = count_char ch_eq v0.
  Proof.
    intros Hk Hp Hn Hb. split; [|apply strip_count; reflexivity].
    unfold line_effect. rewrite (split1_app ch_eq k0 v0 Hk), Hp, Hn, Hb. reflexivity.
  Qed.

  Theorem defaults_for_unreadable pf nn fs :
    config_unusable (fs PConfig) ->
    exists s, startup pf nn fs = Started s /\ st_cfg s = [] /\
              forall name, cfg_get (st_cfg s) name = option_map default_of (prop_of name).
  Proof.
    intros U. destruct (startup_starts pf nn fs) as (s & S). exists s. split; [exact S|].
    destruct (startup_inv pf nn fs s S) as (c1 & w1 & w3 & R1 & R2 & _).
    destruct (read_config_ok (fs PConfig) []) as (a1 & b1 & Q1 & M1). rewrite R1 in Q1. injection Q1 as <- <-.
    destruct (read_config_ok (fs PConfig) c1) as (a2 & b2 & Q2 & M2). rewrite R2 in Q2. injection Q2 as <- <-.
    assert (E : st_cfg s = []).
    { destruct (fs PConfig) as [| |e|[|] text]; try contradiction; congruence. }
    split; [exact E|]. intros name. rewrite E. reflexivity.
  Qed.

  Theorem currency_fallback pf c fs :
    currency_unusable pf (fs (path_of c "currency-path")) ->
    exists w, load_currency_data pf c fs = POk (currency_data, false, w).
  Proof.
    intros U. destruct (load_currency_cases pf c fs) as [H|(text & x & t & F & P & _)]; [exact H|].
    rewrite F in U. cbn in U. rewrite P in U. contradiction.
  Qed.

  Theorem startup_table pf nn fs s : startup pf nn fs = Started s ->
    rates_positive (st_table s) /\ st_table s <> [] /\
    ((st_from_file s = false /\ st_table s = currency_data) \/
     (st_from_file s = true /\ exists c text,
         fs (path_of c "currency-path") = Bytes true text
         /\ parse_currency_data pf (universal_newlines text) = PTable (st_table s))).
  Proof.
    intros S. destruct (startup_inv pf nn fs s S) as (c1 & w1 & w3 & _ & _ & L & _).
    destruct (load_currency_positive pf c1 fs _ _ _ L) as [Hp Hn].
    split; [exact Hp|]. split; [exact Hn|].
    destruct (load_currency_cases pf c1 fs) as [(w' & L')|(text & x & t & F & P & L')];
      rewrite L in L'; injection L' as E1 E2 E3.
    - left. auto.
    - right. split; [exact E2|]. exists c1, text. rewrite E1. auto.
  Qed.

  (* the registry step never raises (no AssertionError, no ZeroDivisionError), and when a base
     currency exists every cash unit is rate(base)/rate(row) *)
  Theorem startup_registry pf nn fs s : startup pf nn fs = Started s ->
    match st_base s with
    | None => st_reg s = None
    | Some b => exists st bb, st_reg s = Some st /\ In bb (st_table s) /\ c_sym bb = b
                  /\ cash_ok (c_rate bb) (st_table s) st
    end.
  Proof.
    intros S. destruct (startup_inv pf nn fs s S) as (c1 & w1 & w3 & _ & _ & L & G).
    pose proof S as S'. unfold startup in S'.
    destruct (read_config (fs PConfig) []) as [[c1' w1']|] eqn:R1; [|discriminate].
    destruct (load_currency_data pf c1' fs) as [[[t b] w2]|]; [|discriminate].
    destruct (registry_for nn t (cfg_str c1' "base-currency")) as [r|] eqn:G'; [|discriminate].
    destruct (read_config (fs PConfig) c1') as [[c2 w3']|]; [|discriminate].
    injection S' as <-. cbn [st_base st_reg st_table] in *.
    unfold registry_for in G'. destruct (select_base (cfg_str c1' "base-currency") t) as [bs|] eqn:Sb.
    - destruct (register_currencies nn pre_names pre_syms t bs) as [st|] eqn:Rg; [|discriminate].
      cbn [pbind] in G'. injection G' as <-.
      destruct (load_currency_positive pf c1 fs _ _ _ L) as [Hp _].
      destruct (registered_cash_ok _ _ _ _ _ _ Hp Rg) as (bb & Ib & Eb & Ok).
      exists st, bb. apply String.eqb_eq in Eb. auto.
    - injection G' as <-. reflexivity.
  Qed.

  (* ---------------------------------------------------------------- evaluation can format floats *)
  Lemma precision_prop : exists p, prop_of "precision" = Some p /\ cp_num p = true /\
    exists z, default_of p = VInt z /\ (0 <= z < max_num)%Z.
  Proof.
    pose proof HP as H. unfold props_okb in H.
    destruct (prop_of "precision") as [p|]; [|discriminate].
    do 5 (apply andb_prop in H as [H _]).
    apply andb_prop in H as [H H3]. apply andb_prop in H as [H1 H2].
    exists p. split; [reflexivity|]. split; [exact H1|].
    destruct (default_of p) as [z| |]; try discriminate. exists z. split; [reflexivity|]. lia.
  Qed.

  Lemma cfg_precision_in_range c : cfg_from_lines c -> (0 <= cfg_int c "precision" < max_num)%Z.
  Proof.
    intros H. destruct precision_prop as (p & P & N & z0 & D & R0).
    unfold cfg_int, cfg_get. destruct (assoc "precision" c) as [v|] eqn:A.
    - apply assoc_in in A. unfold cfg_from_lines in H. rewrite Forall_forall in H.
      destruct (H _ A) as (l & E). cbn [fst snd] in E.
      destruct (line_effect_num l "precision" v p E P N) as (z & -> & Rz). exact Rz.
    - rewrite P. cbn [option_map]. rewrite D. exact R0.
  Qed.

  Theorem startup_precision_formattable pf nn fs s :
    startup pf nn fs = Started s -> format_float (st_cfg s) = POk tt.
  Proof.
    intros S. destruct (startup_inv pf nn fs s S) as (c1 & w1 & w3 & R1 & R2 & _).
    assert (F1 : cfg_from_lines c1) by (eapply read_config_from_lines; [constructor|exact R1]).
    assert (F2 : cfg_from_lines (st_cfg s)) by (eapply read_config_from_lines; [exact F1|exact R2]).
    unfold format_float. pose proof (cfg_precision_in_range _ F2) as [_ H].
    apply Z.ltb_lt in H. rewrite H. reflexivity.
  Qed.

  (* ---------------------------------------------------------------- history *)
  Lemma add_all_ok : forall ls, Forall (fun l => contains ch_nul l = false) ls -> add_all ls = POk tt.
  Proof.
    induction ls as [|l ls IH]; intros F; cbn [add_all]; [reflexivity|].
    inversion F as [|? ? Hl Fl]; subst. unfold add_history.
    destruct (contains ch_nul (strip l)) eqn:E.
    - apply strip_sub in E. congruence.
    - cbn [pbind]. exact (IH Fl).
  Qed.

  Lemma load_history_ok c fs :
    exists ls w, load_history c fs = POk (ls, w) /\ Forall (fun l => contains ch_nul l = false) ls.
  Proof.
    unfold load_history, try_. destruct (history_enabled c); [|exists [], []; auto].
    destruct (fs (path_of c "history-path")) as [| |e|[|] text]; cbn [path_exists open_read pbind].
    - exists [], []. auto.
    - pose proof (HC_hl_io EIsADirectory) as Hd. cbn [ioerr_name] in Hd. rewrite Hd. exists [], [WHistoryLoad]. auto.
    - rewrite HC_hl_io. exists [], [WHistoryLoad]. auto.
    - eexists _, []. split; [reflexivity|]. apply Forall_forall. intros l Hl.
      apply filter_In in Hl as [_ Hl]. destruct (contains ch_nul l); [discriminate|reflexivity].
    - rewrite HC_hl_dec. exists [], [WHistoryLoad]. auto.
  Qed.

  Theorem history_load_never_blocks_start c fs : exists w, readline_load_history c fs = POk w.
  Proof.
    unfold readline_load_history. destruct (load_history_ok c fs) as (ls & w & L & F).
    rewrite L. cbn [pbind fst snd]. rewrite (add_all_ok ls F). cbn [pbind]. eauto.
  Qed.

  Theorem save_history_returns c fs w history : exists r, save_history c fs w history = POk r.
  Proof.
    unfold save_history, try_.
    destruct (history_enabled c); [|eauto].
    assert (Hio : forall e, caught_by "interpret.save_history" (ioerr_name e) = true)
      by (intros e; exact (HC_hs (WIo e))).
    assert (Hopen : forall s, (exists u, open_for_write s w = POk u) \/
                              (exists e, open_for_write s w = PRaise (ioerr_name e))).
    { intros s. unfold open_for_write, os_step. destruct s as [| |e|b t].
      - destruct (we_open w); eauto.
      - right. exists EIsADirectory. reflexivity.
      - right. exists e. reflexivity.
      - destruct (we_open w); eauto. }
    assert (Hwrite : (exists u, write_step (we_write w) = POk u) \/
                     (exists e, write_step (we_write w) = PRaise (wexn_name e))).
    { unfold write_step. destruct (we_write w); eauto. }
    destruct (path_exists (fs (path_of c "history-path"))).
    - destruct (Hopen (fs (path_of c "history-path"))) as [(u & ->)|(e & ->)]; cbn [pbind].
      + destruct Hwrite as [(u' & ->)|(e & ->)]; cbn [pbind]; [eauto|rewrite HC_hs; eauto].
      + rewrite Hio. eauto.
    - destruct (we_parent_exists w); cbn [pbind].
      + destruct (Hopen (fs (path_of c "history-path"))) as [(u & ->)|(e & ->)]; cbn [pbind].
        * destruct Hwrite as [(u' & ->)|(e & ->)]; cbn [pbind]; [eauto|rewrite HC_hs; eauto].
        * rewrite Hio. eauto.
      + unfold os_step at 1. destruct (we_makedirs w) as [e|]; cbn [pbind].
        * rewrite Hio. eauto.
        * destruct (Hopen (fs (path_of c "history-path"))) as [(u & ->)|(e & ->)]; cbn [pbind].
          -- destruct Hwrite as [(u' & ->)|(e & ->)]; cbn [pbind]; [eauto|rewrite HC_hs; eauto].
          -- rewrite Hio. eauto.
  Qed.

  Theorem session_exits_zero c fs w history :
    exists ws, interpreter_session c fs w history = POk (0%Z, ws).
  Proof.
    unfold interpreter_session.
    destruct (history_load_never_blocks_start c fs) as (w1 & ->). cbn [pbind].
    destruct (save_history_returns c fs w history) as (r & ->). cbn [pbind]. eauto.
  Qed.
End WithFacts.

(* a non-empty table written by the export is the table load_currency_data returns *)
Theorem exported_table_is_used (repr : Q -> string) (pf : pyfloat_t) c fs x t :
  (forall q, pf (repr q) = Some q) -> (forall q, clean (repr q)) ->
  Forall (fun c => clean (c_sym c) /\ clean (c_name c) /\ 0 < c_rate c) (x :: t) ->
  fs (path_of c "currency-path") = Bytes true (export_text repr (x :: t)) ->
  load_currency_data pf c fs = POk (x :: t, true, []).
Proof.
  intros H1 H2 F S. unfold load_currency_data. rewrite S.
  cbn [path_exists open_read pbind try_].
  rewrite (export_text_mode repr H2 _ F), (export_parse repr pf H1 H2 _ F). reflexivity.
Qed.
