From Coq Require Import Qround Qpower Qabs Qcanon Lia Lqa Qfield.
From Ka Require Import Model.Num Proofs.NumProofs Model.Comb.
Local Open Scope Z_scope.

(* ---------- products over integer ranges ---------- *)
Lemma prod_from_app l a b :
  prod_from l (a + b) = prod_from l a * prod_from (l + Z.of_nat a) b.
Proof.
  revert l; induction a as [|a IH]; intro l.
  - cbn [plus prod_from]. replace (l + Z.of_nat 0) with l by lia. lia.
  - cbn [plus prod_from]. rewrite IH. replace (l + 1 + Z.of_nat a) with (l + Z.of_nat (S a)) by lia. ring.
Qed.

Lemma prod_range_empty r : is_empty r = true -> prod_range r = 1.
Proof.
  unfold is_empty, prod_range, rcount. intro H. apply Z.ltb_lt in H.
  replace (Z.to_nat (hi r - lo r + 1)) with O by lia. reflexivity.
Qed.

(* [a,c] = [a,m] ++ [m+1,c] *)
Lemma prod_range_split a m c : a <= m + 1 -> m <= c ->
  prod_range (mkr a c) = prod_range (mkr a m) * prod_range (mkr (m + 1) c).
Proof.
  intros H1 H2. unfold prod_range, rcount. cbn [lo hi].
  replace (Z.to_nat (c - a + 1)) with (Z.to_nat (m - a + 1) + Z.to_nat (c - (m + 1) + 1))%nat by lia.
  rewrite prod_from_app. f_equal. f_equal. lia.
Qed.

Lemma range_eta r : r = mkr (lo r) (hi r).
Proof. destruct r; reflexivity. Qed.

(* a range without zero: non-empty and entirely positive or entirely negative *)
Definition nzr (r : range) : Prop := lo r <= hi r /\ (0 < lo r \/ hi r < 0).

Lemma prod_from_nz l n : (0 < l \/ l + Z.of_nat n <= 0) -> prod_from l n <> 0.
Proof.
  revert l; induction n as [|n IH]; intros l H; cbn [prod_from]; [lia|].
  apply Z.neq_mul_0. split; [lia|]. apply IH. lia.
Qed.

Lemma prod_range_nz r : nzr r -> prod_range r <> 0.
Proof.
  intros [H1 H2]. unfold prod_range, rcount. apply prod_from_nz.
  destruct H2; [left; assumption|right; lia].
Qed.

Lemma prod_ranges_nil : prod_ranges [] = 1.
Proof. reflexivity. Qed.
Lemma prod_ranges_cons r l : prod_ranges (r :: l) = prod_range r * prod_ranges l.
Proof. reflexivity. Qed.

Lemma prod_ranges_nz l : Forall nzr l -> prod_ranges l <> 0.
Proof.
  induction 1 as [|r l Hr Hl IH]; [rewrite prod_ranges_nil; lia|rewrite prod_ranges_cons].
  apply Z.neq_mul_0. split; [apply prod_range_nz; assumption|assumption].
Qed.

Lemma prod_ranges_app a b : prod_ranges (a ++ b) = prod_ranges a * prod_ranges b.
Proof.
  induction a as [|r a IH]; cbn [app]; [rewrite prod_ranges_nil; ring|].
  rewrite !prod_ranges_cons, IH. ring.
Qed.

Lemma prod_ranges_rev a : prod_ranges (rev a) = prod_ranges a.
Proof.
  induction a as [|r a IH]; cbn [rev]; [reflexivity|].
  rewrite prod_ranges_app, IH, !prod_ranges_cons, prod_ranges_nil. ring.
Qed.

Lemma Forall_rev_iff {A} (P : A -> Prop) l : Forall P (rev l) <-> Forall P l.
Proof.
  split; intro H; [rewrite <- (rev_involutive l)|]; apply Forall_rev; assumption.
Qed.

Ltac nz := repeat (apply Forall_cons || apply Forall_nil); unfold nzr; cbn [lo hi] in *; lia.

(* ---------- IntRange.difference ---------- *)
Lemma difference_sound s o sr orr :
  lo s <= hi s -> lo o <= hi o ->
  intersects s o = true -> difference s o = (sr, orr) ->
  prod_range s * prod_ranges orr = prod_range o * prod_ranges sr
  /\ (nzr s -> Forall nzr sr) /\ (nzr o -> Forall nzr orr).
Proof.
  intros Hs Ho I D. unfold intersects in I. unfold difference in D.
  destruct ((hi s <? lo o) || (hi o <? lo s)) eqn:E1; [discriminate|].
  apply orb_false_iff in E1. destruct E1 as [A1 A2].
  apply Z.ltb_ge in A1, A2.
  rewrite (range_eta s), (range_eta o).
  destruct ((lo s <=? lo o) && (hi o <=? hi s)) eqn:E2.
  { apply andb_true_iff in E2. destruct E2 as [B1 B2]. apply Z.leb_le in B1, B2.
    injection D as <- <-.
    destruct (Z.ltb_spec (lo s) (lo o)) as [L|L], (Z.ltb_spec (hi o) (hi s)) as [R|R]; cbn [app]; rewrite ?prod_ranges_cons, ?prod_ranges_nil.
    - split; [|split].
      + rewrite (prod_range_split (lo s) (lo o - 1) (hi s)) by lia.
        replace (lo o - 1 + 1) with (lo o) by lia.
        rewrite (prod_range_split (lo o) (hi o) (hi s)) by lia. ring.
      + intros [_ N]. nz.
      + intros _. constructor.
    - assert (hi o = hi s) by lia. split; [|split].
      + rewrite (prod_range_split (lo s) (lo o - 1) (hi s)) by lia.
        replace (lo o - 1 + 1) with (lo o) by lia. rewrite H. ring.
      + intros [_ N]. nz.
      + intros _. constructor.
    - assert (lo o = lo s) by lia. split; [|split].
      + rewrite (prod_range_split (lo s) (hi o) (hi s)) by lia. rewrite H. ring.
      + intros [_ N]. nz.
      + intros _. constructor.
    - assert (lo o = lo s) by lia. assert (hi o = hi s) by lia. split; [|split].
      + rewrite H, H0. ring.
      + intros _. constructor.
      + intros _. constructor. }
  destruct ((lo o <=? lo s) && (hi s <=? hi o)) eqn:E3.
  { apply andb_true_iff in E3. destruct E3 as [B1 B2]. apply Z.leb_le in B1, B2.
    injection D as <- <-.
    destruct (Z.ltb_spec (lo o) (lo s)) as [L|L], (Z.ltb_spec (hi s) (hi o)) as [R|R]; cbn [app]; rewrite ?prod_ranges_cons, ?prod_ranges_nil.
    - split; [|split].
      + rewrite (prod_range_split (lo o) (lo s - 1) (hi o)) by lia.
        replace (lo s - 1 + 1) with (lo s) by lia.
        rewrite (prod_range_split (lo s) (hi s) (hi o)) by lia. ring.
      + intros _. constructor.
      + intros [_ N]. nz.
    - assert (hi o = hi s) by lia. split; [|split].
      + rewrite (prod_range_split (lo o) (lo s - 1) (hi o)) by lia.
        replace (lo s - 1 + 1) with (lo s) by lia. rewrite H. ring.
      + intros _. constructor.
      + intros [_ N]. nz.
    - assert (lo o = lo s) by lia. split; [|split].
      + rewrite (prod_range_split (lo o) (hi s) (hi o)) by lia. rewrite H. ring.
      + intros _. constructor.
      + intros [_ N]. nz.
    - assert (lo o = lo s) by lia. assert (hi o = hi s) by lia. split; [|split].
      + rewrite H, H0. ring.
      + intros _. constructor.
      + intros _. constructor. }
  apply andb_false_iff in E2. apply andb_false_iff in E3.
  destruct (Z.ltb_spec (lo s) (lo o)) as [L|L]; injection D as <- <-; rewrite ?prod_ranges_cons, ?prod_ranges_nil.
  - (* s starts first: lo s < lo o <= hi s < hi o *)
    assert (hi s < hi o).
    { destruct E2 as [X|X]; [apply Z.leb_gt in X; lia|apply Z.leb_gt in X; lia]. }
    split; [|split].
    + rewrite (prod_range_split (lo s) (lo o - 1) (hi s)) by lia.
      replace (lo o - 1 + 1) with (lo o) by lia.
      rewrite (prod_range_split (lo o) (hi s) (hi o)) by lia. ring.
    + intros [_ N]. nz.
    + intros [_ N]. nz.
  - (* o starts first: lo o < lo s <= hi o < hi s *)
    assert (lo o < lo s).
    { destruct E3 as [X|X]; [apply Z.leb_gt in X; lia|]. apply Z.leb_gt in X.
      destruct E2 as [Y|Y]; apply Z.leb_gt in Y; lia. }
    assert (hi o < hi s).
    { destruct E3 as [X|X]; apply Z.leb_gt in X; lia. }
    split; [|split].
    + rewrite (prod_range_split (lo s) (hi o) (hi s)) by lia.
      rewrite (prod_range_split (lo o) (lo s - 1) (hi o)) by lia.
      replace (lo s - 1 + 1) with (lo s) by lia. ring.
    + intros [_ N]. nz.
    + intros [_ N]. nz.
Qed.

(* ---------- the inner scan and the cancellation loop ---------- *)
Lemma nzr_nonempty r : nzr r -> lo r <= hi r.
Proof. intros [H _]; exact H. Qed.

Lemma scan_ns_sound ns : forall pre d ns' rd,
  Forall nzr pre -> Forall nzr ns -> nzr d ->
  scan_ns pre ns d = Some (ns', rd) ->
  prod_ranges (rev pre ++ ns) * prod_ranges rd = prod_range d * prod_ranges ns'
  /\ Forall nzr ns' /\ Forall nzr rd.
Proof.
  induction ns as [|n rest IH]; intros pre d ns' rd Fp Fn Nd S; cbn [scan_ns] in S; [discriminate|].
  inversion Fn as [|? ? Hn Hrest]; subst.
  destruct (intersects n d) eqn:I.
  - destruct (difference n d) as [rn rdd] eqn:D. injection S as <- <-.
    destruct (difference_sound n d rn rdd (nzr_nonempty _ Hn) (nzr_nonempty _ Nd) I D) as (E & A & B).
    split; [|split].
    + rewrite !prod_ranges_app, prod_ranges_cons.
      replace (prod_ranges (rev pre) * (prod_range n * prod_ranges rest) * prod_ranges rdd)
        with (prod_ranges (rev pre) * prod_ranges rest * (prod_range n * prod_ranges rdd)) by ring.
      rewrite E. ring.
    + apply Forall_app. split; [apply Forall_rev; assumption|].
      apply Forall_app. split; [apply A; assumption|assumption].
    + apply B; assumption.
  - specialize (IH (n :: pre) d ns' rd (Forall_cons _ Hn Fp) Hrest Nd S).
    destruct IH as (E & A & B). split; [|split]; try assumption.
    cbn [rev] in E. rewrite <- app_assoc in E. cbn [app] in E. exact E.
Qed.

Lemma scan_ns_none ns : forall pre d, scan_ns pre ns d = None -> True.
Proof. trivial. Qed.

Lemma mul_loop_sound fuel : forall ns stack res ns' ds',
  Forall nzr ns -> Forall nzr stack -> Forall nzr res ->
  mul_loop fuel ns stack res = Ok (ns', ds') ->
  prod_ranges ns' * (prod_ranges stack * prod_ranges res) = prod_ranges ns * prod_ranges ds'
  /\ Forall nzr ns' /\ Forall nzr ds'.
Proof.
  induction fuel as [|fuel IH]; intros ns stack res ns' ds' Fn Fs Fr M.
  - destruct stack as [|d stack']; cbn [mul_loop] in M; [|discriminate].
    injection M as <- <-. rewrite prod_ranges_nil. split; [ring|split; assumption].
  - destruct stack as [|d stack']; cbn [mul_loop] in M.
    + injection M as <- <-. rewrite prod_ranges_nil. split; [ring|split; assumption].
    + inversion Fs as [|? ? Hd Hst]; subst.
      destruct (scan_ns [] ns d) as [[ns1 rd]|] eqn:S.
      * destruct (scan_ns_sound ns [] d ns1 rd (Forall_nil _) Fn Hd S) as (E & A & B).
        cbn [rev app] in E.
        assert (Fs' : Forall nzr (rev rd ++ stack')).
        { apply Forall_app. split; [apply Forall_rev; assumption|assumption]. }
        destruct (IH ns1 (rev rd ++ stack') res ns' ds' A Fs' Fr M) as (E2 & A2 & B2).
        split; [|split; assumption].
        rewrite prod_ranges_app, prod_ranges_rev in E2. rewrite prod_ranges_cons.
        (* cancel prod_ranges rd, which is non-zero *)
        apply (Z.mul_reg_l _ _ (prod_ranges rd)); [apply prod_ranges_nz; assumption|].
        replace (prod_ranges rd * (prod_ranges ns' * (prod_range d * prod_ranges stack' * prod_ranges res)))
          with (prod_range d * (prod_ranges ns' * (prod_ranges rd * prod_ranges stack' * prod_ranges res))) by ring.
        rewrite E2.
        replace (prod_ranges rd * (prod_ranges ns * prod_ranges ds'))
          with ((prod_ranges ns * prod_ranges rd) * prod_ranges ds') by ring.
        rewrite E. ring.
      * assert (Fr' : Forall nzr (res ++ [d])).
        { apply Forall_app. split; [assumption|constructor; [assumption|constructor]]. }
        destruct (IH ns stack' (res ++ [d]) ns' ds' Fn Hst Fr' M) as (E2 & A2 & B2).
        split; [|split; assumption].
        rewrite prod_ranges_app, prod_ranges_cons, prod_ranges_nil in E2.
        rewrite prod_ranges_cons. rewrite <- E2. ring.
Qed.

Lemma comb_mul_sound ns ds new_ns new_ds ns' ds' :
  Forall nzr ns -> Forall nzr ds -> Forall nzr new_ns -> Forall nzr new_ds ->
  comb_mul ns ds new_ns new_ds = Ok (ns', ds') ->
  prod_ranges ns' * (prod_ranges ds * prod_ranges new_ds)
    = prod_ranges ns * prod_ranges new_ns * prod_ranges ds'
  /\ Forall nzr ns' /\ Forall nzr ds'.
Proof.
  intros F1 F2 F3 F4 M. unfold comb_mul in M.
  apply mul_loop_sound in M.
  - destruct M as (E & A & B). split; [|split; assumption].
    rewrite prod_ranges_rev, !prod_ranges_app, prod_ranges_nil in E. rewrite <- E. ring.
  - apply Forall_app; split; assumption.
  - apply Forall_rev. apply Forall_app; split; assumption.
  - constructor.
Qed.

(* ---------- termination: the computed fuel always suffices ---------- *)
Definition measure (stack : list range) : Z := 2 * total_size stack + Z.of_nat (List.length stack).

Lemma total_size_cons r l : total_size (r :: l) = rsize r + total_size l.
Proof. reflexivity. Qed.
Lemma total_size_app a b : total_size (a ++ b) = total_size a + total_size b.
Proof.
  induction a as [|r a IH]; cbn [app]; [reflexivity|].
  rewrite !total_size_cons, IH. lia.
Qed.
Lemma total_size_rev a : total_size (rev a) = total_size a.
Proof.
  induction a as [|r a IH]; cbn [rev]; [reflexivity|].
  rewrite total_size_app, IH, !total_size_cons.
  change (total_size []) with 0. lia.
Qed.
Lemma total_size_nonneg a : 0 <= total_size a.
Proof. induction a as [|r a IH]; [change (total_size []) with 0; lia|]. rewrite total_size_cons. unfold rsize. lia. Qed.

(* the remainder of d after cancelling against an intersecting range is strictly smaller,
   and has at most two pieces *)
Lemma difference_shrinks s o sr orr :
  lo s <= hi s -> lo o <= hi o -> intersects s o = true -> difference s o = (sr, orr) ->
  total_size orr + 1 <= rsize o /\ (List.length orr <= 2)%nat.
Proof.
  intros Hs Ho I D. unfold intersects in I. unfold difference in D.
  destruct ((hi s <? lo o) || (hi o <? lo s)) eqn:E1; [discriminate|].
  apply orb_false_iff in E1. destruct E1 as [A1 A2]. apply Z.ltb_ge in A1, A2.
  unfold rsize.
  destruct ((lo s <=? lo o) && (hi o <=? hi s)) eqn:E2.
  { injection D as <- <-. cbn. lia. }
  destruct ((lo o <=? lo s) && (hi s <=? hi o)) eqn:E3.
  { apply andb_true_iff in E3. destruct E3 as [B1 B2]. apply Z.leb_le in B1, B2.
    injection D as <- <-.
    destruct (Z.ltb_spec (lo o) (lo s)), (Z.ltb_spec (hi s) (hi o)); cbn; unfold rsize; cbn [lo hi]; lia. }
  apply andb_false_iff in E2. apply andb_false_iff in E3.
  destruct (Z.ltb_spec (lo s) (lo o)) as [L|L]; injection D as <- <-; cbn; unfold rsize; cbn [lo hi].
  - destruct E2 as [X|X]; apply Z.leb_gt in X; lia.
  - destruct E3 as [X|X]; apply Z.leb_gt in X; destruct E2 as [Y|Y]; apply Z.leb_gt in Y; lia.
Qed.

Lemma scan_ns_shrinks ns : forall pre d ns' rd,
  Forall nzr ns -> nzr d -> scan_ns pre ns d = Some (ns', rd) ->
  total_size rd + 1 <= rsize d /\ (List.length rd <= 2)%nat.
Proof.
  induction ns as [|n rest IH]; intros pre d ns' rd Fn Nd S; cbn [scan_ns] in S; [discriminate|].
  inversion Fn as [|? ? Hn Hrest]; subst.
  destruct (intersects n d) eqn:I.
  - destruct (difference n d) as [rn rdd] eqn:D. injection S as <- <-.
    eapply difference_shrinks; try eassumption; apply nzr_nonempty; assumption.
  - eapply IH; eassumption.
Qed.

Lemma mul_loop_terminates fuel : forall ns stack res,
  Forall nzr ns -> Forall nzr stack -> Forall nzr res ->
  measure stack < Z.of_nat fuel ->
  exists ns' ds', mul_loop fuel ns stack res = Ok (ns', ds').
Proof.
  induction fuel as [|fuel IH]; intros ns stack res Fn Fs Fr M.
  - unfold measure in M. pose proof (total_size_nonneg stack). lia.
  - destruct stack as [|d stack']; cbn [mul_loop]; [eexists; eexists; reflexivity|].
    inversion Fs as [|? ? Hd Hst]; subst.
    destruct (scan_ns [] ns d) as [[ns1 rd]|] eqn:S.
    + destruct (scan_ns_sound ns [] d ns1 rd (Forall_nil _) Fn Hd S) as (_ & A & B).
      destruct (scan_ns_shrinks ns [] d ns1 rd Fn Hd S) as [Sz Ln].
      apply IH; try assumption.
      * apply Forall_app. split; [apply Forall_rev; assumption|assumption].
      * unfold measure in *. rewrite total_size_app, total_size_rev, app_length, rev_length.
        rewrite total_size_cons in M. cbn [List.length] in M. lia.
    + apply IH; try assumption.
      * apply Forall_app. split; [assumption|constructor; [assumption|constructor]].
      * unfold measure in *. rewrite total_size_cons in M. cbn [List.length] in M.
        unfold rsize in M. lia.
Qed.

Lemma comb_mul_total ns ds new_ns new_ds :
  Forall nzr ns -> Forall nzr ds -> Forall nzr new_ns -> Forall nzr new_ds ->
  exists ns' ds', comb_mul ns ds new_ns new_ds = Ok (ns', ds').
Proof.
  intros F1 F2 F3 F4. unfold comb_mul. apply mul_loop_terminates.
  - apply Forall_app; split; assumption.
  - apply Forall_rev. apply Forall_app; split; assumption.
  - constructor.
  - unfold measure, mul_fuel. rewrite total_size_rev, rev_length.
    pose proof (total_size_nonneg (ds ++ new_ds)). lia.
Qed.

(* ---------- Combinatoric.resolve ---------- *)
Fixpoint prod_down (h : Z) (k : nat) : Z :=
  match k with O => 1 | S k' => h * prod_down (h - 1) k' end.

Lemma prod_down_from k : forall h, prod_down h k = prod_from (h - Z.of_nat k + 1) k.
Proof.
  induction k as [|k IH]; intro h; [reflexivity|].
  cbn [prod_down]. rewrite IH.
  replace (S k) with (k + 1)%nat by lia. rewrite prod_from_app. cbn [prod_from].
  replace (h - 1 - Z.of_nat k + 1) with (h - Z.of_nat (k + 1) + 1) by lia.
  replace (h - Z.of_nat (k + 1) + 1 + Z.of_nat k) with h by lia. ring.
Qed.

Lemma prod_down_range r : prod_down (hi r) (rcount r) = prod_range r.
Proof.
  rewrite prod_down_from. unfold prod_range, rcount.
  destruct (Z.le_gt_cases (lo r) (hi r)).
  - f_equal. lia.
  - replace (Z.to_nat (hi r - lo r + 1)) with O by lia. reflexivity.
Qed.

Lemma prod_range_head d : lo d <= hi d ->
  prod_range d = lo d * prod_range (mkr (lo d + 1) (hi d)).
Proof.
  intro H. unfold prod_range, rcount. cbn [lo hi].
  replace (Z.to_nat (hi d - lo d + 1)) with (S (Z.to_nat (hi d - (lo d + 1) + 1))) by lia.
  reflexivity.
Qed.

Lemma num_loop_sound k : forall h result den,
  Forall nzr den ->
  exists r' den', num_loop k h result den = Ok (r', den') /\ Forall nzr den'
    /\ r' * prod_ranges den = result * prod_down h k * prod_ranges den'.
Proof.
  induction k as [|k IH]; intros h result den F.
  - exists result, den. cbn [num_loop prod_down]. split; [reflexivity|]. split; [assumption|ring].
  - cbn [num_loop prod_down].
    destruct den as [|d rest].
    + destruct (IH (h - 1) (result * h) [] F) as (r' & den' & E & F' & Eq).
      exists r', den'. split; [exact E|]. split; [assumption|]. rewrite Eq. ring.
    + inversion F as [|? ? Hd Hrest]; subst.
      assert (L0 : lo d <> 0) by (destruct Hd as [A [B|B]]; lia).
      destruct (Z.eqb_spec (lo d) 0) as [X|_]; [contradiction|].
      destruct (Z.eqb_spec ((result * h) mod lo d) 0) as [M|M].
      * set (d' := mkr (lo d + 1) (hi d)).
        assert (Fd : Forall nzr (if is_empty d' then rest else d' :: rest)).
        { unfold is_empty. destruct (Z.ltb_spec (hi d') (lo d')); [assumption|].
          constructor; [|assumption]. unfold d', nzr in *; cbn [lo hi] in *. lia. }
        destruct (IH (h - 1) (result * h / lo d) _ Fd) as (r' & den' & E & F' & Eq).
        exists r', den'. split; [exact E|]. split; [assumption|].
        assert (Pd : prod_ranges (d :: rest) = lo d * prod_ranges (if is_empty d' then rest else d' :: rest)).
        { rewrite prod_ranges_cons, (prod_range_head d) by (apply nzr_nonempty; assumption). fold d'.
          unfold is_empty. destruct (Z.ltb_spec (hi d') (lo d')).
          - rewrite (prod_range_empty d'); [ring|]. unfold is_empty. apply Z.ltb_lt. assumption.
          - rewrite prod_ranges_cons. ring. }
        rewrite Pd.
        replace (r' * (lo d * prod_ranges (if is_empty d' then rest else d' :: rest)))
          with (lo d * (r' * prod_ranges (if is_empty d' then rest else d' :: rest))) by ring.
        rewrite Eq.
        assert (Dv : result * h = lo d * (result * h / lo d)) by (apply Z.div_exact; assumption).
        replace (lo d * (result * h / lo d * prod_down (h - 1) k * prod_ranges den'))
          with (lo d * (result * h / lo d) * prod_down (h - 1) k * prod_ranges den') by ring.
        rewrite <- Dv. ring.
      * destruct (IH (h - 1) (result * h) (d :: rest) F) as (r' & den' & E & F' & Eq).
        exists r', den'. split; [exact E|]. split; [assumption|]. rewrite Eq. ring.
Qed.

Lemma num_ranges_sound ns : forall result den,
  Forall nzr den ->
  exists r' den', num_ranges ns result den = Ok (r', den') /\ Forall nzr den'
    /\ r' * prod_ranges den = result * prod_ranges ns * prod_ranges den'.
Proof.
  induction ns as [|r rest IH]; intros result den F.
  - exists result, den. cbn [num_ranges]. split; [reflexivity|]. split; [assumption|]. rewrite prod_ranges_nil. ring.
  - cbn [num_ranges].
    destruct (num_loop_sound (rcount r) (hi r) result den F) as (r1 & den1 & E1 & F1 & Eq1).
    rewrite E1.
    destruct (IH r1 den1 F1) as (r2 & den2 & E2 & F2 & Eq2).
    exists r2, den2. split; [exact E2|]. split; [assumption|].
    rewrite prod_ranges_cons, <- prod_down_range.
    (* r2 * den = ... : chain the two equations, cancelling prod_ranges den1 *)
    apply (Z.mul_reg_l _ _ (prod_ranges den1)); [apply prod_ranges_nz; assumption|].
    replace (prod_ranges den1 * (r2 * prod_ranges den)) with (r2 * prod_ranges den1 * prod_ranges den) by ring.
    rewrite Eq2.
    replace (r1 * prod_ranges rest * prod_ranges den2 * prod_ranges den)
      with (r1 * prod_ranges den * (prod_ranges rest * prod_ranges den2)) by ring.
    rewrite Eq1. ring.
Qed.

Definition valQ (ns ds : list range) : Q := inject_Z (prod_ranges ns) / inject_Z (prod_ranges ds).

Lemma Qdiv_cross a b c d : b <> 0 -> d <> 0 -> a * d = c * b ->
  (inject_Z a / inject_Z b == inject_Z c / inject_Z d)%Q.
Proof.
  intros Hb Hd E.
  assert (Nb : ~ (inject_Z b == 0)%Q) by (unfold Qeq; cbn; lia).
  assert (Nd : ~ (inject_Z d == 0)%Q) by (unfold Qeq; cbn; lia).
  apply (Qmult_inj_r _ _ (inject_Z b * inject_Z d)%Q).
  - intro X. apply Qmult_integral in X. tauto.
  - transitivity (inject_Z (a * d)).
    + rewrite iZ_mult. field. exact Nb.
    + rewrite E, iZ_mult. field. exact Nd.
Qed.

Theorem resolve_sound ns ds : Forall nzr ds -> resolve ns ds = Ok (norm (valQ ns ds)).
Proof.
  intro F. unfold resolve.
  destruct (num_ranges_sound ns 1 (rev ds) (Forall_rev F)) as (r & den & E & Fd & Eq).
  rewrite E. pose proof (prod_ranges_nz den Fd) as Nz.
  destruct (Z.eqb_spec (prod_ranges den) 0) as [X|_]; [contradiction|].
  f_equal. apply norm_comp. unfold valQ. rewrite prod_ranges_rev in Eq.
  apply Qdiv_cross; [assumption|apply prod_ranges_nz; assumption|]. rewrite Eq. ring.
Qed.

(* ---------- the lazy value tracks the eager one ---------- *)
Local Open Scope Q_scope.

Definition rel (lv : cval) (ev : num) : Prop :=
  match lv with
  | CNum n => n = ev /\ exact n /\ canonical n
  | CComb ns ds => Forall nzr ns /\ Forall nzr ds /\ ev = norm (valQ ns ds)
  end.

Definition rres (rl : res cval) (re : res num) : Prop :=
  match rl, re with
  | Ok lv, Ok ev => rel lv ev
  | Raise x, Raise y => x = y
  | _, _ => False
  end.

Lemma rel_exact lv ev : rel lv ev -> exact ev /\ canonical ev.
Proof.
  destruct lv as [n|ns ds]; cbn.
  - intros (<- & E & C). split; assumption.
  - intros (_ & _ & ->). split; [apply exact_norm|apply canonical_norm].
Qed.

Lemma rel_coerce lv ev : rel lv ev -> coerce lv = Ok ev.
Proof.
  destruct lv as [n|ns ds]; cbn [rel coerce].
  - intros (<- & _). reflexivity.
  - intros (_ & F & ->). apply resolve_sound. exact F.
Qed.

Lemma good_eq r q : good r q -> r = Ok (norm q).
Proof.
  intros (v & -> & H & C & E). f_equal.
  apply canonical_toQ_eq; auto using canonical_norm, exact_norm.
  rewrite toQ_norm. exact H.
Qed.

Lemma valQ_nz ns ds : Forall nzr ns -> Forall nzr ds -> ~ valQ ns ds == 0.
Proof.
  intros Fn Fd H. unfold valQ in H.
  pose proof (prod_ranges_nz _ Fn) as A. pose proof (prod_ranges_nz _ Fd) as B.
  assert (Nb : ~ inject_Z (prod_ranges ds) == 0) by (unfold Qeq; cbn; lia).
  unfold Qdiv in H. apply Qmult_integral in H. destruct H as [H|H].
  - unfold Qeq in H; cbn in H. lia.
  - pose proof (Qmult_inv_r _ Nb) as X. rewrite H in X. revert X. unfold Qeq; cbn. lia.
Qed.

Lemma prod_single n : prod_ranges (if (n =? 1)%Z then [] else [mkr n n]) = n.
Proof.
  destruct (Z.eqb_spec n 1) as [->|N]; [reflexivity|].
  rewrite prod_ranges_cons, prod_ranges_nil. unfold prod_range, rcount. cbn [lo hi].
  replace (Z.to_nat (n - n + 1)) with 1%nat by lia. cbn [prod_from]. ring.
Qed.
Lemma nzr_single n : (n <> 0)%Z -> Forall nzr (if (n =? 1)%Z then [] else [mkr n n]).
Proof. intro H. destruct (n =? 1)%Z; nz. Qed.

Lemma ratio_spec f : exact f -> canonical f ->
  let '(n, d) := ratio f in (0 < d)%Z /\ toQ f == inject_Z n / inject_Z d /\ (n = 0%Z -> f = NInt 0).
Proof.
  intros E C. destruct f as [z|q|q]; try discriminate; cbn [ratio toQ].
  - split; [lia|]. split; [unfold Qeq, Qdiv, Qmult, Qinv, inject_Z; cbn; ring|]. intros ->. reflexivity.
  - split; [lia|]. split.
    + destruct q as [a b]. cbn [Qnum Qden]. unfold Qeq, Qdiv, Qmult, Qinv, inject_Z. cbn. ring.
    + intro Z0. exfalso. destruct C as [Cr Cd]. destruct q as [a b]. cbn [Qnum Qden] in *. subst a.
      assert (X : Qred (0 # b) = Qred (0 # 1)) by (apply Qred_complete; unfold Qeq; cbn; lia).
      rewrite X in Cr. cbn in Cr. injection Cr as <-. lia.
Qed.

Lemma valQ_mul_eq ns ds n2 d2 ns' ds' :
  Forall nzr ds -> Forall nzr d2 -> Forall nzr ds' ->
  (prod_ranges ns' * (prod_ranges ds * prod_ranges d2) = prod_ranges ns * prod_ranges n2 * prod_ranges ds')%Z ->
  valQ ns' ds' == valQ ns ds * (inject_Z (prod_ranges n2) / inject_Z (prod_ranges d2)).
Proof.
  intros F1 F2 F3 E. unfold valQ.
  pose proof (prod_ranges_nz _ F1). pose proof (prod_ranges_nz _ F2). pose proof (prod_ranges_nz _ F3).
  transitivity (inject_Z (prod_ranges ns * prod_ranges n2) / inject_Z (prod_ranges ds * prod_ranges d2)).
  - apply Qdiv_cross; [assumption|apply Z.neq_mul_0; split; assumption|]. rewrite E. ring.
  - rewrite !iZ_mult. field. split; unfold Qeq; cbn; lia.
Qed.

Lemma comb_times_frac_ok ns ds f :
  Forall nzr ns -> Forall nzr ds -> exact f -> canonical f ->
  exists lv, comb_times_frac ns ds f = Ok lv /\ rel lv (norm (valQ ns ds * toQ f)).
Proof.
  intros Fn Fd E C. unfold comb_times_frac.
  pose proof (ratio_spec f E C) as R. destruct (ratio f) as [n d]. destruct R as (Dp & Hq & Z0).
  destruct (Z.eqb_spec n 0) as [->|Nn].
  - exists (CNum (NInt 0)). split; [reflexivity|]. cbn [rel].
    rewrite (Z0 eq_refl). cbn [toQ]. split; [|split; [reflexivity|exact I]].
    symmetry. apply norm_integral. ring.
  - destruct (comb_mul_total ns ds _ _ Fn Fd (nzr_single n Nn) (nzr_single d ltac:(lia))) as (ns' & ds' & M).
    rewrite M. cbn [wrap]. exists (CComb ns' ds'). split; [reflexivity|].
    destruct (comb_mul_sound _ _ _ _ _ _ Fn Fd (nzr_single n Nn) (nzr_single d ltac:(lia)) M) as (Eq & A & B).
    cbn [rel]. split; [assumption|]. split; [assumption|].
    apply norm_comp. rewrite Hq.
    rewrite (valQ_mul_eq ns ds _ _ ns' ds' Fd (nzr_single d ltac:(lia)) B Eq).
    rewrite !prod_single. reflexivity.
Qed.

Lemma n_mul_norm a b : exact a -> exact b -> canonical a -> canonical b ->
  n_mul a b = Ok (norm (toQ a * toQ b)).
Proof. intros. apply good_eq. apply mul_correct; auto; reflexivity. Qed.

Lemma n_div_norm a b : exact a -> exact b -> ~ toQ b == 0 ->
  n_div a b = Ok (norm (toQ a / toQ b)).
Proof.
  intros Ea Eb Nz. apply good_eq. apply div_correct; auto; try reflexivity.
  destruct (Qis_zero (toQ b)) eqn:Z; [|reflexivity]. apply Qis_zero_spec in Z. contradiction.
Qed.

Lemma n_div_zero a b : toQ b == 0 -> n_div a b = Raise ZeroDivisionError.
Proof. intro H. unfold n_div. apply Qis_zero_spec in H. rewrite H. reflexivity. Qed.

Lemma rel_num r : exact r -> canonical r -> rel (CNum r) r.
Proof. intros; cbn; auto. Qed.

Lemma rel_comp lv q q' : q == q' -> rel lv (norm q) -> rel lv (norm q').
Proof. intros H R. rewrite <- (norm_comp q q' H). exact R. Qed.

Lemma c_mul_rel a b ea eb : rel a ea -> rel b eb -> rres (c_mul a b) (n_mul ea eb).
Proof.
  intros Ra Rb.
  destruct (rel_exact _ _ Ra) as [Ea Ca]. destruct (rel_exact _ _ Rb) as [Eb Cb].
  rewrite (n_mul_norm ea eb Ea Eb Ca Cb).
  destruct a as [x|ns1 ds1], b as [y|ns2 ds2]; cbn [c_mul].
  - destruct Ra as (-> & _), Rb as (-> & _). rewrite (n_mul_norm ea eb Ea Eb Ca Cb).
    cbn [rres]. apply rel_num; [apply exact_norm|apply canonical_norm].
  - destruct Ra as (-> & _). destruct Rb as (Fn & Fd & ->).
    unfold exact in Ea. rewrite Ea.
    destruct (comb_times_frac_ok ns2 ds2 ea Fn Fd Ea Ca) as (lv & -> & R). cbn [rres].
    eapply rel_comp; [|exact R]. rewrite toQ_norm. ring.
  - destruct Rb as (-> & _). destruct Ra as (Fn & Fd & ->).
    unfold exact in Eb. rewrite Eb.
    destruct (comb_times_frac_ok ns1 ds1 eb Fn Fd Eb Cb) as (lv & -> & R). cbn [rres].
    eapply rel_comp; [|exact R]. rewrite toQ_norm. reflexivity.
  - destruct Ra as (Fn1 & Fd1 & ->). destruct Rb as (Fn2 & Fd2 & ->).
    destruct (comb_mul_total ns1 ds1 ns2 ds2 Fn1 Fd1 Fn2 Fd2) as (ns' & ds' & M). rewrite M. cbn [wrap rres rel].
    destruct (comb_mul_sound _ _ _ _ _ _ Fn1 Fd1 Fn2 Fd2 M) as (Eq & A & B).
    split; [assumption|]. split; [assumption|].
    apply norm_comp. rewrite !toQ_norm.
    rewrite (valQ_mul_eq ns1 ds1 ns2 ds2 ns' ds' Fd1 Fd2 B Eq). reflexivity.
Qed.

Lemma valQ_inv ns ds : Forall nzr ns -> Forall nzr ds -> valQ ds ns == / valQ ns ds.
Proof.
  intros Fn Fd. unfold valQ.
  pose proof (prod_ranges_nz _ Fn). pose proof (prod_ranges_nz _ Fd).
  field. split; unfold Qeq; cbn; lia.
Qed.

Lemma c_div_rel a b ea eb : rel a ea -> rel b eb -> rres (c_div a b) (n_div ea eb).
Proof.
  intros Ra Rb.
  destruct (rel_exact _ _ Ra) as [Ea Ca]. destruct (rel_exact _ _ Rb) as [Eb Cb].
  destruct a as [x|ns1 ds1], b as [y|ns2 ds2]; cbn [c_div].
  - destruct Ra as (-> & _), Rb as (-> & _).
    destruct (Qeq_dec (toQ eb) 0) as [Z|Z].
    + rewrite (n_div_zero ea eb Z). reflexivity.
    + rewrite (n_div_norm ea eb Ea Eb Z). cbn [rres]. apply rel_num; [apply exact_norm|apply canonical_norm].
  - (* number / lazy *)
    destruct Ra as (-> & _). destruct Rb as (Fn & Fd & ->).
    unfold exact in Ea. rewrite Ea.
    assert (Nz : ~ toQ (norm (valQ ns2 ds2)) == 0) by (rewrite toQ_norm; apply valQ_nz; assumption).
    rewrite (n_div_norm ea _ Ea (exact_norm _) Nz).
    destruct (comb_times_frac_ok ds2 ns2 ea Fd Fn Ea Ca) as (lv & -> & R). cbn [rres].
    eapply rel_comp; [|exact R]. rewrite toQ_norm.
    rewrite (valQ_inv ns2 ds2 Fn Fd). unfold Qdiv. ring.
  - (* lazy / number *)
    destruct Rb as (-> & _). destruct Ra as (Fn & Fd & ->).
    unfold exact in Eb. rewrite Eb. unfold comb_div_frac, recip.
    destruct (Qis_zero (toQ eb)) eqn:Z.
    + apply Qis_zero_spec in Z. rewrite (n_div_zero _ eb Z). reflexivity.
    + assert (Nz : ~ toQ eb == 0) by (intro X; apply Qis_zero_spec in X; congruence).
      rewrite (n_div_norm _ eb (exact_norm _) Eb Nz).
      destruct (comb_times_frac_ok ns1 ds1 (norm (/ toQ eb)) Fn Fd (exact_norm _) (canonical_norm _)) as (lv & -> & R).
      cbn [rres]. eapply rel_comp; [|exact R]. rewrite !toQ_norm. reflexivity.
  - destruct Ra as (Fn1 & Fd1 & ->). destruct Rb as (Fn2 & Fd2 & ->).
    assert (Nz : ~ toQ (norm (valQ ns2 ds2)) == 0) by (rewrite toQ_norm; apply valQ_nz; assumption).
    rewrite (n_div_norm _ _ (exact_norm _) (exact_norm _) Nz).
    destruct (comb_mul_total ns1 ds1 ds2 ns2 Fn1 Fd1 Fd2 Fn2) as (ns' & ds' & M). rewrite M. cbn [wrap rres rel].
    destruct (comb_mul_sound _ _ _ _ _ _ Fn1 Fd1 Fd2 Fn2 M) as (Eq & A & B).
    split; [assumption|]. split; [assumption|].
    apply norm_comp. rewrite !toQ_norm.
    rewrite (valQ_mul_eq ns1 ds1 ds2 ns2 ns' ds' Fd1 Fn2 B Eq).
    fold (valQ ds2 ns2). rewrite (valQ_inv ns2 ds2 Fn2 Fd2). reflexivity.
Qed.

Lemma lift_num2_rel f a b ea eb :
  rel a ea -> rel b eb ->
  (forall x y, exact x -> exact y -> canonical x -> canonical y ->
     match f x y with Ok r => exact r /\ canonical r | Raise _ => True end) ->
  rres (lift_num2 f a b) (f ea eb).
Proof.
  intros Ra Rb Hf. unfold lift_num2. rewrite (rel_coerce _ _ Ra), (rel_coerce _ _ Rb).
  destruct (rel_exact _ _ Ra) as [Ea Ca]. destruct (rel_exact _ _ Rb) as [Eb Cb].
  specialize (Hf ea eb Ea Eb Ca Cb). destruct (f ea eb) as [r|x]; cbn [rres]; [|reflexivity].
  destruct Hf. apply rel_num; assumption.
Qed.

Lemma good_exact r q : good r q -> match r with Ok v => exact v /\ canonical v | Raise _ => True end.
Proof. intros (v & -> & _ & C & E). split; assumption. Qed.

Theorem lazy_tracks_eager e : rres (ceval_lazy e) (ceval_eager e).
Proof.
  induction e as [n|n k|z|a IHa b IHb|a IHa b IHb|a IHa b IHb|a IHa b IHb|c a IHa b IHb|o a IHa];
    cbn [ceval_lazy ceval_eager].
  - (* n! *)
    unfold lazy_factorial, fact_Z. destruct (Z.ltb_spec n 2); cbn [rres rel].
    + split; [reflexivity|split; [reflexivity|exact I]].
    + split; [nz|]. split; [constructor|].
      symmetry. apply norm_integral. unfold valQ. rewrite prod_ranges_cons, !prod_ranges_nil.
      unfold prod_range, rcount. cbn [lo hi]. replace (n - 2 + 1)%Z with (n - 1)%Z by lia.
      rewrite Z.mul_1_r. unfold Qdiv. change (/ inject_Z 1) with 1. ring.
  - (* C(n,k) *)
    unfold lazy_choose, choose_num.
    destruct ((n <? k)%Z || (n <? 0)%Z || (k <? 0)%Z) eqn:G; cbn [rres rel].
    + split; [reflexivity|split; [reflexivity|exact I]].
    + apply orb_false_iff in G. destruct G as [G G3]. apply orb_false_iff in G. destruct G as [G1 G2].
      apply Z.ltb_ge in G1, G2, G3.
      assert (Fd : Forall nzr (nonempty_ranges [mkr 2 k; mkr 2 (n - k)])).
      { unfold nonempty_ranges. cbn [filter]. unfold is_empty. cbn [lo hi].
        destruct (Z.ltb_spec k 2), (Z.ltb_spec (n - k) 2); cbn [negb]; nz. }
      split; [destruct (Z.ltb_spec n 2); nz|]. split; [exact Fd|].
      apply norm_comp. unfold valQ.
      assert (P1 : prod_ranges (if (n <? 2)%Z then [] else [mkr 2 n]) = fact_Z n).
      { unfold fact_Z. destruct (Z.ltb_spec n 2); [reflexivity|].
        rewrite prod_ranges_cons, prod_ranges_nil. unfold prod_range, rcount. cbn [lo hi].
        replace (n - 2 + 1)%Z with (n - 1)%Z by lia. ring. }
      assert (P2 : prod_ranges (nonempty_ranges [mkr 2 k; mkr 2 (n - k)]) = (fact_Z k * fact_Z (n - k))%Z).
      { unfold nonempty_ranges, fact_Z. cbn [filter]. unfold is_empty. cbn [lo hi].
        destruct (Z.ltb_spec k 2), (Z.ltb_spec (n - k) 2); cbn [negb];
          rewrite ?prod_ranges_cons, ?prod_ranges_nil; unfold prod_range, rcount; cbn [lo hi];
          try replace (k - 2 + 1)%Z with (k - 1)%Z by lia;
          try replace (n - k - 2 + 1)%Z with (n - k - 1)%Z by lia; ring. }
      rewrite P1, P2. reflexivity.
  - cbn [rres rel]. split; [reflexivity|split; [reflexivity|exact I]].
  - destruct (ceval_lazy a) as [va|xa], (ceval_eager a) as [ea|ya]; cbn [rres] in IHa; try contradiction;
      [|subst; reflexivity].
    destruct (ceval_lazy b) as [vb|xb], (ceval_eager b) as [eb|yb]; cbn [rres] in IHb; try contradiction;
      [|subst; reflexivity].
    apply c_mul_rel; assumption.
  - destruct (ceval_lazy a) as [va|xa], (ceval_eager a) as [ea|ya]; cbn [rres] in IHa; try contradiction;
      [|subst; reflexivity].
    destruct (ceval_lazy b) as [vb|xb], (ceval_eager b) as [eb|yb]; cbn [rres] in IHb; try contradiction;
      [|subst; reflexivity].
    apply c_div_rel; assumption.
  - destruct (ceval_lazy a) as [va|xa], (ceval_eager a) as [ea|ya]; cbn [rres] in IHa; try contradiction;
      [|subst; reflexivity].
    destruct (ceval_lazy b) as [vb|xb], (ceval_eager b) as [eb|yb]; cbn [rres] in IHb; try contradiction;
      [|subst; reflexivity].
    apply lift_num2_rel; try assumption. intros x y Ex Ey Cx Cy.
    apply (good_exact _ (toQ x + toQ y)). apply add_correct; auto; reflexivity.
  - destruct (ceval_lazy a) as [va|xa], (ceval_eager a) as [ea|ya]; cbn [rres] in IHa; try contradiction;
      [|subst; reflexivity].
    destruct (ceval_lazy b) as [vb|xb], (ceval_eager b) as [eb|yb]; cbn [rres] in IHb; try contradiction;
      [|subst; reflexivity].
    apply lift_num2_rel; try assumption. intros x y Ex Ey Cx Cy.
    apply (good_exact _ (toQ x - toQ y)). apply sub_correct; auto; reflexivity.
  - destruct (ceval_lazy a) as [va|xa], (ceval_eager a) as [ea|ya]; cbn [rres] in IHa; try contradiction;
      [|subst; reflexivity].
    destruct (ceval_lazy b) as [vb|xb], (ceval_eager b) as [eb|yb]; cbn [rres] in IHb; try contradiction;
      [|subst; reflexivity].
    apply lift_num2_rel; try assumption. intros x y Ex Ey Cx Cy.
    destruct c; cbn; split; try reflexivity; exact I.
  - destruct (ceval_lazy a) as [va|xa], (ceval_eager a) as [ea|ya]; cbn [rres] in IHa; try contradiction;
      [|subst; reflexivity].
    rewrite (rel_coerce _ _ IHa). destruct (rel_exact _ _ IHa) as [Ea Ca].
    assert (G : exists q, good (unop_eval o ea) q).
    { destruct o; eexists; eapply unop_correct; try eassumption; try reflexivity. }
    destruct G as (q & v & -> & _ & C & E). cbn [rres]. apply rel_num; assumption.
Qed.

(* the top-level statement: resolving the lazy result gives exactly the eager result,
   errors included *)
Theorem lazy_equals_eager e : ceval_top e = ceval_eager e.
Proof.
  unfold ceval_top. pose proof (lazy_tracks_eager e) as R.
  destruct (ceval_lazy e) as [lv|x], (ceval_eager e) as [ev|y]; cbn [rres] in R; try contradiction.
  - apply rel_coerce. exact R.
  - subst; reflexivity.
Qed.

(* the eager value is the mathematical one: n! is the product 2..n, and C(n,k) = n!/(k!(n-k)!)
   is the Pascal-triangle binomial coefficient *)
Local Open Scope Z_scope.
Lemma fact_Z_succ n : 0 <= n -> fact_Z (n + 1) = (n + 1) * fact_Z n.
Proof.
  intro H. unfold fact_Z. destruct (Z.ltb_spec (n + 1) 2), (Z.ltb_spec n 2); try lia.
  - assert (n = 1) by lia. subst. reflexivity.
  - replace (Z.to_nat (n + 1 - 1)) with (Z.to_nat (n - 1) + 1)%nat by lia.
    rewrite prod_from_app. cbn [prod_from]. replace (2 + Z.of_nat (Z.to_nat (n - 1))) with (n + 1) by lia. ring.
Qed.

Lemma binom_gt m : forall j, (m < j)%nat -> binom m j = 0.
Proof.
  induction m as [|m IHm]; intros j Hj; destruct j; try lia; [reflexivity|].
  cbn [binom]. rewrite !IHm by lia. reflexivity.
Qed.
Lemma binom_diag n : binom n n = 1.
Proof.
  induction n as [|n IH]; [reflexivity|]. cbn [binom]. rewrite IH, binom_gt by lia. reflexivity.
Qed.

Lemma binom_fact n : forall k, (k <= n)%nat ->
  binom n k * fact_Z (Z.of_nat k) * fact_Z (Z.of_nat (n - k)) = fact_Z (Z.of_nat n).
Proof.
  induction n as [|n IH]; intros k Hk.
  - assert (k = O) by lia. subst. reflexivity.
  - destruct k as [|k].
    + cbn [binom]. replace (S n - 0)%nat with (S n) by lia. change (fact_Z (Z.of_nat 0)) with 1. ring.
    + cbn [binom]. replace (S n - S k)%nat with (n - k)%nat by lia.
      replace (Z.of_nat (S n)) with (Z.of_nat n + 1) by lia.
      replace (Z.of_nat (S k)) with (Z.of_nat k + 1) by lia.
      rewrite !fact_Z_succ by lia.
      destruct (Nat.eq_dec k n) as [->|Ne].
      * (* k = n : binom n (S n) = 0 and binom n n = 1 *)
        rewrite (binom_gt n (S n)) by lia. rewrite binom_diag. replace (n - n)%nat with O by lia.
        change (fact_Z (Z.of_nat 0)) with 1. ring.
      * pose proof (IH k ltac:(lia)) as E1. pose proof (IH (S k) ltac:(lia)) as E2.
        replace (Z.of_nat (S k)) with (Z.of_nat k + 1) in E2 by lia.
        rewrite fact_Z_succ in E2 by lia.
        assert (E3 : fact_Z (Z.of_nat (n - k)) = Z.of_nat (n - k) * fact_Z (Z.of_nat (n - S k))).
        { replace (Z.of_nat (n - k)) with (Z.of_nat (n - S k) + 1) at 1 by lia.
          rewrite fact_Z_succ by lia. f_equal. lia. }
        rewrite <- E1 at 1.
        replace ((binom n k + binom n (S k)) * ((Z.of_nat k + 1) * fact_Z (Z.of_nat k)) * fact_Z (Z.of_nat (n - k)))
          with ((Z.of_nat k + 1) * (binom n k * fact_Z (Z.of_nat k) * fact_Z (Z.of_nat (n - k)))
                + binom n (S k) * ((Z.of_nat k + 1) * fact_Z (Z.of_nat k)) * fact_Z (Z.of_nat (n - k))) by ring.
        rewrite E3 at 2.
        replace (binom n (S k) * ((Z.of_nat k + 1) * fact_Z (Z.of_nat k)) * (Z.of_nat (n - k) * fact_Z (Z.of_nat (n - S k))))
          with (Z.of_nat (n - k) * (binom n (S k) * ((Z.of_nat k + 1) * fact_Z (Z.of_nat k)) * fact_Z (Z.of_nat (n - S k)))) by ring.
        rewrite E2, E1. replace (Z.of_nat (n - k)) with (Z.of_nat n - Z.of_nat k) by lia. ring.
Qed.

Lemma fact_Z_pos n : 0 < fact_Z n.
Proof.
  unfold fact_Z. destruct (Z.ltb_spec n 2); [lia|].
  assert (forall m l, 0 < l -> 0 < prod_from l m).
  { induction m as [|m IHm]; intros l Hl; cbn [prod_from]; [lia|]. apply Z.mul_pos_pos; [lia|apply IHm; lia]. }
  apply H0. lia.
Qed.

Theorem choose_num_is_binomial n k : (k <= n)%nat ->
  choose_num (Z.of_nat n) (Z.of_nat k) = NInt (binom n k).
Proof.
  intro H. unfold choose_num.
  destruct (Z.ltb_spec (Z.of_nat n) (Z.of_nat k)); [lia|].
  destruct (Z.ltb_spec (Z.of_nat n) 0); [lia|]. destruct (Z.ltb_spec (Z.of_nat k) 0); [lia|]. cbn [orb].
  apply norm_integral.
  pose proof (binom_fact n k H) as E. replace (Z.of_nat n - Z.of_nat k) with (Z.of_nat (n - k)) by lia.
  rewrite <- E. pose proof (fact_Z_pos (Z.of_nat k)). pose proof (fact_Z_pos (Z.of_nat (n - k))).
  rewrite <- Z.mul_assoc. rewrite iZ_mult.
  field. unfold Qeq; cbn. nia.
Qed.
