(* SamplingProofs.v — proofs about Model/Sampling.v (property C18). *)
From Coq Require Import Qround Qpower Qabs Lia Lqa.
From Ka Require Import Model.Sampling.

Open Scope Q_scope.

(* ---------- comparisons, floors ---------- *)
Lemma sp_Qltb_lt a b : Qltb a b = true <-> a < b.
Proof. unfold Qltb. rewrite Qlt_alt. destruct (a ?= b); intuition congruence. Qed.
Lemma sp_Qltb_ge a b : Qltb a b = false <-> b <= a.
Proof.
  split; intro H.
  - apply Qnot_lt_le. intro Hl. apply sp_Qltb_lt in Hl. congruence.
  - destruct (Qltb a b) eqn:E; [|reflexivity]. apply sp_Qltb_lt in E. lra.
Qed.
Lemma sp_Qleb_le a b : Qleb a b = true <-> a <= b.
Proof. unfold Qleb. rewrite Qle_alt. destruct (a ?= b); intuition congruence. Qed.
Lemma sp_Qleb_gt a b : Qleb a b = false <-> b < a.
Proof.
  split; intro H.
  - apply Qnot_le_lt. intro Hl. apply sp_Qleb_le in Hl. congruence.
  - destruct (Qleb a b) eqn:E; [|reflexivity]. apply sp_Qleb_le in E. lra.
Qed.
Lemma sp_Qeqb_eq a b : Qeqb a b = true <-> a == b.
Proof. unfold Qeqb. rewrite Qeq_alt. destruct (a ?= b); intuition congruence. Qed.
Lemma sp_Qis_zero q : Qis_zero q = true <-> q == 0.
Proof. unfold Qis_zero, Qeq. cbn. rewrite Z.eqb_eq. lia. Qed.

Lemma floor_le_iff x t : (Qfloor x <= t)%Z <-> x < inject_Z (t + 1).
Proof.
  split; intro H.
  - apply Qlt_le_trans with (inject_Z (Qfloor x + 1)); [apply Qlt_floor|].
    rewrite <- Zle_Qle. lia.
  - assert (L : inject_Z (Qfloor x) < inject_Z (t + 1))
      by (apply Qle_lt_trans with x; [apply Qfloor_le | exact H]).
    rewrite <- Zlt_Qlt in L. lia.
Qed.
Lemma floor_ge_iff z x : (z <= Qfloor x)%Z <-> inject_Z z <= x.
Proof.
  split; intro H.
  - apply Qle_trans with (inject_Z (Qfloor x)); [rewrite <- Zle_Qle; exact H | apply Qfloor_le].
  - assert (L : inject_Z z < inject_Z (Qfloor x + 1))
      by (apply Qle_lt_trans with x; [exact H | apply Qlt_floor]).
    rewrite <- Zlt_Qlt in L. lia.
Qed.

Lemma iZ_width lo hi : inject_Z (hi - lo + 1) == inject_Z hi - inject_Z lo + 1.
Proof. unfold Z.sub. rewrite !inject_Z_plus, inject_Z_opp. ring. Qed.
Lemma iZ_succ t : inject_Z (t + 1) == inject_Z t + 1.
Proof. rewrite inject_Z_plus. reflexivity. Qed.

(* ---------- Bernoulli ---------- *)
Lemma bernoulli_support p u : bernoulli_u p u = 0%Z \/ bernoulli_u p u = 1%Z.
Proof. unfold bernoulli_u. destruct (Qltb u p); auto. Qed.

Lemma bernoulli_one_iff p u : bernoulli_u p u = 1%Z <-> u < p.
Proof.
  unfold bernoulli_u. destruct (Qltb u p) eqn:E.
  - apply sp_Qltb_lt in E. tauto.
  - apply sp_Qltb_ge in E. split; [discriminate | lra].
Qed.
Lemma bernoulli_zero_iff p u : bernoulli_u p u = 0%Z <-> p <= u.
Proof.
  unfold bernoulli_u. destruct (Qltb u p) eqn:E.
  - apply sp_Qltb_lt in E. split; [discriminate | lra].
  - apply sp_Qltb_ge in E. tauto.
Qed.

Lemma bernoulli_pmf_iff p u :
  (bernoulli_u p u = 1%Z <-> u < p) /\ (bernoulli_u p u = 0%Z <-> p <= u).
Proof. split; [apply bernoulli_one_iff | apply bernoulli_zero_iff]. Qed.

(* The sampler is the inverse transform of the *reflected* draw 1-u (uniform on (0,1]):
   sample <= t  <->  1-u <= cdf t, for every integer t. *)
Lemma bernoulli_inverse_cdf p u t : 0 <= u -> u < 1 ->
  ((bernoulli_u p u <= t)%Z <-> 1 - u <= bernoulli_cdf p t).
Proof.
  intros H0 H1. unfold bernoulli_cdf, bernoulli_u.
  destruct (Z.ltb_spec t 0) as [T0|T0].
  - destruct (Qltb u p); split; intro H; try lia; lra.
  - destruct (Z.ltb_spec t 1) as [T1|T1].
    + destruct (Qltb u p) eqn:E.
      * apply sp_Qltb_lt in E. split; intro H; [lia | lra].
      * apply sp_Qltb_ge in E. split; intro H; [lra | lia].
    + destruct (Qltb u p); split; intro H; try lia; lra.
Qed.

(* ---------- UniformInt ---------- *)
Lemma uniformint_support lo hi u : (lo <= hi)%Z -> 0 <= u -> u < 1 ->
  (lo <= uniformint_u lo hi u <= hi)%Z.
Proof.
  intros L H0 H1. unfold uniformint_u.
  pose proof (iZ_width lo hi) as W.
  assert (Hn : 1 <= inject_Z (hi - lo + 1)) by (change 1 with (inject_Z 1); rewrite <- Zle_Qle; lia).
  set (n := inject_Z (hi - lo + 1)) in *.
  split.
  - apply floor_ge_iff. nra.
  - apply floor_le_iff. rewrite (iZ_succ hi). nra.
Qed.

Lemma uniformint_inverse_cdf lo hi u t : (lo <= hi)%Z -> 0 <= u -> u < 1 ->
  ((uniformint_u lo hi u <= t)%Z <-> u < uniformint_cdf lo hi t).
Proof.
  intros L H0 H1. pose proof (uniformint_support lo hi u L H0 H1) as [S1 S2].
  unfold uniformint_cdf.
  destruct (Z.ltb_spec t lo) as [T0|T0].
  - split; intro H; [lia | lra].
  - rewrite Z.geb_leb. destruct (Z.leb_spec hi t) as [T1|T1].
    + split; intro H; [lra | lia].
    + unfold uniformint_u. rewrite floor_le_iff.
      pose proof (iZ_width lo hi) as W. pose proof (iZ_width lo t) as Wt.
      assert (Hn : 1 <= inject_Z (hi - lo + 1)) by (change 1 with (inject_Z 1); rewrite <- Zle_Qle; lia).
      set (n := inject_Z (hi - lo + 1)) in *. set (m := inject_Z (t - lo + 1)) in *.
      rewrite (iZ_succ t).
      assert (Q : m / n * n == m) by (field; lra).
      set (q := m / n) in *.
      split; intro H; nra.
Qed.

(* ---------- Uniform ---------- *)
Lemma uniform_support lo hi u : lo <= hi -> 0 <= u -> u < 1 ->
  lo <= uniform_u lo hi u /\ uniform_u lo hi u <= hi /\ (lo < hi -> uniform_u lo hi u < hi).
Proof. intros L H0 H1. unfold uniform_u. split; [nra|]. split; [nra|]. intro L'. nra. Qed.

(* strict form, every threshold *)
Lemma uniform_inverse_cdf_lt lo hi u t : lo < hi -> 0 <= u -> u < 1 ->
  (uniform_u lo hi u < t <-> u < uniform_cdf lo hi t).
Proof.
  intros L H0 H1. unfold uniform_cdf, uniform_u.
  destruct (Qltb t lo) eqn:E0.
  - apply sp_Qltb_lt in E0. split; intro H; nra.
  - apply sp_Qltb_ge in E0. destruct (Qleb hi t) eqn:E1.
    + apply sp_Qleb_le in E1. split; intro H; nra.
    + apply sp_Qleb_gt in E1.
      assert (Q : (t - lo) / (hi - lo) * (hi - lo) == t - lo) by (field; lra).
      set (q := (t - lo) / (hi - lo)) in *.
      split; intro H; nra.
Qed.
(* non-strict form, thresholds from lo upwards (below lo the event is empty while
   u <= 0 holds at the single point u = 0) *)
Lemma uniform_inverse_cdf_le lo hi u t : lo < hi -> 0 <= u -> u < 1 -> lo <= t ->
  (uniform_u lo hi u <= t <-> u <= uniform_cdf lo hi t).
Proof.
  intros L H0 H1 Ht. unfold uniform_cdf, uniform_u.
  destruct (Qltb t lo) eqn:E0.
  - apply sp_Qltb_lt in E0. lra.
  - destruct (Qleb hi t) eqn:E1.
    + apply sp_Qleb_le in E1. split; intro H; nra.
    + apply sp_Qleb_gt in E1.
      assert (Q : (t - lo) / (hi - lo) * (hi - lo) == t - lo) by (field; lra).
      set (q := (t - lo) / (hi - lo)) in *.
      split; intro H; nra.
Qed.
(* lo = hi: a point mass *)
Lemma uniform_inverse_cdf_point lo u t : 0 <= u -> u < 1 ->
  (uniform_u lo lo u <= t <-> u < uniform_cdf lo lo t).
Proof.
  intros H0 H1. unfold uniform_cdf, uniform_u.
  destruct (Qltb t lo) eqn:E0.
  - apply sp_Qltb_lt in E0. split; intro H; nra.
  - apply sp_Qltb_ge in E0. destruct (Qleb lo t) eqn:E1.
    + split; intro H; nra.
    + apply sp_Qleb_gt in E1. lra.
Qed.

(* ---------- Binomial ---------- *)
Lemma binomial_support p us : (0 <= binomial_us p us <= Z.of_nat (List.length us))%Z.
Proof.
  induction us as [|u r IH]; cbn [binomial_us List.length]; [lia|].
  destruct (bernoulli_support p u) as [E|E]; rewrite E; lia.
Qed.

Lemma draws_spec n : forall s us s', draws n s = (us, s') ->
  List.length us = n /\ src s' = src s /\ pos s' = (pos s + n)%nat /\
  (good_src (src s) -> Forall unit_interval us).
Proof.
  induction n as [|n IH]; intros s us s' H; cbn [draws] in H.
  - injection H as <- <-. split; [reflexivity|]. split; [reflexivity|]. split; [lia|]. intros _; constructor.
  - unfold unit_draw in H.
    destruct (draws n {| src := src s; pos := S (pos s) |}) as [r s2] eqn:E.
    injection H as <- <-. destruct (IH _ _ _ E) as (L & Hs & Hp & G). cbn [src pos] in *.
    split; [cbn [List.length]; lia|]. split; [exact Hs|]. split; [lia|].
    intro Hg. constructor; [apply Hg | auto].
Qed.

(* ---------- Poisson (generic over the pmf) ---------- *)
Lemma psum_step pmf k : pbefore pmf k + pmf k == psum pmf k.
Proof. destruct k; cbn [pbefore psum]; ring. Qed.

Lemma poisson_loop_spec pmf u : forall fuel k p r,
  p == pbefore pmf k -> (forall j, (j < k)%nat -> psum pmf j <= u) ->
  poisson_loop pmf u fuel k p = Ok r ->
  u < psum pmf r /\ (forall j, (j < r)%nat -> psum pmf j <= u).
Proof.
  induction fuel as [|f IH]; intros k p r Hp Inv H; cbn [poisson_loop] in H; [discriminate|].
  assert (E : Qred (p + pmf k) == psum pmf k)
    by (rewrite Qred_correct, Hp; apply psum_step).
  destruct (Qltb u (Qred (p + pmf k))) eqn:C.
  - injection H as <-. apply sp_Qltb_lt in C. rewrite E in C. split; [exact C | exact Inv].
  - apply sp_Qltb_ge in C. rewrite E in C.
    apply (IH (S k) (Qred (p + pmf k)) r); [exact E| |exact H].
    intros j Hj. destruct (Nat.eq_dec j k) as [->|N]; [exact C | apply Inv; lia].
Qed.

(* the result is the least index whose cumulative mass exceeds u *)
Lemma poisson_gen_least pmf fuel u k : poisson_gen pmf fuel u = Ok k ->
  u < psum pmf k /\ (forall j, (j < k)%nat -> psum pmf j <= u).
Proof.
  intro H. apply (poisson_loop_spec pmf u fuel 0%nat 0 k); [reflexivity | intros; lia | exact H].
Qed.

Lemma poisson_support pmf fuel u k : poisson_gen pmf fuel u = Ok k ->
  (0 <= Z.of_nat k)%Z /\ u < psum pmf k /\ (forall j, (j < k)%nat -> psum pmf j <= u).
Proof. intro H. split; [apply Zle_0_nat | exact (poisson_gen_least pmf fuel u k H)]. Qed.

Lemma psum_mono pmf : (forall j, 0 <= pmf j) -> forall a b, (a <= b)%nat -> psum pmf a <= psum pmf b.
Proof.
  intros Hp a b L. induction L as [|b L IH]; [lra|].
  cbn [psum]. pose proof (Hp (S b)). lra.
Qed.

Lemma poisson_gen_inverse_cdf pmf fuel u k : (forall j, 0 <= pmf j) ->
  poisson_gen pmf fuel u = Ok k -> forall t, ((k <= t)%nat <-> u < psum pmf t).
Proof.
  intros Hp H t. destruct (poisson_gen_least _ _ _ _ H) as [A B]. split; intro L.
  - apply Qlt_le_trans with (psum pmf k); [exact A | apply psum_mono; assumption].
  - destruct (le_lt_dec k t) as [|G]; [assumption|]. specialize (B t G). lra.
Qed.

Lemma poisson_loop_terminates pmf u n : u < psum pmf n -> forall fuel k p,
  p == pbefore pmf k -> (k <= n)%nat -> (n - k < fuel)%nat ->
  exists r, poisson_loop pmf u fuel k p = Ok r.
Proof.
  intros Hn. induction fuel as [|f IH]; intros k p Hp L F; [lia|].
  cbn [poisson_loop].
  assert (E : Qred (p + pmf k) == psum pmf k)
    by (rewrite Qred_correct, Hp; apply psum_step).
  destruct (Qltb u (Qred (p + pmf k))) eqn:C; [eexists; reflexivity|].
  apply sp_Qltb_ge in C. rewrite E in C.
  assert (k <> n) by (intros ->; lra).
  apply IH; [exact E | lia | lia].
Qed.
Lemma poisson_gen_terminates pmf fuel u n : u < psum pmf n -> (n < fuel)%nat ->
  exists r, poisson_gen pmf fuel u = Ok r.
Proof.
  intros Hn F. apply (poisson_loop_terminates pmf u n Hn); [reflexivity | lia | lia].
Qed.

(* the cumulative sums of the Poisson pmf are Prob.v's poisson_cdf (what P() evaluates) *)
Lemma fact_loop_pos n : (0 < fact_loop n)%Z.
Proof. induction n as [|n IH]; cbn [fact_loop]; nia. Qed.
Lemma factorial_pos z : (0 < factorial z)%Z.
Proof. unfold factorial. destruct (z <? 2)%Z; [lia | apply fact_loop_pos]. Qed.

Lemma poisson_pmf_term mu e k : poisson_pmf mu e (Z.of_nat k) == e * poisson_term mu (Z.of_nat k).
Proof.
  unfold poisson_pmf, poisson_term.
  destruct (Z.ltb_spec (Z.of_nat k) 0); [lia|].
  rewrite !Qred_correct.
  assert (F : ~ inject_Z (factorial (Z.of_nat k)) == 0).
  { pose proof (factorial_pos (Z.of_nat k)) as P. intro E.
    assert (Z : 0 < inject_Z (factorial (Z.of_nat k))) by (change 0 with (inject_Z 0); rewrite <- Zlt_Qlt; exact P).
    lra. }
  field. exact F.
Qed.

Lemma sumZ_0_nat f t : sumZ f 0 (Z.of_nat t) = sum_n f 0 (S t).
Proof. unfold sumZ. f_equal. lia. Qed.

Lemma sum_n_S f lo m : sum_n f lo (S m) == sum_n f lo m + f (lo + Z.of_nat m)%Z.
Proof. cbn [sum_n]. apply Qred_correct. Qed.

Lemma psum_poisson_cdf mu e t :
  psum (fun k => poisson_pmf mu e (Z.of_nat k)) t == poisson_cdf mu e (Z.of_nat t).
Proof.
  unfold poisson_cdf. rewrite sumZ_0_nat.
  induction t as [|t IH].
  - rewrite sum_n_S. cbn [psum sum_n]. rewrite poisson_pmf_term. cbn [Z.add Z.of_nat]. ring.
  - cbn [psum]. rewrite IH. rewrite (sum_n_S _ _ (S t)).
    rewrite poisson_pmf_term. replace (0 + Z.of_nat (S t))%Z with (Z.of_nat (S t)) by lia. ring.
Qed.

Lemma poisson_pmf_nonneg mu e k : 0 <= mu -> 0 <= e -> 0 <= poisson_pmf mu e (Z.of_nat k).
Proof.
  intros Hm He. rewrite poisson_pmf_term. unfold poisson_term. rewrite Qred_correct.
  assert (P : 0 <= mu ^ Z.of_nat k).
  { destruct k as [|k]; [cbn; lra|]. cbn [Z.of_nat Qpower]. apply Qpower_pos_positive. exact Hm. }
  assert (Z : 0 < inject_Z (factorial (Z.of_nat k)))
    by (change 0 with (inject_Z 0); rewrite <- Zlt_Qlt; apply factorial_pos).
  apply Qmult_le_0_compat; [exact He|].
  apply Qle_shift_div_l; [exact Z | lra].
Qed.

Section Ext.
Variables (logK erfinvK : Q -> Q) (sqrt2 : Q) (expnegK : Q -> Q) (fuel : nat) (init : Z -> nat -> Q).

(* Poisson.sample against P(): for the variable with e = exp(-mu) > 0, the sample is <= t
   exactly when u < poisson_cdf mu e t. *)
Lemma poisson_inverse_cdf mu u k : 0 <= mu -> 0 <= expnegK mu ->
  poisson_gen (poisson_pmf_nat expnegK mu) fuel u = Ok k ->
  forall t, ((k <= t)%nat <-> u < poisson_cdf mu (expnegK mu) (Z.of_nat t)).
Proof.
  intros Hm He H t. rewrite <- psum_poisson_cdf.
  apply (poisson_gen_inverse_cdf _ fuel); [|exact H].
  intro j. apply poisson_pmf_nonneg; assumption.
Qed.

(* ---------- Exponential, Geometric, Gaussian: relative to log / erfinv ---------- *)
Lemma exponential_support lam u :
  (forall x, 0 < x -> x <= 1 -> logK x <= 0) -> 0 < lam -> 0 <= u -> u < 1 ->
  0 <= exponential_u logK lam u.
Proof.
  intros Hlog Hl H0 H1. unfold exponential_u.
  assert (A : logK (1 - u) <= 0) by (apply Hlog; lra).
  apply Qle_shift_div_l; [exact Hl | lra].
Qed.

(* with en z = exp(-z) for z >= 0: on (0,1] log is strictly increasing, en z lies in (0,1]
   and log (en z) = -z.  Strict form, every threshold. *)
Lemma exponential_inverse_cdf (en : Q -> Q) lam u t :
  (forall x y, 0 < x -> x <= 1 -> 0 < y -> y <= 1 -> (x <= y <-> logK x <= logK y)) ->
  (forall z, 0 <= z -> 0 < en z /\ en z <= 1 /\ logK (en z) == - z) ->
  (forall x, 0 < x -> x <= 1 -> logK x <= 0) ->
  0 < lam -> 0 <= u -> u < 1 ->
  (exponential_u logK lam u < t <-> u < exponential_cdf en lam t).
Proof.
  intros Hmono Hen Hlog Hl H0 H1.
  pose proof (exponential_support lam u Hlog Hl H0 H1) as S.
  unfold exponential_cdf. destruct (Qltb t 0) eqn:E0.
  - apply sp_Qltb_lt in E0. split; intro H; lra.
  - apply sp_Qltb_ge in E0. unfold exponential_u in *.
    assert (Z : 0 <= lam * t) by nra.
    destruct (Hen (lam * t) Z) as (Ep & Ep1 & El).
    assert (U : 0 < 1 - u) by lra. assert (U1 : 1 - u <= 1) by lra.
    assert (D : - logK (1 - u) / lam * lam == - logK (1 - u)) by (field; lra).
    set (q := - logK (1 - u) / lam) in *.
    pose proof (Hmono (1 - u) (en (lam * t)) U U1 Ep Ep1) as M.
    split; intro H.
    + assert (G : ~ 1 - u <= en (lam * t)).
      { intro C. apply M in C. rewrite El in C. nra. }
      lra.
    + assert (G : ~ logK (1 - u) <= logK (en (lam * t))).
      { intro C. apply M in C. lra. }
      rewrite El in G. nra.
Qed.

Lemma geometric_support p u z : geometric_u logK p u = Ok z -> (1 <= z)%Z.
Proof.
  unfold geometric_u. destruct (Qis_zero (logK (1 - p))); [discriminate|].
  intro H; injection H as <-. apply Z.le_max_l.
Qed.

Lemma gaussian_monotone mu sd u u' q q' :
  (forall x y, x <= y -> erfinvK x <= erfinvK y) -> 0 <= sqrt2 -> 0 < sd -> u <= u' ->
  gaussian_u erfinvK sqrt2 mu sd u = Ok q -> gaussian_u erfinvK sqrt2 mu sd u' = Ok q' -> q <= q'.
Proof.
  intros Hm Hs Hsd L. unfold gaussian_u.
  destruct (Qis_zero u); [discriminate|]. destruct (Qis_zero u'); [discriminate|].
  intros A B; injection A as <-; injection B as <-.
  assert (E : erfinvK (2 * u - 1) <= erfinvK (2 * u' - 1)) by (apply Hm; lra).
  assert (0 <= sd * sqrt2) by nra. nra.
Qed.

(* ---------- every sampler, through the generator state ---------- *)
Notation sampleK := (sample logK erfinvK sqrt2 expnegK fuel).

Lemma sample_support X s v s' :
  (forall x, 0 < x -> x <= 1 -> logK x <= 0) ->
  valid_params X -> good_src (src s) ->
  sampleK X s = (Ok v, s') -> in_support X v /\ src s' = src s.
Proof.
  intros Hlog V G H. pose proof (G (pos s)) as [U0 U1].
  destruct X as [n p|mu|p|p|lo hi|lam|lo hi|mu sd]; cbn [sample unit_draw in_support valid_params] in *.
  - destruct (draws (Z.to_nat n) s) as [us s1] eqn:E. injection H as <- <-.
    destruct (draws_spec _ _ _ _ E) as (L & Hs & _ & _).
    split; [|exact Hs]. eexists; split; [reflexivity|].
    pose proof (binomial_support p us). lia.
  - destruct (poisson_gen _ fuel (src s (pos s))) as [k|e] eqn:E; cbn [lift_res] in H; [|discriminate].
    injection H as <- <-. split; [|reflexivity]. eexists; split; [reflexivity | lia].
  - destruct (Qeqb p 1).
    + injection H as <- <-. split; [|reflexivity]. eexists; split; [reflexivity | lia].
    + destruct (geometric_u logK p (src s (pos s))) as [z|e] eqn:E; cbn [lift_res] in H; [|discriminate].
      injection H as <- <-. split; [|reflexivity]. eexists; split; [reflexivity|].
      eapply geometric_support; exact E.
  - injection H as <- <-. split; [|reflexivity].
    destruct (bernoulli_support p (src s (pos s))) as [E|E]; rewrite E; auto.
  - injection H as <- <-. split; [|reflexivity]. eexists; split; [reflexivity|].
    apply uniformint_support; assumption.
  - injection H as <- <-. split; [|reflexivity]. eexists; split; [reflexivity|].
    apply exponential_support; assumption.
  - injection H as <- <-. split; [|reflexivity]. eexists; split; [reflexivity|].
    apply uniform_support; assumption.
  - destruct (gaussian_u erfinvK sqrt2 mu sd (src s (pos s))) as [q|e]; cbn [lift_res] in H; [|discriminate].
    injection H as <- <-. split; [|reflexivity]. eexists; reflexivity.
Qed.

Lemma sample_src X s r s' : sampleK X s = (r, s') -> src s' = src s.
Proof.
  intro H. destruct X; cbn [sample unit_draw] in H.
  - destruct (draws (Z.to_nat n) s) as [us s1] eqn:E. injection H as _ <-.
    destruct (draws_spec _ _ _ _ E) as (_ & Hs & _). exact Hs.
  - injection H as _ <-. reflexivity.
  - destruct (Qeqb p 1); injection H as _ <-; reflexivity.
  - injection H as _ <-. reflexivity.
  - injection H as _ <-. reflexivity.
  - injection H as _ <-. reflexivity.
  - injection H as _ <-. reflexivity.
  - injection H as _ <-. reflexivity.
Qed.

Lemma sample_n_spec X :
  (forall x, 0 < x -> x <= 1 -> logK x <= 0) -> valid_params X ->
  forall n s l s', good_src (src s) ->
  sample_n logK erfinvK sqrt2 expnegK fuel X n s = (Ok l, s') ->
  List.length l = n /\ Forall (in_support X) l.
Proof.
  intros Hlog V. induction n as [|n IH]; intros s l s' G H; cbn [sample_n] in H.
  - injection H as <- <-. split; [reflexivity | constructor].
  - destruct (sampleK X s) as [[v|e] s1] eqn:E1; [|discriminate].
    destruct (sample_n logK erfinvK sqrt2 expnegK fuel X n s1) as [[l1|e] s2] eqn:E2; [|discriminate].
    injection H as <- <-.
    destruct (sample_support _ _ _ _ Hlog V G E1) as [Sv Hs].
    assert (G1 : good_src (src s1)) by (rewrite Hs; exact G).
    destruct (IH _ _ _ G1 E2) as [L F].
    split; [cbn; congruence | constructor; assumption].
Qed.

Lemma sample_n_src X : forall n s r s',
  sample_n logK erfinvK sqrt2 expnegK fuel X n s = (r, s') -> src s' = src s.
Proof.
  induction n as [|n IH]; intros s r s' H; cbn [sample_n] in H.
  - injection H as _ <-. reflexivity.
  - destruct (sampleK X s) as [[v|e] s1] eqn:E1.
    + destruct (sample_n logK erfinvK sqrt2 expnegK fuel X n s1) as [[l1|e] s2] eqn:E2;
        injection H as _ <-; rewrite (IH _ _ _ E2); eapply sample_src; exact E1.
    + injection H as _ <-. eapply sample_src; exact E1.
Qed.

(* sample_multiple delivers exactly max n 0 values whenever it delivers an array *)
Lemma sample_multiple_count X n s l s' :
  sample_multiple logK erfinvK sqrt2 expnegK fuel X n s = (Ok l, s') ->
  List.length l = Z.to_nat (Z.max n 0).
Proof.
  unfold sample_multiple. replace (Z.to_nat (Z.max n 0)) with (Z.to_nat n) by lia.
  generalize (Z.to_nat n) as m. clear n. intro m. revert s l s'.
  induction m as [|m IH]; intros s l s' H; cbn [sample_n] in H.
  - injection H as <- _. reflexivity.
  - destruct (sampleK X s) as [[v|e] s1]; [|discriminate].
    destruct (sample_n logK erfinvK sqrt2 expnegK fuel X m s1) as [[l1|e] s2] eqn:E2; [|discriminate].
    injection H as <- _. cbn. f_equal. eapply IH; exact E2.
Qed.

(* and they are the n successive single samples *)
Lemma sample_multiple_unfold X n s : (0 <= n)%Z ->
  sample_multiple logK erfinvK sqrt2 expnegK fuel X (n + 1) s =
  match sampleK X s with
  | (Ok v, s1) => match sample_multiple logK erfinvK sqrt2 expnegK fuel X n s1 with
                  | (Ok l, s2) => (Ok (v :: l), s2)
                  | (Raise e, s2) => (Raise e, s2)
                  end
  | (Raise e, s1) => (Raise e, s1)
  end.
Proof.
  intro Hn. unfold sample_multiple. replace (Z.to_nat (n + 1)) with (S (Z.to_nat n)) by lia.
  reflexivity.
Qed.

Lemma make_rv_ok X X' : make_rv X = Ok X' -> X' = X /\ valid_params X.
Proof.
  destruct X as [n p|mu|p|p|lo hi|lam|lo hi|mu sd]; cbn [make_rv valid_params]; unfold invalid.
  - destruct (Z.leb_spec n 0); [discriminate|].
    destruct (Qltb p 0) eqn:A; [discriminate|]. destruct (Qltb 1 p) eqn:B; [discriminate|].
    apply sp_Qltb_ge in A, B. cbn. intro I; injection I as <-. repeat split; try assumption; lia.
  - destruct (Qleb mu 0) eqn:A; [discriminate|]. apply sp_Qleb_gt in A.
    intro I; injection I as <-. auto.
  - destruct (Qltb p 0) eqn:A; [discriminate|]. destruct (Qltb 1 p) eqn:B; [discriminate|].
    apply sp_Qltb_ge in A, B. cbn. intro I; injection I as <-. auto.
  - destruct (Qltb p 0) eqn:A; [discriminate|]. destruct (Qltb 1 p) eqn:B; [discriminate|].
    apply sp_Qltb_ge in A, B. cbn. intro I; injection I as <-. auto.
  - rewrite Z.gtb_ltb. destruct (Z.ltb_spec hi lo); [discriminate|].
    intro I; injection I as <-. auto.
  - destruct (Qleb lam 0) eqn:A; [discriminate|]. apply sp_Qleb_gt in A.
    intro I; injection I as <-. auto.
  - destruct (Qltb hi lo) eqn:A; [discriminate|]. apply sp_Qltb_ge in A.
    intro I; injection I as <-. auto.
  - destruct (Qleb sd 0) eqn:A; [discriminate|]. apply sp_Qleb_gt in A.
    intro I; injection I as <-. auto.
Qed.

Notation run_opK := (run_op logK erfinvK sqrt2 expnegK fuel init).
Notation run_opsK := (run_ops logK erfinvK sqrt2 expnegK fuel init).

Lemma rand_range s : good_src (src s) ->
  exists u s', run_opK ORand s = (VNum (NFlt u), s') /\ 0 <= u /\ u < 1 /\ src s' = src s.
Proof.
  intro G. cbn [run_op unit_draw]. eexists; eexists; split; [reflexivity|].
  destruct (G (pos s)) as [A B]. cbn. auto.
Qed.

Lemma run_op_ok o s v s' :
  (forall x, 0 < x -> x <= 1 -> logK x <= 0) -> (forall k, good_src (init k)) ->
  good_src (src s) -> run_opK o s = (v, s') -> out_ok o v /\ good_src (src s').
Proof.
  intros Hlog Hinit G H. destruct o as [|X|X n|k]; cbn [run_op] in H.
  - cbn [unit_draw] in H. injection H as <- <-. cbn. split; [apply G | exact G].
  - destruct (make_rv X) as [X'|e] eqn:M.
    + destruct (make_rv_ok _ _ M) as [-> V].
      destruct (sampleK X s) as [[x|e] s1] eqn:E; injection H as <- <-.
      * destruct (sample_support _ _ _ _ Hlog V G E) as [A B]. cbn. rewrite B. auto.
      * cbn. rewrite (sample_src _ _ _ _ E). auto.
    + injection H as <- <-. cbn. auto.
  - destruct (make_rv X) as [X'|e] eqn:M.
    + destruct (make_rv_ok _ _ M) as [-> V].
      destruct (sample_multiple logK erfinvK sqrt2 expnegK fuel X n s) as [[l|e] s1] eqn:E;
        injection H as <- <-.
      * pose proof (sample_multiple_count _ _ _ _ _ E) as C.
        unfold sample_multiple in E. pose proof (sample_n_src _ _ _ _ _ E) as B.
        destruct (sample_n_spec X Hlog V _ _ _ _ G E) as [_ F].
        cbn. rewrite B. auto.
      * unfold sample_multiple in E. cbn. rewrite (sample_n_src _ _ _ _ _ E). auto.
    + injection H as <- <-. cbn. auto.
  - injection H as <- <-. cbn. auto.
Qed.

Lemma run_ops_ok :
  (forall x, 0 < x -> x <= 1 -> logK x <= 0) -> (forall k, good_src (init k)) ->
  forall ops s, good_src (src s) -> Forall2 out_ok ops (fst (run_opsK ops s)).
Proof.
  intros Hlog Hinit. induction ops as [|o r IH]; intros s G; cbn [run_ops]; [constructor|].
  destruct (run_opK o s) as [v s1] eqn:E1. destruct (run_opsK r s1) as [vs s2] eqn:E2.
  destruct (run_op_ok _ _ _ _ Hlog Hinit G E1) as [A G1].
  cbn [fst]. constructor; [exact A|]. specialize (IH s1 G1). rewrite E2 in IH. exact IH.
Qed.

(* after seed(k) everything is a function of k and the operation sequence alone *)
Lemma seed_determines k ops s1 s2 :
  fst (run_opsK (OSeed k :: ops) s1) = fst (run_opsK (OSeed k :: ops) s2).
Proof. cbn [run_ops run_op]. reflexivity. Qed.

Lemma seed_function k ops s :
  fst (run_opsK (OSeed k :: ops) s) = VNone :: fst (run_opsK ops {| src := init k; pos := O |}).
Proof.
  cbn [run_ops run_op]. destruct (run_opsK ops _) as [vs s2]. reflexivity.
Qed.

End Ext.

(* ---------- a rational stand-in showing the log/exp hypotheses are satisfiable ---------- *)
Lemma inv_le_iff x y : 0 < x -> 0 < y -> (x <= y <-> / y <= / x).
Proof.
  intros Hx Hy.
  assert (Ax : / x * x == 1) by (field; lra). assert (Ay : / y * y == 1) by (field; lra).
  assert (Px : 0 < / x) by (apply Qinv_lt_0_compat; exact Hx).
  assert (Py : 0 < / y) by (apply Qinv_lt_0_compat; exact Hy).
  set (a := / x) in *. set (b := / y) in *.
  assert (Pab : 0 < a * b) by nra.
  split; intro H.
  - assert (K : 0 <= (y - x) * (a * b)) by (apply Qmult_le_0_compat; lra).
    assert (E : (y - x) * (a * b) == a * (b * y) - b * (a * x)) by ring.
    rewrite E, Ax, Ay in K. lra.
  - assert (Pxy : 0 < x * y) by nra.
    assert (K : 0 <= (a - b) * (x * y)) by (apply Qmult_le_0_compat; lra).
    assert (E : (a - b) * (x * y) == (a * x) * y - (b * y) * x) by ring.
    rewrite E, Ax, Ay in K. lra.
Qed.
Lemma inv_stand_in_mono : forall x y, 0 < x -> x <= 1 -> 0 < y -> y <= 1 ->
  (x <= y <-> 1 - / x <= 1 - / y).
Proof. intros x y Hx _ Hy _. rewrite (inv_le_iff x y Hx Hy). split; intro; lra. Qed.
Lemma inv_stand_in_en : forall z, 0 <= z ->
  0 < / (1 + z) /\ / (1 + z) <= 1 /\ 1 - / / (1 + z) == - z.
Proof.
  intros z Hz. assert (P : 0 < 1 + z) by lra.
  split; [apply Qinv_lt_0_compat; exact P|]. split.
  - assert (A : / (1 + z) * (1 + z) == 1) by (field; lra).
    assert (Pi : 0 < / (1 + z)) by (apply Qinv_lt_0_compat; exact P).
    set (a := / (1 + z)) in *. nra.
  - rewrite Qinv_involutive. ring.
Qed.
Lemma inv_stand_in_sign : forall x, 0 < x -> x <= 1 -> 1 - / x <= 0.
Proof.
  intros x Hx H1. assert (A : / x * x == 1) by (field; lra).
  assert (Pi : 0 < / x) by (apply Qinv_lt_0_compat; exact Hx).
  set (a := / x) in *. nra.
Qed.
