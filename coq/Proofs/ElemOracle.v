(* ElemOracle.v — VALIDATION ONLY, not part of the property theorems (Properties/C16.v does not
   import this file; the classical real-number axioms of Coq's Reals stay here).
   Each lemma certifies, with the interval tactic, that the double the implementation returned for
   a fixed input (recorded when this file was written; harness/props/c16.py re-evaluates the input
   on every run and compares with the certified rational) is within 1e-14 of the real function. *)
From Coq Require Import Reals.
From Interval Require Import Tactic.
Open Scope R_scope.

(* ORACLE sin(1/2) = 539785169252447/1125899906842624 *)
Lemma oracle_0 : Rabs (sin (1/2) - (539785169252447 / 1125899906842624)) <= 1 / 100000000000000.
Proof. interval with (i_prec 90). Qed.

(* ORACLE cos(1) = 1216652631687587/2251799813685248 *)
Lemma oracle_1 : Rabs (cos 1 - (1216652631687587 / 2251799813685248)) <= 1 / 100000000000000.
Proof. interval with (i_prec 90). Qed.

(* ORACLE tan(1) = 3506970424209875/2251799813685248 *)
Lemma oracle_2 : Rabs (tan 1 - (3506970424209875 / 2251799813685248)) <= 1 / 100000000000000.
Proof. interval with (i_prec 90). Qed.

(* ORACLE sin(10) = -2450053272283049/4503599627370496 *)
Lemma oracle_3 : Rabs (sin 10 - (-2450053272283049 / 4503599627370496)) <= 1 / 100000000000000.
Proof. interval with (i_prec 90). Qed.

(* ORACLE cos(3/7) = 8192591321741509/9007199254740992 *)
Lemma oracle_4 : Rabs (cos (3/7) - (8192591321741509 / 9007199254740992)) <= 1 / 100000000000000.
Proof. interval with (i_prec 90). Qed.

(* ORACLE sqrt(2) = 6369051672525773/4503599627370496 *)
Lemma oracle_5 : Rabs (sqrt 2 - (6369051672525773 / 4503599627370496)) <= 1 / 100000000000000.
Proof. interval with (i_prec 90). Qed.

(* ORACLE sqrt(1/3) = 1300077228592327/2251799813685248 *)
Lemma oracle_6 : Rabs (sqrt (1/3) - (1300077228592327 / 2251799813685248)) <= 1 / 100000000000000.
Proof. interval with (i_prec 90). Qed.

(* ORACLE ln(2) = 6243314768165359/9007199254740992 *)
Lemma oracle_7 : Rabs (ln 2 - (6243314768165359 / 9007199254740992)) <= 1 / 100000000000000.
Proof. interval with (i_prec 90). Qed.

(* ORACLE ln(10) = 2592480341699211/1125899906842624 *)
Lemma oracle_8 : Rabs (ln 10 - (2592480341699211 / 1125899906842624)) <= 1 / 100000000000000.
Proof. interval with (i_prec 90). Qed.

(* ORACLE ln(1/3) = -4947709893870347/4503599627370496 *)
Lemma oracle_9 : Rabs (ln (1/3) - (-4947709893870347 / 4503599627370496)) <= 1 / 100000000000000.
Proof. interval with (i_prec 90). Qed.

(* ORACLE log2(10) = 3740158532571577/1125899906842624 *)
Lemma oracle_10 : Rabs (ln 10 / ln 2 - (3740158532571577 / 1125899906842624)) <= 1 / 100000000000000.
Proof. interval with (i_prec 90). Qed.

(* ORACLE log10(2) = 2711437152599295/9007199254740992 *)
Lemma oracle_11 : Rabs (ln 2 / ln 10 - (2711437152599295 / 9007199254740992)) <= 1 / 100000000000000.
Proof. interval with (i_prec 90). Qed.

(* ORACLE log(7, 3) = 7976972688705701/4503599627370496 *)
Lemma oracle_12 : Rabs (ln 7 / ln 3 - (7976972688705701 / 4503599627370496)) <= 1 / 100000000000000.
Proof. interval with (i_prec 90). Qed.

(* ORACLE log(8, 1/2) = -3/1 *)
Lemma oracle_13 : Rabs (ln 8 / ln (1/2) - (-3 / 1)) <= 1 / 100000000000000.
Proof. interval with (i_prec 90). Qed.

(* ORACLE 2^0.5 = 6369051672525773/4503599627370496 *)
Lemma oracle_14 : Rabs (exp (1/2 * ln 2) - (6369051672525773 / 4503599627370496)) <= 1 / 100000000000000.
Proof. interval with (i_prec 90). Qed.

(* ORACLE 10^(1/3) = 4851355633610831/2251799813685248 *)
Lemma oracle_15 : Rabs (exp (1/3 * ln 10) - (4851355633610831 / 2251799813685248)) <= 1 / 100000000000000.
Proof. interval with (i_prec 90). Qed.

(* ORACLE 2^(-1/2) = 6369051672525773/9007199254740992 *)
Lemma oracle_16 : Rabs (exp (- (1/2) * ln 2) - (6369051672525773 / 9007199254740992)) <= 1 / 100000000000000.
Proof. interval with (i_prec 90). Qed.

(* ORACLE (3/2)^2.5 = 1551307653681493/562949953421312 *)
Lemma oracle_17 : Rabs (exp (5/2 * ln (3/2)) - (1551307653681493 / 562949953421312)) <= 1 / 100000000000000.
Proof. interval with (i_prec 90). Qed.

(* ORACLE cos(60 deg) = 4503599627370497/9007199254740992 *)
Lemma oracle_18 : Rabs (cos (PI / 3) - (4503599627370497 / 9007199254740992)) <= 1 / 100000000000000.
Proof. interval with (i_prec 90). Qed.

(* ORACLE sin(30 deg) = 9007199254740991/18014398509481984 *)
Lemma oracle_19 : Rabs (sin (PI / 6) - (9007199254740991 / 18014398509481984)) <= 1 / 100000000000000.
Proof. interval with (i_prec 90). Qed.

(* ORACLE tan(45 deg) = 9007199254740991/9007199254740992 *)
Lemma oracle_20 : Rabs (tan (PI / 4) - (9007199254740991 / 9007199254740992)) <= 1 / 100000000000000.
Proof. interval with (i_prec 90). Qed.

(* ORACLE sin(1 rad) = 3789648413623927/4503599627370496 *)
Lemma oracle_21 : Rabs (sin 1 - (3789648413623927 / 4503599627370496)) <= 1 / 100000000000000.
Proof. interval with (i_prec 90). Qed.
