(* ExecExtProofs.v — raise-set lemmas for the models beyond Num/Qty/Comb, so that C06's
   "every raised class is diagnosed" covers them too.  For each model: which exceptions its
   top-level evaluation function can return (for ALL inputs), and the corollary
   acceptable (outcome_of …).  No axioms. *)
From Coq Require Import Arith Lia Lqa Qround.
From Ka Require Import Model.Exec GenFacts.InterpFacts Proofs.ExecProofs.
From Ka Require Model.Interval Model.Num Proofs.NumProofs Model.Qty Model.Arrays Proofs.ArraysProofs Model.Prob.
From Ka Require Model.Comb Model.Elem Proofs.ElemProofs.
Local Open Scope nat_scope.
Local Open Scope string_scope.

(* ---------- shared ---------- *)
Lemma diagnosed_acceptable {A} (r : res A) :
  (forall x, r = Raise x -> In x ka_eval_classes) -> acceptable (outcome_of r).
Proof.
  intro H. unfold outcome_of. destruct r as [v|x]; [left; reflexivity|].
  right. apply eval_errors_diagnosed. apply H. reflexivity.
Qed.

Lemma bind_raises {A B} (r : res A) (f : A -> res B) (P : exn -> Prop) x :
  bind r f = Raise x ->
  (forall y, r = Raise y -> P y) -> (forall a y, r = Ok a -> f a = Raise y -> P y) -> P x.
Proof.
  destruct r as [a|y]; cbn [bind]; intros H H1 H2.
  - eapply H2; [reflexivity|exact H].
  - injection H as <-. apply H1. reflexivity.
Qed.

Ltac inj_raise H := injection H as <-.

(* ====================================================================== Interval *)
Module IntervalExt.
Import Ka.Model.Interval.

Definition iv_raisable (x : exn) : Prop :=
  x = ZeroDivisionError \/ x = KaRuntimeError \/ x = FunctionArgError
  \/ x = NoMatchingFunctionSignatureError \/ x = Unmodelled.

Section Irr.
Variable sqrtK : Q -> Q.
Variable logK : Q -> Q -> Q.
Variable powK : Q -> Q -> Q.

Lemma s_div_raises a b x : s_div a b = Raise x -> x = ZeroDivisionError.
Proof. unfold s_div. destruct (qeqb b 0); [intro H; inj_raise H; reflexivity|discriminate]. Qed.

Lemma s_pow_raises a e x : s_pow powK a e = Raise x -> x = ZeroDivisionError \/ x = KaRuntimeError.
Proof.
  unfold s_pow. destruct (is_fractional e).
  - destruct (qltb a 0); [intro H; inj_raise H; auto|].
    destruct (qeqb a 0 && qltb e 0); [intro H; inj_raise H; auto|discriminate].
  - destruct (qeqb a 0 && (int_of e <? 0)%Z); [intro H; inj_raise H; auto|discriminate].
Qed.

Lemma s_sqrt_raises a x : s_sqrt sqrtK a = Raise x -> x = KaRuntimeError.
Proof. unfold s_sqrt. destruct (qltb a 0); [intro H; inj_raise H; reflexivity|discriminate]. Qed.

Lemma s_log_raises a b x : s_log logK a b = Raise x -> x = KaRuntimeError.
Proof.
  unfold s_log. destruct (qleb a 0); [intro H; inj_raise H; reflexivity|].
  destruct (qleb b 0 || qeqb b 1); [intro H; inj_raise H; reflexivity|discriminate].
Qed.

Lemma s_arith_raises f a b x : s_arith f a b = Raise x -> x = ZeroDivisionError \/ x = Unmodelled.
Proof.
  destruct f; cbn [s_arith]; try discriminate; try (intro H; inj_raise H; auto; fail).
  intro H. left. eapply s_div_raises; eassumption.
Qed.

Lemma iv_num_op_raises f I n x : iv_num_op f I n = Raise x -> iv_raisable x.
Proof.
  unfold iv_num_op, iv_raisable.
  destruct (s_arith f (lo I) n) as [a|xa] eqn:A; cbn [bind].
  - destruct (s_arith f (hi I) n) as [b|xb] eqn:B; cbn [bind]; [discriminate|].
    intro H; inj_raise H. destruct (s_arith_raises _ _ _ _ B) as [-> | ->]; auto 6.
  - intro H; inj_raise H. destruct (s_arith_raises _ _ _ _ A) as [-> | ->]; auto 6.
Qed.

Lemma iv_pow_raises I e x : iv_pow powK I e = Raise x -> x = ZeroDivisionError \/ x = KaRuntimeError.
Proof.
  unfold iv_pow.
  destruct (has_negative I && is_fractional e); [intro H; inj_raise H; auto|].
  destruct (truthy (contains_q I 0)).
  - destruct (qltb e 0); [intro H; inj_raise H; auto|].
    destruct (s_pow powK (lo I) e) as [pa|xa] eqn:A; cbn [bind];
      [|intro H; inj_raise H; eapply s_pow_raises; eassumption].
    destruct (s_pow powK (hi I) e) as [pb|xb] eqn:B; cbn [bind];
      [|intro H; inj_raise H; eapply s_pow_raises; eassumption].
    destruct (s_pow powK 0 e) as [p0|x0] eqn:Z; cbn [bind];
      [discriminate|intro H; inj_raise H; eapply s_pow_raises; eassumption].
  - destruct (s_pow powK (lo I) e) as [pa|xa] eqn:A; cbn [bind];
      [|intro H; inj_raise H; eapply s_pow_raises; eassumption].
    destruct (s_pow powK (hi I) e) as [pb|xb] eqn:B; cbn [bind];
      [discriminate|intro H; inj_raise H; eapply s_pow_raises; eassumption].
Qed.

Lemma iv_sqrt_raises I x : iv_sqrt sqrtK I = Raise x -> x = KaRuntimeError.
Proof.
  unfold iv_sqrt. destruct (has_negative I); [intro H; inj_raise H; reflexivity|].
  destruct (s_sqrt sqrtK (lo I)) as [a|xa] eqn:A; cbn [bind];
    [|intro H; inj_raise H; eapply s_sqrt_raises; eassumption].
  destruct (s_sqrt sqrtK (hi I)) as [b|xb] eqn:B; cbn [bind];
    [discriminate|intro H; inj_raise H; eapply s_sqrt_raises; eassumption].
Qed.

Lemma iv_log_raises I b x : iv_log logK I b = Raise x -> x = KaRuntimeError.
Proof.
  unfold iv_log. destruct (qleb b 0); [intro H; inj_raise H; reflexivity|].
  destruct (qleb (lo I) 0); [intro H; inj_raise H; reflexivity|].
  destruct (s_log logK (lo I) b) as [a|xa] eqn:A; cbn [bind];
    [|intro H; inj_raise H; eapply s_log_raises; eassumption].
  destruct (s_log logK (hi I) b) as [c|xc] eqn:B; cbn [bind];
    [discriminate|intro H; inj_raise H; eapply s_log_raises; eassumption].
Qed.

Lemma num_fold_raises g l x : num_fold g l = Raise x -> x = FunctionArgError.
Proof. destruct l; cbn [num_fold]; [intro H; inj_raise H; reflexivity|discriminate]. Qed.

Lemma bind_ok_raises {A} (r : res A) (g : A -> val) x : (do q <- r; Ok (g q)) = Raise x -> r = Raise x.
Proof. destruct r; cbn [bind]; [discriminate|intro H; inj_raise H; reflexivity]. Qed.

Lemma run_num_raises f xs x : run_num sqrtK logK powK f xs = Raise x -> iv_raisable x.
Proof.
  unfold iv_raisable.
  destruct f; destruct xs as [|a [|b [|c r]]]; cbn [run_num];
    try discriminate; try (intro H; inj_raise H; auto 6; fail);
    try (intro H; apply bind_ok_raises in H;
         first [ apply s_div_raises in H | apply s_pow_raises in H | apply s_sqrt_raises in H
               | apply s_log_raises in H ]; intuition auto; fail);
    try (intro H; apply num_fold_raises in H; auto 6; fail).
Qed.

Lemma run_body_raises b args x : run_body sqrtK logK powK b args = Raise x -> iv_raisable x.
Proof.
  destruct b; try (apply run_num_raises);
    destruct args as [|[q1|i1] [|[q2|i2] [|v3 r]]]; cbn [run_body];
    try discriminate; try (intro H; inj_raise H; unfold iv_raisable; auto 6; fail);
    try apply iv_num_op_raises;
    try (intro H; first [ apply iv_pow_raises in H | apply iv_sqrt_raises in H | apply iv_log_raises in H ];
         unfold iv_raisable; intuition auto; fail).
Qed.

Theorem ka_apply_raises f args x : ka_apply sqrtK logK powK f args = Raise x -> iv_raisable x.
Proof.
  unfold ka_apply. destruct (resolve f (map kind_of args)) as [b|].
  - apply run_body_raises.
  - intro H; inj_raise H. unfold iv_raisable; auto 6.
Qed.

Theorem ieval_raises e x : eval sqrtK logK powK e = Raise x -> iv_raisable x.
Proof.
  revert x. induction e as [q|f a IHa|f a IHa b IHb]; intro x; cbn [eval]; [discriminate| |].
  - destruct (eval sqrtK logK powK a) as [va|xa]; cbn [bind]; [apply ka_apply_raises|].
    intro H; inj_raise H. apply IHa. reflexivity.
  - destruct (eval sqrtK logK powK a) as [va|xa]; cbn [bind]; [|intro H; inj_raise H; apply IHa; reflexivity].
    destruct (eval sqrtK logK powK b) as [vb|xb]; cbn [bind]; [apply ka_apply_raises|].
    intro H; inj_raise H. apply IHb. reflexivity.
Qed.

Lemma iv_raisable_diagnosed x : iv_raisable x -> x <> Unmodelled -> In x ka_eval_classes.
Proof. intros [->|[->|[->|[->| ->]]]] NU; cbn; auto 12. congruence. Qed.

Theorem ka_apply_outcome f args : ka_apply sqrtK logK powK f args <> Raise Unmodelled ->
  acceptable (outcome_of (ka_apply sqrtK logK powK f args)).
Proof.
  intro NU. apply diagnosed_acceptable. intros x E. apply iv_raisable_diagnosed.
  - eapply ka_apply_raises; eassumption.
  - intros ->. congruence.
Qed.

Theorem ieval_outcome e : eval sqrtK logK powK e <> Raise Unmodelled ->
  acceptable (outcome_of (eval sqrtK logK powK e)).
Proof.
  intro NU. apply diagnosed_acceptable. intros x E. apply iv_raisable_diagnosed.
  - eapply ieval_raises; eassumption.
  - intros ->. congruence.
Qed.
End Irr.
End IntervalExt.

(* ====================================================================== Arrays *)
Module ArraysExt.
Import Ka.Model.Num Ka.Proofs.NumProofs Ka.Model.Qty Ka.Model.Arrays Ka.Proofs.ArraysProofs.

(* ---- ka_range: the fuel computed by the model always suffices (for every num, floats idealised
   included), so the only class is FunctionArgError *)
Local Open Scope Q_scope.
Lemma toQ_lift2_plus a b : toQ (lift2 Qplus a b) == toQ a + toQ b.
Proof.
  unfold lift2. destruct (is_flt a || is_flt b)%bool.
  - unfold nflt. cbn [toQ]. apply Qred_correct.
  - apply toQ_norm.
Qed.

Lemma n_add_toQ a b r : n_add a b = Ok r -> toQ r == toQ a + toQ b.
Proof.
  unfold n_add. destruct a as [x|p|p], b as [y|q|q]; intro H; injection H as <-;
    try apply toQ_lift2_plus. cbn [toQ]. apply iZ_plus.
Qed.

Lemma range_loop_fuel hi step : 0 < toQ step ->
  forall f curr, toQ hi < toQ curr + inject_Z (Z.of_nat f) * toQ step ->
  forall x, range_loop (S f) curr hi step <> Raise x.
Proof.
  intros Ps. induction f as [|f IH]; intros curr Hlt x.
  - cbn [range_loop]. unfold n_le. rewrite num_true_b2n.
    destruct (Qleb (toQ curr) (toQ hi)) eqn:L; [|discriminate].
    apply Qleb_true in L. change (inject_Z (Z.of_nat 0)) with 0 in Hlt. exfalso. lra.
  - remember (S f) as f1 eqn:Ef1. cbn [range_loop]. unfold n_le. rewrite num_true_b2n.
    destruct (Qleb (toQ curr) (toQ hi)) eqn:L; [|discriminate].
    destruct (n_add curr step) as [nxt|xa] eqn:A; [|destruct (n_add_total curr step) as (r & Hr); congruence].
    destruct (range_loop f1 nxt hi step) as [rest|xr] eqn:R; [discriminate|].
    exfalso. subst f1. apply (IH nxt) with (x := xr); [|exact R].
    rewrite (n_add_toQ _ _ _ A). rewrite iZ_S in Hlt. lra.
Qed.

Theorem ka_range_raises lo hi step x : ka_range lo hi step = Raise x -> x = FunctionArgError.
Proof.
  unfold ka_range, n_le, n_lt. rewrite !num_true_b2n.
  destruct (Qleb (toQ lo) (toQ hi)) eqn:L; cbn [negb]; [|intro H; inj_raise H; reflexivity].
  destruct (Qltb (toQ (NInt 0)) (toQ step)) eqn:S0; cbn [negb]; [|intro H; inj_raise H; reflexivity].
  apply Qleb_true in L. apply Qltb_true in S0. change (toQ (NInt 0)) with 0 in S0.
  intro H. exfalso.
  set (q := (toQ hi - toQ lo) / toQ step).
  assert (Sn : ~ toQ step == 0) by (intro X; rewrite X in S0; discriminate).
  assert (Hq : q * toQ step == toQ hi - toQ lo) by (unfold q; field; exact Sn).
  assert (Q0 : 0 <= q) by (unfold q; apply Qle_shift_div_l; [exact S0|]; nra).
  assert (N0 : (0 <= Qfloor q)%Z) by (change 0%Z with (Qfloor 0); apply Qfloor_resp_le; exact Q0).
  destruct (Qfloor_bounds q) as [B1 B2].
  assert (IN : inject_Z (Z.of_nat (Z.to_nat (Qfloor q))) == inject_Z (Qfloor q))
    by (rewrite Z2Nat.id by exact N0; reflexivity).
  assert (F : range_fuel lo hi step = S (S (Z.to_nat (Qfloor q)))) by (unfold range_fuel; fold q; lia).
  rewrite F in H. revert H. apply range_loop_fuel; [exact S0|].
  rewrite iZ_S, IN. nra.
Qed.
Local Close Scope Q_scope.

(* ---- quantity operations (helpers the qeval proof of ExecProofs has inline) *)
Lemma compose_units_raises n s x : compose_units n s = Raise x -> qty_raisable x.
Proof. unfold compose_units. apply compose_loop_raises. Qed.

Lemma n_mul_total a b x : n_mul a b <> Raise x.
Proof. unfold n_mul. destruct a, b; discriminate. Qed.
Lemma n_add_total' a b x : n_add a b <> Raise x.
Proof. unfold n_add. destruct a, b; discriminate. Qed.
Lemma n_sub_total a b x : n_sub a b <> Raise x.
Proof. unfold n_sub. destruct a, b; discriminate. Qed.
Lemma n_div_raises a b x : n_div a b = Raise x -> x = ZeroDivisionError.
Proof. apply (numop_raises QDiv). Qed.

Lemma make_quantity_raises n v s x : make_quantity n v s = Raise x -> qty_raisable x.
Proof.
  unfold make_quantity. destruct v as [mag|m d]; [|intro H; inj_raise H; unfold qty_raisable; auto].
  destruct (compose_units n s) as [[[qv m] o]|xc] eqn:C;
    [|intro H; inj_raise H; eapply compose_units_raises; eassumption].
  destruct (n_mul m mag) as [t|xt] eqn:M; [|exfalso; eapply n_mul_total; eassumption].
  destruct (n_add t o) as [r|xr] eqn:A; [discriminate|exfalso; eapply n_add_total'; eassumption].
Qed.

Lemma convert_quantity_raises n v s x : convert_quantity n v s = Raise x -> qty_raisable x.
Proof.
  unfold convert_quantity.
  destruct (compose_units n s) as [[[qv m] o]|xc] eqn:C;
    [|intro H; inj_raise H; eapply compose_units_raises; eassumption].
  destruct v as [y|mag d]; [intro H; inj_raise H; unfold qty_raisable; auto|].
  destruct (negb (veqb qv d)); [intro H; inj_raise H; unfold qty_raisable; auto|].
  destruct (n_sub mag o) as [t|xt] eqn:S; [|exfalso; eapply n_sub_total; eassumption].
  destruct (n_div t m) as [r|xr] eqn:Q; [discriminate|]. intro H; inj_raise H.
  rewrite (n_div_raises _ _ _ Q). unfold qty_raisable; auto.
Qed.

(* the aggregates' classes *)
Definition agg_raisable (x : exn) : Prop :=
  x = ZeroDivisionError \/ x = IncompatibleQuantitiesError
  \/ x = NoMatchingFunctionSignatureError \/ x = FunctionArgError.

(* q_binop / q_cmp: the Unmodelled branch (both operands non-quantities yet not both VN) is dead *)
Lemma q_binop_raises n o a b x : q_binop n o a b = Raise x ->
  x = ZeroDivisionError \/ x = IncompatibleQuantitiesError.
Proof.
  assert (QN : forall o' u v y, qop_num o' u v = Raise y -> y = ZeroDivisionError) by (intros; eapply numop_raises; eassumption).
  unfold q_binop. destruct a as [u|m1 d1], b as [v|m2 d2]; cbn [is_q negb andb lift_q].
  1: { destruct (qop_num o u v) as [r|xr] eqn:Q; [discriminate|]. intro H; inj_raise H. left. eapply QN; eassumption. }
  all: destruct o;
    try (match goal with |- context [negb (veqb ?p ?q)] => destruct (negb (veqb p q)); [intro H; inj_raise H; auto|] end);
    match goal with
    | |- match qop_num ?o' ?p ?q with _ => _ end = _ -> _ =>
        destruct (qop_num o' p q) as [r|xr] eqn:Q; [discriminate|]; intro H; inj_raise H; left; eapply QN; eassumption
    | |- match n_mul ?p ?q with _ => _ end = _ -> _ =>
        destruct (n_mul p q) as [r|xr] eqn:Q; [discriminate|exfalso; eapply n_mul_total; eassumption]
    | |- match n_div ?p ?q with _ => _ end = _ -> _ =>
        destruct (n_div p q) as [r|xr] eqn:Q; [discriminate|]; intro H; inj_raise H; left; eapply n_div_raises; eassumption
    end.
Qed.

Lemma qcmp_num_total c a b x : qcmp_num c a b <> Raise x.
Proof. destruct c; discriminate. Qed.

Lemma q_cmp_raises n c a b x : q_cmp n c a b = Raise x -> x = IncompatibleQuantitiesError.
Proof.
  unfold q_cmp. destruct a as [u|m1 d1], b as [v|m2 d2]; cbn [is_q negb andb lift_q].
  1: { destruct (qcmp_num c u v) as [r|xr] eqn:Q; [discriminate|exfalso; eapply qcmp_num_total; eassumption]. }
  all: match goal with |- context [negb (veqb ?p ?q)] => destruct (negb (veqb p q)); [intro H; inj_raise H; auto|] end;
    match goal with
    | |- match qcmp_num ?c' ?p ?q with _ => _ end = _ -> _ =>
        destruct (qcmp_num c' p q) as [r|xr] eqn:Q; [discriminate|exfalso; eapply qcmp_num_total; eassumption]
    end.
Qed.

Lemma foldM_raises {A B} (f : A -> B -> res A) (P : exn -> Prop) :
  (forall acc e y, f acc e = Raise y -> P y) ->
  forall l acc x, foldM f l acc = Raise x -> P x.
Proof.
  intro Hf. induction l as [|e r IH]; intros acc x; cbn [foldM]; [discriminate|].
  destruct (f acc e) as [acc'|y] eqn:F; [apply IH|]. intro H; inj_raise H. eapply Hf; eassumption.
Qed.

Section Elems.
Variable ndims : nat.

Lemma v_binop_raises o a b x : v_binop ndims o a b = Raise x -> agg_raisable x.
Proof.
  unfold v_binop, agg_raisable. destruct a as [p|la], b as [q|lb]; try (intro H; inj_raise H; auto; fail).
  unfold lift_s. destruct (q_binop ndims o p q) as [r|xr] eqn:Q; [discriminate|]. intro H; inj_raise H.
  destruct (q_binop_raises _ _ _ _ _ Q) as [-> | ->]; auto.
Qed.

Lemma v_cmp_raises c a b x : v_cmp ndims c a b = Raise x -> agg_raisable x.
Proof.
  unfold v_cmp, agg_raisable. destruct a as [p|la], b as [q|lb];
    try (destruct c; try discriminate; intro H; inj_raise H; auto; fail).
  unfold lift_s. destruct (q_cmp ndims c p q) as [r|xr] eqn:Q; [discriminate|]. intro H; inj_raise H.
  rewrite (q_cmp_raises _ _ _ _ _ Q). auto.
Qed.

Lemma array_sum_raises l x : array_sum ndims l = Raise x -> agg_raisable x.
Proof.
  unfold array_sum. destruct l as [|a r]; [discriminate|].
  apply foldM_raises. intros acc e y. apply v_binop_raises.
Qed.

Lemma array_prod_raises l x : array_prod ndims l = Raise x -> agg_raisable x.
Proof. unfold array_prod. apply foldM_raises. intros acc e y. apply v_binop_raises. Qed.

Lemma array_mean_raises l x : array_mean ndims l = Raise x -> agg_raisable x.
Proof.
  unfold array_mean. destruct l as [|a r]; [intro H; inj_raise H; unfold agg_raisable; auto|].
  destruct (array_sum ndims (a :: r)) as [s|xs] eqn:S; [apply v_binop_raises|].
  intro H; inj_raise H. eapply array_sum_raises; eassumption.
Qed.

Lemma min_step_raises r e x : min_step ndims r e = Raise x -> agg_raisable x.
Proof.
  unfold min_step. destruct (v_cmp ndims QLt e r) as [c|xc] eqn:C; [discriminate|].
  intro H; inj_raise H. eapply v_cmp_raises; eassumption.
Qed.
Lemma max_step_raises r e x : max_step ndims r e = Raise x -> agg_raisable x.
Proof.
  unfold max_step. destruct (v_cmp ndims QLt r e) as [c|xc] eqn:C; [discriminate|].
  intro H; inj_raise H. eapply v_cmp_raises; eassumption.
Qed.

Lemma array_min_raises l x : array_min ndims l = Raise x -> agg_raisable x.
Proof.
  unfold array_min. destruct l as [|a r]; [intro H; inj_raise H; unfold agg_raisable; auto|].
  apply foldM_raises. intros acc e y. apply min_step_raises.
Qed.
Lemma array_max_raises l x : array_max ndims l = Raise x -> agg_raisable x.
Proof.
  unfold array_max. destruct l as [|a r]; [intro H; inj_raise H; unfold agg_raisable; auto|].
  apply foldM_raises. intros acc e y. apply max_step_raises.
Qed.

Lemma in_array_raises v l x : in_array ndims v l = Raise x -> agg_raisable x.
Proof.
  induction l as [|e r IH]; cbn [in_array]; [discriminate|].
  destruct (v_cmp ndims QEq v e) as [c|xc] eqn:C; [|intro H; inj_raise H; eapply v_cmp_raises; eassumption].
  destruct (truthy c); [discriminate|exact IH].
Qed.

Lemma ka_cmp_raises a b x : ka_cmp ndims a b = Raise x -> agg_raisable x.
Proof.
  unfold ka_cmp.
  destruct (v_cmp ndims QLt a b) as [c|xc] eqn:C; [|intro H; inj_raise H; eapply v_cmp_raises; eassumption].
  destruct (truthy c); [discriminate|].
  destruct (v_cmp ndims QEq a b) as [c2|xc2] eqn:C2; [|intro H; inj_raise H; eapply v_cmp_raises; eassumption].
  destruct (truthy c2); discriminate.
Qed.

Lemma ins_raises v l x : ins ndims v l = Raise x -> agg_raisable x.
Proof.
  induction l as [|y r IH]; cbn [ins]; [discriminate|].
  destruct (ka_cmp ndims v y) as [c|xc] eqn:C; [|intro H; inj_raise H; eapply ka_cmp_raises; eassumption].
  destruct (c <? 0)%Z; [discriminate|].
  destruct (ins ndims v r) as [r'|xr]; [discriminate|]. intro H; inj_raise H. apply IH. reflexivity.
Qed.

Lemma ka_sort_raises l x : ka_sort ndims l = Raise x -> agg_raisable x.
Proof. unfold ka_sort. apply foldM_raises. intros acc e y. apply ins_raises. Qed.

Lemma ins_length v l : forall r, ins ndims v l = Ok r -> List.length r = S (List.length l).
Proof.
  induction l as [|y t IH]; intro r; cbn [ins].
  - intro H; injection H as <-. reflexivity.
  - destruct (ka_cmp ndims v y) as [c|xc]; [|discriminate].
    destruct (c <? 0)%Z; [intro H; injection H as <-; reflexivity|].
    destruct (ins ndims v t) as [r'|xr]; [|discriminate].
    intro H; injection H as <-. cbn [List.length]. rewrite (IH r' eq_refl). reflexivity.
Qed.

Lemma sort_from_length l : forall acc r, foldM (fun a v => ins ndims v a) l acc = Ok r ->
  List.length r = List.length l + List.length acc.
Proof.
  induction l as [|v t IH]; intros acc r; cbn [foldM].
  - intro H; injection H as <-. reflexivity.
  - destruct (ins ndims v acc) as [acc'|xa] eqn:I; [|discriminate].
    intro H. rewrite (IH _ _ H), (ins_length _ _ _ I). cbn [List.length]. lia.
Qed.

(* the IndexError paths of the model's median are dead: the sorted list has the input's length *)
Lemma array_median_raises l x : array_median ndims l = Raise x -> agg_raisable x.
Proof.
  unfold array_median. destruct l as [|a t]; [intro H; inj_raise H; unfold agg_raisable; auto|].
  destruct (ka_sort ndims (a :: t)) as [sl|xs] eqn:S; [|intro H; inj_raise H; eapply ka_sort_raises; eassumption].
  pose proof (sort_from_length _ _ _ S) as L. cbn [List.length] in L.
  set (n := List.length sl) in *.
  assert (Hn : 0 < n) by lia.
  pose proof (div2_lt n Hn) as D.
  destruct (nth_lt_some sl (Nat.div2 n) D) as (m & Hm). rewrite Hm.
  destruct (Nat.even n) eqn:Ev; [|discriminate].
  assert (D1 : Nat.div2 n - 1 < List.length sl) by (fold n; lia).
  destruct (nth_lt_some sl (Nat.div2 n - 1) D1) as (m1 & Hm1). rewrite Hm1.
  destruct (v_binop ndims QAdd m1 m) as [s|xs] eqn:B; [apply v_binop_raises|].
  intro H; inj_raise H. eapply v_binop_raises; eassumption.
Qed.

Lemma vararg_ext_raises b args x : vararg_ext ndims b args = Raise x -> agg_raisable x.
Proof.
  unfold vararg_ext. destruct (negb (forallb is_num_value args)); [intro H; inj_raise H; unfold agg_raisable; auto|].
  destruct b; [apply array_max_raises|apply array_min_raises].
Qed.

Lemma run_agg_raises f l x : run_agg ndims f l = Raise x -> agg_raisable x.
Proof.
  destruct f; cbn [run_agg];
    [apply array_sum_raises|apply array_prod_raises|apply array_mean_raises|apply array_median_raises
    |apply array_min_raises|apply array_max_raises|discriminate].
Qed.
End Elems.

(* ---- the comprehension loop, relative to the raise-sets of its abstract evaluators *)
Section Comp.
Variables (V E : Type).
Variable setv : string -> V -> E -> E.
Variable as_arr : V -> option (list V).
Variable blike : V -> option bool.
Variable P : exn -> Prop.

Definition ev_in (g : ev V E) : Prop := forall env y, g env = Raise y -> P y.

Lemma eval_list_raises gs : Forall ev_in gs -> forall env x, eval_list V E gs env = Raise x -> P x.
Proof.
  induction 1 as [|g r Hg Hr IH]; intros env x; cbn [eval_list]; [discriminate|].
  destruct (g env) as [[v env1]|y] eqn:G; [|intro H; inj_raise H; eapply Hg; eassumption].
  destruct (eval_list V E r env1) as [[vs env2]|y] eqn:R; [discriminate|].
  intro H; inj_raise H. eapply IH; eassumption.
Qed.

Lemma eval_conds_raises cs : P EvalError -> Forall ev_in cs ->
  forall env ok x, eval_conds V E blike cs env ok = Raise x -> P x.
Proof.
  intros PE. induction 1 as [|c r Hc Hr IH]; intros env ok x; cbn [eval_conds]; [discriminate|].
  destruct (c env) as [[v env1]|y] eqn:G; [|intro H; inj_raise H; eapply Hc; eassumption].
  destruct (blike v) as [b|]; [apply IH|]. intro H; inj_raise H. exact PE.
Qed.

Lemma comp_loop_raises names arrs conds body : P EvalError -> Forall ev_in conds -> ev_in body ->
  forall fuel i env x, comp_loop V E setv blike fuel i names arrs conds body env = Raise x ->
  P x \/ x = OutOfFuel.
Proof.
  intros PE Hc Hb. induction fuel as [|f IH]; intros i env x; [cbn; intro H; inj_raise H; auto|].
  rewrite comp_loop_S. destruct (bind_at V E setv i names arrs env) as [env1 ex].
  destruct ex; [discriminate|].
  destruct (eval_conds V E blike conds env1 true) as [[ok env2]|y] eqn:C;
    [|intro H; inj_raise H; left; eapply eval_conds_raises; eassumption].
  destruct ok; [|apply IH].
  destruct (body env2) as [[v env3]|y] eqn:B; [|intro H; inj_raise H; left; eapply Hb; eassumption].
  destruct (comp_loop V E setv blike f (S i) names arrs conds body env3) as [[vs envf]|y] eqn:R; [discriminate|].
  intro H; inj_raise H. eapply IH; eassumption.
Qed.

Lemma comp_rows_raises names conds body : P EvalError -> Forall ev_in conds -> ev_in body ->
  forall rs env x, comp_rows V E setv blike names conds body rs env = Raise x -> P x.
Proof.
  intros PE Hc Hb. induction rs as [|r rest IH]; intros env x; cbn [comp_rows]; [discriminate|].
  destruct (eval_conds V E blike conds (bind_row V E setv names r env) true) as [[ok env2]|y] eqn:C;
    [|intro H; inj_raise H; eapply eval_conds_raises; eassumption].
  destruct ok; [|apply IH].
  destruct (body env2) as [[v env3]|y] eqn:B; [|intro H; inj_raise H; eapply Hb; eassumption].
  destruct (comp_rows V E setv blike names conds body rest env3) as [[vs envf]|y] eqn:R; [discriminate|].
  intro H; inj_raise H. eapply IH; eassumption.
Qed.

(* every input: the classes of the evaluators, EvalError, or the model's own fuel *)
Theorem eval_comprehension_raises body names gens conds env x :
  P EvalError -> ev_in body -> Forall ev_in gens -> Forall ev_in conds ->
  eval_comprehension V E setv as_arr blike body names gens conds env = Raise x -> P x \/ x = OutOfFuel.
Proof.
  intros PE Hb Hg Hc. unfold eval_comprehension. destruct names as [|n ns]; [intro H; inj_raise H; auto|].
  destruct (eval_list V E gens env) as [[vs env1]|y] eqn:G;
    [|intro H; inj_raise H; left; eapply (eval_list_raises gens Hg); eassumption].
  destruct (all_arrays V as_arr vs) as [arrs|]; [|intro H; inj_raise H; auto].
  apply comp_loop_raises; assumption.
Qed.

(* one generator per name (what the parser builds): the fuel bound of ArraysProofs applies *)
Theorem eval_comprehension_raises_wf body names gens conds env x :
  List.length names = List.length gens ->
  P EvalError -> ev_in body -> Forall ev_in gens -> Forall ev_in conds ->
  eval_comprehension V E setv as_arr blike body names gens conds env = Raise x -> P x.
Proof.
  intros L PE Hb Hg Hc. destruct names as [|n ns]; [cbn; intro H; inj_raise H; exact PE|].
  rewrite eval_comprehension_spec; [|discriminate|exact L].
  destruct (eval_list V E gens env) as [[vs env1]|y] eqn:G;
    [|intro H; inj_raise H; eapply (eval_list_raises gens Hg); eassumption].
  destruct (all_arrays V as_arr vs) as [arrs|]; [|intro H; inj_raise H; exact PE].
  unfold comp_spec.
  destruct (comp_rows V E setv blike (n :: ns) conds body (rows V arrs) env1) as [[ws envf]|y] eqn:R; [discriminate|].
  intro H; inj_raise H. eapply comp_rows_raises; eassumption.
Qed.
End Comp.

(* ---- the concrete expression language of Model/Arrays.v *)
(* every comprehension has one generator per name (what parse_clause builds) *)
Fixpoint comp_wf (e : expr) : Prop :=
  match e with
  | ENum _ | EFact _ | EChoose _ _ | EVar _ => True
  | ETag a _ | EConv a _ | EAgg _ a | EAssign _ a => comp_wf a
  | EBin _ a b | ECmp _ a b | ERange a b | EIn a b | ESeq a b => comp_wf a /\ comp_wf b
  | ERange3 a b c => comp_wf a /\ comp_wf b /\ comp_wf c
  | EArr l | EVarargs _ l => fold_right (fun x acc => comp_wf x /\ acc) True l
  | EComp body names gens conds =>
      List.length names = List.length gens /\ comp_wf body
      /\ fold_right (fun x acc => comp_wf x /\ acc) True gens
      /\ fold_right (fun x acc => comp_wf x /\ acc) True conds
  end.

Section ExprInd.
Variable Q : expr -> Prop.
Hypothesis HNum : forall n, Q (ENum n).
Hypothesis HFact : forall n, Q (EFact n).
Hypothesis HChoose : forall n k, Q (EChoose n k).
Hypothesis HVar : forall v, Q (EVar v).
Hypothesis HTag : forall a s, Q a -> Q (ETag a s).
Hypothesis HConv : forall a s, Q a -> Q (EConv a s).
Hypothesis HBin : forall o a b, Q a -> Q b -> Q (EBin o a b).
Hypothesis HCmp : forall c a b, Q a -> Q b -> Q (ECmp c a b).
Hypothesis HArr : forall l, Forall Q l -> Q (EArr l).
Hypothesis HRange : forall a b, Q a -> Q b -> Q (ERange a b).
Hypothesis HRange3 : forall a b c, Q a -> Q b -> Q c -> Q (ERange3 a b c).
Hypothesis HAgg : forall f a, Q a -> Q (EAgg f a).
Hypothesis HVarargs : forall m l, Forall Q l -> Q (EVarargs m l).
Hypothesis HIn : forall a b, Q a -> Q b -> Q (EIn a b).
Hypothesis HComp : forall body names gens conds, Q body -> Forall Q gens -> Forall Q conds ->
  Q (EComp body names gens conds).
Hypothesis HSeq : forall a b, Q a -> Q b -> Q (ESeq a b).
Hypothesis HAssign : forall v a, Q a -> Q (EAssign v a).

Fixpoint expr_ind2 (e : expr) : Q e :=
  let go := fix go (l : list expr) : Forall Q l :=
    match l with
    | [] => Forall_nil Q
    | x :: r => Forall_cons x (expr_ind2 x) (go r)
    end in
  match e with
  | ENum n => HNum n
  | EFact n => HFact n
  | EChoose n k => HChoose n k
  | EVar v => HVar v
  | ETag a s => HTag a s (expr_ind2 a)
  | EConv a s => HConv a s (expr_ind2 a)
  | EBin o a b => HBin o a b (expr_ind2 a) (expr_ind2 b)
  | ECmp c a b => HCmp c a b (expr_ind2 a) (expr_ind2 b)
  | EArr l => HArr l (go l)
  | ERange a b => HRange a b (expr_ind2 a) (expr_ind2 b)
  | ERange3 a b c => HRange3 a b c (expr_ind2 a) (expr_ind2 b) (expr_ind2 c)
  | EAgg f a => HAgg f a (expr_ind2 a)
  | EVarargs m l => HVarargs m l (go l)
  | EIn a b => HIn a b (expr_ind2 a) (expr_ind2 b)
  | EComp body names gens conds => HComp body names gens conds (expr_ind2 body) (go gens) (go conds)
  | ESeq a b => HSeq a b (expr_ind2 a) (expr_ind2 b)
  | EAssign v a => HAssign v a (expr_ind2 a)
  end.
End ExprInd.

Definition arr_core (x : exn) : Prop :=
  agg_raisable x \/ x = EvalError \/ x = KaRuntimeError \/ x = Unmodelled.

Lemma qty_core x : qty_raisable x -> arr_core x.
Proof. unfold qty_raisable, arr_core, agg_raisable. intuition auto. Qed.
Lemma agg_core x : agg_raisable x -> arr_core x.
Proof. unfold arr_core. auto. Qed.

Section EvalRaises.
Variable ndims : nat.
Variable allow : Prop.     (* True: OutOfFuel is listed; False: comp_wf excludes it *)

Definition arr_P (x : exn) : Prop := arr_core x \/ (allow /\ x = OutOfFuel).
Definition arr_Q (e : expr) : Prop :=
  (allow \/ comp_wf e) -> forall en x, eval ndims e en = Raise x -> arr_P x.

Definition evals_of : list expr -> env -> res (list value * env) :=
  fix evals (l : list expr) (en : env) {struct l} : res (list value * env) :=
    match l with
    | [] => Ok ([], en)
    | x :: r => match eval ndims x en with
                | Raise err => Raise err
                | Ok (v, en1) => match evals r en1 with
                                 | Raise err => Raise err
                                 | Ok (vs, en2) => Ok (v :: vs, en2)
                                 end
                end
    end.

Lemma eval_EArr l en : eval ndims (EArr l) en =
  match evals_of l en with Raise err => Raise err | Ok (vs, en1) => Ok (VA vs, en1) end.
Proof. reflexivity. Qed.
Lemma eval_EVarargs m l en : eval ndims (EVarargs m l) en =
  match evals_of l en with Raise err => Raise err | Ok (vs, en1) => with_env (vararg_ext ndims m vs) en1 end.
Proof. reflexivity. Qed.

Lemma wf_sub (A B : Prop) : allow \/ A -> (A -> B) -> allow \/ B.
Proof. intros [a|a] f; [left; exact a|right; exact (f a)]. Qed.

Lemma evals_raises l : Forall arr_Q l ->
  (allow \/ fold_right (fun x acc => comp_wf x /\ acc) True l) ->
  forall en x, evals_of l en = Raise x -> arr_P x.
Proof.
  induction 1 as [|e r He Hr IH]; intros W en x; cbn [evals_of]; [discriminate|].
  destruct (eval ndims e en) as [[v en1]|y] eqn:Ev.
  - destruct (evals_of r en1) as [[vs en2]|y] eqn:R; [discriminate|].
    intro H; inj_raise H. eapply IH; [|exact R]. apply (wf_sub _ _ W). cbn [fold_right]. tauto.
  - intro H; inj_raise H. eapply He; [|exact Ev]. apply (wf_sub _ _ W). cbn [fold_right]. tauto.
Qed.

Lemma ev_in_map l : Forall arr_Q l ->
  (allow \/ fold_right (fun x acc => comp_wf x /\ acc) True l) ->
  Forall (ev_in value env arr_P) (map (fun g => fun en' => eval ndims g en') l).
Proof.
  induction 1 as [|e r He Hr IH]; intros W; cbn [map]; constructor.
  - intros en y Ey. eapply He; [|exact Ey]. apply (wf_sub _ _ W). cbn [fold_right]. tauto.
  - apply IH. apply (wf_sub _ _ W). cbn [fold_right]. tauto.
Qed.

Lemma with_env_raises r en x : with_env r en = Raise x -> r = Raise x.
Proof. destruct r; cbn [with_env]; [discriminate|intro H; inj_raise H; reflexivity]. Qed.
Lemma lift_v_raises r en x : lift_v r en = Raise x -> r = Raise x.
Proof. destruct r; cbn [lift_v]; [discriminate|intro H; inj_raise H; reflexivity]. Qed.

Lemma core_P x : arr_core x -> arr_P x.
Proof. left; assumption. Qed.
Lemma nomatch_P : arr_P NoMatchingFunctionSignatureError.
Proof. left. left. unfold agg_raisable. auto. Qed.
Lemma evalerr_P : arr_P EvalError.
Proof. left. unfold arr_core. auto. Qed.

(* one sub-evaluation: either it raised (induction hypothesis) or continue with its value *)
Ltac sub_eval IH W a en v en1 :=
  let Ev := fresh "Ev" in let y := fresh "y" in let H := fresh "H" in
  destruct (eval ndims a en) as [[v en1]|y] eqn:Ev;
  [| intro H; inj_raise H; eapply IH; [|exact Ev]; apply (wf_sub _ _ W); cbn [comp_wf]; tauto ].

Theorem eval_raises_gen e : arr_Q e.
Proof.
  induction e using expr_ind2; unfold arr_Q; intros W en x.
  - discriminate.
  - discriminate.
  - discriminate.
  - cbn [eval]. destruct (lookup v en); [discriminate|]. intro H; inj_raise H. apply evalerr_P.
  - cbn [eval]. sub_eval IHe W e en v en1. destruct v as [q|l].
    + intro H. apply lift_v_raises in H. apply core_P, qty_core. eapply make_quantity_raises; eassumption.
    + intro H; inj_raise H. apply evalerr_P.
  - cbn [eval]. sub_eval IHe W e en v en1. destruct v as [q|l].
    + intro H. apply lift_v_raises in H. apply core_P, qty_core. eapply convert_quantity_raises; eassumption.
    + destruct (compose_units ndims s) as [t|y] eqn:C; intro H; inj_raise H; [apply evalerr_P|].
      apply core_P, qty_core. eapply compose_units_raises; eassumption.
  - cbn [eval]. sub_eval IHe1 W e1 en va en1. sub_eval IHe2 W e2 en1 vb en2.
    intro H. apply with_env_raises in H. apply core_P, agg_core. eapply v_binop_raises; eassumption.
  - cbn [eval]. sub_eval IHe1 W e1 en va en1. sub_eval IHe2 W e2 en1 vb en2.
    intro H. apply with_env_raises in H. apply core_P, agg_core. eapply v_cmp_raises; eassumption.
  - rewrite eval_EArr. destruct (evals_of l en) as [[vs en1]|y] eqn:Ev; [discriminate|].
    intro H0; inj_raise H0. eapply evals_raises; [exact H|exact W|exact Ev].
  - cbn [eval]. sub_eval IHe1 W e1 en va en1. sub_eval IHe2 W e2 en1 vb en2.
    destruct (as_int va); [destruct (as_int vb); [discriminate|]|]; intro H; inj_raise H; apply nomatch_P.
  - cbn [eval]. sub_eval IHe1 W e1 en va en1. sub_eval IHe2 W e2 en1 vb en2. sub_eval IHe3 W e3 en2 vc en3.
    destruct (as_num va) as [p|]; [|intro H; inj_raise H; apply nomatch_P].
    destruct (as_num vb) as [q|]; [|intro H; inj_raise H; apply nomatch_P].
    destruct (as_num vc) as [r|]; [|intro H; inj_raise H; apply nomatch_P].
    destruct (ka_range p q r) as [l|y] eqn:R; [discriminate|]. intro H; inj_raise H.
    rewrite (ka_range_raises _ _ _ _ R). apply core_P, agg_core. unfold agg_raisable; auto.
  - cbn [eval]. sub_eval IHe W e en v en1. destruct v as [q|l].
    + destruct f, q; try discriminate; intro H; inj_raise H; apply nomatch_P.
    + intro H. apply with_env_raises in H. apply core_P, agg_core. eapply run_agg_raises; eassumption.
  - rewrite eval_EVarargs. destruct (evals_of l en) as [[vs en1]|y] eqn:Ev.
    + intro H0. apply with_env_raises in H0. apply core_P, agg_core. eapply vararg_ext_raises; eassumption.
    + intro H0; inj_raise H0. eapply evals_raises; [exact H|exact W|exact Ev].
  - cbn [eval]. sub_eval IHe1 W e1 en va en1. sub_eval IHe2 W e2 en1 vb en2. destruct vb as [q|l].
    + intro H; inj_raise H. apply nomatch_P.
    + intro H. apply with_env_raises in H. apply core_P, agg_core. eapply in_array_raises; eassumption.
  - cbn [eval].
    destruct (eval_comprehension value env set_var value_as_arr value_blike (fun en' => eval ndims e en') names
                (map (fun g => fun en' => eval ndims g en') gens)
                (map (fun c => fun en' => eval ndims c en') conds) en) as [[vs en1]|y] eqn:C; [discriminate|].
    intro H1; inj_raise H1.
    assert (Hb : ev_in value env arr_P (fun en' => eval ndims e en')).
    { intros en' z Ez. eapply IHe; [|exact Ez]. apply (wf_sub _ _ W). cbn [comp_wf]. tauto. }
    assert (Hg : Forall (ev_in value env arr_P) (map (fun g => fun en' => eval ndims g en') gens)).
    { apply ev_in_map; [exact H|]. apply (wf_sub _ _ W). cbn [comp_wf]. tauto. }
    assert (Hc : Forall (ev_in value env arr_P) (map (fun c => fun en' => eval ndims c en') conds)).
    { apply ev_in_map; [exact H0|]. apply (wf_sub _ _ W). cbn [comp_wf]. tauto. }
    destruct W as [A|W].
    + destruct (eval_comprehension_raises _ _ _ _ _ arr_P _ _ _ _ _ _ evalerr_P Hb Hg Hc C) as [Px | ->];
        [exact Px|right; auto].
    + cbn [comp_wf] in W. destruct W as (L & _).
      eapply (eval_comprehension_raises_wf _ _ _ _ _ arr_P); [|exact evalerr_P|exact Hb|exact Hg|exact Hc|exact C].
      rewrite map_length. exact L.
  - cbn [eval]. sub_eval IHe1 W e1 en va en1. intro H. eapply IHe2; [|exact H].
    apply (wf_sub _ _ W). cbn [comp_wf]. tauto.
  - cbn [eval]. sub_eval IHe W e en va en1. discriminate.
Qed.
End EvalRaises.

(* for ALL expressions and environments; OutOfFuel only from a comprehension whose generator
   count differs from its name count (never built by the parser) *)
Theorem arr_eval_raises ndims e en x : eval ndims e en = Raise x -> arr_core x \/ x = OutOfFuel.
Proof.
  intro H. destruct (eval_raises_gen ndims True e (or_introl I) en x H) as [C|[_ F]]; auto.
Qed.

Theorem arr_eval_raises_wf ndims e en x : comp_wf e -> eval ndims e en = Raise x -> arr_core x.
Proof.
  intros W H. destruct (eval_raises_gen ndims False e (or_intror W) en x H) as [C|[[] _]]. exact C.
Qed.

Lemma arr_core_diagnosed x : arr_core x -> x <> Unmodelled -> In x ka_eval_classes.
Proof.
  unfold arr_core, agg_raisable. intros [[->|[->|[->| ->]]]|[->|[->| ->]]] NU; cbn; auto 14; congruence.
Qed.

Theorem arr_run_raises_wf ndims e x : comp_wf e -> run ndims e = Raise x -> arr_core x.
Proof.
  unfold run. intros W. destruct (eval ndims e init_env) as [[v en]|y] eqn:Ev; [discriminate|].
  intro H; inj_raise H. eapply arr_eval_raises_wf; eassumption.
Qed.

Theorem arr_run_outcome ndims e : comp_wf e -> run ndims e <> Raise Unmodelled ->
  acceptable (outcome_of (run ndims e)).
Proof.
  intros W NU. apply diagnosed_acceptable. intros x E. apply arr_core_diagnosed.
  - eapply arr_run_raises_wf; eassumption.
  - intros ->. congruence.
Qed.

Theorem arr_eval_outcome ndims e en : comp_wf e -> eval ndims e en <> Raise Unmodelled ->
  acceptable (outcome_of (eval ndims e en)).
Proof.
  intros W NU. apply diagnosed_acceptable. intros x E. apply arr_core_diagnosed.
  - eapply arr_eval_raises_wf; eassumption.
  - intros ->. congruence.
Qed.

Theorem ka_range_outcome lo hi step : acceptable (outcome_of (ka_range lo hi step)).
Proof.
  apply diagnosed_acceptable. intros x E. rewrite (ka_range_raises _ _ _ _ E). cbn; auto 14.
Qed.

Theorem run_agg_outcome ndims f l : acceptable (outcome_of (run_agg ndims f l)).
Proof.
  apply diagnosed_acceptable. intros x E. apply arr_core_diagnosed.
  - apply agg_core. eapply run_agg_raises; eassumption.
  - intros ->. apply run_agg_raises in E. unfold agg_raisable in E. intuition discriminate.
Qed.
End ArraysExt.

(* ====================================================================== Prob *)
Module ProbExt.
Import Ka.Model.Num Ka.Model.Prob.

Lemma make_rv_raises l x : make_rv l = Raise x -> x = InvalidParameterException.
Proof.
  unfold make_rv, invalid. destruct l;
    repeat match goal with |- (if ?c then _ else _) = _ -> _ => destruct c end;
    try discriminate; intro H; inj_raise H; reflexivity.
Qed.

Lemma mean_raises l x : mean l = Raise x -> x = ZeroDivisionError.
Proof.
  unfold mean. destruct l; try discriminate;
    match goal with |- (if ?c then _ else _) = _ -> _ => destruct c end;
    try discriminate; intro H; inj_raise H; reflexivity.
Qed.

Theorem mean_of_raises l x : mean_of l = Raise x ->
  x = InvalidParameterException \/ x = ZeroDivisionError.
Proof.
  unfold mean_of. destruct (make_rv l) as [r|y] eqn:M; cbn [bind].
  - intro H. right. eapply mean_raises; eassumption.
  - intro H; inj_raise H. left. eapply make_rv_raises; eassumption.
Qed.

Lemma eval_probability_raises op a b x : eval_probability op a b = Raise x -> x = Unmodelled.
Proof.
  unfold eval_probability. destruct op, a as [q|[pm cd|cd]], b as [q'|[pm' cd'|cd']];
    try discriminate; intro H; inj_raise H; reflexivity.
Qed.

Lemma probability_raises e x : probability e = Raise x -> x = Unmodelled.
Proof.
  destruct e as [op a b|op1 op2 a y z]; cbn [probability]; [apply eval_probability_raises|].
  match goal with |- bind ?r _ = _ -> _ => destruct r as [p1|y1] eqn:E1 end; cbn [bind];
    [|intro H; inj_raise H; eapply eval_probability_raises; eassumption].
  match goal with |- bind ?r _ = _ -> _ => destruct r as [p2|y2] eqn:E2 end; cbn [bind];
    [discriminate|intro H; inj_raise H; eapply eval_probability_raises; eassumption].
Qed.

Definition event_raisable (x : exn) : Prop :=
  x = NoMatchingFunctionSignatureError \/ x = UnknownFunctionError \/ x = Unmodelled.

Lemma dispatch_event_raises ts os x : dispatch_event ts os = Raise x -> event_raisable x.
Proof.
  unfold dispatch_event, nomatch, event_raisable.
  destruct os as [|r1 [|r2 [|r3 os]]]; try (intro H; inj_raise H; auto; fail).
  - destruct ts as [|a [|b [|c ts]]]; try (destruct r1; intro H; inj_raise H; auto; fail).
    destruct r1;
      destruct a as [qa|[pa ca|ca]], b as [qb|[pb cb|cb]]; cbv beta iota;
      try discriminate; try (intro H; inj_raise H; auto; fail).
    match goal with |- (if ?c then _ else _) = _ -> _ => destruct c end;
      [discriminate|intro H; inj_raise H; auto].
  - destruct ts as [|a [|m [|b [|d ts]]]]; try (destruct r1; intro H; inj_raise H; auto; fail).
    assert (G : (if (is_fwd r1 && is_fwd r2)%bool
                 then match a, m, b with
                      | TNum x0, TRv Y, TNum z => Ok (DoubleEvent (op_fwd r1) (op_fwd r2) x0 Y z)
                      | _, _, _ => Raise NoMatchingFunctionSignatureError
                      end
                 else Raise UnknownFunctionError) = Raise x ->
                x = NoMatchingFunctionSignatureError \/ x = UnknownFunctionError \/ x = Unmodelled).
    { destruct (is_fwd r1 && is_fwd r2)%bool; [|intro H; inj_raise H; auto].
      destruct a, m, b; try discriminate; intro H; inj_raise H; auto. }
    destruct r1; exact G.
  - destruct r1; intro H; inj_raise H; auto.
Qed.

Theorem P_written_raises w x : P_written w = Raise x -> event_raisable x.
Proof.
  unfold P_written.
  destruct (match w with
            | W1 a r b => make_comparison [a; b] [r]
            | W2 a r1 m r2 b => make_comparison [a; m; b] [r1; r2]
            end) as [ts os].
  destruct (dispatch_event ts os) as [e|y] eqn:D; cbn [bind].
  - intro H. rewrite (probability_raises _ _ H). unfold event_raisable; auto.
  - intro H; inj_raise H. eapply dispatch_event_raises; eassumption.
Qed.

Theorem P_law_raises fo l mk x : P_law fo l mk = Raise x ->
  x = InvalidParameterException \/ event_raisable x.
Proof.
  unfold P_law. destruct (make_rv l) as [r|y] eqn:M; cbn [bind].
  - intro H. right. eapply P_written_raises; eassumption.
  - intro H; inj_raise H. left. eapply make_rv_raises; eassumption.
Qed.

Theorem make_rv_outcome l : acceptable (outcome_of (make_rv l)).
Proof. apply diagnosed_acceptable. intros x E. rewrite (make_rv_raises _ _ E). cbn; auto 14. Qed.

Theorem mean_of_outcome l : acceptable (outcome_of (mean_of l)).
Proof.
  apply diagnosed_acceptable. intros x E. destruct (mean_of_raises _ _ E) as [-> | ->]; cbn; auto 14.
Qed.

Lemma event_raisable_diagnosed x : event_raisable x -> x <> Unmodelled -> In x ka_eval_classes.
Proof. intros [->|[->| ->]] NU; cbn; auto 14; congruence. Qed.

Theorem P_written_outcome w : P_written w <> Raise Unmodelled -> acceptable (outcome_of (P_written w)).
Proof.
  intro NU. apply diagnosed_acceptable. intros x E. apply event_raisable_diagnosed.
  - eapply P_written_raises; eassumption.
  - intros ->. congruence.
Qed.

Theorem P_law_outcome fo l mk : P_law fo l mk <> Raise Unmodelled -> acceptable (outcome_of (P_law fo l mk)).
Proof.
  intro NU. apply diagnosed_acceptable. intros x E. destruct (P_law_raises _ _ _ _ E) as [-> | R].
  - cbn; auto 14.
  - apply event_raisable_diagnosed; [exact R|]. intros ->. congruence.
Qed.
End ProbExt.

(* ====================================================================== Elem *)
Module ElemExt.
Import Ka.Model.Num Ka.Model.Qty Ka.Model.Comb Ka.Model.Elem Ka.Proofs.ElemProofs.

(* resolving a lazy combinatoric value: only a division by zero *)
Lemma num_loop_raises k : forall h result den x, num_loop k h result den = Raise x -> x = ZeroDivisionError.
Proof.
  induction k as [|k IH]; intros h result den x; cbn [num_loop]; [discriminate|].
  destruct den as [|d rest]; [apply IH|].
  destruct (Comb.lo d =? 0)%Z; [intro H; inj_raise H; reflexivity|].
  destruct ((result * h) mod Comb.lo d =? 0)%Z; apply IH.
Qed.

Lemma num_ranges_raises ns : forall result den x, num_ranges ns result den = Raise x -> x = ZeroDivisionError.
Proof.
  induction ns as [|r rest IH]; intros result den x; cbn [num_ranges]; [discriminate|].
  destruct (num_loop (rcount r) (Comb.hi r) result den) as [[r' den']|y] eqn:L; [apply IH|].
  intro H; inj_raise H. eapply num_loop_raises; eassumption.
Qed.

Lemma resolve_raises ns ds x : resolve ns ds = Raise x -> x = ZeroDivisionError.
Proof.
  unfold resolve. destruct (num_ranges ns 1 (rev ds)) as [[r den]|y] eqn:N.
  - destruct (prod_ranges den =? 0)%Z; [intro H; inj_raise H; reflexivity|discriminate].
  - intro H; inj_raise H. eapply num_ranges_raises; eassumption.
Qed.

Lemma coerce_raises v x : coerce v = Raise x -> x = ZeroDivisionError.
Proof. destruct v as [n|ns ds]; cbn [coerce]; [discriminate|apply resolve_raises]. Qed.

Lemma arg_value_raises a x : arg_value a = Raise x -> x = ZeroDivisionError.
Proof. destruct a as [c|m d]; cbn [arg_value]; [apply coerce_raises|discriminate]. Qed.

Lemma zde_in_classes : In ZeroDivisionError elem_classes.
Proof. unfold elem_classes; cbn [In]; auto. Qed.
Lemma nomatch_in_classes : In NoMatchingFunctionSignatureError elem_classes.
Proof. unfold elem_classes; cbn [In]; auto 6. Qed.

(* the plan's own exceptions, for ALL argument lists (ElemProofs.eplan_errs assumes the lazy
   arguments resolve; an unresolvable one is a ZeroDivisionError) *)
Lemma eplan_errs_all f args e w : eplan f args = (PRaise e, w) -> In e elem_classes.
Proof.
  assert (NM : forall w', (PRaise NoMatchingFunctionSignatureError, WNum) = (PRaise e, w') -> In e elem_classes).
  { intros w' E. injection E as <- _. apply nomatch_in_classes. }
  assert (CR : forall c y w', coerce c = Raise y -> (PRaise y, WNum) = (PRaise e, w') -> In e elem_classes).
  { intros c y w' C E. injection E as <- _. rewrite (coerce_raises _ _ C). apply zde_in_classes. }
  destruct f as [g| |]; destruct args as [|[c1|m1 d1] [|[c2|m2 d2] [|a3 rest]]];
    cbn [eplan arg_value arg_wrap]; try (apply NM).
  - destruct (coerce c1) as [n|y] eqn:C1; [|apply (CR _ _ _ C1)].
    intro H; injection H as H _. eapply plan1_errs; eassumption.
  - intro H; injection H as H _. eapply plan1_errs; eassumption.
  - destruct (coerce c1) as [n|y] eqn:C1; [|apply (CR _ _ _ C1)].
    destruct (coerce c2) as [b|y] eqn:C2; [|apply (CR _ _ _ C2)].
    intro H; injection H as H _. eapply plan_log_errs; eassumption.
  - destruct (coerce c1) as [n|y] eqn:C1; [|apply (CR _ _ _ C1)].
    destruct (coerce c2) as [b|y] eqn:C2; [|apply (CR _ _ _ C2)].
    intro H; injection H as H _. eapply plan_pow_errs; eassumption.
Qed.

(* Elem has its own outcome type; its reading as a [res]: a NaN handed on is a (bad) VALUE *)
Definition eout_res {A} (o : eout A) : res (option A) :=
  match o with EVal a => Ok (Some a) | ENaN => Ok None | EErr e => Raise e end.

Section Libm.
Variable ext : call -> fval.

(* for EVERY libm: one of the four classes of the plan, or what the wrapper itself raised on an
   in-domain call *)
Theorem elem_raises f args e : elem ext f args = EErr e ->
  In e elem_classes \/ exists c, call_in_domain c /\ ext c = FExn e.
Proof.
  unfold elem. destruct (eplan f args) as [p w] eqn:P.
  destruct p as [e'|n|c]; cbn [deliver emap].
  - intro H. injection H as <-. left. exact (eplan_errs_all _ _ _ _ P).
  - discriminate.
  - pose proof (eplan_calls _ _ _ _ P) as D. destruct (ext c) as [q| | |e'] eqn:X; cbn [emap];
      try discriminate; intro H; injection H as <-.
    + left. unfold elem_classes; cbn [In]; auto.
    + right. exists c. split; assumption.
Qed.

(* with the model's own statement about CPython's math wrappers (ElemProofs) *)
Theorem elem_raises_classes : ext_raises_only_overflow ext ->
  forall f args e, elem ext f args = EErr e -> In e elem_classes.
Proof.
  intros HX f args e H. destruct (elem_raises _ _ _ H) as [I|(c & D & X)]; [exact I|].
  rewrite (HX c e D X). unfold elem_classes; cbn [In]; auto.
Qed.

Lemma elem_classes_diagnosed e : In e elem_classes -> In e ka_eval_classes.
Proof. unfold elem_classes. cbn [In]. intros [<-|[<-|[<-|[<-|[]]]]]; cbn; auto 14. Qed.

Theorem elem_outcome : ext_raises_only_overflow ext ->
  forall f args, acceptable (outcome_of (eout_res (elem ext f args))).
Proof.
  intros HX f args. apply diagnosed_acceptable. intros x E. apply elem_classes_diagnosed.
  apply (elem_raises_classes HX f args). destruct (elem ext f args); cbn [eout_res] in E; try discriminate.
  injection E as ->. reflexivity.
Qed.
End Libm.
End ElemExt.
