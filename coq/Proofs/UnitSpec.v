(* UnitSpec.v — hand-written reference table for C13: the SI dimension and the physical
   definition of every physical unit Ka knows, written from the definitions (SI brochure,
   international yard and pound agreement 1959, UK Weights and Measures Act 1985, IAU 2012/2015,
   CODATA 2018), NOT from Ka's numbers.  A unit of the regenerated registry without an entry
   here makes C13_dimensions / C13_within_1pct fail (fail closed).

   Dimension vectors are in the order  kg m s A K mol cd.  Sizes are in coherent SI units
   of that dimension (kg, m, s, ...; m^2; m^3; J = kg m^2 s^-2; ...). *)
From Ka Require Import Model.Units.
Local Open Scope string_scope.
Local Open Scope Q_scope.

Definition dec (n : Z) (k : nat) : Q := inject_Z n / inject_Z (10 ^ Z.of_nat k).   (* n * 10^-k *)

Definition E (s : string) (d : list Z) (size : Q) : spec_entry :=
  {| se_symbol := s; se_dim := d; se_size := size; se_offset := 0 |}.

(* dimension vectors: kg m s A K mol cd *)
Definition d_none   : list Z := [0;0;0;0;0;0;0]%Z.
Definition d_mass   : list Z := [1;0;0;0;0;0;0]%Z.
Definition d_length : list Z := [0;1;0;0;0;0;0]%Z.
Definition d_time   : list Z := [0;0;1;0;0;0;0]%Z.
Definition d_current: list Z := [0;0;0;1;0;0;0]%Z.
Definition d_temp   : list Z := [0;0;0;0;1;0;0]%Z.
Definition d_amount : list Z := [0;0;0;0;0;1;0]%Z.
Definition d_lum    : list Z := [0;0;0;0;0;0;1]%Z.
Definition d_freq   : list Z := [0;0;-1;0;0;0;0]%Z.
Definition d_area   : list Z := [0;2;0;0;0;0;0]%Z.
Definition d_volume : list Z := [0;3;0;0;0;0;0]%Z.
Definition d_force  : list Z := [1;1;-2;0;0;0;0]%Z.      (* N  = kg m s^-2 *)
Definition d_press  : list Z := [1;-1;-2;0;0;0;0]%Z.     (* Pa = kg m^-1 s^-2 *)
Definition d_energy : list Z := [1;2;-2;0;0;0;0]%Z.      (* J  = kg m^2 s^-2 *)
Definition d_power  : list Z := [1;2;-3;0;0;0;0]%Z.      (* W  = kg m^2 s^-3 *)
Definition d_charge : list Z := [0;0;1;1;0;0;0]%Z.       (* C  = s A *)
Definition d_volt   : list Z := [1;2;-3;-1;0;0;0]%Z.     (* V  = kg m^2 s^-3 A^-1 *)
Definition d_farad  : list Z := [-1;-2;4;2;0;0;0]%Z.     (* F  = kg^-1 m^-2 s^4 A^2 *)
Definition d_ohm    : list Z := [1;2;-3;-2;0;0;0]%Z.     (* ohm = kg m^2 s^-3 A^-2 *)
Definition d_siemens: list Z := [-1;-2;3;2;0;0;0]%Z.     (* S  = kg^-1 m^-2 s^3 A^2 *)
Definition d_weber  : list Z := [1;2;-2;-1;0;0;0]%Z.     (* Wb = kg m^2 s^-2 A^-1 *)
Definition d_tesla  : list Z := [1;0;-2;-1;0;0;0]%Z.     (* T  = kg s^-2 A^-1 *)
Definition d_henry  : list Z := [1;2;-2;-2;0;0;0]%Z.     (* H  = kg m^2 s^-2 A^-2 *)
Definition d_lux    : list Z := [0;-2;0;0;0;0;1]%Z.      (* lx = cd sr m^-2 *)
Definition d_dose   : list Z := [0;2;-2;0;0;0;0]%Z.      (* Gy = Sv = J/kg = m^2 s^-2 *)
Definition d_katal  : list Z := [0;0;-1;0;0;1;0]%Z.      (* kat = mol s^-1 *)

(* pi to 30 decimals *)
Definition pi_q : Q := dec 3141592653589793238462643383279 30.

Definition day_s : Q := 86400.
Definition julian_year_s : Q := dec 36525 2 * day_s.            (* 365.25 d, IAU *)
Definition au_m : Q := 149597870700.                            (* IAU 2012 *)
Definition c_m_s : Q := 299792458.                              (* speed of light *)
Definition inch_m : Q := dec 254 4.                             (* 1959: 1 in = 2.54 cm *)
Definition pound_kg : Q := dec 45359237 8.                      (* 1959: 1 lb = 0.45359237 kg *)
Definition gallon_m3 : Q := dec 454609 8.                       (* imperial gallon = 4.54609 l *)
Definition pint_m3 : Q := gallon_m3 / 8.                        (* = 0.56826125 l *)
Definition floz_m3 : Q := pint_m3 / 20.

Definition unit_spec : list spec_entry := [
  (* SI base units (the gram is 1/1000 of the base unit) *)
  E "s" d_time 1; E "m" d_length 1; E "g" d_mass (dec 1 3); E "A" d_current 1;
  E "K" d_temp 1; E "mol" d_amount 1; E "cd" d_lum 1;
  (* SI derived units with special names: all coherent, size 1 *)
  E "Hz" d_freq 1; E "rad" d_none 1; E "sr" d_none 1; E "N" d_force 1; E "Pa" d_press 1;
  E "J" d_energy 1; E "W" d_power 1; E "C" d_charge 1; E "V" d_volt 1; E "F" d_farad 1;
  E "ohm" d_ohm 1; E "S" d_siemens 1; E "Wb" d_weber 1; E "T" d_tesla 1; E "H" d_henry 1;
  {| se_symbol := "degC"; se_dim := d_temp; se_size := 1; se_offset := dec 27315 2 |};
  {| se_symbol := "degF"; se_dim := d_temp; se_size := 5 # 9; se_offset := dec 45967 2 * (5 # 9) |};
  E "lm" d_lum 1; E "lx" d_lux 1; E "Bq" d_freq 1; E "Gy" d_dose 1; E "Sv" d_dose 1; E "kat" d_katal 1;
  (* time *)
  E "min" d_time 60; E "h" d_time 3600; E "d" d_time day_s; E "week" d_time (7 * day_s);
  E "fortnight" d_time (14 * day_s);
  E "year" d_time julian_year_s; E "decade" d_time (10 * julian_year_s);
  E "century" d_time (100 * julian_year_s); E "millenium" d_time (1000 * julian_year_s);
  (* length, angle, area, volume, mass accepted with the SI *)
  E "au" d_length au_m;
  E "deg" d_none (pi_q / 180);
  E "ha" d_area 10000;
  E "acre" d_area (4840 * (36 * inch_m) * (36 * inch_m));     (* 4840 square yards *)
  E "l" d_volume (dec 1 3);
  E "t" d_mass 1000;
  E "Da" d_mass (dec 166053906660 38);                         (* CODATA 2018: 1.66053906660e-27 kg *)
  E "eV" d_energy (dec 1602176634 28);                         (* exact since 2019: 1.602176634e-19 J *)
  E "ly" d_length (c_m_s * julian_year_s);                     (* 9 460 730 472 580 800 m *)
  E "pc" d_length (648000 / pi_q * au_m);                      (* IAU 2015 *)
  E "in" d_length inch_m; E "ft" d_length (12 * inch_m); E "yd" d_length (36 * inch_m);
  E "mi" d_length (1760 * 36 * inch_m);
  E "sm" d_length 1852;                                        (* international nautical mile *)
  (* imperial capacity: tablespoon 5/8 fl oz, teaspoon a third of it *)
  E "tsp" d_volume (floz_m3 * (5 # 24)); E "tbsp" d_volume (floz_m3 * (5 # 8));
  E "floz" d_volume floz_m3; E "cup" d_volume (pint_m3 / 2); E "gill" d_volume (pint_m3 / 4);
  E "pt" d_volume pint_m3; E "qt" d_volume (2 * pint_m3); E "gal" d_volume gallon_m3;
  (* avoirdupois mass *)
  E "gr" d_mass (pound_kg / 7000); E "dr" d_mass (pound_kg / 256); E "oz" d_mass (pound_kg / 16);
  E "lb" d_mass pound_kg; E "st" d_mass (14 * pound_kg);
  E "hp" d_power (dec 73549875 5);                             (* metric horsepower: 75 kgf m/s *)
  E "bar" d_press 100000;
  E "cal" d_energy (dec 41868 4);                              (* international table calorie *)
  (* information and counting words: pure numbers *)
  E "b" d_none 1; E "B" d_none 8;
  E "dozen" d_none 12; E "hundred" d_none 100; E "thousand" d_none 1000;
  E "million" d_none 1000000; E "billion" d_none 1000000000; E "trillion" d_none 1000000000000
].

Definition Rt (a b : string) (pow : Z) (f : Q) : ratio := {| rt_a := a; rt_b := b; rt_pow := pow; rt_factor := f |}.

(* 1 a = f * b^pow.  Exact for int/Fraction sizes, relative 1e-12 when a float takes part. *)
Definition definitional_ratios : list ratio := [
  Rt "min" "s" 1 60; Rt "h" "min" 1 60; Rt "d" "h" 1 24; Rt "week" "d" 1 7; Rt "fortnight" "week" 1 2;
  Rt "decade" "year" 1 10; Rt "century" "year" 1 100; Rt "millenium" "century" 1 10;
  Rt "minutes" "seconds" 1 60; Rt "hours" "minutes" 1 60; Rt "days" "hours" 1 24;
  Rt "ft" "in" 1 12; Rt "yd" "ft" 1 3; Rt "mi" "yd" 1 1760; Rt "mi" "ft" 1 5280;
  Rt "feet" "inches" 1 12; Rt "yard" "foot" 1 3; Rt "mile" "yards" 1 1760;
  Rt "in" "cm" 1 (dec 254 2); Rt "sm" "m" 1 1852; Rt "nauticalmile" "km" 1 (dec 1852 3);
  Rt "qt" "pt" 1 2; Rt "gal" "qt" 1 4; Rt "gal" "pt" 1 8; Rt "pt" "floz" 1 20; Rt "pt" "gill" 1 4;
  Rt "gill" "floz" 1 5; Rt "quart" "pints" 1 2; Rt "gallon" "quarts" 1 4;
  Rt "gal" "l" 1 (dec 454609 5); Rt "pt" "ml" 1 (dec 56826125 5);
  Rt "l" "ml" 1 1000; Rt "l" "cm" 3 1000; Rt "l" "dm" 3 1; Rt "ml" "cm" 3 1; Rt "litre" "millilitres" 1 1000;
  Rt "ha" "m" 2 10000; Rt "ha" "hm" 2 1; Rt "acre" "yd" 2 4840;
  Rt "B" "b" 1 8; Rt "byte" "bits" 1 8; Rt "KiB" "B" 1 1024; Rt "MiB" "KiB" 1 1024; Rt "GiB" "MiB" 1 1024;
  Rt "TiB" "GiB" 1 1024; Rt "kB" "B" 1 1000; Rt "kibibyte" "bits" 1 8192;
  Rt "t" "kg" 1 1000; Rt "kg" "g" 1 1000; Rt "tonne" "kilograms" 1 1000; Rt "t" "Mg" 1 1;
  Rt "m" "cm" 1 100; Rt "m" "mm" 1 1000; Rt "km" "m" 1 1000; Rt "kilometre" "metres" 1 1000;
  Rt "Km" "m" 1 1000; Rt "metre" "centimetres" 1 100; Rt "dam" "m" 1 10; Rt "hm" "dam" 1 10;
  Rt "s" "ms" 1 1000; Rt "ms" "μs" 1 1000; Rt "μs" "ns" 1 1000; Rt "second" "milliseconds" 1 1000;
  Rt "bar" "Pa" 1 100000; Rt "bar" "kPa" 1 100; Rt "mbar" "hPa" 1 1;
  Rt "degF" "degC" 1 (5 # 9); Rt "degC" "K" 1 1;
  Rt "Hz" "s" (-1) 1; Rt "Bq" "Hz" 1 1; Rt "Sv" "Gy" 1 1; Rt "kHz" "ms" (-1) 1;
  Rt "cal" "J" 1 (dec 41868 4); Rt "kcal" "kJ" 1 (dec 41868 4);
  Rt "deg" "rad" 1 (pi_q / 180);
  Rt "au" "m" 1 149597870700;
  Rt "hundred" "dozen" 1 (100 # 12); Rt "thousand" "hundred" 1 10; Rt "million" "thousand" 1 1000;
  Rt "billion" "million" 1 1000; Rt "trillion" "billion" 1 1000
].

(* Ratios among units whose sizes Ka stores rounded to a few digits (README: "a pound is 0.45
   kilograms"): each side is within 1% of its definition, so the ratio holds to 2%, not exactly. *)
Definition rounded_ratios : list ratio := [
  Rt "lb" "oz" 1 16; Rt "st" "lb" 1 14; Rt "oz" "dr" 1 16; Rt "lb" "gr" 1 7000;
  Rt "pt" "cup" 1 2; Rt "cup" "floz" 1 10; Rt "tbsp" "tsp" 1 3; Rt "gill" "tbsp" 1 8;
  Rt "hp" "W" 1 (dec 73549875 5); Rt "year" "d" 1 (dec 36525 2); Rt "ly" "au" 1 (c_m_s * julian_year_s / au_m);
  Rt "pc" "ly" 1 ((648000 / pi_q * au_m) / (c_m_s * julian_year_s))
].

(* case variants that must not read like the spelling they vary *)
Definition case_variants : list (string * string) := [
  ("M", "m"); ("KG", "kg"); ("kG", "kg"); ("Metre", "metre"); ("METRE", "metre"); ("Metres", "metres");
  ("S", "s"); ("s", "S"); ("hz", "Hz"); ("HZ", "Hz"); ("pa", "Pa"); ("PA", "Pa"); ("Mm", "mm"); ("mM", "mm");
  ("DEGC", "degC"); ("degc", "degC"); ("Usd", "usd"); ("USD", "usd"); ("EUR", "eur"); ("Inch", "inch");
  ("FT", "ft"); ("b", "B"); ("B", "b"); ("t", "T"); ("T", "t"); ("h", "H"); ("H", "h"); ("Min", "min");
  ("L", "l"); ("MOL", "mol"); ("Rad", "rad"); ("j", "J"); ("w", "W"); ("v", "V"); ("n", "N"); ("c", "C");
  ("f", "F"); ("a", "A"); ("k", "K"); ("G", "g"); ("Kilometre", "kilometre"); ("KILOmetre", "kilometre");
  ("kiB", "KiB"); ("mb", "Mb"); ("Second", "second"); ("Ohm", "ohm"); ("Dozen", "dozen")
].
