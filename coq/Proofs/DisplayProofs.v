(* DisplayProofs.v — proofs about Model/Display.v (property C15). *)
From Coq Require Import Lia Lqa ZArith QArith Qround Qpower Qabs Qcanon List String Ascii Bool.
From Coq Require Import DecimalString DecimalPos DecimalZ.
From Ka Require Import Model.Num Model.Display.
From Ka Require Import Gen.GenUnits.
Import ListNotations.
Local Open Scope list_scope.
Local Open Scope Z_scope.

(* ================================================================== digits *)
Definition isdig (d : Z) : Prop := 0 <= d <= 9.

Definition no_digit_head (s : string) : Prop :=
  match s with
  | String c _ => digit_of c = None
  | EmptyString => True
  end.

Lemma isdig_cases d : isdig d ->
  d = 0 \/ d = 1 \/ d = 2 \/ d = 3 \/ d = 4 \/ d = 5 \/ d = 6 \/ d = 7 \/ d = 8 \/ d = 9.
Proof. unfold isdig. lia. Qed.

Lemma digit_of_char d : isdig d -> digit_of (digit_char d) = Some d.
Proof.
  intro H. destruct (isdig_cases d H) as [E|[E|[E|[E|[E|[E|[E|[E|[E|E]]]]]]]]]; subst d; reflexivity.
Qed.

Lemma digit_char_not_minus d : isdig d -> digit_char d <> "-"%char.
Proof.
  intro H. destruct (isdig_cases d H) as [E|[E|[E|[E|[E|[E|[E|[E|[E|E]]]]]]]]]; subst d; discriminate.
Qed.

Lemma dtext_app a b : dtext (a ++ b) = (dtext a ++ dtext b)%string.
Proof. induction a as [|d a IH]; cbn; [reflexivity|]. now rewrite IH. Qed.

Lemma string_app_nil_r s : (s ++ "")%string = s.
Proof. induction s as [|c s IH]; cbn; [reflexivity|]. now rewrite IH. Qed.

Lemma string_app_assoc a b c : ((a ++ b) ++ c)%string = (a ++ (b ++ c))%string.
Proof. induction a as [|x a IH]; cbn; [reflexivity|]. now rewrite IH. Qed.

Lemma take_digits_app ds rest :
  Forall isdig ds -> no_digit_head rest -> take_digits (dtext ds ++ rest) = (ds, rest).
Proof.
  intros Hds Hr. induction Hds as [|d ds Hd Hds IH]; cbn [dtext append take_digits].
  - destruct rest as [|c r]; cbn [take_digits no_digit_head] in *; [reflexivity|]. now rewrite Hr.
  - rewrite (digit_of_char d Hd). now rewrite IH.
Qed.

Lemma take_digits_dtext ds : Forall isdig ds -> take_digits (dtext ds) = (ds, EmptyString).
Proof.
  intro H. rewrite <- (string_app_nil_r (dtext ds)). now apply take_digits_app.
Qed.

(* ---- Horner value *)
Definition hstep (a d : Z) : Z := 10 * a + d.

Lemma dval_fold ds : dval ds = fold_left hstep ds 0.
Proof. reflexivity. Qed.

Lemma fold_hstep_acc ds acc :
  fold_left hstep ds acc = acc * 10 ^ Z.of_nat (List.length ds) + fold_left hstep ds 0.
Proof.
  revert acc. induction ds as [|d ds IH]; intro acc; cbn [fold_left List.length].
  - cbn. lia.
  - rewrite (IH (hstep acc d)), (IH (hstep 0 d)). unfold hstep.
    rewrite Nat2Z.inj_succ, Z.pow_succ_r by lia. ring.
Qed.

Lemma dval_nil : dval [] = 0.
Proof. reflexivity. Qed.

Lemma dval_cons d ds : dval (d :: ds) = d * 10 ^ Z.of_nat (List.length ds) + dval ds.
Proof.
  unfold dval. cbn [fold_left]. fold hstep. rewrite fold_hstep_acc. unfold hstep. ring.
Qed.

Lemma dval_app a b : dval (a ++ b) = dval a * 10 ^ Z.of_nat (List.length b) + dval b.
Proof.
  induction a as [|d a IH]; cbn [app].
  - rewrite dval_nil. lia.
  - rewrite !dval_cons, IH, app_length, Nat2Z.inj_add, Z.pow_add_r by lia. ring.
Qed.

Lemma dval_zeros n : dval (repeat 0 n) = 0.
Proof.
  induction n as [|n IH]; cbn [repeat]; [reflexivity|]. rewrite dval_cons, IH. lia.
Qed.

Lemma dval_zeros_app n ds : dval (repeat 0 n ++ ds) = dval ds.
Proof. rewrite dval_app, dval_zeros. lia. Qed.

Lemma dval_app_zeros ds n : dval (ds ++ repeat 0 n) = dval ds * 10 ^ Z.of_nat n.
Proof. rewrite dval_app, dval_zeros, repeat_length. lia. Qed.

Lemma dval_nonneg ds : Forall isdig ds -> 0 <= dval ds.
Proof.
  induction 1 as [|d ds Hd _ IH]; [rewrite dval_nil; lia|].
  rewrite dval_cons. unfold isdig in Hd.
  assert (0 <= 10 ^ Z.of_nat (List.length ds)) by (apply Z.pow_nonneg; lia). nia.
Qed.

Lemma isdig_zeros n : Forall isdig (repeat 0 n).
Proof. induction n; cbn; constructor; [unfold isdig; lia|assumption]. Qed.

(* ---- digits_msd *)
Lemma digits_msd_length k m : List.length (digits_msd k m) = k.
Proof. induction k as [|k IH]; cbn [digits_msd List.length]; [reflexivity|]. now rewrite IH. Qed.

Lemma digits_msd_isdig k m : Forall isdig (digits_msd k m).
Proof.
  induction k as [|k IH]; cbn [digits_msd]; constructor; [|assumption].
  unfold isdig. pose proof (Z.mod_pos_bound (m / 10 ^ Z.of_nat k) 10). lia.
Qed.

Lemma digits_msd_val k m : dval (digits_msd k m) = m mod 10 ^ Z.of_nat k.
Proof.
  induction k as [|k IH]; cbn [digits_msd].
  - rewrite dval_nil. cbn. now rewrite Z.mod_1_r.
  - rewrite dval_cons, digits_msd_length, IH.
    rewrite Nat2Z.inj_succ, Z.pow_succ_r by lia.
    assert (H10 : 0 < 10 ^ Z.of_nat k) by (apply Z.pow_pos_nonneg; lia).
    rewrite (Z.mul_comm 10), Z.rem_mul_r by lia. ring.
Qed.

Lemma digits_msd_exact k m : 0 <= m < 10 ^ Z.of_nat k -> dval (digits_msd k m) = m.
Proof. intro H. rewrite digits_msd_val. now apply Z.mod_small. Qed.

Lemma digits_msd_head k m :
  10 ^ Z.of_nat k <= m < 10 ^ Z.of_nat (S k) ->
  exists h r, digits_msd (S k) m = h :: r /\ 1 <= h <= 9.
Proof.
  intros [L U]. cbn [digits_msd]. eexists; eexists; split; [reflexivity|].
  assert (H10 : 0 < 10 ^ Z.of_nat k) by (apply Z.pow_pos_nonneg; lia).
  rewrite Nat2Z.inj_succ, Z.pow_succ_r in U by lia.
  assert (Q1 : 1 <= m / 10 ^ Z.of_nat k) by (apply Z.div_le_lower_bound; lia).
  assert (Q2 : m / 10 ^ Z.of_nat k < 10) by (apply Z.div_lt_upper_bound; lia).
  rewrite Z.mod_small by lia. lia.
Qed.

(* ---- strip_tz *)
Lemma strip_tz_spec ds :
  exists t, ds = strip_tz ds ++ repeat 0 t.
Proof.
  induction ds as [|d ds [t IH]]; cbn [strip_tz].
  - exists 0%nat. reflexivity.
  - destruct (strip_tz ds) as [|x r] eqn:E.
    + destruct (Z.eqb_spec d 0) as [->|Hd].
      * exists (S t). cbn [app repeat]. cbn [app] in IH. now rewrite IH at 1.
      * exists t. cbn [app]. cbn [app] in IH. now rewrite IH at 1.
    + exists t. cbn [app]. cbn [app] in IH. f_equal. exact IH.
Qed.

Lemma strip_tz_head h r : h <> 0 -> exists r', strip_tz (h :: r) = h :: r'.
Proof.
  intro Hh. cbn [strip_tz]. destruct (strip_tz r) as [|x r'].
  - destruct (Z.eqb_spec h 0); [contradiction|]. now exists [].
  - now exists (x :: r').
Qed.

Lemma Forall_app_l {A} (P : A -> Prop) a b : Forall P (a ++ b) -> Forall P a.
Proof. intro H. apply Forall_app in H. tauto. Qed.

Lemma strip_lz_head h r : h <> 0 -> strip_lz (h :: r) = h :: r.
Proof. intro Hh. cbn. destruct (Z.eqb_spec h 0); [contradiction|reflexivity]. Qed.

Lemma strip_lz_zeros n ds : strip_lz (repeat 0 n ++ ds) = strip_lz ds.
Proof. induction n as [|n IH]; cbn [repeat app]; [reflexivity|]. cbn [strip_lz]. cbn. exact IH. Qed.

(* =========================================================== integer text *)
Fixpoint uint_digits (d : Decimal.uint) : list Z :=
  match d with
  | Decimal.Nil => []
  | Decimal.D0 r => 0 :: uint_digits r
  | Decimal.D1 r => 1 :: uint_digits r
  | Decimal.D2 r => 2 :: uint_digits r
  | Decimal.D3 r => 3 :: uint_digits r
  | Decimal.D4 r => 4 :: uint_digits r
  | Decimal.D5 r => 5 :: uint_digits r
  | Decimal.D6 r => 6 :: uint_digits r
  | Decimal.D7 r => 7 :: uint_digits r
  | Decimal.D8 r => 8 :: uint_digits r
  | Decimal.D9 r => 9 :: uint_digits r
  end.

Lemma uint_digits_isdig d : Forall isdig (uint_digits d).
Proof. induction d; cbn; constructor; try assumption; unfold isdig; lia. Qed.

Lemma string_of_uint_dtext d : NilEmpty.string_of_uint d = dtext (uint_digits d).
Proof. induction d; cbn; try reflexivity; now rewrite IHd. Qed.

Lemma fold_uint_acc d acc :
  fold_left hstep (uint_digits d) (Zpos acc) = Zpos (Pos.of_uint_acc d acc).
Proof.
  revert acc. induction d; intro acc; cbn [uint_digits fold_left Pos.of_uint_acc];
    [reflexivity|..]; rewrite <- IHd; f_equal; unfold hstep; lia.
Qed.

Lemma dval_uint d : dval (uint_digits d) = Z.of_N (Pos.of_uint d).
Proof.
  rewrite dval_fold.
  induction d; cbn [uint_digits fold_left Pos.of_uint]; [reflexivity|exact IHd|..];
    cbn [Z.of_N]; rewrite <- fold_uint_acc; reflexivity.
Qed.

(* the shape of show_Z: an optional '-' and the digits of |z| *)
Lemma show_Z_digits z :
  exists ds, ds <> [] /\ Forall isdig ds /\ dval ds = Z.abs z
             /\ show_Z z = ((if (z <? 0)%Z then "-" else "") ++ dtext ds)%string.
Proof.
  destruct z as [|p|p].
  - exists [0]. repeat split; [discriminate|repeat constructor; unfold isdig; lia].
  - exists (uint_digits (Pos.to_uint p)).
    assert (Hn : Pos.to_uint p <> Decimal.Nil) by apply Unsigned.to_uint_nonnil.
    repeat split.
    + destruct (Pos.to_uint p); [contradiction|..]; discriminate.
    + apply uint_digits_isdig.
    + rewrite dval_uint, Unsigned.of_to. reflexivity.
    + unfold show_Z. cbn [Z.to_int NilZero.string_of_int Z.ltb Z.compare].
      unfold NilZero.string_of_uint. rewrite <- string_of_uint_dtext.
      destruct (Pos.to_uint p); [contradiction|..]; reflexivity.
  - exists (uint_digits (Pos.to_uint p)).
    assert (Hn : Pos.to_uint p <> Decimal.Nil) by apply Unsigned.to_uint_nonnil.
    repeat split.
    + destruct (Pos.to_uint p); [contradiction|..]; discriminate.
    + apply uint_digits_isdig.
    + rewrite dval_uint, Unsigned.of_to. reflexivity.
    + unfold show_Z. cbn [Z.to_int NilZero.string_of_int Z.ltb Z.compare].
      unfold NilZero.string_of_uint. rewrite <- string_of_uint_dtext.
      destruct (Pos.to_uint p); [contradiction|..]; reflexivity.
Qed.

Lemma nat_text_dtext ds : ds <> [] -> Forall isdig ds -> nat_text (dtext ds) = Some (dval ds).
Proof.
  intros Hne Hd. unfold nat_text. rewrite take_digits_dtext by assumption.
  destruct ds; [contradiction|reflexivity].
Qed.

Lemma dtext_head_not_minus ds r :
  ds <> [] -> Forall isdig ds ->
  exists c s, (dtext ds ++ r)%string = String c s /\ c <> "-"%char.
Proof.
  intros Hne Hd. destruct ds as [|d ds]; [contradiction|]. inversion Hd; subst.
  cbn. eexists; eexists; split; [reflexivity|]. now apply digit_char_not_minus.
Qed.

Lemma Z_of_text_nonminus c s : c <> "-"%char -> Z_of_text (String c s) = nat_text (String c s).
Proof.
  intro H. unfold Z_of_text.
  destruct c as [b0 b1 b2 b3 b4 b5 b6 b7].
  destruct b0, b1, b2, b3, b4, b5, b6, b7; try reflexivity. contradiction H. reflexivity.
Qed.

Theorem Z_of_text_show z : Z_of_text (show_Z z) = Some z.
Proof.
  destruct (show_Z_digits z) as (ds & Hne & Hd & Hv & Hs). rewrite Hs.
  destruct (Z.ltb_spec z 0) as [Hz|Hz].
  - cbn [append]. unfold Z_of_text. rewrite nat_text_dtext by assumption. cbn. f_equal. lia.
  - cbn [append].
    destruct (dtext_head_not_minus ds "" Hne Hd) as (c & s & E & Hc).
    rewrite string_app_nil_r in E. rewrite E, Z_of_text_nonminus by assumption. rewrite <- E.
    rewrite nat_text_dtext by assumption. f_equal. lia.
Qed.

Lemma read_Z_nonminus c s : c <> "-"%char ->
  read_Z (String c s) = match take_digits (String c s) with
                        | (d :: ds, rest) => Some (dval (d :: ds), rest)
                        | _ => None
                        end.
Proof.
  intro H. unfold read_Z.
  destruct c as [b0 b1 b2 b3 b4 b5 b6 b7].
  destruct b0, b1, b2, b3, b4, b5, b6, b7; try reflexivity. contradiction H. reflexivity.
Qed.

Theorem read_Z_show z rest : no_digit_head rest -> read_Z (show_Z z ++ rest) = Some (z, rest).
Proof.
  intro Hr. destruct (show_Z_digits z) as (ds & Hne & Hd & Hv & Hs). rewrite Hs.
  destruct (Z.ltb_spec z 0) as [Hz|Hz].
  - cbn [append]. unfold read_Z. rewrite take_digits_app by assumption.
    destruct ds; [contradiction|]. f_equal. f_equal. lia.
  - cbn [append].
    destruct (dtext_head_not_minus ds rest Hne Hd) as (c & s & E & Hc).
    rewrite E, read_Z_nonminus by assumption. rewrite <- E.
    rewrite take_digits_app by assumption.
    destruct ds; [contradiction|]. f_equal. f_equal. lia.
Qed.

Lemma nat_text_show z : 0 <= z -> nat_text (show_Z z) = Some z.
Proof.
  intro Hz. destruct (show_Z_digits z) as (ds & Hne & Hd & Hv & Hs). rewrite Hs.
  destruct (Z.ltb_spec z 0); [lia|]. cbn [append].
  rewrite nat_text_dtext by assumption. f_equal. lia.
Qed.

Lemma show_Z_nonneg_dtext z : 0 <= z ->
  exists ds, ds <> [] /\ Forall isdig ds /\ dval ds = z /\ show_Z z = dtext ds.
Proof.
  intro Hz. destruct (show_Z_digits z) as (ds & Hne & Hd & Hv & Hs).
  exists ds. repeat split; try assumption; [lia|].
  rewrite Hs. destruct (Z.ltb_spec z 0); [lia|reflexivity].
Qed.

(* ============================================================== fractions *)
Lemma no_digit_head_space r : no_digit_head (String " "%char r).
Proof. reflexivity. Qed.
Lemma no_digit_head_slash r : no_digit_head (String "/"%char r).
Proof. reflexivity. Qed.

Lemma Q_as_div q : q == inject_Z (Qnum q) / inject_Z (Zpos (Qden q)).
Proof. destruct q as [n d]. cbn [Qnum Qden]. apply Qmake_Qdiv. Qed.

Lemma inject_Z_eq a b : a = b -> inject_Z a == inject_Z b.
Proof. intros ->. reflexivity. Qed.

Lemma nat_text_show_pos d : nat_text (show_pos d) = Some (Zpos d).
Proof. unfold show_pos. apply nat_text_show. lia. Qed.

Theorem prettify_frac_brackets q :
  prettify_frac q true = ("(" ++ prettify_frac q false ++ ")")%string.
Proof. reflexivity. Qed.

Theorem prettify_frac_denotes q :
  Qred q = q -> (1 < Qden q)%positive ->
  exists w n d,
    mixed_parts (prettify_frac q false) = Some (w, n, d)
    /\ d = Zpos (Qden q)
    /\ mixed_denote w n d == q
    /\ Z.gcd n d = 1
    /\ match w with
       | None => n = Qnum q /\ Z.abs n < d
       | Some a => a <> 0 /\ 0 < n < d /\ (a < 0 <-> (q < 0)%Q)
       end.
Proof.
  intros Hred Hden.
  pose proof (Qred_identity2 q Hred) as Hgcd.
  pose proof (Q_as_div q) as Hq.
  unfold prettify_frac, bracket.
  set (n := Qnum q) in *. set (dd := Qden q) in *. set (d := Zpos dd) in *.
  assert (Hd1 : 1 < d) by (unfold d; lia).
  set (whole := Z.abs n / d).
  set (rn := Z.abs n - whole * d).
  assert (Hrn : rn = Z.abs n mod d).
  { unfold rn, whole. pose proof (Z.div_mod (Z.abs n) d). lia. }
  assert (Hrb : 0 <= rn < d) by (rewrite Hrn; apply Z.mod_pos_bound; lia).
  assert (Hg : Z.gcd rn d = 1).
  { rewrite Hrn, Z.gcd_mod by lia. rewrite Z.gcd_comm, Z.gcd_abs_l. exact Hgcd. }
  assert (Hw0 : 0 <= whole) by (apply Z.div_pos; lia).
  assert (Hinv : inject_Z d * / inject_Z d == 1).
  { apply Qmult_inv_r. unfold d. discriminate. }
  destruct (Z.ltb_spec 0 whole) as [Hw|Hw].
  - (* mixed form *)
    assert (Hrn0 : 0 < rn).
    { destruct (Z.eq_dec rn 0) as [E|E]; [|lia]. rewrite E in Hg. cbn in Hg. lia. }
    exists (Some ((if 0 <=? n then 1 else -1) * whole)), rn, d.
    split.
    { unfold mixed_parts.
      rewrite ?string_app_assoc.
      rewrite read_Z_show by apply no_digit_head_space.
      cbn [append].
      rewrite read_Z_show by apply no_digit_head_slash.
      cbn [append]. rewrite nat_text_show_pos. reflexivity. }
    split; [reflexivity|]. split.
    { unfold mixed_denote. rewrite Hq.
      destruct (Z.leb_spec 0 n) as [Hn|Hn].
      - destruct (Z.ltb_spec (1 * whole) 0) as [H|H]; [lia|].
        assert (E : inject_Z n == inject_Z (1 * whole) * inject_Z d + inject_Z rn).
        { rewrite <- inject_Z_mult, <- inject_Z_plus. apply inject_Z_eq. unfold rn. lia. }
        rewrite E. unfold Qdiv. rewrite Qmult_plus_distr_l, <- Qmult_assoc, Hinv. ring.
      - destruct (Z.ltb_spec (-1 * whole) 0) as [H|H]; [|lia].
        assert (E : inject_Z n == inject_Z (-1 * whole) * inject_Z d - inject_Z rn).
        { unfold Qminus. rewrite <- inject_Z_mult, <- inject_Z_opp, <- inject_Z_plus.
          apply inject_Z_eq. unfold rn. lia. }
        rewrite E. unfold Qdiv, Qminus. rewrite Qmult_plus_distr_l, <- Qmult_assoc, Hinv. ring. }
    split; [exact Hg|].
    split; [destruct (0 <=? n); lia|]. split; [lia|].
    assert (Hqn : (q < 0)%Q <-> n < 0).
    { unfold Qlt. fold n. cbn. lia. }
    rewrite Hqn. destruct (Z.leb_spec 0 n); lia.
  - (* plain n/d *)
    assert (Hw' : whole = 0) by lia.
    assert (Hlt : Z.abs n < d).
    { unfold whole in Hw'. apply Z.div_small_iff in Hw'; lia. }
    exists None, n, d. split.
    { unfold mixed_parts, frac_text. fold n. fold dd.
      rewrite read_Z_show by apply no_digit_head_slash.
      cbn [append]. rewrite nat_text_show_pos. reflexivity. }
    split; [reflexivity|]. split; [unfold mixed_denote; rewrite Hq; reflexivity|].
    split; [exact Hgcd|]. split; [reflexivity|exact Hlt].
Qed.

(* ================================================ powers, floor logarithm *)
Local Open Scope Q_scope.

Lemma Qltb_true a b : Qltb a b = true -> a < b.
Proof. unfold Qltb. destruct (a ?= b) eqn:C; try discriminate. intros _. now apply Qlt_alt. Qed.
Lemma Qltb_false a b : Qltb a b = false -> b <= a.
Proof.
  unfold Qltb. destruct (a ?= b) eqn:C; try discriminate; intros _.
  - apply Qeq_alt in C. rewrite C. apply Qle_refl.
  - apply Qgt_alt in C. now apply Qlt_le_weak.
Qed.
Lemma Qleb_true a b : Qleb a b = true -> a <= b.
Proof. unfold Qleb. destruct (a ?= b) eqn:C; try discriminate; intros _; apply Qle_alt; congruence. Qed.
Lemma Qleb_false a b : Qleb a b = false -> b < a.
Proof. unfold Qleb. destruct (a ?= b) eqn:C; try discriminate; intros _. now apply Qgt_alt. Qed.
Lemma Qeqb_true a b : Qeqb a b = true -> a == b.
Proof. unfold Qeqb. destruct (a ?= b) eqn:C; try discriminate; intros _. now apply Qeq_alt. Qed.

Lemma inject_Z_pos b : (0 < b)%Z -> 0 < inject_Z b.
Proof. intro H. unfold Qlt. cbn. lia. Qed.
Lemma inject_Z_gt1 b : (1 < b)%Z -> 1 < inject_Z b.
Proof. intro H. unfold Qlt. cbn. lia. Qed.
Lemma inject_Z_ge1 b : (1 <= b)%Z -> 1 <= inject_Z b.
Proof. intro H. unfold Qle. cbn. lia. Qed.

Lemma bpow_pos b e : (0 < b)%Z -> 0 < bpow b e.
Proof. intro H. apply Qpower_0_lt. now apply inject_Z_pos. Qed.

Lemma bpow_add b e1 e2 : (0 < b)%Z -> bpow b (e1 + e2) == bpow b e1 * bpow b e2.
Proof.
  intro H. unfold bpow. apply Qpower_plus. intro E.
  pose proof (inject_Z_pos b H) as P. rewrite E in P. discriminate P.
Qed.

Lemma bpow_le b e1 e2 : (1 <= b)%Z -> (e1 <= e2)%Z -> bpow b e1 <= bpow b e2.
Proof. intros H E. apply Qpower_le_compat_l; [exact E|now apply inject_Z_ge1]. Qed.

Lemma bpow_lt b e1 e2 : (1 < b)%Z -> (e1 < e2)%Z -> bpow b e1 < bpow b e2.
Proof. intros H E. apply Qpower_lt_compat_l; [exact E|now apply inject_Z_gt1]. Qed.

Lemma bpow_Z b e : (0 <= e)%Z -> bpow b e == inject_Z (b ^ e).
Proof. intro H. unfold bpow. symmetry. now apply Zpower_Qpower. Qed.

Lemma bpow_0 b : bpow b 0 == 1.
Proof. reflexivity. Qed.

Lemma bpow_opp b e : bpow b (- e) == / bpow b e.
Proof. apply Qpower_opp. Qed.

Lemma bpow_lt_inv b e1 e2 : (1 < b)%Z -> bpow b e1 < bpow b e2 -> (e1 < e2)%Z.
Proof. intros H L. apply (Qpower_lt_compat_l_inv (inject_Z b)); [exact L|now apply inject_Z_gt1]. Qed.

(* ---- the two searches *)
Lemma ilog_up_spec fuel b x e :
  (1 < b)%Z -> bpow b e <= x -> x < bpow b (e + Z.of_nat fuel) ->
  bpow b (ilog_up fuel b x e) <= x /\ x < bpow b (ilog_up fuel b x e + 1).
Proof.
  intro Hb. revert e. induction fuel as [|f IH]; intros e L U; cbn [ilog_up].
  - exfalso. replace (e + Z.of_nat 0)%Z with e in U by lia. lra.
  - destruct (Qltb x (bpow b (e + 1))) eqn:C.
    + apply Qltb_true in C. split; assumption.
    + apply Qltb_false in C. apply IH; [exact C|].
      replace (e + 1 + Z.of_nat f)%Z with (e + Z.of_nat (S f))%Z by lia. exact U.
Qed.

Lemma ilog_down_spec fuel b x e :
  (1 < b)%Z -> x < bpow b (e + 1) -> bpow b (e + 1 - Z.of_nat fuel) <= x ->
  bpow b (ilog_down fuel b x e) <= x /\ x < bpow b (ilog_down fuel b x e + 1).
Proof.
  intro Hb. revert e. induction fuel as [|f IH]; intros e U L; cbn [ilog_down].
  - exfalso. replace (e + 1 - Z.of_nat 0)%Z with (e + 1)%Z in L by lia. lra.
  - destruct (Qleb (bpow b e) x) eqn:C.
    + apply Qleb_true in C. split; assumption.
    + apply Qleb_false in C. apply IH.
      * replace (e - 1 + 1)%Z with e by lia. exact C.
      * replace (e - 1 + 1 - Z.of_nat f)%Z with (e + 1 - Z.of_nat (S f))%Z by lia. exact L.
Qed.

Lemma Qnum_pos x : 0 < x -> (0 < Qnum x)%Z.
Proof. unfold Qlt. cbn. lia. Qed.

Lemma x_upper b x : (1 < b)%Z -> 0 < x -> x < bpow b (Z.log2 (Qnum x) + 1).
Proof.
  intros Hb Hx. pose proof (Qnum_pos x Hx) as Hn.
  pose proof (Z.log2_nonneg (Qnum x)) as H0.
  rewrite bpow_Z by lia.
  destruct (Z.log2_spec (Qnum x) Hn) as [_ U]. unfold Z.succ in U.
  assert (M : (2 ^ (Z.log2 (Qnum x) + 1) <= b ^ (Z.log2 (Qnum x) + 1))%Z)
    by (apply Z.pow_le_mono_l; lia).
  apply Qle_lt_trans with (inject_Z (Qnum x)).
  - destruct x as [n d]. unfold Qle. cbn in *. nia.
  - rewrite <- Zlt_Qlt. lia.
Qed.

Lemma x_lower b x : (1 < b)%Z -> 0 < x -> bpow b (- (Z.log2 (Zpos (Qden x)) + 1)) <= x.
Proof.
  intros Hb Hx. pose proof (Qnum_pos x Hx) as Hn.
  pose proof (Z.log2_nonneg (Zpos (Qden x))) as H0.
  rewrite bpow_opp, bpow_Z by lia.
  destruct (Z.log2_spec (Zpos (Qden x)) ltac:(lia)) as [_ U]. unfold Z.succ in U.
  assert (M : (2 ^ (Z.log2 (Zpos (Qden x)) + 1) <= b ^ (Z.log2 (Zpos (Qden x)) + 1))%Z)
    by (apply Z.pow_le_mono_l; lia).
  destruct (b ^ (Z.log2 (Z.pos (Qden x)) + 1))%Z as [|pB|pB] eqn:EB; try lia.
  destruct x as [n d]. unfold Qle, Qinv. cbn in *. nia.
Qed.

Lemma log2_spread_nonneg x : (0 <= log2_spread x)%Z.
Proof.
  unfold log2_spread. pose proof (Z.log2_nonneg (Qnum x)). pose proof (Z.log2_nonneg (Zpos (Qden x))). lia.
Qed.

Lemma ilog_from_spec b g x :
  (1 < b)%Z -> 0 < x -> (Z.abs g <= log2_spread x)%Z ->
  bpow b (ilog_from b g x) <= x /\ x < bpow b (ilog_from b g x + 1).
Proof.
  intros Hb Hx Hg. unfold ilog_from.
  pose proof (x_upper b x Hb Hx) as U. pose proof (x_lower b x Hb Hx) as L.
  pose proof (Z.log2_nonneg (Qnum x)) as H1. pose proof (Z.log2_nonneg (Zpos (Qden x))) as H2.
  unfold log2_spread in *.
  set (ln := Z.log2 (Qnum x)) in *. set (ld := Z.log2 (Zpos (Qden x))) in *.
  destruct (Qleb (bpow b g) x) eqn:C.
  - apply Qleb_true in C. apply ilog_up_spec; [exact Hb|exact C|].
    rewrite Z2Nat.id by lia.
    apply Qlt_le_trans with (bpow b (ln + 1)); [exact U|]. apply bpow_le; lia.
  - apply Qleb_false in C. apply ilog_down_spec; [exact Hb| |].
    + replace (g - 1 + 1)%Z with g by lia. exact C.
    + rewrite Z2Nat.id by lia.
      apply Qle_trans with (bpow b (- (ld + 1))); [|exact L]. apply bpow_le; lia.
Qed.

Theorem ilog10_spec x : 0 < x -> bpow 10 (ilog10 x) <= x /\ x < bpow 10 (ilog10 x + 1).
Proof.
  intro Hx. apply ilog_from_spec; [lia|exact Hx|].
  unfold log2_diff, log2_spread.
  pose proof (Z.log2_nonneg (Qnum x)) as H1. pose proof (Z.log2_nonneg (Zpos (Qden x))) as H2.
  set (ln := Z.log2 (Qnum x)) in *. set (ld := Z.log2 (Zpos (Qden x))) in *.
  Z.div_mod_to_equations. lia.
Qed.

Theorem ilog2_spec x : 0 < x -> bpow 2 (ilog2 x) <= x /\ x < bpow 2 (ilog2 x + 1).
Proof.
  intro Hx. apply ilog_from_spec; [lia|exact Hx|].
  unfold log2_diff, log2_spread.
  pose proof (Z.log2_nonneg (Qnum x)) as H1. pose proof (Z.log2_nonneg (Zpos (Qden x))) as H2. lia.
Qed.

(* the decimal exponent is unique *)
Lemma bpow_exponent_unique b x e1 e2 :
  (1 < b)%Z -> bpow b e1 <= x -> x < bpow b (e1 + 1) -> bpow b e2 <= x -> x < bpow b (e2 + 1) -> e1 = e2.
Proof.
  intros Hb L1 U1 L2 U2.
  assert (A : (e1 < e2 + 1)%Z) by (apply (bpow_lt_inv b); [exact Hb|lra]).
  assert (B : (e2 < e1 + 1)%Z) by (apply (bpow_lt_inv b); [exact Hb|lra]).
  lia.
Qed.

(* ---- round-half-even *)
Lemma Qfloor_bounds q : inject_Z (Qfloor q) <= q /\ q < inject_Z (Qfloor q) + 1.
Proof.
  split; [apply Qfloor_le|]. pose proof (Qlt_floor q) as H. rewrite inject_Z_plus in H. exact H.
Qed.

Lemma rhe_err q : Qabs (q - inject_Z (Qround_half_even q)) <= 1 # 2.
Proof.
  destruct (Qfloor_bounds q) as [L U].
  unfold Qround_half_even. set (f := Qfloor q) in *.
  apply Qabs_Qle_condition.
  destruct (Qcompare (q - inject_Z f) (1 # 2)) eqn:C.
  - apply Qeq_alt in C. destruct (Z.even f).
    + split; lra.
    + rewrite inject_Z_plus. change (inject_Z 1) with 1. split; lra.
  - apply Qlt_alt in C. split; lra.
  - apply Qgt_alt in C. rewrite inject_Z_plus. change (inject_Z 1) with 1. split; lra.
Qed.

Lemma rhe_ge k q : inject_Z k <= q -> (k <= Qround_half_even q)%Z.
Proof.
  intro H. pose proof (rhe_err q) as E. apply Qabs_Qle_condition in E. destruct E as [E1 E2].
  destruct (Z_lt_le_dec (Qround_half_even q) k) as [C|C]; [exfalso|exact C].
  assert (C' : (Qround_half_even q <= k - 1)%Z) by lia.
  rewrite Zle_Qle in C'. unfold Z.sub in C'. rewrite inject_Z_plus, inject_Z_opp in C'.
  change (inject_Z 1) with 1 in C'. lra.
Qed.

Lemma rhe_le k q : q <= inject_Z k -> (Qround_half_even q <= k)%Z.
Proof.
  intro H. pose proof (rhe_err q) as E. apply Qabs_Qle_condition in E. destruct E as [E1 E2].
  destruct (Z_lt_le_dec k (Qround_half_even q)) as [C|C]; [exfalso|exact C].
  assert (C' : (k + 1 <= Qround_half_even q)%Z) by lia.
  rewrite Zle_Qle in C'. rewrite inject_Z_plus in C'.
  change (inject_Z 1) with 1 in C'. lra.
Qed.

(* ---- rounding to p significant digits: the numeric core of '%.{p}g' *)
Theorem round_sig_spec p x :
  (1 <= p)%Z -> 0 < x ->
  let m := fst (round_sig p x) in
  let e := snd (round_sig p x) in
  (10 ^ (p - 1) <= m < 10 ^ p)%Z
  /\ Qabs (x - inject_Z m * bpow 10 (e - p + 1)) <= (1 # 2) * bpow 10 (e - p + 1).
Proof.
  intros Hp Hx. unfold round_sig.
  destruct (ilog10_spec x Hx) as [L U].
  set (e0 := ilog10 x) in *.
  set (u := bpow 10 (e0 - p + 1)).
  assert (Hu : 0 < u) by (apply bpow_pos; lia).
  set (y := x / u).
  assert (Hxy : x == y * u) by (unfold y; field; lra).
  assert (Ylo : inject_Z (10 ^ (p - 1)) <= y).
  { rewrite <- bpow_Z by lia. unfold y. apply Qle_shift_div_l; [exact Hu|].
    unfold u. rewrite <- bpow_add by lia. replace (p - 1 + (e0 - p + 1))%Z with e0 by lia. exact L. }
  assert (Yhi : y < inject_Z (10 ^ p)).
  { rewrite <- bpow_Z by lia. unfold y. apply Qlt_shift_div_r; [exact Hu|].
    unfold u. rewrite <- bpow_add by lia. replace (p + (e0 - p + 1))%Z with (e0 + 1)%Z by lia. exact U. }
  set (m0 := Qround_half_even y).
  pose proof (rhe_ge _ _ Ylo) as M1. pose proof (rhe_le _ _ (Qlt_le_weak _ _ Yhi)) as M2.
  fold m0 in M1, M2.
  pose proof (rhe_err y) as E. fold m0 in E.
  assert (Err : Qabs (x - inject_Z m0 * u) <= (1 # 2) * u).
  { assert (R : x - inject_Z m0 * u == (y - inject_Z m0) * u) by (rewrite Hxy; ring).
    rewrite R, Qabs_Qmult, (Qabs_pos u) by lra.
    apply Qmult_le_compat_r; [exact E|lra]. }
  destruct (Z.eqb_spec m0 (10 ^ p)) as [Em|Em]; cbn [fst snd].
  - split.
    + split; [lia|]. apply Z.pow_lt_mono_r; lia.
    + assert (V : inject_Z (10 ^ (p - 1)) * bpow 10 (e0 + 1 - p + 1) == inject_Z m0 * u).
      { rewrite Em. rewrite <- !bpow_Z by lia. unfold u. rewrite <- !bpow_add by lia.
        replace (p - 1 + (e0 + 1 - p + 1))%Z with (p + (e0 - p + 1))%Z by lia. reflexivity. }
      rewrite V. apply Qle_trans with ((1 # 2) * u); [exact Err|].
      apply Qmult_le_l; [reflexivity|]. unfold u. apply bpow_le; lia.
  - split; [lia|exact Err].
Qed.

(* the exponent returned is the decimal exponent of the rounded value *)
Lemma mantissa_exponent p m e :
  (1 <= p)%Z -> (10 ^ (p - 1) <= m < 10 ^ p)%Z ->
  bpow 10 e <= inject_Z m * bpow 10 (e - p + 1) /\ inject_Z m * bpow 10 (e - p + 1) < bpow 10 (e + 1).
Proof.
  intros Hp [L U].
  assert (Hu : 0 < bpow 10 (e - p + 1)) by (apply bpow_pos; lia).
  assert (E0 : bpow 10 e == bpow 10 (p - 1) * bpow 10 (e - p + 1)).
  { rewrite <- bpow_add by lia. replace (p - 1 + (e - p + 1))%Z with e by lia. reflexivity. }
  assert (E1 : bpow 10 (e + 1) == bpow 10 p * bpow 10 (e - p + 1)).
  { rewrite <- bpow_add by lia. replace (p + (e - p + 1))%Z with (e + 1)%Z by lia. reflexivity. }
  rewrite E0, E1. split.
  - apply Qmult_le_compat_r; [|lra]. rewrite bpow_Z by lia. rewrite <- Zle_Qle. exact L.
  - apply Qmult_lt_compat_r; [exact Hu|]. rewrite bpow_Z by lia. rewrite <- Zlt_Qlt. exact U.
Qed.

(* ===================================================== the text of '%.{p}g' *)
Lemma mantissa_digits P m :
  (1 <= P)%nat -> (10 ^ (Z.of_nat P - 1) <= m < 10 ^ Z.of_nat P)%Z ->
  exists h tl t,
    strip_tz (digits_msd P m) = h :: tl
    /\ (1 <= h <= 9)%Z /\ Forall isdig tl
    /\ (List.length (h :: tl) + t = P)%nat
    /\ (m = dval (h :: tl) * 10 ^ Z.of_nat t)%Z.
Proof.
  intros HP Hm. destruct P as [|k]; [lia|].
  replace (Z.of_nat (S k) - 1)%Z with (Z.of_nat k) in Hm by lia.
  destruct (digits_msd_head k m Hm) as (h & r & Ed & Hh).
  destruct (strip_tz_head h r ltac:(lia)) as (r' & Es).
  destruct (strip_tz_spec (h :: r)) as (t & Et). rewrite Es in Et.
  pose proof (digits_msd_isdig (S k) m) as Hd. rewrite Ed, Et in Hd.
  apply Forall_app_l in Hd. inversion Hd as [|? ? _ Htl]; subst.
  exists h, r', t. rewrite Ed, Es. repeat split; try lia; try assumption.
  - pose proof (digits_msd_length (S k) m) as Hl. rewrite Ed, Et, app_length, repeat_length in Hl. exact Hl.
  - rewrite <- dval_app_zeros, <- Et, <- Ed. symmetry. apply digits_msd_exact.
    assert (0 < 10 ^ Z.of_nat k)%Z by (apply Z.pow_pos_nonneg; lia). lia.
Qed.

Lemma split_sign_nonminus c s : c <> "-"%char -> split_sign (String c s) = (false, String c s).
Proof.
  intro H. unfold split_sign.
  destruct c as [b0 b1 b2 b3 b4 b5 b6 b7].
  destruct b0, b1, b2, b3, b4, b5, b6, b7; try reflexivity. contradiction H. reflexivity.
Qed.

Lemma take_digits_cons d r : isdig d ->
  take_digits (String (digit_char d) r) = (d :: fst (take_digits r), snd (take_digits r)).
Proof.
  intro H. cbn [take_digits]. rewrite (digit_of_char d H). now destruct (take_digits r).
Qed.

Lemma take_digits_nodigit r : no_digit_head r -> take_digits r = ([], r).
Proof.
  intro H. destruct r as [|c r]; [reflexivity|]. cbn [take_digits no_digit_head] in *. now rewrite H.
Qed.

Lemma pad_show a : (0 <= a)%Z ->
  nat_text ((if (a <? 10)%Z then "0" else "") ++ show_Z a)%string = Some a.
Proof.
  intro Ha. destruct (show_Z_nonneg_dtext a Ha) as (ds & Hne & Hd & Hv & Hs). rewrite Hs.
  destruct (a <? 10)%Z.
  - change ("0" ++ dtext ds)%string with (dtext (0%Z :: ds)).
    rewrite nat_text_dtext; [|discriminate|constructor; [unfold isdig; lia|assumption]].
    rewrite dval_cons. f_equal. lia.
  - cbn [append]. rewrite nat_text_dtext by assumption. now f_equal.
Qed.

Lemma read_exp_text e : read_exp ("e" ++ exp_text e)%string = Some e.
Proof.
  unfold exp_text. destruct (Z.ltb_spec e 0) as [He|He]; cbn [append read_exp].
  - rewrite pad_show by lia. cbn. f_equal. lia.
  - rewrite pad_show by lia. f_equal. lia.
Qed.

Lemma isdig_of_range h : (1 <= h <= 9)%Z -> isdig h.
Proof. unfold isdig. lia. Qed.

Lemma parts_sci h tl e :
  (1 <= h <= 9)%Z -> Forall isdig tl ->
  text_parts (sci_text (h :: tl) e) = Some (false, [h], tl, e).
Proof.
  intros Hh Htl. pose proof (isdig_of_range h Hh) as Hd.
  unfold sci_text, text_parts. cbn [append].
  rewrite split_sign_nonminus by now apply digit_char_not_minus.
  rewrite take_digits_cons by assumption.
  destruct tl as [|d tl].
  - cbn [append]. rewrite take_digits_nodigit by reflexivity. cbn [fst snd].
    change (String "e" (exp_text e)) with ("e" ++ exp_text e)%string.
    rewrite read_exp_text. reflexivity.
  - cbn [append]. rewrite take_digits_nodigit by reflexivity. cbn [fst snd].
    rewrite take_digits_app; [|assumption|reflexivity].
    change (String "e" (exp_text e)) with ("e" ++ exp_text e)%string.
    rewrite read_exp_text. reflexivity.
Qed.

Lemma parts_plain_small h tl e :
  (1 <= h <= 9)%Z -> Forall isdig tl -> (e < 0)%Z ->
  text_parts (plain_text (h :: tl) e)
  = Some (false, [0%Z], repeat 0%Z (Z.to_nat (- e - 1)) ++ h :: tl, 0%Z).
Proof.
  intros Hh Htl He. pose proof (isdig_of_range h Hh) as Hd.
  unfold plain_text. destruct (Z.ltb_spec e 0) as [_|]; [|lia].
  rewrite <- dtext_app. unfold text_parts. cbn [append split_sign].
  change (String "0" (String "." (dtext (repeat 0%Z (Z.to_nat (- e - 1)) ++ h :: tl))))
    with (String (digit_char 0) (String "." (dtext (repeat 0%Z (Z.to_nat (- e - 1)) ++ h :: tl)))).
  rewrite take_digits_cons by (unfold isdig; lia).
  rewrite take_digits_nodigit by reflexivity. cbn [fst snd].
  rewrite take_digits_dtext.
  - reflexivity.
  - apply Forall_app. split; [apply isdig_zeros|constructor; assumption].
Qed.

Lemma parts_plain_int h tl e :
  (1 <= h <= 9)%Z -> Forall isdig tl -> (0 <= e)%Z ->
  (List.length (h :: tl) <= Z.to_nat (e + 1))%nat ->
  text_parts (plain_text (h :: tl) e)
  = Some (false, (h :: tl) ++ repeat 0%Z (Z.to_nat (e + 1) - List.length (h :: tl)), [], 0%Z).
Proof.
  intros Hh Htl He Hl. pose proof (isdig_of_range h Hh) as Hd.
  unfold plain_text. destruct (Z.ltb_spec e 0) as [|_]; [lia|].
  destruct (Nat.leb_spec (List.length (h :: tl)) (Z.to_nat (e + 1))) as [_|]; [|lia].
  rewrite <- dtext_app. unfold text_parts.
  set (zs := repeat 0%Z (Z.to_nat (e + 1) - List.length (h :: tl))).
  cbn [app dtext].
  rewrite split_sign_nonminus by now apply digit_char_not_minus.
  change (String (digit_char h) (dtext (tl ++ zs))) with (dtext (h :: tl ++ zs)).
  rewrite take_digits_dtext.
  - reflexivity.
  - constructor; [assumption|]. apply Forall_app. split; [assumption|apply isdig_zeros].
Qed.

Lemma parts_plain_frac h tl e :
  (1 <= h <= 9)%Z -> Forall isdig tl -> (0 <= e)%Z ->
  (Z.to_nat (e + 1) < List.length (h :: tl))%nat ->
  text_parts (plain_text (h :: tl) e)
  = Some (false, firstn (Z.to_nat (e + 1)) (h :: tl), skipn (Z.to_nat (e + 1)) (h :: tl), 0%Z).
Proof.
  intros Hh Htl He Hl. pose proof (isdig_of_range h Hh) as Hd.
  unfold plain_text. destruct (Z.ltb_spec e 0) as [|_]; [lia|].
  destruct (Nat.leb_spec (List.length (h :: tl)) (Z.to_nat (e + 1))) as [|_]; [lia|].
  assert (Hall : Forall isdig (h :: tl)) by (constructor; assumption).
  destruct (Z.to_nat (e + 1)) as [|k] eqn:Ek; [lia|].
  rewrite <- (firstn_skipn (S k) (h :: tl)) in Hall. apply Forall_app in Hall. destruct Hall as [Hf Hs].
  unfold text_parts. cbn [firstn dtext append].
  rewrite split_sign_nonminus by now apply digit_char_not_minus.
  change (String (digit_char h) (dtext (firstn k tl) ++ String "." (dtext (skipn (S k) (h :: tl)))))%string
    with (dtext (firstn (S k) (h :: tl)) ++ String "." (dtext (skipn (S k) (h :: tl))))%string.
  rewrite take_digits_app; [|assumption|reflexivity].
  cbn [firstn]. rewrite take_digits_dtext by assumption. reflexivity.
Qed.

Lemma value_close D k t e P :
  (P = k + t)%Z -> (0 <= t)%Z ->
  inject_Z D * bpow 10 (e - k + 1) == inject_Z (D * 10 ^ t) * bpow 10 (e - P + 1).
Proof.
  intros HP Ht. rewrite inject_Z_mult, <- (bpow_Z 10 t) by lia.
  rewrite <- Qmult_assoc, <- bpow_add by lia.
  replace (t + (e - P + 1))%Z with (e - k + 1)%Z by lia. reflexivity.
Qed.

(* the text of a positive value: parts, value and number of significant digits *)
Lemma fmt_pos_spec p x :
  0 < x ->
  let P := Z.max 1 p in
  let m := fst (round_sig P x) in
  let e := snd (round_sig P x) in
  exists Ip Fp Ex,
    text_parts (fmt_pos p x) = Some (false, Ip, Fp, Ex)
    /\ inject_Z (dval (Ip ++ Fp)) * bpow 10 (Ex - Z.of_nat (List.length Fp))
       == inject_Z m * bpow 10 (e - P + 1)
    /\ (List.length (strip_lz (Ip ++ Fp)) <= Z.to_nat P)%nat.
Proof.
  intros Hx P m e.
  assert (HP : (1 <= P)%Z) by (unfold P; lia).
  destruct (round_sig_spec P x HP Hx) as [Hm _]. fold m in Hm.
  unfold fmt_pos. fold P. destruct (round_sig P x) as [m' e'] eqn:Ers. cbn [fst snd] in *. subst m e.
  destruct (mantissa_digits (Z.to_nat P) m') as (h & tl & t & Es & Hh & Htl & Hlen & Hval).
  { lia. } { rewrite Z2Nat.id by lia. exact Hm. }
  rewrite Es.
  assert (HPk : (P = Z.of_nat (List.length (h :: tl)) + Z.of_nat t)%Z) by lia.
  assert (Hnz : h <> 0%Z) by lia.
  destruct (use_exp P e') eqn:Eu.
  - (* exponent form *)
    exists [h], tl, e'. split; [now apply parts_sci|]. split.
    + cbn [app]. rewrite Hval.
      rewrite <- (value_close _ (Z.of_nat (List.length (h :: tl))) (Z.of_nat t) e' P) by lia.
      replace (e' - Z.of_nat (List.length tl))%Z with (e' - Z.of_nat (List.length (h :: tl)) + 1)%Z
        by (cbn [List.length]; lia).
      reflexivity.
    + cbn [app]. rewrite strip_lz_head by assumption. lia.
  - unfold use_exp in Eu. apply orb_false_iff in Eu. destruct Eu as [Eu1 Eu2].
    apply Z.ltb_ge in Eu1. apply Z.leb_gt in Eu2.
    destruct (Z_lt_le_dec e' 0) as [He|He].
    + (* 0.000ddd *)
      eexists; eexists; eexists. split; [now apply parts_plain_small|]. split.
      * cbn [app]. rewrite dval_cons. rewrite dval_zeros_app. rewrite Hval.
        rewrite <- (value_close _ (Z.of_nat (List.length (h :: tl))) (Z.of_nat t) e' P) by lia.
        rewrite app_length, repeat_length.
        replace (0 * 10 ^ Z.of_nat (Z.to_nat (- e' - 1) + List.length (h :: tl)) + dval (h :: tl))%Z
          with (dval (h :: tl)) by lia.
        replace (0 - Z.of_nat (Z.to_nat (- e' - 1) + List.length (h :: tl)))%Z
          with (e' - Z.of_nat (List.length (h :: tl)) + 1)%Z by lia.
        reflexivity.
      * change ([0%Z] ++ repeat 0%Z (Z.to_nat (- e' - 1)) ++ h :: tl)
          with (repeat 0%Z (S (Z.to_nat (- e' - 1))) ++ h :: tl).
        rewrite strip_lz_zeros, strip_lz_head by assumption. lia.
    + destruct (le_lt_dec (List.length (h :: tl)) (Z.to_nat (e' + 1))) as [Hl|Hl].
      * (* ddd000 *)
        eexists; eexists; eexists. split; [now apply parts_plain_int|]. split.
        -- rewrite app_nil_r, dval_app_zeros.
           change (Z.of_nat (List.length (@nil Z))) with 0%Z. change (0 - 0)%Z with 0%Z.
           rewrite bpow_0, Qmult_1_r, Hval.
           rewrite <- (value_close _ (Z.of_nat (List.length (h :: tl))) (Z.of_nat t) e' P) by lia.
           rewrite inject_Z_mult, <- (bpow_Z 10) by lia.
           replace (Z.of_nat (Z.to_nat (e' + 1) - List.length (h :: tl)))
             with (e' - Z.of_nat (List.length (h :: tl)) + 1)%Z by lia.
           reflexivity.
        -- rewrite app_nil_r. cbn [app]. rewrite strip_lz_head by assumption.
           change (h :: tl ++ repeat 0%Z (Z.to_nat (e' + 1) - List.length (h :: tl)))
             with ((h :: tl) ++ repeat 0%Z (Z.to_nat (e' + 1) - List.length (h :: tl))).
           rewrite app_length, repeat_length. lia.
      * (* ddd.ddd *)
        eexists; eexists; eexists. split; [now apply parts_plain_frac|]. split.
        -- rewrite firstn_skipn, Hval.
           rewrite <- (value_close _ (Z.of_nat (List.length (h :: tl))) (Z.of_nat t) e' P) by lia.
           rewrite skipn_length.
           replace (0 - Z.of_nat (List.length (h :: tl) - Z.to_nat (e' + 1)))%Z
             with (e' - Z.of_nat (List.length (h :: tl)) + 1)%Z by lia.
           reflexivity.
        -- rewrite firstn_skipn, strip_lz_head by assumption. lia.
Qed.

Lemma text_parts_minus s Ip Fp Ex :
  text_parts s = Some (false, Ip, Fp, Ex) -> text_parts (String "-" s) = Some (true, Ip, Fp, Ex).
Proof.
  intro H. unfold text_parts in *. cbn [split_sign].
  destruct s as [|c r].
  - cbn in H. discriminate H.
  - destruct (ascii_dec c "-"%char) as [->|Hc].
    + cbn [split_sign] in H.
      destruct (take_digits r) as [I0 s1]. destruct I0; [discriminate H|].
      destruct (match s1 with String "."%char r0 => take_digits r0 | _ => ([], s1) end) as [F0 s2].
      destruct (read_exp s2); discriminate H.
    + rewrite split_sign_nonminus in H by assumption.
      destruct (take_digits (String c r)) as [I0 s1]. destruct I0; [discriminate H|].
      destruct (match s1 with String "."%char r0 => take_digits r0 | _ => ([], s1) end) as [F0 s2].
      destruct (read_exp s2); [|discriminate H]. inversion H; subst. reflexivity.
Qed.

(* C15, float clause: for every precision p >= 1 and every non-zero value x the text
   fmt_g p x reads as a decimal v with at most p significant digits, and v is x
   rounded to p significant digits: |v - x| <= 1/2 * 10^(e-p+1), e the decimal
   exponent of v. *)
Theorem fmt_g_precision p x :
  (1 <= p)%Z -> ~ x == 0 ->
  exists v e k,
    value_of_text (fmt_g p x) = Some v
    /\ sig_digits (fmt_g p x) = Some k /\ (k <= Z.to_nat p)%nat
    /\ bpow 10 e <= Qabs v /\ Qabs v < bpow 10 (e + 1)
    /\ Qabs (v - x) <= (1 # 2) * bpow 10 (e - p + 1).
Proof.
  intros Hp Hx. unfold fmt_g.
  assert (HP : Z.max 1 p = p) by lia.
  destruct (Qcompare x 0) eqn:C.
  - apply Qeq_alt in C. contradiction.
  - apply Qlt_alt in C.
    assert (Ha : 0 < - x) by lra.
    destruct (fmt_pos_spec p (- x) Ha) as (Ip & Fp & Ex & Hparts & Hval & Hsig).
    destruct (round_sig_spec (Z.max 1 p) (- x) ltac:(lia) Ha) as [Hm Herr].
    rewrite HP in *.
    set (m := fst (round_sig p (- x))) in *. set (e := snd (round_sig p (- x))) in *.
    destruct (mantissa_exponent p m e Hp Hm) as [Lo Hi].
    set (r := inject_Z m * bpow 10 (e - p + 1)) in *.
    change ("-" ++ fmt_pos p (- x))%string with (String "-" (fmt_pos p (- x))).
    pose proof (text_parts_minus _ _ _ _ Hparts) as Hneg.
    eexists; exists e; eexists.
    unfold value_of_text, sig_digits. rewrite Hneg.
    split; [reflexivity|]. split; [reflexivity|]. split; [exact Hsig|].
    assert (Hv : -1 * inject_Z (dval (Ip ++ Fp)) * bpow 10 (Ex - Z.of_nat (List.length Fp)) == - r).
    { rewrite <- Hval. ring. }
    set (v := -1 * inject_Z (dval (Ip ++ Fp)) * bpow 10 (Ex - Z.of_nat (List.length Fp))) in *.
    pose proof (bpow_pos 10 e ltac:(lia)) as Hbe.
    assert (Habs : Qabs v == r).
    { rewrite Hv, Qabs_opp. apply Qabs_pos. lra. }
    split; [rewrite Habs; exact Lo|]. split; [rewrite Habs; exact Hi|].
    assert (R : v - x == (- x - r)) by (rewrite Hv; ring). rewrite R. exact Herr.
  - apply Qgt_alt in C.
    assert (Ha : 0 < x) by lra.
    destruct (fmt_pos_spec p x Ha) as (Ip & Fp & Ex & Hparts & Hval & Hsig).
    destruct (round_sig_spec (Z.max 1 p) x ltac:(lia) Ha) as [Hm Herr].
    rewrite HP in *.
    set (m := fst (round_sig p x)) in *. set (e := snd (round_sig p x)) in *.
    destruct (mantissa_exponent p m e Hp Hm) as [Lo Hi].
    set (r := inject_Z m * bpow 10 (e - p + 1)) in *.
    eexists; exists e; eexists.
    unfold value_of_text, sig_digits. rewrite Hparts.
    split; [reflexivity|]. split; [reflexivity|]. split; [exact Hsig|].
    assert (Hv : 1 * inject_Z (dval (Ip ++ Fp)) * bpow 10 (Ex - Z.of_nat (List.length Fp)) == r).
    { rewrite <- Hval. ring. }
    set (v := 1 * inject_Z (dval (Ip ++ Fp)) * bpow 10 (Ex - Z.of_nat (List.length Fp))) in *.
    pose proof (bpow_pos 10 e ltac:(lia)) as Hbe.
    assert (Habs : Qabs v == r).
    { rewrite Hv. apply Qabs_pos. lra. }
    split; [rewrite Habs; exact Lo|]. split; [rewrite Habs; exact Hi|].
    assert (R : v - x == - (x - r)) by (rewrite Hv; ring). rewrite R, Qabs_opp. exact Herr.
Qed.

(* ================================================================ unit text *)
Local Open Scope Z_scope.

Fixpoint no_space (s : string) : bool :=
  match s with
  | EmptyString => true
  | String c r => negb (Ascii.eqb c " ") && no_space r
  end.

Lemma no_space_app a b : no_space (a ++ b)%string = no_space a && no_space b.
Proof. induction a as [|c a IH]; cbn [append no_space]; [reflexivity|]. rewrite IH. now rewrite andb_assoc. Qed.

Lemma plain_no_space s : plain_name_chars s = true -> no_space s = true.
Proof.
  induction s as [|c s IH]; cbn [plain_name_chars no_space]; [reflexivity|].
  intro H. apply andb_true_iff in H. destruct H as [H1 H2]. apply andb_true_iff in H1. destruct H1 as [_ H1].
  rewrite H1. cbn. now apply IH.
Qed.

Lemma no_space_dtext ds : Forall isdig ds -> no_space (dtext ds) = true.
Proof.
  induction 1 as [|d ds Hd _ IH]; cbn [dtext no_space]; [reflexivity|]. rewrite IH.
  destruct (isdig_cases d Hd) as [E|[E|[E|[E|[E|[E|[E|[E|[E|E]]]]]]]]]; subst d; reflexivity.
Qed.

Lemma no_space_show_Z z : no_space (show_Z z) = true.
Proof.
  destruct (show_Z_digits z) as (ds & _ & Hd & _ & Hs). rewrite Hs, no_space_app, no_space_dtext by assumption.
  destruct (z <? 0); reflexivity.
Qed.

Lemma split_caret_plain n : plain_name_chars n = true -> split_caret n = (n, None).
Proof.
  induction n as [|c n IH]; cbn [plain_name_chars split_caret]; [reflexivity|].
  intro H. apply andb_true_iff in H. destruct H as [H1 H2]. apply andb_true_iff in H1. destruct H1 as [H1 _].
  apply negb_true_iff in H1. rewrite H1, (IH H2). reflexivity.
Qed.

Lemma split_caret_app n t : plain_name_chars n = true -> split_caret (n ++ String "^" t)%string = (n, Some t).
Proof.
  induction n as [|c n IH]; cbn [plain_name_chars split_caret append].
  - intros _. reflexivity.
  - intro H. apply andb_true_iff in H. destruct H as [H1 H2]. apply andb_true_iff in H1. destruct H1 as [H1 _].
    apply negb_true_iff in H1. rewrite H1, (IH H2). reflexivity.
Qed.

Lemma word_denote_unit_word n e : plain_name_chars n = true -> word_denote (unit_word n e) = Some (n, e).
Proof.
  intro Hn. unfold unit_word, word_denote. destruct (Z.eqb_spec e 1) as [->|He].
  - now rewrite split_caret_plain.
  - change ("^" ++ show_Z e)%string with (String "^" (show_Z e)).
    rewrite split_caret_app by assumption. now rewrite Z_of_text_show.
Qed.

Lemma plain_name_chars_of n : plain_name n = true -> plain_name_chars n = true.
Proof. destruct n; [discriminate|]. intro H. exact H. Qed.

Lemma unit_word_no_space n e : plain_name_chars n = true -> no_space (unit_word n e) = true.
Proof.
  intro Hn. unfold unit_word. destruct (e =? 1); [now apply plain_no_space|].
  rewrite !no_space_app, (plain_no_space n Hn), no_space_show_Z. reflexivity.
Qed.

Lemma unit_word_nonempty n e : plain_name n = true -> unit_word n e <> EmptyString.
Proof.
  destruct n as [|c n]; [discriminate|]. intros _. unfold unit_word. destruct (e =? 1); discriminate.
Qed.

Lemma words_aux_word w : no_space w = true -> words_aux w = (w, []).
Proof.
  induction w as [|c w IH]; cbn [no_space words_aux]; [reflexivity|].
  intro H. apply andb_true_iff in H. destruct H as [H1 H2]. apply negb_true_iff in H1.
  rewrite (IH H2), H1. reflexivity.
Qed.

Lemma words_aux_app w R : no_space w = true ->
  words_aux (w ++ String " " R)%string = (w, fst (words_aux R) :: snd (words_aux R)).
Proof.
  induction w as [|c w IH]; cbn [no_space words_aux append].
  - intros _. destruct (words_aux R). reflexivity.
  - intro H. apply andb_true_iff in H. destruct H as [H1 H2]. apply negb_true_iff in H1.
    rewrite (IH H2), H1. reflexivity.
Qed.

Lemma words_aux_concat w ws :
  Forall (fun x => no_space x = true) (w :: ws) ->
  words_aux (String.concat " " (w :: ws)) = (w, ws).
Proof.
  revert w. induction ws as [|w' ws IH]; intros w H; inversion H as [|? ? Hw Hws]; subst.
  - cbn [String.concat]. now apply words_aux_word.
  - change (String.concat " " (w :: w' :: ws)) with (w ++ String " " (String.concat " " (w' :: ws)))%string.
    rewrite words_aux_app by assumption. rewrite (IH w' Hws). reflexivity.
Qed.

Lemma words_concat ws :
  Forall (fun x => no_space x = true) ws -> Forall (fun x => x <> EmptyString) ws ->
  words (String.concat " " ws) = ws.
Proof.
  intros Hs Hn. destruct ws as [|w ws]; [reflexivity|].
  pose proof (words_aux_concat w ws Hs) as E. unfold words.
  destruct (String.concat " " (w :: ws)) as [|c r] eqn:Ec.
  - exfalso. inversion Hn as [|? ? Hw _]; subst. destruct w as [|c w]; [contradiction|].
    destruct ws; cbn in Ec; discriminate Ec.
  - rewrite E. reflexivity.
Qed.

Lemma sequence_Some {A} (l : list A) : sequence (map Some l) = Some l.
Proof. induction l as [|a l IH]; cbn; [reflexivity|]. now rewrite IH. Qed.

Lemma unit_words_denote names dims :
  forallb plain_name names = true ->
  map word_denote (unit_words names dims) = map Some (nonzero_dims names dims).
Proof.
  revert dims. induction names as [|n ns IH]; intros dims H; [reflexivity|].
  cbn [forallb] in H. apply andb_true_iff in H. destruct H as [Hn Hns].
  destruct dims as [|e es]; [reflexivity|]. cbn [unit_words nonzero_dims].
  destruct (e =? 0); [now apply IH|]. cbn [map].
  rewrite word_denote_unit_word by now apply plain_name_chars_of. now rewrite IH.
Qed.

Lemma unit_words_wf names dims :
  forallb plain_name names = true ->
  Forall (fun x => no_space x = true) (unit_words names dims)
  /\ Forall (fun x => x <> EmptyString) (unit_words names dims).
Proof.
  revert dims. induction names as [|n ns IH]; intros dims H; [split; constructor|].
  cbn [forallb] in H. apply andb_true_iff in H. destruct H as [Hn Hns].
  destruct dims as [|e es]; [split; constructor|]. cbn [unit_words].
  destruct (IH es Hns) as [A B].
  destruct (e =? 0); [split; assumption|]. split; constructor; try assumption.
  - apply unit_word_no_space. now apply plain_name_chars_of.
  - now apply unit_word_nonempty.
Qed.

(* the live base-unit names can be read back (re-proved against Gen/GenUnits.v on every build) *)
Lemma base_units_plain : forallb plain_name base_units = true.
Proof. vm_compute. reflexivity. Qed.

(* the unit text denotes exactly the non-zero dimensions, as base-unit names with their exponents *)
Theorem prettified_denotes dims : dims_of_text (prettified dims) = Some (nonzero_dims base_units dims).
Proof.
  unfold dims_of_text, prettified.
  destruct (unit_words_wf base_units dims base_units_plain) as [A B].
  rewrite words_concat by assumption.
  rewrite unit_words_denote by apply base_units_plain. apply sequence_Some.
Qed.

Lemma nonzero_dims_spec names dims :
  nonzero_dims names dims = filter (fun ne => negb (snd ne =? 0)) (combine names dims).
Proof.
  revert dims. induction names as [|n ns IH]; intro dims; [reflexivity|].
  destruct dims as [|e es]; [reflexivity|]. cbn [nonzero_dims combine filter snd].
  destruct (e =? 0); cbn [negb]; now rewrite IH.
Qed.

Lemma unit_words_nonempty names dims :
  nonzero_dims names dims <> [] -> unit_words names dims <> [].
Proof.
  revert dims. induction names as [|n ns IH]; intro dims; [cbn; congruence|].
  destruct dims as [|e es]; [cbn; congruence|]. cbn [nonzero_dims unit_words].
  destruct (e =? 0); [apply IH|discriminate].
Qed.

(* ============================================ quantities, arrays, re-entry *)
Local Open Scope string_scope.

Lemma concat_nonempty ws : ws <> [] -> Forall (fun x => x <> "") ws -> String.concat " " ws <> "".
Proof.
  intros Hne Hall. destruct ws as [|w ws]; [contradiction|].
  inversion Hall as [|? ? Hw _]; subst. destruct w as [|c w]; [contradiction|].
  destruct ws; cbn; discriminate.
Qed.

Lemma prettified_nonempty dims : nonzero_dims base_units dims <> [] -> prettified dims <> "".
Proof.
  intro H. unfold prettified. apply concat_nonempty.
  - now apply unit_words_nonempty.
  - apply (unit_words_wf base_units dims base_units_plain).
Qed.

(* C15, quantity clause *)
Theorem display_quantity p bf mag dims :
  display p bf (VQty mag dims)
  = match mag with
    | NFrac q => prettify_frac q bf ++ " " ++ prettified dims
                 ++ "    (" ++ approx_text p q ++ " " ++ prettified dims ++ ")"
    | NInt z => show_Z z ++ " " ++ prettified dims
    | NFlt x => fmt_g p x ++ " " ++ prettified dims
    end
  /\ dims_of_text (prettified dims) = Some (nonzero_dims base_units dims)
  /\ nonzero_dims base_units dims
     = filter (fun ne => negb (snd ne =? 0)%Z) (combine base_units dims).
Proof.
  split; [destruct mag; reflexivity|]. split; [apply prettified_denotes|apply nonzero_dims_spec].
Qed.

(* C15, element-wise clause *)
Theorem display_elementwise p bf :
  (forall l, display p bf (VArr l) = "{" ++ String.concat ", " (map (stringify p false) l) ++ "}")
  /\ (forall l b, stringify p b (VArr l) = "{" ++ String.concat ", " (map (stringify p b) l) ++ "}")
  /\ (forall a b, display p bf (VIvl a b) = "[" ++ stringify p false a ++ ", " ++ stringify p false b ++ "]")
  /\ (forall a b c, stringify p c (VIvl a b) = "[" ++ stringify p false a ++ ", " ++ stringify p false b ++ "]")
  /\ (forall n, stringify p false (VNum n) = num_text p n false)
  /\ (forall mag dims, stringify p false (VQty mag dims) = num_text p mag false ++ " " ++ prettified dims).
Proof. repeat split. Qed.

(* strings: the lexer's read_string gives the value back *)
Lemma read_string_body_plain s : plain_string s = true -> read_string_body (s ++ quote) = Some s.
Proof.
  induction s as [|c s IH]; cbn [plain_string append read_string_body]; [reflexivity|].
  intro H. apply andb_true_iff in H. destruct H as [H1 H3]. apply andb_true_iff in H1. destruct H1 as [H1 H2].
  apply negb_true_iff in H1. apply negb_true_iff in H2. rewrite H1, H2, (IH H3). reflexivity.
Qed.

Theorem read_string_reentry p s : plain_string s = true -> read_string (reentry_text p (VStr s)) = Some s.
Proof. intro H. cbn. now apply read_string_body_plain. Qed.

Lemma frac_text_parts q : mixed_parts (frac_text q) = Some (None, Qnum q, Zpos (Qden q)).
Proof.
  unfold mixed_parts, frac_text.
  rewrite read_Z_show by apply no_digit_head_slash.
  cbn [append]. rewrite nat_text_show_pos. reflexivity.
Qed.

(* C15, re-entry: the local facts.  The end-to-end statement (tokenise + parse + evaluate the
   re-entry text) is established by the correspondence run, not here. *)
Theorem reentry_local p :
  (forall z, reentry_text p (VNum (NInt z)) = show_Z z /\ Z_of_text (show_Z z) = Some z)
  /\ (forall q, reentry_text p (VNum (NFrac q)) = "(" ++ frac_text q ++ ")"
                /\ mixed_parts (frac_text q) = Some (None, Qnum q, Zpos (Qden q))
                /\ (inject_Z (Qnum q) / inject_Z (Zpos (Qden q)) == q)%Q)
  /\ (forall x, reentry_text p (VNum (NFlt x)) = fmt_g p x)
  /\ (forall mag dims,
        reentry_text p (VQty mag dims) = reentry_text p (VNum mag) ++ " " ++ prettified dims
        /\ dims_of_text (prettified dims) = Some (nonzero_dims base_units dims)
        /\ (nonzero_dims base_units dims <> [] -> prettified dims <> ""))
  /\ (forall l, reentry_text p (VArr l) = "{" ++ String.concat ", " (map (reentry_text p) l) ++ "}")
  /\ (forall a b, reentry_text p (VIvl a b) = "[" ++ stringify p false a ++ ", " ++ stringify p false b ++ "]")
  /\ (forall s, reentry_text p (VStr s) = quote ++ s ++ quote
                /\ (plain_string s = true -> read_string (reentry_text p (VStr s)) = Some s))
  /\ (forall y mo d h mi s us tz,
        reentry_text p (VInst y mo d h mi s us tz) = "#" ++ iso_text y mo d h mi s us tz ++ "#"
        /\ display p false (VInst y mo d h mi s us tz) = iso_text y mo d h mi s us tz).
Proof.
  split; [intro z; split; [reflexivity|apply Z_of_text_show]|].
  split; [intro q; split; [reflexivity|split; [apply frac_text_parts|symmetry; apply Q_as_div]]|].
  split; [reflexivity|].
  split; [intros mag dims; split; [reflexivity|split; [apply prettified_denotes|apply prettified_nonempty]]|].
  split; [reflexivity|]. split; [reflexivity|].
  split; [intro s; split; [reflexivity|apply read_string_reentry]|].
  intros; split; reflexivity.
Qed.

(* C15, integer clause *)
Theorem display_int p bf z :
  display p bf (VNum (NInt z)) = show_Z z /\ Z_of_text (show_Z z) = Some z.
Proof. split; [reflexivity|apply Z_of_text_show]. Qed.

(* C15, fraction clause *)
Theorem display_fraction p bf q :
  Qred q = q -> (1 < Qden q)%positive ->
  display p bf (VNum (NFrac q)) = prettify_frac q false ++ " " ++ "    (" ++ approx_text p q ++ ")"
  /\ exists w n d,
       mixed_parts (prettify_frac q false) = Some (w, n, d)
       /\ d = Zpos (Qden q)
       /\ (mixed_denote w n d == q)%Q
       /\ Z.gcd n d = 1%Z
       /\ match w with
          | None => n = Qnum q /\ (Z.abs n < d)%Z
          | Some a => a <> 0%Z /\ (0 < n < d)%Z /\ ((a < 0)%Z <-> (q < 0)%Q)
          end.
Proof. intros H1 H2. split; [reflexivity|now apply prettify_frac_denotes]. Qed.

(* ---- the decimal approximation of a fraction *)
Local Open Scope Q_scope.

Definition quantum (a : Q) : Q := bpow 2 (Z.max (ilog2 a) (-1022) - 52).

(* float(Fraction): the double nearest to a, half a quantum away at most (the quantum is
   2^(e-52) for 2^e <= a < 2^(e+1), and 2^-1074 in the subnormal range) *)
Lemma float_of_pos_err a f :
  0 < a -> float_of_pos a = Some f -> Qabs (a - f) <= (1 # 2) * quantum a.
Proof.
  intros Ha. unfold float_of_pos, quantum.
  set (u := bpow 2 (Z.max (ilog2 a) (-1022) - 52)).
  assert (Hu : 0 < u) by (apply bpow_pos; lia).
  set (X := inject_Z (Qround_half_even (a / u)) * u).
  destruct (Qleb (bpow 2 1024) X); [discriminate|].
  intro E. assert (E' : Qred X = f) by congruence.
  assert (Ef : f == X) by (rewrite <- E'; apply Qred_correct).
  rewrite Ef. unfold X.
  pose proof (rhe_err (a / u)) as Er.
  assert (R : a - inject_Z (Qround_half_even (a / u)) * u
              == (a / u - inject_Z (Qround_half_even (a / u))) * u) by (field; lra).
  rewrite R, Qabs_Qmult, (Qabs_pos u) by lra.
  apply Qmult_le_compat_r; [exact Er|lra].
Qed.

Theorem float_of_Q_err q f :
  float_of_Q q = Some f -> Qabs (q - f) <= (1 # 2) * quantum (Qabs q).
Proof.
  unfold float_of_Q. destruct (Qcompare q 0) eqn:C.
  - apply Qeq_alt in C. intro E. inversion E; subst f.
    assert (R : q - 0 == 0) by (rewrite C; ring). rewrite R. cbn [Qabs Z.abs Qnum Qden].
    assert (0 < quantum (Qabs q)) by (apply bpow_pos; lia). lra.
  - apply Qlt_alt in C. destruct (float_of_pos (- q)) as [g|] eqn:Eg; [|discriminate].
    cbn [option_map]. intro E. inversion E; subst f.
    assert (Ha : 0 < - q) by lra.
    pose proof (float_of_pos_err (- q) g Ha Eg) as H.
    assert (Eabs : Qabs q == - q) by (apply Qabs_neg; lra).
    assert (R : q - - g == - (- q - g)) by ring. rewrite R, Qabs_opp.
    unfold quantum in *. unfold ilog2, ilog_from, log2_spread, log2_diff in *.
    assert (Enum : Qnum (Qabs q) = Qnum (- q)) by (destruct q as [[|n|n] d]; cbn in *; try reflexivity; unfold Qlt in C; cbn in C; lia).
    assert (Eden : Qden (Qabs q) = Qden (- q)) by (destruct q as [n d]; reflexivity).
    assert (Eq' : Qabs q = - q).
    { destruct q as [n d]. cbn in Enum. unfold Qabs, Qopp. cbn [Qnum Qden] in *. now rewrite Enum. }
    rewrite Eq'. exact H.
  - apply Qgt_alt in C. intro Eg.
    assert (Ha : 0 < q) by lra.
    pose proof (float_of_pos_err q f Ha Eg) as H.
    assert (Eq' : Qabs q = q).
    { destruct q as [[|n|n] d]; try reflexivity. unfold Qlt in Ha. cbn in Ha. lia. }
    rewrite Eq'. exact H.
Qed.

(* the approximation shown next to a fraction, when float(f) is a non-zero double g:
   the text reads as g rounded to p significant digits, and g is the double nearest to f *)
Theorem approx_text_denotes p q g :
  (1 <= p)%Z -> float_of_Q q = Some g -> ~ g == 0 ->
  approx_text p q = fmt_g p g
  /\ Qabs (q - g) <= (1 # 2) * quantum (Qabs q)
  /\ exists v e k,
       value_of_text (approx_text p q) = Some v
       /\ sig_digits (approx_text p q) = Some k /\ (k <= Z.to_nat p)%nat
       /\ bpow 10 e <= Qabs v /\ Qabs v < bpow 10 (e + 1)
       /\ Qabs (v - g) <= (1 # 2) * bpow 10 (e - p + 1).
Proof.
  intros Hp Hg Hnz.
  assert (E : approx_text p q = fmt_g p g).
  { unfold approx_text. rewrite Hg. destruct (Qeqb g 0) eqn:Z0; [|reflexivity].
    apply Qeqb_true in Z0. contradiction. }
  split; [exact E|]. split; [now apply float_of_Q_err|].
  rewrite E. now apply fmt_g_precision.
Qed.

(* C15, float clause on the displayed line *)
Theorem display_float p bf x :
  (1 <= p)%Z -> ~ x == 0 ->
  display p bf (VNum (NFlt x)) = fmt_g p x
  /\ exists v e k,
       value_of_text (fmt_g p x) = Some v
       /\ sig_digits (fmt_g p x) = Some k /\ (k <= Z.to_nat p)%nat
       /\ bpow 10 e <= Qabs v /\ Qabs v < bpow 10 (e + 1)
       /\ Qabs (v - x) <= (1 # 2) * bpow 10 (e - p + 1).
Proof. intros Hp Hx. split; [reflexivity|now apply fmt_g_precision]. Qed.

(* ---- instants: the re-entry text of a naive instant is read back by the evaluator's
   instant_from_iso (Model/Instant.v, proved for C17) as the same instant *)
From Ka Require Model.Instant Proofs.InstantProofs.
Local Open Scope string_scope.

Lemma digit_char_same d : isdig d -> digit_char d = Instant.digit_char d.
Proof.
  intro H. destruct (isdig_cases d H) as [E|[E|[E|[E|[E|[E|[E|[E|[E|E]]]]]]]]]; subst d; reflexivity.
Qed.

Lemma pad_same k z : pad k z = Instant.pad k z.
Proof.
  revert z. induction k as [|k IH]; intro z; cbn [pad Instant.pad]; [reflexivity|].
  rewrite IH, digit_char_same; [reflexivity|].
  unfold isdig. pose proof (Z.mod_pos_bound z 10). lia.
Qed.

Lemma iso_text_same y mo d h mi s us :
  iso_text y mo d h mi s us None = Instant.iso_text y mo d h mi s us.
Proof.
  unfold iso_text, Instant.iso_text. rewrite !pad_same, string_app_nil_r. reflexivity.
Qed.

Theorem reentry_instant p y mo d h mi s us :
  Calendar.valid_year y = true -> Calendar.valid_date y mo d = true -> Instant.valid_time h mi s us = true ->
  reentry_text p (VInst y mo d h mi s us None) = "#" ++ Instant.iso_text y mo d h mi s us ++ "#"
  /\ exists i, Instant.instant_from_iso (Instant.iso_text y mo d h mi s us) = Ok i
               /\ Instant.in_range i = true
               /\ Instant.show_instant i = display p false (VInst y mo d h mi s us None).
Proof.
  intros Hy Hd Ht. split.
  - cbn [reentry_text stringify]. now rewrite iso_text_same.
  - destruct (InstantProofs.fields_of_text y mo d h mi s us Hy Hd Ht) as (i & Hi & Hr & _ & _ & _ & _ & _ & _ & Hs).
    exists i. split; [exact Hi|]. split; [exact Hr|]. cbn [display]. rewrite iso_text_same. exact Hs.
Qed.
