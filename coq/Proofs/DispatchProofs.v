From Coq Require Import Arith Lia Permutation.
From Ka Require Import Model.Dispatch.
Local Open Scope nat_scope.

(* ---------- the left-to-right scan finds the unique least element, whatever the order ---------- *)
Lemma nodup_fst_inj {A} (l : list (nat * A)) a b :
  NoDup (map fst l) -> In a l -> In b l -> fst a = fst b -> a = b.
Proof.
  induction l as [|x l IH]; intros ND Ia Ib E; [contradiction|].
  cbn in ND. inversion ND as [|? ? Hn ND']; subst.
  destruct Ia as [->|Ia], Ib as [->|Ib]; auto.
  - exfalso. apply Hn. rewrite E. apply in_map. exact Ib.
  - exfalso. apply Hn. rewrite <- E. apply in_map. exact Ia.
Qed.

Lemma scan_least rest : forall c L,
  NoDup (map fst (c :: rest)) ->
  In L (c :: rest) ->
  (forall m, In m (c :: rest) -> below L m = true) ->
  (forall m, In m (c :: rest) -> below m L = true -> fst m = fst L) ->
  scan c rest = L.
Proof.
  induction rest as [|h r IH]; intros c L ND InL Least Uniq; cbn [scan].
  - destruct InL as [->|[]]. reflexivity.
  - destruct (types_below (snd h) (snd c)) eqn:B.
    + apply IH.
      * cbn in ND |- *. inversion ND; assumption.
      * destruct InL as [<-|InL]; [|exact InL].
        left. apply (nodup_fst_inj (c :: h :: r)); auto; [right; left; reflexivity | left; reflexivity|].
        apply Uniq; [right; left; reflexivity | exact B].
      * intros m Hm. apply Least. right. exact Hm.
      * intros m Hm. apply Uniq. right. exact Hm.
    + apply IH.
      * cbn in ND |- *. inversion ND as [|? ? Hn ND']; subst. inversion ND' as [|? ? Hn' ND'']; subst.
        constructor; [|assumption]. intro X. apply Hn. right. exact X.
      * destruct InL as [<-|[<-|InL]]; [left; reflexivity| |right; exact InL].
        exfalso. assert (below h c = true) by (apply Least; left; reflexivity).
        unfold below in H. congruence.
      * intros m Hm. apply Least. destruct Hm as [<-|Hm]; [left; reflexivity|right; right; exact Hm].
      * intros m Hm. apply Uniq. destruct Hm as [<-|Hm]; [left; reflexivity|right; right; exact Hm].
Qed.

Lemma is_least_spec ms L : is_least ms L = true ->
  (forall m, In m ms -> below L m = true) /\
  (forall m, In m ms -> below m L = true -> fst m = fst L).
Proof.
  unfold is_least. rewrite andb_true_iff, !forallb_forall. intros [A B]. split; [exact A|].
  intros m Hm Hb. specialize (B m Hm). rewrite Hb in B. cbn in B.
  unfold isig_eqb in B. apply Nat.eqb_eq. exact B.
Qed.

Theorem closest_is_least ms L :
  NoDup (map fst ms) -> In L ms -> is_least ms L = true -> closest_match ms = Some L.
Proof.
  intros ND InL HL. destruct (is_least_spec ms L HL) as [A B].
  destruct ms as [|c rest]; [contradiction|]. cbn [closest_match]. f_equal.
  apply scan_least; assumption.
Qed.

Lemma is_least_perm ms ms' L : Permutation ms ms' -> is_least ms L = true -> is_least ms' L = true.
Proof.
  intros P. unfold is_least. rewrite !andb_true_iff, !forallb_forall. intros [A B].
  split; intros m Hm; [apply A|apply B]; eapply Permutation_in; try eassumption; apply Permutation_sym; assumption.
Qed.

Theorem closest_order_independent ms ms' L :
  NoDup (map fst ms) -> Permutation ms ms' -> In L ms -> is_least ms L = true ->
  closest_match ms' = Some L /\ closest_match ms = Some L.
Proof.
  intros ND P InL HL. split.
  - apply closest_is_least.
    + eapply Permutation_NoDup; [apply Permutation_map; exact P|exact ND].
    + eapply Permutation_in; eassumption.
    + eapply is_least_perm; eassumption.
  - apply closest_is_least; assumption.
Qed.

Lemma has_unique_least_spec ms : ms <> [] -> has_unique_least ms = true ->
  exists L, In L ms /\ is_least ms L = true.
Proof.
  intros NE H. destruct ms as [|c r]; [congruence|]. cbn [has_unique_least] in H.
  apply existsb_exists in H. exact H.
Qed.

(* ---------- filter / permutation / index plumbing ---------- *)
Lemma filter_perm {A} (f : A -> bool) l l' : Permutation l l' -> Permutation (filter f l) (filter f l').
Proof.
  induction 1 as [|x l l' P IH|x y l|l l' l'' P1 IH1 P2 IH2]; cbn.
  - constructor.
  - destruct (f x); [constructor|]; assumption.
  - destruct (f x), (f y); try apply Permutation_refl. apply perm_swap.
  - eapply Permutation_trans; eassumption.
Qed.

Lemma index_from_fst {A} (l : list A) i : map fst (index_from i l) = seq i (List.length l).
Proof. revert i; induction l as [|x l IH]; intro i; cbn; [reflexivity|]. rewrite IH. reflexivity. Qed.

Lemma index_from_nodup {A} (l : list A) i : NoDup (map fst (index_from i l)).
Proof. rewrite index_from_fst. apply seq_NoDup. Qed.

Lemma nodup_map_filter {A B} (g : A -> B) (f : A -> bool) l : NoDup (map g l) -> NoDup (map g (filter f l)).
Proof.
  induction l as [|x l IH]; cbn; intro ND; [constructor|].
  inversion ND as [|? ? Hn ND']; subst. destruct (f x); cbn; [|auto].
  constructor; [|auto]. intro X. apply Hn. apply in_map_iff in X. destruct X as (y & E & Iy).
  apply filter_In in Iy. destruct Iy as [Iy _]. rewrite <- E. apply in_map. exact Iy.
Qed.

(* ---------- enumeration of kind tuples is complete ---------- *)
Lemma tuples_complete n ks :
  List.length ks = n -> Forall (fun k => k < nkinds) ks -> In ks (tuples n).
Proof.
  revert ks; induction n as [|n IH]; intros ks L F.
  - destruct ks; [left; reflexivity|discriminate].
  - destruct ks as [|k ks]; [discriminate|]. cbn [tuples]. apply in_flat_map.
    inversion F; subst. exists k. split.
    + apply in_seq. lia.
    + apply in_map. apply IH; [cbn in L; lia|assumption].
Qed.

Lemma tuples_upto_complete n ks :
  List.length ks <= n -> Forall (fun k => k < nkinds) ks -> In ks (tuples_upto n).
Proof.
  induction n as [|n IH]; intros L F.
  - cbn [tuples_upto]. apply tuples_complete; [lia|assumption].
  - cbn [tuples_upto]. apply in_or_app.
    destruct (Nat.eq_dec (List.length ks) (S n)) as [E|E].
    + left. apply tuples_complete; assumption.
    + right. apply IH; [lia|assumption].
Qed.

Lemma assoc_in {A} k (l : list (string * A)) v : assoc k l = Some v -> In (k, v) l.
Proof.
  induction l as [|[k' v'] l IH]; cbn; [discriminate|].
  destruct (String.eqb_spec k k') as [->|N].
  - intro E; injection E as ->. left; reflexivity.
  - intro E. right. apply IH. exact E.
Qed.

(* ---------- lifting the computed registry check ---------- *)
Theorem registry_ok_sound :
  registry_ok = true ->
  forall name sigs ks,
    sigs_of name = Some sigs ->
    List.length ks <= S (max_arity sigs) ->
    Forall (fun k => k < nkinds) ks ->
    has_unique_least (lookup sigs ks) = true.
Proof.
  unfold registry_ok. rewrite forallb_forall. intros R name sigs ks S L F.
  unfold sigs_of in S. destruct (assoc name registry) as [l|] eqn:A; [|discriminate].
  injection S as <-. apply assoc_in in A. specialize (R _ A). cbn [snd] in R.
  unfold name_ok in R. rewrite forallb_forall in R. apply R.
  apply tuples_upto_complete; assumption.
Qed.

(* the per-name statement used by the property file *)
Theorem resolution_order_independent :
  registry_ok = true ->
  forall name sigs sigs' ks,
    sigs_of name = Some sigs ->
    Permutation sigs sigs' ->
    List.length ks <= S (max_arity sigs) ->
    Forall (fun k => k < nkinds) ks ->
    lookup sigs ks <> [] ->
    exists L, In L (lookup sigs ks) /\ is_least (lookup sigs ks) L = true
              /\ closest_match (lookup sigs ks) = Some L
              /\ closest_match (lookup sigs' ks) = Some L.
Proof.
  intros R name sigs sigs' ks S P L F NE.
  pose proof (registry_ok_sound R name sigs ks S L F) as U.
  destruct (has_unique_least_spec _ NE U) as (Lst & InL & HL).
  exists Lst. split; [exact InL|]. split; [exact HL|].
  assert (ND : NoDup (map fst (lookup sigs ks))).
  { unfold lookup. apply nodup_map_filter. unfold sigs_of in S.
    destruct (assoc name registry); [|discriminate]. injection S as <-. apply index_from_nodup. }
  destruct (closest_order_independent (lookup sigs ks) (lookup sigs' ks) Lst ND) as [A B]; auto.
  unfold lookup. apply filter_perm. exact P.
Qed.

(* beyond the largest fixed arity only vararg signatures match *)
Lemma match_pos_length sargs : forall ks rest, match_pos sargs ks = Some rest ->
  List.length ks = List.length sargs + List.length rest.
Proof.
  induction sargs as [|t sargs IH]; intros ks rest H; cbn [match_pos] in H.
  - injection H as <-. reflexivity.
  - destruct ks as [|k ks]; [discriminate|]. destruct (isinst k t); [|discriminate].
    cbn. rewrite (IH _ _ H). reflexivity.
Qed.

Lemma long_tuple_only_vararg s ks :
  List.length (g_args s) < List.length ks -> sig_matches s ks = true -> g_vararg s <> None.
Proof.
  intros L M. unfold sig_matches in M.
  destruct (match_pos (g_args s) ks) as [rest|] eqn:E; [|discriminate].
  destruct rest as [|r rest].
  - apply match_pos_length in E. cbn in E. lia.
  - destruct (g_vararg s); [discriminate|discriminate].
Qed.

(* dispatch decides before any body runs *)
Theorem dispatch_runs_only_when_valid name ks kws impl i :
  dispatch_decision name ks kws = Run impl i ->
  exists sigs s, sigs_of name = Some sigs
    /\ closest_match (lookup sigs ks) = Some (i, s)
    /\ sig_matches s ks = true
    /\ check_kws s kws = None /\ impl = g_impl s.
Proof.
  unfold dispatch_decision. destruct (sigs_of name) as [sigs|] eqn:S; [|discriminate].
  destruct (closest_match (lookup sigs ks)) as [[j s]|] eqn:Cm; [|discriminate].
  destruct (check_kws s kws) eqn:K; [discriminate|].
  intro E; injection E as <- <-. exists sigs, s. repeat split; auto.
  (* the chosen signature is one of the matching ones *)
  assert (In (j, s) (lookup sigs ks)).
  { destruct (lookup sigs ks) as [|c r] eqn:Lk; [discriminate|]. cbn in Cm. injection Cm as Cm.
    clear Lk. revert c Cm. induction r as [|h r IH]; intros c Cm; cbn in Cm.
    - left. exact Cm.
    - destruct (types_below (snd h) (snd c)).
      + destruct (IH h Cm) as [->|X]; [right; left; reflexivity|right; right; exact X].
      + destruct (IH c Cm) as [->|X]; [left; reflexivity|right; right; exact X]. }
  unfold lookup in H. apply filter_In in H. destruct H as [_ H]. exact H.
Qed.

Lemma check_kws_none s kws : check_kws s kws = None ->
  forall k vk, In (k, vk) kws -> exists t, assoc k (g_kws s) = Some t /\ isinst vk t = true.
Proof.
  induction kws as [|[k0 v0] r IH]; intros H k vk I; [contradiction|].
  cbn [check_kws] in H. destruct (assoc k0 (g_kws s)) as [t|] eqn:A; [|discriminate].
  destruct (isinst v0 t) eqn:T; [|discriminate].
  destruct I as [E|I]; [injection E as <- <-; exists t; auto|apply IH; assumption].
Qed.

(* ---------- tuples of any length ---------- *)
Lemma filter_length_le {A} (f g : A -> bool) l :
  (forall x, In x l -> f x = true -> g x = true) ->
  List.length (filter f l) <= List.length (filter g l).
Proof.
  induction l as [|x l IH]; intro H; cbn; [lia|].
  assert (IH' : List.length (filter f l) <= List.length (filter g l)).
  { apply IH. intros y Hy. apply H. right. exact Hy. }
  destruct (f x) eqn:Fx.
  - rewrite (H x (or_introl eq_refl) Fx). cbn. lia.
  - destruct (g x); cbn; lia.
Qed.

Lemma long_lookup_small sigs ks :
  vararg_count sigs <= 1 -> max_arity sigs < List.length ks -> List.length (lookup sigs ks) <= 1.
Proof.
  intros V L. unfold vararg_count in V. unfold lookup.
  eapply Nat.le_trans; [|exact V]. apply filter_length_le.
  intros s Hs M.
  assert (A : List.length (g_args (snd s)) <= max_arity sigs).
  { clear -Hs. unfold max_arity. induction sigs as [|x r IH]; [contradiction|]. cbn [fold_right].
    destruct Hs as [->|Hs]; [apply Nat.le_max_l|].
    eapply Nat.le_trans; [apply (IH Hs)|apply Nat.le_max_r]. }
  pose proof (long_tuple_only_vararg (snd s) ks ltac:(lia) M) as NV.
  destruct (g_vararg (snd s)); [reflexivity|congruence].
Qed.

Lemma perm_small {A} (l l' : list A) : Permutation l l' -> List.length l <= 1 -> l = l'.
Proof.
  intros P L. destruct l as [|a [|b r]]; cbn in L; try lia.
  - apply Permutation_nil in P. congruence.
  - apply Permutation_length_1_inv in P. congruence.
Qed.

Theorem resolution_order_independent_all :
  registry_ok = true -> varargs_ok = true ->
  forall name sigs sigs' ks,
    sigs_of name = Some sigs ->
    Permutation sigs sigs' ->
    Forall (fun k => k < nkinds) ks ->
    closest_match (lookup sigs' ks) = closest_match (lookup sigs ks).
Proof.
  intros R V name sigs sigs' ks S P F.
  assert (PL : Permutation (lookup sigs ks) (lookup sigs' ks)) by (apply filter_perm; exact P).
  destruct (le_lt_dec (List.length ks) (Datatypes.S (max_arity sigs))) as [L|L].
  - destruct (lookup sigs ks) as [|c r] eqn:E.
    + apply Permutation_nil in PL. rewrite PL. reflexivity.
    + assert (NE : lookup sigs ks <> []) by (rewrite E; discriminate).
      destruct (resolution_order_independent R name sigs sigs' ks S P L F NE) as (Lst & _ & _ & A & B).
      rewrite B. rewrite <- E. rewrite A. reflexivity.
  - assert (VC : vararg_count sigs <= 1).
    { unfold varargs_ok in V. rewrite forallb_forall in V. unfold sigs_of in S.
      destruct (assoc name registry) as [l|] eqn:A; [|discriminate]. injection S as <-.
      apply assoc_in in A. specialize (V _ A). cbn [snd] in V. apply Nat.leb_le. exact V. }
    rewrite (perm_small _ _ PL); [reflexivity|]. apply long_lookup_small; [exact VC|lia].
Qed.
