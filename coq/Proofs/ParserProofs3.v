(* ParserProofs3.v — C02, part 3: statements and programs; parse (print p) = desugar p. *)
From Coq Require Import Lia List Arith Bool.
From Ka Require Import Model.Parser Model.Printer Proofs.ParserProofs Proofs.ParserProofs2.
Local Open Scope nat_scope.

Definition stmt_expr (st : stmt) : sst := match st with StExpr e | StAssign _ e => e end.
Notation covered_stmt := wf_stmt (only parsing).
Notation covered_prog := wf_prog (only parsing).

Lemma wf_stmt_expr st : wf_stmt st = wf (stmt_expr st).
Proof. destruct st; reflexivity. Qed.

Lemma raw_nonempty m s : covered s = true -> exists t r, raw m s = t :: r.
Proof.
  intros C. destruct (raw m s) as [|t r] eqn:E; [|eauto].
  pose proof (size_le_raw m s C) as H. rewrite E in H. destruct s; simpl in H; lia.
Qed.

(* the statement dispatch does not see an assignment where the printer did not put one *)
Lemma p_statement_expr pe ts rest :
  starts_var_with is_assign ts = false -> ts <> [] ->
  match rest with KAssign :: _ => False | _ => True end ->
  p_statement pe (ts ++ rest) = p_expr pe (ts ++ rest).
Proof.
  intros H NE R. destruct ts as [|t r]; [congruence|].
  destruct t; try reflexivity.
  destruct r as [|t' r']; simpl.
  - destruct rest as [|t'' r'']; [reflexivity|]. destruct t''; try reflexivity. contradiction.
  - simpl in H. destruct t'; try reflexivity. discriminate.
Qed.

Definition stmt_follow (rest : list tok) : Prop :=
  match rest with [] => True | KSemi :: _ => True | _ => False end.

Lemma stmt_follow_10 rest : stmt_follow rest -> follow 10 rest.
Proof. destruct rest as [|t r]; simpl; [tauto|]. destruct t; simpl; try tauto. lia. Qed.

Lemma statement_ok m ef st rest :
  covered_stmt st = true -> size (stmt_expr st) <= ef -> stmt_follow rest ->
  p_statement (parse_expression ef) (pr_stmt m st ++ rest) = POk (desugar_stmt st, rest).
Proof.
  intros C Hsz F. pose proof (stmt_follow_10 rest F) as F10.
  destruct st as [e|x e]; simpl in C, Hsz.
  - simpl pr_stmt. unfold guard.
    destruct (starts_var_with is_assign (raw m e)) eqn:G.
    + unfold parens.
      change ((KLP :: raw m e ++ [KRP]) ++ rest) with (raw m (SParen e) ++ rest).
      assert (HP : forall ts, p_statement (parse_expression ef) (KLP :: ts) = parse_expression (S ef) (KLP :: ts))
        by reflexivity.
      change (raw m (SParen e) ++ rest) with (KLP :: (raw m e ++ [KRP]) ++ rest) at 1.
      rewrite HP. change (KLP :: (raw m e ++ [KRP]) ++ rest) with (raw m (SParen e) ++ rest).
      apply (parse_expression_ok m (S ef) (SParen e)); [exact C|simpl; lia|exact F10].
    + unfold parens. rewrite p_statement_expr; [|exact G| |].
      * change (p_expr (parse_expression ef)) with (parse_expression (S ef)).
        apply parse_expression_ok; [exact C|lia|exact F10].
      * destruct (raw_nonempty m e C) as (t & r & ->). congruence.
      * destruct rest as [|t r]; [exact I|]. destruct t; simpl in F; try contradiction; exact I.
  - simpl. change (p_expr (parse_expression ef)) with (parse_expression (S ef)).
    rewrite (parse_expression_ok m (S ef) e C); [reflexivity|lia|exact F10].
Qed.

Lemma pr_stmt_nonempty m st : covered_stmt st = true -> exists t r, pr_stmt m st = t :: r.
Proof.
  intros C. destruct st as [e|x e]; simpl; [|eauto].
  unfold guard. destruct (starts_var_with is_assign (raw m e)); simpl; [eauto|].
  apply raw_nonempty. exact C.
Qed.

Lemma stmts_loop_cons ef f ts : ts <> [] ->
  stmts_loop ef (S f) ts =
  dop (s, ts1) <- p_statement (parse_expression ef) ts;
  match ts1 with
  | [] => POk [s]
  | KSemi :: ts2 => dop l <- stmts_loop ef f ts2; POk (s :: l)
  | _ => err ts1
  end.
Proof. destruct ts; [congruence|reflexivity]. Qed.

Lemma stmts_ok m ef : forall p fuel,
  covered_prog p = true ->
  Forall (fun st => size (stmt_expr st) <= ef) p ->
  List.length (print_prog m p) < fuel ->
  stmts_loop ef fuel (print_prog m p) = POk (map desugar_stmt p).
Proof.
  induction p as [|st p IH]; intros fuel C Hsz Hf.
  - destruct fuel; [simpl in Hf; lia|]. reflexivity.
  - simpl in C. apply andb_true_iff in C. destruct C as [C1 C2].
    inversion Hsz as [|? ? Hs1 Hs2]; subst.
    destruct fuel as [|f]; [lia|].
    destruct (pr_stmt_nonempty m st C1) as (t & r & Et).
    assert (NE : forall k, pr_stmt m st ++ k <> []) by (intros k; rewrite Et; discriminate).
    destruct p as [|st' p'].
    + unfold print_prog in *. simpl join in *.
      rewrite <- (app_nil_r (pr_stmt m st)).
      rewrite stmts_loop_cons; [|apply NE].
      rewrite (statement_ok m ef st [] C1 Hs1 I). reflexivity.
    + unfold print_prog in *.
      change (join KSemi (map (pr_stmt m) (st :: st' :: p')))
        with (pr_stmt m st ++ KSemi :: join KSemi (map (pr_stmt m) (st' :: p'))) in *.
      rewrite stmts_loop_cons; [|apply NE].
      rewrite (statement_ok m ef st (KSemi :: _) C1 Hs1 I). cbn [pbind].
      rewrite (IH f C2 Hs2); [reflexivity|].
      rewrite app_length in Hf. simpl in Hf |- *. lia.
Qed.

Lemma length_join_ge sep x l : In x l -> List.length x <= List.length (join sep l).
Proof.
  induction l as [|y l IH]; intros H; [contradiction|].
  destruct H as [->|H].
  - clear IH. destruct l; simpl; [apply Nat.le_refl|]. rewrite app_length. apply Nat.le_add_r.
  - specialize (IH H). destruct l as [|z l']; [contradiction|].
    change (join sep (y :: z :: l')) with (y ++ sep :: join sep (z :: l')).
    rewrite app_length. change (List.length (sep :: join sep (z :: l'))) with (S (List.length (join sep (z :: l')))).
    clear H. lia.
Qed.

Lemma size_le_pr_stmt m st : covered_stmt st = true -> size (stmt_expr st) <= List.length (pr_stmt m st).
Proof.
  intros C. rewrite wf_stmt_expr in C. pose proof (size_le_raw m (stmt_expr st) C) as H.
  destruct st as [e|x e]; simpl in *; [|lia].
  unfold guard. destruct (starts_var_with is_assign (raw m e)); simpl; rewrite ?app_length; simpl; lia.
Qed.

(* THE ROUND TRIP for programs of the proved fragment, in either printing mode *)
Theorem roundtrip m p : covered_prog p = true -> parse (print_prog m p) = Ok (desugar_prog p).
Proof.
  intros C. unfold parse, parse_idx, parse_with.
  rewrite (stmts_ok m (List.length (print_prog m p)) p _ C); [reflexivity| |lia].
  apply Forall_forall. intros st Hin.
  assert (Cst : covered_stmt st = true).
  { unfold wf_prog in C. rewrite forallb_forall in C. apply C. exact Hin. }
  pose proof (size_le_pr_stmt m st Cst) as H1.
  pose proof (length_join_ge KSemi (pr_stmt m st) (map (pr_stmt m) p) (in_map _ _ _ Hin)) as H2.
  unfold print_prog. lia.
Qed.

(* ------------------------------------------------------------------ redundant parentheses *)
Fixpoint strip (s : sst) : sst :=
  match s with
  | SParen e => strip e
  | SSign neg e => SSign neg (strip e)
  | SFact e => SFact (strip e)
  | SBin o a b => SBin o (strip a) (strip b)
  | SRange a b => SRange (strip a) (strip b)
  | SInterval a b => SInterval (strip a) (strip b)
  | SCall f args kw => SCall f (map strip args) (map (fun p => (fst p, strip (snd p))) kw)
  | SArr l => SArr (map strip l)
  | SCompr body cl => SCompr (strip body) (map (fun c => (fst c, strip (snd c))) cl)
  | SQty e u => SQty (strip e) u
  | SConv e u => SConv (strip e) u
  | SCmp1 o a b => SCmp1 o (strip a) (strip b)
  | SCmp2 o1 o2 a b c => SCmp2 o1 o2 (strip a) (strip b) (strip c)
  | s => s
  end.

Definition strip_stmt (st : stmt) : stmt :=
  match st with StExpr e => StExpr (strip e) | StAssign x e => StAssign x (strip e) end.

Lemma flat_map_ext_in' {A B} (f g : A -> list B) l :
  (forall a, In a l -> f a = g a) -> flat_map f l = flat_map g l.
Proof.
  induction l as [|x l IH]; intros H; simpl; [reflexivity|].
  rewrite (H x (or_introl eq_refl)), IH; [reflexivity|]. intros a Ha. apply H. right. exact Ha.
Qed.

Lemma flat_map_map' {A B C} (f : B -> list C) (g : A -> B) l :
  flat_map f (map g l) = flat_map (fun x => f (g x)) l.
Proof. induction l as [|x l IH]; simpl; [reflexivity|]. rewrite IH. reflexivity. Qed.

Lemma strip_desugar : forall s, covered s = true -> desugar (strip s) = desugar s.
Proof.
  apply (sst_size_ind (fun s => covered s = true -> desugar (strip s) = desugar s)).
  intros s IH C.
  destruct s; simpl in C |- *; try reflexivity.
  - apply IH; [simpl; lia|exact C].
  - rewrite IH; [reflexivity|simpl; lia|exact C].
  - rewrite IH; [reflexivity|simpl; lia|exact C].
  - apply andb_true_iff in C. destruct C as [C1 C2].
    rewrite (IH s1), (IH s2); [reflexivity|simpl; lia|exact C2|simpl; lia|exact C1].
  - apply andb_true_iff in C. destruct C as [C1 C2].
    rewrite (IH s1), (IH s2); [reflexivity|simpl; lia|exact C2|simpl; lia|exact C1].
  - apply andb_true_iff in C. destruct C as [C1 C2].
    rewrite (IH s1), (IH s2); [reflexivity|simpl; lia|exact C2|simpl; lia|exact C1].
  - (* SCall *)
    apply andb_true_iff in C. destruct C as [C1 C2]. rewrite !map_map. f_equal.
    + apply map_ext_in. intros x Hx. apply IH; [pose proof (size_in args x Hx); simpl; lia|].
      rewrite forallb_forall in C1. apply C1. exact Hx.
    + apply map_ext_in. intros p Hp. simpl. f_equal.
      apply IH; [pose proof (size_in_snd kw p Hp); simpl; lia|].
      rewrite forallb_forall in C2. apply (C2 p Hp).
  - (* SArr *)
    rewrite map_map. f_equal. apply map_ext_in. intros x Hx.
    apply IH; [pose proof (size_in l x Hx); simpl; lia|].
    rewrite forallb_forall in C. apply C. exact Hx.
  - (* SCompr *)
    apply andb_true_iff in C. destruct C as [C C3]. apply andb_true_iff in C. destruct C as [C1 C2].
    assert (G : forall c, In c cl -> desugar (strip (snd c)) = desugar (snd c)).
    { intros c Hc. apply IH; [pose proof (size_in_snd cl c Hc); simpl; lia|].
      rewrite forallb_forall in C3. apply (C3 c Hc). }
    rewrite (IH s); [|simpl; lia|exact C1]. rewrite !flat_map_map'. f_equal.
    + apply flat_map_ext_in'. intros c Hc. simpl. rewrite (G c Hc). reflexivity.
    + apply flat_map_ext_in'. intros c Hc. simpl. rewrite (G c Hc). reflexivity.
  - apply andb_true_iff in C. destruct C as [C1 C2]. rewrite IH; [reflexivity|simpl; lia|exact C1].
  - apply andb_true_iff in C. destruct C as [C1 C2]. rewrite IH; [reflexivity|simpl; lia|exact C1].
  - apply andb_true_iff in C. destruct C as [C1 C2].
    rewrite (IH s1), (IH s2); [reflexivity|simpl; lia|exact C2|simpl; lia|exact C1].
  - apply andb_true_iff in C. destruct C as [C C3]. apply andb_true_iff in C. destruct C as [C1 C2].
    rewrite (IH s1), (IH s2), (IH s3); [reflexivity|simpl; lia|exact C3|simpl; lia|exact C2|simpl; lia|exact C1].
Qed.

Lemma strip_desugar_prog p : covered_prog p = true ->
  desugar_prog (map strip_stmt p) = desugar_prog p.
Proof.
  unfold desugar_prog, wf_prog. intros C. f_equal. rewrite map_map. apply map_ext_in.
  intros st Hin. rewrite forallb_forall in C. specialize (C st Hin).
  destruct st; simpl in *; rewrite strip_desugar; auto.
Qed.

(* programs that differ only in parenthesis nodes have the same parse *)
Lemma redundant_parens m p p' :
  covered_prog p = true -> covered_prog p' = true ->
  map strip_stmt p' = map strip_stmt p ->
  parse (print_prog m p') = parse (print_prog m p).
Proof.
  intros C C' E. rewrite (roundtrip m p C), (roundtrip m p' C').
  rewrite <- (strip_desugar_prog p C), <- (strip_desugar_prog p' C'), E. reflexivity.
Qed.

Lemma min_equals_full p : covered_prog p = true -> parse (print_min p) = parse (print_full p).
Proof. intros C. unfold print_min, print_full. rewrite !roundtrip; auto. Qed.

Lemma same_value (V : Type) (eval : ptree -> V) p : covered_prog p = true ->
  exists t, parse (print_min p) = Ok t /\ parse (print_full p) = Ok t /\
            forall t1 t2, parse (print_min p) = Ok t1 -> parse (print_full p) = Ok t2 -> eval t1 = eval t2.
Proof.
  intros C. exists (desugar_prog p). unfold print_min, print_full. rewrite !roundtrip by exact C.
  repeat split. intros t1 t2 H1 H2. congruence.
Qed.

(* the printer is minimal for associativity: a left-nested operand of the same level is not
   parenthesised, a right-nested one is *)
Lemma left_nested_text o o' a b c :
  binlevel_of o' = binlevel_of o -> ends_units (SBin o' a b) = false ->
  raw Min (SBin o (SBin o' a b) c)
  = raw Min (SBin o' a b) ++ tok_of_bin o :: pr Min (pred (binlevel_of o)) false c.
Proof.
  intros HL HE. change (raw Min (SBin o (SBin o' a b) c))
    with (parens (wrap Min (binlevel_of o) (match o with BPow => true | _ => false end) (SBin o' a b)) (raw Min (SBin o' a b))
          ++ tok_of_bin o :: pr Min (pred (binlevel_of o)) false c).
  replace (wrap Min (binlevel_of o) (match o with BPow => true | _ => false end) (SBin o' a b)) with false; [reflexivity|].
  unfold wrap. rewrite HE, andb_false_r, orb_false_r.
  replace (level (SBin o' a b)) with (binlevel_of o') by (destruct o'; reflexivity).
  rewrite HL, Nat.leb_refl. reflexivity.
Qed.

Lemma right_nested_text o o' a b c :
  binlevel_of o' = binlevel_of o ->
  raw Min (SBin o a (SBin o' b c))
  = pr Min (binlevel_of o) (match o with BPow => true | _ => false end) a
    ++ tok_of_bin o :: KLP :: raw Min (SBin o' b c) ++ [KRP].
Proof.
  intros HL. change (raw Min (SBin o a (SBin o' b c)))
    with (pr Min (binlevel_of o) (match o with BPow => true | _ => false end) a
          ++ tok_of_bin o :: parens (wrap Min (pred (binlevel_of o)) false (SBin o' b c)) (raw Min (SBin o' b c))).
  replace (wrap Min (pred (binlevel_of o)) false (SBin o' b c)) with true; [reflexivity|].
  unfold wrap. replace (level (SBin o' b c)) with (binlevel_of o') by (destruct o'; reflexivity).
  rewrite HL. destruct o; reflexivity.
Qed.
