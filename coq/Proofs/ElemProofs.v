(* ElemProofs.v — proofs about Model/Elem.v (property C16): rounding laws for every
   numeric kind and through the quantity wrapper, domain guards, exact powers, the
   external calls stay inside their real domain, nothing non-finite is delivered. *)
From Coq Require Import Qround Qpower Qabs Lia Lqa.
From Ka Require Import Model.Elem Proofs.NumProofs.

(* ---------- boolean comparisons ---------- *)
Lemma Qltb_true a b : Qltb a b = true <-> a < b.
Proof. unfold Qltb. rewrite Qlt_alt. destruct (a ?= b); split; congruence. Qed.
Lemma Qltb_false a b : Qltb a b = false <-> b <= a.
Proof.
  split; intro H.
  - apply Qnot_lt_le. intro L. apply Qltb_true in L. congruence.
  - destruct (Qltb a b) eqn:E; [|reflexivity]. apply Qltb_true in E.
    exfalso. exact (Qlt_not_le _ _ E H).
Qed.
Lemma Qleb_true a b : Qleb a b = true <-> a <= b.
Proof. unfold Qleb. rewrite Qle_alt. destruct (a ?= b); split; congruence. Qed.
Lemma Qleb_false a b : Qleb a b = false <-> b < a.
Proof.
  split; intro H.
  - apply Qnot_le_lt. intro L. apply Qleb_true in L. congruence.
  - destruct (Qleb a b) eqn:E; [|reflexivity]. apply Qleb_true in E.
    exfalso. exact (Qlt_not_le _ _ H E).
Qed.
Lemma Qeqb_true a b : Qeqb a b = true <-> a == b.
Proof. unfold Qeqb. rewrite Qeq_alt. destruct (a ?= b); split; congruence. Qed.
Lemma Qeqb_false a b : Qeqb a b = false <-> ~ a == b.
Proof.
  split; intro H.
  - intro E. apply Qeqb_true in E. congruence.
  - destruct (Qeqb a b) eqn:E; [|reflexivity]. apply Qeqb_true in E. contradiction.
Qed.

(* ---------- constants ---------- *)
Lemma dbl_ovf_pos : 0 < dbl_ovf.
Proof. vm_compute. reflexivity. Qed.
Lemma float_e_pos : 0 < float_e.
Proof. vm_compute. reflexivity. Qed.
Lemma float_e_not_1 : ~ float_e == 1.
Proof. vm_compute. discriminate. Qed.

(* ---------- simplify_number ---------- *)
Lemma toQ_simpf q : toQ (simpf q) == q.
Proof.
  unfold simpf. pose proof (Qred_correct q) as H.
  destruct (Pos.eqb_spec (Qden (Qred q)) 1) as [E|E]; cbn [toQ]; [|exact H].
  rewrite (inject_Z_den1 _ E). exact H.
Qed.

Lemma simp_norm q : simp (norm q) = norm q.
Proof.
  unfold norm. destruct (Pos.eqb_spec (Qden (Qred q)) 1) as [E|E]; cbn [simp]; [reflexivity|].
  unfold norm. rewrite (Qred_complete _ _ (Qred_correct q)).
  destruct (Pos.eqb_spec (Qden (Qred q)) 1); [contradiction|reflexivity].
Qed.

Lemma toQ_simp n : toQ (simp n) == toQ n.
Proof. destruct n as [z|q|q]; cbn [simp toQ]; [reflexivity|apply toQ_norm|apply toQ_simpf]. Qed.

Lemma simp_canonical n : canonical (simp n).
Proof. destruct n as [z|q|q]; cbn [simp]; [exact I|apply canonical_norm|]. unfold simpf.
  destruct (Qden (Qred q) =? 1)%positive; exact I. Qed.

Lemma simp_exact n : exact n -> exact (simp n).
Proof. destruct n as [z|q|q]; intro E; try discriminate; cbn [simp]; [reflexivity|apply exact_norm]. Qed.

(* ---------- the four rounding laws on rationals ---------- *)
Lemma ceil_law x : inject_Z (Qceiling x) - 1 < x /\ x <= inject_Z (Qceiling x).
Proof.
  split; [|apply Qle_ceiling]. pose proof (Qceiling_lt x) as H.
  rewrite iZ_minus in H. exact H.
Qed.

Lemma round_law x :
  Qabs (inject_Z (Qround_half_even x) - x) <= 1 # 2 /\
  (Qabs (inject_Z (Qround_half_even x) - x) == 1 # 2 -> Z.even (Qround_half_even x) = true).
Proof.
  unfold Qround_half_even. destruct (Qfloor_bounds x) as [L U].
  set (f := Qfloor x) in *.
  destruct (Qcompare_spec (x - inject_Z f) (1 # 2)) as [E|E|E].
  - destruct (Z.even f) eqn:P.
    + assert (A : inject_Z f - x == - (1 # 2)) by lra.
      rewrite A. split; [unfold Qle; cbn; lia | intros _; exact P].
    + assert (A : inject_Z (f + 1) - x == 1 # 2) by (rewrite iZ_plus; change (inject_Z 1) with 1; lra).
      rewrite A. split; [unfold Qle; cbn; lia|]. intros _.
      rewrite Z.add_1_r, Z.even_succ, <- Z.negb_even, P. reflexivity.
  - assert (A : Qabs (inject_Z f - x) == x - inject_Z f).
    { rewrite Qabs_neg by lra. lra. }
    rewrite A. split; [lra|]. intro B. lra.
  - assert (A : Qabs (inject_Z (f + 1) - x) == inject_Z f + 1 - x).
    { rewrite iZ_plus. change (inject_Z 1) with 1. rewrite Qabs_pos by lra. lra. }
    rewrite A. split; [lra|]. intro B. lra.
Qed.

Lemma quot_bounds n d : (0 < d)%Z ->
  (Z.abs (Z.quot n d) * d <= Z.abs n)%Z /\ (Z.abs n < (Z.abs (Z.quot n d) + 1) * d)%Z /\
  ((0 <= n)%Z -> (0 <= Z.quot n d)%Z) /\ ((n <= 0)%Z -> (Z.quot n d <= 0)%Z).
Proof.
  intro Hd. destruct (Z.le_gt_cases 0 n) as [Hn|Hn].
  - rewrite (Z.quot_div_nonneg n d) by lia.
    pose proof (Z.div_mod n d ltac:(lia)) as E. pose proof (Z.mod_pos_bound n d Hd) as B.
    assert (0 <= n / d)%Z by (apply Z.div_pos; lia).
    repeat split; nia.
  - assert (Q : Z.quot n d = (- ((- n) / d))%Z).
    { rewrite <- (Z.quot_div_nonneg (- n) d) by lia. rewrite (Z.quot_opp_l n d) by lia. lia. }
    rewrite Q.
    pose proof (Z.div_mod (- n) d ltac:(lia)) as E. pose proof (Z.mod_pos_bound (- n) d Hd) as B.
    assert (0 <= - n / d)%Z by (apply Z.div_pos; lia).
    set (k := (- n / d)%Z) in *. set (r := (- n mod d)%Z) in *.
    repeat split; nia.
Qed.

Lemma trunc_law_raw y :
  Qabs (inject_Z (Qtrunc y)) <= Qabs y /\ Qabs y < Qabs (inject_Z (Qtrunc y)) + 1 /\
  (0 <= y -> (0 <= Qtrunc y)%Z) /\ (y <= 0 -> (Qtrunc y <= 0)%Z).
Proof.
  destruct y as [n d]. unfold Qtrunc. cbn [Qnum Qden].
  destruct (quot_bounds n (Zpos d) ltac:(lia)) as (A & B & C & D).
  set (z := Z.quot n (Zpos d)) in *.
  unfold Qabs, inject_Z, Qle, Qlt, Qplus. cbn [Qnum Qden].
  repeat split; try lia.
Qed.

Lemma trunc_law x :
  Qabs (inject_Z (Qtrunc (Qred x))) <= Qabs x /\ Qabs x < Qabs (inject_Z (Qtrunc (Qred x))) + 1 /\
  (0 <= x -> (0 <= Qtrunc (Qred x))%Z) /\ (x <= 0 -> (Qtrunc (Qred x) <= 0)%Z).
Proof.
  destruct (trunc_law_raw (Qred x)) as (A & B & C & D).
  pose proof (Qred_correct x) as R.
  set (z := Qtrunc (Qred x)) in *.
  rewrite R in A, B. repeat split; try assumption.
  - intro H. apply C. rewrite R. exact H.
  - intro H. apply D. rewrite R. exact H.
Qed.

(* ---------- dispatch plumbing ---------- *)
Section WithLibm.
Variable ext : call -> fval.

Lemma elem1_dispatch g a x : arg_value a = Ok x ->
  elem ext (E1 g) [a] = emap (wrapv (arg_wrap a)) (deliver ext (plan1 g x)).
Proof. intro H. unfold elem, eplan. rewrite H. reflexivity. Qed.

Lemma elem_log_dispatch c1 c2 x b : coerce c1 = Ok x -> coerce c2 = Ok b ->
  elem ext ELog [AN c1; AN c2] = emap VN (deliver ext (plan_log x b)).
Proof. intros H1 H2. unfold elem, eplan. rewrite H1, H2. reflexivity. Qed.

Lemma elem_pow_dispatch c1 c2 x y : coerce c1 = Ok x -> coerce c2 = Ok y ->
  elem ext EPow [AN c1; AN c2] = emap VN (deliver ext (plan_pow x y)).
Proof. intros H1 H2. unfold elem, eplan. rewrite H1, H2. reflexivity. Qed.

(* ---------- floor ceil round int ---------- *)
Theorem floor_spec a x : arg_value a = Ok x ->
  exists z, elem ext (E1 FFloor) [a] = EVal (wrapv (arg_wrap a) (NInt z))
            /\ inject_Z z <= toQ x /\ toQ x < inject_Z z + 1.
Proof.
  intro H. exists (Qfloor (toQ x)). rewrite (elem1_dispatch _ _ _ H).
  split; [reflexivity|]. apply Qfloor_bounds.
Qed.

Theorem ceil_spec a x : arg_value a = Ok x ->
  exists z, elem ext (E1 FCeil) [a] = EVal (wrapv (arg_wrap a) (NInt z))
            /\ inject_Z z - 1 < toQ x /\ toQ x <= inject_Z z.
Proof.
  intro H. exists (Qceiling (toQ x)). rewrite (elem1_dispatch _ _ _ H).
  split; [reflexivity|]. apply ceil_law.
Qed.

Theorem round_spec a x : arg_value a = Ok x ->
  exists z, elem ext (E1 FRound) [a] = EVal (wrapv (arg_wrap a) (NInt z))
            /\ Qabs (inject_Z z - toQ x) <= 1 # 2
            /\ (Qabs (inject_Z z - toQ x) == 1 # 2 -> Z.even z = true).
Proof.
  intro H. exists (Qround_half_even (toQ x)). rewrite (elem1_dispatch _ _ _ H).
  split; [reflexivity|]. apply round_law.
Qed.

Theorem int_spec a x : arg_value a = Ok x ->
  exists z, elem ext (E1 FInt) [a] = EVal (wrapv (arg_wrap a) (NInt z))
            /\ Qabs (inject_Z z) <= Qabs (toQ x) /\ Qabs (toQ x) < Qabs (inject_Z z) + 1
            /\ (0 <= toQ x -> (0 <= z)%Z) /\ (toQ x <= 0 -> (z <= 0)%Z).
Proof.
  intro H. exists (Qtrunc (Qred (toQ x))). rewrite (elem1_dispatch _ _ _ H).
  split; [reflexivity|]. apply trunc_law.
Qed.

(* abs and float: exact on the idealised value *)
Theorem abs_spec a x : arg_value a = Ok x ->
  exists v, elem ext (E1 FAbs) [a] = EVal (wrapv (arg_wrap a) v)
            /\ toQ v == Qabs (toQ x) /\ (exact x -> exact v) /\ canonical v.
Proof.
  intro H. exists (simp (abs_num x)). rewrite (elem1_dispatch _ _ _ H).
  split; [reflexivity|]. split; [|split].
  - rewrite toQ_simp. destruct x; cbn [abs_num toQ]; try reflexivity.
  - intro E. apply simp_exact. destruct x; try discriminate; reflexivity.
  - apply simp_canonical.
Qed.

(* ---------- conversions to a double ---------- *)
Lemma to_dbl_ok q : Qabs q < dbl_ovf -> to_dbl q = Ok q.
Proof. intro H. unfold to_dbl. apply Qleb_false in H. rewrite H. reflexivity. Qed.
Lemma to_dbl_inv q r : to_dbl q = Ok r -> r = q.
Proof. unfold to_dbl. destruct (Qleb dbl_ovf (Qabs q)); congruence. Qed.
Lemma to_dbl_cases q :
  to_dbl q = Ok q \/ (to_dbl q = Raise OverflowError /\ dbl_ovf <= Qabs q).
Proof.
  unfold to_dbl. destruct (Qleb dbl_ovf (Qabs q)) eqn:E; [right|left; reflexivity].
  split; [reflexivity|]. apply Qleb_true. exact E.
Qed.

Lemma conv_ok n : dbl_ok n -> conv n = Ok (toQ n).
Proof.
  intros [F|B]; destruct n as [z|q|q]; try discriminate; cbn [conv toQ]; try reflexivity;
    apply to_dbl_ok; exact B.
Qed.
Lemma conv_inv n q : conv n = Ok q -> q = toQ n.
Proof.
  destruct n as [z|p|p]; cbn [conv toQ]; intro H; try (apply to_dbl_inv in H; exact H).
  congruence.
Qed.
Lemma conv_cases n :
  conv n = Ok (toQ n) \/ (conv n = Raise OverflowError /\ is_flt n = false /\ dbl_ovf <= Qabs (toQ n)).
Proof.
  destruct n as [z|p|p]; cbn [conv toQ is_flt]; [| |left; reflexivity];
    (destruct (to_dbl_cases (toQ (NInt z))) as [C|[C B]] || destruct (to_dbl_cases p) as [C|[C B]]);
    cbn [toQ] in *; rewrite C; auto.
Qed.
Lemma conv_overflow n : is_flt n = false -> dbl_ovf <= Qabs (toQ n) -> conv n = Raise OverflowError.
Proof.
  intros F B. destruct n as [z|p|p]; try discriminate; cbn [conv toQ] in *; unfold to_dbl;
    apply Qleb_true in B; rewrite B; reflexivity.
Qed.

Lemma log_conv_ok n : log_ok n -> log_conv n = Ok (toQ n).
Proof.
  destruct n as [z|p|p]; cbn [log_ok log_conv toQ]; try reflexivity.
  intros [U B]. rewrite U. apply to_dbl_ok. exact B.
Qed.
Lemma log_conv_inv n q : log_conv n = Ok q -> q = toQ n.
Proof.
  destruct n as [z|p|p]; cbn [log_conv toQ]; intro H; try congruence.
  destruct (underflows p); [discriminate|]. apply to_dbl_inv in H. exact H.
Qed.
Lemma log_conv_err n e : log_conv n = Raise e -> e = KaRuntimeError \/ e = OverflowError.
Proof.
  destruct n as [z|p|p]; cbn [log_conv]; intro H; try discriminate.
  destruct (underflows p); [left; congruence|].
  destruct (to_dbl_cases p) as [C|[C _]]; rewrite C in H; [discriminate|right; congruence].
Qed.

(* ---------- guards: outside the domain ---------- *)
Lemma sqrt_rejected n : toQ n < 0 -> plan1 FSqrt n = PRaise KaRuntimeError.
Proof. intro H. cbn [plan1]. apply Qltb_true in H. rewrite H. reflexivity. Qed.

Lemma log_rejected x b :
  toQ x <= 0 \/ toQ b <= 0 \/ toQ b == 1 -> plan_log x b = PRaise KaRuntimeError.
Proof.
  intro H. unfold plan_log. destruct (Qleb (toQ x) 0) eqn:E1; [reflexivity|].
  destruct H as [H|[H|H]].
  - apply Qleb_true in H. congruence.
  - apply Qleb_true in H. rewrite H. reflexivity.
  - apply Qeqb_true in H. rewrite H, Bool.orb_true_r. reflexivity.
Qed.

Lemma log1_rejected g n :
  In g [FLn; FLog2; FLog10] -> toQ n <= 0 -> plan1 g n = PRaise KaRuntimeError.
Proof.
  intros G H. destruct G as [<-|[<-|[<-|[]]]]; cbn [plan1]; apply log_rejected; left; exact H.
Qed.

Lemma pow_neg_frac_rejected x y :
  toQ x < 0 -> is_integral y = false -> plan_pow x y = PRaise KaRuntimeError.
Proof.
  intros H I. unfold plan_pow. rewrite I. apply Qltb_true in H. rewrite H. reflexivity.
Qed.

Lemma conv_pow_zero_neg x y : toQ x == 0 -> toQ y < 0 ->
  conv_pow x y = PRaise ZeroDivisionError \/
  (dbl_ovf <= Qabs (toQ y) /\ conv_pow x y = PRaise OverflowError).
Proof.
  intros Hx Hy. unfold conv_pow.
  destruct (conv_cases x) as [C|(C & _ & B)].
  2:{ exfalso. rewrite Hx in B. apply (Qlt_not_le _ _ dbl_ovf_pos). exact B. }
  rewrite C. destruct (conv_cases y) as [C2|(C2 & _ & B2)]; rewrite C2; [|right; auto].
  left. unfold float_pow.
  assert (Z1 : Qis_zero (toQ x) = true) by (apply Qis_zero_spec; exact Hx).
  apply Qltb_true in Hy. rewrite Z1, Hy. reflexivity.
Qed.

Lemma pow_zero_neg x y : toQ x == 0 -> toQ y < 0 ->
  plan_pow x y = PRaise ZeroDivisionError \/
  (dbl_ovf <= Qabs (toQ y) /\ plan_pow x y = PRaise OverflowError).
Proof.
  intros Hx Hy. unfold plan_pow.
  assert (G : Qltb (toQ x) 0 = false) by (apply Qltb_false; rewrite Hx; apply Qle_refl).
  rewrite G, Bool.andb_false_r.
  pose proof (conv_pow_zero_neg x y Hx Hy) as CP.
  destruct y as [n|q|q]; try exact CP.
  assert (Hn : (n < 0)%Z) by (unfold Qlt in Hy; cbn in Hy; lia).
  destruct x as [z|p|p]; try exact CP.
  - destruct (Z.leb_spec 0 n); [lia|exact CP].
  - cbn [toQ] in Hx. apply Qis_zero_spec in Hx. apply Z.ltb_lt in Hn. rewrite Hx, Hn. left. reflexivity.
Qed.

(* ---------- guards: nothing inside the domain is rejected ---------- *)
Lemma trig_accepted n : dbl_ok n ->
  plan1 FSin n = PCall (CSin (toQ n)) /\ plan1 FCos n = PCall (CCos (toQ n))
  /\ plan1 FTan n = PCall (CTan (toQ n)).
Proof. intro K. cbn [plan1]. unfold with_conv. rewrite (conv_ok _ K). auto. Qed.

Lemma sqrt_accepted n : 0 <= toQ n -> dbl_ok n -> plan1 FSqrt n = PCall (CSqrt (toQ n)).
Proof.
  intros H K. cbn [plan1]. apply Qltb_false in H. rewrite H. unfold with_conv.
  rewrite (conv_ok _ K). reflexivity.
Qed.

Lemma log_accepted x b :
  0 < toQ x -> 0 < toQ b -> ~ toQ b == 1 -> log_ok x -> log_ok b ->
  plan_log x b = PCall (CLog (toQ x) (toQ b)).
Proof.
  intros Hx Hb Hb1 Kx Kb. unfold plan_log.
  apply Qleb_false in Hx, Hb. apply Qeqb_false in Hb1. rewrite Hx, Hb, Hb1. cbn [orb].
  rewrite (log_conv_ok _ Kx), (log_conv_ok _ Kb). reflexivity.
Qed.

Lemma log1_accepted n : 0 < toQ n -> log_ok n ->
  plan1 FLn n = PCall (CLog (toQ n) float_e) /\ plan1 FLog10 n = PCall (CLog (toQ n) 10)
  /\ plan1 FLog2 n = PCall (CLog (toQ n) 2).
Proof.
  intros H K. cbn [plan1]. repeat split.
  - apply (log_accepted n (NFlt float_e)); auto; cbn [toQ log_ok]; auto using float_e_pos, float_e_not_1.
  - apply (log_accepted n (NInt 10)); auto; cbn [toQ log_ok]; auto; [reflexivity | vm_compute; discriminate].
  - apply (log_accepted n (NInt 2)); auto; cbn [toQ log_ok]; auto; [reflexivity | vm_compute; discriminate].
Qed.

Lemma conv_pow_accepted x y : ~ (toQ x == 0 /\ toQ y < 0) -> dbl_ok x -> dbl_ok y ->
  conv_pow x y = PCall (CPow (toQ x) (toQ y)).
Proof.
  intros NZ Kx Ky. unfold conv_pow. rewrite (conv_ok _ Kx), (conv_ok _ Ky). unfold float_pow.
  destruct (Qis_zero (toQ x)) eqn:Z1; [|reflexivity].
  destruct (Qltb (toQ y) 0) eqn:L; [|reflexivity].
  exfalso. apply NZ. split; [apply Qis_zero_spec; exact Z1 | apply Qltb_true; exact L].
Qed.

Lemma pow_accepted x y :
  (0 <= toQ x \/ is_integral y = true) -> ~ (toQ x == 0 /\ toQ y < 0) ->
  dbl_ok x -> dbl_ok y -> pow_is_float x y ->
  plan_pow x y = PCall (CPow (toQ x) (toQ y)).
Proof.
  intros D NZ Kx Ky PF. unfold plan_pow.
  assert (G : negb (is_integral y) && Qltb (toQ x) 0 = false).
  { destruct D as [D|D]; [apply Qltb_false in D; rewrite D; apply Bool.andb_false_r | rewrite D; reflexivity]. }
  rewrite G. pose proof (conv_pow_accepted x y NZ Kx Ky) as CP.
  destruct y as [n|q|q]; try exact CP.
  destruct x as [z|p|p]; try exact CP; cbn [pow_is_float] in PF; [|contradiction].
  destruct (Z.leb_spec 0 n); [lia|exact CP].
Qed.

(* ---------- exact powers ---------- *)
Lemma is_integral_int n : is_integral (NInt n) = true.
Proof. unfold is_integral. cbn [toQ]. rewrite Qred_inject_Z. reflexivity. Qed.

Lemma pow_int_exact z n : (0 <= n)%Z -> plan_pow (NInt z) (NInt n) = PExact (NInt (z ^ n)).
Proof.
  intro H. unfold plan_pow. rewrite is_integral_int. cbn [negb andb].
  apply Z.leb_le in H. rewrite H. reflexivity.
Qed.

Lemma pow_frac_exact q n : (0 <= n)%Z \/ ~ q == 0 ->
  plan_pow (NFrac q) (NInt n) = PExact (norm (Qpower q n)).
Proof.
  intro H. unfold plan_pow. rewrite is_integral_int. cbn [negb andb].
  destruct (Qis_zero q && (n <? 0)%Z) eqn:E; [|reflexivity].
  apply Bool.andb_true_iff in E. destruct E as [E1 E2].
  apply Qis_zero_spec in E1. apply Z.ltb_lt in E2. destruct H; [lia|contradiction].
Qed.

Lemma pow_int_negexp z n : (n < 0)%Z -> z <> 0%Z ->
  Qabs (inject_Z z) < dbl_ovf -> Qabs (inject_Z n) < dbl_ovf ->
  plan_pow (NInt z) (NInt n) = PCall (CPow (inject_Z z) (inject_Z n)).
Proof.
  intros Hn Hz Bz Bn. apply (pow_accepted (NInt z) (NInt n)).
  - right. apply is_integral_int.
  - intros [A _]. cbn [toQ] in A. unfold Qeq in A. cbn in A. lia.
  - right. exact Bz.
  - right. exact Bn.
  - exact Hn.
Qed.

Theorem pow_exact_spec :
  (forall z n, (0 <= n)%Z ->
     deliver ext (plan_pow (NInt z) (NInt n)) = EVal (NInt (z ^ n))
     /\ inject_Z (z ^ n) == Qpower (inject_Z z) n) /\
  (forall q n, (0 <= n)%Z \/ ~ q == 0 ->
     exists v, deliver ext (plan_pow (NFrac q) (NInt n)) = EVal v
               /\ toQ v == Qpower q n /\ exact v /\ canonical v) /\
  (forall z n, (n < 0)%Z -> z <> 0%Z ->
     Qabs (inject_Z z) < dbl_ovf -> Qabs (inject_Z n) < dbl_ovf ->
     plan_pow (NInt z) (NInt n) = PCall (CPow (inject_Z z) (inject_Z n))).
Proof.
  split; [|split].
  - intros z n H. rewrite (pow_int_exact z n H). split; [reflexivity|]. apply Zpower_Qpower. exact H.
  - intros q n H. rewrite (pow_frac_exact q n H). exists (norm (Qpower q n)).
    cbn [deliver]. rewrite simp_norm. split; [reflexivity|].
    split; [apply toQ_norm|]. split; [apply exact_norm|apply canonical_norm].
  - exact pow_int_negexp.
Qed.

(* ---------- float(): the idealised value, or OverflowError beyond the double range ---------- *)
Theorem float_spec a x : arg_value a = Ok x ->
  (dbl_ok x -> exists v, elem ext (E1 FFloat) [a] = EVal (wrapv (arg_wrap a) v) /\ toQ v == toQ x) /\
  (is_flt x = false -> dbl_ovf <= Qabs (toQ x) -> elem ext (E1 FFloat) [a] = EErr OverflowError).
Proof.
  intro H. rewrite (elem1_dispatch _ _ _ H). cbn [plan1]. unfold with_conv. split.
  - intro K. rewrite (conv_ok _ K). exists (simp (NFlt (toQ x))). split; [reflexivity|]. rewrite toQ_simp. reflexivity.
  - intros F B. rewrite (conv_overflow _ F B). reflexivity.
Qed.

(* beyond the double range sin cos tan sqrt are an OverflowError (never an infinity) *)
Theorem huge_argument_spec a x g : arg_value a = Ok x -> In g [FSin; FCos; FTan; FSqrt] ->
  is_flt x = false -> dbl_ovf <= toQ x -> elem ext (E1 g) [a] = EErr OverflowError.
Proof.
  intros H G F B. rewrite (elem1_dispatch _ _ _ H).
  assert (P : 0 <= toQ x) by (apply Qle_trans with dbl_ovf; [apply Qlt_le_weak, dbl_ovf_pos|exact B]).
  assert (B' : dbl_ovf <= Qabs (toQ x)) by (rewrite Qabs_pos by exact P; exact B).
  destruct G as [<-|[<-|[<-|[<-|[]]]]]; cbn [plan1]; unfold with_conv;
    try (rewrite (conv_overflow _ F B'); reflexivity).
  apply Qltb_false in P. rewrite P. rewrite (conv_overflow _ F B'). reflexivity.
Qed.

(* ---------- every libm call is inside the function's real domain ---------- *)
Lemma plan_log_calls x b c : plan_log x b = PCall c -> call_in_domain c.
Proof.
  unfold plan_log. destruct (Qleb (toQ x) 0) eqn:E1; [discriminate|].
  destruct (Qleb (toQ b) 0 || Qeqb (toQ b) 1) eqn:E2; [discriminate|].
  destruct (log_conv x) as [qx|e] eqn:Cx; [|discriminate].
  destruct (log_conv b) as [qb|e] eqn:Cb; [|discriminate].
  intro H. injection H as <-. apply log_conv_inv in Cx, Cb. subst qx qb.
  apply Bool.orb_false_iff in E2. destruct E2 as [E2 E3].
  cbn [call_in_domain]. split; [apply Qleb_false; exact E1|].
  split; [apply Qleb_false; exact E2 | apply Qeqb_false; exact E3].
Qed.

Lemma conv_pow_calls x y c : (0 <= toQ x \/ is_integral y = true) ->
  conv_pow x y = PCall c -> call_in_domain c.
Proof.
  intros D. unfold conv_pow.
  destruct (conv x) as [qx|e] eqn:Cx; [|discriminate].
  destruct (conv y) as [qy|e] eqn:Cy; [|discriminate].
  apply conv_inv in Cx, Cy. subst qx qy. unfold float_pow.
  destruct (Qis_zero (toQ x) && Qltb (toQ y) 0) eqn:E; [discriminate|].
  intro H. injection H as <-. cbn [call_in_domain]. split; [exact D|].
  intros [A B]. apply Qis_zero_spec in A. apply Qltb_true in B. rewrite A, B in E. discriminate.
Qed.

Lemma plan_pow_calls x y c : plan_pow x y = PCall c -> call_in_domain c.
Proof.
  unfold plan_pow. destruct (negb (is_integral y) && Qltb (toQ x) 0) eqn:G; [discriminate|].
  assert (D : 0 <= toQ x \/ is_integral y = true).
  { apply Bool.andb_false_iff in G. destruct G as [G|G];
      [right; apply Bool.negb_false_iff; exact G | left; apply Qltb_false; exact G]. }
  pose proof (conv_pow_calls x y c D) as CP.
  destruct y as [n|q|q]; try exact CP.
  destruct x as [z|p|p]; try exact CP.
  - destruct (0 <=? n)%Z; [discriminate|exact CP].
  - destruct (Qis_zero p && (n <? 0)%Z); discriminate.
Qed.

Lemma plan1_calls g n c : plan1 g n = PCall c -> call_in_domain c.
Proof.
  destruct g; cbn [plan1]; unfold with_conv; try discriminate;
    try (apply plan_log_calls);
    try (destruct (conv n) as [q|e] eqn:C; intro H; [|discriminate];
         first [discriminate | injection H as <-; exact I]).
  destruct (Qltb (toQ n) 0) eqn:L; [discriminate|].
  destruct (conv n) as [q|e] eqn:C; intro H; [|discriminate]. injection H as <-.
  apply conv_inv in C. subst q. cbn [call_in_domain]. apply Qltb_false. exact L.
Qed.

Theorem eplan_calls f args c w : eplan f args = (PCall c, w) -> call_in_domain c.
Proof.
  intro H. destruct f as [g| |];
    destruct args as [|[c1|m1 d1] [|[c2|m2 d2] [|a3 rest]]];
    cbn [eplan arg_value arg_wrap] in H; try discriminate.
  all: repeat match type of H with context [coerce ?k] =>
         destruct (coerce k); [|discriminate] end.
  all: injection H as H _;
    first [exact (plan1_calls _ _ _ H) | exact (plan_log_calls _ _ _ H) | exact (plan_pow_calls _ _ _ H)].
Qed.

(* ---------- every exception of the modelled dispatch is one of four classes ---------- *)
Ltac in_classes := unfold elem_classes; cbn [In]; auto 6.

Lemma with_conv_errs n k e :
  (forall q e', k q = PRaise e' -> In e' elem_classes) ->
  with_conv n k = PRaise e -> In e elem_classes.
Proof.
  intros K. unfold with_conv. destruct (conv_cases n) as [C|(C & _)]; rewrite C.
  - apply K.
  - intro H. injection H as <-. in_classes.
Qed.

Lemma plan_log_errs x b e : plan_log x b = PRaise e -> In e elem_classes.
Proof.
  unfold plan_log. destruct (Qleb (toQ x) 0); [intro H; injection H as <-; in_classes|].
  destruct (Qleb (toQ b) 0 || Qeqb (toQ b) 1); [intro H; injection H as <-; in_classes|].
  destruct (log_conv x) as [qx|e1] eqn:Cx.
  - destruct (log_conv b) as [qb|e2] eqn:Cb; [discriminate|].
    intro H. injection H as <-. destruct (log_conv_err _ _ Cb) as [->| ->]; in_classes.
  - intro H. injection H as <-. destruct (log_conv_err _ _ Cx) as [->| ->]; in_classes.
Qed.

Lemma conv_pow_errs x y e : conv_pow x y = PRaise e -> In e elem_classes.
Proof.
  unfold conv_pow. destruct (conv_cases x) as [C|(C & _)]; rewrite C;
    [|intro H; injection H as <-; in_classes].
  destruct (conv_cases y) as [C2|(C2 & _)]; rewrite C2;
    [|intro H; injection H as <-; in_classes].
  unfold float_pow. destruct (Qis_zero (toQ x) && Qltb (toQ y) 0); [|discriminate].
  intro H. injection H as <-. in_classes.
Qed.

Lemma plan_pow_errs x y e : plan_pow x y = PRaise e -> In e elem_classes.
Proof.
  unfold plan_pow. destruct (negb (is_integral y) && Qltb (toQ x) 0);
    [intro H; injection H as <-; in_classes|].
  pose proof (conv_pow_errs x y e) as CP.
  destruct y as [n|q|q]; try exact CP.
  destruct x as [z|p|p]; try exact CP.
  - destruct (0 <=? n)%Z; [discriminate|exact CP].
  - destruct (Qis_zero p && (n <? 0)%Z); [|discriminate]. intro H. injection H as <-. in_classes.
Qed.

Lemma plan1_errs g n e : plan1 g n = PRaise e -> In e elem_classes.
Proof.
  destruct g; cbn [plan1]; try discriminate; try apply plan_log_errs;
    try (apply with_conv_errs; intros q e'; discriminate).
  destruct (Qltb (toQ n) 0); [intro H; injection H as <-; in_classes|].
  apply with_conv_errs. intros q e'. discriminate.
Qed.

Definition resolvable (a : earg) : Prop := exists x, arg_value a = Ok x.

Lemma eplan_errs f args e w : Forall resolvable args ->
  eplan f args = (PRaise e, w) -> In e elem_classes.
Proof.
  intros R H.
  assert (NM : forall w', (PRaise NoMatchingFunctionSignatureError, WNum) = (PRaise e, w') ->
                          In e elem_classes).
  { intros w' E. injection E as <- _. in_classes. }
  pose proof (proj1 (Forall_forall _ _) R) as RES. clear R.
  destruct f as [g| |];
    destruct args as [|[c1|m1 d1] [|[c2|m2 d2] [|a3 rest]]];
    cbn [eplan arg_value arg_wrap] in H; try (exact (NM _ H)).
  all: repeat match type of H with context [coerce ?k] =>
         let Hx := fresh "Hx" in
         destruct (RES (AN k) ltac:(cbn [In]; auto)) as [? Hx]; cbn [arg_value] in Hx;
         rewrite Hx in H; cbv beta iota in H end.
  all: injection H as H _;
    first [exact (plan1_errs _ _ _ H) | exact (plan_log_errs _ _ _ H) | exact (plan_pow_errs _ _ _ H)].
Qed.

(* CPython's wrappers fail on an in-domain call only with OverflowError (range error) *)
Definition ext_raises_only_overflow : Prop :=
  forall c e, call_in_domain c -> ext c = FExn e -> e = OverflowError.
(* ... and return no NaN there (math.* raise ValueError instead; pow on its real domain) *)
Definition ext_no_nan : Prop := forall c, call_in_domain c -> ext c <> FNaN.

Theorem elem_errors_in_classes : ext_raises_only_overflow ->
  forall f args e, Forall resolvable args -> elem ext f args = EErr e -> In e elem_classes.
Proof.
  intros HX f args e R. unfold elem. destruct (eplan f args) as [p w] eqn:P.
  destruct p as [e'|n|c]; cbn [deliver emap].
  - intro H. injection H as <-. exact (eplan_errs _ _ _ _ R P).
  - discriminate.
  - pose proof (eplan_calls _ _ _ _ P) as D. destruct (ext c) as [q| | |e'] eqn:X; cbn [emap];
      try discriminate; intro H; injection H as <-.
    + in_classes.
    + rewrite (HX c e' D X). in_classes.
Qed.

(* ---------- nothing non-finite is delivered ---------- *)
Theorem inf_not_delivered c : ext c = FInf -> deliver ext (PCall c) = EErr OverflowError.
Proof. intro H. cbn [deliver]. rewrite H. reflexivity. Qed.

Theorem no_nan_delivered : ext_no_nan -> forall f args, elem ext f args <> ENaN.
Proof.
  intros Hn f args. unfold elem. destruct (eplan f args) as [p w] eqn:P.
  destruct p as [e|n|c]; cbn [deliver emap]; try discriminate.
  pose proof (Hn c (eplan_calls _ _ _ _ P)) as D.
  destruct (ext c); cbn [emap]; try discriminate. contradiction.
Qed.

Theorem finite_invariant_spec :
  (forall c, ext c = FInf -> deliver ext (PCall c) = EErr OverflowError) /\
  (ext_no_nan -> forall f args, elem ext f args <> ENaN) /\
  (forall a x g, arg_value a = Ok x -> In g [FSin; FCos; FTan; FSqrt] ->
     is_flt x = false -> dbl_ovf <= toQ x -> elem ext (E1 g) [a] = EErr OverflowError).
Proof.
  split; [exact inf_not_delivered|]. split; [exact no_nan_delivered|].
  intros a x g H G F B. exact (huge_argument_spec a x g H G F B).
Qed.

(* ---------- the domain theorems at dispatch level (numbers, lazy values, quantities) ---------- *)
Theorem domain_rejected_spec :
  (forall a x, arg_value a = Ok x -> toQ x < 0 ->
     elem ext (E1 FSqrt) [a] = EErr KaRuntimeError) /\
  (forall g a x, In g [FLn; FLog2; FLog10] -> arg_value a = Ok x -> toQ x <= 0 ->
     elem ext (E1 g) [a] = EErr KaRuntimeError) /\
  (forall c1 c2 x b, coerce c1 = Ok x -> coerce c2 = Ok b ->
     toQ x <= 0 \/ toQ b <= 0 \/ toQ b == 1 ->
     elem ext ELog [AN c1; AN c2] = EErr KaRuntimeError) /\
  (forall c1 c2 x y, coerce c1 = Ok x -> coerce c2 = Ok y ->
     toQ x < 0 -> is_integral y = false ->
     elem ext EPow [AN c1; AN c2] = EErr KaRuntimeError) /\
  (forall c1 c2 x y, coerce c1 = Ok x -> coerce c2 = Ok y ->
     toQ x == 0 -> toQ y < 0 ->
     elem ext EPow [AN c1; AN c2] = EErr ZeroDivisionError \/
     (dbl_ovf <= Qabs (toQ y) /\ elem ext EPow [AN c1; AN c2] = EErr OverflowError)).
Proof.
  repeat split.
  - intros a x H L. rewrite (elem1_dispatch _ _ _ H), (sqrt_rejected _ L). reflexivity.
  - intros g a x G H L. rewrite (elem1_dispatch _ _ _ H), (log1_rejected _ _ G L). reflexivity.
  - intros c1 c2 x b H1 H2 L. rewrite (elem_log_dispatch _ _ _ _ H1 H2), (log_rejected _ _ L). reflexivity.
  - intros c1 c2 x y H1 H2 L I. rewrite (elem_pow_dispatch _ _ _ _ H1 H2), (pow_neg_frac_rejected _ _ L I). reflexivity.
  - intros c1 c2 x y H1 H2 Z L. rewrite (elem_pow_dispatch _ _ _ _ H1 H2).
    destruct (pow_zero_neg x y Z L) as [E|[B E]]; rewrite E; [left|right]; auto.
Qed.

Theorem in_domain_accepted_spec :
  (forall a x, arg_value a = Ok x -> dbl_ok x ->
     elem ext (E1 FSin) [a] = emap (wrapv (arg_wrap a)) (deliver ext (PCall (CSin (toQ x)))) /\
     elem ext (E1 FCos) [a] = emap (wrapv (arg_wrap a)) (deliver ext (PCall (CCos (toQ x)))) /\
     elem ext (E1 FTan) [a] = emap (wrapv (arg_wrap a)) (deliver ext (PCall (CTan (toQ x)))) /\
     (0 <= toQ x ->
      elem ext (E1 FSqrt) [a] = emap (wrapv (arg_wrap a)) (deliver ext (PCall (CSqrt (toQ x)))))) /\
  (forall a x, arg_value a = Ok x -> 0 < toQ x -> log_ok x ->
     elem ext (E1 FLn) [a] = emap (wrapv (arg_wrap a)) (deliver ext (PCall (CLog (toQ x) float_e))) /\
     elem ext (E1 FLog10) [a] = emap (wrapv (arg_wrap a)) (deliver ext (PCall (CLog (toQ x) 10))) /\
     elem ext (E1 FLog2) [a] = emap (wrapv (arg_wrap a)) (deliver ext (PCall (CLog (toQ x) 2)))) /\
  (forall c1 c2 x b, coerce c1 = Ok x -> coerce c2 = Ok b ->
     0 < toQ x -> 0 < toQ b -> ~ toQ b == 1 -> log_ok x -> log_ok b ->
     elem ext ELog [AN c1; AN c2] = emap VN (deliver ext (PCall (CLog (toQ x) (toQ b))))) /\
  (forall c1 c2 x y, coerce c1 = Ok x -> coerce c2 = Ok y ->
     (0 <= toQ x \/ is_integral y = true) -> ~ (toQ x == 0 /\ toQ y < 0) ->
     dbl_ok x -> dbl_ok y -> pow_is_float x y ->
     elem ext EPow [AN c1; AN c2] = emap VN (deliver ext (PCall (CPow (toQ x) (toQ y))))).
Proof.
  split; [|split; [|split]].
  - intros a x H K. destruct (trig_accepted x K) as (S & C & T).
    rewrite !(elem1_dispatch _ _ _ H), S, C, T. repeat split; try reflexivity.
    intro P. rewrite (sqrt_accepted x P K). reflexivity.
  - intros a x H P K. destruct (log1_accepted x P K) as (A & B & C).
    rewrite !(elem1_dispatch _ _ _ H), A, B, C. auto.
  - intros c1 c2 x b H1 H2 Px Pb Nb Kx Kb.
    rewrite (elem_log_dispatch _ _ _ _ H1 H2), (log_accepted _ _ Px Pb Nb Kx Kb). reflexivity.
  - intros c1 c2 x y H1 H2 D NZ Kx Ky PF.
    rewrite (elem_pow_dispatch _ _ _ _ H1 H2), (pow_accepted _ _ D NZ Kx Ky PF). reflexivity.
Qed.

End WithLibm.
