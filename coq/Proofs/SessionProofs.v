(* SessionProofs.v — proofs about Model/Session.v (property C14). *)
From Coq Require Import Lia.
From Ka Require Import Model.Session.

Local Open Scope string_scope.

(* ---------- the binding table ---------- *)
Lemma tget_tset_same x v t : tget x (tset x v t) = Some v.
Proof.
  induction t as [|[y w] r IH]; cbn [tset tget].
  - rewrite String.eqb_refl. reflexivity.
  - destruct (String.eqb x y) eqn:E; cbn [tget]; rewrite E; [reflexivity | exact IH].
Qed.

Lemma tget_tset_other x y v t : x <> y -> tget x (tset y v t) = tget x t.
Proof.
  intro N. induction t as [|[z w] r IH]; cbn [tset tget].
  - destruct (String.eqb_spec x y); [contradiction | reflexivity].
  - destruct (String.eqb_spec y z) as [->|Nyz]; cbn [tget].
    + destruct (String.eqb_spec x z); [contradiction | reflexivity].
    + destruct (String.eqb x z); [reflexivity | exact IH].
Qed.

Lemma tget_none_notin x t : ~ In x (map fst t) -> tget x t = None.
Proof.
  induction t as [|[y w] r IH]; cbn [map fst In tget]; intro H; [reflexivity|].
  destruct (String.eqb_spec x y) as [->|N]; [exfalso; apply H; left; reflexivity|].
  apply IH. intro I. apply H. right. exact I.
Qed.

(* last write wins, at the level of the table: after ANY sequence of writes, a name reads as
   the value of the most recent write to it, or as before when it was never written *)
Lemma last_write_wins_table ws : forall t x,
  tget x (apply_writes ws t) =
  match last_write x ws with Some v => Some v | None => tget x t end.
Proof.
  unfold apply_writes. induction ws as [|[y v] r IH]; intros t x; cbn [fold_left last_write fst snd]; [reflexivity|].
  rewrite IH. destruct (last_write x r); [reflexivity|].
  destruct (String.eqb_spec x y) as [->|N]; [apply tget_tset_same | apply tget_tset_other; exact N].
Qed.

(* ---------- frame: what is not written is not changed ---------- *)
Lemma comp_loop_frame ev x y :
  x <> y -> (forall t, tget x (snd (ev t)) = tget x t) ->
  forall l t acc, tget x (snd (comp_loop ev y l t acc)) = tget x t.
Proof.
  intros N Hev. induction l as [|i r IH]; intros t acc; cbn [comp_loop]; [reflexivity|].
  specialize (Hev (tset y (VNum (NInt i)) t)).
  destruct (ev (tset y (VNum (NInt i)) t)) as [[v|e] t2]; cbn [snd] in *.
  - rewrite IH, Hev. apply tget_tset_other; exact N.
  - rewrite Hev. apply tget_tset_other; exact N.
Qed.

Lemma eval_frame x : forall e t, expr_writes x e = false -> tget x (snd (eval e t)) = tget x t.
Proof.
  induction e as [z|y|o a IHa b IHb|f a IHa|f a IHa b IHb|a IHa u|body IHb y lo hi];
    intros t W; cbn [eval expr_writes] in *.
  - reflexivity.
  - reflexivity.
  - apply Bool.orb_false_iff in W as [Wa Wb].
    specialize (IHa t Wa). destruct (eval a t) as [[va|ex] t1]; cbn [snd] in *; [|exact IHa].
    specialize (IHb t1 Wb). destruct (eval b t1) as [[vb|ex] t2]; cbn [snd] in *; congruence.
  - specialize (IHa t W). destruct (eval a t) as [ra t1]; cbn [snd] in *. exact IHa.
  - apply Bool.orb_false_iff in W as [Wa Wb].
    specialize (IHa t Wa). destruct (eval a t) as [[va|ex] t1]; cbn [snd] in *; [|exact IHa].
    specialize (IHb t1 Wb). destruct (eval b t1) as [rb t2]; cbn [snd] in *; congruence.
  - specialize (IHa t W). destruct (eval a t) as [ra t1]; cbn [snd] in *. exact IHa.
  - apply Bool.orb_false_iff in W as [Wy Wb].
    apply comp_loop_frame.
    + intros ->. rewrite String.eqb_refl in Wy. discriminate.
    + intro t0. apply IHb. exact Wb.
Qed.

Lemma exec_stmt_frame x s t : stmt_writes x s = false -> tget x (snd (exec_stmt s t)) = tget x t.
Proof.
  destruct s as [y e|e]; cbn [stmt_writes exec_stmt]; intro W.
  - apply Bool.orb_false_iff in W as [Wy We].
    pose proof (eval_frame x e t We) as F. destruct (eval e t) as [[v|ex] t1]; cbn [snd] in *; [|exact F].
    rewrite tget_tset_other; [exact F|]. intros ->. rewrite String.eqb_refl in Wy. discriminate.
  - apply eval_frame. exact W.
Qed.

Lemma run_from_frame x ss : (forall s, In s ss -> stmt_writes x s = false) ->
  forall last t, tget x (snd (run_from last ss t)) = tget x t.
Proof.
  induction ss as [|s r IH]; intros W last t; cbn [run_from]; [reflexivity|].
  pose proof (exec_stmt_frame x s t (W s (or_introl eq_refl))) as F.
  destruct (exec_stmt s t) as [[v|e] t1]; cbn [snd] in *; [|exact F].
  rewrite IH; [exact F|]. intros s' I. apply W. right. exact I.
Qed.

(* ---------- composition of inputs ---------- *)
Lemma run_from_app a : forall last b t,
  run_from last (a ++ b) t =
  match run_from last a t with
  | (Ok l', t1) => run_from l' b t1
  | (Raise e, t1) => (Raise e, t1)
  end.
Proof.
  induction a as [|s r IH]; intros last b t; cbn [app run_from]; [reflexivity|].
  destruct (exec_stmt s t) as [[v|e] t1]; [apply IH | reflexivity].
Qed.

Lemma run_from_nonempty b : b <> [] -> forall l l' t, run_from l b t = run_from l' b t.
Proof. destruct b as [|s r]; [congruence|]. intros _ l l' t. reflexivity. Qed.

Lemma concat_nonempty (gs : list (list stmt)) :
  gs <> [] -> Forall (fun g => g <> []) gs -> List.concat gs <> [].
Proof.
  destruct gs as [|g r]; [congruence|]. intros _ F. inversion F as [|? ? Hg _]; subst.
  cbn [List.concat]. destruct g; [congruence | discriminate].
Qed.

(* one input or n inputs: same outcome (final value or the same exception) and same table *)
Lemma split_equiv groups : Forall (fun g => g <> []) groups ->
  forall t, run_many groups t = run_one (List.concat groups) t.
Proof.
  induction groups as [|g gs IH]; intros F t; cbn [run_many List.concat]; [reflexivity|].
  inversion F as [|? ? Hg Fgs]; subst.
  unfold run_one at 2. rewrite run_from_app. fold (run_one g t).
  destruct (run_one g t) as [[v|e] t1]; [|reflexivity].
  destruct gs as [|g' gs']; [reflexivity|].
  rewrite (IH Fgs t1). unfold run_one.
  apply run_from_nonempty. apply concat_nonempty; [discriminate | exact Fgs].
Qed.

(* what "up to the first failing statement" means: a prefix that ran to completion followed by a
   failing statement gives, in one input or in many, that statement's exception and the table
   as the prefix left it (plus whatever the failing statement itself wrote before raising) *)
Lemma run_one_prefix_failure pre s post t v t1 e t2 :
  run_one pre t = (Ok v, t1) -> exec_stmt s t1 = (Raise e, t2) ->
  run_one (pre ++ s :: post) t = (Raise e, t2).
Proof.
  intros P S. unfold run_one in *. rewrite run_from_app, P. cbn [run_from]. rewrite S. reflexivity.
Qed.

(* ---------- last write wins over histories of statements ---------- *)
Lemma assign_then_read ss x e t v t1 :
  run_one (ss ++ [Assign x e]) t = (Ok (Some v), t1) -> tget x t1 = Some v.
Proof.
  unfold run_one. rewrite run_from_app.
  destruct (run_from None ss t) as [[l|ex] t0]; [|discriminate].
  cbn [run_from exec_stmt]. destruct (eval e t0) as [[w|ex] t'].
  - intro H. injection H as <- <-. apply tget_tset_same.
  - discriminate.
Qed.

Lemma last_write_wins ss1 x e ss2 t v t1 :
  run_one (ss1 ++ [Assign x e]) t = (Ok (Some v), t1) ->
  (forall s, In s ss2 -> stmt_writes x s = false) ->
  forall r t2, run_one (ss1 ++ [Assign x e] ++ ss2) t = (r, t2) ->
  tget x t2 = Some v /\ eval (EVar x) t2 = (Ok v, t2).
Proof.
  intros P W r t2 H.
  assert (G : tget x t2 = Some v).
  { rewrite app_assoc in H. unfold run_one in *. rewrite run_from_app, P in H.
    pose proof (run_from_frame x ss2 W (Some v) t1) as F. rewrite H in F. cbn [snd] in F.
    rewrite F. eapply assign_then_read. exact P. }
  split; [exact G|]. cbn [eval]. rewrite G. reflexivity.
Qed.

(* the documented comprehension behaviour: {body : x in lo..hi} leaves x bound to hi *)
Lemma comp_loop_last ev x : (forall t, tget x (snd (ev t)) = tget x t) ->
  forall l t acc v t', l <> [] -> comp_loop ev x l t acc = (Ok v, t') ->
  tget x t' = Some (VNum (NInt (last l 0%Z))).
Proof.
  intros Hev. induction l as [|i r IH]; intros t acc v t' N H; [congruence|].
  cbn [comp_loop] in H. pose proof (Hev (tset x (VNum (NInt i)) t)) as F.
  destruct (ev (tset x (VNum (NInt i)) t)) as [[w|e] t2]; [|discriminate]. cbn [snd] in F.
  destruct r as [|j r'].
  - cbn [comp_loop] in H. injection H as _ <-. rewrite F. cbn [last]. apply tget_tset_same.
  - change (last (i :: j :: r') 0%Z) with (last (j :: r') 0%Z). eapply IH; [discriminate | exact H].
Qed.

Lemma zrange_last lo hi : (lo <= hi)%Z -> zrange lo hi <> [] /\ last (zrange lo hi) 0%Z = hi.
Proof.
  intro L. unfold zrange.
  replace (Z.to_nat (hi - lo + 1)) with (S (Z.to_nat (hi - lo))) by lia.
  rewrite seq_S, map_app. cbn [map]. split.
  - intro E. apply (f_equal (@List.length Z)) in E. rewrite app_length in E. cbn in E. lia.
  - rewrite last_last. cbn. lia.
Qed.

Lemma comprehension_leaves_binding body x lo hi t v t' :
  (lo <= hi)%Z -> expr_writes x body = false ->
  eval (EComp body x lo hi) t = (Ok v, t') -> tget x t' = Some (VNum (NInt hi)).
Proof.
  intros L W H. cbn [eval] in H. destruct (zrange_last lo hi L) as [N E]. rewrite <- E.
  eapply comp_loop_last; [|exact N|exact H]. intro t0. apply eval_frame. exact W.
Qed.

(* ---------- unassigned names ---------- *)
Lemma unassigned_read x t : tget x t = None ->
  eval (EVar x) t = (Raise EvalError, t) /\ run_one [Expr (EVar x)] t = (Raise EvalError, t)
  /\ diagnosed EvalError = true.
Proof. intro H. cbn [eval run_one run_from exec_stmt]. rewrite H. auto. Qed.

(* x = x + 1 with x unassigned: an error, and nothing is bound *)
Lemma unassigned_self_increment x t : tget x t = None ->
  run_one [Assign x (EBin BAdd (EVar x) (ELit 1))] t = (Raise EvalError, t).
Proof. intro H. cbn [run_one run_from exec_stmt eval]. rewrite H. reflexivity. Qed.

(* ---------- namespaces ---------- *)
(* a call looks the name up in the function table and nowhere else; a unit suffix in the unit
   table and nowhere else: the binding table only supplies the argument's value *)
Lemma call_shape f a t :
  eval (ECall1 f a) t =
  (let '(ra, t1) := eval a t in (match ra with Ok va => fn_apply f [va] | Raise x => Raise x end, t1)).
Proof. reflexivity. Qed.
Lemma qty_shape a u t :
  eval (EQty a u) t =
  (let '(ra, t1) := eval a t in (match ra with Ok va => make_quantity va u | Raise x => Raise x end, t1)).
Proof. reflexivity. Qed.

Lemma namespaces_shadow f u z z2 v t :
  fst (eval (ECall1 f (ELit z)) (tset f v t)) = fn_apply f [VNum (NInt z)]
  /\ fst (eval (ECall2 f (ELit z) (ELit z2)) (tset f v t)) = fn_apply f [VNum (NInt z); VNum (NInt z2)]
  /\ fst (eval (EQty (ELit z) u) (tset u v t)) = unit_apply u (NInt z)
  /\ fst (eval (ECall1 f (ELit z)) t) = fn_apply f [VNum (NInt z)]
  /\ fst (eval (EQty (ELit z) u) t) = unit_apply u (NInt z).
Proof. repeat split; reflexivity. Qed.

(* ---------- sessions ---------- *)
Lemma upd_same i v f : upd i v f i = v.
Proof. unfold upd. rewrite Nat.eqb_refl. reflexivity. Qed.
Lemma upd_other i j v f : j <> i -> upd i v f j = f j.
Proof. unfold upd. intro N. destruct (Nat.eqb_spec j i); [contradiction | reflexivity]. Qed.

Lemma new_session_spec i st :
  sessions (new_session i st) i = Some (consts st) /\ consts (new_session i st) = consts st
  /\ (forall j, j <> i -> sessions (new_session i st) j = sessions st j).
Proof.
  cbn [new_session sessions consts]. split; [apply upd_same|]. split; [reflexivity|].
  intros j N. apply upd_other. exact N.
Qed.

Lemma exec_in_isolated i input st :
  consts (snd (exec_in i input st)) = consts st
  /\ forall j, j <> i -> sessions (snd (exec_in i input st)) j = sessions st j.
Proof.
  unfold exec_in. destruct (sessions st i) as [t|]; [|split; reflexivity].
  destruct (run_one input t) as [r t']. cbn [snd consts sessions]. split; [reflexivity|].
  intros j N. apply upd_other. exact N.
Qed.

Lemma exec_fresh_isolated input st : snd (exec_fresh input st) = st.
Proof. reflexivity. Qed.

(* the outcome and the new table of session i depend on that session's table only *)
Lemma exec_in_local i input st st' : sessions st i = sessions st' i ->
  fst (exec_in i input st) = fst (exec_in i input st')
  /\ sessions (snd (exec_in i input st)) i = sessions (snd (exec_in i input st')) i.
Proof.
  unfold exec_in. intro E. rewrite <- E. destruct (sessions st i) as [t|] eqn:S.
  - destruct (run_one input t) as [r t']. cbn [fst snd sessions]. rewrite !upd_same. auto.
  - cbn [fst snd]. split; [reflexivity | congruence].
Qed.

Lemma run_hist_consts h : forall st, consts (snd (run_hist h st)) = consts st.
Proof.
  induction h as [|[i input] r IH]; intro st; cbn [run_hist]; [reflexivity|].
  pose proof (exec_in_isolated i input st) as [C _].
  destruct (exec_in i input st) as [o st1]. cbn [snd] in C.
  specialize (IH st1). destruct (run_hist r st1) as [os st2]. cbn [snd] in *. congruence.
Qed.

(* interleaving: session j ends exactly as if only its own inputs had been run — whatever the
   other sessions did in between, and whatever they contained *)
Lemma run_hist_isolation j h : forall st st', sessions st j = sessions st' j ->
  sessions (snd (run_hist h st)) j =
  sessions (snd (run_hist (filter (fun p => Nat.eqb (fst p) j) h) st')) j.
Proof.
  induction h as [|[i input] r IH]; intros st st' E; cbn [run_hist filter fst]; [exact E|].
  destruct (Nat.eqb_spec i j) as [->|N].
  - cbn [run_hist]. pose proof (exec_in_local j input st st' E) as [_ L].
    destruct (exec_in j input st) as [o st1]. destruct (exec_in j input st') as [o' st1'].
    cbn [snd] in L. specialize (IH st1 st1' L).
    destruct (run_hist r st1) as [os st2].
    destruct (run_hist (filter (fun p => Nat.eqb (fst p) j) r) st1') as [os' st2'].
    exact IH.
  - pose proof (exec_in_isolated i input st) as [_ O].
    destruct (exec_in i input st) as [o st1]. cbn [snd] in O.
    assert (E1 : sessions st1 j = sessions st' j) by (rewrite O; [exact E | congruence]).
    specialize (IH st1 st' E1). destruct (run_hist r st1) as [os st2]. exact IH.
Qed.
