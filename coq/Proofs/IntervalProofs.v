(* IntervalProofs.v — lemmas for C07 (Properties/C07.v states the theorems). *)
From Coq Require Import QArith Qpower Qabs Qreduction Lia Lqa Bool.
From Ka Require Import Model.Interval.
Open Scope Q_scope.

(* ------------------------------------------------------------------ booleans *)
Lemma qleb_spec a b : reflect (a <= b) (qleb a b).
Proof. unfold qleb. apply iff_reflect. symmetry. apply Qle_bool_iff. Qed.

Lemma qltb_spec a b : reflect (a < b) (qltb a b).
Proof.
  unfold qltb. destruct (Qle_bool b a) eqn:E; cbn; constructor.
  - apply Qle_bool_iff in E. lra.
  - apply Qnot_le_lt. intro H. apply Qle_bool_iff in H. congruence.
Qed.

Lemma qeqb_spec a b : reflect (a == b) (qeqb a b).
Proof. unfold qeqb. apply iff_reflect. symmetry. apply Qeq_bool_iff. Qed.

Lemma qmin_cases a b : (qmin a b = a /\ a <= b) \/ (qmin a b = b /\ b < a).
Proof. unfold qmin. destruct (qltb_spec b a); [right|left]; split; auto; lra. Qed.
Lemma qmax_cases a b : (qmax a b = a /\ b <= a) \/ (qmax a b = b /\ a < b).
Proof. unfold qmax. destruct (qltb_spec a b); [right|left]; split; auto; lra. Qed.

Lemma b2q_01 b : b2q b = 0 \/ b2q b = 1.
Proof. destruct b; auto. Qed.
Lemma b2q_1 b : b2q b = 1 <-> b = true.
Proof. destruct b; cbn; split; intro H; auto; discriminate. Qed.

Lemma truthy_contains I x : truthy (contains_q I x) = true <-> lo I <= x /\ x <= hi I.
Proof.
  unfold truthy, contains_q.
  destruct (qleb_spec (lo I) x), (qleb_spec x (hi I)); cbn; split; intro H;
    try discriminate; try tauto; reflexivity.
Qed.

(* ------------------------------------------------------------------ integer powers *)
Definition pw (x : Q) (k : nat) : Q := x ^ Z.of_nat k.

Lemma pw_0 x : pw x 0 == 1.
Proof. reflexivity. Qed.

Lemma pw_S x k : pw x (S k) == x * pw x k.
Proof.
  unfold pw. rewrite Nat2Z.inj_succ. unfold Z.succ. rewrite Z.add_comm.
  rewrite Qpower_plus' by lia. rewrite Qpower_1_r. reflexivity.
Qed.

Lemma pw_nonneg x k : 0 <= x -> 0 <= pw x k.
Proof. intro H. apply Qpower_0_le. exact H. Qed.

Lemma pw_pos x k : 0 < x -> 0 < pw x k.
Proof. intro H. apply Qpower_0_lt. exact H. Qed.

Lemma pw_mono x y k : 0 <= x -> x <= y -> pw x k <= pw y k.
Proof.
  intros Hx Hxy. induction k as [|k IH].
  - rewrite !pw_0. lra.
  - rewrite !pw_S. pose proof (pw_nonneg x k Hx). nra.
Qed.

Lemma pw_opp x k : pw (- x) k == (if Nat.even k then 1 else -1) * pw x k.
Proof.
  induction k as [|k IH].
  - rewrite !pw_0. cbn. lra.
  - rewrite !pw_S, IH. rewrite Nat.even_succ, <- Nat.negb_even.
    destruct (Nat.even k); cbn [negb]; ring.
Qed.

Lemma pw_comp x y k : x == y -> pw x k == pw y k.
Proof. intro H. unfold pw. rewrite H. reflexivity. Qed.

Lemma pw_neg_odd x k : Nat.even k = false -> pw x k == - pw (- x) k.
Proof. intro E. pose proof (pw_opp x k) as H. rewrite E in H. lra. Qed.
Lemma pw_neg_even x k : Nat.even k = true -> pw x k == pw (- x) k.
Proof. intro E. pose proof (pw_opp x k) as H. rewrite E in H. lra. Qed.

Lemma pw_mono_odd x y k : Nat.even k = false -> x <= y -> pw x k <= pw y k.
Proof.
  intros E Hxy.
  destruct (Qlt_le_dec x 0) as [Hx|Hx]; [|apply pw_mono; assumption].
  rewrite (pw_neg_odd x k E).
  destruct (Qlt_le_dec y 0) as [Hy|Hy].
  - rewrite (pw_neg_odd y k E).
    assert (pw (- y) k <= pw (- x) k) by (apply pw_mono; lra). lra.
  - pose proof (pw_nonneg (- x) k ltac:(lra)). pose proof (pw_nonneg y k Hy). lra.
Qed.

Definition between (v a b : Q) : Prop := (a <= v /\ v <= b) \/ (b <= v /\ v <= a).

Lemma pw_even_upper a p b k : Nat.even k = true -> a <= p -> p <= b ->
  pw p k <= pw a k \/ pw p k <= pw b k.
Proof.
  intros E H1 H2. destruct (Qlt_le_dec p 0) as [Hp|Hp].
  - left. rewrite (pw_neg_even p k E), (pw_neg_even a k E). apply pw_mono; lra.
  - right. apply pw_mono; assumption.
Qed.

Lemma pw_even_nonneg p k : Nat.even k = true -> 0 <= pw p k.
Proof.
  intro E. destruct (Qlt_le_dec p 0) as [Hp|Hp].
  - rewrite (pw_neg_even p k E). apply pw_nonneg. lra.
  - apply pw_nonneg. assumption.
Qed.

Lemma pw_between a p b k : a <= p -> p <= b -> ~ (a <= 0 /\ 0 <= b) ->
  between (pw p k) (pw a k) (pw b k).
Proof.
  intros H1 H2 Hz. destruct (Nat.even k) eqn:E.
  - destruct (Qlt_le_dec 0 a) as [Ha|Ha].
    + left. split; apply pw_mono; lra.
    + assert (b < 0) by (apply Qnot_le_lt; intro; apply Hz; split; lra).
      right. rewrite (pw_neg_even p k E), (pw_neg_even a k E), (pw_neg_even b k E).
      split; apply pw_mono; lra.
  - left. split; apply pw_mono_odd; assumption.
Qed.

Lemma between_minmax v a b : between v a b -> qmin a b <= v /\ v <= qmax a b.
Proof.
  intros [[H1 H2]|[H1 H2]];
    destruct (qmin_cases a b) as [[-> ?]|[-> ?]], (qmax_cases a b) as [[-> ?]|[-> ?]]; lra.
Qed.

Lemma pw_zero_in a p b k : a <= p -> p <= b -> a <= 0 -> 0 <= b ->
  qmin3 (pw a k) (pw b k) (pw 0 k) <= pw p k /\ pw p k <= qmax3 (pw a k) (pw b k) (pw 0 k).
Proof.
  intros H1 H2 Ha Hb. unfold qmin3, qmax3.
  assert (Hlo : pw a k <= pw p k \/ pw b k <= pw p k \/ pw 0 k <= pw p k).
  { destruct k as [|k]; [left; rewrite !pw_0; lra|].
    destruct (Nat.even (S k)) eqn:E.
    - right; right. rewrite (pw_S 0 k). pose proof (pw_even_nonneg p (S k) E). lra.
    - left. apply pw_mono_odd; assumption. }
  assert (Hhi : pw p k <= pw a k \/ pw p k <= pw b k).
  { destruct (Nat.even k) eqn:E.
    - apply pw_even_upper; assumption.
    - right. apply pw_mono_odd; assumption. }
  destruct (qmin_cases (pw a k) (pw b k)) as [[Em ?]|[Em ?]];
  destruct (qmin_cases (qmin (pw a k) (pw b k)) (pw 0 k)) as [[-> ?]|[-> ?]];
  destruct (qmax_cases (pw a k) (pw b k)) as [[EM ?]|[EM ?]];
  destruct (qmax_cases (qmax (pw a k) (pw b k)) (pw 0 k)) as [[-> ?]|[-> ?]];
  rewrite ?Em, ?EM in *; lra.
Qed.

Lemma inv_le_pos u w : 0 < u -> u <= w -> / w <= / u.
Proof.
  intros Hu Huw. apply Qle_shift_inv_l; [assumption|].
  setoid_replace (/ w * u) with (u / w) by (unfold Qdiv; ring).
  apply Qle_shift_div_r; lra.
Qed.

Lemma inv_opp x : ~ x == 0 -> / (- x) == - / x.
Proof. intro H. field. assumption. Qed.

Lemma inv_le_neg u w : w < 0 -> u <= w -> / w <= / u.
Proof.
  intros Hw Huw.
  assert (H : / (- u) <= / (- w)) by (apply inv_le_pos; lra).
  rewrite !inv_opp in H by lra. lra.
Qed.

Lemma inv_range a p b : a <= p -> p <= b -> ~ (a <= 0 /\ 0 <= b) ->
  / b <= / p /\ / p <= / a /\ ~ (/ b <= 0 /\ 0 <= / a).
Proof.
  intros H1 H2 Hz. destruct (Qlt_le_dec 0 a) as [Ha|Ha].
  - assert (Hb : 0 < b) by lra.
    split; [apply inv_le_pos; lra|]. split; [apply inv_le_pos; lra|].
    pose proof (Qinv_lt_0_compat b Hb) as Hi. revert Hi. generalize (/ b), (/ a).
    intros; lra.
  - assert (Hb : b < 0) by (apply Qnot_le_lt; intro; apply Hz; split; lra).
    assert (Ha' : a < 0) by lra.
    split; [apply inv_le_neg; lra|]. split; [apply inv_le_neg; lra|].
    pose proof (Qinv_lt_0_compat (- a) ltac:(lra)) as Hi.
    rewrite inv_opp in Hi by lra. revert Hi. generalize (/ b), (/ a).
    intros; lra.
Qed.

Lemma zpow_nonneg_pw x n : (0 <= n)%Z -> x ^ n = pw x (Z.to_nat n).
Proof. intro H. unfold pw. rewrite Z2Nat.id by assumption. reflexivity. Qed.

Lemma zpow_neg_pw x m : x ^ (Zneg m) == pw (/ x) (Pos.to_nat m).
Proof.
  unfold pw. rewrite positive_nat_Z. cbn [Qpower]. symmetry. apply Qinv_power_positive.
Qed.

Lemma between_sym v a b : between v a b -> between v b a.
Proof. unfold between. tauto. Qed.

Lemma between_comp v v' a a' b b' : v == v' -> a == a' -> b == b' -> between v' a' b' -> between v a b.
Proof. unfold between. intros. lra. Qed.

(* integer powers, interval not containing 0: p^n lies between the endpoint powers *)
Lemma zpow_between n a p b : a <= p -> p <= b -> ~ (a <= 0 /\ 0 <= b) ->
  between (p ^ n) (a ^ n) (b ^ n).
Proof.
  intros H1 H2 Hz. destruct n as [|m|m].
  - left. cbn. lra.
  - rewrite !(zpow_nonneg_pw _ (Zpos m)) by lia. apply pw_between; assumption.
  - destruct (inv_range a p b H1 H2 Hz) as (I1 & I2 & I3).
    eapply between_comp; try apply zpow_neg_pw.
    apply between_sym. apply pw_between; assumption.
Qed.

Lemma zpow_zero_in n a p b : (0 <= n)%Z -> a <= p -> p <= b -> a <= 0 -> 0 <= b ->
  qmin3 (a ^ n) (b ^ n) (0 ^ n) <= p ^ n /\ p ^ n <= qmax3 (a ^ n) (b ^ n) (0 ^ n).
Proof.
  intros Hn. rewrite !(zpow_nonneg_pw _ n Hn). apply pw_zero_in.
Qed.

(* ------------------------------------------------------------------ small facts *)
Lemma from_bounds_in v x y : between v x y -> inI v (from_bounds x y).
Proof. intro H. apply between_minmax in H. exact H. Qed.

Lemma qminmax_wf x y : qmin x y <= qmax x y.
Proof.
  destruct (qmin_cases x y) as [[-> ?]|[-> ?]], (qmax_cases x y) as [[-> ?]|[-> ?]]; lra.
Qed.
Lemma from_bounds_wf x y : wf (from_bounds x y).
Proof. apply qminmax_wf. Qed.

Lemma qmin_le_l x y : qmin x y <= x.
Proof. destruct (qmin_cases x y) as [[-> ?]|[-> ?]]; lra. Qed.
Lemma qmin_le_r x y : qmin x y <= y.
Proof. destruct (qmin_cases x y) as [[-> ?]|[-> ?]]; lra. Qed.
Lemma qmax_ge_l x y : x <= qmax x y.
Proof. destruct (qmax_cases x y) as [[-> ?]|[-> ?]]; lra. Qed.
Lemma qmax_ge_r x y : y <= qmax x y.
Proof. destruct (qmax_cases x y) as [[-> ?]|[-> ?]]; lra. Qed.

Lemma qminmax3_wf x y z : qmin3 x y z <= qmax3 x y z.
Proof.
  unfold qmin3, qmax3.
  pose proof (qmin_le_l (qmin x y) z). pose proof (qmin_le_l x y).
  pose proof (qmax_ge_l (qmax x y) z). pose proof (qmax_ge_l x y). lra.
Qed.

Lemma Qabs_cases x : (x < 0 /\ Qabs x == - x) \/ (0 <= x /\ Qabs x == x).
Proof.
  destruct (Qlt_le_dec x 0) as [H|H]; [left|right]; split; auto.
  - apply Qabs_neg. lra.
  - apply Qabs_pos. assumption.
Qed.

Lemma is_fractional_zero e : e == 0 -> is_fractional e = false.
Proof.
  intro H. unfold is_fractional. rewrite (Qred_complete e 0 H). reflexivity.
Qed.

Lemma int_of_sign_nonneg e : ~ e < 0 -> (0 <= int_of e)%Z.
Proof.
  intro H. unfold int_of. pose proof (Qred_correct e) as R.
  assert (0 <= Qred e) as H0 by (rewrite R; lra).
  unfold Qle in H0. cbn in H0. lia.
Qed.

Lemma int_of_sign_neg e : e < 0 -> (int_of e < 0)%Z.
Proof.
  intro H. unfold int_of. pose proof (Qred_correct e) as R.
  assert (Qred e < 0) as H0 by (rewrite R; lra).
  unfold Qlt in H0. cbn in H0. lia.
Qed.

(* ------------------------------------------------------------------ the operations *)
Section Ops.
Variable sqrtK : Q -> Q.
Variable logK : Q -> Q -> Q.
Variable powK : Q -> Q -> Q.
Local Notation ap := (ka_apply sqrtK logK powK).
Local Notation spow := (s_pow powK).
Local Notation slog := (s_log logK).
Local Notation ssqrt := (s_sqrt sqrtK).

Ltac inv_ok E := injection E as E; subst.

(* --- + - * / by a number *)
Lemma arith_between f a p b n v va vb :
  a <= p -> p <= b ->
  s_arith f a n = Ok va -> s_arith f b n = Ok vb -> s_arith f p n = Ok v ->
  between v va vb.
Proof.
  intros H1 H2. destruct f; cbn; try discriminate.
  - intros [= <-] [= <-] [= <-]. left. lra.
  - intros [= <-] [= <-] [= <-]. left. lra.
  - intros [= <-] [= <-] [= <-].
    destruct (Qlt_le_dec n 0); [right|left]; nra.
  - unfold s_div. destruct (qeqb_spec n 0) as [E|E]; try discriminate.
    intros [= <-] [= <-] [= <-]. unfold Qdiv.
    destruct (Qlt_le_dec n 0) as [Hn|Hn].
    + pose proof (Qinv_lt_0_compat (- n) ltac:(lra)) as Hi.
      rewrite inv_opp in Hi by assumption. revert Hi. generalize (/ n). intros. right. nra.
    + pose proof (Qinv_lt_0_compat n ltac:(lra)) as Hi. revert Hi. generalize (/ n). intros. left. nra.
Qed.

Lemma arith_defined f a p n va : In f [FAdd; FSub; FMul; FDiv] ->
  s_arith f a n = Ok va -> exists v, s_arith f p n = Ok v.
Proof.
  intros Hf. cbn in Hf. destruct Hf as [<-|[<-|[<-|[<-|[]]]]]; cbn; eauto.
  unfold s_div. destruct (qeqb n 0); [discriminate|eauto].
Qed.

Lemma iv_num_op_encl f I n p J : In f [FAdd; FSub; FMul; FDiv] -> inI p I ->
  iv_num_op f I n = Ok (VI J) ->
  exists v, s_arith f p n = Ok v /\ inI v J.
Proof.
  intros Hf [H1 H2]. unfold iv_num_op.
  destruct (s_arith f (lo I) n) as [va|] eqn:Ea; cbn; try discriminate.
  destruct (s_arith f (hi I) n) as [vb|] eqn:Eb; cbn; try discriminate.
  intros [= <-]. destruct (arith_defined f (lo I) p n va Hf Ea) as [v Ev].
  exists v. split; [assumption|]. apply from_bounds_in.
  exact (arith_between f (lo I) p (hi I) n v va vb H1 H2 Ea Eb Ev).
Qed.

Lemma iv_num_op_wf f I n J : iv_num_op f I n = Ok (VI J) -> wf J.
Proof.
  unfold iv_num_op.
  destruct (s_arith f (lo I) n); cbn; try discriminate.
  destruct (s_arith f (hi I) n); cbn; try discriminate.
  intros [= <-]. apply from_bounds_wf.
Qed.

(* point operation on numbers, as dispatch runs it *)
Lemma ap_num2 f x y : num_arity_ok f 2 = true ->
  ap f [VN x; VN y] = match f with FInterval => Ok (VI (make_interval x y))
                                 | FPm | FTol => Ok (VI (iv_plusminus x y))
                                 | _ => run_num sqrtK logK powK f [x; y] end.
Proof. destruct f; cbn; try discriminate; reflexivity. Qed.

Lemma run_num_arith f p n : In f [FAdd; FSub; FMul; FDiv] ->
  run_num sqrtK logK powK f [p; n] = (do q <- s_arith f p n; Ok (VN q)).
Proof. intros Hf. cbn in Hf. destruct Hf as [<-|[<-|[<-|[<-|[]]]]]; reflexivity. Qed.

Theorem encloses_arith_left f I x p J : In f [FAdd; FSub; FMul; FDiv] ->
  wf I -> inI p I -> ap f [VI I; VN x] = Ok (VI J) ->
  exists v, ap f [VN p; VN x] = Ok (VN v) /\ inI v J.
Proof.
  intros Hf _ Hp E.
  assert (E' : iv_num_op f I x = Ok (VI J)).
  { cbn in Hf. destruct Hf as [<-|[<-|[<-|[<-|[]]]]]; exact E. }
  destruct (iv_num_op_encl f I x p J Hf Hp E') as (v & Ev & Hv).
  exists v. split; [|assumption].
  rewrite ap_num2 by (cbn in Hf; destruct Hf as [<-|[<-|[<-|[<-|[]]]]]; reflexivity).
  assert (run_num sqrtK logK powK f [p; x] = Ok (VN v)) as R
    by (rewrite run_num_arith by assumption; rewrite Ev; reflexivity).
  cbn in Hf. destruct Hf as [<-|[<-|[<-|[<-|[]]]]]; exact R.
Qed.

(* the commutative registrations: number on the left, for + and * only *)
Theorem encloses_arith_right f I x p J : In f [FAdd; FMul] ->
  wf I -> inI p I -> ap f [VN x; VI I] = Ok (VI J) ->
  exists v, ap f [VN x; VN p] = Ok (VN v) /\ inI v J.
Proof.
  intros Hf _ Hp E.
  assert (Hf' : In f [FAdd; FSub; FMul; FDiv]) by (cbn in *; tauto).
  assert (E' : iv_num_op f I x = Ok (VI J)).
  { cbn in Hf. destruct Hf as [<-|[<-|[]]]; exact E. }
  destruct (iv_num_op_encl f I x p J Hf' Hp E') as (v & Ev & Hv).
  cbn in Hf. destruct Hf as [<-|[<-|[]]]; cbn in Ev; injection Ev as <-.
  - exists (x + p). split; [reflexivity|]. destruct Hv. split; lra.
  - exists (x * p). split; [reflexivity|]. destruct Hv. split; lra.
Qed.

Theorem unregistered_orders I x :
  ap FSub [VN x; VI I] = Raise NoMatchingFunctionSignatureError /\
  ap FDiv [VN x; VI I] = Raise NoMatchingFunctionSignatureError /\
  ap FPow [VN x; VI I] = Raise NoMatchingFunctionSignatureError /\
  ap FLog [VN x; VI I] = Raise NoMatchingFunctionSignatureError /\
  ap FContains [VN x; VI I] = Raise NoMatchingFunctionSignatureError /\
  ap FIn [VI I; VN x] = Raise NoMatchingFunctionSignatureError /\
  (forall J, ap FAdd [VI I; VI J] = Raise NoMatchingFunctionSignatureError /\
             ap FSub [VI I; VI J] = Raise NoMatchingFunctionSignatureError /\
             ap FMul [VI I; VI J] = Raise NoMatchingFunctionSignatureError /\
             ap FDiv [VI I; VI J] = Raise NoMatchingFunctionSignatureError /\
             ap FPow [VI I; VI J] = Raise NoMatchingFunctionSignatureError /\
             ap FMin [VI I; VI J] = Raise NoMatchingFunctionSignatureError /\
             ap FMax [VI I; VI J] = Raise NoMatchingFunctionSignatureError).
Proof. repeat split; reflexivity. Qed.

Theorem div_by_zero I x : x == 0 -> ap FDiv [VI I; VN x] = Raise ZeroDivisionError.
Proof.
  intro H. change (iv_num_op FDiv I x = Raise ZeroDivisionError).
  unfold iv_num_op. cbn [s_arith]. unfold s_div.
  destruct (qeqb_spec x 0); [reflexivity|contradiction].
Qed.

(* --- unary minus, unary plus, abs *)
Theorem encloses_neg I p J : wf I -> inI p I -> ap FSub [VI I] = Ok (VI J) ->
  exists v, ap FSub [VN p] = Ok (VN v) /\ inI v J.
Proof.
  intros _ [H1 H2] E. change (Ok (VI (iv_flip I)) = Ok (VI J)) in E. injection E as <-.
  exists (- p). split; [reflexivity|]. unfold inI, iv_flip; cbn. lra.
Qed.

Theorem encloses_pos I p J : wf I -> inI p I -> ap FAdd [VI I] = Ok (VI J) ->
  exists v, ap FAdd [VN p] = Ok (VN v) /\ inI v J.
Proof.
  intros _ Hp E. change (Ok (VI I) = Ok (VI J)) in E. injection E as <-.
  exists p. split; [reflexivity|assumption].
Qed.

Lemma iv_abs_in I p : inI p I -> inI (Qabs p) (iv_abs I).
Proof.
  intros [H1 H2]. unfold iv_abs, inI. cbn [lo hi].
  pose proof (Qabs_cases (lo I)) as Ca. pose proof (Qabs_cases (hi I)) as Cb.
  pose proof (Qabs_cases p) as Cp.
  destruct (truthy (contains_q I 0)) eqn:T.
  - apply truthy_contains in T. revert Ca Cb Cp.
    generalize (Qabs (lo I)) as ua, (Qabs (hi I)) as ub, (Qabs p) as up. intros.
    destruct (qmax_cases ua ub) as [[-> ?]|[-> ?]]; lra.
  - assert (~ (lo I <= 0 /\ 0 <= hi I)) as Hz
      by (intro Hc; apply truthy_contains in Hc; congruence).
    revert Ca Cb Cp.
    generalize (Qabs (lo I)) as ua, (Qabs (hi I)) as ub, (Qabs p) as up. intros.
    destruct (qmax_cases ua ub) as [[-> ?]|[-> ?]], (qmin_cases ua ub) as [[-> ?]|[-> ?]];
      lra.
Qed.

Lemma iv_abs_wf I : wf (iv_abs I).
Proof.
  unfold iv_abs, wf. cbn [lo hi].
  pose proof (Qabs_nonneg (lo I)). pose proof (qmax_ge_l (Qabs (lo I)) (Qabs (hi I))).
  destruct (truthy (contains_q I 0)); [lra|apply qminmax_wf].
Qed.

Theorem encloses_abs I p J : wf I -> inI p I -> ap FAbs [VI I] = Ok (VI J) ->
  exists v, ap FAbs [VN p] = Ok (VN v) /\ inI v J.
Proof.
  intros _ Hp E. change (Ok (VI (iv_abs I)) = Ok (VI J)) in E. injection E as <-.
  exists (Qabs p). split; [reflexivity|]. apply iv_abs_in. assumption.
Qed.

(* --- min, max *)
Lemma iv_min_in I x p : inI p I -> inI (qmin p x) (iv_min I x).
Proof.
  intros [H1 H2]. unfold iv_min, inI.
  destruct (qleb_spec (hi I) x); [|destruct (qleb_spec x (lo I))]; cbn [lo hi];
    destruct (qmin_cases p x) as [[-> ?]|[-> ?]]; lra.
Qed.
Lemma iv_max_in I x p : inI p I -> inI (qmax p x) (iv_max I x).
Proof.
  intros [H1 H2]. unfold iv_max, inI.
  destruct (qleb_spec (hi I) x); [|destruct (qleb_spec x (lo I))]; cbn [lo hi];
    destruct (qmax_cases p x) as [[-> ?]|[-> ?]]; lra.
Qed.
Lemma iv_min_wf I x : wf I -> wf (iv_min I x).
Proof.
  unfold iv_min, wf. intro W.
  destruct (qleb_spec (hi I) x); [|destruct (qleb_spec x (lo I))]; cbn [lo hi]; lra.
Qed.
Lemma iv_max_wf I x : wf I -> wf (iv_max I x).
Proof.
  unfold iv_max, wf. intro W.
  destruct (qleb_spec (hi I) x); [|destruct (qleb_spec x (lo I))]; cbn [lo hi]; lra.
Qed.

Theorem encloses_min I x p J : wf I -> inI p I ->
  (ap FMin [VI I; VN x] = Ok (VI J) ->
     exists v, ap FMin [VN p; VN x] = Ok (VN v) /\ inI v J) /\
  (ap FMin [VN x; VI I] = Ok (VI J) ->
     exists v, ap FMin [VN x; VN p] = Ok (VN v) /\ inI v J).
Proof.
  intros _ Hp. split; intro E; change (Ok (VI (iv_min I x)) = Ok (VI J)) in E;
    injection E as <-.
  - exists (qmin p x). split; [reflexivity|]. apply iv_min_in. assumption.
  - exists (qmin x p). split; [reflexivity|].
    pose proof (iv_min_in I x p Hp) as [A B]. 
    destruct (qmin_cases p x) as [[Ep ?]|[Ep ?]], (qmin_cases x p) as [[-> ?]|[-> ?]];
      rewrite Ep in *; split; lra.
Qed.

Theorem encloses_max I x p J : wf I -> inI p I ->
  (ap FMax [VI I; VN x] = Ok (VI J) ->
     exists v, ap FMax [VN p; VN x] = Ok (VN v) /\ inI v J) /\
  (ap FMax [VN x; VI I] = Ok (VI J) ->
     exists v, ap FMax [VN x; VN p] = Ok (VN v) /\ inI v J).
Proof.
  intros _ Hp. split; intro E; change (Ok (VI (iv_max I x)) = Ok (VI J)) in E;
    injection E as <-.
  - exists (qmax p x). split; [reflexivity|]. apply iv_max_in. assumption.
  - exists (qmax x p). split; [reflexivity|].
    pose proof (iv_max_in I x p Hp) as [A B]. 
    destruct (qmax_cases p x) as [[Ep ?]|[Ep ?]], (qmax_cases x p) as [[-> ?]|[-> ?]];
      rewrite Ep in *; split; lra.
Qed.

(* --- ± and tol *)
Lemma plusminus_spec x y : 
  let J := iv_plusminus x y in
  wf J /\ inI x J /\ inI (x - y) J /\ inI (x + y) J /\
  (forall t, Qabs t <= Qabs y -> inI (x + t) J) /\
  lo J == x - Qabs y /\ hi J == x + Qabs y.
Proof.
  cbn zeta. unfold iv_plusminus, from_bounds, inI, wf. cbn [lo hi].
  pose proof (Qabs_cases y) as Cy.
  assert (Ht : forall t, Qabs t <= Qabs y -> - Qabs y <= t /\ t <= Qabs y).
  { intros t Ht. pose proof (Qabs_cases t). lra. }
  destruct (qmin_cases (x - y) (x + y)) as [[-> ?]|[-> ?]],
           (qmax_cases (x - y) (x + y)) as [[-> ?]|[-> ?]];
    (split; [lra|]); (split; [split; lra|]); (split; [split; lra|]); (split; [split; lra|]);
    (split; [intros t Ht'; destruct (Ht t Ht'); split; lra|]); split; lra.
Qed.

Theorem plusminus_ok f x y : In f [FPm; FTol] ->
  exists J, ap f [VN x; VN y] = Ok (VI J) /\
    wf J /\ inI x J /\ inI (x - y) J /\ inI (x + y) J /\
    (forall t, Qabs t <= Qabs y -> inI (x + t) J) /\
    lo J == x - Qabs y /\ hi J == x + Qabs y.
Proof.
  intro Hf. exists (iv_plusminus x y). split.
  - cbn in Hf. destruct Hf as [<-|[<-|[]]]; reflexivity.
  - apply plusminus_spec.
Qed.

(* --- size, lower, upper *)
Theorem size_ok I : ap FSize [VI I] = Ok (VN (iv_size I)) /\ 0 <= iv_size I /\
  (wf I -> iv_size I == hi I - lo I).
Proof.
  split; [reflexivity|]. unfold iv_size. split; [apply Qabs_nonneg|].
  unfold wf. intro W. apply Qabs_pos. lra.
Qed.

Theorem lower_upper_ok I :
  ap FLower [VI I] = Ok (VN (lo I)) /\ ap FUpper [VI I] = Ok (VN (hi I)).
Proof. split; reflexivity. Qed.

(* --- the constructors *)
Theorem literal_ok a b :
  (a <= b -> ap FInterval [VN a; VN b] = Ok (VI (mkI a b))) /\
  (b < a -> ap FInterval [VN a; VN b] = Ok (VI (mkI 0 0))).
Proof.
  split; intro H.
  - change (Ok (VI (make_interval a b)) = Ok (VI (mkI a b))). unfold make_interval.
    destruct (qleb_spec a b); [reflexivity|contradiction].
  - change (Ok (VI (make_interval a b)) = Ok (VI (mkI 0 0))). unfold make_interval.
    destruct (qleb_spec a b); [lra|reflexivity].
Qed.

Lemma make_interval_wf a b : wf (make_interval a b).
Proof. unfold make_interval, wf. destruct (qleb_spec a b); cbn [lo hi]; lra. Qed.

(* --- sqrt *)
Lemma iv_sqrt_inv I J : iv_sqrt sqrtK I = Ok (VI J) ->
  0 <= lo I /\ 0 <= hi I /\ J = mkI (sqrtK (lo I)) (sqrtK (hi I)).
Proof.
  unfold iv_sqrt, has_negative, s_sqrt.
  destruct (qltb_spec (lo I) 0); [discriminate|].
  destruct (qltb_spec (hi I) 0); cbn; [discriminate|].
  intros [= <-]. repeat split; lra.
Qed.

Theorem encloses_sqrt I p J : sqrt_monotone sqrtK -> wf I -> inI p I ->
  ap FSqrt [VI I] = Ok (VI J) ->
  exists v, ap FSqrt [VN p] = Ok (VN v) /\ inI v J.
Proof.
  intros M _ [H1 H2] E. change (iv_sqrt sqrtK I = Ok (VI J)) in E.
  apply iv_sqrt_inv in E. destruct E as (Ha & Hb & ->).
  exists (sqrtK p). split.
  - change ((do q <- ssqrt p; Ok (VN q)) = Ok (VN (sqrtK p))). unfold s_sqrt.
    destruct (qltb_spec p 0); [lra|reflexivity].
  - split; cbn [lo hi]; apply M; lra.
Qed.

Lemma iv_sqrt_wf I J : sqrt_monotone sqrtK -> wf I -> iv_sqrt sqrtK I = Ok (VI J) -> wf J.
Proof.
  intros M W E. apply iv_sqrt_inv in E. destruct E as (Ha & Hb & ->).
  unfold wf; cbn [lo hi]. apply M; [assumption|exact W].
Qed.

Theorem rejects_sqrt I p : inI p I -> p < 0 -> ap FSqrt [VI I] = Raise KaRuntimeError.
Proof.
  intros [H1 H2] Hp. change (iv_sqrt sqrtK I = Raise KaRuntimeError).
  unfold iv_sqrt, has_negative. destruct (qltb_spec (lo I) 0); [reflexivity|lra].
Qed.

(* --- log *)
Lemma s_log_ok x base v : slog x base = Ok v ->
  0 < x /\ 0 < base /\ ~ base == 1 /\ v = logK base x.
Proof.
  unfold s_log. destruct (qleb_spec x 0); [discriminate|].
  destruct (qleb_spec base 0); cbn [orb]; [discriminate|].
  destruct (qeqb_spec base 1); [discriminate|].
  intros [= <-]. repeat split; try lra; try assumption.
Qed.

Lemma s_log_def x base : 0 < x -> 0 < base -> ~ base == 1 -> slog x base = Ok (logK base x).
Proof.
  intros Hx Hb H1. unfold s_log. destruct (qleb_spec x 0); [lra|].
  destruct (qleb_spec base 0); [lra|]. cbn [orb].
  destruct (qeqb_spec base 1); [contradiction|reflexivity].
Qed.

Lemma iv_log_inv I base J : iv_log logK I base = Ok (VI J) ->
  0 < base /\ ~ base == 1 /\ 0 < lo I /\ 0 < hi I /\
  J = from_bounds (logK base (lo I)) (logK base (hi I)).
Proof.
  unfold iv_log. destruct (qleb_spec base 0); [discriminate|].
  destruct (qleb_spec (lo I) 0); [discriminate|].
  destruct (slog (lo I) base) as [va|] eqn:Ea; cbn; [|discriminate].
  destruct (slog (hi I) base) as [vb|] eqn:Eb; cbn; [|discriminate].
  apply s_log_ok in Ea. apply s_log_ok in Eb.
  destruct Ea as (? & ? & ? & ->), Eb as (? & ? & ? & ->).
  intros [= <-]. repeat split; try lra; try assumption.
Qed.

Lemma iv_log_encl I base p J : log_monotone logK -> inI p I ->
  iv_log logK I base = Ok (VI J) ->
  slog p base = Ok (logK base p) /\ inI (logK base p) J.
Proof.
  intros [Minc Mdec] [H1 H2] E. apply iv_log_inv in E.
  destruct E as (Hb & Hb1 & Ha & Hh & ->).
  split; [apply s_log_def; try assumption; lra|].
  apply from_bounds_in.
  destruct (Qlt_le_dec 1 base) as [Hgt|Hle].
  - left. split; apply Minc; try assumption; lra.
  - assert (base < 1) by (destruct (Qlt_le_dec base 1); [assumption|exfalso; apply Hb1; lra]).
    right. split; apply Mdec; try assumption; lra.
Qed.

Lemma iv_log_wf I base J : iv_log logK I base = Ok (VI J) -> wf J.
Proof.
  intro E. apply iv_log_inv in E. destruct E as (_ & _ & _ & _ & ->). apply from_bounds_wf.
Qed.

Theorem encloses_log I base p J : log_monotone logK -> wf I -> inI p I ->
  ap FLog [VI I; VN base] = Ok (VI J) ->
  exists v, ap FLog [VN p; VN base] = Ok (VN v) /\ inI v J.
Proof.
  intros M _ Hp E. change (iv_log logK I base = Ok (VI J)) in E.
  destruct (iv_log_encl I base p J M Hp E) as [Ev Hv].
  exists (logK base p). split; [|assumption].
  change ((do q <- slog p base; Ok (VN q)) = Ok (VN (logK base p))). rewrite Ev. reflexivity.
Qed.

Theorem encloses_ln I p J : log_monotone logK -> wf I -> inI p I ->
  ap FLn [VI I] = Ok (VI J) -> exists v, ap FLn [VN p] = Ok (VN v) /\ inI v J.
Proof.
  intros M _ Hp E. change (iv_log logK I e_float = Ok (VI J)) in E.
  destruct (iv_log_encl I e_float p J M Hp E) as [Ev Hv].
  exists (logK e_float p). split; [|assumption].
  change ((do q <- slog p e_float; Ok (VN q)) = Ok (VN (logK e_float p))). rewrite Ev. reflexivity.
Qed.
Theorem encloses_log2 I p J : log_monotone logK -> wf I -> inI p I ->
  ap FLog2 [VI I] = Ok (VI J) -> exists v, ap FLog2 [VN p] = Ok (VN v) /\ inI v J.
Proof.
  intros M _ Hp E. change (iv_log logK I 2 = Ok (VI J)) in E.
  destruct (iv_log_encl I 2 p J M Hp E) as [Ev Hv].
  exists (logK 2 p). split; [|assumption].
  change ((do q <- slog p 2; Ok (VN q)) = Ok (VN (logK 2 p))). rewrite Ev. reflexivity.
Qed.
Theorem encloses_log10 I p J : log_monotone logK -> wf I -> inI p I ->
  ap FLog10 [VI I] = Ok (VI J) -> exists v, ap FLog10 [VN p] = Ok (VN v) /\ inI v J.
Proof.
  intros M _ Hp E. change (iv_log logK I 10 = Ok (VI J)) in E.
  destruct (iv_log_encl I 10 p J M Hp E) as [Ev Hv].
  exists (logK 10 p). split; [|assumption].
  change ((do q <- slog p 10; Ok (VN q)) = Ok (VN (logK 10 p))). rewrite Ev. reflexivity.
Qed.

Lemma iv_log_rejects_point I base p : inI p I -> p <= 0 ->
  iv_log logK I base = Raise KaRuntimeError.
Proof.
  intros [H1 H2] Hp. unfold iv_log. destruct (qleb_spec base 0); [reflexivity|].
  destruct (qleb_spec (lo I) 0); [reflexivity|lra].
Qed.

Theorem rejects_log I p : inI p I -> p <= 0 ->
  (forall base, ap FLog [VI I; VN base] = Raise KaRuntimeError) /\
  ap FLn [VI I] = Raise KaRuntimeError /\
  ap FLog2 [VI I] = Raise KaRuntimeError /\
  ap FLog10 [VI I] = Raise KaRuntimeError.
Proof.
  intros Hp H0. repeat split; intros; eapply iv_log_rejects_point; eassumption.
Qed.

Theorem rejects_base I base : base <= 0 \/ base == 1 ->
  ap FLog [VI I; VN base] = Raise KaRuntimeError.
Proof.
  intro H. change (iv_log logK I base = Raise KaRuntimeError). unfold iv_log.
  destruct (qleb_spec base 0); [reflexivity|].
  destruct H as [H|H]; [lra|].
  destruct (qleb_spec (lo I) 0); [reflexivity|].
  unfold s_log. destruct (qleb_spec (lo I) 0); [reflexivity|].
  destruct (qleb_spec base 0); [lra|]. cbn [orb].
  destruct (qeqb_spec base 1); [reflexivity|contradiction].
Qed.

(* --- powers *)
Lemma s_pow_int x e : is_fractional e = false ->
  spow x e = if qeqb x 0 && (int_of e <? 0)%Z then Raise ZeroDivisionError
             else Ok (x ^ int_of e).
Proof. intro H. unfold s_pow. rewrite H. reflexivity. Qed.

Lemma s_pow_frac x e : is_fractional e = true ->
  spow x e = if qltb x 0 then Raise KaRuntimeError
             else if qeqb x 0 && qltb e 0 then Raise ZeroDivisionError
             else Ok (powK x e).
Proof. intro H. unfold s_pow. rewrite H. reflexivity. Qed.

Lemma not_contains I : truthy (contains_q I 0) = false -> ~ (lo I <= 0 /\ 0 <= hi I).
Proof. intros T Hc. apply truthy_contains in Hc. congruence. Qed.

(* integer exponents: negative, zero, odd, even; interval negative, positive or across zero *)
Theorem encloses_pow_int I e p J : is_fractional e = false -> wf I -> inI p I ->
  ap FPow [VI I; VN e] = Ok (VI J) ->
  exists v, ap FPow [VN p; VN e] = Ok (VN v) /\ inI v J /\ v = p ^ int_of e.
Proof.
  intros F W [H1 H2] E. change (iv_pow powK I e = Ok (VI J)) in E.
  unfold iv_pow in E. rewrite F, andb_false_r in E.
  destruct (truthy (contains_q I 0)) eqn:T.
  - apply truthy_contains in T. destruct T as [Ta Tb].
    destruct (qltb_spec e 0) as [He|He]; [discriminate|].
    pose proof (int_of_sign_nonneg e He) as Hn.
    assert (S : forall x, spow x e = Ok (x ^ int_of e)).
    { intro x. rewrite s_pow_int by assumption.
      replace (int_of e <? 0)%Z with false by (symmetry; apply Z.ltb_ge; lia).
      rewrite andb_false_r. reflexivity. }
    rewrite !S in E. cbn [bind] in E. injection E as <-.
    exists (p ^ int_of e). split.
    + change ((do q <- spow p e; Ok (VN q)) = Ok (VN (p ^ int_of e))). rewrite S. reflexivity.
    + split; [|reflexivity]. unfold inI; cbn [lo hi]. apply zpow_zero_in; assumption.
  - apply not_contains in T.
    rewrite !s_pow_int in E by assumption.
    destruct (qeqb (lo I) 0 && (int_of e <? 0)%Z); [discriminate|].
    destruct (qeqb (hi I) 0 && (int_of e <? 0)%Z); [discriminate|].
    cbn [bind] in E. injection E as <-.
    assert (Hp : ~ p == 0) by (intro Hp; apply T; split; lra).
    exists (p ^ int_of e). split.
    + change ((do q <- spow p e; Ok (VN q)) = Ok (VN (p ^ int_of e))).
      rewrite s_pow_int by assumption.
      destruct (qeqb_spec p 0); [contradiction|]. reflexivity.
    + split; [|reflexivity]. unfold inI; cbn [lo hi]. apply between_minmax.
      apply zpow_between; assumption.
Qed.

(* non-integer exponents, under the monotonicity of x ** r *)
Theorem encloses_pow_frac I e p J : pow_monotone powK -> is_fractional e = true ->
  wf I -> inI p I -> ap FPow [VI I; VN e] = Ok (VI J) ->
  exists v, ap FPow [VN p; VN e] = Ok (VN v) /\ inI v J /\ v = powK p e.
Proof.
  intros [Minc Mdec] F W [H1 H2] E. change (iv_pow powK I e = Ok (VI J)) in E.
  unfold iv_pow, has_negative in E. rewrite F, andb_true_r in E.
  destruct (qltb_spec (lo I) 0) as [Hn|Hn]; [discriminate|].
  assert (He0 : ~ e == 0)
    by (intro Z; rewrite (is_fractional_zero e Z) in F; discriminate).
  assert (Sp : forall x, 0 <= x -> (0 < x \/ 0 < e) -> spow x e = Ok (powK x e)).
  { intros x Hx Hd. rewrite s_pow_frac by assumption.
    destruct (qltb_spec x 0); [lra|].
    destruct (qeqb_spec x 0), (qltb_spec e 0); cbn [andb]; try reflexivity. lra. }
  unfold wf in W.
  destruct (truthy (contains_q I 0)) eqn:T.
  - apply truthy_contains in T. destruct T as [Ta Tb].
    destruct (qltb_spec e 0) as [He|He]; [discriminate|].
    assert (0 < e) as Hpos by (destruct (Q_dec e 0) as [[?|?]|?]; [lra|assumption|contradiction]).
    rewrite (Sp (lo I)), (Sp (hi I)), (Sp 0) in E by (try lra; right; assumption).
    cbn [bind] in E. injection E as <-.
    exists (powK p e). split.
    + change ((do q <- spow p e; Ok (VN q)) = Ok (VN (powK p e))).
      rewrite Sp by (try lra; right; assumption). reflexivity.
    + split; [|reflexivity]. unfold inI, qmin3, qmax3; cbn [lo hi].
      assert (powK (lo I) e <= powK p e) by (apply Minc; lra).
      assert (powK p e <= powK (hi I) e) by (apply Minc; lra).
      pose proof (qmin_le_l (qmin (powK (lo I) e) (powK (hi I) e)) (powK 0 e)).
      pose proof (qmin_le_l (powK (lo I) e) (powK (hi I) e)).
      pose proof (qmax_ge_l (qmax (powK (lo I) e) (powK (hi I) e)) (powK 0 e)).
      pose proof (qmax_ge_r (powK (lo I) e) (powK (hi I) e)).
      split; lra.
  - apply not_contains in T.
    assert (0 < lo I) as Ha.
    { destruct (Qlt_le_dec 0 (lo I)); [assumption|]. exfalso. apply T. split; lra. }
    rewrite (Sp (lo I)), (Sp (hi I)) in E by (try lra; left; lra).
    cbn [bind] in E. injection E as <-.
    exists (powK p e). split.
    + change ((do q <- spow p e; Ok (VN q)) = Ok (VN (powK p e))).
      rewrite Sp by (try lra; left; lra). reflexivity.
    + split; [|reflexivity]. unfold inI; cbn [lo hi]. apply between_minmax.
      destruct (Q_dec e 0) as [[He|He]|He]; [|..|contradiction].
      * right. split; apply Mdec; lra.
      * left. split; apply Minc; lra.
Qed.

Lemma iv_pow_wf I e J : iv_pow powK I e = Ok (VI J) -> wf J.
Proof.
  unfold iv_pow. destruct (has_negative I && is_fractional e); [discriminate|].
  destruct (truthy (contains_q I 0)).
  - destruct (qltb e 0); [discriminate|].
    destruct (spow (lo I) e); cbn [bind]; [|discriminate].
    destruct (spow (hi I) e); cbn [bind]; [|discriminate].
    destruct (spow 0 e); cbn [bind]; [|discriminate].
    intros [= <-]. apply qminmax3_wf.
  - destruct (spow (lo I) e); cbn [bind]; [|discriminate].
    destruct (spow (hi I) e); cbn [bind]; [|discriminate].
    intros [= <-]. apply qminmax_wf.
Qed.

Theorem rejects_pow_negative I e : inI 0 I -> e < 0 ->
  ap FPow [VI I; VN e] = Raise KaRuntimeError.
Proof.
  intros Hz He. change (iv_pow powK I e = Raise KaRuntimeError). unfold iv_pow.
  destruct (has_negative I && is_fractional e); [reflexivity|].
  apply truthy_contains in Hz. rewrite Hz.
  destruct (qltb_spec e 0); [reflexivity|contradiction].
Qed.

Theorem rejects_pow_fractional I e p : inI p I -> p < 0 -> is_fractional e = true ->
  ap FPow [VI I; VN e] = Raise KaRuntimeError.
Proof.
  intros [H1 H2] Hp F. change (iv_pow powK I e = Raise KaRuntimeError).
  unfold iv_pow, has_negative. rewrite F.
  destruct (qltb_spec (lo I) 0); [reflexivity|lra].
Qed.

(* --- comparisons mean "for all" *)
Lemma b2q_ltb_1 x y : b2q (qltb x y) = 1 <-> x < y.
Proof. rewrite b2q_1. destruct (qltb_spec x y); split; intro; auto; discriminate. Qed.
Lemma b2q_leb_1 x y : b2q (qleb x y) = 1 <-> x <= y.
Proof. rewrite b2q_1. destruct (qleb_spec x y); split; intro; auto; discriminate. Qed.

Ltac cmp_cases Hf := cbn in Hf; destruct Hf as [<-|[<-|[<-|[<-|[]]]]].

Theorem cmp_interval_number f I x : In f cmp_names -> wf I ->
  exists r, ap f [VI I; VN x] = Ok (VN r) /\ (r = 0 \/ r = 1) /\
            (r = 1 <-> forall p, inI p I -> cmp_rel f p x).
Proof.
  intros Hf W. unfold wf in W. cmp_cases Hf.
  - exists (b2q (qltb (hi I) x)). split; [reflexivity|]. split; [apply b2q_01|].
    rewrite b2q_ltb_1. cbn [cmp_rel]. split.
    + intros H p [_ Hp]. lra.
    + intro H. apply (H (hi I)). split; lra.
  - exists (b2q (qleb (hi I) x)). split; [reflexivity|]. split; [apply b2q_01|].
    rewrite b2q_leb_1. cbn [cmp_rel]. split.
    + intros H p [_ Hp]. lra.
    + intro H. apply (H (hi I)). split; lra.
  - (* ">" : swap(num_interval["<"]) : x < lo I *)
    exists (b2q (qltb x (lo I))). split; [reflexivity|]. split; [apply b2q_01|].
    rewrite b2q_ltb_1. cbn [cmp_rel]. split.
    + intros H p [Hp _]. lra.
    + intro H. apply (H (lo I)). split; lra.
  - exists (b2q (qleb x (lo I))). split; [reflexivity|]. split; [apply b2q_01|].
    rewrite b2q_leb_1. cbn [cmp_rel]. split.
    + intros H p [Hp _]. lra.
    + intro H. apply (H (lo I)). split; lra.
Qed.

Theorem cmp_number_interval f x I : In f cmp_names -> wf I ->
  exists r, ap f [VN x; VI I] = Ok (VN r) /\ (r = 0 \/ r = 1) /\
            (r = 1 <-> forall p, inI p I -> cmp_rel f x p).
Proof.
  intros Hf W. unfold wf in W. cmp_cases Hf.
  - exists (b2q (qltb x (lo I))). split; [reflexivity|]. split; [apply b2q_01|].
    rewrite b2q_ltb_1. cbn [cmp_rel]. split.
    + intros H p [Hp _]. lra.
    + intro H. apply (H (lo I)). split; lra.
  - exists (b2q (qleb x (lo I))). split; [reflexivity|]. split; [apply b2q_01|].
    rewrite b2q_leb_1. cbn [cmp_rel]. split.
    + intros H p [Hp _]. lra.
    + intro H. apply (H (lo I)). split; lra.
  - (* ">" : swap(interval_num["<"]) : hi I < x *)
    exists (b2q (qltb (hi I) x)). split; [reflexivity|]. split; [apply b2q_01|].
    rewrite b2q_ltb_1. cbn [cmp_rel]. split.
    + intros H p [_ Hp]. lra.
    + intro H. apply (H (hi I)). split; lra.
  - exists (b2q (qleb (hi I) x)). split; [reflexivity|]. split; [apply b2q_01|].
    rewrite b2q_leb_1. cbn [cmp_rel]. split.
    + intros H p [_ Hp]. lra.
    + intro H. apply (H (hi I)). split; lra.
Qed.

Theorem cmp_interval_interval f I J : In f cmp_names -> wf I -> wf J ->
  exists r, ap f [VI I; VI J] = Ok (VN r) /\ (r = 0 \/ r = 1) /\
            (r = 1 <-> forall p q, inI p I -> inI q J -> cmp_rel f p q).
Proof.
  intros Hf WI WJ. unfold wf in WI, WJ. cmp_cases Hf.
  - exists (b2q (qltb (hi I) (lo J))). split; [reflexivity|]. split; [apply b2q_01|].
    rewrite b2q_ltb_1. cbn [cmp_rel]. split.
    + intros H p q [_ Hp] [Hq _]. lra.
    + intro H. apply (H (hi I) (lo J)); split; lra.
  - exists (b2q (qleb (hi I) (lo J))). split; [reflexivity|]. split; [apply b2q_01|].
    rewrite b2q_leb_1. cbn [cmp_rel]. split.
    + intros H p q [_ Hp] [Hq _]. lra.
    + intro H. apply (H (hi I) (lo J)); split; lra.
  - (* ">" : swap(interval_interval["<"]) : hi J < lo I *)
    exists (b2q (qltb (hi J) (lo I))). split; [reflexivity|]. split; [apply b2q_01|].
    rewrite b2q_ltb_1. cbn [cmp_rel]. split.
    + intros H p q [Hp _] [_ Hq]. lra.
    + intro H. apply (H (lo I) (hi J)); split; lra.
  - exists (b2q (qleb (hi J) (lo I))). split; [reflexivity|]. split; [apply b2q_01|].
    rewrite b2q_leb_1. cbn [cmp_rel]. split.
    + intros H p q [Hp _] [_ Hq]. lra.
    + intro H. apply (H (lo I) (hi J)); split; lra.
Qed.

(* the text `a > b` is evaluated as "<"(b, a) (parser flip): same answer as ">"(a, b) *)
Theorem surface_flip_agrees a b :
  (forall va vb, ap FGt [va; vb] = ap FLt [vb; va]) /\
  (forall va vb, ap FGe [va; vb] = ap FLe [vb; va]) /\
  surface_cmp FGt a b = E2 FLt b a /\ surface_cmp FGe a b = E2 FLe b a.
Proof.
  repeat split; intros va vb; destruct va, vb; reflexivity.
Qed.

(* --- membership *)
Lemma contains_q_spec I x :
  (contains_q I x = 0 \/ contains_q I x = 1) /\ (contains_q I x = 1 <-> inI x I).
Proof.
  unfold contains_q, inI.
  destruct (qleb_spec (lo I) x), (qleb_spec x (hi I)); cbn; split; auto;
    split; intro H; try discriminate; tauto.
Qed.

Theorem in_ok x I :
  exists r, ap FIn [VN x; VI I] = Ok (VN r) /\ ap FContains [VI I; VN x] = Ok (VN r) /\
            (r = 0 \/ r = 1) /\ (r = 1 <-> lo I <= x /\ x <= hi I).
Proof.
  exists (contains_q I x). split; [reflexivity|]. split; [reflexivity|]. apply contains_q_spec.
Qed.

(* --- == and != *)
Theorem eq_neq_ok I J :
  exists r s, ap FEq [VI I; VI J] = Ok (VN r) /\ ap FNe [VI I; VI J] = Ok (VN s) /\
    (r = 0 \/ r = 1) /\ (s = 0 \/ s = 1) /\ r + s == 1 /\
    (r = 1 <-> lo I == lo J /\ hi I == hi J) /\
    (s = 1 <-> ~ (lo I == lo J /\ hi I == hi J)).
Proof.
  exists (iv_eq I J), (1 - iv_eq I J). split; [reflexivity|]. split; [reflexivity|].
  unfold iv_eq.
  destruct (qeqb_spec (lo I) (lo J)), (qeqb_spec (hi I) (hi J)); cbn;
    (split; [auto|]); (split; [auto|]); (split; [reflexivity|]);
    split; split; intro H; try discriminate; try tauto; reflexivity.
Qed.

(* --- every operation returns a well-formed interval *)
Lemma num_fold_VN g l v : num_fold g l = Ok v -> exists q, v = VN q.
Proof. destruct l; cbn; [discriminate|]. intros [= <-]. eauto. Qed.

Lemma run_num_VN f xs v : run_num sqrtK logK powK f xs = Ok v -> exists q, v = VN q.
Proof.
  destruct f; try (apply num_fold_VN);
    destruct xs as [|x [|y [|z r]]]; cbn [run_num]; try discriminate;
    try (intros [= <-]; eauto; fail);
    try (match goal with |- context [bind ?c _] => destruct c; cbn [bind]; [|discriminate] end;
         intros [= <-]; eauto).
Qed.

Lemma run_body_wf b args v : sqrt_monotone sqrtK -> Forall wfv args ->
  run_body sqrtK logK powK b args = Ok v -> wfv v.
Proof.
  intros M Hw.
  assert (Hn : forall f l, run_num sqrtK logK powK f l = Ok v -> wfv v).
  { intros f l E. apply run_num_VN in E. destruct E as [q ->]. exact Logic.I. }
  destruct b; try (apply Hn);
    destruct args as [|[x|A] [|[y|B] [|c r]]]; cbn [run_body]; try discriminate;
    try (intros [= <-]; exact Logic.I);
    repeat match goal with
    | H : Forall wfv (_ :: _) |- _ => inversion H; subst; clear H
    end; cbn [wfv] in *.
  all: try (intro E; destruct v as [q|J]; [exact Logic.I|]; cbn [wfv]).
  all: try (eapply iv_num_op_wf; eassumption).
  all: try (eapply iv_pow_wf; eassumption).
  all: try (eapply iv_log_wf; eassumption).
  all: try (eapply iv_sqrt_wf; eassumption).
  all: try (injection E as <-).
  all: try assumption.
  all: try (apply iv_abs_wf).
  all: try (apply iv_max_wf; assumption).
  all: try (apply iv_min_wf; assumption).
  all: try (apply make_interval_wf).
  all: try (apply from_bounds_wf).
  - unfold iv_flip, wf in *. cbn [lo hi]. lra.
Qed.

Theorem apply_wf f args v : sqrt_monotone sqrtK -> Forall wfv args ->
  ap f args = Ok v -> wfv v.
Proof.
  intros M Hw. unfold ka_apply. destruct (resolve f (map kind_of args)); [|discriminate].
  apply run_body_wf; assumption.
Qed.

Theorem eval_wf e v : sqrt_monotone sqrtK -> eval sqrtK logK powK e = Ok v -> wfv v.
Proof.
  intro M. revert v. induction e as [q|f a IHa|f a IHa b IHb]; intro v; cbn [eval].
  - intros [= <-]. exact Logic.I.
  - destruct (eval sqrtK logK powK a) as [va|]; cbn [bind]; [|discriminate].
    apply apply_wf; [assumption|]. constructor; [apply IHa; reflexivity|constructor].
  - destruct (eval sqrtK logK powK a) as [va|]; cbn [bind]; [|discriminate].
    destruct (eval sqrtK logK powK b) as [vb|]; cbn [bind]; [|discriminate].
    apply apply_wf; [assumption|].
    constructor; [apply IHa; reflexivity|]. constructor; [apply IHb; reflexivity|constructor].
Qed.

End Ops.
