(* IntervalProofs.v — lemmas for C07 (Properties/C07.v states the theorems). *)
From Coq Require Import QArith Qpower Qabs Qreduction Lia Lqa Bool.
From Ka Require Import Model.Interval.
Open Scope Q_scope.

(* ------------------------------------------------------------------ booleans *)
Lemma qleb_spec a b : reflect (a <= b) (qleb a b).
Proof. unfold qleb. apply iff_reflect. symmetry. apply Qle_bool_iff. Qed.

Lemma qltb_spec a b : reflect (a < b) (qltb a b).
Proof.
  unfold qltb. destruct (Qle_bool b a) eqn:E; cbn; constructor.
  - apply Qle_bool_iff in E. lra.
  - apply Qnot_le_lt. intro H. apply Qle_bool_iff in H. congruence.
Qed.

Lemma qeqb_spec a b : reflect (a == b) (qeqb a b).
Proof. unfold qeqb. apply iff_reflect. symmetry. apply Qeq_bool_iff. Qed.

Lemma qmin_cases a b : (qmin a b = a /\ a <= b) \/ (qmin a b = b /\ b < a).
Proof. unfold qmin. destruct (qltb_spec b a); [right|left]; split; auto; lra. Qed.
Lemma qmax_cases a b : (qmax a b = a /\ b <= a) \/ (qmax a b = b /\ a < b).
Proof. unfold qmax. destruct (qltb_spec a b); [right|left]; split; auto; lra. Qed.

Lemma b2q_01 b : b2q b = 0 \/ b2q b = 1.
Proof. destruct b; auto. Qed.
Lemma b2q_1 b : b2q b = 1 <-> b = true.
Proof. destruct b; cbn; split; intro H; auto; discriminate. Qed.

Lemma truthy_contains I x : truthy (contains_q I x) = true <-> lo I <= x /\ x <= hi I.
Proof.
  unfold truthy, contains_q.
  destruct (qleb_spec (lo I) x), (qleb_spec x (hi I)); cbn; split; intro H;
    try discriminate; try tauto; reflexivity.
Qed.

(* ------------------------------------------------------------------ integer powers *)
Definition pw (x : Q) (k : nat) : Q := x ^ Z.of_nat k.

Lemma pw_0 x : pw x 0 == 1.
Proof. reflexivity. Qed.

Lemma pw_S x k : pw x (S k) == x * pw x k.
Proof.
  unfold pw. rewrite Nat2Z.inj_succ. unfold Z.succ. rewrite Z.add_comm.
  rewrite Qpower_plus' by lia. rewrite Qpower_1_r. reflexivity.
Qed.

Lemma pw_nonneg x k : 0 <= x -> 0 <= pw x k.
Proof. intro H. apply Qpower_0_le. exact H. Qed.

Lemma pw_pos x k : 0 < x -> 0 < pw x k.
Proof. intro H. apply Qpower_0_lt. exact H. Qed.

Lemma pw_mono x y k : 0 <= x -> x <= y -> pw x k <= pw y k.
Proof.
  intros Hx Hxy. induction k as [|k IH].
  - rewrite !pw_0. lra.
  - rewrite !pw_S. pose proof (pw_nonneg x k Hx). nra.
Qed.

Lemma pw_opp x k : pw (- x) k == (if Nat.even k then 1 else -1) * pw x k.
Proof.
  induction k as [|k IH].
  - rewrite !pw_0. cbn. lra.
  - rewrite !pw_S, IH. rewrite Nat.even_succ, <- Nat.negb_even.
    destruct (Nat.even k); cbn [negb]; ring.
Qed.

Lemma pw_comp x y k : x == y -> pw x k == pw y k.
Proof. intro H. unfold pw. rewrite H. reflexivity. Qed.

Lemma pw_neg_odd x k : Nat.even k = false -> pw x k == - pw (- x) k.
Proof. intro E. pose proof (pw_opp x k) as H. rewrite E in H. lra. Qed.
Lemma pw_neg_even x k : Nat.even k = true -> pw x k == pw (- x) k.
Proof. intro E. pose proof (pw_opp x k) as H. rewrite E in H. lra. Qed.

Lemma pw_mono_odd x y k : Nat.even k = false -> x <= y -> pw x k <= pw y k.
Proof.
  intros E Hxy.
  destruct (Qlt_le_dec x 0) as [Hx|Hx]; [|apply pw_mono; assumption].
  rewrite (pw_neg_odd x k E).
  destruct (Qlt_le_dec y 0) as [Hy|Hy].
  - rewrite (pw_neg_odd y k E).
    assert (pw (- y) k <= pw (- x) k) by (apply pw_mono; lra). lra.
  - pose proof (pw_nonneg (- x) k ltac:(lra)). pose proof (pw_nonneg y k Hy). lra.
Qed.

Definition between (v a b : Q) : Prop := (a <= v /\ v <= b) \/ (b <= v /\ v <= a).

Lemma pw_even_upper a p b k : Nat.even k = true -> a <= p -> p <= b ->
  pw p k <= pw a k \/ pw p k <= pw b k.
Proof.
  intros E H1 H2. destruct (Qlt_le_dec p 0) as [Hp|Hp].
  - left. rewrite (pw_neg_even p k E), (pw_neg_even a k E). apply pw_mono; lra.
  - right. apply pw_mono; assumption.
Qed.

Lemma pw_even_nonneg p k : Nat.even k = true -> 0 <= pw p k.
Proof.
  intro E. destruct (Qlt_le_dec p 0) as [Hp|Hp].
  - rewrite (pw_neg_even p k E). apply pw_nonneg. lra.
  - apply pw_nonneg. assumption.
Qed.

Lemma pw_between a p b k : a <= p -> p <= b -> ~ (a <= 0 /\ 0 <= b) ->
  between (pw p k) (pw a k) (pw b k).
Proof.
  intros H1 H2 Hz. destruct (Nat.even k) eqn:E.
  - destruct (Qlt_le_dec 0 a) as [Ha|Ha].
    + left. split; apply pw_mono; lra.
    + assert (b < 0) by (apply Qnot_le_lt; intro; apply Hz; split; lra).
      right. rewrite (pw_neg_even p k E), (pw_neg_even a k E), (pw_neg_even b k E).
      split; apply pw_mono; lra.
  - left. split; apply pw_mono_odd; assumption.
Qed.

Lemma between_minmax v a b : between v a b -> qmin a b <= v /\ v <= qmax a b.
Proof.
  intros [[H1 H2]|[H1 H2]];
    destruct (qmin_cases a b) as [[-> ?]|[-> ?]], (qmax_cases a b) as [[-> ?]|[-> ?]]; lra.
Qed.

Lemma pw_zero_in a p b k : a <= p -> p <= b -> a <= 0 -> 0 <= b ->
  qmin3 (pw a k) (pw b k) (pw 0 k) <= pw p k /\ pw p k <= qmax3 (pw a k) (pw b k) (pw 0 k).
Proof.
  intros H1 H2 Ha Hb. unfold qmin3, qmax3.
  assert (Hlo : pw a k <= pw p k \/ pw b k <= pw p k \/ pw 0 k <= pw p k).
  { destruct k as [|k]; [left; rewrite !pw_0; lra|].
    destruct (Nat.even (S k)) eqn:E.
    - right; right. rewrite (pw_S 0 k). pose proof (pw_even_nonneg p (S k) E). lra.
    - left. apply pw_mono_odd; assumption. }
  assert (Hhi : pw p k <= pw a k \/ pw p k <= pw b k).
  { destruct (Nat.even k) eqn:E.
    - apply pw_even_upper; assumption.
    - right. apply pw_mono_odd; assumption. }
  destruct (qmin_cases (pw a k) (pw b k)) as [[Em ?]|[Em ?]];
  destruct (qmin_cases (qmin (pw a k) (pw b k)) (pw 0 k)) as [[-> ?]|[-> ?]];
  destruct (qmax_cases (pw a k) (pw b k)) as [[EM ?]|[EM ?]];
  destruct (qmax_cases (qmax (pw a k) (pw b k)) (pw 0 k)) as [[-> ?]|[-> ?]];
  rewrite ?Em, ?EM in *; lra.
Qed.

Lemma inv_le_pos u w : 0 < u -> u <= w -> / w <= / u.
Proof.
  intros Hu Huw. apply Qle_shift_inv_l; [assumption|].
  setoid_replace (/ w * u) with (u / w) by (unfold Qdiv; ring).
  apply Qle_shift_div_r; lra.
Qed.

Lemma inv_opp x : ~ x == 0 -> / (- x) == - / x.
Proof. intro H. field. assumption. Qed.

Lemma inv_le_neg u w : w < 0 -> u <= w -> / w <= / u.
Proof.
  intros Hw Huw.
  assert (H : / (- u) <= / (- w)) by (apply inv_le_pos; lra).
  rewrite !inv_opp in H by lra. lra.
Qed.

Lemma inv_range a p b : a <= p -> p <= b -> ~ (a <= 0 /\ 0 <= b) ->
  / b <= / p /\ / p <= / a /\ ~ (/ b <= 0 /\ 0 <= / a).
Proof.
  intros H1 H2 Hz. destruct (Qlt_le_dec 0 a) as [Ha|Ha].
  - assert (Hb : 0 < b) by lra.
    split; [apply inv_le_pos; lra|]. split; [apply inv_le_pos; lra|].
    pose proof (Qinv_lt_0_compat b Hb) as Hi. revert Hi. generalize (/ b), (/ a).
    intros; lra.
  - assert (Hb : b < 0) by (apply Qnot_le_lt; intro; apply Hz; split; lra).
    assert (Ha' : a < 0) by lra.
    split; [apply inv_le_neg; lra|]. split; [apply inv_le_neg; lra|].
    pose proof (Qinv_lt_0_compat (- a) ltac:(lra)) as Hi.
    rewrite inv_opp in Hi by lra. revert Hi. generalize (/ b), (/ a).
    intros; lra.
Qed.

Lemma zpow_nonneg_pw x n : (0 <= n)%Z -> x ^ n = pw x (Z.to_nat n).
Proof. intro H. unfold pw. rewrite Z2Nat.id by assumption. reflexivity. Qed.

Lemma zpow_neg_pw x m : x ^ (Zneg m) == pw (/ x) (Pos.to_nat m).
Proof.
  unfold pw. rewrite positive_nat_Z. cbn [Qpower]. symmetry. apply Qinv_power_positive.
Qed.

Lemma between_sym v a b : between v a b -> between v b a.
Proof. unfold between. tauto. Qed.

Lemma between_comp v v' a a' b b' : v == v' -> a == a' -> b == b' -> between v' a' b' -> between v a b.
Proof. unfold between. intros. lra. Qed.

(* integer powers, interval not containing 0: p^n lies between the endpoint powers *)
Lemma zpow_between n a p b : a <= p -> p <= b -> ~ (a <= 0 /\ 0 <= b) ->
  between (p ^ n) (a ^ n) (b ^ n).
Proof.
  intros H1 H2 Hz. destruct n as [|m|m].
  - left. cbn. lra.
  - rewrite !(zpow_nonneg_pw _ (Zpos m)) by lia. apply pw_between; assumption.
  - destruct (inv_range a p b H1 H2 Hz) as (I1 & I2 & I3).
    eapply between_comp; try apply zpow_neg_pw.
    apply between_sym. apply pw_between; assumption.
Qed.

Lemma zpow_zero_in n a p b : (0 <= n)%Z -> a <= p -> p <= b -> a <= 0 -> 0 <= b ->
  qmin3 (a ^ n) (b ^ n) (0 ^ n) <= p ^ n /\ p ^ n <= qmax3 (a ^ n) (b ^ n) (0 ^ n).
Proof.
  intros Hn. rewrite !(zpow_nonneg_pw _ n Hn). apply pw_zero_in.
Qed.
