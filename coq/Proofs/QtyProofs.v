From Coq Require Import Qround Qpower Qabs Qcanon Lia Lqa Qfield.
From Ka Require Import Model.Num Proofs.NumProofs Model.Qty.
Local Open Scope Z_scope.

(* ---------- dimension vectors (zip semantics, no length side conditions) ---------- *)
Lemma vadd_comm a : forall b, vadd a b = vadd b a.
Proof. induction a as [|x a IH]; intros [|y b]; cbn; auto. rewrite IH. f_equal. lia. Qed.

Lemma vadd_assoc a : forall b c, vadd (vadd a b) c = vadd a (vadd b c).
Proof. induction a as [|x a IH]; intros [|y b] [|z c]; cbn; auto. rewrite IH. f_equal. lia. Qed.

Lemma vneg_vadd a : forall b, vneg (vadd a b) = vadd (vneg a) (vneg b).
Proof. induction a as [|x a IH]; intros [|y b]; cbn; auto. fold (vneg (vadd a b)). rewrite IH. f_equal. lia. Qed.

Lemma vscale_neg e d : vscale (- e) d = vneg (vscale e d).
Proof. unfold vscale, vneg. rewrite map_map. apply map_ext. intro. lia. Qed.

Lemma veqb_refl a : veqb a a = true.
Proof. induction a as [|x a IH]; cbn; auto. rewrite Z.eqb_refl, IH. reflexivity. Qed.

Lemma veqb_eq a : forall b, veqb a b = true -> a = b.
Proof.
  induction a as [|x a IH]; intros [|y b]; cbn; try discriminate; auto.
  intro H. apply andb_true_iff in H. destruct H as [H1 H2]. apply Z.eqb_eq in H1. f_equal; auto.
Qed.

Lemma vadd_zero n : vadd (vzero n) (vzero n) = vzero n.
Proof. unfold vzero. induction n; cbn; auto. f_equal. exact IHn. Qed.
Lemma vneg_zero n : vneg (vzero n) = vzero n.
Proof. unfold vzero, vneg. induction n; cbn; auto. f_equal. exact IHn. Qed.
Lemma vsub_zero n : vsub (vzero n) (vzero n) = vzero n.
Proof. unfold vsub. rewrite vneg_zero. apply vadd_zero. Qed.

(* ---------- compose_units computes the signature's dimension ---------- *)
Definition dstep (acc : dimvec) (ue : unit * Z) : dimvec := vadd acc (vscale (snd ue) (ud (fst ue))).

Lemma compose_loop_dim n specs : forall qv m o qv' m' o',
  compose_loop n specs qv m o = Ok (qv', m', o') -> qv' = fold_left dstep specs qv.
Proof.
  induction specs as [|[u e] rest IH]; intros qv m o qv' m' o' H; cbn [compose_loop fold_left] in *.
  - injection H as <- _ _. reflexivity.
  - destruct (if num_is_one (um u) then Ok m
              else match n_pow (um u) (NInt e) with Raise x => Raise x | Ok p => n_mul m p end) as [m1|]; [|discriminate].
    destruct (negb (num_is_zero (uo u)) && (1 <? Z.of_nat n)); [discriminate|].
    destruct (negb (num_is_zero (uo u)) && negb (e =? 1)); [discriminate|].
    apply IH in H. exact H.
Qed.

Lemma fold_shift l : forall z w, fold_left dstep l (vadd z w) = vadd (fold_left dstep l z) w.
Proof.
  induction l as [|x l IH]; intros z w; cbn [fold_left]; [reflexivity|].
  unfold dstep at 2 4. rewrite <- IH. f_equal.
  rewrite !vadd_assoc. f_equal. apply vadd_comm.
Qed.

Lemma fold_neg l : forall z zero,
  fold_left dstep (map (fun ue => (fst ue, - snd ue)) l) z = vadd z (vneg (fold_left dstep l zero))
  \/ True.
Proof. intros; right; exact I. Qed.

Lemma fold_neg_eq l : forall z n,
  (forall u e, In (u, e) l -> List.length (ud u) = n) ->
  List.length z = n ->
  fold_left dstep (map (fun ue => (fst ue, - snd ue)) l) z
  = vadd z (vneg (fold_left dstep l (vzero n))).
Proof.
  (* proved through the general accumulator form below *)
  assert (G : forall l z w, fold_left dstep (map (fun ue => (fst ue, - snd ue)) l) (vadd z (vneg w))
                            = vadd z (vneg (fold_left dstep l w))).
  { induction l0 as [|[u e] l0 IH]; intros z0 w; cbn [map fold_left]; [reflexivity|].
    unfold dstep at 2 4. cbn [fst snd]. rewrite <- IH. f_equal.
    rewrite vneg_vadd, vscale_neg, vadd_assoc. reflexivity. }
  intros z n Hl Hz.
  specialize (G l z (vzero n)).
  assert (E : vadd z (vneg (vzero n)) = z).
  { rewrite vneg_zero. subst n. clear. unfold vzero. induction z as [|x z IH]; cbn; auto. f_equal; [lia|exact IH]. }
  rewrite E in G. exact G.
Qed.

Definition wf_sig (n : nat) (s : usig) : Prop :=
  forall u e, In (u, e) (fst s ++ snd s) -> List.length (ud u) = n.

Lemma fold_length l : forall z n,
  (forall u e, In (u, e) l -> List.length (ud u) = n) -> List.length z = n ->
  List.length (fold_left dstep l z) = n.
Proof.
  induction l as [|[u e] l IH]; intros z n Hl Hz; cbn [fold_left]; [exact Hz|].
  apply IH; [intros; eapply Hl; right; eassumption|].
  unfold dstep. cbn [fst snd].
  assert (Lu : List.length (ud u) = n) by (eapply Hl; left; reflexivity).
  clear -Hz Lu. unfold vscale. revert z Hz. generalize (ud u) Lu. clear.
  induction n; intros d Ld z Lz; destruct d, z; cbn in *; try lia. f_equal. apply IHn; lia.
Qed.

Theorem compose_units_dim n s qv m o :
  wf_sig n s -> compose_units n s = Ok (qv, m, o) -> qv = sig_dim n s.
Proof.
  intros W H. unfold compose_units in H. apply compose_loop_dim in H.
  unfold specs_of in H. rewrite fold_left_app in H.
  rewrite (fold_neg_eq (snd s) _ n) in H.
  - unfold sig_dim, vsub. exact H.
  - intros u e I. eapply W. apply in_or_app. right. exact I.
  - apply fold_length; [|unfold vzero; apply repeat_length].
    intros u e I. eapply W. apply in_or_app. left. exact I.
Qed.

(* ---------- C03: the dimension of every result is the one computed from the units ---------- *)
Fixpoint wf_expr (n : nat) (e : qexpr) : Prop :=
  match e with
  | QLit _ => True
  | QTag e s | QConv e s => wf_expr n e /\ wf_sig n s
  | QBin _ a b | QCmp _ a b => wf_expr n a /\ wf_expr n b
  | QNeg e => wf_expr n e
  end.

Lemma lift_q_dim n v : snd (lift_q n v) = qdim n v.
Proof. destruct v; reflexivity. Qed.

Ltac fin := let H := fresh "H" in intro H; injection H as <-; try reflexivity.
Ltac bad := let Hx := fresh "Hx" in intro Hx; cbn beta iota in Hx; discriminate Hx.
Ltac dd t := destruct t; [|bad].

Theorem qeval_dimension n e : wf_expr n e ->
  forall v, qeval n e = Ok v -> dim_spec n e = Some (is_q v, qdim n v).
Proof.
  induction e as [a|e IH s|o a IHa b IHb|c a IHa b IHb|e IH s|e IH]; intros W v; cbn [qeval dim_spec].
  - dd (aeval a). fin.
  - destruct W as [We Ws]. destruct (qeval n e) as [v'|] eqn:E; [|bad].
    rewrite (IH We v' eq_refl). unfold make_quantity. destruct v' as [mag|]. 2:{ bad. }
    cbn [is_q]. destruct (compose_units n s) as [[[qv m] o]|] eqn:Cu; [|bad].
    dd (n_mul m mag). dd (n_add a o). fin. cbn [is_q qdim].
    rewrite (compose_units_dim n s qv m o Ws Cu). reflexivity.
  - destruct W as [Wa Wb].
    destruct (qeval n a) as [va|] eqn:Ea; [|bad].
    destruct (qeval n b) as [vb|] eqn:Eb; [|bad].
    rewrite (IHa Wa va eq_refl), (IHb Wb vb eq_refl). unfold q_binop.
    destruct va as [x|m1 d1], vb as [y|m2 d2]; cbn [is_q negb andb lift_q qdim orb].
    + dd (qop_num o x y). fin. cbn [is_q qdim].
      destruct o; rewrite ?veqb_refl, ?vadd_zero, ?vsub_zero; reflexivity.
    + destruct o.
      * destruct (veqb (vzero n) d2) eqn:V; [|bad]. cbn [negb qop_num]. dd (n_add x m2). fin.
      * destruct (veqb (vzero n) d2) eqn:V; [|bad]. cbn [negb qop_num]. dd (n_sub x m2). fin.
      * dd (n_mul x m2). fin.
      * dd (n_div x m2). fin.
    + destruct o.
      * destruct (veqb d1 (vzero n)) eqn:V; [|bad]. cbn [negb qop_num]. dd (n_add m1 y). fin.
      * destruct (veqb d1 (vzero n)) eqn:V; [|bad]. cbn [negb qop_num]. dd (n_sub m1 y). fin.
      * dd (n_mul m1 y). fin.
      * dd (n_div m1 y). fin.
    + destruct o.
      * destruct (veqb d1 d2) eqn:V; [|bad]. cbn [negb qop_num]. dd (n_add m1 m2). fin.
      * destruct (veqb d1 d2) eqn:V; [|bad]. cbn [negb qop_num]. dd (n_sub m1 m2). fin.
      * dd (n_mul m1 m2). fin.
      * dd (n_div m1 m2). fin.
  - destruct W as [Wa Wb].
    assert (Sym : forall p q, veqb p q = veqb q p).
    { induction p as [|x p IHp]; intros [|y q]; cbn; auto. rewrite IHp, Z.eqb_sym. reflexivity. }
    destruct (swapped c).
    + destruct (qeval n b) as [vb|] eqn:Eb; [|bad].
      destruct (qeval n a) as [va|] eqn:Ea; [|bad].
      rewrite (IHa Wa va eq_refl), (IHb Wb vb eq_refl). unfold q_cmp.
      destruct va as [x|m1 d1], vb as [y|m2 d2]; cbn [is_q negb andb lift_q qdim].
      * dd (qcmp_num (flip_cmp c) y x). fin. rewrite veqb_refl. reflexivity.
      * rewrite (Sym (vzero n) d2). destruct (veqb d2 (vzero n)); [|bad]. cbn [negb]. dd (qcmp_num (flip_cmp c) m2 x). fin.
      * rewrite (Sym d1 (vzero n)). destruct (veqb (vzero n) d1); [|bad]. cbn [negb]. dd (qcmp_num (flip_cmp c) y m1). fin.
      * rewrite (Sym d1 d2). destruct (veqb d2 d1); [|bad]. cbn [negb]. dd (qcmp_num (flip_cmp c) m2 m1). fin.
    + destruct (qeval n a) as [va|] eqn:Ea; [|bad].
      destruct (qeval n b) as [vb|] eqn:Eb; [|bad].
      rewrite (IHa Wa va eq_refl), (IHb Wb vb eq_refl). unfold q_cmp.
      destruct va as [x|m1 d1], vb as [y|m2 d2]; cbn [is_q negb andb lift_q qdim].
      * dd (qcmp_num c x y). fin. rewrite veqb_refl. reflexivity.
      * destruct (veqb (vzero n) d2); [|bad]. cbn [negb]. dd (qcmp_num c x m2). fin.
      * destruct (veqb d1 (vzero n)); [|bad]. cbn [negb]. dd (qcmp_num c m1 y). fin.
      * destruct (veqb d1 d2); [|bad]. cbn [negb]. dd (qcmp_num c m1 m2). fin.
  - destruct W as [We Ws]. destruct (qeval n e) as [v'|] eqn:E; [|bad].
    rewrite (IH We v' eq_refl). unfold convert_quantity.
    destruct (compose_units n s) as [[[qv m] o]|] eqn:Cu; [|bad].
    destruct v' as [x|mag d]; [bad|]. cbn [is_q qdim].
    destruct (veqb qv d) eqn:V; [|bad]. cbn [negb].
    dd (n_sub mag o). dd (n_div a m). fin.
    rewrite <- (compose_units_dim n s qv m o Ws Cu), V. reflexivity.
  - destruct (qeval n e) as [v'|] eqn:E; [|bad]. rewrite (IH W v' eq_refl).
    unfold q_neg. destruct v' as [x|m d].
    + dd (n_neg x). fin.
    + dd (n_neg m). fin.
Qed.

Corollary mismatch_rejected n e : wf_expr n e -> dim_spec n e = None -> forall v, qeval n e <> Ok v.
Proof. intros W D v H. rewrite (qeval_dimension n e W v H) in D. discriminate. Qed.

(* a plain number behaves as a dimensionless quantity on either side of every operator *)
Lemma number_is_dimensionless_l n o x m d :
  q_binop n o (VN x) (VQ m d) = q_binop n o (VQ x (vzero n)) (VQ m d).
Proof. reflexivity. Qed.
Lemma number_is_dimensionless_r n o x m d :
  q_binop n o (VQ m d) (VN x) = q_binop n o (VQ m d) (VQ x (vzero n)).
Proof. reflexivity. Qed.
Lemma number_is_dimensionless_cmp_l n c x m d :
  q_cmp n c (VN x) (VQ m d) = q_cmp n c (VQ x (vzero n)) (VQ m d).
Proof. reflexivity. Qed.
Lemma number_is_dimensionless_cmp_r n c x m d :
  q_cmp n c (VQ m d) (VN x) = q_cmp n c (VQ m d) (VQ x (vzero n)).
Proof. reflexivity. Qed.

(* the dimension does not depend on multiples, offsets, prefixes or spellings: only on the
   units' dimension vectors *)
Definition strip_unit (u : unit) : unit := {| ud := ud u; um := NInt 1; uo := NInt 0 |}.
Definition strip_sig (s : usig) : usig :=
  (map (fun ue => (strip_unit (fst ue), snd ue)) (fst s), map (fun ue => (strip_unit (fst ue), snd ue)) (snd s)).
Fixpoint strip (e : qexpr) : qexpr :=
  match e with
  | QLit a => QLit a
  | QTag e s => QTag (strip e) (strip_sig s)
  | QBin o a b => QBin o (strip a) (strip b)
  | QCmp c a b => QCmp c (strip a) (strip b)
  | QConv e s => QConv (strip e) (strip_sig s)
  | QNeg e => QNeg (strip e)
  end.

Lemma fold_strip l : forall z,
  fold_left (fun acc ue => vadd acc (vscale (snd ue) (ud (fst ue)))) (map (fun ue => (strip_unit (fst ue), snd ue)) l) z
  = fold_left (fun acc ue => vadd acc (vscale (snd ue) (ud (fst ue)))) l z.
Proof. induction l as [|x l IH]; intro z; cbn [map fold_left]; [reflexivity|]. rewrite IH. reflexivity. Qed.

Lemma sig_dim_strip n s : sig_dim n (strip_sig s) = sig_dim n s.
Proof. unfold sig_dim, strip_sig. cbn [fst snd]. rewrite !fold_strip. reflexivity. Qed.

Theorem dim_spec_spelling_independent n e : dim_spec n (strip e) = dim_spec n e.
Proof.
  induction e as [a|e IH s|o a IHa b IHb|c a IHa b IHb|e IH s|e IH]; cbn [strip dim_spec]; auto.
  - rewrite IH, sig_dim_strip. reflexivity.
  - rewrite IHa, IHb. reflexivity.
  - rewrite IHa, IHb. reflexivity.
  - rewrite IH, sig_dim_strip. reflexivity.
Qed.

(* ====================================================================================== *)
(* C04: magnitudes are exactly what rational arithmetic on base-unit values gives          *)
Local Open Scope Q_scope.

(* a unit whose factor and offset are int/Fraction, an int factor other than 1 being used with
   a non-negative exponent (Python's int ** negative is a float) *)
Definition exact_unit_for (u : unit) (e : Z) : Prop :=
  exact (um u) /\ exact (uo u) /\
  match um u with NInt x => x = 1%Z \/ (0 <= e)%Z | _ => True end.
Definition rational_sig (s : usig) : Prop :=
  forall u e, In (u, e) (specs_of s) -> exact_unit_for u e.

Fixpoint rational_expr (e : qexpr) : Prop :=
  match e with
  | QLit a => denote a <> OutOfClass
  | QTag e s | QConv e s => rational_expr e /\ rational_sig s
  | QBin _ a b | QCmp _ a b => rational_expr a /\ rational_expr b
  | QNeg e => rational_expr e
  end.

Definition fstep (acc : Q) (ue : unit * Z) : Q := acc * Qpower (toQ (um (fst ue))) (snd ue).

Lemma fold_fstep_comp l : forall a a', a == a' -> fold_left fstep l a == fold_left fstep l a'.
Proof.
  induction l as [|x l IH]; intros a a' H; cbn [fold_left]; [exact H|].
  apply IH. unfold fstep. rewrite H. reflexivity.
Qed.

Lemma Qeqb_true a b : Qeqb a b = true <-> a == b.
Proof. unfold Qeqb. rewrite Qeq_alt. destruct (a ?= b); split; congruence. Qed.

Lemma Qis_zero_false q : Qis_zero q = false -> ~ q == 0.
Proof. intros H X. apply Qis_zero_spec in X. congruence. Qed.

Definition goodv (v : num) (q : Q) : Prop := toQ v == q /\ canonical v /\ exact v.
Lemma good_goodv r q : good r q -> exists v, r = Ok v /\ goodv v q.
Proof. intros (v & -> & A & B & C). exists v. repeat split; assumption. Qed.

Lemma pow_step u e m m1 :
  exact m -> exact_unit_for u e ->
  (if num_is_one (um u) then Ok m
   else match n_pow (um u) (NInt e) with Raise x => Raise x | Ok p => n_mul m p end) = Ok m1 ->
  exact m1 /\ toQ m1 == toQ m * Qpower (toQ (um u)) e.
Proof.
  intros Em (Eu & Eo & Hx) H.
  destruct (num_is_one (um u)) eqn:One.
  - injection H as <-. split; [exact Em|]. unfold num_is_one in One. apply Qeqb_true in One.
    rewrite One, Qpower_1. ring.
  - assert (P : exists p, n_pow (um u) (NInt e) = Ok p /\ exact p /\ toQ p == Qpower (toQ (um u)) e).
    { unfold n_pow. unfold exact in Eu. rewrite Eu.
      destruct (um u) as [x|q|q] eqn:U; try discriminate.
      - destruct Hx as [->|Hx].
        + exfalso. unfold num_is_one in One. cbn in One. discriminate.
        + destruct (Z.leb_spec 0 e); [|lia]. eexists. split; [reflexivity|]. split; [apply exact_norm|apply toQ_norm].
      - destruct (0 <=? e)%Z; eexists; (split; [reflexivity|]); (split; [apply exact_norm|apply toQ_norm]). }
    destruct P as (p & Pp & Ep & Vp). rewrite Pp in H.
    destruct (good_goodv _ _ (mul_correct m p (toQ m) (toQ p) Em Ep (Qeq_refl _) (Qeq_refl _))) as (v & Hv & Gv & _ & Ev).
    rewrite Hv in H. injection H as <-. split; [exact Ev|]. rewrite Gv, Vp. reflexivity.
Qed.

Definition last_off (specs : list (unit * Z)) (o : Q) : Q :=
  match specs with
  | [] => o
  | l => toQ (uo (fst (last l (Build_unit [] (NInt 1) (NInt 0), 0%Z))))
  end.

Lemma compose_loop_mag n specs : forall qv m o qv' m' o',
  (forall u e, In (u, e) specs -> exact_unit_for u e) -> exact m -> exact o ->
  compose_loop n specs qv m o = Ok (qv', m', o') ->
  exact m' /\ exact o' /\ toQ m' == fold_left fstep specs (toQ m) /\ toQ o' == last_off specs (toQ o).
Proof.
  induction specs as [|[u e] rest IH]; intros qv m o qv' m' o' R Em Eo H; cbn [compose_loop] in H.
  - injection H as _ <- <-. cbn. repeat split; try assumption; reflexivity.
  - pose proof (R u e (or_introl eq_refl)) as Ru.
    destruct (if num_is_one (um u) then Ok m
              else match n_pow (um u) (NInt e) with Raise x => Raise x | Ok p => n_mul m p end) as [m1|] eqn:S; [|discriminate].
    destruct (pow_step u e m m1 Em Ru S) as [Em1 Vm1].
    destruct (negb (num_is_zero (uo u)) && (1 <? Z.of_nat n)%Z); [discriminate|].
    destruct (negb (num_is_zero (uo u)) && negb (e =? 1)%Z); [discriminate|].
    destruct Ru as (_ & Eou & _).
    destruct (IH _ _ _ _ _ _ (fun u' e' I => R u' e' (or_intror I)) Em1 Eou H) as (A & B & C & D).
    split; [exact A|]. split; [exact B|]. split.
    + cbn [fold_left]. rewrite C. apply fold_fstep_comp. unfold fstep. cbn [fst snd]. exact Vm1.
    + rewrite D. destruct rest as [|x rest']; cbn [last_off last]; reflexivity.
Qed.

Lemma compose_units_mag n s qv m o :
  rational_sig s -> compose_units n s = Ok (qv, m, o) ->
  exact m /\ exact o /\ toQ m == sig_factor s /\ toQ o == sig_offset s.
Proof.
  intros R H. unfold compose_units in H.
  assert (E1 : exact (NInt 1)) by reflexivity. assert (E0 : exact (NInt 0)) by reflexivity.
  destruct (compose_loop_mag _ _ _ _ _ _ _ _ R E1 E0 H) as (A & B & Cc & D).
  split; [exact A|]. split; [exact B|]. split.
  - rewrite Cc. unfold sig_factor. apply fold_fstep_comp. reflexivity.
  - rewrite D. unfold sig_offset, last_off. destruct (specs_of s); reflexivity.
Qed.

Lemma Qcompare_compQ a a' b b' : a == a' -> b == b' -> (a ?= b) = (a' ?= b').
Proof. intros H1 H2. apply Qcompare_comp; assumption. Qed.

Theorem qeval_magnitude n e : rational_expr e ->
  forall v, qeval n e = Ok v -> exists q, mag_spec e = MVal q /\ goodv (qmag v) q.
Proof.
  induction e as [a|e IH s|o a IHa b IHb|c a IHa b IHb|e IH s|e IH]; intros R v; cbn [qeval mag_spec].
  - cbn in R. destruct (denote a) as [q| |] eqn:D; [| |congruence].
    + destruct (aeval_exact a q D) as (va & -> & Hv & Cv & Ev). fin. exists q. repeat split; assumption.
    + rewrite (aeval_divzero a D). bad.
  - destruct R as [Re Rs]. destruct (qeval n e) as [v'|] eqn:E; [|bad].
    destruct (IH Re v' eq_refl) as (x & -> & Gx & Cx & Ex).
    unfold make_quantity. destruct v' as [mag|]; [|bad]. cbn [qmag] in *.
    destruct (compose_units n s) as [[[qv m] o]|] eqn:Cu; [|bad].
    destruct (compose_units_mag n s qv m o Rs Cu) as (Em & Eo & Vm & Vo).
    destruct (good_goodv _ _ (mul_correct m mag _ _ Em Ex Vm Gx)) as (t & -> & Gt & Ct & Et).
    destruct (good_goodv _ _ (add_correct t o _ _ Et Eo Gt Vo)) as (r & -> & Gr & Cr & Er).
    fin. exists (sig_factor s * x + sig_offset s). repeat split; assumption.
  - destruct R as [Ra Rb].
    destruct (qeval n a) as [va|] eqn:Ea; [|bad]. destruct (qeval n b) as [vb|] eqn:Eb; [|bad].
    destruct (IHa Ra va eq_refl) as (x & -> & Gx & Cx & Ex).
    destruct (IHb Rb vb eq_refl) as (y & -> & Gy & Cy & Ey).
    assert (K : forall m1 m2 r, qmag va = m1 -> qmag vb = m2 -> qop_num o m1 m2 = Ok r ->
                exists q, match o with
                          | QAdd => MVal (x + y) | QSub => MVal (x - y) | QMul => MVal (x * y)
                          | QDiv => if Qis_zero y then MErr else MVal (x / y)
                          end = MVal q /\ goodv r q).
    { intros m1 m2 r <- <- Hr. destruct o; cbn [qop_num] in Hr.
      - destruct (good_goodv _ _ (add_correct _ _ _ _ Ex Ey Gx Gy)) as (r' & Hr' & G). rewrite Hr' in Hr. injection Hr as <-. eauto.
      - destruct (good_goodv _ _ (sub_correct _ _ _ _ Ex Ey Gx Gy)) as (r' & Hr' & G). rewrite Hr' in Hr. injection Hr as <-. eauto.
      - destruct (good_goodv _ _ (mul_correct _ _ _ _ Ex Ey Gx Gy)) as (r' & Hr' & G). rewrite Hr' in Hr. injection Hr as <-. eauto.
      - destruct (Qis_zero y) eqn:Z.
        + rewrite (div_zero _ _ _ Gy Z) in Hr. discriminate.
        + destruct (good_goodv _ _ (div_correct _ _ _ _ Ex Ey Gx Gy Z)) as (r' & Hr' & G). rewrite Hr' in Hr. injection Hr as <-. eauto. }
    unfold q_binop.
    destruct va as [x1|m1 d1], vb as [y1|m2 d2]; cbn [is_q negb andb lift_q qmag] in *.
    + destruct (qop_num o x1 y1) as [r|] eqn:Hr; [|bad]. fin. eapply K; eauto.
    + destruct o; cbn [qop_num] in K.
      * destruct (veqb (vzero n) d2); [|bad]. cbn [negb qop_num]. destruct (n_add x1 m2) as [r|] eqn:Hr; [|bad]. fin. eapply K; eauto.
      * destruct (veqb (vzero n) d2); [|bad]. cbn [negb qop_num]. destruct (n_sub x1 m2) as [r|] eqn:Hr; [|bad]. fin. eapply K; eauto.
      * destruct (n_mul x1 m2) as [r|] eqn:Hr; [|bad]. fin. eapply K; eauto.
      * destruct (n_div x1 m2) as [r|] eqn:Hr; [|bad]. fin. eapply K; eauto.
    + destruct o; cbn [qop_num] in K.
      * destruct (veqb d1 (vzero n)); [|bad]. cbn [negb qop_num]. destruct (n_add m1 y1) as [r|] eqn:Hr; [|bad]. fin. eapply K; eauto.
      * destruct (veqb d1 (vzero n)); [|bad]. cbn [negb qop_num]. destruct (n_sub m1 y1) as [r|] eqn:Hr; [|bad]. fin. eapply K; eauto.
      * destruct (n_mul m1 y1) as [r|] eqn:Hr; [|bad]. fin. eapply K; eauto.
      * destruct (n_div m1 y1) as [r|] eqn:Hr; [|bad]. fin. eapply K; eauto.
    + destruct o; cbn [qop_num] in K.
      * destruct (veqb d1 d2); [|bad]. cbn [negb qop_num]. destruct (n_add m1 m2) as [r|] eqn:Hr; [|bad]. fin. eapply K; eauto.
      * destruct (veqb d1 d2); [|bad]. cbn [negb qop_num]. destruct (n_sub m1 m2) as [r|] eqn:Hr; [|bad]. fin. eapply K; eauto.
      * destruct (n_mul m1 m2) as [r|] eqn:Hr; [|bad]. fin. eapply K; eauto.
      * destruct (n_div m1 m2) as [r|] eqn:Hr; [|bad]. fin. eapply K; eauto.
  - destruct R as [Ra Rb].
    assert (Flip : forall p q, swapped c = true -> qcmp_num (flip_cmp c) q p = qcmp_num c p q).
    { intros p q Sw. destruct c; try discriminate; reflexivity. }
    assert (K : forall va vb x y r, goodv (qmag va) x -> goodv (qmag vb) y ->
       qcmp_num c (qmag va) (qmag vb) = Ok r ->
       goodv r (if match c with
                   | QLt => Qltb x y | QLe => Qleb x y | QEq => Qeqb x y
                   | QNe => negb (Qeqb x y) | QGt => Qltb y x | QGe => Qleb y x
                   end then 1 else 0)).
    { intros va vb x y r (Gx & _) (Gy & _) Hr.
      pose proof (Qcompare_compQ _ _ _ _ Gx Gy) as C1. pose proof (Qcompare_compQ _ _ _ _ Gy Gx) as C2.
      destruct c; cbn [qcmp_num] in Hr; unfold n_lt, n_le, n_eq, n_ne, n_gt, n_ge, Qltb, Qleb, Qeqb in *;
        injection Hr as <-; rewrite ?C1, ?C2;
        match goal with |- goodv (b2n ?b) _ => destruct b end; cbn; repeat split; reflexivity. }
    destruct (swapped c) eqn:Sw.
    + destruct (qeval n b) as [vb|] eqn:Eb; [|bad]. destruct (qeval n a) as [va|] eqn:Ea; [|bad].
      destruct (IHa Ra va eq_refl) as (x & -> & Ga).
      destruct (IHb Rb vb eq_refl) as (y & -> & Gb).
      unfold q_cmp.
      destruct va as [x1|m1 d1], vb as [y1|m2 d2]; cbn [is_q negb andb lift_q].
      * rewrite (Flip x1 y1 eq_refl). destruct (qcmp_num c x1 y1) as [r|] eqn:Hr; [|bad]. fin.
        eexists; split; [reflexivity|]. eapply (K (VN x1) (VN y1)); eauto.
      * destruct (veqb d2 (vzero n)); [|bad]. cbn [negb]. rewrite (Flip x1 m2 eq_refl).
        destruct (qcmp_num c x1 m2) as [r|] eqn:Hr; [|bad]. fin.
        eexists; split; [reflexivity|]. eapply (K (VN x1) (VQ m2 d2)); eauto.
      * destruct (veqb (vzero n) d1); [|bad]. cbn [negb]. rewrite (Flip m1 y1 eq_refl).
        destruct (qcmp_num c m1 y1) as [r|] eqn:Hr; [|bad]. fin.
        eexists; split; [reflexivity|]. eapply (K (VQ m1 d1) (VN y1)); eauto.
      * destruct (veqb d2 d1); [|bad]. cbn [negb]. rewrite (Flip m1 m2 eq_refl).
        destruct (qcmp_num c m1 m2) as [r|] eqn:Hr; [|bad]. fin.
        eexists; split; [reflexivity|]. eapply (K (VQ m1 d1) (VQ m2 d2)); eauto.
    + destruct (qeval n a) as [va|] eqn:Ea; [|bad]. destruct (qeval n b) as [vb|] eqn:Eb; [|bad].
      destruct (IHa Ra va eq_refl) as (x & -> & Ga).
      destruct (IHb Rb vb eq_refl) as (y & -> & Gb).
      unfold q_cmp.
      destruct va as [x1|m1 d1], vb as [y1|m2 d2]; cbn [is_q negb andb lift_q].
      * destruct (qcmp_num c x1 y1) as [r|] eqn:Hr; [|bad]. fin.
        eexists; split; [reflexivity|]. eapply (K (VN x1) (VN y1)); eauto.
      * destruct (veqb (vzero n) d2); [|bad]. cbn [negb].
        destruct (qcmp_num c x1 m2) as [r|] eqn:Hr; [|bad]. fin.
        eexists; split; [reflexivity|]. eapply (K (VN x1) (VQ m2 d2)); eauto.
      * destruct (veqb d1 (vzero n)); [|bad]. cbn [negb].
        destruct (qcmp_num c m1 y1) as [r|] eqn:Hr; [|bad]. fin.
        eexists; split; [reflexivity|]. eapply (K (VQ m1 d1) (VN y1)); eauto.
      * destruct (veqb d1 d2); [|bad]. cbn [negb].
        destruct (qcmp_num c m1 m2) as [r|] eqn:Hr; [|bad]. fin.
        eexists; split; [reflexivity|]. eapply (K (VQ m1 d1) (VQ m2 d2)); eauto.
  - destruct R as [Re Rs]. destruct (qeval n e) as [v'|] eqn:E; [|bad].
    destruct (IH Re v' eq_refl) as (x & -> & Gx & Cx & Ex).
    unfold convert_quantity.
    destruct (compose_units n s) as [[[qv m] o]|] eqn:Cu; [|bad].
    destruct (compose_units_mag n s qv m o Rs Cu) as (Em & Eo & Vm & Vo).
    destruct v' as [x1|mag d]; [bad|]. cbn [qmag] in *.
    destruct (veqb qv d); [|bad]. cbn [negb].
    destruct (good_goodv _ _ (sub_correct mag o _ _ Ex Eo Gx Vo)) as (t & -> & Gt & Ct & Et).
    destruct (Qis_zero (sig_factor s)) eqn:Z.
    + rewrite (div_zero t m _ Vm Z). bad.
    + destruct (good_goodv _ _ (div_correct t m _ _ Et Em Gt Vm Z)) as (r & -> & Gr).
      fin. eexists; split; [reflexivity|exact Gr].
  - destruct (qeval n e) as [v'|] eqn:E; [|bad].
    destruct (IH R v' eq_refl) as (x & -> & Gx & Cx & Ex).
    unfold q_neg. destruct v' as [x1|m1 d1]; cbn [qmag] in *.
    + destruct (good_goodv _ _ (unop_correct UNeg x1 x (- x) Ex Cx Gx eq_refl)) as (r & Hr & Gr).
      cbn [unop_eval] in Hr. rewrite Hr. fin. eexists; split; [reflexivity|exact Gr].
    + destruct (good_goodv _ _ (unop_correct UNeg m1 x (- x) Ex Cx Gx eq_refl)) as (r & Hr & Gr).
      cbn [unop_eval] in Hr. rewrite Hr. fin. eexists; split; [reflexivity|exact Gr].
Qed.

(* integral magnitudes are delivered as integers *)
Corollary qeval_integral n e v q z : rational_expr e -> qeval n e = Ok v ->
  mag_spec e = MVal q -> q == inject_Z z -> qmag v = NInt z.
Proof.
  intros R H M Hz. destruct (qeval_magnitude n e R v H) as (q' & M' & G & Cc & Ee).
  rewrite M in M'. injection M' as <-.
  apply canonical_toQ_eq; try assumption; try exact I; try reflexivity.
  cbn. rewrite G. exact Hz.
Qed.

(* the stated consequences, at the level of the specification (they transfer to the evaluator
   through qeval_magnitude) *)
Lemma spec_to_self e s x : mag_spec e = MVal x -> ~ sig_factor s == 0 ->
  exists q, mag_spec (QConv (QTag e s) s) = MVal q /\ q == x.
Proof.
  intros M F. cbn [mag_spec]. rewrite M.
  destruct (Qis_zero (sig_factor s)) eqn:Z; [apply Qis_zero_spec in Z; contradiction|].
  eexists; split; [reflexivity|]. field. exact F.
Qed.

Lemma spec_roundtrip e s1 s2 x : mag_spec e = MVal x -> ~ sig_factor s1 == 0 -> ~ sig_factor s2 == 0 ->
  exists q, mag_spec (QConv (QTag (QConv (QTag e s1) s2) s2) s1) = MVal q /\ q == x.
Proof.
  intros M F1 F2. cbn [mag_spec]. rewrite M.
  destruct (Qis_zero (sig_factor s2)) eqn:Z2; [apply Qis_zero_spec in Z2; contradiction|].
  destruct (Qis_zero (sig_factor s1)) eqn:Z1; [apply Qis_zero_spec in Z1; contradiction|].
  eexists; split; [reflexivity|]. field. split; assumption.
Qed.

Lemma spec_halve e s x : mag_spec e = MVal x -> ~ sig_factor s == 0 -> sig_offset s == 0 ->
  exists q, mag_spec (QConv (QBin QDiv (QTag e s) (QLit (ALit 2))) s) = MVal q /\ q == x / 2.
Proof.
  intros M F O. cbn [mag_spec denote]. rewrite M. cbn [Qis_zero Qnum inject_Z Z.eqb].
  destruct (Qis_zero (sig_factor s)) eqn:Z; [apply Qis_zero_spec in Z; contradiction|].
  eexists; split; [reflexivity|]. rewrite O. field. exact F.
Qed.

Lemma spec_distrib_add e1 e2 s1 s2 x y :
  mag_spec e1 = MVal x -> mag_spec e2 = MVal y -> ~ sig_factor s1 == 0 ->
  sig_offset s1 == 0 -> sig_offset s2 == 0 ->
  exists q, mag_spec (QConv (QBin QAdd (QTag e1 s1) (QTag e2 s2)) s1) = MVal q
            /\ q == x + (sig_factor s2 * y) / sig_factor s1.
Proof.
  intros M1 M2 F O1 O2. cbn [mag_spec]. rewrite M1, M2.
  destruct (Qis_zero (sig_factor s1)) eqn:Z; [apply Qis_zero_spec in Z; contradiction|].
  eexists; split; [reflexivity|]. rewrite O1, O2. field. exact F.
Qed.

Lemma spec_distrib_scale e k s1 s2 x :
  mag_spec e = MVal x -> ~ sig_factor s2 == 0 -> sig_offset s1 == 0 -> sig_offset s2 == 0 ->
  exists q, mag_spec (QConv (QBin QMul (QLit (ALit k)) (QTag e s1)) s2) = MVal q
            /\ q == inject_Z k * ((sig_factor s1 * x) / sig_factor s2).
Proof.
  intros M F O1 O2. cbn [mag_spec denote]. rewrite M.
  destruct (Qis_zero (sig_factor s2)) eqn:Z; [apply Qis_zero_spec in Z; contradiction|].
  eexists; split; [reflexivity|]. rewrite O1, O2. field. exact F.
Qed.

(* degC / degF style units: affine in both directions *)
Lemma spec_offset_units x s1 s2 : ~ sig_factor s2 == 0 ->
  exists q, mag_spec (QConv (QTag (QLit (ALit x)) s1) s2) = MVal q
            /\ q == (sig_factor s1 * inject_Z x + sig_offset s1 - sig_offset s2) / sig_factor s2.
Proof.
  intros F. cbn [mag_spec denote].
  destruct (Qis_zero (sig_factor s2)) eqn:Z; [apply Qis_zero_spec in Z; contradiction|].
  eexists; split; reflexivity.
Qed.
