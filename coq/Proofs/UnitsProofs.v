(* UnitsProofs.v — lemmas about the unit lookup model (Model/Units.v).  General statements
   hold for ANY registry; the table-specific facts are in GenFacts/UnitFacts.v and are lifted
   here from the boolean checkers to propositions. *)
From Coq Require Import Arith Lia Qabs.
From Ka Require Import Model.Units.
Local Open Scope string_scope.

(* ------------------------------------------------------------------ dict_get *)
Lemma dict_get_In {A} k (v : A) l : dict_get k l = Some v -> In (k, v) l.
Proof.
  induction l as [|[k' v'] l IH]; cbn; [discriminate|].
  destruct (String.eqb k k') eqn:E.
  - intros [= ->]. apply String.eqb_eq in E. subst. left; reflexivity.
  - intro H. right. auto.
Qed.

Lemma dict_get_none_notin {A} k l : dict_get k l = None -> forall v : A, ~ In (k, v) l.
Proof.
  induction l as [|[k' v'] l IH]; cbn; [intros _ v []|].
  destruct (String.eqb k k') eqn:E; [discriminate|].
  intros H v [[= -> ->]|Hin].
  - rewrite String.eqb_refl in E. discriminate.
  - exact (IH H v Hin).
Qed.

Lemma keys_unique_get {A} k (v : A) l : keys_unique l = true -> In (k, v) l -> dict_get k l = Some v.
Proof.
  induction l as [|[k' v'] l IH]; cbn; [contradiction|].
  rewrite andb_true_iff, negb_true_iff. intros [Hn Hu] [[= -> ->]|Hin].
  - rewrite String.eqb_refl. reflexivity.
  - destruct (String.eqb k k') eqn:E; [|auto].
    apply String.eqb_eq in E; subst. exfalso.
    destruct (dict_get k' l) eqn:G; [discriminate|].
    exact (dict_get_none_notin _ _ G _ Hin).
Qed.

(* ------------------------------------------------------------------ prefixes of strings *)
Lemma prefix_app a s : String.prefix a (a ++ s) = true.
Proof.
  induction a as [|c a IH]; cbn.
  - destruct s; reflexivity.
  - destruct (Ascii.ascii_dec c c) as [_|N]; [exact IH|contradiction].
Qed.

Lemma drop_app a s : drop (String.length a) (a ++ s) = s.
Proof. induction a as [|c a IH]; cbn; [reflexivity|exact IH]. Qed.

Lemma prefix_drop a : forall w, String.prefix a w = true -> w = a ++ drop (String.length a) w.
Proof.
  induction a as [|c a IH]; intros w H; cbn.
  - reflexivity.
  - destruct w as [|d w]; cbn in H; [discriminate|].
    destruct (Ascii.ascii_dec c d) as [->|N]; [|discriminate].
    cbn. f_equal. apply IH. exact H.
Qed.

(* ------------------------------------------------------------------ same_reading *)
Lemma same_reading_refl x : same_reading x x = true.
Proof.
  destruct x; cbn; try reflexivity.
  rewrite Nat.eqb_refl, Bool.eqb_reflx, andb_true_r. cbn.
  apply Qeq_bool_iff. reflexivity.
Qed.

Lemma same_reading_apply R x pi p i u :
  same_reading x (apply_prefix R pi p i) = true -> nth_error (r_units R) i = Some u ->
  (q_is_zero (u_offset u) = true ->
     exists sb m, x = LUnit i sb m (kind_exact (p_kind p) && unit_exact u) /\ m == p_mult p * u_mult u)
  /\ (q_is_zero (u_offset u) = false -> x = LInvalidPrefix).
Proof.
  unfold apply_prefix. intros H Hu. rewrite Hu in H.
  destruct (q_is_zero (u_offset u)); split; intro Z; try discriminate.
  - destruct x as [| | |j sb m e]; cbn in H; try discriminate.
    apply andb_true_iff in H. destruct H as [H He]. apply andb_true_iff in H. destruct H as [Hj Hm].
    apply Nat.eqb_eq in Hj. apply Qeq_bool_iff in Hm. apply Bool.eqb_prop in He. subst.
    exists sb, m. split; [reflexivity|exact Hm].
  - destruct x; cbn in H; try discriminate. reflexivity.
Qed.

(* ------------------------------------------------------------------ a registered spelling wins *)
Lemma wf_parts R : registry_wf R = true ->
  keys_unique (r_names R) = true /\ keys_unique (r_symbols R) = true
  /\ dicts_consistent R = true /\ indices_valid R = true.
Proof.
  unfold registry_wf. rewrite !andb_true_iff. intros [[[A B] C] D]. auto.
Qed.

Lemma valid_index R n i : indices_valid R = true ->
  In (n, i) (r_names R) \/ In (n, i) (r_symbols R) -> exists u, nth_error (r_units R) i = Some u.
Proof.
  unfold indices_valid. rewrite andb_true_iff, !forallb_forall. intros [A B] H.
  assert (L : (i < List.length (r_units R))%nat).
  { destruct H as [H|H]; [apply A in H|apply B in H]; cbn in H; apply Nat.ltb_lt in H; exact H. }
  destruct (nth_error (r_units R) i) eqn:E; [eauto|].
  apply nth_error_None in E. lia.
Qed.

Theorem registered_wins R n i :
  registry_wf R = true ->
  In (n, i) (r_names R) \/ In (n, i) (r_symbols R) ->
  exists u, nth_error (r_units R) i = Some u
            /\ lookup_unit_in R n = LUnit i None (u_mult u) (unit_exact u).
Proof.
  intros WF H. destruct (wf_parts R WF) as (KN & KS & CO & IV).
  destruct (valid_index R n i IV H) as [u Hu]. exists u. split; [exact Hu|].
  unfold lookup_unit_in.
  destruct H as [H|H].
  - rewrite (keys_unique_get _ _ _ KN H). unfold plain. rewrite Hu. reflexivity.
  - unfold dicts_consistent in CO. rewrite forallb_forall in CO. specialize (CO _ H). cbn in CO.
    destruct (dict_get n (r_names R)) as [j|].
    + apply Nat.eqb_eq in CO. subst j. unfold plain. rewrite Hu. reflexivity.
    + rewrite (keys_unique_get _ _ _ KS H). unfold plain. rewrite Hu. reflexivity.
Qed.

(* dict form, no well-formedness needed: names are consulted first, then symbols *)
Theorem registered_wins_dict R n :
  (forall i, dict_get n (r_names R) = Some i -> lookup_unit_in R n = plain R i)
  /\ (forall i, dict_get n (r_names R) = None -> dict_get n (r_symbols R) = Some i ->
                lookup_unit_in R n = plain R i).
Proof.
  unfold lookup_unit_in. split.
  - intros i ->. reflexivity.
  - intros i -> ->. reflexivity.
Qed.

(* ------------------------------------------------------------------ the prefix loop *)
Lemma name_split_app R p s : name_split R p (p_name p ++ s) = dict_get s (r_names R).
Proof. unfold name_split. rewrite prefix_app, drop_app. reflexivity. Qed.
Lemma symbol_split_app R p s : symbol_split R p (p_symbol p ++ s) = dict_get s (r_symbols R).
Proof. unfold symbol_split. rewrite prefix_app, drop_app. reflexivity. Qed.

Lemma loop_earlier R want w : forall qs qi rest,
  earlier_agree R want qi qs w = true ->
  same_reading (prefix_loop R qi (qs ++ rest) w) want = true
  \/ prefix_loop R qi (qs ++ rest) w = prefix_loop R (qi + List.length qs)%nat rest w.
Proof.
  induction qs as [|q qs IH]; intros qi rest H; cbn [app List.length].
  - right. rewrite Nat.add_0_r. reflexivity.
  - cbn [earlier_agree] in H. apply andb_true_iff in H. destruct H as [H H3].
    apply andb_true_iff in H. destruct H as [H1 H2].
    cbn [prefix_loop]. unfold try_prefix.
    destruct (name_split R q w) as [j|].
    + left. exact H1.
    + destruct (symbol_split R q w) as [j|].
      * left. exact H2.
      * replace (qi + S (List.length qs))%nat with (S qi + List.length qs)%nat by lia.
        apply IH. exact H3.
Qed.

Lemma loop_none R w : forall qs qi rest,
  earlier_none R qs w = true ->
  prefix_loop R qi (qs ++ rest) w = prefix_loop R (qi + List.length qs)%nat rest w.
Proof.
  induction qs as [|q qs IH]; intros qi rest H; cbn [app List.length].
  - rewrite Nat.add_0_r. reflexivity.
  - cbn [earlier_none] in H. apply andb_true_iff in H. destruct H as [H H3].
    apply andb_true_iff in H. destruct H as [H1 H2].
    cbn [prefix_loop]. unfold try_prefix.
    destruct (name_split R q w); [discriminate|].
    destruct (symbol_split R q w); [discriminate|].
    replace (qi + S (List.length qs))%nat with (S qi + List.length qs)%nat by lia.
    apply IH. exact H3.
Qed.

Lemma split_at {A} (l : list A) n a : nth_error l n = Some a ->
  exists l2, l = (firstn n l ++ a :: l2)%list /\ List.length (firstn n l) = n.
Proof.
  intro H. destruct (nth_error_split l n H) as (l1 & l2 & -> & Hlen).
  exists l2. rewrite firstn_app, <- Hlen, Nat.sub_diag, firstn_all. cbn. rewrite app_nil_r. auto.
Qed.

Lemma not_registered R w : registered R w = false ->
  dict_get w (r_names R) = None /\ dict_get w (r_symbols R) = None.
Proof.
  unfold registered. intro H. apply orb_false_iff in H. destruct H as [A B].
  destruct (dict_get w (r_names R)); [discriminate|]. destruct (dict_get w (r_symbols R)); [discriminate|]. auto.
Qed.

Definition combined (by_symbol : bool) (p : gprefix) (s : string) : string :=
  (if by_symbol then p_symbol p else p_name p) ++ s.

(* ANY registry: a prefixed spelling without another reading is that prefix on that unit *)
Theorem prefix_scaling_general (R : registry) (by_symbol : bool) (pi : nat) (p : gprefix) (s : string) (i : nat) :
  nth_error (r_prefixes R) pi = Some p ->
  dict_get s (if by_symbol then r_symbols R else r_names R) = Some i ->
  no_other_reading R by_symbol pi p i (combined by_symbol p s) = true ->
  same_reading (lookup_unit_in R (combined by_symbol p s)) (apply_prefix R pi p i) = true.
Proof.
  intros Hp Hs H. unfold no_other_reading in H.
  apply andb_true_iff in H. destruct H as [H Hself]. apply andb_true_iff in H. destruct H as [Hreg Hear].
  apply negb_true_iff in Hreg. destruct (not_registered _ _ Hreg) as [N1 N2].
  unfold lookup_unit_in. rewrite N1, N2.
  destruct (split_at _ _ _ Hp) as (l2 & Hl & Hlen).
  rewrite Hl at 1.
  destruct (loop_earlier R _ _ _ 0%nat (p :: l2) Hear) as [L|L]; [exact L|].
  rewrite L, Hlen. cbn [Nat.add prefix_loop]. unfold try_prefix.
  destruct by_symbol; unfold combined in *.
  - destruct (name_split R p (p_symbol p ++ s)) as [j|].
    + exact Hself.
    + rewrite symbol_split_app, Hs. apply same_reading_refl.
  - rewrite name_split_app, Hs. apply same_reading_refl.
Qed.

(* the strict form gives the result itself *)
Theorem prefix_scaling_strict (R : registry) (by_symbol : bool) (pi : nat) (p : gprefix) (s : string) (i : nat) :
  nth_error (r_prefixes R) pi = Some p ->
  dict_get s (if by_symbol then r_symbols R else r_names R) = Some i ->
  no_reading_before R by_symbol pi p (combined by_symbol p s) = true ->
  lookup_unit_in R (combined by_symbol p s) = apply_prefix R pi p i.
Proof.
  intros Hp Hs H. unfold no_reading_before in H.
  apply andb_true_iff in H. destruct H as [H Hself]. apply andb_true_iff in H. destruct H as [Hreg Hear].
  apply negb_true_iff in Hreg. destruct (not_registered _ _ Hreg) as [N1 N2].
  unfold lookup_unit_in. rewrite N1, N2.
  destruct (split_at _ _ _ Hp) as (l2 & Hl & Hlen).
  rewrite Hl at 1. rewrite (loop_none R _ _ 0%nat (p :: l2) Hear), Hlen.
  cbn [Nat.add prefix_loop]. unfold try_prefix.
  destruct by_symbol; unfold combined in *.
  - destruct (name_split R p (p_symbol p ++ s)) as [j|]; [discriminate|].
    rewrite symbol_split_app, Hs. reflexivity.
  - rewrite name_split_app, Hs. reflexivity.
Qed.

(* apply_prefix: exact scaling or refusal *)
Theorem apply_prefix_spec R pi p i u :
  nth_error (r_units R) i = Some u ->
  (q_is_zero (u_offset u) = true ->
     apply_prefix R pi p i = LUnit i (Some pi) (p_mult p * u_mult u) (kind_exact (p_kind p) && unit_exact u))
  /\ (q_is_zero (u_offset u) = false -> apply_prefix R pi p i = LInvalidPrefix).
Proof. unfold apply_prefix. intros ->. split; intros ->; reflexivity. Qed.

(* ------------------------------------------------------------------ every reading comes from the tables *)
Lemma plain_shape R j i sb m e : plain R j = LUnit i sb m e ->
  i = j /\ sb = None /\ exists u, nth_error (r_units R) i = Some u /\ m = u_mult u /\ e = unit_exact u.
Proof.
  unfold plain. destruct (nth_error (r_units R) j) as [u|] eqn:E; [|discriminate].
  intros [= <- <- <- <-]. repeat split; eauto.
Qed.

Lemma apply_shape R pi p j i sb m e : apply_prefix R pi p j = LUnit i sb m e ->
  i = j /\ sb = Some pi /\ exists u, nth_error (r_units R) i = Some u /\ q_is_zero (u_offset u) = true
     /\ m = p_mult p * u_mult u /\ e = (kind_exact (p_kind p) && unit_exact u)%bool.
Proof.
  unfold apply_prefix. destruct (nth_error (r_units R) j) as [u|] eqn:E; [|discriminate].
  destruct (q_is_zero (u_offset u)) eqn:Z; [|discriminate].
  intros [= <- <- <- <-]. repeat split; eauto 10.
Qed.

Definition reading_of (R : registry) (w : string) (i : nat) (p : gprefix) : Prop :=
  (exists s, w = p_name p ++ s /\ In (s, i) (r_names R))
  \/ (exists s, w = p_symbol p ++ s /\ In (s, i) (r_symbols R)).

Lemma loop_sound R w : forall ps qi i sb m e,
  prefix_loop R qi ps w = LUnit i sb m e ->
  exists k p, sb = Some (qi + k)%nat /\ nth_error ps k = Some p /\ reading_of R w i p
    /\ exists u, nth_error (r_units R) i = Some u /\ m = p_mult p * u_mult u.
Proof.
  induction ps as [|q ps IH]; intros qi i sb m e H; cbn [prefix_loop] in H; [discriminate|].
  unfold try_prefix in H.
  destruct (name_split R q w) as [j|] eqn:NS.
  - apply apply_shape in H. destruct H as (-> & -> & u & Hu & _ & -> & _).
    exists 0%nat, q. rewrite Nat.add_0_r. repeat split; eauto.
    left. unfold name_split in NS. destruct (String.prefix (p_name q) w) eqn:P; [|discriminate].
    eexists. split; [apply prefix_drop; exact P|]. apply dict_get_In. exact NS.
  - destruct (symbol_split R q w) as [j|] eqn:SS.
    + apply apply_shape in H. destruct H as (-> & -> & u & Hu & _ & -> & _).
      exists 0%nat, q. rewrite Nat.add_0_r. repeat split; eauto.
      right. unfold symbol_split in SS. destruct (String.prefix (p_symbol q) w) eqn:P; [|discriminate].
      eexists. split; [apply prefix_drop; exact P|]. apply dict_get_In. exact SS.
    + apply IH in H. destruct H as (k & p & -> & Hk & Hr & Hu).
      exists (S k), p. replace (qi + S k)%nat with (S qi + k)%nat by lia. auto.
Qed.

(* exact string equality only: an unscaled reading means the spelling itself is in a table;
   a scaled reading means prefix text ++ registered spelling, byte for byte *)
Theorem readings_sound R w i sb m e :
  lookup_unit_in R w = LUnit i sb m e ->
  match sb with
  | None => (In (w, i) (r_names R) \/ In (w, i) (r_symbols R))
            /\ exists u, nth_error (r_units R) i = Some u /\ m = u_mult u /\ e = unit_exact u
  | Some pi => exists p, nth_error (r_prefixes R) pi = Some p /\ reading_of R w i p
            /\ exists u, nth_error (r_units R) i = Some u /\ m = p_mult p * u_mult u
  end.
Proof.
  unfold lookup_unit_in.
  destruct (dict_get w (r_names R)) as [j|] eqn:N.
  - intro H. apply plain_shape in H. destruct H as (-> & -> & Hu). split; [|exact Hu].
    left. apply dict_get_In. exact N.
  - destruct (dict_get w (r_symbols R)) as [j|] eqn:S.
    + intro H. apply plain_shape in H. destruct H as (-> & -> & Hu). split; [|exact Hu].
      right. apply dict_get_In. exact S.
    + intro H. apply loop_sound in H. destruct H as (k & p & -> & Hk & Hr & Hu).
      cbn. exists p. auto.
Qed.

Corollary unknown_when_no_table_entry R w :
  (forall i, ~ In (w, i) (r_names R)) -> (forall i, ~ In (w, i) (r_symbols R)) ->
  forall i m e, lookup_unit_in R w <> LUnit i None m e.
Proof.
  intros A B i m e H. apply readings_sound in H. destruct H as [[H|H] _]; [exact (A _ H)|exact (B _ H)].
Qed.

(* ------------------------------------------------------------------ lifting the computed checkers *)
Lemma index_from_In {A} (l : list A) : forall k j x, nth_error l j = Some x -> In ((k + j)%nat, x) (index_from k l).
Proof.
  induction l as [|y l IH]; intros k j x H; [destruct j; discriminate|].
  destruct j as [|j]; cbn in H |- *.
  - injection H as ->. left. rewrite Nat.add_0_r. reflexivity.
  - right. replace (k + S j)%nat with (S k + j)%nat by lia. apply IH. exact H.
Qed.

Lemma iunits_In R i u : nth_error (r_units R) i = Some u -> In (i, u) (iunits R).
Proof. intro H. exact (index_from_In _ 0%nat i u H). Qed.

Lemma three_spellings_meaning R : three_spellings_ok R = true ->
  forall i u sp, nth_error (r_units R) i = Some u -> In sp (spellings u) ->
    lookup_unit_in R (fst sp) = LUnit i None (u_mult u) (unit_exact u)
    /\ dict_get (fst sp) (if snd sp then r_symbols R else r_names R) = Some i.
Proof.
  unfold three_spellings_ok. rewrite forallb_forall. intros H i u sp Hu Hsp.
  specialize (H _ (iunits_In R i u Hu)). unfold unit_three_spellings in H. rewrite forallb_forall in H.
  specialize (H _ Hsp). cbn [fst snd] in H. apply andb_true_iff in H. destruct H as [H1 H2].
  split.
  - unfold resolves_plain in H1.
    destruct (lookup_unit_in R (fst sp)) as [| | |j sb m e] eqn:L; try discriminate.
    destruct sb; [discriminate|].
    apply andb_true_iff in H1. destruct H1 as [H1 _]. apply andb_true_iff in H1. destruct H1 as [Hj _].
    apply Nat.eqb_eq in Hj. subst j.
    apply readings_sound in L. destruct L as [_ (u' & Hu' & -> & ->)].
    rewrite Hu in Hu'. injection Hu' as <-. reflexivity.
  - unfold in_own_dict in H2.
    destruct (dict_get (fst sp) (if snd sp then r_symbols R else r_names R)); [|discriminate].
    apply Nat.eqb_eq in H2. subst. reflexivity.
Qed.

Lemma spellings_symbol u : In (u_symbol u, true) (spellings u).
Proof. left. reflexivity. Qed.
Lemma spellings_singular u : In (u_singular u, false) (spellings u).
Proof. right. left. reflexivity. Qed.
Lemma spellings_plural u : u_plural u <> no_plural -> In (u_plural u, false) (spellings u).
Proof.
  intro H. unfold spellings. right. right.
  destruct (String.eqb (u_plural u) no_plural) eqn:E; [apply String.eqb_eq in E; contradiction|].
  left. reflexivity.
Qed.

Definition reads_plainly (R : registry) (i : nat) (u : gunit) (w : string) : Prop :=
  lookup_unit_in R w = LUnit i None (u_mult u) (unit_exact u).

Theorem three_spellings_lifted R : three_spellings_ok R = true ->
  forall i u, nth_error (r_units R) i = Some u ->
    reads_plainly R i u (u_symbol u) /\ reads_plainly R i u (u_singular u)
    /\ (u_plural u <> no_plural -> reads_plainly R i u (u_plural u)).
Proof.
  intros H i u Hu. pose proof (three_spellings_meaning R H i u) as M. unfold reads_plainly.
  split; [|split].
  - exact (proj1 (M _ Hu (spellings_symbol u))).
  - exact (proj1 (M _ Hu (spellings_singular u))).
  - intro P. exact (proj1 (M _ Hu (spellings_plural u P))).
Qed.

(* prefix table *)
Lemma prefix_ok_meaning p : prefix_ok p = true ->
  kind_exact (p_kind p) = true /\ p_mult p == Qpower (inject_Z (p_base p)) (p_exp p)
  /\ (p_base p = 10 \/ p_base p = 2)%Z.
Proof.
  unfold prefix_ok. rewrite !andb_true_iff, orb_true_iff, !Z.eqb_eq, Qeq_bool_iff. tauto.
Qed.

Lemma combine_combined p sp : combine p sp = combined (snd sp) p (fst sp).
Proof. reflexivity. Qed.

Theorem prefix_scaling_lifted R :
  three_spellings_ok R = true -> prefixes_ok R = true ->
  forall pi p i u sp,
    nth_error (r_prefixes R) pi = Some p -> nth_error (r_units R) i = Some u -> In sp (spellings u) ->
    no_other_reading R (snd sp) pi p i (combine p sp) = true ->
    (p_mult p == Qpower (inject_Z (p_base p)) (p_exp p) /\ (p_base p = 10 \/ p_base p = 2)%Z)
    /\ (q_is_zero (u_offset u) = true ->
          exists sb m, lookup_unit_in R (combine p sp) = LUnit i sb m (unit_exact u)
                       /\ m == p_mult p * u_mult u)
    /\ (q_is_zero (u_offset u) = false -> lookup_unit_in R (combine p sp) = LInvalidPrefix).
Proof.
  intros TS PO pi p i u sp Hp Hu Hsp NOR.
  unfold prefixes_ok in PO. rewrite forallb_forall in PO.
  destruct (prefix_ok_meaning p (PO _ (nth_error_In _ _ Hp))) as (KE & PM & PB).
  split; [auto|].
  destruct (three_spellings_meaning R TS i u sp Hu Hsp) as [_ D].
  rewrite combine_combined in *.
  pose proof (prefix_scaling_general R (snd sp) pi p (fst sp) i Hp D NOR) as S.
  destruct (same_reading_apply R _ pi p i u S Hu) as [A B].
  rewrite KE in A. cbn [andb] in A. auto.
Qed.

Theorem offset_refused_lifted R : offset_refused_ok R = true ->
  forall p i u sp, In p (r_prefixes R) -> nth_error (r_units R) i = Some u -> In sp (spellings u) ->
    q_is_zero (u_offset u) = false -> lookup_unit_in R (combine p sp) = LInvalidPrefix.
Proof.
  unfold offset_refused_ok. rewrite forallb_forall. intros H p i u sp Hp Hu Hsp Z.
  specialize (H _ (iunits_In R i u Hu)). unfold unit_offset_refused in H. cbn [snd] in H. rewrite Z in H.
  rewrite forallb_forall in H. specialize (H _ Hp). rewrite forallb_forall in H. specialize (H _ Hsp).
  destruct (lookup_unit_in R (combine p sp)); try discriminate. reflexivity.
Qed.

(* ---- dimensions, sizes *)
Lemma list_Z_eqb_eq a : forall b, list_Z_eqb a b = true -> a = b.
Proof.
  induction a as [|x a IH]; intros [|y b] H; cbn in H; try discriminate; [reflexivity|].
  apply andb_true_iff in H. destruct H as [H1 H2]. apply Z.eqb_eq in H1. f_equal; auto.
Qed.

Lemma all_zero_repeat l : all_zero l = true -> l = repeat 0%Z (List.length l).
Proof.
  unfold all_zero. induction l as [|x l IH]; cbn [forallb List.length repeat]; [reflexivity|].
  intro H. apply andb_true_iff in H. destruct H as [H1 H2].
  apply Z.eqb_eq in H1. subst x. f_equal. exact (IH H2).
Qed.

Definition has_dimension (u : gunit) (d7 : list Z) : Prop :=
  List.length (u_dim u) = List.length base_units
  /\ u_dim u = (d7 ++ repeat 0%Z (List.length base_units - 7)%nat)%list.


Theorem dimensions_lifted spec R : dimensions_ok spec R = true ->
  forall u, In u (r_units R) ->
    (is_cash u = false ->
       exists e, spec_get (u_symbol u) spec = Some e /\ has_dimension u (se_dim e))
    /\ (is_cash u = true ->
          List.length (u_dim u) = List.length base_units
          /\ firstn 7 (u_dim u) = repeat 0%Z 7 /\ skipn 7 (u_dim u) = [1%Z]).
Proof.
  unfold dimensions_ok. rewrite forallb_forall. intros H u Hu. specialize (H u Hu).
  unfold unit_dim_ok in H. destruct (is_cash u); split; intro C; try discriminate.
  - unfold cash_dim_ok in H. apply andb_true_iff in H. destruct H as [H H3].
    apply andb_true_iff in H. destruct H as [H1 H2].
    apply Nat.eqb_eq in H1. apply list_Z_eqb_eq in H3. split; [exact H1|]. split; [|exact H3].
    pose proof (all_zero_repeat _ H2) as Z.
    assert (L : List.length (firstn 7 (u_dim u)) = 7%nat).
    { rewrite firstn_length. assert (List.length (skipn 7 (u_dim u)) = 1%nat) by (rewrite H3; reflexivity).
      rewrite skipn_length in H. lia. }
    rewrite L in Z. exact Z.
  - destruct (spec_get (u_symbol u) spec) as [e|]; [|discriminate].
    exists e. split; [reflexivity|].
    apply andb_true_iff in H. destruct H as [H H3]. apply andb_true_iff in H. destruct H as [H1 H2].
    apply Nat.eqb_eq in H1. apply list_Z_eqb_eq in H2. split; [exact H1|].
    rewrite <- (firstn_skipn 7 (u_dim u)) at 1. rewrite H2. f_equal.
    rewrite (all_zero_repeat _ H3), skipn_length, H1. reflexivity.
Qed.

Lemma q_within_meaning tol a b : q_within tol a b = true -> Qabs (a - b) <= tol * Qabs b.
Proof. unfold q_within. apply Qle_bool_iff. Qed.

Theorem sizes_lifted spec R : sizes_ok spec R = true ->
  forall u, In u (r_units R) -> is_cash u = false ->
    exists e, spec_get (u_symbol u) spec = Some e
      /\ 0 < se_size e /\ Qabs (u_mult u - se_size e) <= (1 # 100) * se_size e.
Proof.
  unfold sizes_ok. rewrite forallb_forall. intros H u Hu C. specialize (H u Hu).
  unfold unit_size_ok in H. rewrite C in H.
  destruct (spec_get (u_symbol u) spec) as [e|]; [|discriminate].
  exists e. split; [reflexivity|].
  apply andb_true_iff in H. destruct H as [H H3]. apply andb_true_iff in H. destruct H as [H1 H2].
  apply q_within_meaning in H1. apply Qle_bool_iff in H2. apply negb_true_iff in H3.
  assert (P : 0 < se_size e).
  { apply Qle_lteq in H2. destruct H2 as [H2|H2]; [exact H2|].
    exfalso. unfold q_is_zero in H3. apply Z.eqb_neq in H3. apply H3.
    unfold Qeq in H2. cbn in H2. lia. }
  split; [exact P|].
  rewrite (Qabs_pos (se_size e)) in H1; [exact H1|apply Qlt_le_weak; exact P].
Qed.

Theorem offsets_lifted spec R : offsets_ok spec R = true ->
  forall u, In u (r_units R) ->
    (is_cash u = true -> u_offset u == 0)
    /\ (is_cash u = false -> exists e, spec_get (u_symbol u) spec = Some e
          /\ (se_offset e == 0 -> u_offset u == 0)
          /\ Qabs (u_offset u - se_offset e) <= tol12 * Qabs (se_offset e)).
Proof.
  assert (Z0 : forall q, q_is_zero q = true -> q == 0).
  { intros q H. unfold q_is_zero in H. apply Z.eqb_eq in H. unfold Qeq. cbn. lia. }
  assert (Z1 : forall q, q == 0 -> q_is_zero q = true).
  { intros q H. unfold q_is_zero. apply Z.eqb_eq. unfold Qeq in H. cbn in H. lia. }
  unfold offsets_ok. rewrite forallb_forall. intros H u Hu. specialize (H u Hu).
  unfold unit_offset_ok in H. destruct (is_cash u); split; intro C; try discriminate.
  - apply Z0. exact H.
  - destruct (spec_get (u_symbol u) spec) as [e|]; [|discriminate].
    exists e. split; [reflexivity|].
    destruct (q_is_zero (se_offset e)) eqn:ZE.
    + apply Z0 in H. apply Z0 in ZE. split; [intros _; exact H|].
      rewrite H, ZE. cbn. unfold Qle. cbn. lia.
    + split.
      * intro E0. apply Z1 in E0. congruence.
      * apply q_within_meaning. exact H.
Qed.

(* ---- ratios *)
Definition ratio_statement (R : registry) (tol : Q) (r : ratio) : Prop :=
  exists i sa ma ea j sb mb eb,
    lookup_unit_in R (rt_a r) = LUnit i sa ma ea /\ lookup_unit_in R (rt_b r) = LUnit j sb mb eb
    /\ (ea && eb = true -> ma == rt_factor r * Qpower mb (rt_pow r))
    /\ Qabs (ma - rt_factor r * Qpower mb (rt_pow r)) <= tol * Qabs (rt_factor r * Qpower mb (rt_pow r)).

Lemma ratio_holds_meaning R tol r : 0 <= tol -> ratio_holds R tol r = true -> ratio_statement R tol r.
Proof.
  intros T H. unfold ratio_holds in H. unfold ratio_statement.
  destruct (lookup_unit_in R (rt_a r)) as [| | |i sa ma ea]; try discriminate.
  destruct (lookup_unit_in R (rt_b r)) as [| | |j sb mb eb]; try discriminate.
  exists i, sa, ma, ea, j, sb, mb, eb. split; [reflexivity|]. split; [reflexivity|].
  destruct (ea && eb)%bool.
  - apply Qeq_bool_iff in H. split; [intros _; exact H|].
    rewrite H. setoid_replace (rt_factor r * mb ^ rt_pow r - rt_factor r * mb ^ rt_pow r) with 0 by ring.
    cbn [Qabs]. apply Qmult_le_0_compat; [exact T|apply Qabs_nonneg].
  - split; [discriminate|]. apply q_within_meaning. exact H.
Qed.

Theorem ratios_lifted R tol l : 0 <= tol -> ratios_ok R tol l = true ->
  forall r, In r l -> ratio_statement R tol r.
Proof.
  unfold ratios_ok. rewrite forallb_forall. intros T H r Hr. apply ratio_holds_meaning; auto.
Qed.

Definition ratio_within_statement (R : registry) (tol : Q) (r : ratio) : Prop :=
  exists i sa ma ea j sb mb eb,
    lookup_unit_in R (rt_a r) = LUnit i sa ma ea /\ lookup_unit_in R (rt_b r) = LUnit j sb mb eb
    /\ Qabs (ma - rt_factor r * Qpower mb (rt_pow r)) <= tol * Qabs (rt_factor r * Qpower mb (rt_pow r)).

Theorem ratios_within_lifted R tol l : forallb (ratio_within R tol) l = true ->
  forall r, In r l -> ratio_within_statement R tol r.
Proof.
  rewrite forallb_forall. intros H r Hr. specialize (H r Hr). unfold ratio_within in H.
  unfold ratio_within_statement.
  destruct (lookup_unit_in R (rt_a r)) as [| | |i sa ma ea]; try discriminate.
  destruct (lookup_unit_in R (rt_b r)) as [| | |j sb mb eb]; try discriminate.
  exists i, sa, ma, ea, j, sb, mb, eb. repeat split. apply q_within_meaning. exact H.
Qed.

(* ---- case sensitivity *)
Theorem case_lifted R : case_ok R = true ->
  forall u sp v, In u (r_units R) -> In sp (spellings u) ->
    v = upper (fst sp) \/ v = lower (fst sp) -> v <> fst sp ->
    same_reading (lookup_unit_in R v) (lookup_unit_in R (fst sp)) = false \/ registered R v = true.
Proof.
  unfold case_ok. rewrite forallb_forall. intros H u sp v Hu Hsp Hv Hne.
  specialize (H u Hu). unfold unit_case_ok in H. rewrite forallb_forall in H. specialize (H sp Hsp).
  apply andb_true_iff in H. destruct H as [H1 H2].
  assert (G : variant_ok R (fst sp) v = true) by (destruct Hv as [->| ->]; assumption).
  unfold variant_ok in G.
  destruct (String.eqb v (fst sp)) eqn:E; [apply String.eqb_eq in E; contradiction|].
  apply orb_true_iff in G. destruct G as [G|G]; [left; apply negb_true_iff; exact G|right; exact G].
Qed.

Theorem distinct_lifted R l : forallb (distinct_reading R) l = true ->
  forall v w, In (v, w) l ->
    (exists i sb m e, lookup_unit_in R w = LUnit i sb m e)
    /\ same_reading (lookup_unit_in R v) (lookup_unit_in R w) = false.
Proof.
  rewrite forallb_forall. intros H v w Hin. specialize (H _ Hin). unfold distinct_reading in H. cbn [fst snd] in H.
  destruct (lookup_unit_in R w) as [| | |i sb m e] eqn:L; try discriminate.
  split; [eauto|]. apply negb_true_iff. exact H.
Qed.

(* ---- the quantity space *)
Lemma list_string_eqb_eq a : forall b, list_string_eqb a b = true -> a = b.
Proof.
  induction a as [|x a IH]; intros [|y b] H; cbn in H; try discriminate; [reflexivity|].
  apply andb_true_iff in H. destruct H as [H1 H2]. apply String.eqb_eq in H1. f_equal; auto.
Qed.

Theorem base_units_lifted : base_units_ok = true ->
  firstn 7 base_units = si_names
  /\ (skipn 7 base_units = [] /\ base_currency = None
      \/ exists c, skipn 7 base_units = [c] /\ base_currency = Some c).
Proof.
  unfold base_units_ok. intro H. apply andb_true_iff in H. destruct H as [H1 H2].
  split; [apply list_string_eqb_eq; exact H1|].
  destruct (skipn 7 base_units) as [|c [|? ?]]; destruct base_currency as [c'|]; try discriminate.
  - left. auto.
  - right. exists c. apply String.eqb_eq in H2. subst. auto.
Qed.

Theorem ratio_dims_lifted R l : forallb (ratio_dims_ok R) l = true ->
  forall r, In r l -> dim_of R (rt_a r) = map (Z.mul (rt_pow r)) (dim_of R (rt_b r)) /\ dim_of R (rt_a r) <> [].
Proof.
  rewrite forallb_forall. intros H r Hr. specialize (H r Hr). unfold ratio_dims_ok in H.
  apply andb_true_iff in H. destruct H as [H1 H2]. split; [apply list_Z_eqb_eq; exact H1|].
  intro E. rewrite E in H2. discriminate.
Qed.
