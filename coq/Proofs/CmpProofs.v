From Coq Require Import Lia Qcanon.
From Ka Require Import Model.Num Proofs.NumProofs Model.Qty Proofs.QtyProofs Model.Comb Proofs.CombProofs Model.Cmp.
Local Open Scope Z_scope.

Definition is01 (n : num) : Prop := n = NInt 0 \/ n = NInt 1.
Definition val01 (n : num) : Z := match n with NInt z => z | _ => -1 end.

Lemma b2n_01 b : is01 (b2n b).
Proof. destruct b; [right|left]; reflexivity. Qed.

(* ---------- numbers of any kind ---------- *)
Section Numbers.
Variables a b : num.

Lemma num_cmp_01 c : exists r, qcmp_num c a b = Ok r /\ is01 r.
Proof. destruct c; eexists; (split; [reflexivity|apply b2n_01]). Qed.

Lemma cmp_cases : (toQ a ?= toQ b)%Q = Lt \/ (toQ a ?= toQ b)%Q = Eq \/ (toQ a ?= toQ b)%Q = Gt.
Proof. destruct (toQ a ?= toQ b)%Q; auto. Qed.

Lemma Qcompare_flip : (toQ b ?= toQ a)%Q = CompOpp (toQ a ?= toQ b)%Q.
Proof. symmetry. apply Qcompare_antisym. Qed.

Theorem num_trichotomy :
  exists l e g, n_lt a b = Ok l /\ n_eq a b = Ok e /\ n_gt a b = Ok g
    /\ is01 l /\ is01 e /\ is01 g /\ val01 l + val01 e + val01 g = 1.
Proof.
  unfold n_lt, n_eq, n_gt, Qltb, Qeqb. rewrite Qcompare_flip.
  do 3 eexists. repeat split; try apply b2n_01.
  destruct (toQ a ?= toQ b)%Q; reflexivity.
Qed.

Theorem num_leq : exists l e le, n_lt a b = Ok l /\ n_eq a b = Ok e /\ n_le a b = Ok le
  /\ val01 le = Z.max (val01 l) (val01 e).
Proof.
  unfold n_lt, n_eq, n_le, Qltb, Qeqb, Qleb. do 3 eexists. repeat split.
  destruct (toQ a ?= toQ b)%Q; reflexivity.
Qed.

Theorem num_neq : exists e ne, n_eq a b = Ok e /\ n_ne a b = Ok ne /\ val01 ne = 1 - val01 e.
Proof.
  unfold n_eq, n_ne, Qeqb. do 2 eexists. repeat split.
  destruct (toQ a ?= toQ b)%Q; reflexivity.
Qed.
End Numbers.

Theorem num_dual a b : n_gt a b = n_lt b a /\ n_ge a b = n_le b a.
Proof. split; reflexivity. Qed.

(* ---------- quantities of one dimension (and a number with a dimensionless quantity) ---------- *)
Lemma q_cmp_reduces n c a b :
  veqb (snd (lift_q n a)) (snd (lift_q n b)) = true ->
  q_cmp n c a b = match qcmp_num c (fst (lift_q n a)) (fst (lift_q n b)) with
                  | Ok r => Ok (VN r) | Raise e => Raise e end.
Proof.
  intro V. unfold q_cmp. destruct a as [x|m1 d1], b as [y|m2 d2]; cbn [is_q negb andb lift_q fst snd] in *;
    try rewrite V; reflexivity.
Qed.

Theorem qty_trichotomy n a b :
  veqb (snd (lift_q n a)) (snd (lift_q n b)) = true ->
  exists l e g, q_cmp n QLt a b = Ok (VN l) /\ q_cmp n QEq a b = Ok (VN e) /\ q_cmp n QGt a b = Ok (VN g)
    /\ is01 l /\ is01 e /\ is01 g /\ val01 l + val01 e + val01 g = 1.
Proof.
  intro V. rewrite !(q_cmp_reduces n _ a b V). cbn [qcmp_num].
  destruct (num_trichotomy (fst (lift_q n a)) (fst (lift_q n b))) as (l & e & g & -> & -> & -> & R).
  exists l, e, g. repeat split; try reflexivity; apply R.
Qed.

Theorem qty_coherent n a b :
  veqb (snd (lift_q n a)) (snd (lift_q n b)) = true ->
  veqb (snd (lift_q n b)) (snd (lift_q n a)) = true ->
  q_cmp n QGt a b = q_cmp n QLt b a /\ q_cmp n QGe a b = q_cmp n QLe b a
  /\ (exists e ne, q_cmp n QEq a b = Ok (VN e) /\ q_cmp n QNe a b = Ok (VN ne) /\ val01 ne = 1 - val01 e)
  /\ (exists l e le, q_cmp n QLt a b = Ok (VN l) /\ q_cmp n QEq a b = Ok (VN e) /\ q_cmp n QLe a b = Ok (VN le)
        /\ val01 le = Z.max (val01 l) (val01 e)).
Proof.
  intros V V'. rewrite !(q_cmp_reduces n _ a b V), !(q_cmp_reduces n _ b a V'). cbn [qcmp_num].
  split; [reflexivity|]. split; [reflexivity|]. split.
  - destruct (num_neq (fst (lift_q n a)) (fst (lift_q n b))) as (e & ne & -> & -> & R). eauto.
  - destruct (num_leq (fst (lift_q n a)) (fst (lift_q n b))) as (l & e & le & -> & -> & -> & R). exists l, e, le. auto.
Qed.

(* equality of quantities compares physical size (base-unit magnitude), not spelling *)
Theorem qty_eq_physical n m1 m2 d :
  q_cmp n QEq (VQ m1 d) (VQ m2 d) = Ok (VN (NInt 1)) <-> (toQ m1 == toQ m2)%Q.
Proof.
  unfold q_cmp. cbn [is_q negb andb lift_q]. rewrite veqb_refl. cbn [negb qcmp_num].
  unfold n_eq, Qeqb, b2n. rewrite Qeq_alt. destruct (toQ m1 ?= toQ m2)%Q; split; intro H; try reflexivity; try discriminate; inversion H.
Qed.

(* ---------- lazy values ---------- *)
Theorem lazy_cmp_is_eager c a b ea eb : rel a ea -> rel b eb -> l_cmp c a b = qcmp_num c ea eb.
Proof. intros Ra Rb. unfold l_cmp. rewrite (rel_coerce _ _ Ra), (rel_coerce _ _ Rb). reflexivity. Qed.

(* ---------- instants ---------- *)
Theorem inst_trichotomy a b :
  is01 (i_cmp QLt a b) /\ is01 (i_cmp QEq a b) /\ is01 (i_cmp QGt a b)
  /\ val01 (i_cmp QLt a b) + val01 (i_cmp QEq a b) + val01 (i_cmp QGt a b) = 1.
Proof.
  unfold i_cmp. repeat split; try apply b2n_01.
  destruct (Z.ltb_spec a b), (Z.eqb_spec a b), (Z.ltb_spec b a); cbn; lia.
Qed.

Theorem inst_coherent a b :
  i_cmp QGt a b = i_cmp QLt b a /\ i_cmp QGe a b = i_cmp QLe b a
  /\ val01 (i_cmp QNe a b) = 1 - val01 (i_cmp QEq a b)
  /\ val01 (i_cmp QLe a b) = Z.max (val01 (i_cmp QLt a b)) (val01 (i_cmp QEq a b)).
Proof.
  unfold i_cmp. repeat split.
  - destruct (Z.eqb_spec a b); reflexivity.
  - destruct (Z.leb_spec a b), (Z.ltb_spec a b), (Z.eqb_spec a b); cbn; lia.
Qed.

(* ---------- membership ---------- *)
Theorem in_array_01 x l : is01 (in_array x l).
Proof. induction l as [|e r IH]; cbn; [left; reflexivity|]. destruct (Qeqb (toQ x) (toQ e)); [right; reflexivity|exact IH]. Qed.

Theorem in_array_spec x l :
  in_array x l = NInt 1 <-> exists e, In e l /\ (toQ x == toQ e)%Q.
Proof.
  induction l as [|e r IH]; cbn [in_array].
  - split; [discriminate|intros (e & [] & _)].
  - destruct (Qeqb (toQ x) (toQ e)) eqn:E.
    + split; [|reflexivity]. intros _. exists e. split; [left; reflexivity|].
      unfold Qeqb in E. rewrite Qeq_alt. destruct (toQ x ?= toQ e)%Q; congruence.
    + rewrite IH. split.
      * intros (e' & I & H). exists e'. split; [right; exact I|exact H].
      * intros (e' & [<-|I] & H).
        -- exfalso. unfold Qeqb in E. rewrite Qeq_alt in H. rewrite H in E. discriminate.
        -- exists e'. split; assumption.
Qed.
