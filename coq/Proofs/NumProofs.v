From Coq Require Import Qround Qpower Qabs Qcanon Lia Lqa.
From Ka Require Import Model.Num.

Lemma Qred_inject_Z z : Qred (inject_Z z) = inject_Z z.
Proof. apply Qred_identity. cbn. apply Z.gcd_1_r. Qed.


(* ---------- norm ---------- *)
Lemma inject_Z_den1 r : Qden r = 1%positive -> inject_Z (Qnum r) == r.
Proof. destruct r as [n d]; cbn; intros ->. unfold Qeq; cbn; lia. Qed.

Lemma toQ_norm q : toQ (norm q) == q.
Proof.
  unfold norm. pose proof (Qred_correct q) as H.
  destruct (Pos.eqb_spec (Qden (Qred q)) 1) as [E|E]; cbn [toQ]; [|exact H].
  rewrite (inject_Z_den1 _ E). exact H.
Qed.

Lemma canonical_norm q : canonical (norm q).
Proof.
  unfold norm. destruct (Pos.eqb_spec (Qden (Qred q)) 1) as [E|E]; cbn; [exact I|].
  split; [apply Qred_complete, Qred_correct | lia].
Qed.

Lemma exact_norm q : exact (norm q).
Proof. unfold norm, exact. destruct (Qden (Qred q) =? 1)%positive; reflexivity. Qed.

Lemma norm_integral q z : q == inject_Z z -> norm q = NInt z.
Proof.
  intro H. unfold norm.
  assert (E : Qred q = Qred (inject_Z z)) by (apply Qred_complete; exact H).
  rewrite E, Qred_inject_Z. reflexivity.
Qed.

Lemma norm_comp q q' : q == q' -> norm q = norm q'.
Proof. intro H. unfold norm. rewrite (Qred_complete _ _ H). reflexivity. Qed.

Lemma canonical_toQ_eq a b :
  canonical a -> canonical b -> exact a -> exact b -> toQ a == toQ b -> a = b.
Proof.
  intros Ca Cb Ea Eb H.
  destruct a as [x|p|p], b as [y|r|r]; try discriminate; cbn in *.
  - f_equal. unfold Qeq in H; cbn in H. lia.
  - exfalso. destruct Cb as [Cr Cd]. apply Qred_complete in H. rewrite Cr in H.
    rewrite <- H, Qred_inject_Z in Cd. cbn in Cd. lia.
  - exfalso. destruct Ca as [Cr Cd]. apply Qred_complete in H. rewrite Cr in H.
    rewrite H, Qred_inject_Z in Cd. cbn in Cd. lia.
  - f_equal. destruct Ca as [Ca _], Cb as [Cb _]. rewrite <- Ca, <- Cb.
    apply Qred_complete; exact H.
Qed.

(* ---------- helpers ---------- *)
Lemma Qis_zero_spec q : Qis_zero q = true <-> q == 0.
Proof. unfold Qis_zero, Qeq. cbn. rewrite Z.eqb_eq. lia. Qed.

Lemma Qis_zero_comp q q' : q == q' -> Qis_zero q = Qis_zero q'.
Proof.
  intro H. apply eq_true_iff_eq. rewrite !Qis_zero_spec. rewrite H. reflexivity.
Qed.

Lemma lift2_exact f a b : exact a -> exact b -> lift2 f a b = norm (f (toQ a) (toQ b)).
Proof. unfold exact, lift2. intros -> ->. reflexivity. Qed.

Lemma Qfloor_compQ x y : x == y -> Qfloor x = Qfloor y.
Proof. intro H. apply Qfloor_comp. exact H. Qed.

Lemma Qtrunc_red_comp x y : x == y -> Qtrunc (Qred x) = Qtrunc (Qred y).
Proof. intro H. rewrite (Qred_complete _ _ H). reflexivity. Qed.

Lemma Qround_half_even_comp x y : x == y -> Qround_half_even x = Qround_half_even y.
Proof.
  intro H. unfold Qround_half_even. rewrite (Qfloor_compQ _ _ H).
  assert (E : x - inject_Z (Qfloor y) == y - inject_Z (Qfloor y)) by (rewrite H; reflexivity).
  rewrite (Qcompare_comp _ _ E (1#2) (1#2) (Qeq_refl _)). reflexivity.
Qed.

Lemma Qnonneg_int_comp x y : x == y -> Qnonneg_int x = Qnonneg_int y.
Proof. intro H. unfold Qnonneg_int. rewrite (Qred_complete _ _ H). reflexivity. Qed.

Lemma Qnonneg_int_spec y n : Qnonneg_int y = Some n -> y == inject_Z n /\ (0 <= n)%Z.
Proof.
  unfold Qnonneg_int. pose proof (Qred_correct y) as H.
  destruct (Pos.eqb_spec (Qden (Qred y)) 1) as [E|E]; cbn; [|discriminate].
  destruct (Z.leb_spec 0 (Qnum (Qred y))); [|discriminate].
  intro I; injection I as <-. split; [|assumption].
  transitivity (Qred y); [symmetry; exact H | symmetry; apply inject_Z_den1; exact E].
Qed.

Lemma inject_Z_mod x y : (y <> 0)%Z ->
  inject_Z (x mod y) == inject_Z x - inject_Z y * inject_Z (Qfloor (inject_Z x / inject_Z y)).
Proof.
  intro Hy.
  assert (F : Qfloor (inject_Z x / inject_Z y) = (x / y)%Z).
  { destruct (Z.lt_trichotomy y 0) as [Hn|[Hz|Hp]]; [|lia|].
    - (* y < 0 *)
      assert (E : inject_Z x / inject_Z y == (-x) # (Z.to_pos (-y))).
      { unfold Qdiv, Qmult, Qinv, Qeq, inject_Z. destruct y; try lia. cbn. lia. }
      rewrite (Qfloor_compQ _ _ E). unfold Qfloor. cbn.
      rewrite Z2Pos.id by lia. rewrite Z.div_opp_opp by lia. reflexivity.
    - assert (E : inject_Z x / inject_Z y == x # (Z.to_pos y)).
      { unfold Qdiv, Qmult, Qinv, Qeq, inject_Z. destruct y; try lia. cbn. lia. }
      rewrite (Qfloor_compQ _ _ E). unfold Qfloor. cbn.
      rewrite Z2Pos.id by lia. reflexivity. }
  rewrite F. rewrite (Z.mod_eq x y Hy).
  unfold Qeq, Qminus, Qplus, Qopp, Qmult, inject_Z; cbn. ring.
Qed.

Lemma iZ_plus a b : inject_Z (a + b) == inject_Z a + inject_Z b.
Proof. unfold Qeq, Qplus, inject_Z; cbn; ring. Qed.
Lemma iZ_mult a b : inject_Z (a * b) == inject_Z a * inject_Z b.
Proof. unfold Qeq, Qmult, inject_Z; cbn; ring. Qed.
Lemma iZ_opp a : inject_Z (- a) == - inject_Z a.
Proof. unfold Qeq, Qopp, inject_Z; cbn; ring. Qed.
Lemma iZ_minus a b : inject_Z (a - b) == inject_Z a - inject_Z b.
Proof. unfold Qeq, Qminus, Qplus, Qopp, inject_Z; cbn; ring. Qed.

(* ---------- per-operator correctness ---------- *)
Section Ops.
Variables (va vb : num) (x y : Q).
Hypothesis Ea : exact va.
Hypothesis Eb : exact vb.
Hypothesis Ha : toQ va == x.
Hypothesis Hb : toQ vb == y.

Definition good (r : res num) (q : Q) : Prop :=
  exists v, r = Ok v /\ toQ v == q /\ canonical v /\ exact v.

Lemma good_norm q q' : q == q' -> good (Ok (norm q)) q'.
Proof.
  intro H. exists (norm q). split; [reflexivity|]. split; [|split].
  - rewrite toQ_norm. exact H.
  - apply canonical_norm.
  - apply exact_norm.
Qed.

Lemma good_int z q : inject_Z z == q -> good (Ok (NInt z)) q.
Proof. intro H. exists (NInt z). split; [reflexivity|]. split; [exact H|]. split; [exact I|reflexivity]. Qed.

Lemma add_correct : good (n_add va vb) (x + y).
Proof.
  destruct va as [a|p|p], vb as [b|r|r]; try discriminate; cbn [n_add];
    try (rewrite lift2_exact by reflexivity; apply good_norm; rewrite Ha, Hb; reflexivity).
  apply good_int. cbn in Ha, Hb. rewrite <- Ha, <- Hb. apply iZ_plus.
Qed.

Lemma sub_correct : good (n_sub va vb) (x - y).
Proof.
  destruct va as [a|p|p], vb as [b|r|r]; try discriminate; cbn [n_sub];
    try (rewrite lift2_exact by reflexivity; apply good_norm; rewrite Ha, Hb; reflexivity).
  apply good_int. cbn in Ha, Hb. rewrite <- Ha, <- Hb. apply iZ_minus.
Qed.

Lemma mul_correct : good (n_mul va vb) (x * y).
Proof.
  destruct va as [a|p|p], vb as [b|r|r]; try discriminate; cbn [n_mul];
    try (rewrite lift2_exact by reflexivity; apply good_norm; rewrite Ha, Hb; reflexivity).
  apply good_int. cbn in Ha, Hb. rewrite <- Ha, <- Hb. apply iZ_mult.
Qed.

Lemma div_correct : Qis_zero y = false -> good (n_div va vb) (x / y).
Proof.
  intro Hz. unfold n_div. rewrite (Qis_zero_comp _ _ Hb), Hz.
  rewrite lift2_exact by assumption. apply good_norm. rewrite Ha, Hb. reflexivity.
Qed.

Lemma div_zero : Qis_zero y = true -> n_div va vb = Raise ZeroDivisionError.
Proof. intro Hz. unfold n_div. rewrite (Qis_zero_comp _ _ Hb), Hz. reflexivity. Qed.

Lemma mod_correct : Qis_zero y = false ->
  good (n_mod va vb) (x - y * inject_Z (Qfloor (x / y))).
Proof.
  intro Hz. unfold n_mod. rewrite (Qis_zero_comp _ _ Hb), Hz.
  assert (G : good (Ok (lift2 Qmod_floor va vb)) (x - y * inject_Z (Qfloor (x / y)))).
  { rewrite lift2_exact by assumption. apply good_norm. unfold Qmod_floor.
    assert (E : toQ va / toQ vb == x / y) by (rewrite Ha, Hb; reflexivity).
    rewrite (Qfloor_compQ _ _ E). rewrite Ha, Hb. reflexivity. }
  destruct va as [a|p|p], vb as [b|r|r]; try discriminate; try exact G.
  cbn in Ha, Hb. apply good_int.
  assert (Hb0 : (b <> 0)%Z).
  { intro; subst b. rewrite <- (Qis_zero_comp _ _ Hb) in Hz. discriminate. }
  rewrite (inject_Z_mod a b Hb0).
  assert (E : inject_Z a / inject_Z b == x / y) by (rewrite Ha, Hb; reflexivity).
  rewrite (Qfloor_compQ _ _ E). rewrite Ha, Hb. reflexivity.
Qed.

Lemma mod_zero : Qis_zero y = true -> n_mod va vb = Raise ZeroDivisionError.
Proof. intro Hz. unfold n_mod. rewrite (Qis_zero_comp _ _ Hb), Hz. reflexivity. Qed.

Lemma pow_correct n : canonical vb -> Qnonneg_int y = Some n ->
  good (n_pow va vb) (Qpower x n).
Proof.
  intros Cb Hn. apply Qnonneg_int_spec in Hn. destruct Hn as [Hy Hn0].
  assert (vb = NInt n).
  { apply canonical_toQ_eq; try assumption; try exact I; try reflexivity.
    cbn. rewrite Hb. exact Hy. }
  subst vb. unfold n_pow. unfold exact in Ea. rewrite Ea.
  destruct (Z.leb_spec 0 n); [|lia].
  apply good_norm. rewrite Ha. reflexivity.
Qed.

End Ops.

Lemma unop_correct o va x q :
  exact va -> canonical va -> toQ va == x -> dun o x = Val q -> good (unop_eval o va) q.
Proof.
  intros Ea Ca Ha D. destruct o; cbn in D; injection D as <-; cbn [unop_eval].
  - (* neg *) destruct va as [a|p|p]; try discriminate; cbn [n_neg].
    + apply good_int. cbn in Ha. rewrite <- Ha. apply iZ_opp.
    + apply good_norm. cbn in Ha. rewrite Ha. reflexivity.
  - (* pos *) exists va. split; [reflexivity|]. split; [exact Ha|]. split; assumption.
  - (* abs *) destruct va as [a|p|p]; try discriminate; cbn [n_abs].
    + apply good_int. cbn in Ha. rewrite <- Ha.
      unfold Qabs, inject_Z. reflexivity.
    + apply good_norm. cbn in Ha. rewrite Ha. reflexivity.
  - apply good_int. unfold n_floor. rewrite (Qfloor_compQ _ _ Ha). reflexivity.
  - apply good_int. unfold Qceiling. rewrite (Qfloor_compQ (- toQ va) (- x)) by (rewrite Ha; reflexivity).
    reflexivity.
  - apply good_int. rewrite (Qround_half_even_comp _ _ Ha). reflexivity.
  - apply good_int. rewrite (Qtrunc_red_comp _ _ Ha). reflexivity.
Qed.

Lemma binop_correct o va vb x y q :
  exact va -> exact vb -> canonical va -> canonical vb ->
  toQ va == x -> toQ vb == y -> dbin o x y = Val q -> good (binop_eval o va vb) q.
Proof.
  intros Ea Eb Ca Cb Ha Hb D. destruct o; cbn in D; cbn [binop_eval].
  - injection D as <-. apply add_correct; assumption.
  - injection D as <-. apply sub_correct; assumption.
  - injection D as <-. apply mul_correct; assumption.
  - destruct (Qis_zero y) eqn:Z; [discriminate|]. injection D as <-. apply div_correct; assumption.
  - destruct (Qis_zero y) eqn:Z; [discriminate|]. injection D as <-. apply mod_correct; assumption.
  - destruct (Qnonneg_int y) as [n|] eqn:N; [|discriminate]. injection D as <-.
    eapply pow_correct; eassumption.
Qed.

Lemma binop_divzero o va vb x y :
  toQ va == x -> toQ vb == y -> dbin o x y = DivZero ->
  binop_eval o va vb = Raise ZeroDivisionError.
Proof.
  intros Ha Hb D. destruct o; cbn in D; try discriminate; cbn [binop_eval].
  - destruct (Qis_zero y) eqn:Z; [|discriminate]. eapply div_zero; eassumption.
  - destruct (Qis_zero y) eqn:Z; [|discriminate]. eapply mod_zero; eassumption.
  - destruct (Qnonneg_int y); discriminate.
Qed.

(* ---------- the induction over expression trees ---------- *)
Theorem aeval_exact e : forall q, denote e = Val q -> good (aeval e) q.
Proof.
  induction e as [z|m k|o a IHa b IHb|o a IHa]; intros q D; cbn in D; cbn [aeval].
  - injection D as <-. apply good_int. reflexivity.
  - injection D as <-. apply good_norm. reflexivity.
  - destruct (denote a) as [x| |] eqn:Da; try discriminate.
    destruct (denote b) as [y| |] eqn:Db; try discriminate.
    destruct (IHa x eq_refl) as (va & -> & Ha & Ca & Ea).
    destruct (IHb y eq_refl) as (vb & -> & Hb & Cb & Eb).
    eapply binop_correct; eassumption.
  - destruct (denote a) as [x| |] eqn:Da; try discriminate.
    destruct (IHa x eq_refl) as (va & -> & Ha & Ca & Ea).
    eapply unop_correct; eassumption.
Qed.

Theorem aeval_divzero e : denote e = DivZero -> aeval e = Raise ZeroDivisionError.
Proof.
  induction e as [z|m k|o a IHa b IHb|o a IHa]; intros D; cbn in D; cbn [aeval]; try discriminate.
  - destruct (denote a) as [x| |] eqn:Da; try discriminate.
    + destruct (aeval_exact a x Da) as (va & -> & Ha & Ca & Ea).
      destruct (denote b) as [y| |] eqn:Db; try discriminate.
      * destruct (aeval_exact b y Db) as (vb & -> & Hb & Cb & Eb).
        eapply binop_divzero; eassumption.
      * rewrite (IHb eq_refl). reflexivity.
    + rewrite (IHa eq_refl). reflexivity.
  - destruct (denote a) as [x| |] eqn:Da; try discriminate.
    + destruct o; cbn in D; discriminate.
    + rewrite (IHa eq_refl). reflexivity.
Qed.

(* integral values are delivered as ints *)
Corollary aeval_integral e q z : denote e = Val q -> q == inject_Z z -> aeval e = Ok (NInt z).
Proof.
  intros D H. destruct (aeval_exact e q D) as (v & -> & Hv & Cv & Ev).
  f_equal. apply canonical_toQ_eq; try assumption; try exact I; try reflexivity.
  cbn. rewrite Hv. exact H.
Qed.

(* never a float inside the class *)
Corollary aeval_never_float e v : denote e <> OutOfClass -> aeval e = Ok v -> exact v /\ canonical v.
Proof.
  intros NC A. destruct (denote e) as [q| |] eqn:D.
  - destruct (aeval_exact e q D) as (v' & A' & _ & C & E). rewrite A in A'. injection A' as <-. split; assumption.
  - rewrite (aeval_divzero e D) in A. discriminate.
  - congruence.
Qed.

(* division by zero never produces a value *)
Corollary aeval_divzero_no_value e v : denote e = DivZero -> aeval e <> Ok v.
Proof. intros D A. rewrite (aeval_divzero e D) in A. discriminate. Qed.

(* floored modulo: the result takes the sign of the divisor *)
Lemma Qfloor_bounds q : inject_Z (Qfloor q) <= q /\ q < inject_Z (Qfloor q) + 1.
Proof.
  split; [apply Qfloor_le|]. pose proof (Qlt_floor q) as H.
  rewrite inject_Z_plus in H. exact H.
Qed.

Theorem mod_sign x y : ~ y == 0 ->
  let r := x - y * inject_Z (Qfloor (x / y)) in
  (0 < y -> 0 <= r /\ r < y) /\ (y < 0 -> y < r /\ r <= 0).
Proof.
  intros Hy r. destruct (Qfloor_bounds (x / y)) as [L U].
  assert (E : x == y * (x / y)) by (field; exact Hy).
  subst r. set (f := inject_Z (Qfloor (x / y))) in *. set (d := x / y) in *.
  clearbody f d. split; intro S; split; nra.
Qed.
