(* ExecExtProofs2.v — continuation of ExecExtProofs.v: Instant/Calendar, Sampling, Session, Display. *)
From Coq Require Import Arith Lia.
From Ka Require Import Model.Exec GenFacts.InterpFacts Proofs.ExecProofs Proofs.ExecExtProofs.
From Ka Require Model.Num Model.Calendar Model.Instant Proofs.InstantProofs.
From Ka Require Model.Prob Model.Sampling Proofs.SamplingProofs.
From Ka Require Model.Units Model.Session.
Local Open Scope nat_scope.
Local Open Scope string_scope.

(* ====================================================================== Instant / Calendar *)
Module InstantExt.
Import Ka.Model.Num Ka.Model.Calendar Ka.Model.Instant Ka.Proofs.InstantProofs.
Local Open Scope Z_scope.

(* the datetime constructor's ValueError is NOT a diagnosed class: it is listed on its own, and
   the lemmas below show where the modelled operations can and cannot reach it *)
Lemma datetime_new_raises y m d h mi s us x : datetime_new y m d h mi s us = Raise x -> x = ValueError.
Proof.
  unfold datetime_new. destruct (valid_year y && valid_date y m d && valid_time h mi s us)%bool;
    [discriminate|intro H; inj_raise H; reflexivity].
Qed.

Lemma td_check_raises us x : td_check us = Raise x -> x = OverflowError.
Proof.
  unfold td_check.
  destruct ((- TD_MAX_DAYS <=? us / US_PER_DAY) && (us / US_PER_DAY <=? TD_MAX_DAYS))%bool;
    [discriminate|intro H; inj_raise H; reflexivity].
Qed.

Lemma td_of_seconds_raises n x : td_of_seconds n = Raise x -> x = OverflowError.
Proof.
  destruct n as [z|q|q]; cbn [td_of_seconds]; try apply td_check_raises.
  destruct (td_check (Qnum q * US_PER_SEC)) as [t|y] eqn:T; cbn [bind]; [discriminate|].
  intro H; inj_raise H. eapply td_check_raises; eassumption.
Qed.

Lemma td_of_days_raises n x : td_of_days n = Raise x -> x = OverflowError.
Proof. unfold td_of_days. apply td_check_raises. Qed.

Lemma add_td_raises i t x : add_td i t = Raise x -> x = OverflowError.
Proof. unfold add_td. destruct (in_range (i + t)); [discriminate|intro H; inj_raise H; reflexivity]. Qed.

Lemma validate_time_raises q x : validate_time q = Raise x -> x = KaRuntimeError.
Proof.
  unfold validate_time. destruct (dims_eqb seconds_dims (q_dims q)); [discriminate|intro H; inj_raise H; reflexivity].
Qed.

Definition instant_raisable (x : exn) : Prop := x = OverflowError \/ x = KaRuntimeError.

Lemma plus_quantity_raises i q x : instant_plus_quantity i q = Raise x -> instant_raisable x.
Proof. apply (proj1 (proj2 (proj2 (results_closed i q)))). Qed.
Lemma minus_quantity_raises i q x : instant_minus_quantity i q = Raise x -> instant_raisable x.
Proof. apply (proj2 (proj2 (proj2 (results_closed i q)))). Qed.

Lemma plus_int_raises i n x : instant_plus_int i n = Raise x -> x = OverflowError.
Proof.
  unfold instant_plus_int. destruct (td_of_days n) as [t|y] eqn:T; cbn [bind]; [apply add_td_raises|].
  intro H; inj_raise H. eapply td_of_days_raises; eassumption.
Qed.
Lemma minus_int_raises i n x : instant_minus_int i n = Raise x -> x = OverflowError.
Proof.
  unfold instant_minus_int. destruct (td_of_days n) as [t|y] eqn:T; cbn [bind]; [apply add_td_raises|].
  intro H; inj_raise H. eapply td_of_days_raises; eassumption.
Qed.

(* floor: the constructor call can fail only on a number that is not an instant *)
Lemma floor_instant_raises i x : floor_instant i = Raise x -> x = ValueError /\ in_range i = false.
Proof.
  destruct (in_range i) eqn:R; [rewrite (floor_instant_eq i R); discriminate|].
  unfold floor_instant. destruct (date_of i) as [[y m] d]. intro H. split; [|reflexivity].
  eapply datetime_new_raises; eassumption.
Qed.

Lemma ceil_instant_raises i x : in_range i = true -> ceil_instant i = Raise x -> x = OverflowError.
Proof.
  intro R. unfold ceil_instant. rewrite (floor_instant_eq i R). cbn [bind].
  destruct (td_of_days 1) as [t|y] eqn:T; cbn [bind]; [apply add_td_raises|].
  intro H; inj_raise H. eapply td_of_days_raises; eassumption.
Qed.

(* literals *)
Lemma fromisoformat_raises s x : fromisoformat s = Raise x -> x = ValueError \/ x = Unmodelled.
Proof.
  unfold fromisoformat.
  match goal with |- match ?o with _ => _ end = _ -> _ =>
    destruct o as [[[[y m] d] [[[h mi] sec] us]]|] end.
  - intro H. left. eapply datetime_new_raises; eassumption.
  - intro H; inj_raise H. right; reflexivity.
Qed.

Theorem instant_from_iso_raises s x : instant_from_iso s = Raise x -> x = KaRuntimeError \/ x = Unmodelled.
Proof.
  unfold instant_from_iso.
  set (s2 := if just_year_month _ then _ else _).
  destruct (fromisoformat s2) as [i|y] eqn:F; [discriminate|].
  destruct (fromisoformat_raises _ _ F) as [-> | ->]; intro H; inj_raise H; auto.
Qed.

Theorem instant_from_iso_in_range s i : instant_from_iso s = Ok i -> in_range i = true.
Proof.
  unfold instant_from_iso.
  set (s2 := if just_year_month _ then _ else _).
  destruct (fromisoformat s2) as [j|y] eqn:F.
  - intro H; injection H as <-. revert F. unfold fromisoformat.
    match goal with |- match ?o with _ => _ end = _ -> _ =>
      destruct o as [[[[y m] d] [[[h mi] sec] us]]|] end; [|discriminate].
    intro D. apply (datetime_new_fields _ _ _ _ _ _ _ _ D).
  - destruct y; discriminate.
Qed.

(* one operation of the kernel-lane driver as a [res] (run_op renders exactly this) *)
Definition op_result (i : Z) (o : op) : res Z :=
  match o with
  | OFloor => floor_instant i
  | OCeil => ceil_instant i
  | OYear => Ok (get_year i) | OMonth => Ok (get_month i) | ODay => Ok (get_day i)
  | OHour => Ok (get_hour i) | OMinute => Ok (get_minute i) | OSecond => Ok (get_second i)
  | OAddQ q => instant_plus_quantity i q
  | OSubQ q => instant_minus_quantity i q
  | OAddInt n => instant_plus_int i n
  | OSubInt n => instant_minus_int i n
  | ODiff j => do j' <- instant_from_iso j; Ok (instant_minus_instant i j')
  | OCmp c j => do j' <- instant_from_iso j; Ok (instant_cmp c i j')
  | OShow => Ok i
  end.

Lemma op_result_shown i o x : op_result i o = Raise x -> run_op i o = ("E:" ++ show_exn x)%string.
Proof.
  destruct o; cbn [op_result run_op]; try discriminate;
    try (intro H; unfold show_T; rewrite H; reflexivity).
  - destruct (instant_from_iso j) as [j'|y]; cbn [bind show_res]; [discriminate|].
    intro H; inj_raise H. reflexivity.
  - destruct (instant_from_iso j) as [j'|y]; cbn [bind show_res]; [discriminate|].
    intro H; inj_raise H. reflexivity.
Qed.

Definition op_raisable (x : exn) : Prop := x = OverflowError \/ x = KaRuntimeError \/ x = Unmodelled.

(* every operation on an instant of years 1..9999 *)
Theorem op_result_raises i o x : in_range i = true -> op_result i o = Raise x -> op_raisable x.
Proof.
  intro R. unfold op_raisable. destruct o; cbn [op_result]; try discriminate.
  - intro H. destruct (floor_instant_raises _ _ H) as [_ F]. congruence.
  - intro H. left. eapply ceil_instant_raises; eassumption.
  - intro H. destruct (plus_quantity_raises _ _ _ H) as [-> | ->]; auto.
  - intro H. destruct (minus_quantity_raises _ _ _ H) as [-> | ->]; auto.
  - intro H. left. eapply plus_int_raises; eassumption.
  - intro H. left. eapply minus_int_raises; eassumption.
  - destruct (instant_from_iso j) as [j'|y] eqn:J; cbn [bind]; [discriminate|].
    intro H; inj_raise H. destruct (instant_from_iso_raises _ _ J) as [-> | ->]; auto.
  - destruct (instant_from_iso j) as [j'|y] eqn:J; cbn [bind]; [discriminate|].
    intro H; inj_raise H. destruct (instant_from_iso_raises _ _ J) as [-> | ->]; auto.
Qed.

(* without the range hypothesis the one extra class is the constructor's ValueError (floor / ceil
   of a number that is not an instant — not reachable from a literal, see case_raises) *)
Theorem op_result_raises_any i o x : op_result i o = Raise x ->
  op_raisable x \/ (x = ValueError /\ in_range i = false).
Proof.
  destruct (in_range i) eqn:R; [intro H; left; eapply op_result_raises; eassumption|].
  unfold op_raisable. destruct o; cbn [op_result]; try discriminate.
  - intro H. right. split; [|reflexivity]. apply (floor_instant_raises _ _ H).
  - unfold ceil_instant. destruct (floor_instant i) as [f|y] eqn:F; cbn [bind].
    + destruct (td_of_days 1) as [t|y] eqn:T; cbn [bind].
      * intro H. left. left. eapply add_td_raises; eassumption.
      * intro H; inj_raise H. left. left. eapply td_of_days_raises; eassumption.
    + intro H; inj_raise H. right. split; [|reflexivity]. apply (floor_instant_raises _ _ F).
  - intro H. left. destruct (plus_quantity_raises _ _ _ H) as [-> | ->]; auto.
  - intro H. left. destruct (minus_quantity_raises _ _ _ H) as [-> | ->]; auto.
  - intro H. left. left. eapply plus_int_raises; eassumption.
  - intro H. left. left. eapply minus_int_raises; eassumption.
  - destruct (instant_from_iso j) as [j'|y] eqn:J; cbn [bind]; [discriminate|].
    intro H; inj_raise H. left. destruct (instant_from_iso_raises _ _ J) as [-> | ->]; auto.
  - destruct (instant_from_iso j) as [j'|y] eqn:J; cbn [bind]; [discriminate|].
    intro H; inj_raise H. left. destruct (instant_from_iso_raises _ _ J) as [-> | ->]; auto.
Qed.

(* a whole case of run_case: the literal, then any operation on it *)
Theorem case_raises s o x :
  (do i <- instant_from_iso s; op_result i o) = Raise x -> op_raisable x.
Proof.
  destruct (instant_from_iso s) as [i|y] eqn:S; cbn [bind].
  - apply op_result_raises. eapply instant_from_iso_in_range; eassumption.
  - intro H; inj_raise H. unfold op_raisable.
    destruct (instant_from_iso_raises _ _ S) as [-> | ->]; auto.
Qed.

Lemma op_raisable_diagnosed x : op_raisable x -> x <> Unmodelled -> In x ka_eval_classes.
Proof. intros [->|[->| ->]] NU; cbn; auto 14; congruence. Qed.

Theorem instant_from_iso_outcome s : instant_from_iso s <> Raise Unmodelled ->
  acceptable (outcome_of (instant_from_iso s)).
Proof.
  intro NU. apply diagnosed_acceptable. intros x E. apply op_raisable_diagnosed.
  - unfold op_raisable. destruct (instant_from_iso_raises _ _ E) as [-> | ->]; auto.
  - intros ->. congruence.
Qed.

Theorem op_result_outcome i o : in_range i = true -> op_result i o <> Raise Unmodelled ->
  acceptable (outcome_of (op_result i o)).
Proof.
  intros R NU. apply diagnosed_acceptable. intros x E. apply op_raisable_diagnosed.
  - eapply op_result_raises; eassumption.
  - intros ->. congruence.
Qed.

Theorem case_outcome s o :
  (do i <- instant_from_iso s; op_result i o) <> Raise Unmodelled ->
  acceptable (outcome_of (do i <- instant_from_iso s; op_result i o)).
Proof.
  intro NU. apply diagnosed_acceptable. intros x E. apply op_raisable_diagnosed.
  - eapply case_raises; eassumption.
  - intros ->. congruence.
Qed.
End InstantExt.

(* ====================================================================== Sampling *)
Module SamplingExt.
Import Ka.Model.Num Ka.Model.Prob Ka.Model.Sampling Ka.Proofs.SamplingProofs.
Import ExecExtProofs.ProbExt.

Lemma poisson_loop_raises pmf u : forall fuel k p x, poisson_loop pmf u fuel k p = Raise x -> x = OutOfFuel.
Proof.
  induction fuel as [|f IH]; intros k p x; cbn [poisson_loop]; [intro H; inj_raise H; reflexivity|].
  destruct (Qltb u (Qred (p + pmf k))); [discriminate|apply IH].
Qed.

(* Sampling's run_op has its own result type; its reading as a [res] *)
Definition outv_res (v : outv) : res outv :=
  match v with VErr e => Raise e | _ => Ok v end.

Section Ext.
Variables (logK erfinvK : Q -> Q) (sqrt2 : Q) (expnegK : Q -> Q) (fuel : nat) (init : Z -> nat -> Q).
Notation sampleK := (sample logK erfinvK sqrt2 expnegK fuel).
Notation sample_nK := (sample_n logK erfinvK sqrt2 expnegK fuel).
Notation run_opK := (run_op logK erfinvK sqrt2 expnegK fuel init).
Notation run_opsK := (run_ops logK erfinvK sqrt2 expnegK fuel init).

Definition sample_raisable (x : exn) : Prop :=
  x = ZeroDivisionError \/ x = OverflowError \/ x = OutOfFuel.

Lemma geometric_u_raises p u x : geometric_u logK p u = Raise x -> x = ZeroDivisionError.
Proof.
  unfold geometric_u. destruct (Qis_zero (logK (1 - p))); [intro H; inj_raise H; reflexivity|discriminate].
Qed.
Lemma gaussian_u_raises mu sd u x : gaussian_u erfinvK sqrt2 mu sd u = Raise x -> x = OverflowError.
Proof. unfold gaussian_u. destruct (Qis_zero u); [intro H; inj_raise H; reflexivity|discriminate]. Qed.

Lemma lift_res_raises {A B} (f : A -> B) r x : lift_res f r = Raise x -> r = Raise x.
Proof. destruct r; cbn [lift_res]; [discriminate|intro H; inj_raise H; reflexivity]. Qed.

Theorem sample_raises X s x : fst (sampleK X s) = Raise x -> sample_raisable x.
Proof.
  unfold sample, unit_draw, sample_raisable. destruct X; cbn [fst]; try discriminate.
  - destruct (draws (Z.to_nat n) s) as [us s1]. cbn [fst]. discriminate.
  - intro H. apply lift_res_raises in H. unfold poisson_gen in H. apply poisson_loop_raises in H. auto.
  - destruct (Qeqb p 1); cbn [fst]; [discriminate|].
    intro H. apply lift_res_raises in H. apply geometric_u_raises in H. auto.
  - intro H. apply lift_res_raises in H. apply gaussian_u_raises in H. auto.
Qed.

(* the only OutOfFuel is the Poisson loop, and the bound of SamplingProofs excludes it *)
Theorem sample_no_fuel X s : fst (sampleK X s) = Raise OutOfFuel -> exists mu, X = Poisson mu.
Proof.
  unfold sample, unit_draw. destruct X; cbn [fst]; try discriminate; eauto.
  - destruct (draws (Z.to_nat n) s) as [us s1]. cbn [fst]. discriminate.
  - destruct (Qeqb p 1); cbn [fst]; [discriminate|].
    intro H. apply lift_res_raises in H. apply geometric_u_raises in H. discriminate.
  - intro H. apply lift_res_raises in H. apply gaussian_u_raises in H. discriminate.
Qed.

Theorem poisson_sample_fuel mu s n :
  (src s (pos s) < psum (poisson_pmf_nat expnegK mu) n)%Q -> (n < fuel)%nat ->
  forall x, fst (sampleK (Poisson mu) s) <> Raise x.
Proof.
  intros Hn Hf x. unfold sample, unit_draw. cbn [fst].
  destruct (poisson_gen_terminates _ fuel _ n Hn Hf) as (r & ->). discriminate.
Qed.

Theorem sample_n_raises X : forall n s x, fst (sample_nK X n s) = Raise x -> sample_raisable x.
Proof.
  induction n as [|k IH]; intros s x; cbn [sample_n]; [discriminate|].
  destruct (sampleK X s) as [[v|e] s1] eqn:S1.
  - destruct (sample_nK X k s1) as [[l|e] s2] eqn:S2; cbn [fst]; [discriminate|].
    intro H; inj_raise H. apply (IH s1). rewrite S2. reflexivity.
  - cbn [fst]. intro H; inj_raise H. apply (sample_raises X s). rewrite S1. reflexivity.
Qed.

Theorem sample_multiple_raises X n s x :
  fst (sample_multiple logK erfinvK sqrt2 expnegK fuel X n s) = Raise x -> sample_raisable x.
Proof. unfold sample_multiple. apply sample_n_raises. Qed.

Definition op_raisable (x : exn) : Prop := x = InvalidParameterException \/ sample_raisable x.

Theorem run_op_raises o s x : outv_res (fst (run_opK o s)) = Raise x -> op_raisable x.
Proof.
  unfold op_raisable. destruct o as [|X|X n|k]; cbn [run_op].
  - unfold unit_draw. cbn. discriminate.
  - destruct (make_rv X) as [X'|e] eqn:M; cbn [fst outv_res].
    + destruct (sampleK X' s) as [[v|e] s1] eqn:S1; cbn [fst outv_res]; [discriminate|].
      intro H; inj_raise H. right. apply (sample_raises X' s). rewrite S1. reflexivity.
    + intro H; inj_raise H. left. eapply make_rv_raises; eassumption.
  - destruct (make_rv X) as [X'|e] eqn:M; cbn [fst outv_res].
    + destruct (sample_multiple logK erfinvK sqrt2 expnegK fuel X' n s) as [[l|e] s1] eqn:S1;
        cbn [fst outv_res]; [discriminate|].
      intro H; inj_raise H. right. apply (sample_multiple_raises X' n s). rewrite S1. reflexivity.
    + intro H; inj_raise H. left. eapply make_rv_raises; eassumption.
  - cbn. discriminate.
Qed.

Theorem run_ops_raises ops : forall s v x, In v (fst (run_opsK ops s)) -> outv_res v = Raise x -> op_raisable x.
Proof.
  induction ops as [|o r IH]; intros s v x; cbn [run_ops]; [intros []|].
  destruct (run_opK o s) as [v1 s1] eqn:R1. destruct (run_opsK r s1) as [vs s2] eqn:R2. cbn [fst].
  intros [<-|I] H.
  - apply (run_op_raises o s). rewrite R1. exact H.
  - apply (IH s1 v x); [rewrite R2; exact I|exact H].
Qed.

Lemma op_raisable_diagnosed x : op_raisable x -> x <> OutOfFuel -> In x ka_eval_classes.
Proof. intros [->|[->|[->| ->]]] NF; cbn; auto 14; congruence. Qed.

Theorem run_op_outcome o s : outv_res (fst (run_opK o s)) <> Raise OutOfFuel ->
  acceptable (outcome_of (outv_res (fst (run_opK o s)))).
Proof.
  intro NF. apply diagnosed_acceptable. intros x E. apply op_raisable_diagnosed.
  - eapply run_op_raises; eassumption.
  - intros ->. congruence.
Qed.

Theorem sample_outcome X s : fst (sampleK X s) <> Raise OutOfFuel ->
  acceptable (outcome_of (fst (sampleK X s))).
Proof.
  intro NF. apply diagnosed_acceptable. intros x E. apply op_raisable_diagnosed.
  - right. eapply sample_raises; eassumption.
  - intros ->. congruence.
Qed.
End Ext.
End SamplingExt.

(* ====================================================================== Session *)
Module SessionExt.
Import Ka.Model.Num Ka.Model.Session.

Definition sess_raisable (x : exn) : Prop :=
  x = EvalError \/ x = ZeroDivisionError \/ x = UnknownFunctionError \/ x = FunctionArgError
  \/ x = Unmodelled.

Ltac crunch :=
  repeat first
    [ discriminate
    | (let H := fresh "H" in intro H; inj_raise H; auto 8; fail)
    | match goal with
      | |- (if ?c then _ else _) = _ -> _ => destruct c
      | |- match ?l with [] => _ | _ :: _ => _ end = _ -> _ => destruct l
      end ].

Lemma fn_apply_raises f args x : fn_apply f args = Raise x ->
  x = UnknownFunctionError \/ x = FunctionArgError \/ x = Unmodelled.
Proof.
  unfold fn_apply. destruct (negb (is_function f)); [intro H; inj_raise H; auto|].
  destruct (as_nums args) as [ns|]; [|intro H; inj_raise H; auto].
  destruct (String.eqb f "sin"); [crunch|].
  destruct (String.eqb f "abs").
  { destruct ns as [|n [|m r]]; crunch. unfold lift_v, n_abs. destruct n; discriminate. }
  destruct (String.eqb f "floor").
  { destruct ns as [|n [|m r]]; crunch. }
  destruct (String.eqb f "max"); [crunch|].
  destruct (String.eqb f "min"); crunch.
Qed.

Lemma unit_apply_raises u mag x : unit_apply u mag = Raise x -> x = EvalError \/ x = Unmodelled.
Proof.
  unfold unit_apply. destruct (Units.lookup_unit u) as [| | |i p mult ex]; try (intro H; inj_raise H; auto; fail).
  destruct (nth_error _ i) as [g|]; [|intro H; inj_raise H; auto].
  match goal with |- (if ?c then _ else _) = _ -> _ => destruct c end; [|intro H; inj_raise H; auto].
  destruct (n_mul (norm mult) mag) as [m|y] eqn:M; [discriminate|].
  unfold n_mul in M. destruct (norm mult), mag; discriminate.
Qed.

Lemma make_quantity_raises v u x : make_quantity v u = Raise x -> x = EvalError \/ x = Unmodelled.
Proof.
  destruct v as [n|m d|l]; cbn [make_quantity]; [apply unit_apply_raises| |]; intro H; inj_raise H; auto.
Qed.

Lemma arith_raises o a b x : arith o a b = Raise x -> x = ZeroDivisionError \/ x = Unmodelled.
Proof.
  unfold arith. destruct a as [p|m d|l], b as [q|m' d'|l']; try (intro H; inj_raise H; auto; fail).
  destruct o.
  - unfold n_add. destruct p, q; discriminate.
  - unfold n_sub. destruct p, q; discriminate.
  - unfold n_mul. destruct p, q; discriminate.
  - unfold n_div. destruct (Qis_zero (toQ q)); [intro H; inj_raise H; auto|discriminate].
Qed.

(* the comprehension loop relative to its body evaluator *)
Lemma comp_loop_raises (P : exn -> Prop) ev v : (forall t x, fst (ev t) = Raise x -> P x) ->
  forall l t acc x, fst (comp_loop ev v l t acc) = Raise x -> P x.
Proof.
  intro Hev. induction l as [|i r IH]; intros t acc x; cbn [comp_loop]; [cbn [fst]; discriminate|].
  destruct (ev (tset v (VNum (NInt i)) t)) as [rb t2] eqn:E. destruct rb as [w|y].
  - apply IH.
  - cbn [fst]. intro H; inj_raise H. apply (Hev (tset v (VNum (NInt i)) t)). rewrite E. reflexivity.
Qed.

Theorem eval_raises e : forall t x, fst (eval e t) = Raise x -> sess_raisable x.
Proof.
  unfold sess_raisable.
  induction e as [z|v|o a IHa b IHb|f a IHa|f a IHa b IHb|a IHa u|body IHb v lo hi]; intros t x; cbn [eval].
  - cbn [fst]. discriminate.
  - cbn [fst]. destruct (tget v t); [discriminate|intro H; inj_raise H; auto].
  - destruct (eval a t) as [ra t1] eqn:Ea. destruct ra as [va|y].
    + destruct (eval b t1) as [rb t2] eqn:Eb. destruct rb as [vb|y]; cbn [fst].
      * intro H. destruct (arith_raises _ _ _ _ H) as [-> | ->]; auto 8.
      * intro H; inj_raise H. apply (IHb t1). rewrite Eb. reflexivity.
    + cbn [fst]. intro H; inj_raise H. apply (IHa t). rewrite Ea. reflexivity.
  - destruct (eval a t) as [ra t1] eqn:Ea. cbn [fst]. destruct ra as [va|y].
    + intro H. destruct (fn_apply_raises _ _ _ H) as [->|[-> | ->]]; auto 8.
    + intro H; inj_raise H. apply (IHa t). rewrite Ea. reflexivity.
  - destruct (eval a t) as [ra t1] eqn:Ea. destruct ra as [va|y].
    + destruct (eval b t1) as [rb t2] eqn:Eb. cbn [fst]. destruct rb as [vb|y].
      * intro H. destruct (fn_apply_raises _ _ _ H) as [->|[-> | ->]]; auto 8.
      * intro H; inj_raise H. apply (IHb t1). rewrite Eb. reflexivity.
    + cbn [fst]. intro H; inj_raise H. apply (IHa t). rewrite Ea. reflexivity.
  - destruct (eval a t) as [ra t1] eqn:Ea. cbn [fst]. destruct ra as [va|y].
    + intro H. destruct (make_quantity_raises _ _ _ H) as [-> | ->]; auto 8.
    + intro H; inj_raise H. apply (IHa t). rewrite Ea. reflexivity.
  - apply (comp_loop_raises (fun y => y = EvalError \/ y = ZeroDivisionError \/ y = UnknownFunctionError
                                       \/ y = FunctionArgError \/ y = Unmodelled)). exact IHb.
Qed.

Theorem exec_stmt_raises s t x : fst (exec_stmt s t) = Raise x -> sess_raisable x.
Proof.
  destruct s as [v e|e]; cbn [exec_stmt]; [|apply eval_raises].
  destruct (eval e t) as [r t1] eqn:E. destruct r as [w|y]; cbn [fst]; [discriminate|].
  intro H; inj_raise H. apply (eval_raises e t). rewrite E. reflexivity.
Qed.

Theorem run_from_raises ss : forall last t x, fst (run_from last ss t) = Raise x -> sess_raisable x.
Proof.
  induction ss as [|s r IH]; intros last t x; cbn [run_from]; [cbn [fst]; discriminate|].
  destruct (exec_stmt s t) as [rv t1] eqn:E. destruct rv as [w|y]; [apply IH|].
  cbn [fst]. intro H; inj_raise H. apply (exec_stmt_raises s t). rewrite E. reflexivity.
Qed.

Theorem run_one_raises ss t x : fst (run_one ss t) = Raise x -> sess_raisable x.
Proof. unfold run_one. apply run_from_raises. Qed.

Theorem run_many_raises groups : forall t x, fst (run_many groups t) = Raise x -> sess_raisable x.
Proof.
  induction groups as [|g gs IH]; intros t x; cbn [run_many]; [cbn [fst]; discriminate|].
  destruct (run_one g t) as [r t1] eqn:E. destruct r as [w|y].
  - destruct gs as [|g2 gs2]; [cbn [fst]; discriminate|apply IH].
  - cbn [fst]. intro H; inj_raise H. apply (run_one_raises g t). rewrite E. reflexivity.
Qed.

Theorem exec_in_raises i input st x : fst (exec_in i input st) = Raise x -> sess_raisable x.
Proof.
  unfold exec_in. destruct (sessions st i) as [t|]; [|cbn [fst]; intro H; inj_raise H; unfold sess_raisable; auto 8].
  destruct (run_one input t) as [r t'] eqn:E. cbn [fst]. intro H. apply (run_one_raises input t). rewrite E. exact H.
Qed.

Theorem exec_fresh_raises input st x : fst (exec_fresh input st) = Raise x -> sess_raisable x.
Proof. unfold exec_fresh. cbn [fst]. apply run_one_raises. Qed.

Theorem run_hist_raises h : forall st x, In (Raise x) (fst (run_hist h st)) -> sess_raisable x.
Proof.
  induction h as [|[i input] r IH]; intros st x; cbn [run_hist]; [intros []|].
  destruct (exec_in i input st) as [o st1] eqn:E. destruct (run_hist r st1) as [os st2] eqn:R. cbn [fst].
  intros [->|I].
  - apply (exec_in_raises i input st). rewrite E. reflexivity.
  - apply (IH st1). rewrite R. exact I.
Qed.

Lemma sess_raisable_diagnosed x : sess_raisable x -> x <> Unmodelled -> In x ka_eval_classes.
Proof. intros [->|[->|[->|[->| ->]]]] NU; cbn; auto 14; congruence. Qed.

(* the model's own [diagnosed] predicate agrees with the regenerated except lists on these classes *)
Lemma sess_raisable_model_diagnosed x : sess_raisable x -> x <> Unmodelled -> diagnosed x = true.
Proof. intros [->|[->|[->|[->| ->]]]] NU; try reflexivity; congruence. Qed.

Theorem run_one_outcome ss t : fst (run_one ss t) <> Raise Unmodelled ->
  acceptable (outcome_of (fst (run_one ss t))).
Proof.
  intro NU. apply diagnosed_acceptable. intros x E. apply sess_raisable_diagnosed.
  - eapply run_one_raises; eassumption.
  - intros ->. congruence.
Qed.

Theorem run_many_outcome groups t : fst (run_many groups t) <> Raise Unmodelled ->
  acceptable (outcome_of (fst (run_many groups t))).
Proof.
  intro NU. apply diagnosed_acceptable. intros x E. apply sess_raisable_diagnosed.
  - eapply run_many_raises; eassumption.
  - intros ->. congruence.
Qed.

Theorem exec_in_outcome i input st : fst (exec_in i input st) <> Raise Unmodelled ->
  acceptable (outcome_of (fst (exec_in i input st))).
Proof.
  intro NU. apply diagnosed_acceptable. intros x E. apply sess_raisable_diagnosed.
  - eapply exec_in_raises; eassumption.
  - intros ->. congruence.
Qed.

Theorem run_hist_outcome h st o : In o (fst (run_hist h st)) -> o <> Raise Unmodelled ->
  acceptable (outcome_of o).
Proof.
  intros I NU. apply diagnosed_acceptable. intros x E. subst o. apply sess_raisable_diagnosed.
  - eapply run_hist_raises; eassumption.
  - intros ->. congruence.
Qed.
End SessionExt.
