(* Proofs about Model/Currency.v: registration never trips register_unit's assertions, every
   cash unit carries rate(base)/rate(row), conversion algebra over Q, independence of the base,
   export/parse round trip. *)
From Coq Require Import Lia Lqa Field Qfield Ascii.
From Ka Require Import Model.Currency.
Local Open Scope string_scope.

(* ------------------------------------------------------------------ small facts *)
Lemma Qeq_bool_false_neq q : Qeq_bool q 0 = false -> ~ q == 0.
Proof. intros H E. apply Qeq_bool_iff in E. congruence. Qed.

Lemma pos_neq0 q : 0 < q -> ~ q == 0.
Proof. intros H E. rewrite E in H. apply (Qlt_irrefl 0 H). Qed.

Lemma pos_Qeq_bool q : 0 < q -> Qeq_bool q 0 = false.
Proof.
  intros H. destruct (Qeq_bool q 0) eqn:E; [|reflexivity].
  apply Qeq_bool_iff in E. exfalso. exact (pos_neq0 q H E).
Qed.

Lemma pos_Qle_bool q : 0 < q -> Qle_bool q 0 = false.
Proof.
  intros H. destruct (Qle_bool q 0) eqn:E; [|reflexivity].
  apply Qle_bool_iff in E. exfalso. apply (Qlt_irrefl 0). eapply Qlt_le_trans; eauto.
Qed.

Lemma Qle_bool_false_pos q : Qle_bool q 0 = false -> 0 < q.
Proof.
  intros H. apply Qnot_le_lt. intros L. apply Qle_bool_iff in L. congruence.
Qed.

(* ------------------------------------------------------------------ registration *)
(* every cash unit stems from a row of the table and carries base_rate / rate(row) *)
Definition cash_ok (rb : Q) (t : list cur) (st : regstate) : Prop :=
  Forall (fun u => In (cu_row u) t /\ cu_mult u = rb / c_rate (cu_row u)) (rs_cash st).

Lemma taken_false_register st sym name m row :
  taken st sym name = false ->
  exists st', register_unit st sym name m row = POk st'
    /\ rs_cash st' = (rs_cash st ++ [{| cu_sym := sym; cu_name := name; cu_plural := name ++ "s";
                                         cu_mult := m; cu_row := row |}])%list
    /\ rs_names st' = (name ++ "s") :: name :: rs_names st
    /\ rs_syms st' = sym :: rs_syms st.
Proof.
  unfold taken, register_unit. intros H.
  apply orb_false_elim in H as [H H3]. apply orb_false_elim in H as [H1 H2].
  rewrite H2, H1, H3. eexists. split; [reflexivity|]. cbn. auto.
Qed.

Lemma register_currency_ok nn rb t st c :
  ~ c_rate c == 0 -> In c t -> cash_ok rb t st ->
  exists st', register_currency nn rb st c = POk st' /\ cash_ok rb t st'.
Proof.
  intros Hr Hin Hok. unfold register_currency.
  destruct (Qeq_bool (c_rate c) 0) eqn:E0.
  { exfalso. apply Hr. apply Qeq_bool_iff. exact E0. }
  destruct (mem (nn (c_name c)) (rs_names st) && mem (c_sym c) (rs_syms st)); [eauto|].
  set (sym := if mem (c_sym c) (rs_syms st) then nn (c_name c) else c_sym c).
  set (name := match assoc sym special_names with
               | Some n => n
               | None => if mem (nn (c_name c)) (rs_names st) then c_sym c else nn (c_name c)
               end).
  destruct (taken st sym name) eqn:T; [eauto|].
  destruct (taken_false_register st sym name (rb / c_rate c) c T) as (st1 & R1 & C1 & _ & _).
  rewrite R1. cbn [pbind].
  assert (Hok1 : cash_ok rb t st1).
  { unfold cash_ok. rewrite C1. apply Forall_app. split; [exact Hok|].
    constructor; [|constructor]. cbn. auto. }
  destruct (assoc sym special_currency_symbols) as [ss|]; [|eauto].
  destruct (taken st1 ss ss) eqn:T2; [eauto|].
  destruct (taken_false_register st1 ss ss (rb / c_rate c) c T2) as (st2 & R2 & C2 & _ & _).
  rewrite R2. eexists. split; [reflexivity|].
  unfold cash_ok. rewrite C2. apply Forall_app. split; [exact Hok1|].
  constructor; [|constructor]. cbn. auto.
Qed.

Lemma register_loop_ok nn rb t : forall l st,
  (forall c, In c l -> In c t /\ ~ c_rate c == 0) -> cash_ok rb t st ->
  exists st', register_loop nn rb st l = POk st' /\ cash_ok rb t st'.
Proof.
  induction l as [|c l IH]; intros st Hl Hok; cbn [register_loop].
  - eauto.
  - destruct (Hl c (or_introl eq_refl)) as [Hin Hr].
    destruct (register_currency_ok nn rb t st c Hr Hin Hok) as (st1 & R & Hok1).
    rewrite R. cbn [pbind]. apply IH; [|exact Hok1].
    intros c' Hc'. apply Hl. right. exact Hc'.
Qed.

Lemma has_currency_find base t :
  has_currency base t = true ->
  exists b, find (fun c => String.eqb (c_sym c) base) t = Some b /\ In b t.
Proof.
  unfold has_currency. induction t as [|c t IH]; cbn; [discriminate|].
  destruct (String.eqb (c_sym c) base); cbn.
  - intros _. eauto.
  - intros H. destruct (IH H) as (b & F & I). eauto.
Qed.

Lemma find_in {A} (f : A -> bool) l x : find f l = Some x -> In x l /\ f x = true.
Proof.
  induction l as [|a l IH]; cbn; [discriminate|].
  destruct (f a) eqn:E; [intros [= <-]; auto|]. intros H. destruct (IH H). auto.
Qed.

Lemma rates_positive_nonzero t : rates_positive t -> forall c, In c t -> In c t /\ ~ c_rate c == 0.
Proof.
  intros H c Hc. split; [exact Hc|]. apply pos_neq0.
  unfold rates_positive in H. rewrite Forall_forall in H. exact (H c Hc).
Qed.

(* R2: with positive rates and the base present, the registration returns normally *)
Theorem registration_never_raises nn pn ps t base :
  rates_positive t -> has_currency base t = true ->
  exists st b, find (fun c => String.eqb (c_sym c) base) t = Some b /\ In b t
            /\ register_currencies nn pn ps t base = POk st /\ cash_ok (c_rate b) t st.
Proof.
  intros Hp Hb. destruct (has_currency_find base t Hb) as (b & F & I).
  unfold register_currencies. rewrite F.
  destruct (register_loop_ok nn (c_rate b) t t {| rs_names := pn; rs_syms := ps; rs_cash := [] |}
              (rates_positive_nonzero t Hp)) as (st & R & Hok).
  { constructor. }
  exists st, b. auto.
Qed.

(* only a zero rate can make the loop raise, and then it is ZeroDivisionError; with the asserts
   guarded there is no other exception *)
Lemma register_currencies_inv nn pn ps t base st :
  register_currencies nn pn ps t base = POk st ->
  exists b, find (fun c => String.eqb (c_sym c) base) t = Some b /\ In b t
            /\ register_loop nn (c_rate b) {| rs_names := pn; rs_syms := ps; rs_cash := [] |} t = POk st.
Proof.
  unfold register_currencies. destruct (find _ t) as [b|] eqn:F; [|discriminate].
  intros R. exists b. destruct (find_in _ _ _ F). auto.
Qed.

Lemma registered_cash_ok nn pn ps t base st :
  rates_positive t -> register_currencies nn pn ps t base = POk st ->
  exists b, In b t /\ String.eqb (c_sym b) base = true /\ cash_ok (c_rate b) t st.
Proof.
  intros Hp R. destruct (register_currencies_inv _ _ _ _ _ _ R) as (b & F & I & L).
  destruct (register_loop_ok nn (c_rate b) t t {| rs_names := pn; rs_syms := ps; rs_cash := [] |}
              (rates_positive_nonzero t Hp)) as (st' & R' & Hok); [constructor|].
  rewrite L in R'. injection R' as <-. exists b. destruct (find_in _ _ _ F). auto.
Qed.

(* ------------------------------------------------------------------ lookup *)
Lemma lookup_cash_in st ident u : lookup_unit st ident = RCash u -> In u (rs_cash st).
Proof.
  unfold lookup_unit.
  destruct (find _ (rs_cash st)) as [u1|] eqn:F1.
  - intros [= <-]. apply (find_in _ _ _ F1).
  - destruct (mem ident (rs_names st)); [discriminate|].
    destruct (find (fun u0 => String.eqb (cu_sym u0) ident) (rs_cash st)) as [u2|] eqn:F2.
    + intros [= <-]. apply (find_in _ _ _ F2).
    + destruct (mem ident (rs_syms st)); discriminate.
Qed.

(* ------------------------------------------------------------------ conversion algebra *)
Lemma conv_algebra rb ra rB x :
  ~ rb == 0 -> ~ ra == 0 -> ~ rB == 0 ->
  convert_quantity (make_quantity (rb / ra) x) (rb / rB) == x * rB / ra.
Proof. intros Hb Ha HB. unfold convert_quantity, make_quantity. field. auto. Qed.

Section Registered.
  Variables (nn : namenorm_t) (pn ps : list string) (t : list cur) (base : string) (st : regstate).
  Hypothesis Hpos : rates_positive t.
  Hypothesis Hreg : register_currencies nn pn ps t base = POk st.

  Lemma unit_facts : exists b, In b t /\ 0 < c_rate b /\
    forall ident u, lookup_unit st ident = RCash u ->
      In (cu_row u) t /\ 0 < c_rate (cu_row u) /\ cu_mult u = c_rate b / c_rate (cu_row u).
  Proof.
    destruct (registered_cash_ok nn pn ps t base st Hpos Hreg) as (b & Ib & _ & Hok).
    unfold rates_positive in Hpos. rewrite Forall_forall in Hpos.
    exists b. split; [exact Ib|]. split; [exact (Hpos b Ib)|].
    intros ident u L. apply lookup_cash_in in L.
    unfold cash_ok in Hok. rewrite Forall_forall in Hok. destruct (Hok u L) as [I M]. auto.
  Qed.

  (* x A to B = x * rate(B) / rate(A) *)
  Theorem conversion_rate x a b ua ub :
    lookup_unit st a = RCash ua -> lookup_unit st b = RCash ub ->
    In (cu_row ua) t /\ In (cu_row ub) t /\
    exists r, convert st x a b = Some r /\ r == x * c_rate (cu_row ub) / c_rate (cu_row ua).
  Proof.
    intros La Lb. destruct unit_facts as (bb & _ & Pb & F).
    destruct (F a ua La) as (Ia & Pa & Ma). destruct (F b ub Lb) as (Ib & PB & MB).
    split; [exact Ia|]. split; [exact Ib|].
    unfold convert. rewrite La, Lb. eexists. split; [reflexivity|].
    rewrite Ma, MB. apply conv_algebra; apply pos_neq0; assumption.
  Qed.

  Lemma convert_some x a b r : convert st x a b = Some r ->
    exists ua ub, lookup_unit st a = RCash ua /\ lookup_unit st b = RCash ub.
  Proof.
    unfold convert. destruct (lookup_unit st a) as [ua| |]; try discriminate.
    destruct (lookup_unit st b) as [ub| |]; try discriminate. eauto.
  Qed.

  Theorem conversion_roundtrip x a b y :
    convert st x a b = Some y -> exists x', convert st y b a = Some x' /\ x' == x.
  Proof.
    intros C. destruct (convert_some _ _ _ _ C) as (ua & ub & La & Lb).
    destruct (conversion_rate x a b ua ub La Lb) as (_ & _ & r & C1 & E1).
    rewrite C in C1. injection C1 as <-.
    destruct (conversion_rate y b a ub ua Lb La) as (_ & _ & r2 & C2 & E2).
    exists r2. split; [exact C2|]. rewrite E2, E1.
    destruct unit_facts as (bb & _ & _ & F).
    destruct (F a ua La) as (_ & Pa & _). destruct (F b ub Lb) as (_ & PB & _).
    field. split; apply pos_neq0; assumption.
  Qed.

  Theorem conversion_triangle x a b c y z :
    convert st x a b = Some y -> convert st y b c = Some z ->
    exists z', convert st x a c = Some z' /\ z' == z.
  Proof.
    intros C1 C2. destruct (convert_some _ _ _ _ C1) as (ua & ub & La & Lb).
    destruct (convert_some _ _ _ _ C2) as (ub' & uc & Lb' & Lc).
    rewrite Lb in Lb'. injection Lb' as <-.
    destruct (conversion_rate x a b ua ub La Lb) as (_ & _ & r1 & D1 & E1).
    rewrite C1 in D1. injection D1 as <-.
    destruct (conversion_rate y b c ub uc Lb Lc) as (_ & _ & r2 & D2 & E2).
    rewrite C2 in D2. injection D2 as <-.
    destruct (conversion_rate x a c ua uc La Lc) as (_ & _ & r3 & D3 & E3).
    exists r3. split; [exact D3|]. rewrite E3, E2, E1.
    destruct unit_facts as (bb & _ & _ & F).
    destruct (F a ua La) as (_ & Pa & _). destruct (F b ub Lb) as (_ & PB & _).
    field. split; apply pos_neq0; assumption.
  Qed.
End Registered.

(* ------------------------------------------------------------------ independence of the base *)
(* what a registry looks like apart from the multiples *)
Definition ushape (u : cunit) := (cu_sym u, cu_name u, cu_plural u, cu_row u).
Definition same_shape (s1 s2 : regstate) : Prop :=
  rs_names s1 = rs_names s2 /\ rs_syms s1 = rs_syms s2 /\ map ushape (rs_cash s1) = map ushape (rs_cash s2).

Lemma register_unit_shape s1 s2 sym name m1 m2 row s1' :
  same_shape s1 s2 -> register_unit s1 sym name m1 row = POk s1' ->
  exists s2', register_unit s2 sym name m2 row = POk s2' /\ same_shape s1' s2'.
Proof.
  intros (Hn & Hs & Hc). unfold register_unit. rewrite <- Hn, <- Hs.
  destruct (mem name (rs_names s1)); [discriminate|].
  destruct (mem sym (rs_syms s1)); [discriminate|].
  destruct (mem (name ++ "s") (name :: rs_names s1)); [discriminate|].
  intros [= <-]. eexists. split; [reflexivity|].
  unfold same_shape. cbn. rewrite Hn, Hs, !map_app, Hc. auto.
Qed.

Lemma taken_shape s1 s2 sym name : same_shape s1 s2 -> taken s1 sym name = taken s2 sym name.
Proof. intros (Hn & Hs & _). unfold taken. rewrite Hn, Hs. reflexivity. Qed.

Lemma register_currency_shape nn rb1 rb2 s1 s2 c s1' :
  same_shape s1 s2 -> register_currency nn rb1 s1 c = POk s1' ->
  exists s2', register_currency nn rb2 s2 c = POk s2' /\ same_shape s1' s2'.
Proof.
  intros Hsh. pose proof Hsh as (Hn & Hs & Hc). unfold register_currency.
  destruct (Qeq_bool (c_rate c) 0); [discriminate|].
  rewrite <- Hn, <- Hs.
  destruct (mem (nn (c_name c)) (rs_names s1) && mem (c_sym c) (rs_syms s1)).
  { intros [= <-]. eauto. }
  set (sym := if mem (c_sym c) (rs_syms s1) then nn (c_name c) else c_sym c).
  set (name := match assoc sym special_names with
               | Some n => n
               | None => if mem (nn (c_name c)) (rs_names s1) then c_sym c else nn (c_name c)
               end).
  rewrite <- (taken_shape s1 s2 sym name Hsh).
  destruct (taken s1 sym name). { intros [= <-]. eauto. }
  destruct (register_unit s1 sym name (rb1 / c_rate c) c) as [st1|] eqn:R1; [|discriminate].
  destruct (register_unit_shape s1 s2 sym name _ (rb2 / c_rate c) c st1 Hsh R1) as (st1' & R1' & Sh1).
  rewrite R1'. cbn [pbind].
  destruct (assoc sym special_currency_symbols) as [ss|].
  - rewrite <- (taken_shape st1 st1' ss ss Sh1).
    destruct (taken st1 ss ss). { intros [= <-]. eauto. }
    intros R2. exact (register_unit_shape st1 st1' ss ss _ (rb2 / c_rate c) c s1' Sh1 R2).
  - intros [= <-]. eauto.
Qed.

Lemma register_loop_shape nn rb1 rb2 : forall l s1 s2 s1',
  same_shape s1 s2 -> register_loop nn rb1 s1 l = POk s1' ->
  exists s2', register_loop nn rb2 s2 l = POk s2' /\ same_shape s1' s2'.
Proof.
  induction l as [|c l IH]; intros s1 s2 s1' Hsh; cbn [register_loop].
  - intros [= <-]. eauto.
  - destruct (register_currency nn rb1 s1 c) as [m1|] eqn:R; [|discriminate]. cbn [pbind].
    destruct (register_currency_shape nn rb1 rb2 s1 s2 c m1 Hsh R) as (m2 & R2 & Sh).
    rewrite R2. cbn [pbind]. apply IH. exact Sh.
Qed.

(* with equal shapes an identifier resolves to units at the same position: same row *)
Lemma find_shape (f : string * string * string * cur -> bool) : forall l1 l2,
  map ushape l1 = map ushape l2 ->
  match find (fun u => f (ushape u)) l1, find (fun u => f (ushape u)) l2 with
  | Some u1, Some u2 => ushape u1 = ushape u2
  | None, None => True
  | _, _ => False
  end.
Proof.
  induction l1 as [|a l1 IH]; intros [|b l2] E; cbn [map] in E; try discriminate; cbn [find]; [exact I|].
  assert (E1 : ushape a = ushape b) by congruence.
  assert (E2 : map ushape l1 = map ushape l2) by congruence.
  rewrite <- E1. destruct (f (ushape a)); [exact E1|]. apply IH. exact E2.
Qed.

Definition res_row (r : resolved) : option (option cur) :=
  match r with RCash u => Some (Some (cu_row u)) | RNonCash => Some None | RUnknown => None end.

Lemma lookup_shape s1 s2 ident : same_shape s1 s2 ->
  res_row (lookup_unit s1 ident) = res_row (lookup_unit s2 ident).
Proof.
  intros (Hn & Hs & Hc). unfold lookup_unit.
  pose proof (find_shape (fun sh => String.eqb (snd (fst (fst sh))) ident || String.eqb (snd (fst sh)) ident)
                (rs_cash s1) (rs_cash s2) Hc) as F1.
  pose proof (find_shape (fun sh => String.eqb (fst (fst (fst sh))) ident)
                (rs_cash s1) (rs_cash s2) Hc) as F2.
  cbn [ushape fst snd] in F1, F2.
  rewrite <- Hn, <- Hs.
  destruct (find (fun u => String.eqb (cu_name u) ident || String.eqb (cu_plural u) ident) (rs_cash s1)) as [u1|];
  destruct (find (fun u => String.eqb (cu_name u) ident || String.eqb (cu_plural u) ident) (rs_cash s2)) as [u2|];
    try contradiction.
  - cbn. injection F1 as _ _ _ ->. reflexivity.
  - destruct (mem ident (rs_names s1)); [reflexivity|].
    destruct (find (fun u => String.eqb (cu_sym u) ident) (rs_cash s1)) as [v1|];
    destruct (find (fun u => String.eqb (cu_sym u) ident) (rs_cash s2)) as [v2|]; try contradiction.
    + cbn. injection F2 as _ _ _ ->. reflexivity.
    + reflexivity.
Qed.

Theorem base_independent nn pn ps t b1 b2 st1 st2 :
  rates_positive t ->
  register_currencies nn pn ps t b1 = POk st1 -> register_currencies nn pn ps t b2 = POk st2 ->
  forall x a b,
    match convert st1 x a b, convert st2 x a b with
    | Some r1, Some r2 => r1 == r2
    | None, None => True
    | _, _ => False
    end.
Proof.
  intros Hp R1 R2 x a b.
  destruct (register_currencies_inv _ _ _ _ _ _ R1) as (bb1 & _ & _ & L1).
  destruct (register_currencies_inv _ _ _ _ _ _ R2) as (bb2 & _ & _ & L2).
  destruct (register_loop_shape nn (c_rate bb1) (c_rate bb2) t _ _ st1
              (conj eq_refl (conj eq_refl eq_refl)) L1) as (st2' & L2' & Sh).
  rewrite L2 in L2'. injection L2' as <-.
  pose proof (lookup_shape st1 st2 a Sh) as Ea. pose proof (lookup_shape st1 st2 b Sh) as Eb.
  destruct (lookup_unit st1 a) as [ua1| |] eqn:La1; destruct (lookup_unit st2 a) as [ua2| |] eqn:La2;
    try discriminate; try (unfold convert; rewrite La1, La2; exact I).
  destruct (lookup_unit st1 b) as [ub1| |] eqn:Lb1; destruct (lookup_unit st2 b) as [ub2| |] eqn:Lb2;
    try discriminate; try (unfold convert; rewrite La1, La2, Lb1, Lb2; exact I).
  cbn in Ea, Eb. injection Ea as Ea. injection Eb as Eb.
  destruct (conversion_rate nn pn ps t b1 st1 Hp R1 x a b ua1 ub1 La1 Lb1) as (_ & _ & r1 & C1 & E1).
  destruct (conversion_rate nn pn ps t b2 st2 Hp R2 x a b ua2 ub2 La2 Lb2) as (_ & _ & r2 & C2 & E2).
  rewrite C1, C2, E1, E2, Ea, Eb. reflexivity.
Qed.

(* ------------------------------------------------------------------ the dictionaries stay functions *)
Lemma mem_In s l : mem s l = true <-> In s l.
Proof.
  unfold mem. rewrite existsb_exists. split.
  - intros (x & I & E). apply String.eqb_eq in E. subst. exact I.
  - intros I. exists s. split; [exact I|apply String.eqb_refl].
Qed.
Lemma mem_false_notin s l : mem s l = false -> ~ In s l.
Proof. intros H I. apply mem_In in I. congruence. Qed.

Lemma nodupb_NoDup l : nodupb l = true -> NoDup l.
Proof.
  induction l as [|x l IH]; cbn; [constructor|].
  intros H. apply andb_prop in H as [H1 H2]. constructor; [|exact (IH H2)].
  apply mem_false_notin. destruct (mem x l); [discriminate|reflexivity].
Qed.

Definition keys_ok (st : regstate) : Prop :=
  NoDup (rs_names st) /\ NoDup (rs_syms st) /\
  Forall (fun u => In (cu_name u) (rs_names st) /\ In (cu_plural u) (rs_names st) /\ In (cu_sym u) (rs_syms st))
         (rs_cash st).

Lemma register_unit_keys st sym name m row st' :
  keys_ok st -> register_unit st sym name m row = POk st' -> keys_ok st'.
Proof.
  intros (Nn & Ns & Fc). unfold register_unit.
  destruct (mem name (rs_names st)) eqn:M1; [discriminate|].
  destruct (mem sym (rs_syms st)) eqn:M2; [discriminate|].
  destruct (mem (name ++ "s") (name :: rs_names st)) eqn:M3; [discriminate|].
  intros [= <-]. unfold keys_ok. cbn [rs_names rs_syms rs_cash].
  apply mem_false_notin in M1, M2, M3.
  split; [|split].
  - constructor; [exact M3|]. constructor; assumption.
  - constructor; assumption.
  - apply Forall_app. split.
    + eapply Forall_impl; [|exact Fc]. cbn. intros u (A & B & C).
      split; [right; right; exact A|]. split; [right; right; exact B|right; exact C].
    + constructor; [|constructor]. cbn. auto.
Qed.

Lemma register_currency_keys nn rb st c st' :
  keys_ok st -> register_currency nn rb st c = POk st' -> keys_ok st'.
Proof.
  intros K. unfold register_currency.
  destruct (Qeq_bool (c_rate c) 0); [discriminate|].
  destruct (mem (nn (c_name c)) (rs_names st) && mem (c_sym c) (rs_syms st)); [intros [= <-]; exact K|].
  set (sym := if mem (c_sym c) (rs_syms st) then nn (c_name c) else c_sym c).
  set (name := match assoc sym special_names with
               | Some n => n
               | None => if mem (nn (c_name c)) (rs_names st) then c_sym c else nn (c_name c)
               end).
  destruct (taken st sym name); [intros [= <-]; exact K|].
  destruct (register_unit st sym name (rb / c_rate c) c) as [st1|] eqn:R1; [|discriminate].
  cbn [pbind]. pose proof (register_unit_keys _ _ _ _ _ _ K R1) as K1.
  destruct (assoc sym special_currency_symbols) as [ss|]; [|intros [= <-]; exact K1].
  destruct (taken st1 ss ss); [intros [= <-]; exact K1|].
  intros R2. exact (register_unit_keys _ _ _ _ _ _ K1 R2).
Qed.

Lemma register_loop_keys nn rb : forall l st st',
  keys_ok st -> register_loop nn rb st l = POk st' -> keys_ok st'.
Proof.
  induction l as [|c l IH]; intros st st' K; cbn [register_loop].
  - intros [= <-]. exact K.
  - destruct (register_currency nn rb st c) as [m|] eqn:R; [|discriminate]. cbn [pbind].
    apply IH. exact (register_currency_keys _ _ _ _ _ K R).
Qed.

(* NAME_TO_UNIT and SYMBOL_TO_UNIT never get a key twice: the list model of the two dicts is sound *)
Theorem registry_keys_unique nn pn ps t base st :
  NoDup pn -> NoDup ps -> register_currencies nn pn ps t base = POk st -> keys_ok st.
Proof.
  intros Nn Ns R. destruct (register_currencies_inv _ _ _ _ _ _ R) as (b & _ & _ & L).
  refine (register_loop_keys _ _ _ _ _ _ L). unfold keys_ok. cbn. auto.
Qed.

(* ------------------------------------------------------------------ export / parse *)
Lemma append_assoc (a b c : string) : ((a ++ b) ++ c = a ++ (b ++ c))%string.
Proof. induction a as [|x a IH]; cbn; [reflexivity|]. rewrite IH. reflexivity. Qed.

Lemma contains_app ch a b : contains ch (a ++ b) = contains ch a || contains ch b.
Proof. induction a as [|x a IH]; cbn; [reflexivity|]. rewrite IH. apply orb_assoc. Qed.

Lemma split_on_nosep sep s : contains sep s = false -> split_on sep s = [s].
Proof.
  induction s as [|c s IH]; cbn; [reflexivity|].
  intros H. apply orb_false_elim in H as [H1 H2]. rewrite H1, (IH H2). reflexivity.
Qed.

Lemma split_on_app sep a b :
  contains sep a = false -> split_on sep (a ++ String sep b) = a :: split_on sep b.
Proof.
  induction a as [|c a IH]; cbn.
  - intros _. rewrite Ascii.eqb_refl. reflexivity.
  - intros H. apply orb_false_elim in H as [H1 H2]. rewrite H1, (IH H2). reflexivity.
Qed.

Lemma lstrip_head : forall s c r, lstrip s = String c r -> is_space c = false.
Proof.
  induction s as [|a s IH]; cbn; [discriminate|].
  intros c r. destruct (is_space a) eqn:E; [apply IH|].
  intros [= <- <-]. exact E.
Qed.

Lemma lstrip_contains ch : forall s, is_space ch = false -> contains ch s = true -> contains ch (lstrip s) = true.
Proof.
  intros s Hs. induction s as [|a s IH]; cbn; [discriminate|].
  destruct (is_space a) eqn:E.
  - destruct (Ascii.eqb a ch) eqn:Ea.
    + apply Ascii.eqb_eq in Ea. subst. congruence.
    + cbn. exact IH.
  - cbn. auto.
Qed.

Lemma nonspace_not_blank ch s : is_space ch = false -> contains ch s = true -> is_blank s = false.
Proof.
  intros Hs Hc. unfold is_blank, strip.
  pose proof (lstrip_contains ch s Hs Hc) as H.
  destruct (lstrip s) as [|c r] eqn:L; [discriminate|].
  pose proof (lstrip_head _ _ _ L) as Hc0. cbn [rstrip].
  destruct (rstrip r); [rewrite Hc0|]; reflexivity.
Qed.

Lemma unl_nocr : forall s, contains ch_cr s = false -> universal_newlines s = s.
Proof.
  induction s as [|c s IH]; cbn; [reflexivity|].
  intros H. apply orb_false_elim in H as [H1 H2]. rewrite H1, (IH H2). reflexivity.
Qed.

Definition clean (s : string) : Prop :=
  contains ch_comma s = false /\ contains ch_nl s = false /\ contains ch_cr s = false.
Definition body (repr : Q -> string) (c : cur) : string :=
  c_sym c ++ String ch_comma (c_name c ++ String ch_comma (repr (c_rate c))).

Lemma export_line_body repr c rest :
  (export_line repr c ++ rest = body repr c ++ String ch_nl rest)%string.
Proof.
  unfold export_line, body.
  repeat (rewrite append_assoc; cbn [append]). reflexivity.
Qed.

Section ExportImport.
  Variables (repr : Q -> string) (pf : pyfloat_t).
  Hypothesis float_repr : forall q, pf (repr q) = Some q.
  Hypothesis repr_clean : forall q, clean (repr q).

  Definition row_ok (c : cur) : Prop := clean (c_sym c) /\ clean (c_name c) /\ 0 < c_rate c.

  Lemma body_no (ch : ascii) c :
    Ascii.eqb ch_comma ch = false ->
    contains ch (c_sym c) = false -> contains ch (c_name c) = false -> contains ch (repr (c_rate c)) = false ->
    contains ch (body repr c) = false.
  Proof.
    intros Hc H1 H2 H3. unfold body. rewrite contains_app, H1. cbn [contains orb].
    rewrite Hc, contains_app, H2. cbn [contains orb]. rewrite Hc, H3. reflexivity.
  Qed.

  Lemma body_fields c : row_ok c ->
    split_on ch_comma (body repr c) = [c_sym c; c_name c; repr (c_rate c)].
  Proof.
    intros ((S1 & _) & (N1 & _) & _). unfold body.
    rewrite (split_on_app _ _ _ S1), (split_on_app _ _ _ N1).
    rewrite split_on_nosep; [reflexivity|]. apply repr_clean.
  Qed.

  Lemma body_not_blank c : is_blank (body repr c) = false.
  Proof.
    apply (nonspace_not_blank ch_comma); [reflexivity|].
    unfold body. rewrite contains_app. cbn [contains]. rewrite Ascii.eqb_refl. cbn. apply orb_true_r.
  Qed.

  Lemma export_lines : forall t, Forall row_ok t ->
    split_on ch_nl (export_text repr t) = (map (body repr) t ++ [EmptyString])%list.
  Proof.
    induction t as [|c t IH]; intros F; cbn [export_text fold_right map app]; [reflexivity|].
    inversion F as [|? ? Hc Ft]; subst.
    rewrite export_line_body. fold (export_text repr t).
    rewrite split_on_app, (IH Ft); [reflexivity|].
    destruct Hc as ((_ & S2 & _) & (_ & N2 & _) & _). destruct (repr_clean (c_rate c)) as (_ & R2 & _).
    apply body_no; auto.
  Qed.

  Lemma parse_bodies : forall t, Forall row_ok t ->
    parse_rows pf (map (body repr) t ++ [EmptyString])%list = PTable t.
  Proof.
    induction t as [|c t IH]; intros F; cbn [map app parse_rows].
    - reflexivity.
    - inversion F as [|? ? Hc Ft]; subst.
      rewrite body_not_blank, (body_fields c Hc), float_repr.
      destruct Hc as (_ & _ & P). rewrite (pos_Qle_bool _ P), (IH Ft).
      destruct c as [[s n] r]. reflexivity.
  Qed.

  (* a table written by the export is parsed back to exactly that table *)
  Theorem export_parse t : Forall row_ok t ->
    parse_currency_data pf (export_text repr t) = PTable t.
  Proof. intros F. unfold parse_currency_data. rewrite (export_lines t F). exact (parse_bodies t F). Qed.

  (* and the text survives text-mode reading unchanged *)
  Theorem export_text_mode t : Forall row_ok t ->
    universal_newlines (export_text repr t) = export_text repr t.
  Proof.
    intros F. apply unl_nocr. induction t as [|c t IH]; cbn [export_text fold_right]; [reflexivity|].
    inversion F as [|? ? Hc Ft]; subst. rewrite export_line_body. fold (export_text repr t).
    rewrite contains_app. cbn [contains]. rewrite (IH Ft).
    destruct Hc as ((_ & _ & S3) & (_ & _ & N3) & _). destruct (repr_clean (c_rate c)) as (_ & _ & R3).
    rewrite (body_no ch_cr c); auto.
  Qed.
End ExportImport.
