(* InstantProofs.v — laws of Ka's instant arithmetic (Model/Instant.v), for all inputs. *)
From Coq Require Import ZArith QArith Lia Lqa Bool List String Ascii.
From Ka Require Import Model.Instant Proofs.CalendarProofs Proofs.NumProofs.
Local Open Scope Z_scope.
Ltac Zify.zify_post_hook ::= Z.to_euclidean_division_equations.

Ltac zb2 := zb; repeat match goal with
  | H : (_ >? _) = true |- _ => rewrite Z.gtb_ltb in H
  | H : (_ >? _) = false |- _ => rewrite Z.gtb_ltb in H
  | H : (_ >=? _) = true |- _ => rewrite Z.geb_leb in H
  | H : (_ >=? _) = false |- _ => rewrite Z.geb_leb in H
  end; zb.

(* ---- range ------------------------------------------------------------------------------------ *)
Lemma in_range_iff i : in_range i = true <-> 0 <= i < MAX_US.
Proof. unfold in_range. rewrite andb_true_iff, Z.leb_le, Z.ltb_lt. tauto. Qed.

Lemma in_range_day i : in_range i = true -> 0 <= day_of i < MAX_DAYS.
Proof. rewrite in_range_iff. unfold day_of, MAX_US, MAX_DAYS, US_PER_DAY. lia. Qed.

Lemma time_us_bounds h mi s us : valid_time h mi s us = true ->
  0 <= time_us h mi s us < US_PER_DAY.
Proof.
  unfold valid_time. intro H. repeat (apply andb_true_iff in H; destruct H as [H ?]). zb.
  unfold time_us, US_PER_SEC, US_PER_DAY. lia.
Qed.

(* ---- an instant built from fields has those fields -------------------------------------------- *)
Theorem mk_instant_fields y m d h mi s us :
  valid_date y m d = true -> valid_time h mi s us = true ->
  let i := mk_instant y m d h mi s us in
  date_of i = (y, m, d) /\ get_hour i = h /\ get_minute i = mi /\ get_second i = s
  /\ get_micro i = us /\ (valid_year y = true -> in_range i = true).
Proof.
  intros Hd Ht i.
  pose proof (time_us_bounds _ _ _ _ Ht) as Hb.
  assert (Hday : day_of i = days_from_civil y m d).
  { subst i. unfold day_of, mk_instant. generalize (days_from_civil y m d). intro k.
    unfold US_PER_DAY in *. lia. }
  assert (Htod : tod_of i = time_us h mi s us).
  { subst i. unfold tod_of, mk_instant. generalize (days_from_civil y m d). intro k.
    unfold US_PER_DAY in *. lia. }
  unfold valid_time in Ht. repeat (apply andb_true_iff in Ht; destruct Ht as [Ht ?]). zb.
  split; [|split; [|split; [|split; [|split]]]].
  - unfold date_of. rewrite Hday. apply civil_from_days_from_civil. exact Hd.
  - unfold get_hour. rewrite Htod. unfold time_us, US_PER_SEC. lia.
  - unfold get_minute. rewrite Htod. unfold time_us, US_PER_SEC. lia.
  - unfold get_second. rewrite Htod. unfold time_us, US_PER_SEC. lia.
  - unfold get_micro. rewrite Htod. unfold time_us, US_PER_SEC. lia.
  - intro Hy. apply (year_range_iff y m d Hd) in Hy. apply in_range_iff.
    subst i. unfold mk_instant, MAX_US. unfold US_PER_DAY in *. lia.
Qed.

Corollary datetime_new_fields y m d h mi s us i : datetime_new y m d h mi s us = Ok i ->
  in_range i = true /\ get_year i = y /\ get_month i = m /\ get_day i = d
  /\ get_hour i = h /\ get_minute i = mi /\ get_second i = s /\ get_micro i = us.
Proof.
  unfold datetime_new. destruct (valid_year y && valid_date y m d && valid_time h mi s us) eqn:E;
    [|discriminate].
  intro H. injection H as <-.
  apply andb_true_iff in E as [E Ht]. apply andb_true_iff in E as [Hy Hd].
  destruct (mk_instant_fields y m d h mi s us Hd Ht) as (Hdate & Hh & Hmi & Hs & Hus & Hr).
  unfold get_year, get_month, get_day. rewrite Hdate. cbn [fst snd]. auto 10.
Qed.

(* every valid instant is the instant of its own fields *)
Theorem instant_decompose i : in_range i = true ->
  exists y m d, date_of i = (y, m, d) /\ valid_year y = true /\ valid_date y m d = true
    /\ days_from_civil y m d = day_of i
    /\ valid_time (get_hour i) (get_minute i) (get_second i) (get_micro i) = true
    /\ i = mk_instant y m d (get_hour i) (get_minute i) (get_second i) (get_micro i).
Proof.
  intro Hr. pose proof (civil_from_days_in_range (day_of i) (in_range_day i Hr)) as H.
  unfold date_of. destruct (civil_from_days (day_of i)) as [[y m] d].
  destruct H as (Hy & Hd & He). exists y, m, d. repeat split; try assumption.
  - unfold valid_time, get_hour, get_minute, get_second, get_micro, tod_of, US_PER_DAY.
    repeat (apply andb_true_iff; split); try apply Z.leb_le; try apply Z.ltb_lt; lia.
  - unfold mk_instant. rewrite He.
    unfold time_us, get_hour, get_minute, get_second, get_micro, tod_of, day_of, US_PER_DAY, US_PER_SEC.
    lia.
Qed.

(* ---- floor and ceil --------------------------------------------------------------------------------- *)
Lemma floor_instant_eq i : in_range i = true -> floor_instant i = Ok (day_of i * US_PER_DAY).
Proof.
  intro Hr. destruct (instant_decompose i Hr) as (y & m & d & Hdate & Hy & Hd & He & _ & _).
  unfold floor_instant. rewrite Hdate. unfold datetime_new. rewrite Hy, Hd. cbn [andb].
  change (valid_time 0 0 0 0) with true. cbv iota.
  unfold mk_instant. rewrite He. f_equal. unfold time_us. lia.
Qed.

Lemma td_one_day : td_of_days 1 = Ok US_PER_DAY.
Proof. reflexivity. Qed.

Theorem floor_ceil_laws i : in_range i = true ->
  exists f, floor_instant i = Ok f
    /\ f <= i < f + US_PER_DAY
    /\ f mod US_PER_DAY = 0 /\ (f + US_PER_DAY) mod US_PER_DAY = 0
    /\ in_range f = true /\ date_of f = date_of i
    /\ (ceil_instant i = Ok (f + US_PER_DAY) /\ in_range (f + US_PER_DAY) = true
        \/ ceil_instant i = Raise OverflowError /\ date_of i = (9999, 12, 31)).
Proof.
  intro Hr. exists (day_of i * US_PER_DAY). rewrite (floor_instant_eq i Hr).
  pose proof (in_range_day i Hr) as Hday. apply in_range_iff in Hr.
  assert (Hdayf : day_of (day_of i * US_PER_DAY) = day_of i).
  { unfold day_of, US_PER_DAY. lia. }
  split; [reflexivity|]. split; [unfold day_of, US_PER_DAY; lia|].
  split; [unfold day_of, US_PER_DAY; lia|]. split; [unfold day_of, US_PER_DAY; lia|].
  split; [apply in_range_iff; unfold day_of, MAX_US, MAX_DAYS, US_PER_DAY in *; lia|].
  split; [unfold date_of; rewrite Hdayf; reflexivity|].
  unfold ceil_instant. rewrite (floor_instant_eq i (proj2 (in_range_iff i) Hr)).
  cbn [bind]. rewrite td_one_day. cbn [bind]. unfold add_td.
  destruct (in_range (day_of i * US_PER_DAY + US_PER_DAY)) eqn:E.
  - left. split; reflexivity.
  - right. split; [reflexivity|].
    assert (Hlast : day_of i = MAX_DAYS - 1).
    { unfold in_range in E. apply andb_false_iff in E as [E|E]; zb;
      unfold MAX_US, MAX_DAYS, US_PER_DAY in *; lia. }
    unfold date_of. rewrite Hlast. vm_compute. reflexivity.
Qed.

(* the overflow of ceil happens exactly on the last representable date *)
Lemma ceil_overflow_iff i : in_range i = true ->
  (ceil_instant i = Raise OverflowError <-> date_of i = (9999, 12, 31)).
Proof.
  intro Hr. split.
  - intro Hc. destruct (floor_ceil_laws i Hr) as (f & _ & _ & _ & _ & _ & _ & [[Hok _]|[_ Hd]]).
    + rewrite Hok in Hc. discriminate.
    + exact Hd.
  - intro Hd. destruct (floor_ceil_laws i Hr) as (f & Hf & _ & _ & _ & _ & _ & [[Hok Hin]|[He _]]);
      [|exact He].
    exfalso. rewrite (floor_instant_eq i Hr) in Hf. injection Hf as <-.
    pose proof (days_from_civil_from_days (day_of i)) as H. unfold date_of in Hd. rewrite Hd in H.
    destruct H as [_ H]. apply in_range_iff in Hin.
    change (days_from_civil 9999 12 31) with 3652058 in H.
    unfold MAX_US, MAX_DAYS, US_PER_DAY in Hin. lia.
Qed.

(* ---- timedeltas ----------------------------------------------------------------------------------------- *)
Lemma td_check_ok us t : td_check us = Ok t -> t = us.
Proof. unfold td_check. destruct (_ && _); [intro H; injection H as <-; reflexivity|discriminate]. Qed.

Lemma Qround_half_even_int z : Qround_half_even (inject_Z z) = z.
Proof.
  unfold Qround_half_even. rewrite Qfloor_Z.
  assert (E : inject_Z z - inject_Z z == 0) by ring.
  rewrite (Qcompare_comp _ _ E (1#2) (1#2) (Qeq_refl _)). reflexivity.
Qed.

(* the timedelta of a number of seconds is that number rounded half-even to the microsecond,
   for the three kinds of magnitude *)
Lemma td_of_seconds_round n t : td_of_seconds n = Ok t -> t = round_us (toQ n).
Proof.
  destruct n as [z|q|q]; cbn [td_of_seconds toQ].
  - intro H. apply td_check_ok in H. subst t. unfold round_us.
    rewrite <- (Qround_half_even_int (z * US_PER_SEC)). apply Qround_half_even_comp.
    rewrite inject_Z_mult. reflexivity.
  - destruct (td_check (Qnum q * US_PER_SEC)) as [t0|e] eqn:E; cbn [bind]; [|discriminate].
    intro H. injection H as <-. apply td_check_ok in E. subst t0. unfold round_us.
    apply Qround_half_even_comp. unfold Qeq, Qmult, inject_Z. cbn [Qnum Qden].
    rewrite Pos.mul_1_r. reflexivity.
  - intro H. apply td_check_ok in H. exact H.
Qed.

(* rounding to the microsecond moves a span by at most half a microsecond, and not at all when
   the span is a whole number of microseconds *)
Lemma Qround_half_even_near x :
  (inject_Z (Qround_half_even x) - x <= 1 # 2)%Q /\ (x - inject_Z (Qround_half_even x) <= 1 # 2)%Q.
Proof.
  unfold Qround_half_even. destruct (Qfloor_bounds x) as [H1 H2].
  set (f := Qfloor x) in *.
  destruct (Qcompare (x - inject_Z f) (1 # 2)) eqn:C.
  - apply Qeq_alt in C. destruct (Z.even f).
    + split; lra.
    + rewrite inject_Z_plus. change (inject_Z 1) with 1%Q. split; lra.
  - apply Qlt_alt in C. split; lra.
  - apply Qgt_alt in C. rewrite inject_Z_plus. change (inject_Z 1) with 1%Q. split; lra.
Qed.

Lemma round_us_near q :
  (inject_Z (round_us q) - q * inject_Z US_PER_SEC <= 1 # 2)%Q
  /\ (q * inject_Z US_PER_SEC - inject_Z (round_us q) <= 1 # 2)%Q.
Proof. unfold round_us. apply Qround_half_even_near. Qed.

Lemma round_us_exact q z : (q == z # 1000000)%Q -> round_us q = z.
Proof.
  intro H. unfold round_us. rewrite <- (Qround_half_even_int z). apply Qround_half_even_comp.
  rewrite H. unfold Qeq, Qmult, inject_Z, US_PER_SEC. cbn [Qnum Qden]. lia.
Qed.

(* ---- dimension check --------------------------------------------------------------------------------------- *)
Lemma dims_eqb_refl a : dims_eqb a a = true.
Proof.
  induction a as [|x a IH]; [reflexivity|]. cbn [dims_eqb]. rewrite IH, andb_true_r.
  apply Qeq_bool_iff. reflexivity.
Qed.

Lemma dims_eqb_spec a b : dims_eqb a b = true <-> Forall2 Qeq a b.
Proof.
  revert b. induction a as [|x a IH]; intros [|y b]; cbn [dims_eqb]; split; intro H;
    try discriminate; try constructor; try solve [inversion H].
  - apply andb_true_iff in H as [H _]. apply Qeq_bool_iff. exact H.
  - apply andb_true_iff in H as [_ H]. apply IH. exact H.
  - inversion H as [|? ? ? ? Hxy Hab]; subst. apply andb_true_iff. split.
    + apply Qeq_bool_iff. exact Hxy.
    + apply IH. exact Hab.
Qed.

Lemma validate_time_seconds mag : validate_time {| q_mag := mag; q_dims := seconds_dims |} = Ok tt.
Proof. unfold validate_time. cbn [q_dims]. rewrite dims_eqb_refl. reflexivity. Qed.

Theorem non_time_rejected i q : dims_eqb seconds_dims (q_dims q) = false ->
  instant_plus_quantity i q = Raise KaRuntimeError
  /\ instant_minus_quantity i q = Raise KaRuntimeError.
Proof.
  intro H. unfold instant_plus_quantity, instant_minus_quantity, validate_time. rewrite H.
  split; reflexivity.
Qed.

Theorem time_accepted_iff q : validate_time q = Ok tt <-> Forall2 Qeq seconds_dims (q_dims q).
Proof.
  unfold validate_time. rewrite <- dims_eqb_spec.
  destruct (dims_eqb seconds_dims (q_dims q)); split; intro H; try reflexivity; discriminate.
Qed.

(* ---- add / subtract ------------------------------------------------------------------------------------------ *)
Lemma add_td_ok i t r : add_td i t = Ok r -> r = i + t /\ in_range r = true.
Proof.
  unfold add_td. destruct (in_range (i + t)) eqn:E; [|discriminate].
  intro H. injection H as <-. split; [reflexivity|exact E].
Qed.

Lemma plus_quantity_inv i q r : instant_plus_quantity i q = Ok r ->
  validate_time q = Ok tt /\ td_of_seconds (q_mag q) = Ok (round_us (toQ (q_mag q)))
  /\ r = i + round_us (toQ (q_mag q)) /\ in_range r = true.
Proof.
  unfold instant_plus_quantity.
  destruct (validate_time q) as [[]|e] eqn:V; cbn [bind]; [|discriminate].
  destruct (td_of_seconds (q_mag q)) as [t|e] eqn:T; cbn [bind]; [|discriminate].
  intro H. apply add_td_ok in H as [-> Hr].
  pose proof (td_of_seconds_round _ _ T) as ->. auto.
Qed.

Lemma minus_quantity_inv i q r : instant_minus_quantity i q = Ok r ->
  validate_time q = Ok tt /\ td_of_seconds (q_mag q) = Ok (round_us (toQ (q_mag q)))
  /\ r = i - round_us (toQ (q_mag q)) /\ in_range r = true.
Proof.
  unfold instant_minus_quantity.
  destruct (validate_time q) as [[]|e] eqn:V; cbn [bind]; [|discriminate].
  destruct (td_of_seconds (q_mag q)) as [t|e] eqn:T; cbn [bind]; [|discriminate].
  intro H. apply add_td_ok in H as [-> Hr].
  pose proof (td_of_seconds_round _ _ T) as ->. split; [reflexivity|]. split; [reflexivity|].
  split; [lia|exact Hr].
Qed.

Theorem add_sub_roundtrip i q r : instant_plus_quantity i q = Ok r ->
  instant_minus_instant r i = round_us (toQ (q_mag q))
  /\ (in_range i = true -> instant_minus_quantity r q = Ok i).
Proof.
  intro H. destruct (plus_quantity_inv i q r H) as (V & T & -> & Hr).
  split; [unfold instant_minus_instant; lia|].
  intro Hi. unfold instant_minus_quantity. rewrite V, T. cbn [bind]. unfold add_td.
  replace (i + round_us (toQ (q_mag q)) + - round_us (toQ (q_mag q))) with i by lia.
  rewrite Hi. reflexivity.
Qed.

Theorem sub_add_roundtrip i q r : in_range i = true -> instant_minus_quantity i q = Ok r ->
  instant_plus_quantity r q = Ok i
  /\ instant_minus_instant i r = round_us (toQ (q_mag q)).
Proof.
  intros Hi H. destruct (minus_quantity_inv i q r H) as (V & T & -> & Hr).
  split; [|unfold instant_minus_instant; lia].
  unfold instant_plus_quantity. rewrite V, T. cbn [bind]. unfold add_td.
  replace (i - round_us (toQ (q_mag q)) + round_us (toQ (q_mag q))) with i by lia.
  rewrite Hi. reflexivity.
Qed.

(* whole-day counts are spans of n * 86400 seconds *)
Theorem plus_int_is_days i n :
  instant_plus_int i n = instant_plus_quantity i {| q_mag := NInt (n * 86400); q_dims := seconds_dims |}
  /\ instant_minus_int i n = instant_minus_quantity i {| q_mag := NInt (n * 86400); q_dims := seconds_dims |}.
Proof.
  unfold instant_plus_int, instant_minus_int, instant_plus_quantity, instant_minus_quantity.
  rewrite validate_time_seconds. cbn [bind q_mag td_of_seconds]. unfold td_of_days.
  replace (n * 86400 * US_PER_SEC) with (n * US_PER_DAY) by (unfold US_PER_SEC, US_PER_DAY; lia).
  split; reflexivity.
Qed.

Theorem plus_int_value i n r : instant_plus_int i n = Ok r ->
  r = i + n * US_PER_DAY /\ in_range r = true
  /\ date_of r = civil_from_days (day_of i + n) /\ tod_of r = tod_of i.
Proof.
  unfold instant_plus_int, td_of_days.
  destruct (td_check (n * US_PER_DAY)) as [t|e] eqn:T; cbn [bind]; [|discriminate].
  apply td_check_ok in T. subst t. intro H. apply add_td_ok in H as [-> Hr].
  split; [reflexivity|]. split; [exact Hr|]. unfold date_of, day_of, tod_of, US_PER_DAY.
  split; [f_equal|]; lia.
Qed.

(* results never leave years 1..9999: the only other outcomes are the two diagnosed errors *)
Theorem results_closed i q :
  (forall r, instant_plus_quantity i q = Ok r -> in_range r = true)
  /\ (forall r, instant_minus_quantity i q = Ok r -> in_range r = true)
  /\ (forall e, instant_plus_quantity i q = Raise e -> e = OverflowError \/ e = KaRuntimeError)
  /\ (forall e, instant_minus_quantity i q = Raise e -> e = OverflowError \/ e = KaRuntimeError).
Proof.
  assert (Htd : forall n e, td_of_seconds n = Raise e -> e = OverflowError).
  { intros [z|x|x] e; cbn [td_of_seconds]; unfold td_check;
      repeat match goal with |- context [if ?b then _ else _] => destruct b end; cbn [bind];
      intro H; try discriminate; injection H as <-; reflexivity. }
  split; [intros r H; apply (plus_quantity_inv i q r H)|].
  split; [intros r H; apply (minus_quantity_inv i q r H)|].
  split; intros e; unfold instant_plus_quantity, instant_minus_quantity, validate_time, add_td;
    destruct (dims_eqb seconds_dims (q_dims q)); cbn [bind];
    try (intro H; injection H as <-; auto; fail);
    destruct (td_of_seconds (q_mag q)) as [t|e'] eqn:T; cbn [bind];
    try (intro H; injection H as <-; left; apply (Htd _ _ T); fail);
    match goal with |- context [if ?b then _ else _] => destruct b end; intro H;
    try discriminate; injection H as <-; auto.
Qed.

(* ---- difference and comparisons ----------------------------------------------------------------------------- *)
Theorem diff_antisym i j :
  instant_minus_instant i j = - instant_minus_instant j i
  /\ (total_seconds (instant_minus_instant i j) == - total_seconds (instant_minus_instant j i))%Q.
Proof.
  unfold instant_minus_instant, total_seconds. split; [lia|].
  unfold Qeq, Qopp. cbn [Qnum Qden]. lia.
Qed.

Theorem cmp_sign i j :
  let s := instant_minus_instant i j in
  (instant_cmp CLt i j = 1 <-> s < 0) /\ (instant_cmp CLe i j = 1 <-> s <= 0)
  /\ (instant_cmp CGt i j = 1 <-> s > 0) /\ (instant_cmp CGe i j = 1 <-> s >= 0)
  /\ (instant_cmp CEq i j = 1 <-> s = 0) /\ (instant_cmp CNe i j = 1 <-> s <> 0)
  /\ (forall op, instant_cmp op i j = 0 \/ instant_cmp op i j = 1).
Proof.
  unfold instant_minus_instant, instant_cmp, intify. cbv zeta.
  rewrite Z.gtb_ltb, Z.geb_leb.
  repeat split; try (destruct op; rewrite ?Z.gtb_ltb, ?Z.geb_leb);
    repeat match goal with |- context [?a <? ?b] => destruct (Z.ltb_spec a b)
                      | |- context [?a <=? ?b] => destruct (Z.leb_spec a b)
                      | |- context [?a =? ?b] => destruct (Z.eqb_spec a b) end;
    cbn [negb]; intros; try lia; auto.
Qed.

Local Open Scope string_scope.
Local Open Scope Z_scope.

(* ---- ISO text ------------------------------------------------------------------------------ *)
Lemma append_assoc (a b c : string) : (a ++ b) ++ c = a ++ (b ++ c).
Proof. induction a as [|x a IH]; cbn [append]; [reflexivity|rewrite IH; reflexivity]. Qed.
Lemma append_nil_r (a : string) : a ++ "" = a.
Proof. induction a as [|x a IH]; cbn [append]; [reflexivity|rewrite IH; reflexivity]. Qed.

Lemma digit_val_char d : 0 <= d < 10 -> digit_val (digit_char d) = Some d.
Proof.
  intro H.
  assert (d = 0 \/ d = 1 \/ d = 2 \/ d = 3 \/ d = 4 \/ d = 5 \/ d = 6 \/ d = 7 \/ d = 8 \/ d = 9)
    as [->|[->|[->|[->|[->|[->|[->|[->|[->| ->]]]]]]]]] by lia; reflexivity.
Qed.
Lemma is_digit_char d : 0 <= d < 10 -> is_digit (digit_char d) = true.
Proof. intro H. unfold is_digit. rewrite (digit_val_char d H). reflexivity. Qed.

Lemma pad_snoc k z rest :
  pad (S k) z ++ rest = pad k (z / 10) ++ String (digit_char (z mod 10)) rest.
Proof. cbn [pad]. rewrite append_assoc. reflexivity. Qed.

(* reading back k padded digits *)
Lemma take_digits_pad k : forall j acc z rest, 0 <= z < 10 ^ Z.of_nat k ->
  take_digits (k + j) acc (pad k z ++ rest) = take_digits j (acc * 10 ^ Z.of_nat k + z) rest.
Proof.
  induction k as [|k IH]; intros j acc z rest Hz.
  - cbn [pad append Nat.add]. f_equal. change (10 ^ Z.of_nat 0) with 1 in *. lia.
  - rewrite pad_snoc. replace (S k + j)%nat with (k + S j)%nat by lia.
    assert (Hp : 10 ^ Z.of_nat (S k) = 10 * 10 ^ Z.of_nat k).
    { rewrite Nat2Z.inj_succ, Z.pow_succ_r by lia. reflexivity. }
    rewrite IH by lia. cbn [take_digits]. rewrite digit_val_char by lia.
    f_equal. rewrite Hp. lia.
Qed.

Lemma take_fraction_pad k : forall j acc z rest, 0 <= z < 10 ^ Z.of_nat k ->
  take_fraction (k + j) acc (pad k z ++ rest) = take_fraction j (acc * 10 ^ Z.of_nat k + z) rest.
Proof.
  induction k as [|k IH]; intros j acc z rest Hz.
  - cbn [pad append Nat.add]. f_equal. change (10 ^ Z.of_nat 0) with 1 in *. lia.
  - rewrite pad_snoc. replace (S k + j)%nat with (k + S j)%nat by lia.
    assert (Hp : 10 ^ Z.of_nat (S k) = 10 * 10 ^ Z.of_nat k).
    { rewrite Nat2Z.inj_succ, Z.pow_succ_r by lia. reflexivity. }
    rewrite IH by lia. cbn [take_fraction]. rewrite digit_val_char by lia.
    f_equal. rewrite Hp. lia.
Qed.

Lemma take2 z rest : 0 <= z < 100 -> take_digits 2 0 (pad 2 z ++ rest) = Some (z, rest).
Proof. intro H. apply (take_digits_pad 2 0 0 z rest). exact H. Qed.
Lemma take4 z rest : 0 <= z < 10000 -> take_digits 4 0 (pad 4 z ++ rest) = Some (z, rest).
Proof. intro H. apply (take_digits_pad 4 0 0 z rest). exact H. Qed.
Lemma frac6 z : 0 <= z < 1000000 -> take_fraction 6 0 (pad 6 z) = Some z.
Proof.
  intro H. rewrite <- (append_nil_r (pad 6 z)).
  pose proof (take_fraction_pad 6 0 0 z "" H) as E. change (6 + 0)%nat with 6%nat in E.
  rewrite E. cbn [take_fraction]. f_equal. change (10 ^ Z.of_nat 0) with 1. lia.
Qed.

Lemma pad_S_nonempty k z : pad (S k) z <> "".
Proof. cbn [pad]. destruct (pad k (z / 10)); discriminate. Qed.

Lemma fromiso_date_time y m d h mi s us :
  0 <= y < 10000 -> 0 <= m < 100 -> 0 <= d < 100 -> 0 <= h < 100 -> 0 <= mi < 100 ->
  0 <= s < 100 -> 0 <= us < 1000000 ->
  fromisoformat (iso_text y m d h mi s us) = datetime_new y m d h mi s us.
Proof.
  intros Hy Hm Hd Hh Hmi Hs Hus. unfold fromisoformat, iso_text.
  rewrite take4 by exact Hy. cbn [obind append expect]; rewrite Ascii.eqb_refl; cbn [obind].
  rewrite take2 by exact Hm. cbn [obind append expect]; rewrite Ascii.eqb_refl; cbn [obind].
  rewrite take2 by exact Hd. cbn [obind append expect]; rewrite Ascii.eqb_refl; cbn [obind].
  unfold parse_time.
  rewrite take2 by exact Hh. cbn [obind append expect]; rewrite Ascii.eqb_refl; cbn [obind].
  rewrite take2 by exact Hmi. cbn [obind append expect]; rewrite Ascii.eqb_refl; cbn [obind].
  rewrite take2 by exact Hs. cbn [obind append expect].
  destruct (us =? 0) eqn:E.
  - zb. subst us. reflexivity.
  - cbn [append]. rewrite Ascii.eqb_refl.
    destruct (pad 6 us) eqn:P; [exfalso; exact (pad_S_nonempty 5 us P)|].
    rewrite <- P. rewrite frac6 by exact Hus. reflexivity.
Qed.

Lemma fromiso_date y m d :
  0 <= y < 10000 -> 0 <= m < 100 -> 0 <= d < 100 ->
  fromisoformat (pad 4 y ++ "-" ++ pad 2 m ++ "-" ++ pad 2 d) = datetime_new y m d 0 0 0 0.
Proof.
  intros Hy Hm Hd. unfold fromisoformat.
  rewrite take4 by exact Hy. cbn [obind append expect]; rewrite Ascii.eqb_refl; cbn [obind].
  rewrite take2 by exact Hm. cbn [obind append expect]; rewrite Ascii.eqb_refl; cbn [obind].
  rewrite <- (append_nil_r (pad 2 d)). rewrite take2 by exact Hd. reflexivity.
Qed.

(* the completion regexes do not fire on a full date or date-time text *)
Lemma just_year_long y m r : just_year (pad 4 y ++ String "-" (pad 2 m ++ r)) = false.
Proof. cbn [pad append just_year at_end]. rewrite !andb_false_r. reflexivity. Qed.
Lemma just_year_month_long y m d r :
  just_year_month (pad 4 y ++ String "-" (pad 2 m ++ String "-" (pad 2 d ++ r))) = false.
Proof. cbn [pad append just_year_month at_end]. rewrite !andb_false_r. reflexivity. Qed.

Lemma datetime_new_not_unmodelled y m d h mi s us :
  match datetime_new y m d h mi s us with Raise ValueError => Raise KaRuntimeError | r => r end
  = match datetime_new y m d h mi s us with Ok i => Ok i | Raise _ => Raise KaRuntimeError end.
Proof. unfold datetime_new. destruct (_ && _); reflexivity. Qed.

Theorem instant_from_iso_text y m d h mi s us :
  valid_year y = true -> valid_date y m d = true -> valid_time h mi s us = true ->
  instant_from_iso (iso_text y m d h mi s us) = Ok (mk_instant y m d h mi s us).
Proof.
  intros Hy Hd Ht. unfold instant_from_iso.
  assert (E1 : just_year (iso_text y m d h mi s us) = false) by apply just_year_long.
  rewrite E1.
  assert (E2 : just_year_month (iso_text y m d h mi s us) = false) by apply just_year_month_long.
  rewrite E2.
  destruct (valid_date_bounds y m d Hd) as (Bm & Bd & Bdim).
  pose proof Ht as Ht'. unfold valid_time in Ht'.
  repeat (apply andb_true_iff in Ht'; destruct Ht' as [Ht' ?]). zb.
  pose proof Hy as Hy'. unfold valid_year, MINYEAR, MAXYEAR in Hy'.
  apply andb_true_iff in Hy' as [? ?]. zb.
  rewrite fromiso_date_time by lia.
  unfold datetime_new. rewrite Hy, Hd, Ht. reflexivity.
Qed.

Theorem instant_from_iso_date y m d :
  valid_year y = true -> valid_date y m d = true ->
  instant_from_iso (pad 4 y ++ "-" ++ pad 2 m ++ "-" ++ pad 2 d) = Ok (mk_instant y m d 0 0 0 0).
Proof.
  intros Hy Hd. unfold instant_from_iso.
  assert (E1 : just_year (pad 4 y ++ "-" ++ pad 2 m ++ "-" ++ pad 2 d) = false) by apply just_year_long.
  rewrite E1.
  assert (E2 : just_year_month (pad 4 y ++ "-" ++ pad 2 m ++ "-" ++ pad 2 d) = false).
  { rewrite <- (append_nil_r (pad 2 d)). apply just_year_month_long. }
  rewrite E2.
  destruct (valid_date_bounds y m d Hd) as (Bm & Bd & Bdim).
  pose proof Hy as Hy'. unfold valid_year, MINYEAR, MAXYEAR in Hy'.
  apply andb_true_iff in Hy' as [? ?]. zb.
  rewrite fromiso_date by lia.
  unfold datetime_new. rewrite Hy, Hd. reflexivity.
Qed.

(* short literals: what the two regexes accept, and what is appended *)
Lemma just_year_shape s : just_year s = true ->
  exists a b c d r, s = String a (String b (String c (String d r)))
    /\ (r = "" \/ r = String newline "").
Proof.
  destruct s as [|a [|b [|c [|d r]]]]; try discriminate. cbn [just_year]. intro H.
  apply andb_true_iff in H as [_ H]. exists a, b, c, d, r. split; [reflexivity|].
  destruct r as [|e [|? ?]]; cbn [at_end] in H; try discriminate; [left; reflexivity|].
  right. apply Ascii.eqb_eq in H. subst e. reflexivity.
Qed.

Lemma just_year_month_shape s : just_year_month s = true ->
  exists a b c d f g r,
    s = String a (String b (String c (String d (String "-" (String f (String g r))))))
    /\ (r = "" \/ r = String newline "").
Proof.
  destruct s as [|a [|b [|c [|d [|e [|f [|g r]]]]]]]; try discriminate. cbn [just_year_month]. intro H.
  repeat (apply andb_true_iff in H; destruct H as [H ?]).
  match goal with E : (e =? "-")%char = true |- _ => apply Ascii.eqb_eq in E; subst e end.
  exists a, b, c, d, f, g, r. split; [reflexivity|].
  destruct r as [|e [|? ?]]; cbn [at_end] in *; try discriminate; [left; reflexivity|].
  right. match goal with E : (e =? newline)%char = true |- _ => apply Ascii.eqb_eq in E; subst e end.
  reflexivity.
Qed.

Theorem short_year_completion s : just_year s = true ->
  instant_from_iso s = instant_from_iso (s ++ "-01-01").
Proof.
  intro H. destruct (just_year_shape s H) as (a & b & c & d & r & -> & [-> | ->]);
    unfold instant_from_iso; rewrite H;
    repeat (progress (cbn [append just_year just_year_month at_end]; rewrite ?andb_false_r));
    reflexivity.
Qed.

Theorem short_year_month_completion s : just_year_month s = true ->
  instant_from_iso s = instant_from_iso (s ++ "-01").
Proof.
  intro H. destruct (just_year_month_shape s H) as (a & b & c & d & f & g & r & -> & [-> | ->]);
    unfold instant_from_iso;
    repeat (progress (cbn [append just_year just_year_month at_end]; rewrite ?andb_false_r));
    cbn [append just_year_month at_end] in H; rewrite ?H;
    repeat (progress (cbn [append just_year just_year_month at_end]; rewrite ?andb_false_r));
    reflexivity.
Qed.

Lemma just_year_pad y : 0 <= y < 10000 -> just_year (pad 4 y) = true.
Proof.
  intro H. cbn [pad append just_year at_end]. rewrite !is_digit_char by lia. reflexivity.
Qed.
Lemma just_year_month_pad y m : 0 <= y < 10000 -> 0 <= m < 100 ->
  just_year_month (pad 4 y ++ "-" ++ pad 2 m) = true.
Proof.
  intros Hy Hm. cbn [pad append just_year_month at_end]. rewrite !is_digit_char by lia.
  reflexivity.
Qed.

Theorem short_year_value y : valid_year y = true ->
  instant_from_iso (pad 4 y) = Ok (mk_instant y 1 1 0 0 0 0).
Proof.
  intro Hy. pose proof Hy as Hy'. unfold valid_year, MINYEAR, MAXYEAR in Hy'.
  apply andb_true_iff in Hy' as [? ?]. zb.
  rewrite short_year_completion by (apply just_year_pad; lia).
  change "-01-01" with ("-" ++ pad 2 1 ++ "-" ++ pad 2 1).
  apply instant_from_iso_date; [exact Hy|reflexivity].
Qed.

Theorem short_year_month_value y m : valid_year y = true -> 1 <= m <= 12 ->
  instant_from_iso (pad 4 y ++ "-" ++ pad 2 m) = Ok (mk_instant y m 1 0 0 0 0).
Proof.
  intros Hy Hm. pose proof Hy as Hy'. unfold valid_year, MINYEAR, MAXYEAR in Hy'.
  apply andb_true_iff in Hy' as [? ?]. zb.
  rewrite short_year_month_completion by (apply just_year_month_pad; lia).
  rewrite !append_assoc. change ("-" ++ pad 2 m ++ "-01") with ("-" ++ pad 2 m ++ "-" ++ pad 2 1).
  apply instant_from_iso_date; [exact Hy|].
  unfold valid_date. replace (1 <=? m) with true by (symmetry; apply Z.leb_le; lia).
  replace (m <=? 12) with true by (symmetry; apply Z.leb_le; lia). cbn [andb Z.leb Z.compare].
  apply Z.leb_le. unfold days_in_month.
  repeat match goal with |- context [if ?b then _ else _] => destruct b end; lia.
Qed.

(* ---- statements in the shape used by Properties/C17.v ------------------------------------------------ *)
Theorem add_sub_laws i q : in_range i = true ->
  (forall r, instant_plus_quantity i q = Ok r ->
     instant_minus_instant r i = round_us (toQ (q_mag q)) /\ instant_minus_quantity r q = Ok i)
  /\ (forall r, instant_minus_quantity i q = Ok r ->
     instant_plus_quantity r q = Ok i /\ instant_minus_instant i r = round_us (toQ (q_mag q))).
Proof.
  intro Hi. split; intros r H.
  - destruct (add_sub_roundtrip i q r H) as [H1 H2]. split; [exact H1|exact (H2 Hi)].
  - exact (sub_add_roundtrip i q r Hi H).
Qed.

Theorem round_us_laws q :
  ((inject_Z (round_us q) - q * inject_Z US_PER_SEC <= 1 # 2)%Q
   /\ (q * inject_Z US_PER_SEC - inject_Z (round_us q) <= 1 # 2)%Q)
  /\ (forall z, (q == z # 1000000)%Q -> round_us q = z).
Proof. split; [apply round_us_near|apply round_us_exact]. Qed.

Theorem days_laws i n :
  (instant_plus_int i n
     = instant_plus_quantity i {| q_mag := NInt (n * 86400); q_dims := seconds_dims |}
   /\ instant_minus_int i n
     = instant_minus_quantity i {| q_mag := NInt (n * 86400); q_dims := seconds_dims |})
  /\ (forall r, instant_plus_int i n = Ok r ->
        r = i + n * US_PER_DAY /\ in_range r = true
        /\ date_of r = civil_from_days (day_of i + n) /\ tod_of r = tod_of i).
Proof. split; [apply plus_int_is_days|apply plus_int_value]. Qed.

Theorem fields_of_text y m d h mi s us :
  valid_year y = true -> valid_date y m d = true -> valid_time h mi s us = true ->
  exists i, instant_from_iso (iso_text y m d h mi s us) = Ok i /\ in_range i = true
    /\ get_year i = y /\ get_month i = m /\ get_day i = d
    /\ get_hour i = h /\ get_minute i = mi /\ get_second i = s
    /\ show_instant i = iso_text y m d h mi s us.
Proof.
  intros Hy Hd Ht. exists (mk_instant y m d h mi s us).
  split; [apply instant_from_iso_text; assumption|].
  destruct (mk_instant_fields y m d h mi s us Hd Ht) as (Hdate & Hh & Hmi & Hs & Hus & Hr).
  assert (Hshow : show_instant (mk_instant y m d h mi s us) = iso_text y m d h mi s us).
  { unfold show_instant. rewrite Hdate. cbv zeta.
    change (tod_of (mk_instant y m d h mi s us) / 3600000000) with (get_hour (mk_instant y m d h mi s us)).
    change (tod_of (mk_instant y m d h mi s us) / 60000000 mod 60) with (get_minute (mk_instant y m d h mi s us)).
    change (tod_of (mk_instant y m d h mi s us) / 1000000 mod 60) with (get_second (mk_instant y m d h mi s us)).
    change (tod_of (mk_instant y m d h mi s us) mod 1000000) with (get_micro (mk_instant y m d h mi s us)).
    rewrite Hh, Hmi, Hs, Hus. reflexivity. }
  unfold get_year, get_month, get_day. rewrite Hdate.
  cbn [fst snd]. auto 10.
Qed.

Theorem short_literal_laws :
  (forall s, just_year s = true -> instant_from_iso s = instant_from_iso (s ++ "-01-01"))
  /\ (forall s, just_year_month s = true -> instant_from_iso s = instant_from_iso (s ++ "-01"))
  /\ (forall y, valid_year y = true ->
        just_year (pad 4 y) = true /\ instant_from_iso (pad 4 y) = Ok (mk_instant y 1 1 0 0 0 0))
  /\ (forall y m, valid_year y = true -> 1 <= m <= 12 ->
        just_year_month (pad 4 y ++ "-" ++ pad 2 m) = true
        /\ instant_from_iso (pad 4 y ++ "-" ++ pad 2 m) = Ok (mk_instant y m 1 0 0 0 0)).
Proof.
  split; [exact short_year_completion|]. split; [exact short_year_month_completion|].
  split.
  - intros y Hy. split; [|apply short_year_value; exact Hy].
    unfold valid_year, MINYEAR, MAXYEAR in Hy. apply andb_true_iff in Hy as [? ?]. zb.
    apply just_year_pad. lia.
  - intros y m Hy Hm. split; [|apply short_year_month_value; assumption].
    unfold valid_year, MINYEAR, MAXYEAR in Hy. apply andb_true_iff in Hy as [? ?]. zb.
    apply just_year_month_pad; lia.
Qed.
