(* ProbProofs.v — proofs about Model/Prob.v (property C08). *)
From Coq Require Import Lia Lqa QArith Qround Qpower Qabs Qminmax Qfield.
From Ka Require Import Model.Prob Proofs.NumProofs.

Open Scope Q_scope.

(* ------------------------------------------------------------------------- *)
(* Boolean comparisons of Num.v *)
Lemma Qltb_lt a b : Qltb a b = true <-> a < b.
Proof. unfold Qltb. rewrite Qlt_alt. destruct (a ?= b); intuition congruence. Qed.
Lemma Qleb_le a b : Qleb a b = true <-> a <= b.
Proof. unfold Qleb. rewrite Qle_alt. destruct (a ?= b); intuition congruence. Qed.
Lemma Qeqb_eq a b : Qeqb a b = true <-> a == b.
Proof. unfold Qeqb. rewrite Qeq_alt. destruct (a ?= b); intuition congruence. Qed.
Lemma Qltb_ge a b : Qltb a b = false <-> b <= a.
Proof.
  split; intro H.
  - apply Qnot_lt_le. intro Hl. apply Qltb_lt in Hl. congruence.
  - destruct (Qltb a b) eqn:E; auto. apply Qltb_lt in E. exfalso. eapply Qlt_not_le; eauto.
Qed.
Lemma Qleb_gt a b : Qleb a b = false <-> b < a.
Proof.
  split; intro H.
  - apply Qnot_le_lt. intro Hl. apply Qleb_le in Hl. congruence.
  - destruct (Qleb a b) eqn:E; auto. apply Qleb_le in E. exfalso. eapply Qlt_not_le; eauto.
Qed.
Lemma negb_Qleb a b : negb (Qleb a b) = Qltb b a.
Proof.
  destruct (Qleb a b) eqn:E; cbn; symmetry.
  - apply Qltb_ge. now apply Qleb_le.
  - apply Qltb_lt. now apply Qleb_gt.
Qed.
Lemma negb_Qltb a b : negb (Qltb a b) = Qleb b a.
Proof. rewrite <- negb_Qleb. now rewrite negb_involutive. Qed.

Lemma bool_eq_iff (a b : bool) : (a = true <-> b = true) -> a = b.
Proof. destruct a, b; intuition congruence. Qed.

(* integers against rational thresholds: floor and ceiling *)
Lemma Zle_floor k t : inject_Z k <= t <-> (k <= Qfloor t)%Z.
Proof.
  split; intro H.
  - rewrite <- (Qfloor_Z k). now apply Qfloor_resp_le.
  - eapply Qle_trans; [| apply Qfloor_le]. now rewrite <- Zle_Qle.
Qed.
Lemma Zlt_ceiling k t : inject_Z k < t <-> (k <= Qceiling t - 1)%Z.
Proof.
  split; intro H.
  - assert (Hc : t <= inject_Z (Qceiling t)) by apply Qle_ceiling.
    assert (inject_Z k < inject_Z (Qceiling t)) by (eapply Qlt_le_trans; eauto).
    rewrite <- Zlt_Qlt in H0. lia.
  - eapply Qle_lt_trans; [| apply Qceiling_lt]. rewrite <- Zle_Qle. lia.
Qed.
Lemma Zge_ceiling k t : t <= inject_Z k <-> (Qceiling t - 1 < k)%Z.
Proof.
  split; intro H.
  - destruct (Z_lt_le_dec (Qceiling t - 1) k) as [|Hk]; auto.
    apply Zlt_ceiling in Hk. exfalso. eapply Qlt_not_le; eauto.
  - apply Qnot_lt_le. intro Hl. apply Zlt_ceiling in Hl. lia.
Qed.
Lemma Zgt_floor k t : t < inject_Z k <-> (Qfloor t < k)%Z.
Proof.
  split; intro H.
  - destruct (Z_lt_le_dec (Qfloor t) k) as [|Hk]; auto.
    apply Zle_floor in Hk. exfalso. eapply Qlt_not_le; eauto.
  - apply Qnot_le_lt. intro Hl. apply Zle_floor in Hl. lia.
Qed.
Lemma ceiling_floor t : (Qceiling t - 1 <= Qfloor t)%Z.
Proof.
  destruct (Z_le_gt_dec (Qceiling t - 1) (Qfloor t)) as [|H]; auto.
  assert (H1 : (Qfloor t + 1 <= Qceiling t - 1)%Z) by lia.
  apply Zlt_ceiling in H1. pose proof (Qlt_floor t) as H2.
  exfalso. eapply Qlt_irrefl. eapply Qlt_trans; eauto.
Qed.

Lemma Qleb_k_t k t : Qleb (inject_Z k) t = (k <=? Qfloor t)%Z.
Proof. apply bool_eq_iff. rewrite Qleb_le, Z.leb_le. apply Zle_floor. Qed.
Lemma Qltb_k_t k t : Qltb (inject_Z k) t = (k <=? Qceiling t - 1)%Z.
Proof. apply bool_eq_iff. rewrite Qltb_lt, Z.leb_le. apply Zlt_ceiling. Qed.
Lemma Qleb_t_k k t : Qleb t (inject_Z k) = (Qceiling t - 1 <? k)%Z.
Proof. apply bool_eq_iff. rewrite Qleb_le, Z.ltb_lt. apply Zge_ceiling. Qed.
Lemma Qltb_t_k k t : Qltb t (inject_Z k) = (Qfloor t <? k)%Z.
Proof. apply bool_eq_iff. rewrite Qltb_lt, Z.ltb_lt. apply Zgt_floor. Qed.

(* ------------------------------------------------------------------------- *)
(* Finite sums *)
Lemma sum_n_S f lo m : sum_n f lo (S m) == sum_n f lo m + f (lo + Z.of_nat m)%Z.
Proof. cbn [sum_n]. apply Qred_correct. Qed.

Lemma sum_n_ext f g lo n :
  (forall i, (i < n)%nat -> f (lo + Z.of_nat i)%Z == g (lo + Z.of_nat i)%Z) ->
  sum_n f lo n == sum_n g lo n.
Proof.
  induction n as [|n IH]; intro H; [reflexivity|].
  rewrite !sum_n_S. rewrite IH by (intros; apply H; lia). rewrite (H n) by lia. reflexivity.
Qed.

Lemma sum_n_app f lo a b :
  sum_n f lo (a + b) == sum_n f lo a + sum_n f (lo + Z.of_nat a) b.
Proof.
  induction b as [|b IH].
  - rewrite Nat.add_0_r. cbn [sum_n]. ring.
  - rewrite Nat.add_succ_r, !sum_n_S, IH.
    replace (lo + Z.of_nat (a + b))%Z with (lo + Z.of_nat a + Z.of_nat b)%Z by lia. ring.
Qed.

Lemma sum_n_nonneg f lo n :
  (forall i, (i < n)%nat -> 0 <= f (lo + Z.of_nat i)%Z) -> 0 <= sum_n f lo n.
Proof.
  induction n as [|n IH]; intro H; [apply Qle_refl|].
  rewrite sum_n_S.
  assert (0 <= sum_n f lo n) by (apply IH; intros; apply H; lia).
  specialize (H n (Nat.lt_succ_diag_r n)). lra.
Qed.

Lemma sum_n_zero lo n : sum_n (fun _ => 0) lo n == 0.
Proof. induction n as [|n IH]; [reflexivity|]. rewrite sum_n_S, IH. ring. Qed.

Lemma sumZ_empty f lo hi : (hi < lo)%Z -> sumZ f lo hi == 0.
Proof. intro H. unfold sumZ. replace (Z.to_nat (hi + 1 - lo)) with O by lia. reflexivity. Qed.

Lemma sumZ_last f lo hi : (lo <= hi)%Z -> sumZ f lo hi == sumZ f lo (hi - 1) + f hi.
Proof.
  intro H. unfold sumZ.
  replace (Z.to_nat (hi + 1 - lo)) with (S (Z.to_nat (hi - 1 + 1 - lo))) by lia.
  rewrite sum_n_S. replace (lo + Z.of_nat (Z.to_nat (hi - 1 + 1 - lo)))%Z with hi by lia.
  reflexivity.
Qed.

Lemma sumZ_one f k : sumZ f k k == f k.
Proof. rewrite sumZ_last by lia. rewrite sumZ_empty by lia. ring. Qed.

Lemma sumZ_ext f g lo hi :
  (forall k, (lo <= k <= hi)%Z -> f k == g k) -> sumZ f lo hi == sumZ g lo hi.
Proof. intro H. unfold sumZ. apply sum_n_ext. intros i Hi. apply H. lia. Qed.

Lemma sumZ_zero f lo hi : (forall k, (lo <= k <= hi)%Z -> f k == 0) -> sumZ f lo hi == 0.
Proof.
  intro H. rewrite (sumZ_ext f (fun _ => 0)) by exact H. unfold sumZ. apply sum_n_zero.
Qed.

Lemma sumZ_split f lo mid hi :
  (lo <= mid + 1)%Z -> (mid <= hi)%Z ->
  sumZ f lo hi == sumZ f lo mid + sumZ f (mid + 1) hi.
Proof.
  intros H1 H2. unfold sumZ.
  replace (Z.to_nat (hi + 1 - lo)) with (Z.to_nat (mid + 1 - lo) + Z.to_nat (hi + 1 - (mid + 1)))%nat by lia.
  rewrite sum_n_app. replace (lo + Z.of_nat (Z.to_nat (mid + 1 - lo)))%Z with (mid + 1)%Z by lia.
  reflexivity.
Qed.

Lemma sumZ_nonneg f lo hi : (forall k, (lo <= k <= hi)%Z -> 0 <= f k) -> 0 <= sumZ f lo hi.
Proof. intro H. unfold sumZ. apply sum_n_nonneg. intros i Hi. apply H. lia. Qed.

Lemma sum_n_scale c f lo n : sum_n (fun k => f k * c) lo n == c * sum_n f lo n.
Proof. induction n as [|n IH]; [cbn; ring|]. rewrite !sum_n_S, IH. ring. Qed.
Lemma sumZ_scale c f lo hi : sumZ (fun k => f k * c) lo hi == c * sumZ f lo hi.
Proof. apply sum_n_scale. Qed.

(* induction on the upper end of a window *)
Lemma sumZ_ind_hi (P : Z -> Prop) (lo : Z) :
  P (lo - 1)%Z -> (forall h, (lo <= h)%Z -> P (h - 1)%Z -> P h) -> forall h, (lo - 1 <= h)%Z -> P h.
Proof.
  intros H0 HS h Hh.
  replace h with (lo - 1 + Z.of_nat (Z.to_nat (h - (lo - 1))))%Z by lia.
  induction (Z.to_nat (h - (lo - 1))) as [|n IH].
  - now replace (lo - 1 + Z.of_nat 0)%Z with (lo - 1)%Z by lia.
  - apply HS; [lia|]. now replace (lo - 1 + Z.of_nat (S n) - 1)%Z with (lo - 1 + Z.of_nat n)%Z by lia.
Qed.

Lemma is_integral_inject k : is_integral (NFrac (inject_Z k)) = true.
Proof. unfold is_integral. cbn [toQ]. rewrite Qred_inject_Z. reflexivity. Qed.

(* ------------------------------------------------------------------------- *)
(* mass_on *)
Lemma mass_on_ext pmf c c' lo hi :
  (forall k, (lo <= k <= hi)%Z -> c k = c' k) -> mass_on pmf c lo hi == mass_on pmf c' lo hi.
Proof. intro H. apply sumZ_ext. intros k Hk. rewrite (H k Hk). reflexivity. Qed.

(* ------------------------------------------------------------------------- *)
(* What P_written computes on a discrete variable, for every written shape
   (no hypothesis on pmf/cdf: this is just the code path). *)
Definition disc_cut (s : side) (r : rel) (t : Q) : Z :=
  match s, r with
  | XLeft, Rle | XRight, Rge | XLeft, Rgt | XRight, Rlt => Qfloor t
  | _, _ => (Qceiling t - 1)%Z
  end.
Definition lcut (r : rel) (a : Q) : Z := match r with Rlt => Qfloor a | _ => (Qceiling a - 1)%Z end.
Definition ucut (r : rel) (b : Q) : Z := match r with Rle => Qfloor b | _ => (Qceiling b - 1)%Z end.
Definition same_dir (r1 r2 : rel) : bool := is_fwd r1 && is_fwd r2 || is_back r1 && is_back r2.

Lemma P_single_disc pmf cdf s r t : r <> Req ->
  P_written (wsingle (Disc pmf cdf) s r t)
  = Ok (if bounded_above s r then cdf (disc_cut s r t) else 1 - cdf (disc_cut s r t)).
Proof. intro H. destruct s, r; try congruence; reflexivity. Qed.

Lemma P_double_disc_fwd pmf cdf a r1 r2 b : is_fwd r1 = true -> is_fwd r2 = true ->
  P_written (wdouble (Disc pmf cdf) a r1 r2 b) = Ok (Qmax (cdf (ucut r2 b) - cdf (lcut r1 a)) 0).
Proof.
  intros H1 H2. destruct r1, r2; try discriminate;
    cbn -[Qfloor Qceiling Qmax Qminus]; rewrite ?Qfloor_Z; reflexivity.
Qed.

Lemma P_double_back X a r1 r2 b : is_back r1 = true -> is_back r2 = true ->
  P_written (wdouble X a r1 r2 b) = P_written (wdouble X b (flip r2) (flip r1) a).
Proof. intros H1 H2. destruct r1, r2; try discriminate; reflexivity. Qed.

Lemma cond2_back a r1 r2 b k : is_back r1 = true -> is_back r2 = true ->
  cond2 a r1 r2 b k = cond2 b (flip r2) (flip r1) a k.
Proof.
  intros H1 H2. unfold cond2. destruct r1, r2; try discriminate; cbn [holds flip]; apply andb_comm.
Qed.

Lemma cond2_fwd a r1 r2 b k : is_fwd r1 = true -> is_fwd r2 = true ->
  cond2 a r1 r2 b k = ((lcut r1 a <? k)%Z && (k <=? ucut r2 b)%Z).
Proof.
  intros H1 H2. unfold cond2.
  destruct r1, r2; try discriminate; cbn [holds lcut ucut];
    rewrite ?Qltb_t_k, ?Qleb_t_k, ?Qltb_k_t, ?Qleb_k_t; reflexivity.
Qed.

Lemma cond1_cut s r t k : r <> Req ->
  (if bounded_above s r then cond1 s r t k else negb (cond1 s r t k)) = (k <=? disc_cut s r t)%Z.
Proof.
  intro H. destruct s, r; try congruence; cbn [bounded_above is_fwd is_back cond1 holds disc_cut];
    rewrite ?negb_Qltb, ?negb_Qleb, ?Qltb_k_t, ?Qleb_k_t; reflexivity.
Qed.

Lemma disc_cut_le_floor s r t : (disc_cut s r t <= Qfloor t)%Z.
Proof. pose proof (ceiling_floor t). destruct s, r; cbn [disc_cut]; lia. Qed.
Lemma ucut_le_floor r b : (ucut r b <= Qfloor b)%Z.
Proof. pose proof (ceiling_floor b). destruct r; cbn [ucut]; lia. Qed.

(* a chain that mixes directions (or contains "=") names no registered function *)
Lemma P_mixed_rejected a r1 m r2 b : same_dir r1 r2 = false ->
  P_written (W2 a r1 m r2 b) = Raise UnknownFunctionError.
Proof. intro H. destruct r1, r2; try discriminate; reflexivity. Qed.

(* ------------------------------------------------------------------------- *)
(* A discrete law: non-negative masses, support bounded below by L, and the cdf is
   the running sum of the masses at every integer. *)
Section DiscreteLaw.
  Variables (pmf cdf : Z -> Q) (L : Z).
  Hypothesis pmf_nonneg : forall k, 0 <= pmf k.
  Hypothesis pmf_below : forall k, (k < L)%Z -> pmf k == 0.
  Hypothesis cdf_sum : forall t, cdf t == sumZ pmf L t.

  Let X := Disc pmf cdf.

  Lemma cdf_from lo0 m : (lo0 <= L)%Z -> cdf m == sumZ pmf lo0 m.
  Proof.
    intro H. rewrite cdf_sum.
    destruct (Z_lt_le_dec m L) as [Hm|Hm].
    - rewrite sumZ_empty by lia. symmetry. apply sumZ_zero. intros k Hk. apply pmf_below. lia.
    - rewrite (sumZ_split pmf lo0 (L - 1) m) by lia.
      rewrite (sumZ_zero pmf lo0 (L - 1)) by (intros k Hk; apply pmf_below; lia).
      replace (L - 1 + 1)%Z with L by lia. ring.
  Qed.

  Lemma cdf_diff l u : (l <= u)%Z -> cdf u - cdf l == sumZ pmf (l + 1) u.
  Proof.
    intro H. rewrite (cdf_from (Z.min L (l + 1)) u), (cdf_from (Z.min L (l + 1)) l) by lia.
    rewrite (sumZ_split pmf (Z.min L (l + 1)) l u) by lia. ring.
  Qed.

  Lemma cdf_mono l u : (l <= u)%Z -> cdf l <= cdf u.
  Proof.
    intro H. pose proof (cdf_diff l u H) as E.
    assert (0 <= sumZ pmf (l + 1) u) by (apply sumZ_nonneg; intros; apply pmf_nonneg). lra.
  Qed.

  Lemma cdf_nonneg t : 0 <= cdf t.
  Proof. rewrite cdf_sum. apply sumZ_nonneg. intros; apply pmf_nonneg. Qed.

  Lemma pmf_is_cdf_step k : pmf k == cdf k - cdf (k - 1).
  Proof.
    rewrite (cdf_diff (k - 1) k) by lia. replace (k - 1 + 1)%Z with k by lia.
    now rewrite sumZ_one.
  Qed.

  (* the mass on l < k <= u inside any window that starts at or below the support
     and reaches u *)
  Lemma mass_interval l u lo hi : (lo <= L)%Z -> (u <= hi)%Z ->
    mass_on pmf (fun k => (l <? k)%Z && (k <=? u)%Z) lo hi == Qmax (cdf u - cdf l) 0.
  Proof.
    intros Hlo Hhi. unfold mass_on.
    set (g := fun k : Z => if (l <? k)%Z && (k <=? u)%Z then pmf k else 0).
    (* lower the window to lo' <= l+1 : the added terms are below the support *)
    set (lo' := Z.min lo (l + 1)).
    assert (Ew : sumZ g lo hi == sumZ g lo' hi).
    { destruct (Z_lt_le_dec hi (lo - 1)) as [Hh|Hh].
      - rewrite (sumZ_empty g lo hi) by lia. symmetry. apply sumZ_zero.
        intros k Hk. unfold g. destruct ((l <? k)%Z && (k <=? u)%Z); [|reflexivity].
        apply pmf_below. lia.
      - rewrite (sumZ_split g lo' (lo - 1) hi) by lia.
        rewrite (sumZ_zero g lo' (lo - 1)).
        + replace (lo - 1 + 1)%Z with lo by lia. ring.
        + intros k Hk. unfold g. destruct ((l <? k)%Z && (k <=? u)%Z); [|reflexivity].
          apply pmf_below. lia. }
    rewrite Ew. clear Ew.
    destruct (Z_lt_le_dec l u) as [Hlu|Hlu].
    - (* non-empty: [lo', l] zero, [l+1, u] all, [u+1, hi] zero *)
      rewrite (sumZ_split g lo' l hi) by lia.
      rewrite (sumZ_split g (l + 1) u hi) by lia.
      rewrite (sumZ_zero g lo' l), (sumZ_zero g (u + 1) hi).
      + rewrite (sumZ_ext g pmf (l + 1) u).
        * rewrite <- cdf_diff by lia.
          assert (0 <= cdf u - cdf l) by (pose proof (cdf_mono l u ltac:(lia)); lra).
          rewrite Q.max_l by assumption. ring.
        * intros k Hk. unfold g.
          replace (l <? k)%Z with true by (symmetry; apply Z.ltb_lt; lia).
          replace (k <=? u)%Z with true by (symmetry; apply Z.leb_le; lia). reflexivity.
      + intros k Hk. unfold g.
        replace (k <=? u)%Z with false by (symmetry; apply Z.leb_gt; lia).
        rewrite andb_false_r. reflexivity.
      + intros k Hk. unfold g.
        replace (l <? k)%Z with false by (symmetry; apply Z.ltb_ge; lia). reflexivity.
    - (* empty condition *)
      rewrite sumZ_zero.
      + assert (cdf u <= cdf l) by (apply cdf_mono; lia).
        rewrite Q.max_r by lra. reflexivity.
      + intros k Hk. unfold g.
        destruct (l <? k)%Z eqn:E1; [|reflexivity].
        replace (k <=? u)%Z with false; [reflexivity|].
        symmetry. apply Z.leb_gt. apply Z.ltb_lt in E1. lia.
  Qed.

  (* the mass on k <= m *)
  Lemma mass_upto m lo hi : (lo <= L)%Z -> (m <= hi)%Z ->
    mass_on pmf (fun k => (k <=? m)%Z) lo hi == cdf m.
  Proof.
    intros Hlo Hhi.
    rewrite (mass_on_ext pmf _ (fun k => (Z.min lo m - 1 <? k)%Z && (k <=? m)%Z)).
    - rewrite mass_interval by assumption.
      assert (E : cdf (Z.min lo m - 1) == 0).
      { rewrite cdf_sum. apply sumZ_empty. lia. }
      rewrite E. pose proof (cdf_nonneg m). rewrite Q.max_l by lra. ring.
    - intros k Hk. replace (Z.min lo m - 1 <? k)%Z with true; [reflexivity|].
      symmetry. apply Z.ltb_lt. lia.
  Qed.

  (* ----- C08 for the discrete law *)
  Theorem point_mass k : P_written (W1 (TRv X) Req (TNum (inject_Z k))) = Ok (pmf k).
  Proof.
    cbn -[is_integral Qfloor]. rewrite is_integral_inject.
    cbn -[Qfloor]. now rewrite Qfloor_Z.
  Qed.

  (* X op t / t op X when the satisfying integers are bounded above: the value is
     the mass on exactly those integers, in any window [lo,hi] that starts at or
     below the support and reaches the threshold. *)
  Theorem single_bounded s r t lo hi :
    r <> Req -> bounded_above s r = true -> (lo <= L)%Z -> (Qfloor t <= hi)%Z ->
    exists v, P_written (wsingle X s r t) = Ok v /\ v == mass_on pmf (cond1 s r t) lo hi.
  Proof.
    intros Hr Hb Hlo Hhi. unfold X. rewrite P_single_disc by assumption. rewrite Hb.
    eexists; split; [reflexivity|].
    pose proof (disc_cut_le_floor s r t).
    rewrite <- (mass_upto (disc_cut s r t) lo hi) by lia.
    apply mass_on_ext. intros k _. pose proof (cond1_cut s r t k Hr) as E. rewrite Hb in E.
    now rewrite E.
  Qed.

  (* ... and when they are unbounded above (X > t, X >= t, t < X, t <= X): one minus
     the mass on the complementary integers, which form a finite set. *)
  Theorem single_unbounded s r t lo hi :
    r <> Req -> bounded_above s r = false -> (lo <= L)%Z -> (Qfloor t <= hi)%Z ->
    exists v, P_written (wsingle X s r t) = Ok v /\
              v == 1 - mass_on pmf (fun k => negb (cond1 s r t k)) lo hi.
  Proof.
    intros Hr Hb Hlo Hhi. unfold X. rewrite P_single_disc by assumption. rewrite Hb.
    eexists; split; [reflexivity|].
    pose proof (disc_cut_le_floor s r t).
    rewrite <- (mass_upto (disc_cut s r t) lo hi) by lia.
    apply Qplus_inj_l. apply Qopp_comp.
    apply mass_on_ext. intros k _. pose proof (cond1_cut s r t k Hr) as E. rewrite Hb in E.
    now rewrite E.
  Qed.

  Lemma double_fwd a r1 r2 b lo hi :
    is_fwd r1 = true -> is_fwd r2 = true -> (lo <= L)%Z -> (Qfloor b <= hi)%Z ->
    exists v, P_written (wdouble X a r1 r2 b) = Ok v /\ v == mass_on pmf (cond2 a r1 r2 b) lo hi.
  Proof.
    intros H1 H2 Hlo Hhi. unfold X. rewrite P_double_disc_fwd by assumption.
    eexists; split; [reflexivity|].
    pose proof (ucut_le_floor r2 b).
    rewrite <- (mass_interval (lcut r1 a) (ucut r2 b) lo hi) by lia.
    apply mass_on_ext. intros k _. symmetry. now apply cond2_fwd.
  Qed.

  (* a op1 X op2 b, both operators in the same direction (4 forward, 4 backward) *)
  Theorem double_mass a r1 r2 b lo hi :
    same_dir r1 r2 = true -> (lo <= L)%Z -> (Qfloor a <= hi)%Z -> (Qfloor b <= hi)%Z ->
    exists v, P_written (wdouble X a r1 r2 b) = Ok v /\ v == mass_on pmf (cond2 a r1 r2 b) lo hi.
  Proof.
    intros Hd Hlo Ha Hb. unfold same_dir in Hd. apply orb_true_iff in Hd.
    destruct Hd as [Hd|Hd]; apply andb_true_iff in Hd; destruct Hd as [H1 H2].
    - now apply double_fwd.
    - rewrite P_double_back by assumption.
      destruct (double_fwd b (flip r2) (flip r1) a lo hi) as [v [E1 E2]];
        try assumption; try (destruct r1, r2; try discriminate; reflexivity).
      exists v; split; [exact E1|]. rewrite E2. apply mass_on_ext. intros k _.
      symmetry. now apply cond2_back.
  Qed.

  (* 0 <= P <= 1 ingredients for a law whose total mass is at most 1 *)
  Lemma pmf_le_cdf k : pmf k <= cdf k.
  Proof. pose proof (pmf_is_cdf_step k). pose proof (cdf_nonneg (k - 1)). lra. Qed.
End DiscreteLaw.

(* ------------------------------------------------------------------------- *)
(* Continuous variables: every event is the stated difference of the cdf F. *)
Lemma P_single_cont F s r t : r <> Req ->
  P_written (wsingle (Cont F) s r t) = Ok (if bounded_above s r then F t else 1 - F t).
Proof. intro H. destruct s, r; try congruence; reflexivity. Qed.

Definition chain_lo (r1 : rel) (a b : Q) : Q := if is_fwd r1 then a else b.
Definition chain_hi (r1 : rel) (a b : Q) : Q := if is_fwd r1 then b else a.

Lemma P_double_cont F a r1 r2 b : same_dir r1 r2 = true ->
  P_written (wdouble (Cont F) a r1 r2 b) = Ok (Qmax (F (chain_hi r1 a b) - F (chain_lo r1 a b)) 0).
Proof. intro H. destruct r1, r2; try discriminate; reflexivity. Qed.

Lemma P_double_cont_ordered F a r1 r2 b :
  (forall x y, x <= y -> F x <= F y) -> same_dir r1 r2 = true -> chain_lo r1 a b <= chain_hi r1 a b ->
  exists v, P_written (wdouble (Cont F) a r1 r2 b) = Ok v /\
            v == F (chain_hi r1 a b) - F (chain_lo r1 a b).
Proof.
  intros Hm Hd Hle. rewrite P_double_cont by assumption. eexists; split; [reflexivity|].
  apply Q.max_l. specialize (Hm _ _ Hle). lra.
Qed.

Lemma P_point_cont F k : P_written (W1 (TRv (Cont F)) Req (TNum k)) = Raise NoMatchingFunctionSignatureError.
Proof. reflexivity. Qed.

(* ------------------------------------------------------------------------- *)
(* An event and its complement sum to 1 — on any variable, by the code paths alone. *)
Lemma complement_sum X s r t v1 v2 : r <> Req ->
  P_written (wsingle X s r t) = Ok v1 -> P_written (wsingle X s (negate r) t) = Ok v2 ->
  v1 + v2 == 1.
Proof.
  intros Hr H1 H2.
  assert (Hn : negate r <> Req) by (destruct r; cbn; congruence).
  destruct X as [pm cd|F].
  - rewrite P_single_disc in H1, H2 by assumption.
    destruct s, r; try congruence; cbn [bounded_above is_fwd is_back negate disc_cut] in H1, H2;
      injection H1 as <-; injection H2 as <-; ring.
  - rewrite P_single_cont in H1, H2 by assumption.
    destruct s, r; try congruence; cbn [bounded_above is_fwd is_back negate] in H1, H2;
      injection H1 as <-; injection H2 as <-; ring.
Qed.

(* ------------------------------------------------------------------------- *)
(* 0 <= P <= 1 whenever masses and cdf values are themselves in [0,1]. *)
Definition good_rv (X : rvar) : Prop :=
  match X with
  | Disc pmf cdf => (forall k, 0 <= pmf k <= 1) /\ (forall k, 0 <= cdf k <= 1)
  | Cont F => forall x, 0 <= F x <= 1
  end.
Definition term_good (t : term) : Prop := match t with TNum _ => True | TRv X => good_rv X end.
Definition written_good (w : written) : Prop :=
  match w with
  | W1 a _ b => term_good a /\ term_good b
  | W2 a _ m _ b => term_good a /\ term_good m /\ term_good b
  end.

Lemma max0_bounds p1 p2 : 0 <= p1 <= 1 -> 0 <= p2 <= 1 -> 0 <= Qmax (p2 - p1) 0 <= 1.
Proof.
  intros H1 H2. split.
  - apply Q.le_max_r.
  - apply Q.max_lub; lra.
Qed.

Lemma bounds_single X s r t v : good_rv X -> r <> Req ->
  P_written (wsingle X s r t) = Ok v -> 0 <= v <= 1.
Proof.
  intros Hg Hr H. destruct X as [pm cd|F]; cbn [good_rv] in Hg.
  - rewrite P_single_disc in H by assumption. destruct Hg as [_ Hc].
    pose proof (Hc (disc_cut s r t)). destruct (bounded_above s r); injection H as <-; lra.
  - rewrite P_single_cont in H by assumption.
    pose proof (Hg t). destruct (bounded_above s r); injection H as <-; lra.
Qed.

Lemma bounds_double X a r1 r2 b v : good_rv X ->
  P_written (wdouble X a r1 r2 b) = Ok v -> 0 <= v <= 1.
Proof.
  intros Hg H. destruct (same_dir r1 r2) eqn:Hd.
  2:{ unfold wdouble in H. rewrite P_mixed_rejected in H by assumption. discriminate. }
  destruct X as [pm cd|F]; cbn [good_rv] in Hg.
  - destruct Hg as [_ Hc].
    unfold same_dir in Hd. apply orb_true_iff in Hd.
    destruct Hd as [Hd|Hd]; apply andb_true_iff in Hd; destruct Hd as [H1 H2].
    + rewrite P_double_disc_fwd in H by assumption. injection H as <-. apply max0_bounds; apply Hc.
    + rewrite P_double_back in H by assumption.
      rewrite P_double_disc_fwd in H by (destruct r1, r2; try discriminate; reflexivity).
      injection H as <-. apply max0_bounds; apply Hc.
  - rewrite P_double_cont in H by assumption. injection H as <-. apply max0_bounds; apply Hg.
Qed.

Lemma bounds_point pm cd k v : good_rv (Disc pm cd) ->
  P_written (W1 (TRv (Disc pm cd)) Req (TNum k)) = Ok v -> 0 <= v <= 1.
Proof.
  intros [Hp _] H. cbn -[is_integral Qfloor] in H.
  destruct (is_integral (NFrac k)); cbn -[Qfloor] in H; [|discriminate].
  injection H as <-. apply Hp.
Qed.

(* every written form: whatever P delivers is a probability *)
Theorem bounds_written w v : written_good w -> P_written w = Ok v -> 0 <= v <= 1.
Proof.
  intros Hg H. destruct w as [a r b|a r1 m r2 b].
  - destruct r.
    1-4: destruct a as [x|X], b as [y|Y]; cbn [written_good term_good] in Hg; destruct Hg as [Ha Hb];
      try (cbn in H; discriminate).
    + apply (bounds_single Y XRight Rlt x v); [assumption|congruence|exact H].
    + apply (bounds_single X XLeft Rlt y v); [assumption|congruence|exact H].
    + apply (bounds_single Y XRight Rle x v); [assumption|congruence|exact H].
    + apply (bounds_single X XLeft Rle y v); [assumption|congruence|exact H].
    + apply (bounds_single Y XRight Rgt x v); [assumption|congruence|exact H].
    + apply (bounds_single X XLeft Rgt y v); [assumption|congruence|exact H].
    + apply (bounds_single Y XRight Rge x v); [assumption|congruence|exact H].
    + apply (bounds_single X XLeft Rge y v); [assumption|congruence|exact H].
    + destruct a as [x|[pm cd|F]], b as [y|Y]; try (cbn in H; discriminate).
      cbn [written_good term_good] in Hg. destruct Hg as [Ha _].
      eapply bounds_point; eauto.
  - destruct (same_dir r1 r2) eqn:Hd.
    2:{ rewrite P_mixed_rejected in H by assumption. discriminate. }
    destruct a as [x|A], m as [y|Y], b as [z|B];
      try (destruct r1, r2; try discriminate Hd; cbn in H; discriminate).
    cbn [written_good term_good] in Hg. destruct Hg as [_ [Hm _]].
    eapply bounds_double; eauto.
Qed.

(* ------------------------------------------------------------------------- *)
(* Parameter validation *)
Ltac brk :=
  repeat match goal with
  | |- context [Qltb ?a ?b] =>
      let E := fresh "E" in destruct (Qltb a b) eqn:E; [apply Qltb_lt in E | apply Qltb_ge in E]
  | |- context [Qleb ?a ?b] =>
      let E := fresh "E" in destruct (Qleb a b) eqn:E; [apply Qleb_le in E | apply Qleb_gt in E]
  | |- context [(?a <=? ?b)%Z] => destruct (Z.leb_spec a b)
  | |- context [(?a <? ?b)%Z] => destruct (Z.ltb_spec a b)
  | |- context [(?a >? ?b)%Z] => rewrite (Z.gtb_ltb a b)
  | |- context [(?a >=? ?b)%Z] => rewrite (Z.geb_leb a b)
  | |- context [(?a =? ?b)%Z] => destruct (Z.eqb_spec a b)
  end; cbn [orb andb negb].

Lemma make_rv_valid l : valid_params l -> make_rv l = Ok l.
Proof.
  destruct l; cbn [valid_params make_rv]; intro H; brk; try reflexivity; exfalso;
    try lia; try lra.
Qed.

Lemma make_rv_invalid l : ~ valid_params l -> make_rv l = Raise InvalidParameterException.
Proof.
  destruct l; cbn [valid_params make_rv]; intro H; brk; try reflexivity; exfalso; apply H;
    repeat split; try lia; try lra; try assumption.
Qed.

Lemma make_rv_cases l : (valid_params l /\ make_rv l = Ok l) \/
                        (~ valid_params l /\ make_rv l = Raise InvalidParameterException).
Proof.
  destruct (make_rv l) as [r|e] eqn:E.
  - left. assert (V : valid_params l).
    { destruct l; cbn [valid_params make_rv] in *; revert E; brk; intro Hmk; try discriminate;
        repeat split; try lia; try lra; try assumption. }
    split; [exact V|]. rewrite <- E. now apply make_rv_valid.
  - right. assert (V : ~ valid_params l).
    { intro V. rewrite make_rv_valid in E by assumption. discriminate. }
    split; [exact V|]. rewrite <- E. now apply make_rv_invalid.
Qed.

Lemma invalid_rejected_P fo l mk : ~ valid_params l -> P_law fo l mk = Raise InvalidParameterException.
Proof. intro H. unfold P_law. now rewrite make_rv_invalid. Qed.
Lemma invalid_rejected_mean l : ~ valid_params l -> mean_of l = Raise InvalidParameterException.
Proof. intro H. unfold mean_of. now rewrite make_rv_invalid. Qed.

(* ------------------------------------------------------------------------- *)
(* Bernoulli *)
Lemma bernoulli_law p : 0 <= p -> p <= 1 -> discrete_law (bernoulli_pmf p) (bernoulli_cdf p) 0.
Proof.
  intros H0 H1. split; [|split].
  - intro k. unfold bernoulli_pmf. brk; lra.
  - intros k Hk. unfold bernoulli_pmf. brk; try lia. reflexivity.
  - intro t. unfold bernoulli_cdf. brk.
    + now rewrite sumZ_empty by lia.
    + replace t with 0%Z by lia. rewrite sumZ_one. reflexivity.
    + rewrite (sumZ_split _ 0 1 t) by lia.
      rewrite (sumZ_last _ 0 1) by lia. replace (1 - 1)%Z with 0%Z by lia. rewrite sumZ_one.
      rewrite (sumZ_zero _ (1 + 1) t).
      * change (bernoulli_pmf p 0) with (1 - p). change (bernoulli_pmf p 1) with p. ring.
      * intros k Hk. unfold bernoulli_pmf. brk; try lia. reflexivity.
Qed.

Lemma bernoulli_good p : 0 <= p -> p <= 1 -> good_rv (Disc (bernoulli_pmf p) (bernoulli_cdf p)).
Proof.
  intros H0 H1. split; intro k.
  - unfold bernoulli_pmf. brk; lra.
  - unfold bernoulli_cdf. brk; lra.
Qed.

(* ------------------------------------------------------------------------- *)
(* UniformInt *)
Lemma iZ_pos n : (0 < n)%Z -> 0 < inject_Z n.
Proof. intro H. change 0 with (inject_Z 0). now rewrite <- Zlt_Qlt. Qed.
Lemma iZ_nonneg n : (0 <= n)%Z -> 0 <= inject_Z n.
Proof. intro H. change 0 with (inject_Z 0). now rewrite <- Zle_Qle. Qed.

Lemma uniformint_partial lo hi : (lo <= hi)%Z -> forall t, (lo - 1 <= t)%Z -> (t <= hi)%Z ->
  sumZ (uniformint_pmf lo hi) lo t == inject_Z (t - lo + 1) / inject_Z (hi - lo + 1).
Proof.
  intros Hlh. pose proof (iZ_pos (hi - lo + 1) ltac:(lia)) as HN.
  apply (sumZ_ind_hi (fun t => (t <= hi)%Z -> sumZ (uniformint_pmf lo hi) lo t
                                == inject_Z (t - lo + 1) / inject_Z (hi - lo + 1))).
  - intros _. rewrite sumZ_empty by lia. replace (lo - 1 - lo + 1)%Z with 0%Z by lia.
    unfold Qdiv. ring.
  - intros h Hh IH Hhi. rewrite sumZ_last by lia. rewrite IH by lia.
    unfold uniformint_pmf. brk; try lia.
    replace (h - lo + 1)%Z with ((h - 1 - lo + 1) + 1)%Z by lia.
    rewrite (inject_Z_plus (h - 1 - lo + 1) 1). change (inject_Z 1) with 1.
    field. lra.
Qed.

Lemma uniformint_law lo hi : (lo <= hi)%Z ->
  discrete_law (uniformint_pmf lo hi) (uniformint_cdf lo hi) lo.
Proof.
  intro Hlh. pose proof (iZ_pos (hi - lo + 1) ltac:(lia)) as HN. split; [|split].
  - intro k. unfold uniformint_pmf. brk; try lra.
    apply Qle_shift_div_l; lra.
  - intros k Hk. unfold uniformint_pmf. brk; try lia; reflexivity.
  - intro t. unfold uniformint_cdf. brk.
    + now rewrite sumZ_empty by lia.
    + rewrite (sumZ_split _ lo hi t) by lia. rewrite uniformint_partial by lia.
      rewrite (sumZ_zero _ (hi + 1) t).
      * field. lra.
      * intros k Hk. unfold uniformint_pmf. brk; try lia; reflexivity.
    + now rewrite uniformint_partial by lia.
Qed.

Lemma uniformint_good lo hi : (lo <= hi)%Z -> good_rv (Disc (uniformint_pmf lo hi) (uniformint_cdf lo hi)).
Proof.
  intro Hlh. pose proof (iZ_pos (hi - lo + 1) ltac:(lia)) as HN.
  assert (H1 : 1 <= inject_Z (hi - lo + 1)).
  { change 1 with (inject_Z 1). rewrite <- Zle_Qle. lia. }
  split; intro k.
  - unfold uniformint_pmf. brk; try lra. split.
    + apply Qle_shift_div_l; lra.
    + apply Qle_shift_div_r; lra.
  - unfold uniformint_cdf. brk; try lra. split.
    + apply Qle_shift_div_l; [lra|]. pose proof (iZ_nonneg (k - lo + 1) ltac:(lia)). lra.
    + apply Qle_shift_div_r; [lra|]. rewrite Qmult_1_l. rewrite <- Zle_Qle. lia.
Qed.

(* mean: lo + (hi-lo)/2 = (lo+hi)/2 = Σ k·pmf k *)
Lemma uniformint_mean_closed lo hi :
  inject_Z lo + inject_Z (hi - lo) / 2 == (inject_Z lo + inject_Z hi) / 2.
Proof. unfold Z.sub. rewrite inject_Z_plus, inject_Z_opp. field. Qed.

Lemma uniformint_first_moment lo hi : (lo <= hi)%Z -> forall t, (lo - 1 <= t)%Z -> (t <= hi)%Z ->
  sumZ (fun k => inject_Z k * uniformint_pmf lo hi k) lo t
  == (inject_Z t - inject_Z lo + 1) * (inject_Z lo + inject_Z t) / (2 * inject_Z (hi - lo + 1)).
Proof.
  intros Hlh. pose proof (iZ_pos (hi - lo + 1) ltac:(lia)) as HN.
  apply (sumZ_ind_hi (fun t => (t <= hi)%Z ->
     sumZ (fun k => inject_Z k * uniformint_pmf lo hi k) lo t
     == (inject_Z t - inject_Z lo + 1) * (inject_Z lo + inject_Z t) / (2 * inject_Z (hi - lo + 1)))).
  - intros _. rewrite sumZ_empty by lia. rewrite (iZ_minus lo 1).
    change (inject_Z 1) with 1. field. lra.
  - intros h Hh IH Hhi. rewrite sumZ_last by lia. rewrite IH by lia.
    unfold uniformint_pmf. brk; try lia.
    rewrite (iZ_minus h 1). change (inject_Z 1) with 1.
    field. lra.
Qed.

Lemma uniformint_mean_is_expectation lo hi : (lo <= hi)%Z ->
  exists m, mean_of (UniformInt lo hi) = Ok m /\
            m == (inject_Z lo + inject_Z hi) / 2 /\
            m == sumZ (fun k => inject_Z k * uniformint_pmf lo hi k) lo hi.
Proof.
  intro Hlh. pose proof (iZ_pos (hi - lo + 1) ltac:(lia)) as HN.
  unfold mean_of. rewrite make_rv_valid by exact Hlh. cbn [bind mean].
  eexists; split; [reflexivity|]. split; [apply uniformint_mean_closed|].
  rewrite uniformint_first_moment by lia. rewrite uniformint_mean_closed.
  assert (E : inject_Z (hi - lo + 1) == inject_Z hi - inject_Z lo + 1).
  { rewrite inject_Z_plus, iZ_minus. reflexivity. }
  rewrite E in *. field. lra.
Qed.

(* ------------------------------------------------------------------------- *)
(* Geometric *)
Lemma Qpower_succ q n : (0 <= n)%Z -> q ^ (n + 1) == q ^ n * q.
Proof. intro H. rewrite Qpower_plus' by lia. reflexivity. Qed.

Lemma Qpower_le1 q n : 0 <= q -> q <= 1 -> (0 <= n)%Z -> q ^ n <= 1.
Proof.
  intros H0 H1 Hn. replace n with (Z.of_nat (Z.to_nat n)) by lia.
  induction (Z.to_nat n) as [|m IH]; [cbn; lra|].
  rewrite Nat2Z.inj_succ. unfold Z.succ. rewrite Qpower_succ by lia.
  assert (0 <= q ^ Z.of_nat m) by now apply Qpower_0_le. nra.
Qed.

Lemma geometric_sum_n p n : sum_n (geometric_pmf p) 1 n == 1 - (1 - p) ^ Z.of_nat n.
Proof.
  induction n as [|n IH]; [cbn; ring|].
  rewrite sum_n_S, IH. unfold geometric_pmf. brk; [lia|].
  replace (1 + Z.of_nat n - 1)%Z with (Z.of_nat n) by lia.
  rewrite Nat2Z.inj_succ. unfold Z.succ. rewrite Qpower_succ by lia. ring.
Qed.

Lemma geometric_law p : 0 <= p -> p <= 1 -> discrete_law (geometric_pmf p) (geometric_cdf p) 1.
Proof.
  intros H0 H1. split; [|split].
  - intro k. unfold geometric_pmf. brk; [lra|].
    apply Qmult_le_0_compat; [apply Qpower_0_le; lra|assumption].
  - intros k Hk. unfold geometric_pmf. brk; [reflexivity|lia].
  - intro t. unfold geometric_cdf. brk.
    + now rewrite sumZ_empty by lia.
    + unfold sumZ. rewrite geometric_sum_n. replace (Z.of_nat (Z.to_nat (t + 1 - 1))) with t by lia.
      reflexivity.
Qed.

Lemma geometric_good p : 0 <= p -> p <= 1 -> good_rv (Disc (geometric_pmf p) (geometric_cdf p)).
Proof.
  intros H0 H1. split; intro k.
  - unfold geometric_pmf. brk; [lra|].
    assert (0 <= (1 - p) ^ (k - 1)) by (apply Qpower_0_le; lra).
    assert ((1 - p) ^ (k - 1) <= 1) by (apply Qpower_le1; try lra; lia). nra.
  - unfold geometric_cdf. brk; [lra|].
    assert (0 <= (1 - p) ^ k) by (apply Qpower_0_le; lra).
    assert ((1 - p) ^ k <= 1) by (apply Qpower_le1; try lra; lia). lra.
Qed.

(* ------------------------------------------------------------------------- *)
(* Poisson, relative to e = exp(-mu) *)
Lemma fact_loop_pos n : (0 < fact_loop n)%Z.
Proof. induction n as [|n IH]; cbn [fact_loop]; [lia|]. apply Z.mul_pos_pos; lia. Qed.
Lemma factorial_pos n : (0 < factorial n)%Z.
Proof. unfold factorial. destruct (n <? 2)%Z; [lia|apply fact_loop_pos]. Qed.

Lemma poisson_law mu e : 0 <= mu -> 0 <= e -> discrete_law (poisson_pmf mu e) (poisson_cdf mu e) 0.
Proof.
  intros Hm He. split; [|split].
  - intro k. unfold poisson_pmf. brk; [lra|]. rewrite Qred_correct.
    pose proof (iZ_pos _ (factorial_pos k)).
    apply Qle_shift_div_l; [assumption|]. rewrite Qmult_0_l.
    apply Qmult_le_0_compat; [apply Qpower_0_le|]; assumption.
  - intros k Hk. unfold poisson_pmf. brk; [reflexivity|lia].
  - intro t. unfold poisson_cdf. rewrite <- sumZ_scale. apply sumZ_ext. intros k Hk.
    unfold poisson_pmf, poisson_term. brk; [lia|]. rewrite !Qred_correct.
    pose proof (iZ_pos _ (factorial_pos k)). field. lra.
Qed.

(* ------------------------------------------------------------------------- *)
(* Binomial *)
Lemma choose_loop_pos M j : (Z.of_nat j < M)%Z ->
  (0 < fst (choose_loop M j) /\ 0 < snd (choose_loop M j))%Z.
Proof.
  induction j as [|j IH]; intro H; [cbn; lia|].
  cbn [choose_loop]. destruct (choose_loop M j) as [a b]. cbn [fst snd] in *.
  destruct IH as [Ha Hb]; [lia|]. split; apply Z.mul_pos_pos; lia.
Qed.

Lemma choose_nonneg n k : (0 <= choose n k)%Z.
Proof.
  unfold choose. brk; try lia.
  pose proof (choose_loop_pos (n + 1) (Z.to_nat (Z.min k (n - k))) ltac:(lia)) as [Ha Hb].
  destruct (choose_loop (n + 1) (Z.to_nat (Z.min k (n - k)))) as [a b]. cbn [fst snd] in *.
  apply Z.div_pos; lia.
Qed.

Lemma binomial_law n p : 0 <= p -> p <= 1 -> discrete_law (binomial_pmf n p) (binomial_cdf n p) 0.
Proof.
  intros H0 H1. split; [|split].
  - intro k. unfold binomial_pmf. brk; try lra. rewrite Qred_correct.
    repeat apply Qmult_le_0_compat.
    + apply iZ_nonneg, choose_nonneg.
    + apply Qpower_0_le; lra.
    + apply Qpower_0_le; lra.
  - intros k Hk. unfold binomial_pmf. brk; try lia; reflexivity.
  - intro t. reflexivity.
Qed.

(* ------------------------------------------------------------------------- *)
(* Uniform: uniform_cdf is the cdf of the uniform law on [lo,hi] *)
Lemma uniform_cdf_below lo hi x : x < lo -> uniform_cdf lo hi x == 0.
Proof. intro H. unfold uniform_cdf. brk; try reflexivity; lra. Qed.
Lemma uniform_cdf_above lo hi x : lo <= hi -> hi <= x -> uniform_cdf lo hi x == 1.
Proof. intros H1 H2. unfold uniform_cdf. brk; try reflexivity; lra. Qed.
Lemma uniform_cdf_between lo hi x : lo <= x -> x < hi -> uniform_cdf lo hi x == (x - lo) / (hi - lo).
Proof. intros H1 H2. unfold uniform_cdf. brk; try reflexivity; lra. Qed.

(* the normalised length of (-inf, x] ∩ [lo, hi] *)
Lemma uniform_cdf_clamp lo hi x : lo < hi ->
  uniform_cdf lo hi x == (Qmin (Qmax x lo) hi - lo) / (hi - lo).
Proof.
  intro H. unfold uniform_cdf. brk.
  - rewrite Q.max_r by lra. rewrite Q.min_l by lra. field. lra.
  - rewrite Q.max_l by lra. rewrite Q.min_r by lra. field. lra.
  - rewrite Q.max_l by lra. rewrite Q.min_l by lra. reflexivity.
Qed.

Lemma uniform_cdf_range lo hi x : lo <= hi -> 0 <= uniform_cdf lo hi x <= 1.
Proof.
  intro H. unfold uniform_cdf. brk; try lra. split.
  - apply Qle_shift_div_l; lra.
  - apply Qle_shift_div_r; lra.
Qed.

Lemma uniform_cdf_mono lo hi x y : lo <= hi -> x <= y -> uniform_cdf lo hi x <= uniform_cdf lo hi y.
Proof.
  intros H Hxy. pose proof (uniform_cdf_range lo hi y H) as Ry.
  pose proof (uniform_cdf_range lo hi x H) as Rx.
  unfold uniform_cdf in *. brk; try lra.
  unfold Qdiv. apply Qmult_le_compat_r; [lra|]. apply Qinv_le_0_compat. lra.
Qed.

(* ------------------------------------------------------------------------- *)
(* Exponential and Gaussian relative to abstract monotone functions *)
Section Exponential.
  Variable en : Q -> Q.                      (* x |-> exp(-x) *)
  Hypothesis en_range : forall x, 0 <= x -> 0 <= en x <= 1.
  Hypothesis en_anti : forall x y, x <= y -> en y <= en x.
  Variable lam : Q.
  Hypothesis lam_pos : 0 < lam.

  Lemma exponential_cdf_range x : 0 <= exponential_cdf en lam x <= 1.
  Proof.
    unfold exponential_cdf. brk; [lra|].
    assert (0 <= lam * x) by (apply Qmult_le_0_compat; lra).
    pose proof (en_range _ H). lra.
  Qed.

  Lemma exponential_cdf_mono x y : x <= y -> exponential_cdf en lam x <= exponential_cdf en lam y.
  Proof.
    intro Hxy. pose proof (exponential_cdf_range y) as Ry. unfold exponential_cdf in *. brk; try lra.
    assert (lam * x <= lam * y) by nra. pose proof (en_anti _ _ H). lra.
  Qed.

  Lemma exponential_cdf_neg x : x < 0 -> exponential_cdf en lam x == 0.
  Proof. intro H. unfold exponential_cdf. brk; try reflexivity; lra. Qed.
End Exponential.

Section Gaussian.
  Variable ef : Q -> Q.                      (* z |-> erf(z / sqrt 2) *)
  Hypothesis ef_range : forall z, -(1) <= ef z <= 1.
  Hypothesis ef_mono : forall x y, x <= y -> ef x <= ef y.
  Variables mu sd : Q.
  Hypothesis sd_pos : 0 < sd.

  Lemma gaussian_cdf_range x : 0 <= gaussian_cdf ef mu sd x <= 1.
  Proof. unfold gaussian_cdf. pose proof (ef_range ((x - mu) / sd)). lra. Qed.

  Lemma gaussian_cdf_mono x y : x <= y -> gaussian_cdf ef mu sd x <= gaussian_cdf ef mu sd y.
  Proof.
    intro Hxy. unfold gaussian_cdf.
    assert ((x - mu) / sd <= (y - mu) / sd).
    { unfold Qdiv. apply Qmult_le_compat_r; [lra|]. apply Qinv_le_0_compat. lra. }
    pose proof (ef_mono _ _ H). lra.
  Qed.
End Gaussian.

(* ------------------------------------------------------------------------- *)
(* Means *)
Lemma mean_binomial n p : valid_params (Binomial n p) -> mean_of (Binomial n p) = Ok (inject_Z n * p).
Proof. intro V. unfold mean_of. now rewrite make_rv_valid. Qed.
Lemma mean_poisson mu : valid_params (Poisson mu) -> mean_of (Poisson mu) = Ok mu.
Proof. intro V. unfold mean_of. now rewrite make_rv_valid. Qed.
Lemma mean_geometric p : valid_params (Geometric p) -> ~ p == 0 -> mean_of (Geometric p) = Ok (1 / p).
Proof.
  intros V Hp. unfold mean_of. rewrite make_rv_valid by assumption. cbn [bind mean].
  destruct (Qis_zero p) eqn:E; [|reflexivity]. apply Qis_zero_spec in E. contradiction.
Qed.
(* Geometric(0) passes the constructor; its mean 1/0 is a (diagnosed) division by zero *)
Lemma mean_geometric_zero p : p == 0 -> mean_of (Geometric p) = Raise ZeroDivisionError.
Proof.
  intro Hp. unfold mean_of. rewrite make_rv_valid by (cbn; lra). cbn [bind mean].
  apply Qis_zero_spec in Hp. now rewrite Hp.
Qed.
Lemma mean_bernoulli p : valid_params (Bernoulli p) -> mean_of (Bernoulli p) = Ok p.
Proof. intro V. unfold mean_of. now rewrite make_rv_valid. Qed.
Lemma bernoulli_mean_is_expectation p :
  sumZ (fun k => inject_Z k * bernoulli_pmf p k) 0 1 == p.
Proof.
  rewrite sumZ_last by lia. replace (1 - 1)%Z with 0%Z by lia. rewrite sumZ_one.
  change (bernoulli_pmf p 0) with (1 - p). change (bernoulli_pmf p 1) with p.
  change (inject_Z 0) with 0. change (inject_Z 1) with 1. ring.
Qed.
Lemma mean_exponential lam : valid_params (Exponential lam) -> mean_of (Exponential lam) = Ok (1 / lam).
Proof.
  intro V. unfold mean_of. rewrite make_rv_valid by assumption. cbn [bind mean].
  destruct (Qis_zero lam) eqn:E; [|reflexivity]. apply Qis_zero_spec in E. cbn in V. lra.
Qed.
Lemma mean_uniform lo hi : valid_params (Uniform lo hi) ->
  exists m, mean_of (Uniform lo hi) = Ok m /\ m == (lo + hi) / 2.
Proof.
  intro V. unfold mean_of. rewrite make_rv_valid by assumption. cbn [bind mean].
  eexists; split; [reflexivity|]. field.
Qed.
Lemma mean_gaussian mu sd : valid_params (Gaussian mu sd) -> mean_of (Gaussian mu sd) = Ok mu.
Proof. intro V. unfold mean_of. now rewrite make_rv_valid. Qed.

(* ------------------------------------------------------------------------- *)
(* Binomial: choose() is the binomial coefficient; binomial theorem; total mass 1 *)

Fixpoint binom (n k : nat) : Z :=
  match n, k with
  | _, O => 1
  | O, S _ => 0
  | S n', S k' => binom n' k' + binom n' (S k')
  end%Z.

Lemma binom_gt n : forall k, (n < k)%nat -> binom n k = 0%Z.
Proof.
  induction n as [|n IH]; intros [|k] H; try lia; cbn [binom]; [reflexivity|].
  rewrite !IH by lia. reflexivity.
Qed.

Lemma fact_loop_S m : fact_loop (S m) = (fact_loop m * Z.of_nat (S m))%Z.
Proof. reflexivity. Qed.

Lemma binom_fact n : forall k, (k <= n)%nat ->
  (binom n k * fact_loop k * fact_loop (n - k) = fact_loop n)%Z.
Proof.
  induction n as [|n IH]; intros [|k] H; try lia.
  - reflexivity.
  - cbn [binom]. rewrite Nat.sub_0_r. cbn [fact_loop]. lia.
  - cbn [binom]. replace (S n - S k)%nat with (n - k)%nat by lia.
    destruct (Nat.eq_dec k n) as [->|Hk].
    + rewrite (binom_gt n (S n)) by lia. pose proof (IH n (Nat.le_refl n)) as E.
      rewrite Nat.sub_diag in *. rewrite !fact_loop_S. cbn [fact_loop] in *. nia.
    + pose proof (IH k ltac:(lia)) as E1. pose proof (IH (S k) ltac:(lia)) as E2.
      replace (n - k)%nat with (S (n - S k)) in * by lia.
      rewrite !fact_loop_S in *.
      replace (Z.of_nat (S (n - S k))) with (Z.of_nat n - Z.of_nat k)%Z in * by lia.
      set (a := binom n k) in *. set (b := binom n (S k)) in *.
      set (fk := fact_loop k) in *. set (fr := fact_loop (n - S k)) in *. set (fn := fact_loop n) in *.
      replace (Z.of_nat (S k)) with (Z.of_nat k + 1)%Z in * by lia.
      replace (Z.of_nat (S n)) with (Z.of_nat n + 1)%Z by lia.
      transitivity ((a * fk * (fr * (Z.of_nat n - Z.of_nat k))) * (Z.of_nat k + 1)
                    + (b * (fk * (Z.of_nat k + 1)) * fr) * (Z.of_nat n - Z.of_nat k))%Z; [ring|].
      rewrite E1, E2. ring.
Qed.

Lemma binom_sym n k : (k <= n)%nat -> binom n k = binom n (n - k).
Proof.
  intro H. pose proof (binom_fact n k H) as E1. pose proof (binom_fact n (n - k) ltac:(lia)) as E2.
  replace (n - (n - k))%nat with k in E2 by lia.
  pose proof (fact_loop_pos k). pose proof (fact_loop_pos (n - k)).
  assert (E : (binom n k * (fact_loop k * fact_loop (n - k))
               = binom n (n - k) * (fact_loop k * fact_loop (n - k)))%Z) by lia.
  apply Z.mul_cancel_r in E; [exact E|]. nia.
Qed.

Lemma choose_loop_snd M j : snd (choose_loop M j) = fact_loop j.
Proof.
  induction j as [|j IH]; [reflexivity|]. cbn [choose_loop].
  destruct (choose_loop M j) as [a b]. cbn [fst snd] in *. rewrite fact_loop_S, IH. reflexivity.
Qed.

Lemma choose_loop_fst n j : (j <= n)%nat ->
  (fst (choose_loop (Z.of_nat n + 1) j) * fact_loop (n - j) = fact_loop n)%Z.
Proof.
  induction j as [|j IH]; intro H.
  - cbn [choose_loop fst]. rewrite Nat.sub_0_r. lia.
  - cbn [choose_loop]. destruct (choose_loop (Z.of_nat n + 1) j) as [a b]. cbn [fst snd] in *.
    specialize (IH ltac:(lia)). replace (n - j)%nat with (S (n - S j)) in IH by lia.
    rewrite fact_loop_S in IH.
    replace (Z.of_nat (S (n - S j))) with (Z.of_nat n + 1 - Z.of_nat (S j))%Z in IH by lia.
    rewrite <- IH. ring.
Qed.

Lemma choose_binom n k : (0 <= k <= n)%Z -> choose n k = binom (Z.to_nat n) (Z.to_nat k).
Proof.
  intro H. unfold choose. brk; try lia.
  set (m := Z.to_nat (Z.min k (n - k))).
  assert (Hm : (m <= Z.to_nat n)%nat) by lia.
  replace (n + 1)%Z with (Z.of_nat (Z.to_nat n) + 1)%Z by lia.
  pose proof (choose_loop_fst (Z.to_nat n) m Hm) as Ef.
  pose proof (choose_loop_snd (Z.of_nat (Z.to_nat n) + 1) m) as Es.
  destruct (choose_loop (Z.of_nat (Z.to_nat n) + 1) m) as [a b]. cbn [fst snd] in *. subst b.
  pose proof (binom_fact (Z.to_nat n) m Hm) as Eb.
  pose proof (fact_loop_pos m). pose proof (fact_loop_pos (Z.to_nat n - m)).
  assert (Ea : a = (binom (Z.to_nat n) m * fact_loop m)%Z).
  { apply (Z.mul_cancel_r _ _ (fact_loop (Z.to_nat n - m))); [lia|]. lia. }
  rewrite Ea, Z.div_mul by lia.
  destruct (Z.le_ge_cases k (n - k)) as [Hc|Hc].
  - unfold m. now replace (Z.min k (n - k)) with k by lia.
  - unfold m. replace (Z.min k (n - k)) with (n - k)%Z by lia.
    rewrite (binom_sym (Z.to_nat n) (Z.to_nat k)) by lia. f_equal. lia.
Qed.


Lemma sum_n_plus f g lo n : sum_n (fun k => f k + g k) lo n == sum_n f lo n + sum_n g lo n.
Proof. induction n as [|n IH]; [cbn; ring|]. rewrite !sum_n_S, IH. ring. Qed.

Lemma sum_n_first f lo n : sum_n f lo (S n) == f lo + sum_n f (lo + 1) n.
Proof.
  change (S n) with (1 + n)%nat. rewrite sum_n_app. rewrite sum_n_S. cbn [sum_n].
  replace (lo + Z.of_nat 0)%Z with lo by lia. replace (lo + Z.of_nat 1)%Z with (lo + 1)%Z by lia. ring.
Qed.

Lemma sum_n_shift f lo n : sum_n f (lo + 1) n == sum_n (fun k => f (k + 1)%Z) lo n.
Proof.
  induction n as [|n IH]; [reflexivity|]. rewrite !sum_n_S, IH.
  replace (lo + 1 + Z.of_nat n)%Z with (lo + Z.of_nat n + 1)%Z by lia. reflexivity.
Qed.

Section BinomialTheorem.
  Variables p q : Q.
  Definition bterm (n : nat) (k : Z) : Q :=
    inject_Z (binom n (Z.to_nat k)) * p ^ k * q ^ (Z.of_nat n - k).

  Lemma bterm_step n j : (0 <= j <= Z.of_nat n)%Z ->
    bterm (S n) (j + 1) == p * bterm n j + q * bterm n (j + 1).
  Proof.
    intro H. unfold bterm.
    replace (Z.to_nat (j + 1)) with (S (Z.to_nat j)) by lia. cbn [binom].
    rewrite inject_Z_plus. rewrite Qpower_succ by lia.
    replace (Z.of_nat (S n) - (j + 1))%Z with (Z.of_nat n - j)%Z by lia.
    destruct (Z.eq_dec j (Z.of_nat n)) as [->|Hj].
    - rewrite (binom_gt n (S (Z.to_nat (Z.of_nat n)))) by lia. change (inject_Z 0) with 0. ring.
    - replace (Z.of_nat n - j)%Z with ((Z.of_nat n - (j + 1)) + 1)%Z by lia.
      rewrite Qpower_succ by lia. ring.
  Qed.

  Lemma bterm_zero n : bterm (S n) 0 == q * bterm n 0.
  Proof.
    unfold bterm. cbn [Z.to_nat binom]. rewrite !Z.sub_0_r.
    rewrite Nat2Z.inj_succ. unfold Z.succ. rewrite Qpower_succ by lia.
    destruct n; cbn [binom]; ring.
  Qed.

  Lemma bterm_beyond n : bterm n (Z.of_nat n + 1) == 0.
  Proof. unfold bterm. rewrite binom_gt by lia. change (inject_Z 0) with 0. ring. Qed.

  Theorem binomial_theorem n : sum_n (bterm n) 0 (S n) == (p + q) ^ Z.of_nat n.
  Proof.
    induction n as [|n IH].
    - rewrite sum_n_S. cbn [sum_n]. unfold bterm. cbn. ring.
    - rewrite sum_n_first, sum_n_shift, bterm_zero.
      rewrite (sum_n_ext _ (fun k => bterm n k * p + bterm n (k + 1) * q)).
      2:{ intros i Hi. rewrite bterm_step by lia. ring. }
      rewrite sum_n_plus, !sum_n_scale.
      rewrite <- (sum_n_shift (bterm n) 0 (S n)).
      assert (E : bterm n 0 + sum_n (bterm n) (0 + 1) (S n) == sum_n (bterm n) 0 (S n)).
      { rewrite <- sum_n_first. rewrite sum_n_S. replace (0 + Z.of_nat (S n))%Z with (Z.of_nat n + 1)%Z by lia.
        rewrite bterm_beyond. ring. }
      rewrite Nat2Z.inj_succ. unfold Z.succ. rewrite Qpower_succ by lia. rewrite <- IH.
      rewrite <- E at 2. ring_simplify. rewrite <- E. ring.
  Qed.
End BinomialTheorem.


Lemma binomial_pmf_bterm n p k : (0 <= k <= n)%Z ->
  binomial_pmf n p k == bterm p (1 - p) (Z.to_nat n) k.
Proof.
  intro H. unfold binomial_pmf, bterm. brk; try lia. rewrite Qred_correct.
  rewrite choose_binom by lia. replace (Z.of_nat (Z.to_nat n)) with n by lia. reflexivity.
Qed.

(* Σ_{k=0..n} C(n,k) p^k (1-p)^(n-k) = 1 *)
Theorem binomial_total_mass n p : (0 <= n)%Z -> sumZ (binomial_pmf n p) 0 n == 1.
Proof.
  intro Hn. unfold sumZ. replace (Z.to_nat (n + 1 - 0)) with (S (Z.to_nat n)) by lia.
  rewrite (sum_n_ext _ (bterm p (1 - p) (Z.to_nat n))).
  - rewrite binomial_theorem. setoid_replace (p + (1 - p)) with 1 by ring. apply Qpower_1.
  - intros i Hi. apply binomial_pmf_bterm. lia.
Qed.

Lemma binomial_cdf_top n p t : (0 <= n <= t)%Z -> binomial_cdf n p t == 1.
Proof.
  intro H. unfold binomial_cdf. rewrite (sumZ_split _ 0 n t) by lia.
  rewrite binomial_total_mass by lia. rewrite sumZ_zero; [ring|].
  intros k Hk. unfold binomial_pmf. brk; try lia; reflexivity.
Qed.

Lemma binomial_good n p : (0 < n)%Z -> 0 <= p -> p <= 1 ->
  good_rv (Disc (binomial_pmf n p) (binomial_cdf n p)).
Proof.
  intros Hn H0 H1. destruct (binomial_law n p H0 H1) as [Hnn [Hb Hs]].
  assert (Hc : forall k, 0 <= binomial_cdf n p k <= 1).
  { intro k. split; [eapply cdf_nonneg; eauto|].
    rewrite <- (binomial_cdf_top n p (Z.max k n)) by lia.
    eapply cdf_mono; eauto. lia. }
  split; [|exact Hc]. intro k. split; [apply Hnn|].
  eapply Qle_trans; [eapply pmf_le_cdf; eauto|apply Hc].
Qed.

(* ------------------------------------------------------------------------- *)
(* Statements collected for Properties/C08.v *)
Lemma good_laws :
  (forall n p, (0 < n)%Z -> 0 <= p -> p <= 1 -> good_rv (Disc (binomial_pmf n p) (binomial_cdf n p))) /\
  (forall p, 0 <= p -> p <= 1 -> good_rv (Disc (bernoulli_pmf p) (bernoulli_cdf p))) /\
  (forall p, 0 <= p -> p <= 1 -> good_rv (Disc (geometric_pmf p) (geometric_cdf p))) /\
  (forall lo hi, (lo <= hi)%Z -> good_rv (Disc (uniformint_pmf lo hi) (uniformint_cdf lo hi))) /\
  (forall lo hi, lo <= hi -> good_rv (Cont (uniform_cdf lo hi))).
Proof.
  exact (conj binomial_good (conj bernoulli_good (conj geometric_good (conj uniformint_good
          (fun lo hi H x => uniform_cdf_range lo hi x H))))).
Qed.

Lemma uniform_cdf_true :
  (forall lo hi x, lo < hi -> uniform_cdf lo hi x == (Qmin (Qmax x lo) hi - lo) / (hi - lo)) /\
  (forall lo hi x, x < lo -> uniform_cdf lo hi x == 0) /\
  (forall lo hi x, lo <= hi -> hi <= x -> uniform_cdf lo hi x == 1) /\
  (forall lo hi x y, lo <= hi -> x <= y -> uniform_cdf lo hi x <= uniform_cdf lo hi y).
Proof. exact (conj uniform_cdf_clamp (conj uniform_cdf_below (conj uniform_cdf_above uniform_cdf_mono))). Qed.

Lemma exponential_cdf_facts en lam :
  (forall x, 0 <= x -> 0 <= en x <= 1) -> (forall x y, x <= y -> en y <= en x) -> 0 < lam ->
  (forall x, 0 <= exponential_cdf en lam x <= 1) /\
  (forall x y, x <= y -> exponential_cdf en lam x <= exponential_cdf en lam y) /\
  (forall x, x < 0 -> exponential_cdf en lam x == 0).
Proof.
  intros H1 H2 H3.
  exact (conj (exponential_cdf_range en H1 lam H3)
         (conj (exponential_cdf_mono en H1 H2 lam H3) (exponential_cdf_neg en lam))).
Qed.

Lemma gaussian_cdf_facts ef mu sd :
  (forall z, -(1) <= ef z <= 1) -> (forall x y, x <= y -> ef x <= ef y) -> 0 < sd ->
  (forall x, 0 <= gaussian_cdf ef mu sd x <= 1) /\
  (forall x y, x <= y -> gaussian_cdf ef mu sd x <= gaussian_cdf ef mu sd y).
Proof.
  intros H1 H2 H3.
  exact (conj (gaussian_cdf_range ef H1 mu sd) (gaussian_cdf_mono ef H2 mu sd H3)).
Qed.

Lemma means_closed_forms :
  (forall n p, valid_params (Binomial n p) -> mean_of (Binomial n p) = Ok (inject_Z n * p)) /\
  (forall mu, valid_params (Poisson mu) -> mean_of (Poisson mu) = Ok mu) /\
  (forall p, valid_params (Geometric p) -> ~ p == 0 -> mean_of (Geometric p) = Ok (1 / p)) /\
  (forall p, valid_params (Bernoulli p) ->
     mean_of (Bernoulli p) = Ok p /\ sumZ (fun k => inject_Z k * bernoulli_pmf p k) 0 1 == p) /\
  (forall lo hi, (lo <= hi)%Z ->
     exists m, mean_of (UniformInt lo hi) = Ok m /\ m == (inject_Z lo + inject_Z hi) / 2 /\
               m == sumZ (fun k => inject_Z k * uniformint_pmf lo hi k) lo hi) /\
  (forall lam, valid_params (Exponential lam) -> mean_of (Exponential lam) = Ok (1 / lam)) /\
  (forall lo hi, valid_params (Uniform lo hi) ->
     exists m, mean_of (Uniform lo hi) = Ok m /\ m == (lo + hi) / 2) /\
  (forall mu sd, valid_params (Gaussian mu sd) -> mean_of (Gaussian mu sd) = Ok mu).
Proof.
  exact (conj mean_binomial (conj mean_poisson (conj mean_geometric
        (conj (fun p V => conj (mean_bernoulli p V) (bernoulli_mean_is_expectation p))
        (conj uniformint_mean_is_expectation (conj mean_exponential (conj mean_uniform mean_gaussian))))))).
Qed.

Lemma invalid_params_rejected l :
  (valid_params l /\ make_rv l = Ok l) \/
  (~ valid_params l /\ make_rv l = Raise InvalidParameterException /\
   mean_of l = Raise InvalidParameterException /\
   forall fo mk, P_law fo l mk = Raise InvalidParameterException).
Proof.
  destruct (make_rv_cases l) as [[V E]|[V E]]; [left; auto|right].
  repeat split; auto using invalid_rejected_mean, invalid_rejected_P.
Qed.

(* the concrete classes are instances of the generic discrete law *)
Lemma P_law_valid fo l mk : valid_params l -> P_law fo l mk = P_written (mk (rv_of fo l)).
Proof. intro V. unfold P_law. now rewrite make_rv_valid. Qed.

Lemma discrete_laws_instantiate fo l : valid_params l ->
  (forall mu, l = Poisson mu -> 0 <= expneg fo mu) ->
  match rv_of fo l with
  | Disc pmf cdf => exists L, discrete_law pmf cdf L
  | Cont _ => True
  end.
Proof.
  intros V He. destruct l; cbn [rv_of valid_params] in *; try exact I.
  - exists 0%Z. apply binomial_law; tauto.
  - exists 0%Z. apply poisson_law; [lra|]. now apply He.
  - exists 1%Z. apply geometric_law; tauto.
  - exists 0%Z. apply bernoulli_law; tauto.
  - exists lo. now apply uniformint_law.
Qed.
