(* CalendarProofs.v — the civil <-> day-number conversions are mutually inverse for EVERY
   year in Z (hence for 1..9999), and the years 1..9999 are exactly the day numbers
   [0, MAX_DAYS).

   Method: both conversions split a day number into (era, day-of-era) and a date into
   (era, year-of-era, month, day) with era = floor division by 146097 resp. 400.  Inside one
   era (146097 days; 400 shifted years x 12 x 31 candidate dates) the two era-local functions
   are checked against each other by computation in the kernel VM over an iterated counter
   ([all_from], no list is built) and lifted to all eras by linear arithmetic. *)
From Coq Require Import ZArith Lia Bool.
From Ka Require Import Model.Calendar.
Local Open Scope Z_scope.
Ltac Zify.zify_post_hook ::= Z.to_euclidean_division_equations.

(* boolean comparisons in hypotheses -> propositions *)
Ltac zb := repeat match goal with
  | H : (_ =? _) = true |- _ => apply Z.eqb_eq in H
  | H : (_ =? _) = false |- _ => apply Z.eqb_neq in H
  | H : (_ <=? _) = true |- _ => apply Z.leb_le in H
  | H : (_ <=? _) = false |- _ => apply Z.leb_gt in H
  | H : (_ <? _) = true |- _ => apply Z.ltb_lt in H
  | H : (_ <? _) = false |- _ => apply Z.ltb_ge in H
  end.

(* ---- soundness of the counter ------------------------------------------------------------- *)
Lemma all_from_sound n : forall z f, all_from n z f = true ->
  forall k, z <= k < z + Z.of_nat n -> f k = true.
Proof.
  induction n as [|n IH]; intros z f H k Hk.
  - lia.
  - cbn [all_from] in H. apply andb_true_iff in H as [H1 H2].
    destruct (Z.eq_dec k z) as [->|Hne]; [exact H1|].
    apply (IH (z + 1) f H2). lia.
Qed.

Lemma all_below_sound n f : all_below n f = true ->
  forall k, 0 <= k < Z.of_nat n -> f k = true.
Proof. intros H k Hk. apply (all_from_sound n 0 f H). lia. Qed.

Lemma all_below_Z_sound z f : 0 <= z -> all_below (Z.to_nat z) f = true ->
  forall k, 0 <= k < z -> f k = true.
Proof.
  intros Hz H k Hk. apply (all_below_sound _ _ H). rewrite Z2Nat.id by exact Hz. exact Hk.
Qed.

(* ---- the two finite checks (one era) ---------------------------------------------------------
   (stated on the unfolded forms so that later uses match syntactically and the kernel never
   has to unroll the counter during conversion) *)
Lemma era_check_days_true : all_below (Z.to_nat DAYS_PER_ERA) day_ok = true.
Proof. vm_cast_no_check (eq_refl true). Qed.
Lemma era_check_dates_true :
  all_below 400 (fun yoe => all_below 12 (fun m0 => all_below 31 (fun d0 =>
    date_ok yoe (m0 + 1) (d0 + 1)))) = true.
Proof. vm_cast_no_check (eq_refl true). Qed.

Lemma DAYS_PER_ERA_nonneg : 0 <= DAYS_PER_ERA.
Proof. unfold DAYS_PER_ERA. lia. Qed.

Lemma civil_of_doe_spec doe : 0 <= doe < DAYS_PER_ERA ->
  forall yoe m d, civil_of_doe doe = (yoe, m, d) ->
  0 <= yoe < 400 /\ valid_in_era yoe m d = true /\ doe_of yoe m d = doe.
Proof.
  intros Hd yoe m d E.
  pose proof (all_below_Z_sound DAYS_PER_ERA day_ok DAYS_PER_ERA_nonneg
                era_check_days_true doe Hd) as H.
  unfold day_ok in H. rewrite E in H.
  repeat (apply andb_true_iff in H; destruct H as [H ?]).
  repeat split; try lia. assumption.
Qed.

Lemma doe_of_spec yoe m d : 0 <= yoe < 400 -> valid_in_era yoe m d = true ->
  0 <= doe_of yoe m d < DAYS_PER_ERA /\ civil_of_doe (doe_of yoe m d) = (yoe, m, d).
Proof.
  intros Hy Hv.
  assert (Hm : 1 <= m <= 12 /\ 1 <= d <= 31).
  { unfold valid_in_era, valid_date in Hv.
    repeat (apply andb_true_iff in Hv; destruct Hv as [Hv ?]).
    assert (days_in_month (yoe + shift m) m <= 31).
    { unfold days_in_month. repeat match goal with |- context [if ?b then _ else _] => destruct b end; lia. }
    lia. }
  pose proof (all_below_sound 400 _ era_check_dates_true yoe ltac:(lia)) as H1. cbv beta in H1.
  pose proof (all_below_sound 12 _ H1 (m - 1) ltac:(lia)) as H2. cbv beta in H2.
  pose proof (all_below_sound 31 _ H2 (d - 1) ltac:(lia)) as H3. cbv beta in H3.
  replace (m - 1 + 1) with m in H3 by lia. replace (d - 1 + 1) with d in H3 by lia.
  unfold date_ok in H3. rewrite Hv in H3. cbv zeta in H3.
  destruct (civil_of_doe (doe_of yoe m d)) as [[y' m'] d'].
  repeat (apply andb_true_iff in H3; destruct H3 as [H3 ?]).
  split; [lia|]. f_equal; [f_equal|]; lia.
Qed.

(* ---- leap years are 400-periodic ------------------------------------------------------------- *)
Lemma is_leap_period y k : is_leap (y + k * 400) = is_leap y.
Proof.
  unfold is_leap.
  replace ((y + k * 400) mod 4) with (y mod 4) by lia.
  replace ((y + k * 400) mod 100) with (y mod 100) by lia.
  replace ((y + k * 400) mod 400) with (y mod 400) by lia.
  reflexivity.
Qed.

Lemma valid_date_period y k m d : valid_date (y + k * 400) m d = valid_date y m d.
Proof. unfold valid_date, days_in_month. rewrite is_leap_period. reflexivity. Qed.

(* ---- round trips, all of Z ---------------------------------------------------------------------- *)
Theorem civil_from_days_from_civil y m d : valid_date y m d = true ->
  civil_from_days (days_from_civil y m d) = (y, m, d).
Proof.
  intro Hv. unfold days_from_civil, civil_from_days.
  set (y' := y - shift m). set (era := y' / 400). set (yoe := y' - era * 400).
  assert (Hy : 0 <= yoe < 400) by (subst yoe era; lia).
  assert (Hve : valid_in_era yoe m d = true).
  { unfold valid_in_era. replace y with (yoe + shift m + era * 400) in Hv by (subst yoe y'; lia).
    rewrite valid_date_period in Hv. exact Hv. }
  destruct (doe_of_spec yoe m d Hy Hve) as [Hr Hc].
  set (doe := doe_of yoe m d) in *.
  replace (era * DAYS_PER_ERA + doe - 306 + 306) with (era * DAYS_PER_ERA + doe) by lia.
  assert (He : (era * DAYS_PER_ERA + doe) / DAYS_PER_ERA = era).
  { unfold DAYS_PER_ERA in *. lia. }
  rewrite He.
  replace (era * DAYS_PER_ERA + doe - era * DAYS_PER_ERA) with doe by lia.
  rewrite Hc. replace (yoe + era * 400 + shift m) with y by (subst yoe y'; lia). reflexivity.
Qed.

Theorem days_from_civil_from_days n :
  let '(y, m, d) := civil_from_days n in
  valid_date y m d = true /\ days_from_civil y m d = n.
Proof.
  unfold civil_from_days.
  set (z := n + 306). set (era := z / DAYS_PER_ERA). set (doe := z - era * DAYS_PER_ERA).
  assert (Hd : 0 <= doe < DAYS_PER_ERA) by (subst doe era; unfold DAYS_PER_ERA; lia).
  destruct (civil_of_doe doe) as [[yoe m] d] eqn:E.
  destruct (civil_of_doe_spec doe Hd yoe m d E) as (Hy & Hv & Hdoe).
  split.
  - unfold valid_in_era in Hv. rewrite <- (valid_date_period _ era) in Hv.
    replace (yoe + era * 400 + shift m) with (yoe + shift m + era * 400) by lia. exact Hv.
  - unfold days_from_civil.
    replace (yoe + era * 400 + shift m - shift m) with (yoe + era * 400) by lia.
    assert (He : (yoe + era * 400) / 400 = era) by lia. rewrite He.
    replace (yoe + era * 400 - era * 400) with yoe by lia.
    rewrite Hdoe. subst doe z. lia.
Qed.

(* ---- closed form and the range of years 1..9999 --------------------------------------------------- *)
Lemma days_from_civil_closed y m d :
  days_from_civil y m d = days_before_year_end (y - shift m) + doy_of m d - 306.
Proof.
  unfold days_from_civil, days_before_year_end, doe_of, DAYS_PER_ERA.
  set (y' := y - shift m). generalize (doy_of m d). intro k. lia.
Qed.

Lemma doy_bounds m d : 1 <= m <= 12 -> 1 <= d <= 31 ->
  (m <= 2 -> 306 <= doy_of m d <= 367) /\ (3 <= m -> 0 <= doy_of m d <= 305 + 31).
Proof. intros Hm Hd. unfold doy_of. lia. Qed.

Lemma valid_date_bounds y m d : valid_date y m d = true ->
  1 <= m <= 12 /\ 1 <= d <= days_in_month y m /\ days_in_month y m <= 31.
Proof.
  unfold valid_date. intro Hv.
  repeat (apply andb_true_iff in Hv; destruct Hv as [Hv ?]).
  assert (days_in_month y m <= 31).
  { unfold days_in_month. repeat match goal with |- context [if ?b then _ else _] => destruct b end; lia. }
  lia.
Qed.


(* every date of year y lies between the ends of years y-1 and y *)
Lemma days_from_civil_year_bounds y m d : valid_date y m d = true ->
  days_before_year_end (y - 1) <= days_from_civil y m d < days_before_year_end y.
Proof.
  intro Hv. destruct (valid_date_bounds y m d Hv) as (Hm & Hd & Hdim).
  rewrite days_from_civil_closed. unfold shift, days_before_year_end, doy_of.
  destruct (m =? 2) eqn:E2.
  - zb. subst m. unfold days_in_month, is_leap in Hd.
    change (2 =? 2) with true in Hd. change (2 <=? 2) with true. cbv iota in *.
    destruct (y mod 4 =? 0) eqn:L4; destruct (y mod 100 =? 0) eqn:L100;
      destruct (y mod 400 =? 0) eqn:L400; cbn [andb orb negb] in Hd; zb; lia.
  - zb. destruct (m <=? 2) eqn:E; zb.
    + assert (m = 1) by lia. subst m. lia.
    + lia.
Qed.

Lemma days_before_year_end_mono a b : a <= b -> days_before_year_end a <= days_before_year_end b.
Proof. unfold days_before_year_end. lia. Qed.

Theorem year_range_iff y m d : valid_date y m d = true ->
  (valid_year y = true <-> 0 <= days_from_civil y m d < MAX_DAYS).
Proof.
  intro Hv. pose proof (days_from_civil_year_bounds y m d Hv) as Hb.
  assert (E0 : days_before_year_end 0 = 0) by reflexivity.
  assert (E1 : days_before_year_end 9999 = MAX_DAYS) by reflexivity.
  unfold valid_year, MINYEAR, MAXYEAR. rewrite andb_true_iff, !Z.leb_le. split.
  - intros [H1 H2].
    pose proof (days_before_year_end_mono 0 (y - 1) ltac:(lia)).
    pose proof (days_before_year_end_mono y 9999 ltac:(lia)). lia.
  - intros [H1 H2]. split.
    + destruct (Z_lt_le_dec y 1) as [Hlt|]; [|assumption].
      pose proof (days_before_year_end_mono y 0 ltac:(lia)). lia.
    + destruct (Z_lt_le_dec 9999 y) as [Hlt|]; [|assumption].
      pose proof (days_before_year_end_mono 9999 (y - 1) ltac:(lia)). lia.
Qed.

(* a day number in [0, MAX_DAYS) is a date of a year in 1..9999 *)
Corollary civil_from_days_in_range n : 0 <= n < MAX_DAYS ->
  let '(y, m, d) := civil_from_days n in
  valid_year y = true /\ valid_date y m d = true /\ days_from_civil y m d = n.
Proof.
  intro Hn. pose proof (days_from_civil_from_days n) as H.
  destruct (civil_from_days n) as [[y m] d]. destruct H as [Hv Hd].
  split; [|split; assumption]. apply (year_range_iff y m d Hv). lia.
Qed.
