(* LexerProofs.v — lemmas about Model/Lexer.v.  The theorems of Properties/C11.v are
   instances of the lemmas proved here.  Everything is for ALL input texts (lists of code
   points of any length); the character classes and the token table are Section variables
   constrained only by the hypotheses named below. *)
From Coq Require Import Lia NArith ZArith QArith Qpower List Bool Arith.
From Ka Require Import Model.Lexer.
Import ListNotations.
Local Open Scope nat_scope.
Local Open Scope list_scope.

(* ------------------------------------------------------------------ characters *)
Lemma Neqb_true : forall a b : N, (a =? b)%N = true -> a = b.
Proof. intros a b H; apply N.eqb_eq; exact H. Qed.
Lemma Neqb_false : forall a b : N, (a =? b)%N = false -> a <> b.
Proof. intros a b H; apply N.eqb_neq; exact H. Qed.

Ltac nb :=
  repeat match goal with
  | H : (_ && _)%bool = true |- _ => apply andb_true_iff in H; destruct H
  | H : (_ || _)%bool = false |- _ => apply orb_false_iff in H; destruct H
  | H : negb _ = true |- _ => apply negb_true_iff in H
  | H : negb _ = false |- _ => apply negb_false_iff in H
  | H : (_ =? _)%N = true |- _ => apply N.eqb_eq in H
  | H : (_ =? _)%N = false |- _ => apply N.eqb_neq in H
  | H : (_ <=? _)%N = true |- _ => apply N.leb_le in H
  | H : (_ <=? _)%N = false |- _ => apply N.leb_gt in H
  end.

Lemma digit_range : forall c, is_digit c = true <-> (48 <= c <= 57)%N.
Proof.
  intro c; unfold is_digit; rewrite andb_true_iff, !N.leb_le; tauto.
Qed.
Lemma digit_is_hex : forall c, is_digit c = true -> is_hex c = true.
Proof. intros c H; unfold is_hex; rewrite H; reflexivity. Qed.
Lemma digit_ident : forall c, is_digit c = true -> ident_char c = true.
Proof. intros c H; unfold ident_char; rewrite H; rewrite !orb_true_r; reflexivity. Qed.
Lemma letter_ident : forall c, is_letter c = true -> ident_char c = true.
Proof. intros c H; unfold ident_char; rewrite H; rewrite ?orb_true_r; reflexivity. Qed.
Lemma ident_start_char : forall c, ident_start c = true -> ident_char c = true.
Proof.
  intros c H; unfold ident_start in H; unfold ident_char.
  apply orb_true_iff in H; destruct H as [H|H]; rewrite H; rewrite ?orb_true_r; reflexivity.
Qed.
Lemma digit_not_dot : forall c, is_digit c = true -> c <> ch_dot.
Proof. intros c H; apply digit_range in H; unfold ch_dot; lia. Qed.
Lemma digit_not_e : forall c, is_digit c = true -> c <> ch_e.
Proof. intros c H; apply digit_range in H; unfold ch_e; lia. Qed.

(* ------------------------------------------------------------------ takew / dropw *)
Lemma takew_dropw : forall p r, takew p r ++ dropw p r = r.
Proof.
  intros p r; induction r as [|c t IH]; simpl; [reflexivity|].
  destruct (p c); simpl; [rewrite IH|]; reflexivity.
Qed.
Lemma takew_all : forall p r, forallb p (takew p r) = true.
Proof.
  intros p r; induction r as [|c t IH]; simpl; [reflexivity|].
  destruct (p c) eqn:E; simpl; [rewrite E, IH|]; reflexivity.
Qed.
Definition hd_fails (p : N -> bool) (r : text) : Prop :=
  match r with [] => True | c :: _ => p c = false end.
Lemma dropw_hd : forall p r, hd_fails p (dropw p r).
Proof.
  intros p r; induction r as [|c t IH]; simpl; [exact I|].
  destruct (p c) eqn:E; [exact IH|simpl; exact E].
Qed.
Lemma takew_len : forall p r, List.length (takew p r) <= List.length r.
Proof.
  intros p r; rewrite <- (takew_dropw p r) at 2; rewrite app_length; lia.
Qed.
Lemma dropw_skipn : forall p r, dropw p r = skipn (List.length (takew p r)) r.
Proof.
  intros p r; induction r as [|c t IH]; simpl; [reflexivity|].
  destruct (p c); simpl; [exact IH|reflexivity].
Qed.
Lemma takew_app_stop : forall p a b, forallb p a = true -> hd_fails p b ->
  takew p (a ++ b) = a /\ dropw p (a ++ b) = b.
Proof.
  intros p a b; induction a as [|c a IH]; simpl; intros Ha Hb.
  - destruct b as [|x b]; simpl; [split; reflexivity|]. simpl in Hb; rewrite Hb; split; reflexivity.
  - apply andb_true_iff in Ha; destruct Ha as [Hc Ha]; rewrite Hc.
    destruct (IH Ha Hb) as [E1 E2]; rewrite E1, E2; split; reflexivity.
Qed.
Lemma takew_nil_dropw : forall p r, takew p r = [] -> dropw p r = r.
Proof.
  intros p r; destruct r as [|c t]; simpl; [reflexivity|]. destruct (p c); [discriminate|reflexivity].
Qed.

(* insertion of a character that fails [p] at or after the end of the run leaves the run alone *)
Lemma takew_ins : forall p u b w x, p w = false ->
  List.length (takew p (u ++ b)) <= List.length u ->
  takew p (u ++ w :: x) = takew p (u ++ b)
  /\ dropw p (u ++ w :: x) = skipn (List.length (takew p (u ++ b))) u ++ w :: x
  /\ dropw p (u ++ b) = skipn (List.length (takew p (u ++ b))) u ++ b.
Proof.
  intros p u b w x Hw; induction u as [|c u IH]; simpl; intro Hl.
  - rewrite Hw. assert (E : takew p b = []) by (destruct (takew p b); [reflexivity|simpl in Hl; lia]).
    rewrite E; simpl. rewrite (takew_nil_dropw _ _ E). repeat split; reflexivity.
  - destruct (p c) eqn:Ec; simpl in *.
    + destruct IH as (E1 & E2 & E3); [lia|]. rewrite E1, E2, E3. repeat split; reflexivity.
    + repeat split; reflexivity.
Qed.

(* ------------------------------------------------------------------ starts_with, text_eqb *)
Lemma starts_with_app : forall t r, starts_with t r = true <-> exists y, r = t ++ y.
Proof.
  induction t as [|x t IH]; intro r; simpl.
  - split; [intros _; exists r; reflexivity|reflexivity].
  - destruct r as [|y r]; [split; [discriminate|intros [z Hz]; discriminate]|].
    rewrite andb_true_iff, N.eqb_eq, IH. split.
    + intros [-> [z ->]]; exists z; reflexivity.
    + intros [z Hz]; injection Hz as -> ->; split; [reflexivity|exists z; reflexivity].
Qed.
Lemma starts_with_firstn : forall t r, starts_with t r = true -> firstn (List.length t) r = t.
Proof.
  intros t r H; apply starts_with_app in H; destruct H as [y ->].
  rewrite firstn_app, Nat.sub_diag, firstn_all; simpl; apply app_nil_r.
Qed.
Lemma starts_with_len : forall t r, starts_with t r = true -> List.length t <= List.length r.
Proof. intros t r H; apply starts_with_app in H; destruct H as [y ->]; rewrite app_length; lia. Qed.
Lemma text_eqb_eq : forall a b, text_eqb a b = true <-> a = b.
Proof.
  induction a as [|x a IH]; destruct b as [|y b]; simpl; try (split; [discriminate|intro H; discriminate]).
  - split; reflexivity.
  - rewrite andb_true_iff, N.eqb_eq, IH; split; [intros [-> ->]; reflexivity|intro H; injection H; auto].
Qed.
Lemma text_eqb_refl : forall a, text_eqb a a = true.
Proof. intro a; apply text_eqb_eq; reflexivity. Qed.

(* ------------------------------------------------------------------ strings and instants *)
Lemma str_end_ind : forall (P : list N -> Prop),
  P [] ->
  (forall c, P [c]) ->
  (forall c c2 t2, P t2 -> P (c2 :: t2) -> P (c :: c2 :: t2)) ->
  forall r : list N, P r.
Proof.
  intros P H0 H1 H2 r.
  assert (G : P r /\ forall c, P (c :: r)).
  { induction r as [|c r [IHa IHb]]; [split; [exact H0|exact H1]|].
    split; [apply IHb|]. intro c0. apply H2; [exact IHa|apply IHb]. }
  exact (proj1 G).
Qed.

Lemma str_end_nb : forall c y, (c =? ch_bslash)%N = false ->
  str_end (c :: y) = if (c =? ch_quote)%N then Some 0 else option_map S (str_end y).
Proof. intros c y H; destruct y; simpl; rewrite H; reflexivity. Qed.
Lemma str_end_b : forall c c2 y, (c =? ch_bslash)%N = true ->
  str_end (c :: c2 :: y) = if (c2 =? ch_quote)%N then option_map (fun k => S (S k)) (str_end y)
                           else option_map S (str_end (c2 :: y)).
Proof. intros c c2 y H; cbn [str_end]; rewrite H; reflexivity. Qed.
Lemma str_end_b1 : forall c, (c =? ch_bslash)%N = true -> str_end [c] = None.
Proof. intros c H; cbn [str_end]; rewrite H; reflexivity. Qed.

(* the closing delimiter is where [str_end] says, and the result depends only on the
   characters up to and including it *)
Lemma str_end_closed : forall r k, str_end r = Some k ->
  k < List.length r /\ nth_error r k = Some ch_quote
  /\ forall y, str_end (firstn (S k) r ++ y) = Some k.
Proof.
  intro r; induction r as [|c|c c2 t2 IHa IHb] using str_end_ind; intros k H.
  - discriminate.
  - destruct (c =? ch_bslash)%N eqn:Eb; [rewrite str_end_b1 in H by exact Eb; discriminate|].
    rewrite str_end_nb in H by exact Eb. destruct (c =? ch_quote)%N eqn:Eq; [|discriminate].
    injection H as <-. apply N.eqb_eq in Eq; subst c. split; [simpl; lia|split; [reflexivity|]].
    intro y; reflexivity.
  - destruct (c =? ch_bslash)%N eqn:Eb.
    + rewrite str_end_b in H by exact Eb. destruct (c2 =? ch_quote)%N eqn:E2.
      * destruct (str_end t2) as [j|] eqn:E; [|discriminate]. injection H as <-.
        destruct (IHa _ eq_refl) as (L & A & B). split; [simpl; lia|split; [exact A|]].
        intro y. cbn [firstn app]. rewrite str_end_b by exact Eb. rewrite E2.
        change (firstn (S j) t2 ++ y) with (firstn (S j) t2 ++ y). rewrite B. reflexivity.
      * destruct (str_end (c2 :: t2)) as [j|] eqn:E; [|discriminate]. injection H as <-.
        destruct (IHb _ eq_refl) as (L & A & B). split; [simpl in *; lia|split; [exact A|]].
        intro y. specialize (B y). cbn [firstn app] in *. rewrite str_end_b by exact Eb. rewrite E2.
        rewrite B. reflexivity.
    + rewrite str_end_nb in H by exact Eb. destruct (c =? ch_quote)%N eqn:Eq.
      * injection H as <-. apply N.eqb_eq in Eq; subst c. split; [simpl; lia|split; [reflexivity|]].
        intro y; reflexivity.
      * destruct (str_end (c2 :: t2)) as [j|] eqn:E; [|discriminate]. injection H as <-.
        destruct (IHb _ eq_refl) as (L & A & B). split; [simpl in *; lia|split; [exact A|]].
        intro y. specialize (B y). cbn [firstn app] in *. rewrite str_end_nb by exact Eb. rewrite Eq.
        rewrite B. reflexivity.
Qed.

Lemma inst_end_closed : forall r k, inst_end r = Some k ->
  k < List.length r /\ nth_error r k = Some ch_hash /\ ~ In ch_hash (firstn k r)
  /\ forall y, inst_end (firstn (S k) r ++ y) = Some k.
Proof.
  induction r as [|c t IH]; intros k H; simpl in H; [discriminate|].
  destruct (c =? ch_hash)%N eqn:Eh.
  - injection H as <-. apply N.eqb_eq in Eh; subst c.
    split; [simpl; lia|split; [reflexivity|split; [intros []|]]]. intro y; reflexivity.
  - destruct (inst_end t) as [j|] eqn:E; [|discriminate]. injection H as <-.
    destruct (IH _ eq_refl) as (L & A & NI & B). split; [simpl; lia|split; [exact A|split]].
    + simpl. intros [F|F]; [subst c; rewrite N.eqb_refl in Eh; discriminate|exact (NI F)].
    + intro y. cbn [firstn app inst_end]. rewrite Eh. rewrite B. reflexivity.
Qed.
Lemma inst_end_none : forall r, inst_end r = None <-> ~ In ch_hash r.
Proof.
  induction r as [|c t IH]; simpl; [split; [intros _ []|reflexivity]|].
  destruct (c =? ch_hash)%N eqn:Eh.
  - apply N.eqb_eq in Eh. split; [discriminate|intro H; exfalso; apply H; left; exact Eh].
  - apply N.eqb_neq in Eh. destruct (inst_end t); simpl.
    + split; [discriminate|]. intro H. exfalso. apply H. right.
      destruct (in_dec N.eq_dec ch_hash t) as [Hi|Hn]; [exact Hi|]. apply IH in Hn; discriminate.
    + split; [|reflexivity]. intros _ [F|F]; [congruence|]. apply (proj1 IH eq_refl F).
Qed.
Lemma str_end_no_quote : forall r, ~ In ch_quote r -> str_end r = None.
Proof.
  intro r; induction r as [|c|c c2 t2 IHa IHb] using str_end_ind; intro H.
  - reflexivity.
  - destruct (c =? ch_bslash)%N eqn:Eb; [apply str_end_b1; exact Eb|].
    rewrite str_end_nb by exact Eb. destruct (c =? ch_quote)%N eqn:Eq; [|reflexivity].
    apply N.eqb_eq in Eq; exfalso; apply H; left; exact Eq.
  - assert (H1 : ~ In ch_quote (c2 :: t2)) by (intro F; apply H; right; exact F).
    assert (H2 : ~ In ch_quote t2) by (intro F; apply H; right; right; exact F).
    destruct (c =? ch_bslash)%N eqn:Eb.
    + rewrite str_end_b by exact Eb. destruct (c2 =? ch_quote)%N eqn:E2.
      * apply N.eqb_eq in E2; exfalso; apply H1; left; exact E2.
      * rewrite (IHb H1); reflexivity.
    + rewrite str_end_nb by exact Eb. destruct (c =? ch_quote)%N eqn:Eq.
      * apply N.eqb_eq in Eq; exfalso; apply H; left; exact Eq.
      * rewrite (IHb H1); reflexivity.
Qed.

(* ------------------------------------------------------------------ lists *)
Lemma app_split_le : forall (L r3 a b : text), L ++ r3 = a ++ b -> List.length L <= List.length a ->
  exists a', a = L ++ a' /\ r3 = a' ++ b.
Proof.
  induction L as [|c L IH]; intros r3 a b H Hl; simpl in *.
  - exists a; split; [reflexivity|exact H].
  - destruct a as [|y a]; simpl in *; [lia|]. injection H as -> H.
    destruct (IH _ _ _ H) as (a2 & E1 & E2); [lia|]. subst. exists a2; split; reflexivity.
Qed.
Lemma skipn_app_exact : forall (a b : text), skipn (List.length a) (a ++ b) = b.
Proof. intros a b; rewrite skipn_app, skipn_all, Nat.sub_diag; reflexivity. Qed.
Lemma firstn_app_exact : forall (a b : text), firstn (List.length a) (a ++ b) = a.
Proof. intros a b; rewrite firstn_app, firstn_all, Nat.sub_diag; simpl; apply app_nil_r. Qed.
Lemma hd_fails_app : forall p (a b : text), (a = [] -> hd_fails p b) -> (a <> [] -> hd_fails p a) ->
  hd_fails p (a ++ b).
Proof. intros p a b H1 H2; destruct a; simpl; [apply H1; reflexivity|apply (H2 ltac:(discriminate))]. Qed.

(* ------------------------------------------------------------------ dead characters *)
(* a character the number/identifier/constant readers give no meaning to *)
Definition dead (w : N) : Prop :=
  ident_char w = false /\ w <> ch_dot /\ w <> ch_plus /\ w <> ch_minus.

Lemma hex_ident : forall c, is_hex c = true -> ident_char c = true.
Proof.
  intros c H; unfold is_hex in H; unfold ident_char, is_letter, is_lower, is_upper.
  apply orb_true_iff in H; destruct H as [H|H]; [apply orb_true_iff in H; destruct H as [H|H]|].
  - rewrite H; rewrite ?orb_true_r; reflexivity.
  - nb. replace ((97 <=? c)%N && (c <=? 122)%N) with true; [rewrite ?orb_true_r; reflexivity|].
    symmetry; apply andb_true_iff; split; apply N.leb_le; lia.
  - nb. replace ((65 <=? c)%N && (c <=? 90)%N) with true; [rewrite ?orb_true_r; reflexivity|].
    symmetry; apply andb_true_iff; split; apply N.leb_le; lia.
Qed.
Lemma base_ident : forall c, is_base_char c = true -> ident_char c = true.
Proof.
  intros c H; unfold is_base_char in H.
  assert (E : c = 120%N \/ c = 111%N \/ c = 98%N \/ c = 100%N).
  { repeat (apply orb_true_iff in H; destruct H as [H|H]); apply N.eqb_eq in H; auto. }
  destruct E as [-> | [-> | [-> | ->]]]; reflexivity.
Qed.
Lemma dead_digit : forall w, dead w -> is_digit w = false.
Proof. intros w [H _]; destruct (is_digit w) eqn:E; [rewrite (digit_ident _ E) in H; discriminate|reflexivity]. Qed.
Lemma dead_hex : forall w, dead w -> is_hex w = false.
Proof. intros w [H _]; destruct (is_hex w) eqn:E; [rewrite (hex_ident _ E) in H; discriminate|reflexivity]. Qed.
Lemma dead_base : forall w, dead w -> is_base_char w = false.
Proof. intros w [H _]; destruct (is_base_char w) eqn:E; [rewrite (base_ident _ E) in H; discriminate|reflexivity]. Qed.
Lemma dead_not_e : forall w, dead w -> (w =? ch_e)%N = false.
Proof. intros w [H _]; apply N.eqb_neq; intros ->; discriminate. Qed.
Lemma dead_not_0 : forall w, dead w -> (w =? 48)%N = false.
Proof. intros w [H _]; apply N.eqb_neq; intros ->; discriminate. Qed.
Lemma dead_not_dot : forall w, dead w -> (w =? ch_dot)%N = false.
Proof. intros w (_ & H & _); apply N.eqb_neq; exact H. Qed.
Lemma dead_not_plus : forall w, dead w -> (w =? ch_plus)%N = false.
Proof. intros w (_ & _ & H & _); apply N.eqb_neq; exact H. Qed.
Lemma dead_not_minus : forall w, dead w -> (w =? ch_minus)%N = false.
Proof. intros w (_ & _ & _ & H); apply N.eqb_neq; exact H. Qed.

(* ------------------------------------------------------------------ the exponent group *)
Lemma takew_split : forall p X,
  X = takew p X ++ skipn (List.length (takew p X)) X
  /\ hd_fails p (skipn (List.length (takew p X)) X) /\ forallb p (takew p X) = true.
Proof.
  intros p X. rewrite <- dropw_skipn. split; [symmetry; apply takew_dropw|].
  split; [apply dropw_hd|apply takew_all].
Qed.

Lemma exp_match_some : forall r neg es k, exp_match r = Some (neg, es, k) ->
  es <> [] /\ forallb is_digit es = true /\ 2 <= k <= List.length r
  /\ hd_fails is_digit (skipn k r)
  /\ exists sg, r = ch_e :: sg ++ es ++ skipn k r /\ k = 1 + List.length sg + List.length es
       /\ ((sg = [] /\ neg = false) \/ (sg = [ch_plus] /\ neg = false) \/ (sg = [ch_minus] /\ neg = true)).
Proof.
  intros r neg es k H. unfold exp_match in H.
  destruct r as [|c r1]; [discriminate|]. destruct (c =? ch_e)%N eqn:Ee; [|discriminate].
  apply N.eqb_eq in Ee; subst c. destruct r1 as [|s r2]; [discriminate|].
  destruct (s =? ch_minus)%N eqn:Em; [|destruct (s =? ch_plus)%N eqn:Ep].
  - apply N.eqb_eq in Em; subst s.
    destruct (takew_split is_digit r2) as (S1 & S2 & S3).
    destruct (takew is_digit r2) as [|d ds] eqn:E; [discriminate|]. injection H as <- <- <-.
    split; [discriminate|]. split; [exact S3|].
    assert (L : List.length (d :: ds) <= List.length r2) by (rewrite <- E; apply takew_len).
    split; [simpl in *; lia|]. split; [exact S2|].
    exists [ch_minus]. split; [simpl; f_equal; f_equal; exact S1|]. split; [simpl; lia|auto].
  - apply N.eqb_eq in Ep; subst s.
    destruct (takew_split is_digit r2) as (S1 & S2 & S3).
    destruct (takew is_digit r2) as [|d ds] eqn:E; [discriminate|]. injection H as <- <- <-.
    split; [discriminate|]. split; [exact S3|].
    assert (L : List.length (d :: ds) <= List.length r2) by (rewrite <- E; apply takew_len).
    split; [simpl in *; lia|]. split; [exact S2|].
    exists [ch_plus]. split; [simpl; f_equal; f_equal; exact S1|]. split; [simpl; lia|auto].
  - destruct (takew_split is_digit (s :: r2)) as (S1 & S2 & S3).
    destruct (takew is_digit (s :: r2)) as [|d ds] eqn:E; [discriminate|]. injection H as <- <- <-.
    split; [discriminate|]. split; [exact S3|].
    assert (L : List.length (d :: ds) <= List.length (s :: r2)) by (rewrite <- E; apply takew_len).
    split; [simpl in *; lia|]. split; [exact S2|].
    exists []. split; [simpl; f_equal; exact S1|]. split; [simpl; lia|auto].
Qed.

Lemma exp_match_1 : forall c, exp_match [c] = None.
Proof. intro c; unfold exp_match; destruct (c =? ch_e)%N; reflexivity. Qed.
Lemma exp_match_ne : forall c r, (c =? ch_e)%N = false -> exp_match (c :: r) = None.
Proof. intros c r H; unfold exp_match; rewrite H; reflexivity. Qed.
Lemma exp_match_2 : forall c s r2, (c =? ch_e)%N = true ->
  exp_match (c :: s :: r2) =
    if (s =? ch_minus)%N then
      match takew is_digit r2 with [] => None | ds => Some (true, ds, 2 + List.length ds) end
    else if (s =? ch_plus)%N then
      match takew is_digit r2 with [] => None | ds => Some (false, ds, 2 + List.length ds) end
    else
      match takew is_digit (s :: r2) with [] => None | ds => Some (false, ds, 1 + List.length ds) end.
Proof. intros c s r2 H; unfold exp_match; rewrite H; reflexivity. Qed.

(* a dead character inserted at or after the end of the exponent (or anywhere, when there is
   no exponent) does not change what the exponent group matches *)
Lemma exp_match_ins : forall u b w x, dead w ->
  (forall neg es k, exp_match (u ++ b) = Some (neg, es, k) -> k <= List.length u) ->
  exp_match (u ++ w :: x) = exp_match (u ++ b).
Proof.
  intros u b w x Hw Hk.
  assert (Hd := dead_digit _ Hw).
  destruct u as [|c u1].
  - simpl app. rewrite (exp_match_ne w x (dead_not_e _ Hw)).
    destruct (exp_match ([] ++ b)) as [[[neg es] k]|] eqn:E; [|simpl app in E; rewrite E; reflexivity].
    specialize (Hk _ _ _ eq_refl). destruct (exp_match_some _ _ _ _ E) as (_ & _ & L & _). simpl in Hk; lia.
  - destruct (c =? ch_e)%N eqn:Ee; [|simpl app; rewrite !exp_match_ne by exact Ee; reflexivity].
    destruct u1 as [|s u2].
    + simpl app. rewrite (exp_match_2 c w x Ee).
      rewrite (dead_not_minus _ Hw), (dead_not_plus _ Hw). simpl takew. rewrite Hd.
      destruct (exp_match ([c] ++ b)) as [[[neg es] k]|] eqn:E; [|simpl app in E; rewrite E; reflexivity].
      specialize (Hk _ _ _ eq_refl). destruct (exp_match_some _ _ _ _ E) as (_ & _ & L & _). simpl in Hk; lia.
    + simpl app in *. rewrite !(exp_match_2 c s _ Ee).
      destruct (s =? ch_minus)%N eqn:Em; [|destruct (s =? ch_plus)%N eqn:Ep].
      * assert (Hl : List.length (takew is_digit (u2 ++ b)) <= List.length u2).
        { destruct (takew is_digit (u2 ++ b)) as [|d ds] eqn:E; [simpl; lia|].
          specialize (Hk true (d :: ds) (2 + List.length (d :: ds))).
          rewrite (exp_match_2 c s _ Ee), Em, E in Hk. specialize (Hk eq_refl).
          simpl in *; lia. }
        destruct (takew_ins is_digit u2 b w x Hd Hl) as (E1 & _). rewrite E1. reflexivity.
      * assert (Hl : List.length (takew is_digit (u2 ++ b)) <= List.length u2).
        { destruct (takew is_digit (u2 ++ b)) as [|d ds] eqn:E; [simpl; lia|].
          specialize (Hk false (d :: ds) (2 + List.length (d :: ds))).
          rewrite (exp_match_2 c s _ Ee), Em, Ep, E in Hk. specialize (Hk eq_refl).
          simpl in *; lia. }
        destruct (takew_ins is_digit u2 b w x Hd Hl) as (E1 & _). rewrite E1. reflexivity.
      * assert (Hl : List.length (takew is_digit ((s :: u2) ++ b)) <= List.length (s :: u2)).
        { simpl app. destruct (takew is_digit (s :: u2 ++ b)) as [|d ds] eqn:E; [simpl; lia|].
          specialize (Hk false (d :: ds) (1 + List.length (d :: ds))).
          rewrite (exp_match_2 c s _ Ee), Em, Ep, E in Hk. specialize (Hk eq_refl).
          simpl in *; lia. }
        destruct (takew_ins is_digit (s :: u2) b w x Hd Hl) as (E1 & _).
        simpl app in E1. rewrite E1. reflexivity.
Qed.

(* ------------------------------------------------------------------ the parts of a NUM_REGEX match *)
Definition p_d1 (r : text) := takew is_digit r.
Definition p_r1 (r : text) := dropw is_digit r.
Definition p_dot (r : text) := starts_dot (p_r1 r).
Definition p_r2 (r : text) := if p_dot r then tl (p_r1 r) else p_r1 r.
Definition p_d2 (r : text) := takew is_digit (p_r2 r).
Definition p_r3 (r : text) := dropw is_digit (p_r2 r).
Definition p_nm (r : text) := List.length (p_d1 r) + (if p_dot r then 1 else 0) + List.length (p_d2 r).
Definition dotl (b : bool) : text := if b then [ch_dot] else [].

Definition dec_result (D1 : text) (DOT : bool) (D2 R3 : text) : nres :=
  let nm := List.length D1 + (if DOT then 1 else 0) + List.length D2 in
  match exp_match R3 with
  | None => if DOT && is_nil D2 && starts_dot R3 then NOk (List.length D1) (LInt (dec_val D1))
            else nres_of nm (num_value D1 DOT D2 None)
  | Some (neg, es, k) => nres_of (nm + k) (num_value D1 DOT D2 (Some (neg, es)))
  end.

Lemma read_dec_eq : forall r, read_dec r =
  if is_nil (p_d1 r) && is_nil (p_d2 r) then NBad
  else dec_result (p_d1 r) (p_dot r) (p_d2 r) (p_r3 r).
Proof. reflexivity. Qed.

Lemma starts_dot_digit : forall r, starts_dot r = true -> hd_fails is_digit r.
Proof. intros [|c t] H; simpl in *; [exact I|]. apply N.eqb_eq in H; subst c; reflexivity. Qed.

Lemma dec_parts : forall r,
  r = p_d1 r ++ dotl (p_dot r) ++ p_d2 r ++ p_r3 r
  /\ forallb is_digit (p_d1 r) = true /\ forallb is_digit (p_d2 r) = true
  /\ hd_fails is_digit (p_r3 r)
  /\ (p_dot r = false -> p_d2 r = [] /\ starts_dot (p_r3 r) = false).
Proof.
  intro r.
  assert (A : r = p_d1 r ++ p_r1 r) by (symmetry; apply takew_dropw).
  assert (B : p_r1 r = dotl (p_dot r) ++ p_r2 r).
  { unfold p_r2, p_dot. destruct (p_r1 r) as [|c t]; simpl; [reflexivity|].
    destruct (c =? ch_dot)%N eqn:E; simpl; [apply N.eqb_eq in E; subst c|]; reflexivity. }
  assert (Cc : p_r2 r = p_d2 r ++ p_r3 r) by (symmetry; apply takew_dropw).
  split; [rewrite <- Cc, <- B; exact A|].
  split; [apply takew_all|]. split; [apply takew_all|]. split; [apply dropw_hd|].
  intro Hd. assert (Hf : hd_fails is_digit (p_r1 r)) by apply dropw_hd.
  unfold p_d2, p_r3, p_r2. rewrite Hd.
  assert (E : takew is_digit (p_r1 r) = []).
  { destruct (p_r1 r) as [|c t]; simpl in *; [reflexivity|rewrite Hf; reflexivity]. }
  split; [exact E|]. rewrite (takew_nil_dropw _ _ E). exact Hd.
Qed.

Lemma dec_parts_unique : forall D1 DOT D2 R3,
  forallb is_digit D1 = true -> forallb is_digit D2 = true -> hd_fails is_digit R3 ->
  (DOT = false -> D2 = [] /\ starts_dot R3 = false) ->
  let r := D1 ++ dotl DOT ++ D2 ++ R3 in
  p_d1 r = D1 /\ p_dot r = DOT /\ p_d2 r = D2 /\ p_r3 r = R3.
Proof.
  intros D1 DOT D2 R3 H1 H2 H3 H4 r.
  assert (Hrest : hd_fails is_digit (dotl DOT ++ D2 ++ R3)).
  { destruct DOT; simpl; [reflexivity|]. destruct (H4 eq_refl) as [-> _]. exact H3. }
  destruct (takew_app_stop is_digit D1 _ H1 Hrest) as [E1 E2].
  assert (Ed : p_dot r = DOT).
  { unfold p_dot, p_r1, r. rewrite E2. destruct DOT; simpl; [reflexivity|].
    destruct (H4 eq_refl) as [-> E]. exact E. }
  assert (E3 : p_r2 r = D2 ++ R3).
  { unfold p_r2. rewrite Ed. unfold p_r1, r. rewrite E2. destruct DOT; reflexivity. }
  destruct (takew_app_stop is_digit D2 R3 H2 H3) as [E4 E5].
  split; [exact E1|]. split; [exact Ed|]. unfold p_d2, p_r3. rewrite E3. split; assumption.
Qed.

Lemma read_dec_of_parts : forall D1 DOT D2 R3,
  forallb is_digit D1 = true -> forallb is_digit D2 = true -> hd_fails is_digit R3 ->
  (DOT = false -> D2 = [] /\ starts_dot R3 = false) ->
  is_nil D1 && is_nil D2 = false ->
  read_dec (D1 ++ dotl DOT ++ D2 ++ R3) = dec_result D1 DOT D2 R3.
Proof.
  intros D1 DOT D2 R3 H1 H2 H3 H4 H5.
  destruct (dec_parts_unique D1 DOT D2 R3 H1 H2 H3 H4) as (E1 & E2 & E3 & E4).
  rewrite read_dec_eq, E1, E2, E3, E4, H5. reflexivity.
Qed.

(* ------------------------------------------------------------------ based literals *)
Lemma based_window_inv : forall r, based_window r = true ->
  exists bc hs R, r = 48%N :: bc :: hs ++ R /\ is_base_char bc = true /\ hs <> []
    /\ forallb is_hex hs = true /\ hd_fails is_hex R.
Proof.
  intros r H. destruct r as [|c0 [|c1 [|c2 t]]]; simpl in H; try discriminate.
  nb. subst c0. exists c1, (takew is_hex (c2 :: t)), (dropw is_hex (c2 :: t)).
  split; [rewrite takew_dropw; reflexivity|]. split; [assumption|].
  split; [simpl; rewrite H0; discriminate|]. split; [apply takew_all|apply dropw_hd].
Qed.

Lemma read_based_of_parts : forall bc hs R,
  is_base_char bc = true -> hs <> [] -> forallb is_hex hs = true -> hd_fails is_hex R ->
  based_window (48%N :: bc :: hs ++ R) = true
  /\ read_based (48%N :: bc :: hs ++ R)
     = nres_of (2 + List.length hs) (option_map LInt (horner (base_of bc) hs 0%Z)).
Proof.
  intros bc hs R Hb Hn Hh HR. split.
  - destruct hs as [|h hs]; [congruence|]. simpl in *. rewrite Hb. nb. rewrite H. reflexivity.
  - unfold read_based. destruct (takew_app_stop is_hex hs R Hh HR) as [E _]. rewrite E. reflexivity.
Qed.

Lemma based_window_ins : forall a b w x, based_window (a ++ b) = false -> 1 <= List.length a ->
  dead w -> based_window (a ++ w :: x) = false.
Proof.
  intros a b w x H L Hw.
  destruct a as [|c0 [|c1 [|c2 a3]]]; simpl in *; try lia.
  - rewrite (dead_base _ Hw). destruct x; [reflexivity|]. rewrite andb_false_r. reflexivity.
  - rewrite (dead_hex _ Hw). rewrite andb_false_r. reflexivity.
  - exact H.
Qed.

Lemma nres_of_ok : forall n o m v, nres_of n o = NOk m v -> m = n /\ o = Some v.
Proof. intros n [l|] m v H; simpl in H; [injection H as <- <-; auto|discriminate]. Qed.

(* ------------------------------------------------------------------ read_num: extent *)
Lemma read_num_bounds : forall r n v, read_num r = NOk n v ->
  1 <= n <= List.length r /\ hd_fails is_digit (skipn n r).
Proof.
  intros r n v H. unfold read_num in H. destruct (based_window r) eqn:Bw.
  - destruct (based_window_inv _ Bw) as (bc & hs & R & -> & Hb & Hn & Hh & HR).
    destruct (read_based_of_parts bc hs R Hb Hn Hh HR) as [_ E]. rewrite E in H.
    apply nres_of_ok in H. destruct H as [-> _].
    split; [simpl; rewrite app_length; lia|].
    change (skipn (2 + List.length hs) (48%N :: bc :: hs ++ R)) with (skipn (List.length hs) (hs ++ R)).
    rewrite skipn_app_exact. destruct R as [|c t]; simpl in *; [exact I|].
    destruct (is_digit c) eqn:E2; [rewrite (digit_is_hex _ E2) in HR; discriminate|reflexivity].
  - rewrite read_dec_eq in H.
    destruct (is_nil (p_d1 r) && is_nil (p_d2 r)) eqn:Nn; [discriminate|].
    destruct (dec_parts r) as (Hr & H1 & H2 & H3 & H4).
    set (D1 := p_d1 r) in *. set (DOT := p_dot r) in *. set (D2 := p_d2 r) in *. set (R3 := p_r3 r) in *.
    assert (Hlen : List.length r = List.length D1 + (if DOT then 1 else 0) + List.length D2 + List.length R3).
    { rewrite Hr at 1. rewrite !app_length. destruct DOT; simpl; lia. }
    assert (Hpos : 1 <= List.length D1 + List.length D2).
    { destruct D1; destruct D2; simpl in *; try lia; try discriminate. }
    assert (Hskip : forall k, skipn (List.length D1 + (if DOT then 1 else 0) + List.length D2 + k) r = skipn k R3).
    { intro k. rewrite Hr at 1. rewrite (app_assoc D1), (app_assoc (D1 ++ dotl DOT)).
      replace (List.length D1 + (if DOT then 1 else 0) + List.length D2 + k)
        with (List.length ((D1 ++ dotl DOT) ++ D2) + k) by (rewrite !app_length; destruct DOT; simpl; lia).
      rewrite skipn_app. rewrite skipn_all2 by lia.
      replace (List.length ((D1 ++ dotl DOT) ++ D2) + k - List.length ((D1 ++ dotl DOT) ++ D2)) with k by lia.
      reflexivity. }
    unfold dec_result in H. destruct (exp_match R3) as [[[neg es] k]|] eqn:Ex.
    + apply nres_of_ok in H. destruct H as [-> _].
      destruct (exp_match_some _ _ _ _ Ex) as (_ & _ & Lk & Hh & _).
      split; [lia|]. rewrite Hskip. exact Hh.
    + destruct (DOT && is_nil D2 && starts_dot R3) eqn:Dd.
      * injection H as <- <-. nb. destruct D2; [|discriminate].
        assert (D1 <> []) by (destruct D1; simpl in *; [discriminate|discriminate]).
        split; [destruct D1; simpl in *; [congruence|lia]|].
        rewrite Hr at 1. rewrite skipn_app_exact. rewrite H. reflexivity.
      * apply nres_of_ok in H. destruct H as [-> _]. split; [lia|].
        specialize (Hskip 0). rewrite Nat.add_0_r in Hskip. rewrite Hskip. exact H3.
Qed.

(* ------------------------------------------------------------------ read_num: lookahead *)
(* A dead character inserted at or after the end of a number token (position [length a],
   counted from the token start) does not change the token — except in the single situation
   "digits . | ." (the inserted character would separate the two dots of a range after the
   first dot), which is excluded by the last hypothesis. *)
Lemma read_num_ins : forall a b w x n v, dead w ->
  read_num (a ++ b) = NOk n v -> n <= List.length a ->
  (List.length a = S n -> starts_dot (skipn n a) = true -> starts_dot b = false) ->
  read_num (a ++ w :: x) = NOk n v.
Proof.
  intros a b w x n v Hw H Hn Hdd.
  destruct (read_num_bounds _ _ _ H) as [[Hn1 _] _].
  unfold read_num in *. destruct (based_window (a ++ b)) eqn:Bw.
  - destruct (based_window_inv _ Bw) as (bc & hs & R & Er & Hb & Hne & Hh & HR).
    rewrite Er in H. destruct (read_based_of_parts bc hs R Hb Hne Hh HR) as [_ E]. rewrite E in H.
    destruct (nres_of_ok _ _ _ _ H) as [-> Hv].
    change (48%N :: bc :: hs ++ R) with ((48%N :: bc :: hs) ++ R) in Er. symmetry in Er.
    destruct (app_split_le _ _ _ _ Er) as (a' & -> & ->); [simpl in *; lia|].
    assert (HR' : hd_fails is_hex (a' ++ w :: x)).
    { destruct a'; simpl in *; [apply dead_hex; exact Hw|exact HR]. }
    rewrite <- app_assoc. change ((48%N :: bc :: hs) ++ a' ++ w :: x) with (48%N :: bc :: hs ++ (a' ++ w :: x)).
    destruct (read_based_of_parts bc hs _ Hb Hne Hh HR') as [Bw' E']. rewrite Bw', E'. exact H.
  - rewrite (based_window_ins a b w x Bw) by (try lia; exact Hw).
    rewrite read_dec_eq in H.
    destruct (is_nil (p_d1 (a ++ b)) && is_nil (p_d2 (a ++ b))) eqn:Nn; [discriminate|].
    destruct (dec_parts (a ++ b)) as (Hr & H1 & H2 & H3 & H4).
    remember (p_d1 (a ++ b)) as D1. remember (p_dot (a ++ b)) as DOT.
    remember (p_d2 (a ++ b)) as D2. remember (p_r3 (a ++ b)) as R3.
    clear HeqD1 HeqDOT HeqD2 HeqR3.
    assert (Hd := dead_digit _ Hw).
    unfold dec_result in H. destruct (exp_match R3) as [[[neg es] k]|] eqn:Ex.
    + (* exponent present *)
      destruct (nres_of_ok _ _ _ _ H) as [-> Hv].
      rewrite (app_assoc D1), (app_assoc (D1 ++ dotl DOT)) in Hr. symmetry in Hr.
      destruct (app_split_le _ _ _ _ Hr) as (a' & Ea & ER3).
      { rewrite !app_length. destruct DOT; simpl in *; lia. }
      assert (Hk : k <= List.length a').
      { rewrite Ea in Hn. rewrite !app_length in Hn. destruct DOT; simpl in *; lia. }
      assert (Ex' : exp_match (a' ++ w :: x) = Some (neg, es, k)).
      { rewrite (exp_match_ins a' b w x Hw); [rewrite <- ER3; exact Ex|].
        intros neg0 es0 k0 E0. rewrite <- ER3, Ex in E0. injection E0 as _ _ <-. exact Hk. }
      assert (H3' : hd_fails is_digit (a' ++ w :: x)).
      { destruct a'; simpl in *; [exact Hd|subst R3; exact H3]. }
      assert (H4' : DOT = false -> D2 = [] /\ starts_dot (a' ++ w :: x) = false).
      { intro F. destruct (H4 F) as [G1 G2]. split; [exact G1|].
        destruct a'; simpl in *; [apply dead_not_dot; exact Hw|subst R3; exact G2]. }
      rewrite Ea. rewrite <- !app_assoc.
      rewrite (read_dec_of_parts D1 DOT D2 (a' ++ w :: x) H1 H2 H3' H4' Nn).
      unfold dec_result. rewrite Ex'. exact H.
    + destruct (DOT && is_nil D2 && starts_dot R3) eqn:Dd.
      * (* the range rule: the token is D1, the regex had consumed "D1." *)
        injection H as <- <-.
        apply andb_true_iff in Dd; destruct Dd as [Dd Hsd].
        apply andb_true_iff in Dd; destruct Dd as [HDOT HD2].
        destruct D2; [|discriminate]. subst DOT. simpl in Hr.
        assert (Hne : D1 <> []) by (destruct D1; simpl in *; [discriminate|discriminate]).
        destruct (Nat.eq_dec (List.length a) (List.length D1)) as [El|Nl].
        { (* inserted right after the digits *)
          symmetry in Hr. destruct (app_split_le _ _ _ _ Hr) as (a' & Ea & _); [lia|].
          assert (a' = []) by (destruct a'; [reflexivity|rewrite Ea, app_length in El; simpl in El; lia]).
          subst a'. rewrite app_nil_r in Ea. subst a.
          assert (Hx : hd_fails is_digit (w :: x)) by exact Hd.
          assert (Hy : false = false -> ([] : text) = [] /\ starts_dot (w :: x) = false).
          { intros _; split; [reflexivity|simpl; apply dead_not_dot; exact Hw]. }
          pose proof (read_dec_of_parts D1 false [] (w :: x) H1 eq_refl Hx Hy) as E.
          simpl in E. rewrite E by (destruct D1; [congruence|reflexivity]).
          unfold dec_result. rewrite (exp_match_ne w x (dead_not_e _ Hw)). simpl.
          rewrite !Nat.add_0_r. reflexivity. }
        { (* inserted after "D1." or later *)
          change (D1 ++ ch_dot :: R3) with (D1 ++ [ch_dot] ++ R3) in Hr. rewrite app_assoc in Hr.
          symmetry in Hr. destruct (app_split_le _ _ _ _ Hr) as (a' & Ea & ER3).
          { rewrite app_length; simpl; lia. }
          destruct a' as [|z a''].
          - (* exactly between the two dots: excluded *)
            exfalso. simpl in ER3. rewrite app_nil_r in Ea.
            assert (Hsb : starts_dot b = false).
            { apply Hdd; [rewrite Ea, app_length; simpl; lia|].
              rewrite Ea. rewrite skipn_app_exact. reflexivity. }
            rewrite <- ER3 in Hsb. congruence.
          - assert (Hz : (z =? ch_dot)%N = true) by (rewrite ER3 in Hsd; exact Hsd).
            assert (Hx : hd_fails is_digit ((z :: a'') ++ w :: x)).
            { simpl. apply N.eqb_eq in Hz; subst z; reflexivity. }
            assert (Hy : true = false -> ([] : text) = [] /\ starts_dot ((z :: a'') ++ w :: x) = false)
              by discriminate.
            rewrite Ea. rewrite <- !app_assoc.
            pose proof (read_dec_of_parts D1 true [] ((z :: a'') ++ w :: x) H1 eq_refl Hx Hy) as E.
            simpl app in E. simpl app. rewrite E by (destruct D1; [congruence|reflexivity]).
            unfold dec_result. rewrite exp_match_ne by (apply N.eqb_eq in Hz; subst z; reflexivity).
            simpl. rewrite Hz. reflexivity. }
      * (* no exponent, no range rule *)
        destruct (nres_of_ok _ _ _ _ H) as [-> Hv].
        rewrite (app_assoc D1), (app_assoc (D1 ++ dotl DOT)) in Hr. symmetry in Hr.
        destruct (app_split_le _ _ _ _ Hr) as (a' & Ea & ER3).
        { rewrite !app_length. destruct DOT; simpl in *; lia. }
        assert (Ex' : exp_match (a' ++ w :: x) = None).
        { rewrite (exp_match_ins a' b w x Hw); [rewrite <- ER3; exact Ex|].
          intros neg0 es0 k0 E0. rewrite <- ER3, Ex in E0. discriminate. }
        assert (H3' : hd_fails is_digit (a' ++ w :: x)).
        { destruct a'; simpl in *; [exact Hd|subst R3; exact H3]. }
        assert (Hsd : starts_dot R3 = false -> starts_dot (a' ++ w :: x) = false).
        { intro G. destruct a'; simpl in *; [apply dead_not_dot; exact Hw|subst R3; exact G]. }
        assert (H4' : DOT = false -> D2 = [] /\ starts_dot (a' ++ w :: x) = false).
        { intro F. destruct (H4 F) as [G1 G2]. split; [exact G1|apply Hsd; exact G2]. }
        rewrite Ea. rewrite <- !app_assoc.
        rewrite (read_dec_of_parts D1 DOT D2 (a' ++ w :: x) H1 H2 H3' H4' Nn).
        unfold dec_result. rewrite Ex'.
        assert (Dd' : DOT && is_nil D2 && starts_dot (a' ++ w :: x) = false).
        { destruct (DOT && is_nil D2) eqn:G; [|reflexivity]. simpl in *. apply Hsd; exact Dd. }
        rewrite Dd'. exact H.
Qed.

Lemma read_num_dot : forall t n v, read_num (ch_dot :: t) = NOk n v -> 2 <= n.
Proof.
  intros t n v H. unfold read_num in H.
  assert (Bw : based_window (ch_dot :: t) = false) by (destruct t as [|c1 [|c2 t']]; reflexivity).
  rewrite Bw in H. rewrite read_dec_eq in H.
  assert (E1 : p_d1 (ch_dot :: t) = []) by reflexivity.
  assert (E2 : p_dot (ch_dot :: t) = true) by reflexivity.
  rewrite E1, E2 in H. simpl is_nil in H. simpl andb in H.
  destruct (is_nil (p_d2 (ch_dot :: t))) eqn:Nn; [discriminate|].
  unfold dec_result in H. rewrite Nn in H. rewrite andb_false_r in H. simpl andb in H.
  assert (L : 1 <= List.length (p_d2 (ch_dot :: t))) by (destruct (p_d2 (ch_dot :: t)); [discriminate|simpl; lia]).
  destruct (exp_match (p_r3 (ch_dot :: t))) as [[[neg es] k]|];
    apply nres_of_ok in H; destruct H as [-> _]; simpl; lia.
Qed.

Lemma takew_ge : forall p (a b : text), forallb p a = true ->
  takew p (a ++ b) = a ++ takew p b.
Proof.
  intros p a b; induction a as [|c a IH]; simpl; intro H; [reflexivity|].
  apply andb_true_iff in H; destruct H as [Hc Ha]. rewrite Hc, (IH Ha). reflexivity.
Qed.

(* ================================================================== literal values *)
(* The mathematical value of a digit string, defined independently of the lexer's
   left-to-right accumulation: positional notation, digit_i * base^(number of digits after it). *)
Fixpoint pos_value (base : Z) (ds : list Z) : Z :=
  match ds with
  | [] => 0%Z
  | d :: t => (d * base ^ Z.of_nat (List.length t) + pos_value base t)%Z
  end.
Definition dval (c : N) : Z := Z.of_N (c - 48).

Lemma horner_ok : forall base ds acc, forallb (fun c => (hex_val c <? base)%Z) ds = true ->
  horner base ds acc = Some (acc * base ^ Z.of_nat (List.length ds) + pos_value base (map hex_val ds))%Z.
Proof.
  intros base ds; induction ds as [|c t IH]; intros acc H.
  - simpl. f_equal. ring.
  - cbn [forallb] in H. apply andb_true_iff in H. destruct H as [Hc Ht].
    cbn [horner]. rewrite Hc. rewrite (IH _ Ht). f_equal.
    cbn [map pos_value List.length]. rewrite map_length.
    rewrite Nat2Z.inj_succ, Z.pow_succ_r by lia. ring.
Qed.
Lemma horner_bad : forall base ds acc, forallb (fun c => (hex_val c <? base)%Z) ds = false ->
  horner base ds acc = None.
Proof.
  intros base ds; induction ds as [|c t IH]; intros acc H; [discriminate|].
  cbn [forallb] in H. cbn [horner]. destruct (hex_val c <? base)%Z; [apply IH; exact H|reflexivity].
Qed.
Lemma dec_val_acc : forall ds acc,
  fold_left (fun a c => (a * 10 + Z.of_N (c - 48))%Z) ds acc
  = (acc * 10 ^ Z.of_nat (List.length ds) + pos_value 10 (map dval ds))%Z.
Proof.
  induction ds as [|c t IH]; intro acc.
  - simpl. ring.
  - cbn [fold_left]. rewrite IH. cbn [map pos_value List.length]. rewrite map_length.
    rewrite Nat2Z.inj_succ, Z.pow_succ_r by lia. unfold dval. ring.
Qed.
Lemma dec_val_pos : forall ds, dec_val ds = pos_value 10 (map dval ds).
Proof. intro ds; unfold dec_val; rewrite dec_val_acc; ring. Qed.
Lemma hex_val_digit : forall c, is_digit c = true -> hex_val c = dval c.
Proof. intros c H; unfold hex_val; rewrite H; reflexivity. Qed.
Lemma pos_value_nonneg : forall base ds, (0 <= base)%Z -> Forall (fun d => (0 <= d)%Z) ds ->
  (0 <= pos_value base ds)%Z.
Proof.
  intros base ds Hb H; induction H as [|d t Hd Ht IH]; simpl; [lia|].
  assert (0 <= base ^ Z.of_nat (List.length t))%Z by (apply Z.pow_nonneg; exact Hb). nia.
Qed.

Lemma digit_not_base : forall c, is_digit c = true -> is_base_char c = false.
Proof.
  intros c H. apply digit_range in H. unfold is_base_char.
  repeat (apply orb_false_iff; split); apply N.eqb_neq; lia.
Qed.
Lemma digits_not_based : forall A rest, forallb is_digit A = true -> A <> [] ->
  match rest with [] => True | c :: _ => is_base_char c = false end ->
  based_window (A ++ rest) = false.
Proof.
  intros A rest HA Hn Hr. destruct A as [|c0 [|c1 A']]; [congruence| |].
  - simpl. destruct rest as [|c1 [|c2 r]]; [reflexivity|reflexivity|]. rewrite Hr. rewrite andb_false_r. reflexivity.
  - simpl in HA. nb. cbn [app based_window].
    destruct (A' ++ rest); [reflexivity|]. rewrite (digit_not_base _ H0). rewrite andb_false_r. reflexivity.
Qed.

Lemma is_nil_digits : forall A (D2 : text), A <> [] -> is_nil A && is_nil D2 = false.
Proof. intros [|c A] D2 H; [congruence|reflexivity]. Qed.

(* an integer literal followed by something that does not continue the number *)
Lemma read_num_int : forall A rest, forallb is_digit A = true -> A <> [] ->
  based_window (A ++ rest) = false -> hd_fails is_digit rest -> starts_dot rest = false ->
  exp_match rest = None ->
  read_num (A ++ rest) = NOk (List.length A) (LInt (pos_value 10 (map dval A))).
Proof.
  intros A rest HA Hn Bw Hd Hs Hx. unfold read_num. rewrite Bw.
  pose proof (read_dec_of_parts A false [] rest HA eq_refl Hd (fun _ => conj eq_refl Hs) (is_nil_digits A [] Hn)) as E.
  simpl app in E. rewrite E. unfold dec_result. rewrite Hx. simpl. rewrite !Nat.add_0_r, dec_val_pos. reflexivity.
Qed.

(* "digits.." : the range rule *)
Lemma read_num_range : forall A rest, forallb is_digit A = true -> A <> [] ->
  read_num (A ++ ch_dot :: ch_dot :: rest) = NOk (List.length A) (LInt (pos_value 10 (map dval A))).
Proof.
  intros A rest HA Hn. unfold read_num.
  rewrite (digits_not_based A (ch_dot :: ch_dot :: rest) HA Hn eq_refl).
  pose proof (read_dec_of_parts A true [] (ch_dot :: rest) HA eq_refl eq_refl
                (fun F => ltac:(discriminate)) (is_nil_digits A [] Hn)) as E.
  simpl app in E. rewrite E. unfold dec_result. simpl. rewrite dec_val_pos. reflexivity.
Qed.

Lemma exp_match_of_parts : forall sg es rest, forallb is_digit es = true -> es <> [] ->
  hd_fails is_digit rest -> (sg = [] \/ sg = [ch_plus] \/ sg = [ch_minus]) ->
  exp_match (ch_e :: sg ++ es ++ rest)
  = Some (match sg with [c] => (c =? ch_minus)%N | _ => false end, es, 1 + List.length sg + List.length es).
Proof.
  intros sg es rest He Hn Hr Hs.
  destruct (takew_app_stop is_digit es rest He Hr) as [E _].
  destruct es as [|d ds]; [congruence|]. simpl app in E.
  destruct Hs as [->|[->| ->]]; cbn [app].
  - assert (Dd : is_digit d = true) by (simpl in He; nb; assumption).
    rewrite (exp_match_2 ch_e d _ eq_refl).
    assert (d <> ch_minus /\ d <> ch_plus) as [N1 N2]
      by (apply digit_range in Dd; unfold ch_minus, ch_plus; split; lia).
    apply N.eqb_neq in N1, N2. rewrite N1, N2.
    rewrite E. reflexivity.
  - rewrite (exp_match_2 ch_e ch_plus _ eq_refl). simpl (ch_plus =? ch_minus)%N. simpl (ch_plus =? ch_plus)%N.
    cbv iota. rewrite E. reflexivity.
  - rewrite (exp_match_2 ch_e ch_minus _ eq_refl). simpl (ch_minus =? ch_minus)%N.
    cbv iota. rewrite E. reflexivity.
Qed.

(* scientific notation with an integer mantissa *)
Lemma read_num_sci : forall A sg es rest, forallb is_digit A = true -> A <> [] ->
  forallb is_digit es = true -> es <> [] -> hd_fails is_digit rest ->
  (sg = [] \/ sg = [ch_plus] \/ sg = [ch_minus]) ->
  read_num (A ++ ch_e :: sg ++ es ++ rest)
  = nres_of (List.length A + (1 + List.length sg + List.length es))
      (num_value A false [] (Some (match sg with [c] => (c =? ch_minus)%N | _ => false end, es))).
Proof.
  intros A sg es rest HA Hn He Hne Hr Hs. unfold read_num.
  rewrite (digits_not_based A (ch_e :: sg ++ es ++ rest) HA Hn eq_refl).
  pose proof (read_dec_of_parts A false [] (ch_e :: sg ++ es ++ rest) HA eq_refl eq_refl
                (fun _ => conj eq_refl eq_refl) (is_nil_digits A [] Hn)) as E.
  simpl app in E. rewrite E. unfold dec_result. rewrite (exp_match_of_parts sg es rest He Hne Hr Hs).
  rewrite !Nat.add_0_r. reflexivity.
Qed.

Definition lit_Q (l : lit) : Q :=
  match l with LInt z => inject_Z z | LFrac q => q | LFlt q => q end.
Definition lit_exact (l : lit) : Prop :=
  match l with LInt _ => True | LFrac q => Qred q = q | LFlt _ => False end.

Lemma inject_Z_pow10 : forall e, (0 <= e)%Z -> inject_Z (10 ^ e) == Qpower 10 e.
Proof. intros e He. rewrite Zpower_Qpower by exact He. reflexivity. Qed.

Opaque Qred.
(* m e±k : the value is exactly m * 10^(±k), an int or a reduced Fraction *)
Lemma sci_value_exact : forall A neg es v, forallb is_digit es = true ->
  num_value A false [] (Some (neg, es)) = Some v ->
  let m := pos_value 10 (map dval A) in
  let k := pos_value 10 (map dval es) in
  lit_exact v /\ lit_Q v == inject_Z m * Qpower 10 (if neg then (- k)%Z else k).
Proof.
  intros A neg es v He H m k. unfold num_value in H. rewrite !dec_val_pos in H. fold m k in H.
  assert (Hk : (0 <= k)%Z).
  { apply pos_value_nonneg; [lia|]. rewrite Forall_forall. intros d Hd. apply in_map_iff in Hd.
    destruct Hd as (c & <- & Hc). unfold dval. lia. }
  destruct (neg && (0 <? k)%Z) eqn:Nk.
  - injection H as <-. apply andb_true_iff in Nk. destruct Nk as [-> Kp]. apply Z.ltb_lt in Kp.
    split; [unfold lit_exact; apply Qred_complete, Qred_correct|].
    simpl lit_Q. rewrite Qred_correct.
    assert (P : (0 < 10 ^ k)%Z) by (apply Z.pow_pos_nonneg; lia).
    rewrite Qmake_Qdiv. rewrite Z2Pos.id by exact P.
    rewrite inject_Z_pow10 by lia. rewrite Qpower_opp. reflexivity.
  - injection H as <-. split; [exact I|]. simpl lit_Q.
    rewrite inject_Z_mult. rewrite inject_Z_pow10 by exact Hk.
    destruct neg; [|reflexivity]. simpl in Nk. apply Z.ltb_ge in Nk.
    assert (k = 0%Z) by lia. subst k. rewrite H. reflexivity.
Qed.

(* decimals: the model's value is the exact rational of the spelling (the float rounding
   of the implementation is external), or BadNumberError when that is beyond the float range *)
Lemma decimal_value_exact : forall D1 D2 ex v,
  num_value D1 true D2 ex = Some v ->
  let m := pos_value 10 (map dval (D1 ++ D2)) in
  let f := Z.of_nat (List.length D2) in
  let scale := match ex with
               | None => 1%Q
               | Some (neg, es) => Qpower 10 (if neg then (- pos_value 10 (map dval es))%Z
                                              else pos_value 10 (map dval es))
               end in
  (forall neg es, ex = Some (neg, es) -> forallb is_digit es = true) ->
  exists q, v = LFlt q /\ q == inject_Z m / Qpower 10 f * scale /\ ~ (flt_overflow <= q)%Q.
Proof.
  intros D1 D2 ex v H m f scale Hes.
  assert (Hm : mantissa D1 D2 == inject_Z m / Qpower 10 f).
  { unfold mantissa. rewrite dec_val_pos. fold m. fold f.
    assert (P : (0 < 10 ^ f)%Z) by (apply Z.pow_pos_nonneg; unfold f; lia).
    rewrite Qmake_Qdiv. rewrite Z2Pos.id by exact P. rewrite inject_Z_pow10 by (unfold f; lia). reflexivity. }
  assert (G : forall q0, mk_flt q0 = Some v -> exists q, v = LFlt q /\ q == q0 /\ ~ (flt_overflow <= q)%Q).
  { intros q0 E. unfold mk_flt in E. destruct (Qle_bool flt_overflow q0) eqn:B; [discriminate|].
    injection E as <-. exists (Qred q0). split; [reflexivity|]. split; [apply Qred_correct|].
    rewrite Qred_correct. intro F. apply Qle_bool_iff in F. congruence. }
  unfold num_value in H. destruct ex as [[neg es]|].
  - assert (Hk : (0 <= pos_value 10 (map dval es))%Z).
    { apply pos_value_nonneg; [lia|]. rewrite Forall_forall. intros d Hd. apply in_map_iff in Hd.
      destruct Hd as (c & <- & Hc). unfold dval. lia. }
    rewrite dec_val_pos in H. destruct neg.
    + destruct (G _ H) as (q & -> & Eq & Nf). exists q. split; [reflexivity|]. split; [|exact Nf].
      rewrite Eq, Hm. unfold scale. rewrite inject_Z_pow10 by exact Hk. rewrite Qpower_opp. reflexivity.
    + destruct (G _ H) as (q & -> & Eq & Nf). exists q. split; [reflexivity|]. split; [|exact Nf].
      rewrite Eq, Hm. unfold scale. rewrite inject_Z_pow10 by exact Hk. reflexivity.
  - destruct (G _ H) as (q & -> & Eq & Nf). exists q. split; [reflexivity|]. split; [|exact Nf].
    rewrite Eq, Hm. unfold scale. rewrite Qmult_1_r. reflexivity.
Qed.

Transparent Qred.
(* d1 . d2 [exponent] read as one token *)
Lemma read_num_decimal : forall D1 D2 rest, forallb is_digit D1 = true -> forallb is_digit D2 = true ->
  is_nil D1 && is_nil D2 = false ->
  hd_fails is_digit rest -> (D2 = [] -> starts_dot rest = false) -> exp_match rest = None ->
  read_num (D1 ++ ch_dot :: D2 ++ rest)
  = nres_of (List.length D1 + 1 + List.length D2) (num_value D1 true D2 None).
Proof.
  intros D1 D2 rest H1 H2 Hn Hr Hs Hx. unfold read_num.
  assert (Bw : based_window (D1 ++ ch_dot :: D2 ++ rest) = false).
  { destruct D1 as [|c0 [|c1 D1']]; [simpl; destruct (D2 ++ rest) as [|c1 [|c2 r0]]; reflexivity| |].
    - simpl. destruct (D2 ++ rest); [reflexivity|]. rewrite andb_false_r. reflexivity.
    - simpl in H1. nb. cbn [app based_window]. destruct (D1' ++ ch_dot :: D2 ++ rest); [reflexivity|].
      rewrite (digit_not_base _ H0). rewrite andb_false_r. reflexivity. }
  rewrite Bw.
  pose proof (read_dec_of_parts D1 true D2 rest H1 H2 Hr (fun F => ltac:(discriminate)) Hn) as E.
  simpl app in E. rewrite E. unfold dec_result. rewrite Hx.
  destruct (is_nil D2) eqn:N2; [|reflexivity].
  destruct D2; [|discriminate]. rewrite (Hs eq_refl). reflexivity.
Qed.

Lemma read_num_decimal_sci : forall D1 D2 sg es rest,
  forallb is_digit D1 = true -> forallb is_digit D2 = true -> is_nil D1 && is_nil D2 = false ->
  forallb is_digit es = true -> es <> [] -> hd_fails is_digit rest ->
  (sg = [] \/ sg = [ch_plus] \/ sg = [ch_minus]) ->
  read_num (D1 ++ ch_dot :: D2 ++ ch_e :: sg ++ es ++ rest)
  = nres_of (List.length D1 + 1 + List.length D2 + (1 + List.length sg + List.length es))
      (num_value D1 true D2 (Some (match sg with [c] => (c =? ch_minus)%N | _ => false end, es))).
Proof.
  intros D1 D2 sg es rest H1 H2 Hn He Hne Hr Hs. unfold read_num.
  assert (Bw : based_window (D1 ++ ch_dot :: D2 ++ ch_e :: sg ++ es ++ rest) = false).
  { destruct D1 as [|c0 [|c1 D1']]; [simpl; destruct (D2 ++ ch_e :: sg ++ es ++ rest) as [|c1 [|c2 r0]]; reflexivity| |].
    - simpl. destruct (D2 ++ ch_e :: sg ++ es ++ rest); [reflexivity|]. rewrite andb_false_r. reflexivity.
    - simpl in H1. nb. cbn [app based_window]. destruct (D1' ++ ch_dot :: D2 ++ ch_e :: sg ++ es ++ rest); [reflexivity|].
      rewrite (digit_not_base _ H0). rewrite andb_false_r. reflexivity. }
  rewrite Bw.
  pose proof (read_dec_of_parts D1 true D2 (ch_e :: sg ++ es ++ rest) H1 H2 eq_refl
                (fun F => ltac:(discriminate)) Hn) as E.
  simpl app in E. rewrite E. unfold dec_result. rewrite (exp_match_of_parts sg es rest He Hne Hr Hs). reflexivity.
Qed.

(* based integers *)
Lemma read_num_based : forall bc hs rest, is_base_char bc = true -> hs <> [] ->
  forallb is_hex hs = true -> hd_fails is_hex rest ->
  read_num (48%N :: bc :: hs ++ rest)
  = if forallb (fun c => (hex_val c <? base_of bc)%Z) hs
    then NOk (2 + List.length hs) (LInt (pos_value (base_of bc) (map hex_val hs)))
    else NBad.
Proof.
  intros bc hs rest Hb Hn Hh Hr. unfold read_num.
  destruct (read_based_of_parts bc hs rest Hb Hn Hh Hr) as [Bw E]. rewrite Bw, E.
  destruct (forallb (fun c => (hex_val c <? base_of bc)%Z) hs) eqn:F.
  - rewrite (horner_ok _ _ _ F). simpl. reflexivity.
  - rewrite (horner_bad _ _ _ F). reflexivity.
Qed.

(* ================================================================== the lexer proper *)
Section WithClasses.
  Variables isspace isalpha isnumeric : N -> bool.
  Variables ctoks atoks : list text.
  Notation sigc := (sig_char ctoks).
  Notation rd := (read_token isalpha isnumeric ctoks atoks).
  Notation tk := (toks isspace isalpha isnumeric ctoks atoks).
  Notation hit := (entry_hit isalpha atoks).
  Notation scn := (scan isalpha atoks).

  Hypothesis Hclass : forall c, class_ok_b isspace isalpha isnumeric ctoks c = true.
  Hypothesis Hne : all_nonempty ctoks = true.
  Hypothesis Halpha : alpha_consistent ctoks atoks = true.

  (* ---------------------------------------------------------------- class facts *)
  Lemma cls_ws : forall c, isspace c = true -> sigc c = false /\ isalpha c = false /\ isnumeric c = false.
  Proof.
    intros c H. specialize (Hclass c). unfold class_ok_b in Hclass. rewrite H in Hclass.
    destruct (sigc c), (isalpha c), (isnumeric c); simpl in Hclass; try discriminate. auto.
  Qed.
  Lemma cls_letter : forall c, is_letter c = true -> isalpha c = true.
  Proof.
    intros c H. specialize (Hclass c). unfold class_ok_b in Hclass. rewrite H in Hclass.
    destruct (isalpha c); [reflexivity|]. simpl in Hclass. rewrite !andb_false_r in Hclass.
    rewrite ?andb_false_l in Hclass. discriminate.
  Qed.
  Lemma cls_sig_alpha : forall c, sigc c = true -> isalpha c = true -> ident_char c = true.
  Proof.
    intros c H1 H2. specialize (Hclass c). unfold class_ok_b in Hclass. rewrite H1, H2 in Hclass.
    destruct (ident_char c); [reflexivity|]. simpl in Hclass. rewrite !andb_false_r in Hclass.
    rewrite ?andb_false_l in Hclass. discriminate.
  Qed.
  Lemma cls_digit : forall c, is_digit c = true -> isnumeric c = true.
  Proof.
    intros c H. specialize (Hclass c). unfold class_ok_b in Hclass. rewrite H in Hclass.
    destruct (isnumeric c); [reflexivity|]. simpl in Hclass. rewrite !andb_false_r in Hclass.
    rewrite ?andb_false_l in Hclass. discriminate.
  Qed.
  Lemma cls_dot : isnumeric ch_dot = false.
  Proof.
    specialize (Hclass ch_dot). unfold class_ok_b in Hclass.
    destruct (isnumeric ch_dot); [|reflexivity]. simpl in Hclass. rewrite !andb_false_r in Hclass. discriminate.
  Qed.

  Lemma sig_ident : forall c, ident_char c = true -> sigc c = true.
  Proof. intros c H; unfold sig_char; rewrite H; rewrite ?orb_true_r; reflexivity. Qed.
  Lemma sig_tok : forall t c, In t ctoks -> In c t -> sigc c = true.
  Proof.
    intros t c Ht Hc. unfold sig_char. apply orb_true_iff; right.
    apply existsb_exists. exists t; split; [exact Ht|]. apply existsb_exists. exists c; split; [exact Hc|apply N.eqb_refl].
  Qed.
  Lemma ws_dead : forall w, isspace w = true -> dead w.
  Proof.
    intros w H. destruct (cls_ws _ H) as [S _]. unfold sig_char in S.
    repeat (apply orb_false_iff in S; destruct S as [S ?]).
    unfold dead. nb. repeat split; assumption.
  Qed.
  Lemma sig_not_ws : forall c, sigc c = true -> isspace c = false.
  Proof. intros c H; destruct (isspace c) eqn:E; [destruct (cls_ws _ E); congruence|reflexivity]. Qed.

  Lemma tok_nonempty : forall t, In t ctoks -> t <> [].
  Proof.
    intros t Ht. unfold all_nonempty in Hne. rewrite forallb_forall in Hne.
    specialize (Hne _ Ht). destruct t; [discriminate|discriminate].
  Qed.
  Lemma tok_alpha : forall t, In t ctoks -> mem t atoks = forallb is_letter t.
  Proof.
    intros t Ht. unfold alpha_consistent in Halpha. rewrite forallb_forall in Halpha.
    specialize (Halpha _ Ht). apply eqb_prop in Halpha. exact Halpha.
  Qed.

  (* ---------------------------------------------------------------- the constant-token scan *)
  Lemma scan_some : forall tbl r t, scn tbl r = Some t -> In t tbl /\ hit t r = true.
  Proof.
    induction tbl as [|t0 tl IH]; intros r t H; simpl in H; [discriminate|].
    destruct (hit t0 r) eqn:E.
    - injection H as <-. split; [left; reflexivity|exact E].
    - destruct (IH _ _ H) as [A B]. split; [right; exact A|exact B].
  Qed.
  Lemma scan_none : forall tbl r, scn tbl r = None -> forall t, In t tbl -> hit t r = false.
  Proof.
    induction tbl as [|t0 tl IH]; intros r H t Ht; simpl in *; [contradiction|].
    destruct (hit t0 r) eqn:E; [discriminate|]. destruct Ht as [<-|Ht]; [exact E|exact (IH _ H _ Ht)].
  Qed.
  Lemma hit_starts : forall t r, hit t r = true -> starts_with t r = true.
  Proof. intros t r H; unfold entry_hit in H; apply andb_true_iff in H; tauto. Qed.

  (* the first hit is the longest hit (C11_longest_const) *)
  Lemma scan_longest : forall tbl r t, order_ok atoks tbl = true -> scn tbl r = Some t ->
    forall t', In t' tbl -> hit t' r = true -> List.length t' <= List.length t.
  Proof.
    induction tbl as [|t0 tl IH]; intros r t Ho H t' Ht' Hh; simpl in *; [contradiction|].
    apply andb_true_iff in Ho; destruct Ho as [Ho1 Ho2].
    destruct (hit t0 r) eqn:E.
    - injection H as <-. destruct Ht' as [<-|Ht']; [lia|].
      destruct (le_lt_dec (List.length t') (List.length t0)) as [L|L]; [exact L|exfalso].
      rewrite forallb_forall in Ho1. specialize (Ho1 _ Ht').
      pose proof (hit_starts _ _ E) as S0. pose proof (hit_starts _ _ Hh) as S1.
      apply starts_with_app in S0; destruct S0 as [y0 E0]. apply starts_with_app in S1; destruct S1 as [y1 E1].
      assert (Ep : exists z, t' = t0 ++ z /\ y0 = z ++ y1).
      { rewrite E0 in E1. destruct (app_split_le t0 y0 t' y1 E1) as (z & A & B); [lia|]. exists z; auto. }
      destruct Ep as (z & -> & ->).
      assert (PP : proper_prefix t0 (t0 ++ z) = true).
      { unfold proper_prefix. apply andb_true_iff; split; [apply starts_with_app; exists z; reflexivity|].
        apply Nat.ltb_lt. exact L. }
      rewrite PP in Ho1. simpl in Ho1. apply andb_true_iff in Ho1. destruct Ho1 as [Hm Hl].
      destruct z as [|c z]; [rewrite app_nil_r in L; lia|].
      rewrite app_nth2 in Hl by lia. rewrite Nat.sub_diag in Hl. simpl in Hl.
      unfold entry_hit in E. rewrite Hm in E. simpl in E.
      rewrite E0 in E. rewrite skipn_app_exact in E. simpl in E.
      rewrite (cls_letter _ Hl) in E. simpl in E. rewrite andb_false_r in E. discriminate.
    - destruct Ht' as [<-|Ht']; [congruence|]. exact (IH _ _ Ho2 H _ Ht' Hh).
  Qed.

  Lemma starts_with_prefix_ins : forall t a b w x, List.length t <= List.length a ->
    starts_with t (a ++ w :: x) = starts_with t (a ++ b).
  Proof.
    induction t as [|c t IH]; intros a b w x L; simpl; [reflexivity|].
    destruct a as [|y a]; simpl in *; [lia|]. rewrite (IH a b w x) by lia. reflexivity.
  Qed.
  Lemma skipn_short_app : forall k (a b : text), k < List.length a ->
    exists z r, skipn k (a ++ b) = z :: r ++ b /\ skipn k a = z :: r.
  Proof.
    induction k as [|k IH]; intros a b L; destruct a as [|y a]; simpl in *; try lia.
    - exists y, a; split; reflexivity.
    - destruct (IH a b) as (z & r & A & B); [lia|]. exists z, r; split; assumption.
  Qed.

  Lemma hit_ins_true : forall t a b w x, isspace w = true ->
    hit t (a ++ b) = true -> List.length t <= List.length a -> hit t (a ++ w :: x) = true.
  Proof.
    intros t a b w x Hw H L. unfold entry_hit in *. apply andb_true_iff in H; destruct H as [S A].
    rewrite (starts_with_prefix_ins t a b w x L), S. simpl.
    destruct (negb (mem t atoks)); [reflexivity|]. simpl in *.
    destruct (Nat.eq_dec (List.length t) (List.length a)) as [El|Nl].
    - rewrite El, skipn_app_exact. simpl. destruct (cls_ws _ Hw) as (_ & Al & _). rewrite Al. reflexivity.
    - destruct (skipn_short_app (List.length t) a b) as (z & r & E1 & _); [lia|].
      destruct (skipn_short_app (List.length t) a (w :: x)) as (z' & r' & E1' & E2'); [lia|].
      destruct (skipn_short_app (List.length t) a b) as (z2 & r2 & _ & E2); [lia|].
      rewrite E2 in E2'. injection E2' as <- <-. rewrite E1'. rewrite E1 in A.
      destruct (skipn_short_app (List.length t) a b) as (z3 & r3 & E3 & E4); [lia|].
      rewrite E3 in E1. rewrite E4 in E2. injection E2 as -> ->. injection E1 as -> _. exact A.
  Qed.

  (* an entry that is not a hit before the insertion can become one only in the situation
     "an alphabetic token exactly as long as [a], followed in [b] by a letter" *)
  Lemma hit_ins_false : forall t a b w x, isspace w = true -> In t ctoks ->
    hit t (a ++ b) = false ->
    (List.length t = List.length a -> starts_with t a = true -> mem t atoks = true ->
       next_not_alpha isalpha b = true) ->
    hit t (a ++ w :: x) = false.
  Proof.
    intros t a b w x Hw Ht H Hx. destruct (hit t (a ++ w :: x)) eqn:E; [exfalso|reflexivity].
    unfold entry_hit in *. apply andb_true_iff in E; destruct E as [S A].
    destruct (le_lt_dec (List.length t) (List.length a)) as [L|L].
    - rewrite (starts_with_prefix_ins t a b w x L) in S. rewrite S in H. simpl in H.
      destruct (mem t atoks) eqn:M; simpl in *; [|discriminate].
      destruct (Nat.eq_dec (List.length t) (List.length a)) as [El|Nl].
      + rewrite El, skipn_app_exact in H. rewrite Hx in H; [discriminate|exact El| |reflexivity].
        apply starts_with_app in S. destruct S as [y Ey]. apply starts_with_app.
        destruct (app_split_le t y a b (eq_sym Ey)) as (z & Ez & _); [lia|]. exists z; exact Ez.
      + destruct (skipn_short_app (List.length t) a b) as (z & r & E1 & E2); [lia|].
        destruct (skipn_short_app (List.length t) a (w :: x)) as (z' & r' & E1' & E2'); [lia|].
        rewrite E2 in E2'. injection E2' as <- <-. rewrite E1 in H. rewrite E1' in A. simpl in *. congruence.
    - apply starts_with_app in S. destruct S as [y Ey].
      destruct (app_split_le a (w :: x) t y Ey) as (z & Ez & Ew); [lia|].
      destruct z as [|z0 z]; [rewrite app_nil_r in Ez; subst t; lia|]. injection Ew as <- _.
      assert (Sg : sigc w = true) by (apply (sig_tok t w Ht); rewrite Ez; apply in_or_app; right; left; reflexivity).
      destruct (cls_ws _ Hw) as [Sf _]. congruence.
  Qed.

  Lemma all_letters_prefix : forall (t z : text), forallb is_letter (t ++ z) = true -> forallb is_letter t = true.
  Proof. intros t z H; rewrite forallb_app in H; apply andb_true_iff in H; tauto. Qed.

  Lemma scan_ins_some : forall tbl a b w x t, incl tbl ctoks -> isspace w = true ->
    scn tbl (a ++ b) = Some t -> List.length t <= List.length a ->
    scn tbl (a ++ w :: x) = Some t.
  Proof.
    induction tbl as [|t0 tl IH]; intros a b w x t Hi Hw H L; simpl in *; [discriminate|].
    assert (Hi0 : In t0 ctoks) by (apply Hi; left; reflexivity).
    assert (Hil : incl tl ctoks) by (intros u Hu; apply Hi; right; exact Hu).
    destruct (hit t0 (a ++ b)) eqn:E.
    - injection H as <-. rewrite (hit_ins_true t0 a b w x Hw E L). reflexivity.
    - rewrite (hit_ins_false t0 a b w x Hw Hi0 E); [exact (IH a b w x t Hil Hw H L)|].
      (* t0 alphabetic, exactly a, followed by a letter: then t, a prefix of t0 made of letters, is blocked too *)
      intros El S0 M0. exfalso.
      destruct (scan_some _ _ _ H) as [Ht Hh].
      assert (Htc : In t ctoks) by (apply Hil; exact Ht).
      pose proof (hit_starts _ _ Hh) as S1.
      assert (Ea : t0 = a).
      { apply starts_with_firstn in S0. rewrite El, firstn_all in S0. symmetry; exact S0. }
      subst a. apply starts_with_app in S1. destruct S1 as [y Ey].
      destruct (app_split_le t y t0 b (eq_sym Ey)) as (z & Ez & Eyz); [lia|].
      rewrite (tok_alpha _ Hi0) in M0. rewrite Ez in M0.
      assert (Mt : mem t atoks = true) by (rewrite (tok_alpha _ Htc); exact (all_letters_prefix _ _ M0)).
      destruct z as [|c z].
      + rewrite app_nil_r in Ez. subst t0. congruence.
      + unfold entry_hit in Hh. rewrite Mt in Hh. simpl in Hh. apply andb_true_iff in Hh. destruct Hh as [_ Hh].
        rewrite Ey, skipn_app_exact, Eyz in Hh. simpl in Hh.
        rewrite forallb_app in M0. apply andb_true_iff in M0. destruct M0 as [_ M0]. simpl in M0.
        apply andb_true_iff in M0. destruct M0 as [M0 _]. rewrite (cls_letter _ M0) in Hh. discriminate.
  Qed.

  Lemma scan_ins_none : forall tbl a b w x, incl tbl ctoks -> isspace w = true ->
    scn tbl (a ++ b) = None ->
    (forallb is_letter a = true -> next_not_alpha isalpha b = true) ->
    scn tbl (a ++ w :: x) = None.
  Proof.
    induction tbl as [|t0 tl IH]; intros a b w x Hi Hw H Hx; simpl in *; [reflexivity|].
    assert (Hi0 : In t0 ctoks) by (apply Hi; left; reflexivity).
    assert (Hil : incl tl ctoks) by (intros u Hu; apply Hi; right; exact Hu).
    destruct (hit t0 (a ++ b)) eqn:E; [discriminate|].
    rewrite (hit_ins_false t0 a b w x Hw Hi0 E); [exact (IH a b w x Hil Hw H Hx)|].
    intros El S0 M0. apply Hx.
    apply starts_with_firstn in S0. rewrite El, firstn_all in S0. subst a.
    rewrite (tok_alpha _ Hi0) in M0. exact M0.
  Qed.

  (* ---------------------------------------------------------------- read_token *)
  Lemma read_num_first : forall c x n v, read_num (c :: x) = NOk n v -> is_digit c = true \/ c = ch_dot.
  Proof.
    intros c x n v H. unfold read_num in H. destruct (based_window (c :: x)) eqn:Bw.
    - destruct (based_window_inv _ Bw) as (bc & hs & R & E & _). injection E as -> _. left; reflexivity.
    - destruct (is_digit c) eqn:Dc; [left; reflexivity|right].
      rewrite read_dec_eq in H.
      assert (E1 : p_d1 (c :: x) = []) by (unfold p_d1; simpl; rewrite Dc; reflexivity).
      assert (E2 : p_r1 (c :: x) = c :: x) by (unfold p_r1; simpl; rewrite Dc; reflexivity).
      destruct (c =? ch_dot)%N eqn:Ed; [apply N.eqb_eq in Ed; exact Ed|exfalso].
      assert (E3 : p_dot (c :: x) = false) by (unfold p_dot; rewrite E2; simpl; exact Ed).
      destruct (dec_parts (c :: x)) as (_ & _ & _ & _ & H4). destruct (H4 E3) as [E4 _].
      rewrite E1, E4 in H. simpl in H. discriminate.
  Qed.

  Lemma read_token_bounds : forall r tg n v, rd r = RTok tg n v -> 1 <= n <= List.length r.
  Proof.
    intros r tg n v H. unfold read_token in H. destruct r as [|c t]; [discriminate|].
    destruct (c =? ch_quote)%N.
    { destruct (str_end t) as [k|] eqn:E; [|discriminate]. injection H as <- <- <-.
      destruct (str_end_closed _ _ E) as (L & _). simpl; lia. }
    destruct (c =? ch_hash)%N.
    { destruct (inst_end t) as [k|] eqn:E; [|discriminate]. injection H as <- <- <-.
      destruct (inst_end_closed _ _ E) as (L & _). simpl; lia. }
    destruct (num_start isnumeric (c :: t)).
    { destruct (read_num (c :: t)) eqn:E; [|discriminate]. injection H as <- <- <-.
      apply read_num_bounds in E. tauto. }
    destruct (scn ctoks (c :: t)) as [tk0|] eqn:E.
    - injection H as <- <- <-. destruct (scan_some _ _ _ E) as [A B]. split.
      + pose proof (tok_nonempty _ A). destruct tk0; [congruence|simpl; lia].
      + apply starts_with_len. apply hit_starts with (1 := B).
    - destruct (ident_start c); [|discriminate]. injection H as <- <- <-. split; [lia|].
      simpl. pose proof (takew_len ident_char t). lia.
  Qed.

  Lemma read_token_sig : forall c x tg n v, rd (c :: x) = RTok tg n v -> sigc c = true.
  Proof.
    intros c x tg n v H. unfold read_token in H.
    destruct (c =? ch_quote)%N eqn:Eq; [unfold sig_char; rewrite Eq; reflexivity|].
    destruct (c =? ch_hash)%N eqn:Eh; [unfold sig_char; rewrite Eh; rewrite ?orb_true_r; reflexivity|].
    destruct (num_start isnumeric (c :: x)).
    { destruct (read_num (c :: x)) eqn:E; [|discriminate].
      destruct (read_num_first _ _ _ _ E) as [D| ->]; [apply sig_ident, digit_ident; exact D|reflexivity]. }
    destruct (scn ctoks (c :: x)) as [tk0|] eqn:E.
    - destruct (scan_some _ _ _ E) as [A B]. apply hit_starts in B.
      pose proof (tok_nonempty _ A). destruct tk0 as [|c0 tk1]; [congruence|].
      simpl in B. apply andb_true_iff in B. destruct B as [B _]. apply N.eqb_eq in B. subst c0.
      apply (sig_tok _ _ A). left; reflexivity.
    - destruct (ident_start c) eqn:Ei; [|discriminate]. apply sig_ident, ident_start_char; exact Ei.
  Qed.

  (* what may follow a token without changing how the token itself is read when a whitespace
     character is put in between: nothing, or a character that is not "alphabetic but not an
     identifier character" (é after the identifier "to" would be such a character) *)
  Definition nxt_ok (b : text) : Prop :=
    match b with [] => True | c :: _ => isalpha c = true -> ident_char c = true end.

  Lemma firstn_app_le : forall k (a b : text), k <= List.length a -> firstn k (a ++ b) = firstn k a.
  Proof.
    intros k a b L. rewrite firstn_app. replace (k - List.length a) with 0 by lia. simpl. apply app_nil_r.
  Qed.

  Lemma read_token_ins : forall a b w x tg n v, isspace w = true ->
    rd (a ++ b) = RTok tg n v -> n <= List.length a ->
    (List.length a = n -> nxt_ok b) ->
    (tg = TNum -> List.length a = S n -> starts_dot (skipn n a) = true -> starts_dot b = false) ->
    rd (a ++ w :: x) = RTok tg n v.
  Proof.
    intros a b w x tg n v Hw H Hn Hnx Hdd.
    pose proof (read_token_bounds _ _ _ _ H) as [Hn1 _].
    pose proof (ws_dead _ Hw) as Hd.
    destruct a as [|c a1]; [simpl in Hn; lia|]. simpl app in *. unfold read_token in *.
    destruct (c =? ch_quote)%N.
    { destruct (str_end (a1 ++ b)) as [k|] eqn:E; [|discriminate]. injection H as <- <- <-.
      destruct (str_end_closed _ _ E) as (_ & _ & B). simpl in Hn.
      assert (Lk : S k <= List.length a1) by lia.
      specialize (B (skipn (S k) a1 ++ w :: x)).
      rewrite firstn_app_le in B by exact Lk. rewrite app_assoc, firstn_skipn in B. rewrite B.
      rewrite !firstn_app_le by lia. reflexivity. }
    destruct (c =? ch_hash)%N.
    { destruct (inst_end (a1 ++ b)) as [k|] eqn:E; [|discriminate]. injection H as <- <- <-.
      destruct (inst_end_closed _ _ E) as (_ & _ & _ & B). simpl in Hn.
      assert (Lk : S k <= List.length a1) by lia.
      specialize (B (skipn (S k) a1 ++ w :: x)).
      rewrite firstn_app_le in B by exact Lk. rewrite app_assoc, firstn_skipn in B. rewrite B.
      rewrite !firstn_app_le by lia. reflexivity. }
    destruct (num_start isnumeric (c :: a1 ++ b)) eqn:Ns.
    { destruct (read_num (c :: a1 ++ b)) as [m l|] eqn:E; [|discriminate]. injection H as <- <- <-.
      assert (Ns' : num_start isnumeric (c :: a1 ++ w :: x) = true).
      { unfold num_start in *. destruct (isnumeric c) eqn:Nc; [reflexivity|]. simpl in *.
        destruct (c =? ch_dot)%N eqn:Ed; [|discriminate]. simpl in *.
        destruct a1 as [|c1 a2]; [|exact Ns].
        apply N.eqb_eq in Ed; subst c. apply read_num_dot in E. simpl in Hn. lia. }
      rewrite Ns'.
      change (c :: a1 ++ w :: x) with ((c :: a1) ++ w :: x).
      rewrite (read_num_ins (c :: a1) b w x m l Hd E Hn); [reflexivity|].
      intros A B. apply Hdd; [reflexivity|exact A|exact B]. }
    assert (Ns' : num_start isnumeric (c :: a1 ++ w :: x) = false).
    { unfold num_start in *. destruct (isnumeric c) eqn:Nc; [discriminate|]. simpl in *.
      destruct (c =? ch_dot)%N eqn:Ed; [|reflexivity]. simpl in *.
      destruct a1 as [|c1 a2]; [|exact Ns]. simpl. destruct (cls_ws _ Hw) as (_ & _ & Nw). exact Nw. }
    rewrite Ns'.
    change (c :: a1 ++ b) with ((c :: a1) ++ b) in *. change (c :: a1 ++ w :: x) with ((c :: a1) ++ w :: x).
    destruct (scn ctoks ((c :: a1) ++ b)) as [tk0|] eqn:E.
    - injection H as <- <- <-.
      rewrite (scan_ins_some ctoks (c :: a1) b w x tk0 (incl_refl _) Hw E Hn). reflexivity.
    - destruct (ident_start c) eqn:Ei; [|discriminate]. injection H as <- <- <-.
      simpl in Hn.
      assert (Hl : List.length (takew ident_char (a1 ++ b)) <= List.length a1) by lia.
      destruct Hd as (Hdi & _).
      destruct (takew_ins ident_char a1 b w x Hdi Hl) as (E1 & _ & _).
      rewrite (scan_ins_none ctoks (c :: a1) b w x (incl_refl _) Hw E); [rewrite E1; reflexivity|].
      intro Hall. simpl in Hall. apply andb_true_iff in Hall. destruct Hall as [_ Hall].
      assert (Hid : forallb ident_char a1 = true).
      { rewrite forallb_forall in *. intros z Hz. apply letter_ident. apply Hall; exact Hz. }
      rewrite (takew_ge ident_char a1 b Hid) in Hl. rewrite app_length in Hl.
      assert (Et : takew ident_char b = []) by (destruct (takew ident_char b); [reflexivity|simpl in Hl; lia]).
      destruct b as [|z b']; [reflexivity|]. simpl in Et. destruct (ident_char z) eqn:Iz; [discriminate|].
      simpl. assert (Hq : nxt_ok (z :: b')).
      { apply Hnx. rewrite (takew_ge ident_char a1 (z :: b') Hid), app_length. simpl. rewrite Iz. simpl. lia. }
      simpl in Hq. destruct (isalpha z); [rewrite Hq in Iz by reflexivity; discriminate|reflexivity].
  Qed.

  (* ---------------------------------------------------------------- lexemes *)
  Lemma firstn_S_nth : forall k (t : text) c, nth_error t k = Some c -> firstn (S k) t = firstn k t ++ [c].
  Proof.
    induction k as [|k IH]; intros t c H; destruct t as [|y t]; simpl in *; try discriminate.
    - injection H as ->; reflexivity.
    - rewrite (IH _ _ H); reflexivity.
  Qed.

  Lemma read_token_lexeme_basic : forall r tg n v, rd r = RTok tg n v ->
    match tg with
    | TConst t => firstn n r = t /\ In t ctoks /\ v = VNone
    | TVar => v = VText (firstn n r) /\ forallb ident_char (firstn n r) = true
              /\ (exists c cs, firstn n r = c :: cs /\ ident_start c = true)
              /\ hd_fails ident_char (skipn n r)
    | TStr => exists body, firstn n r = ch_quote :: body ++ [ch_quote] /\ v = VText body
    | TInst => exists body, firstn n r = ch_hash :: body ++ [ch_hash] /\ v = VText body /\ ~ In ch_hash body
    | TNum => exists l, v = VLit l /\ read_num r = NOk n l
    end.
  Proof.
    intros r tg n v H. unfold read_token in H. destruct r as [|c t]; [discriminate|].
    destruct (c =? ch_quote)%N eqn:Eq.
    { destruct (str_end t) as [k|] eqn:E; [|discriminate]. injection H as <- <- <-.
      apply N.eqb_eq in Eq; subst c. destruct (str_end_closed _ _ E) as (L & A & _).
      exists (firstn k t). split; [|reflexivity].
      replace (k + 2) with (S (S k)) by lia. rewrite firstn_cons, (firstn_S_nth _ _ _ A). reflexivity. }
    destruct (c =? ch_hash)%N eqn:Eh.
    { destruct (inst_end t) as [k|] eqn:E; [|discriminate]. injection H as <- <- <-.
      apply N.eqb_eq in Eh; subst c. destruct (inst_end_closed _ _ E) as (L & A & NI & _).
      exists (firstn k t). split; [|split; [reflexivity|exact NI]].
      replace (k + 2) with (S (S k)) by lia. rewrite firstn_cons, (firstn_S_nth _ _ _ A). reflexivity. }
    destruct (num_start isnumeric (c :: t)).
    { destruct (read_num (c :: t)) as [m l|] eqn:E; [|discriminate]. injection H as <- <- <-.
      exists l; split; reflexivity. }
    destruct (scn ctoks (c :: t)) as [tk0|] eqn:E.
    - injection H as <- <- <-. destruct (scan_some _ _ _ E) as [A B].
      split; [apply starts_with_firstn; apply hit_starts with (1 := B)|]. split; [exact A|reflexivity].
    - destruct (ident_start c) eqn:Ei; [|discriminate]. injection H as <- <- <-.
      assert (Ef : firstn (S (List.length (takew ident_char t))) (c :: t) = c :: takew ident_char t).
      { cbn [firstn]. f_equal. rewrite <- (takew_dropw ident_char t) at 2. apply firstn_app_exact. }
      rewrite Ef. split; [reflexivity|]. split.
      + simpl. rewrite (ident_start_char _ Ei). apply takew_all.
      + split; [exists c, (takew ident_char t); split; [reflexivity|exact Ei]|].
        cbn [skipn]. rewrite <- dropw_skipn. apply dropw_hd.
  Qed.

  (* ---------------------------------------------------------------- tokenise: unfolding, fuel *)
  Lemma toks_S : forall f off r, tk (S f) off r =
    match dropw isspace r with
    | [] => LOk []
    | _ :: _ =>
        match rd (dropw isspace r) with
        | RErr e => LErr e (off + List.length (takew isspace r))
        | RNone => LErr UnknownTokenError (off + List.length (takew isspace r))
        | RTok tg n v =>
            match tk f (off + List.length (takew isspace r) + n) (skipn n (dropw isspace r)) with
            | LOk ts => LOk (mkTok tg (off + List.length (takew isspace r))
                                   (off + List.length (takew isspace r) + n) v :: ts)
            | LErr e j => LErr e j
            end
        end
    end.
  Proof. reflexivity. Qed.

  Definition fuel_ok (res : lres (list token)) : Prop :=
    match res with LErr LexOutOfFuel _ => False | _ => True end.

  Lemma toks_fuel_enough : forall f off r, List.length r < f -> fuel_ok (tk f off r).
  Proof.
    induction f as [|f IH]; intros off r L; [lia|]. rewrite toks_S.
    destruct (dropw isspace r) as [|c t] eqn:Ed; [exact I|].
    destruct (rd (c :: t)) as [tg n v| |e] eqn:Er.
    - pose proof (read_token_bounds _ _ _ _ Er) as [B1 B2].
      assert (Lr : List.length (c :: t) <= List.length r).
      { pose proof (takew_dropw isspace r) as Etd. rewrite Ed in Etd.
        apply (f_equal (@List.length N)) in Etd. rewrite app_length in Etd. lia. }
      specialize (IH (off + List.length (takew isspace r) + n) (skipn n (c :: t))).
      rewrite skipn_length in IH. specialize (IH ltac:(lia)).
      destruct (tk f _ (skipn n (c :: t))) as [ts|e j]; [exact I|]. destruct e; simpl in *; auto.
    - exact I.
    - unfold read_token in Er.
      destruct (c =? ch_quote)%N; [destruct (str_end t); [discriminate|injection Er as <-; exact I]|].
      destruct (c =? ch_hash)%N; [destruct (inst_end t); [discriminate|injection Er as <-; exact I]|].
      destruct (num_start isnumeric (c :: t)); [destruct (read_num (c :: t)); [discriminate|injection Er as <-; exact I]|].
      destruct (scn ctoks (c :: t)); [discriminate|]. destruct (ident_start c); discriminate.
  Qed.

  Lemma read_token_err_fuel : forall r e, rd r = RErr e -> e <> LexOutOfFuel.
  Proof.
    intros r e Er. unfold read_token in Er. destruct r as [|c t]; [discriminate|].
    destruct (c =? ch_quote)%N; [destruct (str_end t); [discriminate|injection Er as <-; discriminate]|].
    destruct (c =? ch_hash)%N; [destruct (inst_end t); [discriminate|injection Er as <-; discriminate]|].
    destruct (num_start isnumeric (c :: t)); [destruct (read_num (c :: t)); [discriminate|injection Er as <-; discriminate]|].
    destruct (scn ctoks (c :: t)); [discriminate|]. destruct (ident_start c); discriminate.
  Qed.

  (* more fuel never changes a result that is not "out of fuel" *)
  Lemma toks_fuel_mono : forall f f' off r, fuel_ok (tk f off r) -> f <= f' -> tk f' off r = tk f off r.
  Proof.
    induction f as [|f IH]; intros f' off r Ho L; [simpl in Ho; contradiction|].
    destruct f' as [|f']; [lia|]. rewrite !toks_S in *.
    destruct (dropw isspace r) as [|c t]; [reflexivity|].
    destruct (rd (c :: t)) as [tg n v| |e]; try reflexivity.
    rewrite (IH f' _ _); [reflexivity| |lia].
    destruct (tk f _ (skipn n (c :: t))) as [ts|e j]; [exact I|]. destruct e; simpl in *; auto.
  Qed.

  Definition shift_tok (d : nat) (t : token) : token :=
    mkTok (t_tag t) (t_begin t + d) (t_end t + d) (t_val t).

  Lemma toks_shift : forall f off r ts d, tk f off r = LOk ts ->
    tk f (off + d) r = LOk (map (shift_tok d) ts).
  Proof.
    induction f as [|f IH]; intros off r ts d H; [discriminate|]. rewrite toks_S in *.
    destruct (dropw isspace r) as [|c t]; [injection H as <-; reflexivity|].
    destruct (rd (c :: t)) as [tg n v| |e]; try discriminate.
    destruct (tk f (off + List.length (takew isspace r) + n) (skipn n (c :: t))) as [ts1|e j] eqn:E; [|discriminate].
    injection H as <-.
    replace (off + d + List.length (takew isspace r)) with (off + List.length (takew isspace r) + d) by lia.
    replace (off + List.length (takew isspace r) + d + n) with (off + List.length (takew isspace r) + n + d) by lia.
    rewrite (IH _ _ _ d E). reflexivity.
  Qed.

  (* ---------------------------------------------------------------- faithful segmentation *)
  Definition sub (s : text) (a b : nat) : text := firstn (b - a) (skipn a s).
  Definition all_ws (l : text) : Prop := Forall (fun c => isspace c = true) l.

  Fixpoint spans_ok (pos fin : nat) (ts : list token) : Prop :=
    match ts with
    | [] => pos <= fin
    | t :: ts' => pos <= t_begin t /\ t_begin t < t_end t /\ spans_ok (t_end t) fin ts'
    end.
  Fixpoint gaps_ws (s : text) (pos : nat) (ts : list token) : Prop :=
    match ts with
    | [] => all_ws (sub s pos (List.length s))
    | t :: ts' => all_ws (sub s pos (t_begin t)) /\ gaps_ws s (t_end t) ts'
    end.
  Fixpoint reassemble (s : text) (pos : nat) (ts : list token) : text :=
    match ts with
    | [] => sub s pos (List.length s)
    | t :: ts' => sub s pos (t_begin t) ++ sub s (t_begin t) (t_end t) ++ reassemble s (t_end t) ts'
    end.
  Definition token_at (s : text) (t : token) : Prop :=
    rd (skipn (t_begin t) s) = RTok (t_tag t) (t_end t - t_begin t) (t_val t).

  Lemma skipn_skipn' : forall (y x : nat) (l : text), skipn x (skipn y l) = skipn (x + y) l.
  Proof.
    induction y as [|y IH]; intros x l; [rewrite Nat.add_0_r; reflexivity|].
    destruct l as [|c l]; [rewrite !skipn_nil; reflexivity|]. rewrite Nat.add_succ_r. simpl. apply IH.
  Qed.
  Lemma sub_skipn : forall (s : text) a b, a <= b -> sub s a b ++ skipn b s = skipn a s.
  Proof.
    intros s a b L. unfold sub. replace b with ((b - a) + a) at 2 by lia.
    rewrite <- skipn_skipn'. apply firstn_skipn.
  Qed.
  Lemma spans_reassemble : forall s ts pos, spans_ok pos (List.length s) ts -> reassemble s pos ts = skipn pos s.
  Proof.
    intros s ts; induction ts as [|t ts IH]; intros pos H; simpl in *.
    - unfold sub. apply firstn_all2. rewrite skipn_length. lia.
    - destruct H as (H1 & H2 & H3). rewrite (IH _ H3). rewrite sub_skipn by lia. apply sub_skipn; exact H1.
  Qed.
  Lemma spans_ok_le : forall ts pos fin, spans_ok pos fin ts -> pos <= fin.
  Proof.
    induction ts as [|t ts IH]; intros pos fin H; simpl in *; [exact H|].
    destruct H as (H1 & H2 & H3). specialize (IH _ _ H3). lia.
  Qed.
  Lemma forallb_all_ws : forall l, forallb isspace l = true -> all_ws l.
  Proof. intros l H. unfold all_ws. rewrite Forall_forall. rewrite forallb_forall in H. exact H. Qed.

  Lemma toks_faithful : forall f off r ts, tk f off r = LOk ts ->
    forall pre, List.length pre = off ->
    spans_ok off (List.length (pre ++ r)) ts /\ gaps_ws (pre ++ r) off ts
    /\ Forall (token_at (pre ++ r)) ts.
  Proof.
    induction f as [|f IH]; intros off r ts H pre Hp; [discriminate|]. rewrite toks_S in H.
    pose proof (takew_dropw isspace r) as Er. pose proof (takew_all isspace r) as HW0.
    remember (takew isspace r) as W eqn:EW. remember (dropw isspace r) as r1 eqn:E1. clear EW E1.
    assert (HW : all_ws W) by (apply forallb_all_ws; exact HW0).
    destruct r1 as [|c t].
    - injection H as <-. simpl. rewrite app_nil_r in Er. subst r.
      split; [rewrite app_length; lia|]. split; [|constructor].
      unfold sub. rewrite <- Hp, skipn_app_exact. rewrite firstn_all2; [exact HW|rewrite app_length; lia].
    - destruct (rd (c :: t)) as [tg n v| |e] eqn:Et; try discriminate.
      destruct (tk f (off + List.length W + n) (skipn n (c :: t))) as [ts1|e j] eqn:E; [|discriminate].
      injection H as <-.
      pose proof (read_token_bounds _ _ _ _ Et) as [B1 B2].
      set (pre2 := pre ++ W ++ firstn n (c :: t)).
      assert (Es : pre ++ r = pre2 ++ skipn n (c :: t)).
      { unfold pre2. rewrite <- !app_assoc. rewrite firstn_skipn. rewrite <- Er. reflexivity. }
      assert (Lp : List.length pre2 = off + List.length W + n).
      { unfold pre2. rewrite !app_length, firstn_length_le by exact B2. lia. }
      destruct (IH _ _ _ E pre2 Lp) as (S1 & S2 & S3). rewrite <- Es in *.
      assert (Esk : skipn (off + List.length W) (pre ++ r) = c :: t).
      { rewrite <- Er. rewrite app_assoc. rewrite <- Hp, <- app_length. apply skipn_app_exact. }
      simpl. split; [|split].
      + split; [lia|]. split; [lia|exact S1].
      + split; [|exact S2]. unfold sub. rewrite <- Hp, skipn_app_exact.
        replace (List.length pre + List.length W - List.length pre) with (List.length W) by lia.
        rewrite <- Er. rewrite firstn_app_exact. exact HW.
      + constructor; [|exact S3]. unfold token_at. simpl.
        rewrite Esk. replace (off + List.length W + n - (off + List.length W)) with n by lia. exact Et.
  Qed.

  (* ---------------------------------------------------------------- error positions *)
  Lemma toks_error_at : forall f off r e i, tk f off r = LErr e i -> e <> LexOutOfFuel ->
    forall pre, List.length pre = off ->
    off <= i < List.length (pre ++ r)
    /\ (rd (skipn i (pre ++ r)) = RErr e \/ (rd (skipn i (pre ++ r)) = RNone /\ e = UnknownTokenError))
    /\ hd_fails isspace (skipn i (pre ++ r)) /\ skipn i (pre ++ r) <> [].
  Proof.
    induction f as [|f IH]; intros off r e i H Hf pre Hp; [simpl in H; injection H as <- _; congruence|].
    rewrite toks_S in H.
    pose proof (takew_dropw isspace r) as Er. pose proof (dropw_hd isspace r) as Hh.
    remember (takew isspace r) as W eqn:EW. remember (dropw isspace r) as r1 eqn:E1. clear EW E1.
    destruct r1 as [|c t]; [discriminate|].
    assert (Esk : skipn (off + List.length W) (pre ++ r) = c :: t).
    { rewrite <- Er. rewrite app_assoc. rewrite <- Hp, <- app_length. apply skipn_app_exact. }
    assert (Ll : off + List.length W < List.length (pre ++ r)).
    { rewrite <- Er. rewrite !app_length. simpl. lia. }
    destruct (rd (c :: t)) as [tg n v| |e0] eqn:Et.
    - destruct (tk f (off + List.length W + n) (skipn n (c :: t))) as [ts1|e1 j] eqn:E; [discriminate|].
      injection H as <- <-.
      pose proof (read_token_bounds _ _ _ _ Et) as [B1 B2].
      set (pre2 := pre ++ W ++ firstn n (c :: t)).
      assert (Es : pre ++ r = pre2 ++ skipn n (c :: t)).
      { unfold pre2. rewrite <- !app_assoc. rewrite firstn_skipn. rewrite <- Er. reflexivity. }
      assert (Lp : List.length pre2 = off + List.length W + n).
      { unfold pre2. rewrite !app_length, firstn_length_le by exact B2. lia. }
      destruct (IH _ _ _ _ E Hf pre2 Lp) as (S1 & S2). rewrite <- Es in *. split; [lia|exact S2].
    - injection H as <- <-. rewrite Esk. split; [lia|]. split; [right; split; [exact Et|reflexivity]|].
      split; [exact Hh|discriminate].
    - injection H as <- <-. rewrite Esk. split; [lia|]. split; [left; exact Et|].
      split; [exact Hh|discriminate].
  Qed.

  Lemma read_token_unclosed : forall r,
    (rd r = RErr UnclosedStringError -> exists t, r = ch_quote :: t /\ str_end t = None)
    /\ (rd r = RErr UnclosedInstantError -> exists t, r = ch_hash :: t /\ ~ In ch_hash t).
  Proof.
    intro r. unfold read_token. destruct r as [|c t]; [split; discriminate|].
    destruct (c =? ch_quote)%N eqn:Eq.
    { apply N.eqb_eq in Eq; subst c. destruct (str_end t) eqn:E; split; try discriminate.
      intros _. exists t; split; [reflexivity|exact E]. }
    destruct (c =? ch_hash)%N eqn:Eh.
    { apply N.eqb_eq in Eh; subst c. destruct (inst_end t) eqn:E; split; try discriminate.
      intros _. exists t; split; [reflexivity|apply inst_end_none; exact E]. }
    destruct (num_start isnumeric (c :: t)); [destruct (read_num (c :: t)); split; discriminate|].
    destruct (scn ctoks (c :: t)); [split; discriminate|]. destruct (ident_start c); split; discriminate.
  Qed.

  (* one step of the loop, forwards *)
  Lemma toks_step : forall f off W r1 tg n v, forallb isspace W = true -> hd_fails isspace r1 ->
    r1 <> [] -> rd r1 = RTok tg n v ->
    tk (S f) off (W ++ r1) =
      match tk f (off + List.length W + n) (skipn n r1) with
      | LOk ts => LOk (mkTok tg (off + List.length W) (off + List.length W + n) v :: ts)
      | LErr e j => LErr e j
      end.
  Proof.
    intros f off W r1 tg n v HW Hh Hn Hr. rewrite toks_S.
    destruct (takew_app_stop isspace W r1 HW Hh) as [E1 E2]. rewrite E1, E2.
    destruct r1 as [|c t]; [congruence|]. rewrite Hr. reflexivity.
  Qed.
  Lemma toks_step0 : forall f off r1 tg n v, hd_fails isspace r1 -> r1 <> [] -> rd r1 = RTok tg n v ->
    tk (S f) off r1 =
      match tk f (off + n) (skipn n r1) with
      | LOk ts => LOk (mkTok tg off (off + n) v :: ts)
      | LErr e j => LErr e j
      end.
  Proof.
    intros f off r1 tg n v Hh Hn Hr.
    pose proof (toks_step f off [] r1 tg n v eq_refl Hh Hn Hr) as E. simpl in E.
    rewrite Nat.add_0_r in E. exact E.
  Qed.
  Lemma toks_step_err : forall f off W r1 e, forallb isspace W = true -> hd_fails isspace r1 ->
    r1 <> [] -> rd r1 = RErr e -> tk (S f) off (W ++ r1) = LErr e (off + List.length W).
  Proof.
    intros f off W r1 e HW Hh Hn Hr. rewrite toks_S.
    destruct (takew_app_stop isspace W r1 HW Hh) as [E1 E2]. rewrite E1, E2.
    destruct r1 as [|c t]; [congruence|]. rewrite Hr. reflexivity.
  Qed.
  Lemma toks_end : forall f off W, forallb isspace W = true -> tk (S f) off W = LOk [].
  Proof.
    intros f off W HW. rewrite toks_S.
    destruct (takew_app_stop isspace W [] HW I) as [_ E2]. rewrite app_nil_r in E2. rewrite E2. reflexivity.
  Qed.


  (* ---------------------------------------------------------------- whitespace insertion *)
  Hypothesis Hrange : hd_error ctoks = Some [ch_dot; ch_dot].

  (* a position q lies in a gap: before the first token, between two tokens, after the last *)
  Fixpoint in_gap (pos : nat) (ts : list token) (fin : nat) (q : nat) : Prop :=
    match ts with
    | [] => pos <= q <= fin
    | t :: ts' => (pos <= q <= t_begin t) \/ in_gap (t_end t) ts' fin q
    end.
  Definition untag (t : token) : tag * tval := (t_tag t, t_val t).

  Lemma in_gap_ge : forall ts pos fin q, spans_ok pos fin ts -> in_gap pos ts fin q -> pos <= q <= fin.
  Proof.
    induction ts as [|t ts IH]; intros pos fin q Hs H; simpl in *; [exact H|].
    destruct Hs as (S1 & S2 & S3). pose proof (spans_ok_le _ _ _ S3).
    destruct H as [H|H]; [lia|]. specialize (IH _ _ _ S3 H). lia.
  Qed.

  Lemma sig_dot : sigc ch_dot = true.
  Proof. unfold sig_char. simpl. reflexivity. Qed.

  Lemma read_token_dotdot : forall y, rd (ch_dot :: ch_dot :: y) = RTok (TConst [ch_dot; ch_dot]) 2 VNone.
  Proof.
    intro y. unfold read_token. simpl (ch_dot =? ch_quote)%N. simpl (ch_dot =? ch_hash)%N. cbv iota.
    unfold num_start. rewrite cls_dot. simpl.
    assert (Ec : exists tl, ctoks = [ch_dot; ch_dot] :: tl).
    { clear -Hrange. destruct ctoks as [|t0 tl]; [discriminate|]. simpl in Hrange. injection Hrange as ->. exists tl; reflexivity. }
    destruct Ec as [tl Ec].
    assert (Hin : In [ch_dot; ch_dot] ctoks) by (rewrite Ec; left; reflexivity).
    pose proof (tok_alpha _ Hin) as Ma. simpl in Ma.
    rewrite Ec. simpl scan. unfold entry_hit. rewrite Ma. simpl. reflexivity.
  Qed.

  Lemma toks_ok_nxt : forall f off b ts, tk f off b = LOk ts -> nxt_ok b.
  Proof.
    intros f off b ts H. destruct b as [|z b']; [exact I|]. simpl. intro Az.
    destruct f as [|f]; [discriminate|]. rewrite toks_S in H.
    destruct (isspace z) eqn:Sz; [destruct (cls_ws _ Sz) as (_ & F & _); congruence|].
    assert (Ed : dropw isspace (z :: b') = z :: b') by (simpl; rewrite Sz; reflexivity).
    rewrite Ed in H. destruct (rd (z :: b')) as [tg n v| |e] eqn:Er; try discriminate.
    apply cls_sig_alpha; [exact (read_token_sig _ _ _ _ _ Er)|exact Az].
  Qed.

  Lemma toks_ins1 : forall f off r ts, tk f off r = LOk ts ->
    forall a b w, r = a ++ b -> isspace w = true ->
    in_gap off ts (off + List.length r) (off + List.length a) ->
    exists ts', tk (S f) off (a ++ w :: b) = LOk ts' /\ map untag ts' = map untag ts
                /\ in_gap off ts' (off + S (List.length r)) (off + List.length a).
  Proof.
    induction f as [|f IH]; intros off r ts H a b w Hr Hw Hg; [discriminate|].
    pose proof H as H0. rewrite toks_S in H.
    pose proof (takew_dropw isspace r) as Er. pose proof (takew_all isspace r) as HW.
    pose proof (dropw_hd isspace r) as Hh.
    remember (takew isspace r) as W eqn:EW. remember (dropw isspace r) as r1 eqn:E1. clear EW E1.
    destruct (le_lt_dec (List.length a) (List.length W)) as [La|La].
    - (* the character goes into the leading gap *)
      assert (Esp : exists W2, W = a ++ W2 /\ b = W2 ++ r1).
      { rewrite Hr in Er. symmetry in Er. destruct (app_split_le a b W r1 Er La) as (W2 & A & B).
        exists W2; split; assumption. }
      destruct Esp as (W2 & EW & Eb).
      assert (HW' : forallb isspace (a ++ w :: W2) = true).
      { rewrite EW in HW. rewrite forallb_app in *. apply andb_true_iff in HW. destruct HW as [A B].
        rewrite A. simpl. rewrite Hw, B. reflexivity. }
      assert (Er' : a ++ w :: b = (a ++ w :: W2) ++ r1) by (rewrite Eb, <- app_assoc; reflexivity).
      assert (Lw : List.length (a ++ w :: W2) = S (List.length W)).
      { rewrite EW, !app_length. simpl. lia. }
      destruct r1 as [|c t].
      + injection H as <-. exists []. rewrite Er', app_nil_r. rewrite (toks_end _ _ _ HW').
        split; [reflexivity|]. split; [reflexivity|]. simpl in *. lia.
      + destruct (rd (c :: t)) as [tg n v| |e] eqn:Et; try discriminate.
        destruct (tk f (off + List.length W + n) (skipn n (c :: t))) as [ts1|e j] eqn:E; [|discriminate].
        injection H as <-.
        rewrite Er'. rewrite (toks_step (S f) off (a ++ w :: W2) (c :: t) tg n v HW' Hh ltac:(discriminate) Et).
        rewrite Lw.
        assert (E' : tk (S f) (off + S (List.length W) + n) (skipn n (c :: t)) = LOk (map (shift_tok 1) ts1)).
        { replace (off + S (List.length W) + n) with (off + List.length W + n + 1) by lia.
          apply toks_shift. rewrite (toks_fuel_mono f (S f)); [exact E| |lia]. rewrite E. exact I. }
        rewrite E'. eexists. split; [reflexivity|]. split.
        * simpl. f_equal. rewrite map_map. apply map_ext. intro t0. reflexivity.
        * simpl. left. lia.
    - (* the character goes after the first token *)
      destruct r1 as [|c t].
      { exfalso. rewrite app_nil_r in Er. rewrite Hr in Er. apply (f_equal (@List.length N)) in Er.
        rewrite app_length in Er. lia. }
      destruct (rd (c :: t)) as [tg n v| |e] eqn:Et; try discriminate.
      destruct (tk f (off + List.length W + n) (skipn n (c :: t))) as [ts1|e j] eqn:E; [|discriminate].
      injection H as <-.
      pose proof (read_token_bounds _ _ _ _ Et) as [B1 B2].
      destruct (toks_faithful _ _ _ _ H0 (repeat 0%N off) (repeat_length _ _)) as (Sp & _ & _).
      simpl in Sp. destruct Sp as (_ & _ & Sp).
      simpl in Hg. destruct Hg as [Hg|Hg]; [lia|].
      assert (Lq : off + List.length W + n <= off + List.length a).
      { rewrite app_length, repeat_length in Sp.
        replace (off + List.length r) with (off + List.length r) in Hg by reflexivity.
        pose proof (in_gap_ge _ _ _ _ Sp Hg). lia. }
      assert (Esp : exists a1, a = W ++ a1 /\ c :: t = a1 ++ b).
      { rewrite Hr in Er. destruct (app_split_le W (c :: t) a b Er) as (a1 & A & B); [lia|].
        exists a1; split; assumption. }
      destruct Esp as (a1 & Ea & Ect).
      assert (La1 : n <= List.length a1) by (rewrite Ea, app_length in Lq; lia).
      assert (Hh' : hd_fails isspace (a1 ++ w :: b)).
      { destruct a1 as [|z a2]; [simpl in La1; lia|]. simpl in *. injection Ect as <- _. exact Hh. }
      assert (Hne1 : a1 ++ w :: b <> []) by (destruct a1; discriminate).
      assert (Esk : skipn n (c :: t) = skipn n a1 ++ b).
      { rewrite Ect. rewrite skipn_app. replace (n - List.length a1) with 0 by lia. reflexivity. }
      assert (Et' : rd (a1 ++ w :: b) = RTok tg n v).
      { rewrite Ect in Et. apply (read_token_ins a1 b w b tg n v Hw Et La1).
        - intro El. rewrite Esk in E. rewrite <- El in E. rewrite skipn_all in E. simpl in E.
          exact (toks_ok_nxt _ _ _ _ E).
        - intros -> El Hsd. destruct (starts_dot b) eqn:Sb; [exfalso|reflexivity].
          (* then the rest is ".." and the position is inside that token *)
          assert (Ea2 : skipn n a1 = [ch_dot]).
          { assert (L1 : List.length (skipn n a1) = 1) by (rewrite skipn_length; lia).
            destruct (skipn n a1) as [|z [|z2 l]]; simpl in L1; try lia.
            simpl in Hsd. apply N.eqb_eq in Hsd. subst z. reflexivity. }
          destruct b as [|z b']; [discriminate|]. simpl in Sb. apply N.eqb_eq in Sb. subst z.
          rewrite Esk, Ea2 in E. simpl app in E.
          destruct f as [|f0]; [discriminate|].
          assert (Hd1 : hd_fails isspace (ch_dot :: ch_dot :: b')) by (simpl; apply sig_not_ws, sig_dot).
          pose proof (toks_step f0 (off + List.length W + n) [] (ch_dot :: ch_dot :: b') _ _ _ eq_refl Hd1
                        ltac:(discriminate) (read_token_dotdot b')) as Es.
          simpl app in Es. rewrite Es in E. simpl in E.
          destruct (tk f0 _ b') as [ts2|e2 j2] eqn:E2; [|discriminate]. injection E as <-.
          simpl in Hg. rewrite Ea, app_length in Hg.
          assert (Sp2 := Sp). simpl in Sp2. destruct Sp2 as (_ & _ & Sp2).
          rewrite app_length, repeat_length in Sp2.
          destruct Hg as [Hg|Hg]; [lia|]. pose proof (in_gap_ge _ _ _ _ Sp2 Hg). lia. }
      rewrite Ea. rewrite <- app_assoc.
      rewrite (toks_step (S f) off W (a1 ++ w :: b) tg n v HW Hh' Hne1 Et').
      assert (Esk' : skipn n (a1 ++ w :: b) = skipn n a1 ++ w :: b).
      { rewrite skipn_app. replace (n - List.length a1) with 0 by lia. reflexivity. }
      rewrite Esk'.
      assert (Lr : List.length r = List.length W + List.length (c :: t)) by (rewrite <- Er, app_length; reflexivity).
      assert (Lsk : List.length (skipn n a1 ++ b) = List.length (c :: t) - n) by (rewrite <- Esk, skipn_length; reflexivity).
      assert (La' : List.length a = List.length W + List.length a1) by (rewrite Ea, app_length; reflexivity).
      assert (Lsa : List.length (skipn n a1) = List.length a1 - n) by apply skipn_length.
      assert (Hg' : in_gap (off + List.length W + n) ts1
                      (off + List.length W + n + List.length (skipn n a1 ++ b))
                      (off + List.length W + n + List.length (skipn n a1))).
      { replace (off + List.length W + n + List.length (skipn n a1 ++ b)) with (off + List.length r) by lia.
        replace (off + List.length W + n + List.length (skipn n a1)) with (off + List.length a) by lia.
        exact Hg. }
      rewrite Esk in E.
      destruct (IH _ _ _ E (skipn n a1) b w eq_refl Hw Hg') as (ts1' & T1 & T2 & T3).
      rewrite T1. eexists. split; [reflexivity|]. split; [simpl; f_equal; exact T2|].
      rewrite <- Ea. simpl. right.
      replace (off + S (List.length r)) with (off + List.length W + n + S (List.length (skipn n a1 ++ b))) by lia.
      replace (off + List.length a) with (off + List.length W + n + List.length (skipn n a1)) by lia.
      exact T3.
  Qed.


  (* ---------------------------------------------------------------- tokenise: the theorems *)
  Notation tokz := (tokenise isspace isalpha isnumeric ctoks atoks).

  Lemma cls_start_not_numeric : forall c, ident_start c = true -> isnumeric c = false.
  Proof.
    intros c H. specialize (Hclass c). unfold class_ok_b in Hclass. rewrite H in Hclass.
    destruct (isnumeric c); [|reflexivity]. simpl in Hclass. rewrite !andb_false_r in Hclass.
    rewrite ?andb_false_l in Hclass. discriminate.
  Qed.

  Lemma tokenise_fuel : forall s, fuel_ok (tokz s).
  Proof. intro s. unfold tokenise. apply toks_fuel_enough. lia. Qed.
  Lemma tokenise_never_out_of_fuel : forall s i, tokz s <> LErr LexOutOfFuel i.
  Proof. intros s i H. pose proof (tokenise_fuel s) as F. rewrite H in F. exact F. Qed.

  Lemma spans_ok_each : forall ts pos fin, spans_ok pos fin ts ->
    Forall (fun t => pos <= t_begin t /\ t_begin t < t_end t /\ t_end t <= fin) ts.
  Proof.
    induction ts as [|t ts IH]; intros pos fin H; [constructor|]. simpl in H. destruct H as (H1 & H2 & H3).
    pose proof (spans_ok_le _ _ _ H3). constructor; [lia|].
    specialize (IH _ _ H3). rewrite Forall_forall in *. intros x Hx. specialize (IH x Hx). lia.
  Qed.

  Theorem tokenise_faithful : forall s ts, tokz s = LOk ts ->
    spans_ok 0 (List.length s) ts /\ gaps_ws s 0 ts /\ reassemble s 0 ts = s
    /\ Forall (token_at s) ts.
  Proof.
    intros s ts H. unfold tokenise in H.
    destruct (toks_faithful _ _ _ _ H [] eq_refl) as (A & B & Cc). simpl in *.
    split; [exact A|]. split; [exact B|]. split; [|exact Cc]. apply (spans_reassemble s ts 0 A).
  Qed.

  Definition lexeme_ok (lex : text) (tg : tag) (v : tval) : Prop :=
    match tg with
    | TConst t => lex = t /\ In t ctoks /\ v = VNone
    | TVar => v = VText lex /\ forallb ident_char lex = true
              /\ exists c cs, lex = c :: cs /\ ident_start c = true
    | TStr => exists body, lex = ch_quote :: body ++ [ch_quote] /\ v = VText body
    | TInst => exists body, lex = ch_hash :: body ++ [ch_hash] /\ v = VText body /\ ~ In ch_hash body
    | TNum => exists l, v = VLit l
    end.

  Theorem tokenise_lexemes : forall s ts t, tokz s = LOk ts -> In t ts ->
    lexeme_ok (sub s (t_begin t) (t_end t)) (t_tag t) (t_val t).
  Proof.
    intros s ts t H Ht. destruct (tokenise_faithful _ _ H) as (_ & _ & _ & F).
    rewrite Forall_forall in F. specialize (F _ Ht). unfold token_at in F.
    pose proof (read_token_lexeme_basic _ _ _ _ F) as L. unfold sub, lexeme_ok.
    destruct (t_tag t); try exact L.
    - destruct L as (l & E & _). exists l; exact E.
    - destruct L as (A & B & Cc & _). auto.
  Qed.

  (* maximal munch, per token of a tokenisation *)
  Theorem tokenise_maximal_munch : forall s ts t, tokz s = LOk ts -> In t ts ->
    (t_tag t = TVar -> hd_fails ident_char (skipn (t_end t) s))
    /\ (t_tag t = TNum -> hd_fails is_digit (skipn (t_end t) s)).
  Proof.
    intros s ts t H Ht. destruct (tokenise_faithful _ _ H) as (Sp & _ & _ & F).
    pose proof (spans_ok_each _ _ _ Sp) as Se. rewrite Forall_forall in F, Se.
    specialize (F _ Ht). specialize (Se _ Ht). unfold token_at in F.
    assert (Esk : skipn (t_end t) s = skipn (t_end t - t_begin t) (skipn (t_begin t) s)).
    { rewrite skipn_skipn'. f_equal. lia. }
    rewrite Esk. split; intro Tg; rewrite Tg in F.
    - pose proof (read_token_lexeme_basic _ _ _ _ F) as L. simpl in L. tauto.
    - pose proof (read_token_lexeme_basic _ _ _ _ F) as L. simpl in L. destruct L as (l & _ & Rn).
      exact (proj2 (read_num_bounds _ _ _ Rn)).
  Qed.

  (* --- whitespace insertion --- *)
  Theorem tokenise_ws_insert1 : forall s ts a b w, tokz s = LOk ts -> s = a ++ b ->
    in_gap 0 ts (List.length s) (List.length a) -> isspace w = true ->
    exists ts', tokz (a ++ w :: b) = LOk ts' /\ map untag ts' = map untag ts
                /\ in_gap 0 ts' (S (List.length s)) (List.length a).
  Proof.
    intros s ts a b w H Hs Hg Hw. unfold tokenise in *.
    destruct (toks_ins1 _ _ _ _ H a b w Hs Hw Hg) as (ts' & A & B & Cc).
    exists ts'. split; [|split; [exact B|exact Cc]].
    replace (List.length (a ++ w :: b)) with (S (List.length s)); [exact A|].
    rewrite Hs, !app_length. simpl. lia.
  Qed.

  Theorem tokenise_ws_insert : forall ws s ts a b, tokz s = LOk ts -> s = a ++ b ->
    in_gap 0 ts (List.length s) (List.length a) -> Forall (fun c => isspace c = true) ws ->
    exists ts', tokz (a ++ ws ++ b) = LOk ts' /\ map untag ts' = map untag ts
                /\ in_gap 0 ts' (List.length ws + List.length s) (List.length a).
  Proof.
    induction ws as [|w ws IH]; intros s ts a b H Hs Hg Hw.
    - exists ts. simpl. rewrite <- Hs. auto.
    - inversion Hw as [|? ? Hw1 Hw2]; subst.
      destruct (IH _ _ a b H eq_refl Hg Hw2) as (ts1 & A1 & B1 & C1).
      assert (El : List.length (a ++ ws ++ b) = List.length ws + List.length (a ++ b))
        by (rewrite !app_length; lia).
      rewrite <- El in C1.
      destruct (tokenise_ws_insert1 _ _ a (ws ++ b) w A1 eq_refl C1 Hw1) as (ts2 & A2 & B2 & C2).
      exists ts2. split; [exact A2|]. split; [rewrite B2; exact B1|].
      rewrite El in C2. simpl. exact C2.
  Qed.

  (* any number of insertions, each at a gap of the tokenisation current at that moment *)
  Inductive ws_steps : text -> text -> Prop :=
  | ws_refl : forall s, ws_steps s s
  | ws_step : forall s ts a b ws s', tokz s = LOk ts -> s = a ++ b ->
      in_gap 0 ts (List.length s) (List.length a) -> Forall (fun c => isspace c = true) ws ->
      ws_steps (a ++ ws ++ b) s' -> ws_steps s s'.

  Theorem tokenise_ws_steps : forall s s', ws_steps s s' -> forall ts, tokz s = LOk ts ->
    exists ts', tokz s' = LOk ts' /\ map untag ts' = map untag ts.
  Proof.
    intros s s' H; induction H as [s|s ts0 a b ws s' H0 Hs Hg Hw _ IH]; intros ts Ht.
    - exists ts; auto.
    - rewrite H0 in Ht. injection Ht as <-.
      destruct (tokenise_ws_insert ws s ts0 a b H0 Hs Hg Hw) as (ts1 & A & B & _).
      destruct (IH _ A) as (ts2 & A2 & B2). exists ts2. split; [exact A2|]. rewrite B2; exact B.
  Qed.

  (* --- unclosed delimiters --- *)
  Lemma skipn_cons_nth : forall i (s : text) c t, skipn i s = c :: t -> nth_error s i = Some c /\ skipn (S i) s = t.
  Proof.
    induction i as [|i IH]; intros s c t H; destruct s as [|y s]; simpl in *; try discriminate.
    - injection H as -> ->. auto.
    - apply IH; exact H.
  Qed.

  Theorem tokenise_unclosed_string : forall s i, tokz s = LErr UnclosedStringError i ->
    nth_error s i = Some ch_quote /\ str_end (skipn (S i) s) = None.
  Proof.
    intros s i H. unfold tokenise in H.
    destruct (toks_error_at _ _ _ _ _ H ltac:(discriminate) [] eq_refl) as (_ & [E|[_ E]] & _); [|discriminate].
    simpl in E. destruct (proj1 (read_token_unclosed _) E) as (t & Et & En).
    destruct (skipn_cons_nth _ _ _ _ Et) as [A B]. rewrite B. auto.
  Qed.
  Theorem tokenise_unclosed_instant : forall s i, tokz s = LErr UnclosedInstantError i ->
    nth_error s i = Some ch_hash /\ ~ In ch_hash (skipn (S i) s).
  Proof.
    intros s i H. unfold tokenise in H.
    destruct (toks_error_at _ _ _ _ _ H ltac:(discriminate) [] eq_refl) as (_ & [E|[_ E]] & _); [|discriminate].
    simpl in E. destruct (proj2 (read_token_unclosed _) E) as (t & Et & En).
    destruct (skipn_cons_nth _ _ _ _ Et) as [A B]. rewrite B. auto.
  Qed.

  Lemma sig_quote : sigc ch_quote = true. Proof. reflexivity. Qed.
  Lemma sig_hash : sigc ch_hash = true. Proof. reflexivity. Qed.

  (* an opening delimiter without a closing one is reported at its own index, whatever
     whitespace precedes it *)
  Theorem tokenise_reports_unclosed : forall W t, Forall (fun c => isspace c = true) W ->
    (str_end t = None -> tokz (W ++ ch_quote :: t) = LErr UnclosedStringError (List.length W))
    /\ (~ In ch_hash t -> tokz (W ++ ch_hash :: t) = LErr UnclosedInstantError (List.length W)).
  Proof.
    intros W t HW. assert (HW' : forallb isspace W = true).
    { rewrite forallb_forall. rewrite Forall_forall in HW. exact HW. }
    split; intro Hn; unfold tokenise.
    - apply (toks_step_err _ 0 W (ch_quote :: t) _ HW'); [simpl; apply sig_not_ws, sig_quote|discriminate|].
      unfold read_token. simpl (ch_quote =? ch_quote)%N. cbv iota. rewrite Hn. reflexivity.
    - apply (toks_step_err _ 0 W (ch_hash :: t) _ HW'); [simpl; apply sig_not_ws, sig_hash|discriminate|].
      unfold read_token. simpl (ch_hash =? ch_quote)%N. simpl (ch_hash =? ch_hash)%N. cbv iota.
      rewrite (proj2 (inst_end_none t) Hn). reflexivity.
  Qed.

  (* --- numbers as tokens; the range --- *)
  Lemma read_token_num : forall c t n v, is_digit c = true -> read_num (c :: t) = NOk n v ->
    rd (c :: t) = RTok TNum n (VLit v).
  Proof.
    intros c t n v Hc H. unfold read_token.
    assert (c <> ch_quote /\ c <> ch_hash) as [N1 N2]
      by (apply digit_range in Hc; unfold ch_quote, ch_hash; split; lia).
    apply N.eqb_neq in N1, N2. rewrite N1, N2. unfold num_start. rewrite (cls_digit _ Hc). simpl. rewrite H. reflexivity.
  Qed.
  Lemma digit_not_ws : forall c, is_digit c = true -> isspace c = false.
  Proof. intros c H. apply sig_not_ws, sig_ident, digit_ident; exact H. Qed.

  Theorem tokenise_range : forall A B, forallb is_digit A = true -> A <> [] ->
    forallb is_digit B = true -> B <> [] ->
    tokz (A ++ [ch_dot; ch_dot] ++ B)
    = LOk [ mkTok TNum 0 (List.length A) (VLit (LInt (pos_value 10 (map dval A))));
            mkTok (TConst [ch_dot; ch_dot]) (List.length A) (List.length A + 2) VNone;
            mkTok TNum (List.length A + 2) (List.length A + 2 + List.length B)
                  (VLit (LInt (pos_value 10 (map dval B)))) ].
  Proof.
    intros A B HA HnA HB HnB. unfold tokenise.
    assert (Lf : exists f, S (List.length (A ++ [ch_dot; ch_dot] ++ B)) = S (S (S (S f)))).
    { destruct A as [|a0 A']; [congruence|]. destruct B as [|b0 B']; [congruence|].
      exists (List.length A' + List.length B' + 1). rewrite !app_length. simpl. lia. }
    destruct Lf as [f ->].
    destruct A as [|a0 A'] eqn:EA; [congruence|]. rewrite <- EA in *.
    assert (Ha0 : is_digit a0 = true) by (rewrite EA in HA; simpl in HA; nb; assumption).
    (* first token *)
    assert (R1 : rd (A ++ [ch_dot; ch_dot] ++ B) = RTok TNum (List.length A) (VLit (LInt (pos_value 10 (map dval A))))).
    { pose proof (read_num_range A B HA HnA) as E. rewrite EA in *. apply (read_token_num a0 _ _ _ Ha0 E). }
    assert (Hh1 : hd_fails isspace (A ++ [ch_dot; ch_dot] ++ B)) by (rewrite EA; simpl; apply digit_not_ws; exact Ha0).
    assert (Hn1 : A ++ [ch_dot; ch_dot] ++ B <> []) by (rewrite EA; discriminate).
    rewrite (toks_step0 _ 0 _ _ _ _ Hh1 Hn1 R1).
    rewrite skipn_app_exact. simpl plus.
    (* ".." *)
    assert (Hh2 : hd_fails isspace (ch_dot :: ch_dot :: B)) by (simpl; apply sig_not_ws, sig_dot).
    assert (Hn2 : ch_dot :: ch_dot :: B <> []) by discriminate.
    simpl app. rewrite (toks_step0 _ (List.length A) _ _ _ _ Hh2 Hn2 (read_token_dotdot B)).
    simpl skipn.
    (* second number *)
    destruct B as [|b0 B'] eqn:EB; [congruence|]. rewrite <- EB in *.
    assert (Hb0 : is_digit b0 = true) by (rewrite EB in HB; simpl in HB; nb; assumption).
    assert (R3 : rd B = RTok TNum (List.length B) (VLit (LInt (pos_value 10 (map dval B))))).
    { pose proof (read_num_int B [] HB HnB) as E. rewrite app_nil_r in E.
      rewrite EB in *. apply (read_token_num b0 _ _ _ Hb0). apply E; try reflexivity; try exact I.
      rewrite <- (app_nil_r (b0 :: B')). apply digits_not_based; [exact HB|discriminate|exact I]. }
    assert (Hh3 : hd_fails isspace B) by (rewrite EB; simpl; apply digit_not_ws; exact Hb0).
    assert (Hn3 : B <> []) by (rewrite EB; discriminate).
    rewrite (toks_step0 _ (List.length A + 2) _ _ _ _ Hh3 Hn3 R3).
    rewrite skipn_all.
    rewrite (toks_end f _ [] eq_refl). reflexivity.
  Qed.

  (* --- keywords --- *)
  (* [kw] is an alphabetic token whose scan behaves as the table facts say: it is the scan's
     answer exactly when no letter follows, and nothing else in the table matches there *)
  Theorem read_token_keyword : forall kw rest,
    kw <> [] -> forallb is_letter kw = true ->
    scn ctoks (kw ++ rest) = (if next_not_alpha isalpha rest then Some kw else None) ->
    (next_not_alpha isalpha rest = true -> rd (kw ++ rest) = RTok (TConst kw) (List.length kw) VNone)
    /\ (next_not_alpha isalpha rest = false ->
          rd (kw ++ rest) = RTok TVar (List.length kw + List.length (takew ident_char rest))
                                 (VText (kw ++ takew ident_char rest))
          /\ (forall c x, rest = c :: x -> ident_char c = true ->
                List.length kw < List.length kw + List.length (takew ident_char rest))).
  Proof.
    intros kw rest Hn Hl Hs. destruct kw as [|c kw']; [congruence|].
    simpl in Hl. apply andb_true_iff in Hl. destruct Hl as [Lc Lk].
    assert (Hid : forallb ident_char kw' = true).
    { rewrite forallb_forall in *. intros z Hz. apply letter_ident, Lk, Hz. }
    assert (Is : ident_start c = true) by (unfold ident_start; rewrite Lc; reflexivity).
    assert (c <> ch_quote /\ c <> ch_hash /\ c <> ch_dot) as (N1 & N2 & N3).
    { unfold is_letter, is_lower, is_upper in Lc. unfold ch_quote, ch_hash, ch_dot.
      apply orb_true_iff in Lc. destruct Lc as [Lc|Lc]; nb; repeat split; lia. }
    apply N.eqb_neq in N1, N2, N3.
    assert (Ns : num_start isnumeric ((c :: kw') ++ rest) = false).
    { simpl. rewrite (cls_start_not_numeric _ Is), N3. reflexivity. }
    change ((c :: kw') ++ rest) with (c :: (kw' ++ rest)) in *.
    split; intro Hna; rewrite Hna in Hs.
    - unfold read_token. rewrite N1, N2, Ns, Hs. reflexivity.
    - split.
      + unfold read_token. rewrite N1, N2, Ns, Hs, Is.
        rewrite (takew_ge ident_char kw' rest Hid). rewrite app_length. simpl. reflexivity.
      + intros z x -> Hz. simpl. rewrite Hz. simpl. lia.
  Qed.

End WithClasses.


(* ================================================================== statements for C11.v *)
(* what may follow an integer literal for it to stand alone: nothing, or a character that
   cannot continue a number (digit, '.', 'e', or a base letter after a lone 0) *)
Definition number_stop (rest : text) : Prop :=
  match rest with
  | [] => True
  | c :: _ => is_digit c = false /\ c <> ch_dot /\ c <> ch_e /\ is_base_char c = false
  end.

Theorem int_value : forall A rest, forallb is_digit A = true -> A <> [] -> number_stop rest ->
  read_num (A ++ rest) = NOk (List.length A) (LInt (pos_value 10 (map dval A))).
Proof.
  intros A rest HA Hn Hs. apply read_num_int; try assumption.
  - apply digits_not_based; try assumption. destruct rest; [exact I|]. simpl in Hs. tauto.
  - destruct rest; [exact I|]. simpl in *. tauto.
  - destruct rest; [reflexivity|]. simpl in *. apply N.eqb_neq. tauto.
  - destruct rest as [|c r]; [reflexivity|]. simpl in Hs. apply exp_match_ne. apply N.eqb_neq. tauto.
Qed.

Definition sign_ok (sg : text) : Prop := sg = [] \/ sg = [ch_plus] \/ sg = [ch_minus].
Definition sign_neg (sg : text) : bool := match sg with [c] => (c =? ch_minus)%N | _ => false end.

Theorem sci_value : forall A sg es rest, forallb is_digit A = true -> A <> [] ->
  forallb is_digit es = true -> es <> [] -> hd_fails is_digit rest -> sign_ok sg ->
  exists v, read_num (A ++ ch_e :: sg ++ es ++ rest)
            = NOk (List.length A + (1 + List.length sg + List.length es)) v
    /\ lit_exact v
    /\ lit_Q v == inject_Z (pos_value 10 (map dval A))
                  * Qpower 10 (if sign_neg sg then (- pos_value 10 (map dval es))%Z
                               else pos_value 10 (map dval es)).
Proof.
  intros A sg es rest HA Hn He Hne Hr Hs.
  rewrite (read_num_sci A sg es rest HA Hn He Hne Hr Hs). fold (sign_neg sg).
  destruct (num_value A false [] (Some (sign_neg sg, es))) as [v|] eqn:E.
  - exists v. split; [reflexivity|]. exact (sci_value_exact A (sign_neg sg) es v He E).
  - exfalso. unfold num_value in E. destruct (sign_neg sg && (0 <? dec_val es)%Z); discriminate.
Qed.

Theorem based_value : forall bc hs rest, is_base_char bc = true -> hs <> [] ->
  forallb is_hex hs = true -> hd_fails is_hex rest ->
  read_num (48%N :: bc :: hs ++ rest)
  = if forallb (fun c => (hex_val c <? base_of bc)%Z) hs
    then NOk (2 + List.length hs) (LInt (pos_value (base_of bc) (map hex_val hs)))
    else NBad.
Proof. exact read_num_based. Qed.

(* the exact rational of a decimal spelling *)
Definition decimal_exact (D1 D2 : text) (ex : option (bool * text)) : Q :=
  (inject_Z (pos_value 10 (map dval (D1 ++ D2))) / Qpower 10 (Z.of_nat (List.length D2))
   * match ex with
     | None => 1
     | Some (neg, es) => Qpower 10 (if neg then (- pos_value 10 (map dval es))%Z
                                    else pos_value 10 (map dval es))
     end)%Q.

Opaque Qred.
Lemma decimal_value_q : forall (D1 D2 : text) (ex : option (bool * text)),
  (forall neg (es : text), ex = Some (neg, es) -> forallb is_digit es = true) ->
  exists qq, num_value D1 true D2 ex = mk_flt qq /\ qq == decimal_exact D1 D2 ex.
Proof.
  intros D1 D2 ex Hes. unfold decimal_exact.
  set (m := pos_value 10 (map dval (D1 ++ D2))). set (f := Z.of_nat (List.length D2)).
  assert (Hm : mantissa D1 D2 == inject_Z m / Qpower 10 f).
  { unfold mantissa. rewrite dec_val_pos. fold m. fold f.
    assert (P : (0 < 10 ^ f)%Z) by (apply Z.pow_pos_nonneg; unfold f; lia).
    rewrite Qmake_Qdiv. rewrite Z2Pos.id by exact P. rewrite inject_Z_pow10 by (unfold f; lia). reflexivity. }
  unfold num_value. destruct ex as [[neg es]|].
  - assert (Hk : (0 <= pos_value 10 (map dval es))%Z).
    { apply pos_value_nonneg; [lia|]. rewrite Forall_forall. intros d Hd. apply in_map_iff in Hd.
      destruct Hd as (c & <- & Hc). unfold dval. lia. }
    rewrite dec_val_pos. destruct neg; eexists; (split; [reflexivity|]).
    + rewrite Hm. rewrite inject_Z_pow10 by exact Hk. rewrite Qpower_opp. reflexivity.
    + rewrite Hm. rewrite inject_Z_pow10 by exact Hk. reflexivity.
  - eexists; split; [reflexivity|]. rewrite Hm. rewrite Qmult_1_r. reflexivity.
Qed.

Lemma mk_flt_cases : forall qq q0, qq == q0 ->
  ((flt_overflow <= q0)%Q /\ mk_flt qq = None)
  \/ (~ (flt_overflow <= q0)%Q /\ exists q, mk_flt qq = Some (LFlt q) /\ q == q0).
Proof.
  intros qq q0 E. unfold mk_flt. destruct (Qle_bool flt_overflow qq) eqn:B.
  - left. split; [|reflexivity]. apply Qle_bool_iff in B. rewrite <- E. exact B.
  - right. split.
    + intro F. rewrite <- E in F. apply Qle_bool_iff in F. congruence.
    + exists (Qred qq). split; [reflexivity|]. rewrite Qred_correct. exact E.
Qed.
Transparent Qred.

(* decimals: one token whose value is the exact rational of the spelling (tagged as a float:
   the implementation holds the nearest double), or BadNumberError when that rational is
   beyond the float range.  PARTIAL: the rounding float() performs is external. *)
Theorem decimal_value : forall D1 D2 rest, forallb is_digit D1 = true -> forallb is_digit D2 = true ->
  is_nil D1 && is_nil D2 = false ->
  hd_fails is_digit rest -> (D2 = [] -> starts_dot rest = false) -> exp_match rest = None ->
  let q0 := decimal_exact D1 D2 None in
  ((flt_overflow <= q0)%Q /\ read_num (D1 ++ ch_dot :: D2 ++ rest) = NBad)
  \/ (~ (flt_overflow <= q0)%Q /\ exists q, q == q0 /\
        read_num (D1 ++ ch_dot :: D2 ++ rest) = NOk (List.length D1 + 1 + List.length D2) (LFlt q)).
Proof.
  intros D1 D2 rest H1 H2 Hn Hr Hs Hx q0.
  rewrite (read_num_decimal D1 D2 rest H1 H2 Hn Hr Hs Hx).
  destruct (decimal_value_q D1 D2 None ltac:(discriminate)) as (qq & E1 & E2). rewrite E1.
  destruct (mk_flt_cases qq q0 E2) as [[A B]|[A (q & B & Cc)]].
  - left. rewrite B. auto.
  - right. split; [exact A|]. exists q. rewrite B. auto.
Qed.

Theorem decimal_sci_value : forall D1 D2 sg es rest,
  forallb is_digit D1 = true -> forallb is_digit D2 = true -> is_nil D1 && is_nil D2 = false ->
  forallb is_digit es = true -> es <> [] -> hd_fails is_digit rest -> sign_ok sg ->
  let q0 := decimal_exact D1 D2 (Some (sign_neg sg, es)) in
  let n := List.length D1 + 1 + List.length D2 + (1 + List.length sg + List.length es) in
  ((flt_overflow <= q0)%Q /\ read_num (D1 ++ ch_dot :: D2 ++ ch_e :: sg ++ es ++ rest) = NBad)
  \/ (~ (flt_overflow <= q0)%Q /\ exists q, q == q0 /\
        read_num (D1 ++ ch_dot :: D2 ++ ch_e :: sg ++ es ++ rest) = NOk n (LFlt q)).
Proof.
  intros D1 D2 sg es rest H1 H2 Hn He Hne Hr Hs q0 n.
  rewrite (read_num_decimal_sci D1 D2 sg es rest H1 H2 Hn He Hne Hr Hs). fold (sign_neg sg).
  destruct (decimal_value_q D1 D2 (Some (sign_neg sg, es))) as (qq & E1 & E2).
  { intros neg0 es0 E. injection E as _ <-. exact He. }
  rewrite E1. destruct (mk_flt_cases qq q0 E2) as [[A B]|[A (q & B & Cc)]].
  - left. rewrite B. auto.
  - right. split; [exact A|]. exists q. rewrite B. auto.
Qed.

(* a digit run is never cut short, an identifier extends to the first non-identifier character *)
Theorem number_maximal : forall r n v, read_num r = NOk n v ->
  1 <= n <= List.length r /\ hd_fails is_digit (skipn n r).
Proof. exact read_num_bounds. Qed.

(* ------------------------------------------------------------------ combined forms *)
Theorem tokenise_faithful_full : forall isspace isalpha isnumeric ctoks atoks,
  all_nonempty ctoks = true ->
  forall s ts, tokenise isspace isalpha isnumeric ctoks atoks s = LOk ts ->
  spans_ok 0 (List.length s) ts /\ gaps_ws isspace s 0 ts /\ reassemble s 0 ts = s
  /\ (forall t, In t ts -> lexeme_ok ctoks (sub s (t_begin t) (t_end t)) (t_tag t) (t_val t))
  /\ (forall t, In t ts -> token_at isalpha isnumeric ctoks atoks s t).
Proof.
  intros isspace isalpha isnumeric ctoks atoks Hne s ts H.
  destruct (tokenise_faithful isspace isalpha isnumeric ctoks atoks Hne s ts H) as (A & B & Cc & D).
  split; [exact A|]. split; [exact B|]. split; [exact Cc|]. split.
  - intros t Ht. exact (tokenise_lexemes isspace isalpha isnumeric ctoks atoks Hne s ts t H Ht).
  - rewrite Forall_forall in D. exact D.
Qed.

Theorem longest_const : forall isspace isalpha isnumeric ctoks atoks,
  (forall c, class_ok_b isspace isalpha isnumeric ctoks c = true) ->
  order_ok atoks ctoks = true ->
  forall r t, scan isalpha atoks ctoks r = Some t ->
  In t ctoks /\ entry_hit isalpha atoks t r = true
  /\ forall t', In t' ctoks -> entry_hit isalpha atoks t' r = true -> List.length t' <= List.length t.
Proof.
  intros isspace isalpha isnumeric ctoks atoks Hc Ho r t H.
  destruct (scan_some _ _ _ _ _ H) as [A B]. split; [exact A|]. split; [exact B|].
  exact (scan_longest isspace isalpha isnumeric ctoks atoks Hc ctoks r t Ho H).
Qed.

(* the constant token read at a position is the longest constant token that matches there *)
Theorem const_token_longest : forall isspace isalpha isnumeric ctoks atoks,
  (forall c, class_ok_b isspace isalpha isnumeric ctoks c = true) ->
  order_ok atoks ctoks = true ->
  forall r t n v, read_token isalpha isnumeric ctoks atoks r = RTok (TConst t) n v ->
  n = List.length t /\ In t ctoks /\ entry_hit isalpha atoks t r = true
  /\ forall t', In t' ctoks -> entry_hit isalpha atoks t' r = true -> List.length t' <= List.length t.
Proof.
  intros isspace isalpha isnumeric ctoks atoks Hc Ho r t n v H.
  unfold read_token in H. destruct r as [|c x]; [discriminate|].
  destruct (c =? ch_quote)%N; [destruct (str_end x); discriminate|].
  destruct (c =? ch_hash)%N; [destruct (inst_end x); discriminate|].
  destruct (num_start isnumeric (c :: x)); [destruct (read_num (c :: x)); discriminate|].
  destruct (scan isalpha atoks ctoks (c :: x)) as [tk0|] eqn:E.
  - injection H as <- <- <-. split; [reflexivity|].
    exact (longest_const isspace isalpha isnumeric ctoks atoks Hc Ho _ _ E).
  - destruct (ident_start c); discriminate.
Qed.

Theorem int_token : forall isspace isalpha isnumeric ctoks atoks,
  (forall c, class_ok_b isspace isalpha isnumeric ctoks c = true) ->
  forall A rest, forallb is_digit A = true -> A <> [] -> number_stop rest ->
  read_token isalpha isnumeric ctoks atoks (A ++ rest)
  = RTok TNum (List.length A) (VLit (LInt (pos_value 10 (map dval A)))).
Proof.
  intros isspace isalpha isnumeric ctoks atoks Hc A rest HA Hn Hs.
  pose proof (int_value A rest HA Hn Hs) as E. destruct A as [|c A']; [congruence|].
  simpl in HA. apply andb_true_iff in HA. destruct HA as [Hd _].
  exact (read_token_num isspace isalpha isnumeric ctoks atoks Hc c (A' ++ rest) _ _ Hd E).
Qed.

Theorem ident_maximal : forall isalpha isnumeric ctoks atoks r n v,
  read_token isalpha isnumeric ctoks atoks r = RTok TVar n v ->
  v = VText (firstn n r) /\ forallb ident_char (firstn n r) = true
  /\ (exists c cs, firstn n r = c :: cs /\ ident_start c = true)
  /\ hd_fails ident_char (skipn n r).
Proof.
  intros isalpha isnumeric ctoks atoks r n v H.
  exact (read_token_lexeme_basic isalpha isnumeric ctoks atoks r TVar n v H).
Qed.
