(* LexerProofs.v — lemmas about Model/Lexer.v.  The theorems of Properties/C11.v are
   instances of the lemmas proved here.  Everything is for ALL input texts (lists of code
   points of any length); the character classes and the token table are Section variables
   constrained only by the hypotheses named below. *)
From Coq Require Import Lia NArith ZArith QArith List Bool Arith.
From Ka Require Import Model.Lexer.
Import ListNotations.
Local Open Scope nat_scope.
Local Open Scope list_scope.

(* ------------------------------------------------------------------ characters *)
Lemma Neqb_true : forall a b : N, (a =? b)%N = true -> a = b.
Proof. intros a b H; apply N.eqb_eq; exact H. Qed.
Lemma Neqb_false : forall a b : N, (a =? b)%N = false -> a <> b.
Proof. intros a b H; apply N.eqb_neq; exact H. Qed.

Ltac nb :=
  repeat match goal with
  | H : (_ && _)%bool = true |- _ => apply andb_true_iff in H; destruct H
  | H : (_ || _)%bool = false |- _ => apply orb_false_iff in H; destruct H
  | H : negb _ = true |- _ => apply negb_true_iff in H
  | H : negb _ = false |- _ => apply negb_false_iff in H
  | H : (_ =? _)%N = true |- _ => apply N.eqb_eq in H
  | H : (_ =? _)%N = false |- _ => apply N.eqb_neq in H
  | H : (_ <=? _)%N = true |- _ => apply N.leb_le in H
  | H : (_ <=? _)%N = false |- _ => apply N.leb_gt in H
  end.

Lemma digit_range : forall c, is_digit c = true <-> (48 <= c <= 57)%N.
Proof.
  intro c; unfold is_digit; rewrite andb_true_iff, !N.leb_le; tauto.
Qed.
Lemma digit_is_hex : forall c, is_digit c = true -> is_hex c = true.
Proof. intros c H; unfold is_hex; rewrite H; reflexivity. Qed.
Lemma digit_ident : forall c, is_digit c = true -> ident_char c = true.
Proof. intros c H; unfold ident_char; rewrite H; rewrite !orb_true_r; reflexivity. Qed.
Lemma letter_ident : forall c, is_letter c = true -> ident_char c = true.
Proof. intros c H; unfold ident_char; rewrite H; rewrite ?orb_true_r; reflexivity. Qed.
Lemma ident_start_char : forall c, ident_start c = true -> ident_char c = true.
Proof.
  intros c H; unfold ident_start in H; unfold ident_char.
  apply orb_true_iff in H; destruct H as [H|H]; rewrite H; rewrite ?orb_true_r; reflexivity.
Qed.
Lemma digit_not_dot : forall c, is_digit c = true -> c <> ch_dot.
Proof. intros c H; apply digit_range in H; unfold ch_dot; lia. Qed.
Lemma digit_not_e : forall c, is_digit c = true -> c <> ch_e.
Proof. intros c H; apply digit_range in H; unfold ch_e; lia. Qed.

(* ------------------------------------------------------------------ takew / dropw *)
Lemma takew_dropw : forall p r, takew p r ++ dropw p r = r.
Proof.
  intros p r; induction r as [|c t IH]; simpl; [reflexivity|].
  destruct (p c); simpl; [rewrite IH|]; reflexivity.
Qed.
Lemma takew_all : forall p r, forallb p (takew p r) = true.
Proof.
  intros p r; induction r as [|c t IH]; simpl; [reflexivity|].
  destruct (p c) eqn:E; simpl; [rewrite E, IH|]; reflexivity.
Qed.
Definition hd_fails (p : N -> bool) (r : text) : Prop :=
  match r with [] => True | c :: _ => p c = false end.
Lemma dropw_hd : forall p r, hd_fails p (dropw p r).
Proof.
  intros p r; induction r as [|c t IH]; simpl; [exact I|].
  destruct (p c) eqn:E; [exact IH|simpl; exact E].
Qed.
Lemma takew_len : forall p r, List.length (takew p r) <= List.length r.
Proof.
  intros p r; rewrite <- (takew_dropw p r) at 2; rewrite app_length; lia.
Qed.
Lemma dropw_skipn : forall p r, dropw p r = skipn (List.length (takew p r)) r.
Proof.
  intros p r; induction r as [|c t IH]; simpl; [reflexivity|].
  destruct (p c); simpl; [exact IH|reflexivity].
Qed.
Lemma takew_app_stop : forall p a b, forallb p a = true -> hd_fails p b ->
  takew p (a ++ b) = a /\ dropw p (a ++ b) = b.
Proof.
  intros p a b; induction a as [|c a IH]; simpl; intros Ha Hb.
  - destruct b as [|x b]; simpl; [split; reflexivity|]. simpl in Hb; rewrite Hb; split; reflexivity.
  - apply andb_true_iff in Ha; destruct Ha as [Hc Ha]; rewrite Hc.
    destruct (IH Ha Hb) as [E1 E2]; rewrite E1, E2; split; reflexivity.
Qed.
Lemma takew_nil_dropw : forall p r, takew p r = [] -> dropw p r = r.
Proof.
  intros p r; destruct r as [|c t]; simpl; [reflexivity|]. destruct (p c); [discriminate|reflexivity].
Qed.

(* insertion of a character that fails [p] at or after the end of the run leaves the run alone *)
Lemma takew_ins : forall p u b w x, p w = false ->
  List.length (takew p (u ++ b)) <= List.length u ->
  takew p (u ++ w :: x) = takew p (u ++ b)
  /\ dropw p (u ++ w :: x) = skipn (List.length (takew p (u ++ b))) u ++ w :: x
  /\ dropw p (u ++ b) = skipn (List.length (takew p (u ++ b))) u ++ b.
Proof.
  intros p u b w x Hw; induction u as [|c u IH]; simpl; intro Hl.
  - rewrite Hw. assert (E : takew p b = []) by (destruct (takew p b); [reflexivity|simpl in Hl; lia]).
    rewrite E; simpl. rewrite (takew_nil_dropw _ _ E). repeat split; reflexivity.
  - destruct (p c) eqn:Ec; simpl in *.
    + destruct IH as (E1 & E2 & E3); [lia|]. rewrite E1, E2, E3. repeat split; reflexivity.
    + repeat split; reflexivity.
Qed.

(* ------------------------------------------------------------------ starts_with, text_eqb *)
Lemma starts_with_app : forall t r, starts_with t r = true <-> exists y, r = t ++ y.
Proof.
  induction t as [|x t IH]; intro r; simpl.
  - split; [intros _; exists r; reflexivity|reflexivity].
  - destruct r as [|y r]; [split; [discriminate|intros [z Hz]; discriminate]|].
    rewrite andb_true_iff, N.eqb_eq, IH. split.
    + intros [-> [z ->]]; exists z; reflexivity.
    + intros [z Hz]; injection Hz as -> ->; split; [reflexivity|exists z; reflexivity].
Qed.
Lemma starts_with_firstn : forall t r, starts_with t r = true -> firstn (List.length t) r = t.
Proof.
  intros t r H; apply starts_with_app in H; destruct H as [y ->].
  rewrite firstn_app, Nat.sub_diag, firstn_all; simpl; apply app_nil_r.
Qed.
Lemma starts_with_len : forall t r, starts_with t r = true -> List.length t <= List.length r.
Proof. intros t r H; apply starts_with_app in H; destruct H as [y ->]; rewrite app_length; lia. Qed.
Lemma text_eqb_eq : forall a b, text_eqb a b = true <-> a = b.
Proof.
  induction a as [|x a IH]; destruct b as [|y b]; simpl; try (split; [discriminate|intro H; discriminate]).
  - split; reflexivity.
  - rewrite andb_true_iff, N.eqb_eq, IH; split; [intros [-> ->]; reflexivity|intro H; injection H; auto].
Qed.
Lemma text_eqb_refl : forall a, text_eqb a a = true.
Proof. intro a; apply text_eqb_eq; reflexivity. Qed.

(* ------------------------------------------------------------------ strings and instants *)
Lemma str_end_ind : forall (P : list N -> Prop),
  P [] ->
  (forall c, P [c]) ->
  (forall c c2 t2, P t2 -> P (c2 :: t2) -> P (c :: c2 :: t2)) ->
  forall r : list N, P r.
Proof.
  intros P H0 H1 H2 r.
  assert (G : P r /\ forall c, P (c :: r)).
  { induction r as [|c r [IHa IHb]]; [split; [exact H0|exact H1]|].
    split; [apply IHb|]. intro c0. apply H2; [exact IHa|apply IHb]. }
  exact (proj1 G).
Qed.

Lemma str_end_nb : forall c y, (c =? ch_bslash)%N = false ->
  str_end (c :: y) = if (c =? ch_quote)%N then Some 0 else option_map S (str_end y).
Proof. intros c y H; destruct y; simpl; rewrite H; reflexivity. Qed.
Lemma str_end_b : forall c c2 y, (c =? ch_bslash)%N = true ->
  str_end (c :: c2 :: y) = if (c2 =? ch_quote)%N then option_map (fun k => S (S k)) (str_end y)
                           else option_map S (str_end (c2 :: y)).
Proof. intros c c2 y H; cbn [str_end]; rewrite H; reflexivity. Qed.
Lemma str_end_b1 : forall c, (c =? ch_bslash)%N = true -> str_end [c] = None.
Proof. intros c H; cbn [str_end]; rewrite H; reflexivity. Qed.

(* the closing delimiter is where [str_end] says, and the result depends only on the
   characters up to and including it *)
Lemma str_end_closed : forall r k, str_end r = Some k ->
  k < List.length r /\ nth_error r k = Some ch_quote
  /\ forall y, str_end (firstn (S k) r ++ y) = Some k.
Proof.
  intro r; induction r as [|c|c c2 t2 IHa IHb] using str_end_ind; intros k H.
  - discriminate.
  - destruct (c =? ch_bslash)%N eqn:Eb; [rewrite str_end_b1 in H by exact Eb; discriminate|].
    rewrite str_end_nb in H by exact Eb. destruct (c =? ch_quote)%N eqn:Eq; [|discriminate].
    injection H as <-. apply N.eqb_eq in Eq; subst c. split; [simpl; lia|split; [reflexivity|]].
    intro y; reflexivity.
  - destruct (c =? ch_bslash)%N eqn:Eb.
    + rewrite str_end_b in H by exact Eb. destruct (c2 =? ch_quote)%N eqn:E2.
      * destruct (str_end t2) as [j|] eqn:E; [|discriminate]. injection H as <-.
        destruct (IHa _ eq_refl) as (L & A & B). split; [simpl; lia|split; [exact A|]].
        intro y. cbn [firstn app]. rewrite str_end_b by exact Eb. rewrite E2.
        change (firstn (S j) t2 ++ y) with (firstn (S j) t2 ++ y). rewrite B. reflexivity.
      * destruct (str_end (c2 :: t2)) as [j|] eqn:E; [|discriminate]. injection H as <-.
        destruct (IHb _ eq_refl) as (L & A & B). split; [simpl in *; lia|split; [exact A|]].
        intro y. specialize (B y). cbn [firstn app] in *. rewrite str_end_b by exact Eb. rewrite E2.
        rewrite B. reflexivity.
    + rewrite str_end_nb in H by exact Eb. destruct (c =? ch_quote)%N eqn:Eq.
      * injection H as <-. apply N.eqb_eq in Eq; subst c. split; [simpl; lia|split; [reflexivity|]].
        intro y; reflexivity.
      * destruct (str_end (c2 :: t2)) as [j|] eqn:E; [|discriminate]. injection H as <-.
        destruct (IHb _ eq_refl) as (L & A & B). split; [simpl in *; lia|split; [exact A|]].
        intro y. specialize (B y). cbn [firstn app] in *. rewrite str_end_nb by exact Eb. rewrite Eq.
        rewrite B. reflexivity.
Qed.

Lemma inst_end_closed : forall r k, inst_end r = Some k ->
  k < List.length r /\ nth_error r k = Some ch_hash /\ ~ In ch_hash (firstn k r)
  /\ forall y, inst_end (firstn (S k) r ++ y) = Some k.
Proof.
  induction r as [|c t IH]; intros k H; simpl in H; [discriminate|].
  destruct (c =? ch_hash)%N eqn:Eh.
  - injection H as <-. apply N.eqb_eq in Eh; subst c.
    split; [simpl; lia|split; [reflexivity|split; [intros []|]]]. intro y; reflexivity.
  - destruct (inst_end t) as [j|] eqn:E; [|discriminate]. injection H as <-.
    destruct (IH _ eq_refl) as (L & A & NI & B). split; [simpl; lia|split; [exact A|split]].
    + simpl. intros [F|F]; [subst c; rewrite N.eqb_refl in Eh; discriminate|exact (NI F)].
    + intro y. cbn [firstn app inst_end]. rewrite Eh. rewrite B. reflexivity.
Qed.
Lemma inst_end_none : forall r, inst_end r = None <-> ~ In ch_hash r.
Proof.
  induction r as [|c t IH]; simpl; [split; [intros _ []|reflexivity]|].
  destruct (c =? ch_hash)%N eqn:Eh.
  - apply N.eqb_eq in Eh. split; [discriminate|intro H; exfalso; apply H; left; exact Eh].
  - apply N.eqb_neq in Eh. destruct (inst_end t); simpl.
    + split; [discriminate|]. intro H. exfalso. apply H. right.
      destruct (in_dec N.eq_dec ch_hash t) as [Hi|Hn]; [exact Hi|]. apply IH in Hn; discriminate.
    + split; [|reflexivity]. intros _ [F|F]; [congruence|]. apply (proj1 IH eq_refl F).
Qed.
Lemma str_end_no_quote : forall r, ~ In ch_quote r -> str_end r = None.
Proof.
  intro r; induction r as [|c|c c2 t2 IHa IHb] using str_end_ind; intro H.
  - reflexivity.
  - destruct (c =? ch_bslash)%N eqn:Eb; [apply str_end_b1; exact Eb|].
    rewrite str_end_nb by exact Eb. destruct (c =? ch_quote)%N eqn:Eq; [|reflexivity].
    apply N.eqb_eq in Eq; exfalso; apply H; left; exact Eq.
  - assert (H1 : ~ In ch_quote (c2 :: t2)) by (intro F; apply H; right; exact F).
    assert (H2 : ~ In ch_quote t2) by (intro F; apply H; right; right; exact F).
    destruct (c =? ch_bslash)%N eqn:Eb.
    + rewrite str_end_b by exact Eb. destruct (c2 =? ch_quote)%N eqn:E2.
      * apply N.eqb_eq in E2; exfalso; apply H1; left; exact E2.
      * rewrite (IHb H1); reflexivity.
    + rewrite str_end_nb by exact Eb. destruct (c =? ch_quote)%N eqn:Eq.
      * apply N.eqb_eq in Eq; exfalso; apply H; left; exact Eq.
      * rewrite (IHb H1); reflexivity.
Qed.

(* ------------------------------------------------------------------ lists *)
Lemma app_split_le : forall (L r3 a b : text), L ++ r3 = a ++ b -> List.length L <= List.length a ->
  exists a', a = L ++ a' /\ r3 = a' ++ b.
Proof.
  induction L as [|c L IH]; intros r3 a b H Hl; simpl in *.
  - exists a; split; [reflexivity|exact H].
  - destruct a as [|y a]; simpl in *; [lia|]. injection H as -> H.
    destruct (IH _ _ _ H) as (a2 & E1 & E2); [lia|]. subst. exists a2; split; reflexivity.
Qed.
Lemma skipn_app_exact : forall (a b : text), skipn (List.length a) (a ++ b) = b.
Proof. intros a b; rewrite skipn_app, skipn_all, Nat.sub_diag; reflexivity. Qed.
Lemma firstn_app_exact : forall (a b : text), firstn (List.length a) (a ++ b) = a.
Proof. intros a b; rewrite firstn_app, firstn_all, Nat.sub_diag; simpl; apply app_nil_r. Qed.
Lemma hd_fails_app : forall p (a b : text), (a = [] -> hd_fails p b) -> (a <> [] -> hd_fails p a) ->
  hd_fails p (a ++ b).
Proof. intros p a b H1 H2; destruct a; simpl; [apply H1; reflexivity|apply (H2 ltac:(discriminate))]. Qed.

(* ------------------------------------------------------------------ dead characters *)
(* a character the number/identifier/constant readers give no meaning to *)
Definition dead (w : N) : Prop :=
  ident_char w = false /\ w <> ch_dot /\ w <> ch_plus /\ w <> ch_minus.

Lemma hex_ident : forall c, is_hex c = true -> ident_char c = true.
Proof.
  intros c H; unfold is_hex in H; unfold ident_char, is_letter, is_lower, is_upper.
  apply orb_true_iff in H; destruct H as [H|H]; [apply orb_true_iff in H; destruct H as [H|H]|].
  - rewrite H; rewrite ?orb_true_r; reflexivity.
  - nb. replace ((97 <=? c)%N && (c <=? 122)%N) with true; [rewrite ?orb_true_r; reflexivity|].
    symmetry; apply andb_true_iff; split; apply N.leb_le; lia.
  - nb. replace ((65 <=? c)%N && (c <=? 90)%N) with true; [rewrite ?orb_true_r; reflexivity|].
    symmetry; apply andb_true_iff; split; apply N.leb_le; lia.
Qed.
Lemma base_ident : forall c, is_base_char c = true -> ident_char c = true.
Proof.
  intros c H; unfold is_base_char in H.
  assert (E : c = 120%N \/ c = 111%N \/ c = 98%N \/ c = 100%N).
  { repeat (apply orb_true_iff in H; destruct H as [H|H]); apply N.eqb_eq in H; auto. }
  destruct E as [-> | [-> | [-> | ->]]]; reflexivity.
Qed.
Lemma dead_digit : forall w, dead w -> is_digit w = false.
Proof. intros w [H _]; destruct (is_digit w) eqn:E; [rewrite (digit_ident _ E) in H; discriminate|reflexivity]. Qed.
Lemma dead_hex : forall w, dead w -> is_hex w = false.
Proof. intros w [H _]; destruct (is_hex w) eqn:E; [rewrite (hex_ident _ E) in H; discriminate|reflexivity]. Qed.
Lemma dead_base : forall w, dead w -> is_base_char w = false.
Proof. intros w [H _]; destruct (is_base_char w) eqn:E; [rewrite (base_ident _ E) in H; discriminate|reflexivity]. Qed.
Lemma dead_not_e : forall w, dead w -> (w =? ch_e)%N = false.
Proof. intros w [H _]; apply N.eqb_neq; intros ->; discriminate. Qed.
Lemma dead_not_0 : forall w, dead w -> (w =? 48)%N = false.
Proof. intros w [H _]; apply N.eqb_neq; intros ->; discriminate. Qed.
Lemma dead_not_dot : forall w, dead w -> (w =? ch_dot)%N = false.
Proof. intros w (_ & H & _); apply N.eqb_neq; exact H. Qed.
Lemma dead_not_plus : forall w, dead w -> (w =? ch_plus)%N = false.
Proof. intros w (_ & _ & H & _); apply N.eqb_neq; exact H. Qed.
Lemma dead_not_minus : forall w, dead w -> (w =? ch_minus)%N = false.
Proof. intros w (_ & _ & _ & H); apply N.eqb_neq; exact H. Qed.

(* ------------------------------------------------------------------ the exponent group *)
Lemma takew_split : forall p X,
  X = takew p X ++ skipn (List.length (takew p X)) X
  /\ hd_fails p (skipn (List.length (takew p X)) X) /\ forallb p (takew p X) = true.
Proof.
  intros p X. rewrite <- dropw_skipn. split; [symmetry; apply takew_dropw|].
  split; [apply dropw_hd|apply takew_all].
Qed.

Lemma exp_match_some : forall r neg es k, exp_match r = Some (neg, es, k) ->
  es <> [] /\ forallb is_digit es = true /\ 2 <= k <= List.length r
  /\ hd_fails is_digit (skipn k r)
  /\ exists sg, r = ch_e :: sg ++ es ++ skipn k r /\ k = 1 + List.length sg + List.length es
       /\ ((sg = [] /\ neg = false) \/ (sg = [ch_plus] /\ neg = false) \/ (sg = [ch_minus] /\ neg = true)).
Proof.
  intros r neg es k H. unfold exp_match in H.
  destruct r as [|c r1]; [discriminate|]. destruct (c =? ch_e)%N eqn:Ee; [|discriminate].
  apply N.eqb_eq in Ee; subst c. destruct r1 as [|s r2]; [discriminate|].
  destruct (s =? ch_minus)%N eqn:Em; [|destruct (s =? ch_plus)%N eqn:Ep].
  - apply N.eqb_eq in Em; subst s.
    destruct (takew_split is_digit r2) as (S1 & S2 & S3).
    destruct (takew is_digit r2) as [|d ds] eqn:E; [discriminate|]. injection H as <- <- <-.
    split; [discriminate|]. split; [exact S3|].
    assert (L : List.length (d :: ds) <= List.length r2) by (rewrite <- E; apply takew_len).
    split; [simpl in *; lia|]. split; [exact S2|].
    exists [ch_minus]. split; [simpl; f_equal; f_equal; exact S1|]. split; [simpl; lia|auto].
  - apply N.eqb_eq in Ep; subst s.
    destruct (takew_split is_digit r2) as (S1 & S2 & S3).
    destruct (takew is_digit r2) as [|d ds] eqn:E; [discriminate|]. injection H as <- <- <-.
    split; [discriminate|]. split; [exact S3|].
    assert (L : List.length (d :: ds) <= List.length r2) by (rewrite <- E; apply takew_len).
    split; [simpl in *; lia|]. split; [exact S2|].
    exists [ch_plus]. split; [simpl; f_equal; f_equal; exact S1|]. split; [simpl; lia|auto].
  - destruct (takew_split is_digit (s :: r2)) as (S1 & S2 & S3).
    destruct (takew is_digit (s :: r2)) as [|d ds] eqn:E; [discriminate|]. injection H as <- <- <-.
    split; [discriminate|]. split; [exact S3|].
    assert (L : List.length (d :: ds) <= List.length (s :: r2)) by (rewrite <- E; apply takew_len).
    split; [simpl in *; lia|]. split; [exact S2|].
    exists []. split; [simpl; f_equal; exact S1|]. split; [simpl; lia|auto].
Qed.

Lemma exp_match_1 : forall c, exp_match [c] = None.
Proof. intro c; unfold exp_match; destruct (c =? ch_e)%N; reflexivity. Qed.
Lemma exp_match_ne : forall c r, (c =? ch_e)%N = false -> exp_match (c :: r) = None.
Proof. intros c r H; unfold exp_match; rewrite H; reflexivity. Qed.
Lemma exp_match_2 : forall c s r2, (c =? ch_e)%N = true ->
  exp_match (c :: s :: r2) =
    if (s =? ch_minus)%N then
      match takew is_digit r2 with [] => None | ds => Some (true, ds, 2 + List.length ds) end
    else if (s =? ch_plus)%N then
      match takew is_digit r2 with [] => None | ds => Some (false, ds, 2 + List.length ds) end
    else
      match takew is_digit (s :: r2) with [] => None | ds => Some (false, ds, 1 + List.length ds) end.
Proof. intros c s r2 H; unfold exp_match; rewrite H; reflexivity. Qed.

(* a dead character inserted at or after the end of the exponent (or anywhere, when there is
   no exponent) does not change what the exponent group matches *)
Lemma exp_match_ins : forall u b w x, dead w ->
  (forall neg es k, exp_match (u ++ b) = Some (neg, es, k) -> k <= List.length u) ->
  exp_match (u ++ w :: x) = exp_match (u ++ b).
Proof.
  intros u b w x Hw Hk.
  assert (Hd := dead_digit _ Hw).
  destruct u as [|c u1].
  - simpl app. rewrite (exp_match_ne w x (dead_not_e _ Hw)).
    destruct (exp_match ([] ++ b)) as [[[neg es] k]|] eqn:E; [|simpl app in E; rewrite E; reflexivity].
    specialize (Hk _ _ _ eq_refl). destruct (exp_match_some _ _ _ _ E) as (_ & _ & L & _). simpl in Hk; lia.
  - destruct (c =? ch_e)%N eqn:Ee; [|simpl app; rewrite !exp_match_ne by exact Ee; reflexivity].
    destruct u1 as [|s u2].
    + simpl app. rewrite (exp_match_2 c w x Ee).
      rewrite (dead_not_minus _ Hw), (dead_not_plus _ Hw). simpl takew. rewrite Hd.
      destruct (exp_match ([c] ++ b)) as [[[neg es] k]|] eqn:E; [|simpl app in E; rewrite E; reflexivity].
      specialize (Hk _ _ _ eq_refl). destruct (exp_match_some _ _ _ _ E) as (_ & _ & L & _). simpl in Hk; lia.
    + simpl app in *. rewrite !(exp_match_2 c s _ Ee).
      destruct (s =? ch_minus)%N eqn:Em; [|destruct (s =? ch_plus)%N eqn:Ep].
      * assert (Hl : List.length (takew is_digit (u2 ++ b)) <= List.length u2).
        { destruct (takew is_digit (u2 ++ b)) as [|d ds] eqn:E; [simpl; lia|].
          specialize (Hk true (d :: ds) (2 + List.length (d :: ds))).
          rewrite (exp_match_2 c s _ Ee), Em, E in Hk. specialize (Hk eq_refl).
          simpl in *; lia. }
        destruct (takew_ins is_digit u2 b w x Hd Hl) as (E1 & _). rewrite E1. reflexivity.
      * assert (Hl : List.length (takew is_digit (u2 ++ b)) <= List.length u2).
        { destruct (takew is_digit (u2 ++ b)) as [|d ds] eqn:E; [simpl; lia|].
          specialize (Hk false (d :: ds) (2 + List.length (d :: ds))).
          rewrite (exp_match_2 c s _ Ee), Em, Ep, E in Hk. specialize (Hk eq_refl).
          simpl in *; lia. }
        destruct (takew_ins is_digit u2 b w x Hd Hl) as (E1 & _). rewrite E1. reflexivity.
      * assert (Hl : List.length (takew is_digit ((s :: u2) ++ b)) <= List.length (s :: u2)).
        { simpl app. destruct (takew is_digit (s :: u2 ++ b)) as [|d ds] eqn:E; [simpl; lia|].
          specialize (Hk false (d :: ds) (1 + List.length (d :: ds))).
          rewrite (exp_match_2 c s _ Ee), Em, Ep, E in Hk. specialize (Hk eq_refl).
          simpl in *; lia. }
        destruct (takew_ins is_digit (s :: u2) b w x Hd Hl) as (E1 & _).
        simpl app in E1. rewrite E1. reflexivity.
Qed.

(* ------------------------------------------------------------------ the parts of a NUM_REGEX match *)
Definition p_d1 (r : text) := takew is_digit r.
Definition p_r1 (r : text) := dropw is_digit r.
Definition p_dot (r : text) := starts_dot (p_r1 r).
Definition p_r2 (r : text) := if p_dot r then tl (p_r1 r) else p_r1 r.
Definition p_d2 (r : text) := takew is_digit (p_r2 r).
Definition p_r3 (r : text) := dropw is_digit (p_r2 r).
Definition p_nm (r : text) := List.length (p_d1 r) + (if p_dot r then 1 else 0) + List.length (p_d2 r).
Definition dotl (b : bool) : text := if b then [ch_dot] else [].

Definition dec_result (D1 : text) (DOT : bool) (D2 R3 : text) : nres :=
  let nm := List.length D1 + (if DOT then 1 else 0) + List.length D2 in
  match exp_match R3 with
  | None => if DOT && is_nil D2 && starts_dot R3 then NOk (List.length D1) (LInt (dec_val D1))
            else nres_of nm (num_value D1 DOT D2 None)
  | Some (neg, es, k) => nres_of (nm + k) (num_value D1 DOT D2 (Some (neg, es)))
  end.

Lemma read_dec_eq : forall r, read_dec r =
  if is_nil (p_d1 r) && is_nil (p_d2 r) then NBad
  else dec_result (p_d1 r) (p_dot r) (p_d2 r) (p_r3 r).
Proof. reflexivity. Qed.

Lemma starts_dot_digit : forall r, starts_dot r = true -> hd_fails is_digit r.
Proof. intros [|c t] H; simpl in *; [exact I|]. apply N.eqb_eq in H; subst c; reflexivity. Qed.

Lemma dec_parts : forall r,
  r = p_d1 r ++ dotl (p_dot r) ++ p_d2 r ++ p_r3 r
  /\ forallb is_digit (p_d1 r) = true /\ forallb is_digit (p_d2 r) = true
  /\ hd_fails is_digit (p_r3 r)
  /\ (p_dot r = false -> p_d2 r = [] /\ starts_dot (p_r3 r) = false).
Proof.
  intro r.
  assert (A : r = p_d1 r ++ p_r1 r) by (symmetry; apply takew_dropw).
  assert (B : p_r1 r = dotl (p_dot r) ++ p_r2 r).
  { unfold p_r2, p_dot. destruct (p_r1 r) as [|c t]; simpl; [reflexivity|].
    destruct (c =? ch_dot)%N eqn:E; simpl; [apply N.eqb_eq in E; subst c|]; reflexivity. }
  assert (Cc : p_r2 r = p_d2 r ++ p_r3 r) by (symmetry; apply takew_dropw).
  split; [rewrite <- Cc, <- B; exact A|].
  split; [apply takew_all|]. split; [apply takew_all|]. split; [apply dropw_hd|].
  intro Hd. assert (Hf : hd_fails is_digit (p_r1 r)) by apply dropw_hd.
  unfold p_d2, p_r3, p_r2. rewrite Hd.
  assert (E : takew is_digit (p_r1 r) = []).
  { destruct (p_r1 r) as [|c t]; simpl in *; [reflexivity|rewrite Hf; reflexivity]. }
  split; [exact E|]. rewrite (takew_nil_dropw _ _ E). exact Hd.
Qed.

Lemma dec_parts_unique : forall D1 DOT D2 R3,
  forallb is_digit D1 = true -> forallb is_digit D2 = true -> hd_fails is_digit R3 ->
  (DOT = false -> D2 = [] /\ starts_dot R3 = false) ->
  let r := D1 ++ dotl DOT ++ D2 ++ R3 in
  p_d1 r = D1 /\ p_dot r = DOT /\ p_d2 r = D2 /\ p_r3 r = R3.
Proof.
  intros D1 DOT D2 R3 H1 H2 H3 H4 r.
  assert (Hrest : hd_fails is_digit (dotl DOT ++ D2 ++ R3)).
  { destruct DOT; simpl; [reflexivity|]. destruct (H4 eq_refl) as [-> _]. exact H3. }
  destruct (takew_app_stop is_digit D1 _ H1 Hrest) as [E1 E2].
  assert (Ed : p_dot r = DOT).
  { unfold p_dot, p_r1, r. rewrite E2. destruct DOT; simpl; [reflexivity|].
    destruct (H4 eq_refl) as [-> E]. exact E. }
  assert (E3 : p_r2 r = D2 ++ R3).
  { unfold p_r2. rewrite Ed. unfold p_r1, r. rewrite E2. destruct DOT; reflexivity. }
  destruct (takew_app_stop is_digit D2 R3 H2 H3) as [E4 E5].
  split; [exact E1|]. split; [exact Ed|]. unfold p_d2, p_r3. rewrite E3. split; assumption.
Qed.

Lemma read_dec_of_parts : forall D1 DOT D2 R3,
  forallb is_digit D1 = true -> forallb is_digit D2 = true -> hd_fails is_digit R3 ->
  (DOT = false -> D2 = [] /\ starts_dot R3 = false) ->
  is_nil D1 && is_nil D2 = false ->
  read_dec (D1 ++ dotl DOT ++ D2 ++ R3) = dec_result D1 DOT D2 R3.
Proof.
  intros D1 DOT D2 R3 H1 H2 H3 H4 H5.
  destruct (dec_parts_unique D1 DOT D2 R3 H1 H2 H3 H4) as (E1 & E2 & E3 & E4).
  rewrite read_dec_eq, E1, E2, E3, E4, H5. reflexivity.
Qed.

(* ------------------------------------------------------------------ based literals *)
Lemma based_window_inv : forall r, based_window r = true ->
  exists bc hs R, r = 48%N :: bc :: hs ++ R /\ is_base_char bc = true /\ hs <> []
    /\ forallb is_hex hs = true /\ hd_fails is_hex R.
Proof.
  intros r H. destruct r as [|c0 [|c1 [|c2 t]]]; simpl in H; try discriminate.
  nb. subst c0. exists c1, (takew is_hex (c2 :: t)), (dropw is_hex (c2 :: t)).
  split; [rewrite takew_dropw; reflexivity|]. split; [assumption|].
  split; [simpl; rewrite H0; discriminate|]. split; [apply takew_all|apply dropw_hd].
Qed.

Lemma read_based_of_parts : forall bc hs R,
  is_base_char bc = true -> hs <> [] -> forallb is_hex hs = true -> hd_fails is_hex R ->
  based_window (48%N :: bc :: hs ++ R) = true
  /\ read_based (48%N :: bc :: hs ++ R)
     = nres_of (2 + List.length hs) (option_map LInt (horner (base_of bc) hs 0%Z)).
Proof.
  intros bc hs R Hb Hn Hh HR. split.
  - destruct hs as [|h hs]; [congruence|]. simpl in *. rewrite Hb. nb. rewrite H. reflexivity.
  - unfold read_based. destruct (takew_app_stop is_hex hs R Hh HR) as [E _]. rewrite E. reflexivity.
Qed.

Lemma based_window_ins : forall a b w x, based_window (a ++ b) = false -> 1 <= List.length a ->
  dead w -> based_window (a ++ w :: x) = false.
Proof.
  intros a b w x H L Hw.
  destruct a as [|c0 [|c1 [|c2 a3]]]; simpl in *; try lia.
  - rewrite (dead_base _ Hw). destruct x; [reflexivity|]. rewrite andb_false_r. reflexivity.
  - rewrite (dead_hex _ Hw). rewrite andb_false_r. reflexivity.
  - exact H.
Qed.

Lemma nres_of_ok : forall n o m v, nres_of n o = NOk m v -> m = n /\ o = Some v.
Proof. intros n [l|] m v H; simpl in H; [injection H as <- <-; auto|discriminate]. Qed.

(* ------------------------------------------------------------------ read_num: extent *)
Lemma read_num_bounds : forall r n v, read_num r = NOk n v ->
  1 <= n <= List.length r /\ hd_fails is_digit (skipn n r).
Proof.
  intros r n v H. unfold read_num in H. destruct (based_window r) eqn:Bw.
  - destruct (based_window_inv _ Bw) as (bc & hs & R & -> & Hb & Hn & Hh & HR).
    destruct (read_based_of_parts bc hs R Hb Hn Hh HR) as [_ E]. rewrite E in H.
    apply nres_of_ok in H. destruct H as [-> _].
    split; [simpl; rewrite app_length; lia|].
    change (skipn (2 + List.length hs) (48%N :: bc :: hs ++ R)) with (skipn (List.length hs) (hs ++ R)).
    rewrite skipn_app_exact. destruct R as [|c t]; simpl in *; [exact I|].
    destruct (is_digit c) eqn:E2; [rewrite (digit_is_hex _ E2) in HR; discriminate|reflexivity].
  - rewrite read_dec_eq in H.
    destruct (is_nil (p_d1 r) && is_nil (p_d2 r)) eqn:Nn; [discriminate|].
    destruct (dec_parts r) as (Hr & H1 & H2 & H3 & H4).
    set (D1 := p_d1 r) in *. set (DOT := p_dot r) in *. set (D2 := p_d2 r) in *. set (R3 := p_r3 r) in *.
    assert (Hlen : List.length r = List.length D1 + (if DOT then 1 else 0) + List.length D2 + List.length R3).
    { rewrite Hr at 1. rewrite !app_length. destruct DOT; simpl; lia. }
    assert (Hpos : 1 <= List.length D1 + List.length D2).
    { destruct D1; destruct D2; simpl in *; try lia; try discriminate. }
    assert (Hskip : forall k, skipn (List.length D1 + (if DOT then 1 else 0) + List.length D2 + k) r = skipn k R3).
    { intro k. rewrite Hr at 1. rewrite (app_assoc D1), (app_assoc (D1 ++ dotl DOT)).
      replace (List.length D1 + (if DOT then 1 else 0) + List.length D2 + k)
        with (List.length ((D1 ++ dotl DOT) ++ D2) + k) by (rewrite !app_length; destruct DOT; simpl; lia).
      rewrite skipn_app. rewrite skipn_all2 by lia.
      replace (List.length ((D1 ++ dotl DOT) ++ D2) + k - List.length ((D1 ++ dotl DOT) ++ D2)) with k by lia.
      reflexivity. }
    unfold dec_result in H. destruct (exp_match R3) as [[[neg es] k]|] eqn:Ex.
    + apply nres_of_ok in H. destruct H as [-> _].
      destruct (exp_match_some _ _ _ _ Ex) as (_ & _ & Lk & Hh & _).
      split; [lia|]. rewrite Hskip. exact Hh.
    + destruct (DOT && is_nil D2 && starts_dot R3) eqn:Dd.
      * injection H as <- <-. nb. destruct D2; [|discriminate].
        assert (D1 <> []) by (destruct D1; simpl in *; [discriminate|discriminate]).
        split; [destruct D1; simpl in *; [congruence|lia]|].
        rewrite Hr at 1. rewrite skipn_app_exact. rewrite H. reflexivity.
      * apply nres_of_ok in H. destruct H as [-> _]. split; [lia|].
        specialize (Hskip 0). rewrite Nat.add_0_r in Hskip. rewrite Hskip. exact H3.
Qed.

(* ------------------------------------------------------------------ read_num: lookahead *)
(* A dead character inserted at or after the end of a number token (position [length a],
   counted from the token start) does not change the token — except in the single situation
   "digits . | ." (the inserted character would separate the two dots of a range after the
   first dot), which is excluded by the last hypothesis. *)
Lemma read_num_ins : forall a b w x n v, dead w ->
  read_num (a ++ b) = NOk n v -> n <= List.length a ->
  (List.length a = S n -> starts_dot (skipn n a) = true -> starts_dot b = false) ->
  read_num (a ++ w :: x) = NOk n v.
Proof.
  intros a b w x n v Hw H Hn Hdd.
  destruct (read_num_bounds _ _ _ H) as [[Hn1 _] _].
  unfold read_num in *. destruct (based_window (a ++ b)) eqn:Bw.
  - destruct (based_window_inv _ Bw) as (bc & hs & R & Er & Hb & Hne & Hh & HR).
    rewrite Er in H. destruct (read_based_of_parts bc hs R Hb Hne Hh HR) as [_ E]. rewrite E in H.
    destruct (nres_of_ok _ _ _ _ H) as [-> Hv].
    change (48%N :: bc :: hs ++ R) with ((48%N :: bc :: hs) ++ R) in Er. symmetry in Er.
    destruct (app_split_le _ _ _ _ Er) as (a' & -> & ->); [simpl in *; lia|].
    assert (HR' : hd_fails is_hex (a' ++ w :: x)).
    { destruct a'; simpl in *; [apply dead_hex; exact Hw|exact HR]. }
    rewrite <- app_assoc. change ((48%N :: bc :: hs) ++ a' ++ w :: x) with (48%N :: bc :: hs ++ (a' ++ w :: x)).
    destruct (read_based_of_parts bc hs _ Hb Hne Hh HR') as [Bw' E']. rewrite Bw', E'. exact H.
  - rewrite (based_window_ins a b w x Bw) by (try lia; exact Hw).
    rewrite read_dec_eq in H.
    destruct (is_nil (p_d1 (a ++ b)) && is_nil (p_d2 (a ++ b))) eqn:Nn; [discriminate|].
    destruct (dec_parts (a ++ b)) as (Hr & H1 & H2 & H3 & H4).
    remember (p_d1 (a ++ b)) as D1. remember (p_dot (a ++ b)) as DOT.
    remember (p_d2 (a ++ b)) as D2. remember (p_r3 (a ++ b)) as R3.
    clear HeqD1 HeqDOT HeqD2 HeqR3.
    assert (Hd := dead_digit _ Hw).
    unfold dec_result in H. destruct (exp_match R3) as [[[neg es] k]|] eqn:Ex.
    + (* exponent present *)
      destruct (nres_of_ok _ _ _ _ H) as [-> Hv].
      rewrite (app_assoc D1), (app_assoc (D1 ++ dotl DOT)) in Hr. symmetry in Hr.
      destruct (app_split_le _ _ _ _ Hr) as (a' & Ea & ER3).
      { rewrite !app_length. destruct DOT; simpl in *; lia. }
      assert (Hk : k <= List.length a').
      { rewrite Ea in Hn. rewrite !app_length in Hn. destruct DOT; simpl in *; lia. }
      assert (Ex' : exp_match (a' ++ w :: x) = Some (neg, es, k)).
      { rewrite (exp_match_ins a' b w x Hw); [rewrite <- ER3; exact Ex|].
        intros neg0 es0 k0 E0. rewrite <- ER3, Ex in E0. injection E0 as _ _ <-. exact Hk. }
      assert (H3' : hd_fails is_digit (a' ++ w :: x)).
      { destruct a'; simpl in *; [exact Hd|subst R3; exact H3]. }
      assert (H4' : DOT = false -> D2 = [] /\ starts_dot (a' ++ w :: x) = false).
      { intro F. destruct (H4 F) as [G1 G2]. split; [exact G1|].
        destruct a'; simpl in *; [apply dead_not_dot; exact Hw|subst R3; exact G2]. }
      rewrite Ea. rewrite <- !app_assoc.
      rewrite (read_dec_of_parts D1 DOT D2 (a' ++ w :: x) H1 H2 H3' H4' Nn).
      unfold dec_result. rewrite Ex'. exact H.
    + destruct (DOT && is_nil D2 && starts_dot R3) eqn:Dd.
      * (* the range rule: the token is D1, the regex had consumed "D1." *)
        injection H as <- <-.
        apply andb_true_iff in Dd; destruct Dd as [Dd Hsd].
        apply andb_true_iff in Dd; destruct Dd as [HDOT HD2].
        destruct D2; [|discriminate]. subst DOT. simpl in Hr.
        assert (Hne : D1 <> []) by (destruct D1; simpl in *; [discriminate|discriminate]).
        destruct (Nat.eq_dec (List.length a) (List.length D1)) as [El|Nl].
        { (* inserted right after the digits *)
          symmetry in Hr. destruct (app_split_le _ _ _ _ Hr) as (a' & Ea & _); [lia|].
          assert (a' = []) by (destruct a'; [reflexivity|rewrite Ea, app_length in El; simpl in El; lia]).
          subst a'. rewrite app_nil_r in Ea. subst a.
          assert (Hx : hd_fails is_digit (w :: x)) by exact Hd.
          assert (Hy : false = false -> ([] : text) = [] /\ starts_dot (w :: x) = false).
          { intros _; split; [reflexivity|simpl; apply dead_not_dot; exact Hw]. }
          pose proof (read_dec_of_parts D1 false [] (w :: x) H1 eq_refl Hx Hy) as E.
          simpl in E. rewrite E by (destruct D1; [congruence|reflexivity]).
          unfold dec_result. rewrite (exp_match_ne w x (dead_not_e _ Hw)). simpl.
          rewrite !Nat.add_0_r. reflexivity. }
        { (* inserted after "D1." or later *)
          change (D1 ++ ch_dot :: R3) with (D1 ++ [ch_dot] ++ R3) in Hr. rewrite app_assoc in Hr.
          symmetry in Hr. destruct (app_split_le _ _ _ _ Hr) as (a' & Ea & ER3).
          { rewrite app_length; simpl; lia. }
          destruct a' as [|z a''].
          - (* exactly between the two dots: excluded *)
            exfalso. simpl in ER3. rewrite app_nil_r in Ea.
            assert (Hsb : starts_dot b = false).
            { apply Hdd; [rewrite Ea, app_length; simpl; lia|].
              rewrite Ea. rewrite skipn_app_exact. reflexivity. }
            rewrite <- ER3 in Hsb. congruence.
          - assert (Hz : (z =? ch_dot)%N = true) by (rewrite ER3 in Hsd; exact Hsd).
            assert (Hx : hd_fails is_digit ((z :: a'') ++ w :: x)).
            { simpl. apply N.eqb_eq in Hz; subst z; reflexivity. }
            assert (Hy : true = false -> ([] : text) = [] /\ starts_dot ((z :: a'') ++ w :: x) = false)
              by discriminate.
            rewrite Ea. rewrite <- !app_assoc.
            pose proof (read_dec_of_parts D1 true [] ((z :: a'') ++ w :: x) H1 eq_refl Hx Hy) as E.
            simpl app in E. simpl app. rewrite E by (destruct D1; [congruence|reflexivity]).
            unfold dec_result. rewrite exp_match_ne by (apply N.eqb_eq in Hz; subst z; reflexivity).
            simpl. rewrite Hz. reflexivity. }
      * (* no exponent, no range rule *)
        destruct (nres_of_ok _ _ _ _ H) as [-> Hv].
        rewrite (app_assoc D1), (app_assoc (D1 ++ dotl DOT)) in Hr. symmetry in Hr.
        destruct (app_split_le _ _ _ _ Hr) as (a' & Ea & ER3).
        { rewrite !app_length. destruct DOT; simpl in *; lia. }
        assert (Ex' : exp_match (a' ++ w :: x) = None).
        { rewrite (exp_match_ins a' b w x Hw); [rewrite <- ER3; exact Ex|].
          intros neg0 es0 k0 E0. rewrite <- ER3, Ex in E0. discriminate. }
        assert (H3' : hd_fails is_digit (a' ++ w :: x)).
        { destruct a'; simpl in *; [exact Hd|subst R3; exact H3]. }
        assert (Hsd : starts_dot R3 = false -> starts_dot (a' ++ w :: x) = false).
        { intro G. destruct a'; simpl in *; [apply dead_not_dot; exact Hw|subst R3; exact G]. }
        assert (H4' : DOT = false -> D2 = [] /\ starts_dot (a' ++ w :: x) = false).
        { intro F. destruct (H4 F) as [G1 G2]. split; [exact G1|apply Hsd; exact G2]. }
        rewrite Ea. rewrite <- !app_assoc.
        rewrite (read_dec_of_parts D1 DOT D2 (a' ++ w :: x) H1 H2 H3' H4' Nn).
        unfold dec_result. rewrite Ex'.
        assert (Dd' : DOT && is_nil D2 && starts_dot (a' ++ w :: x) = false).
        { destruct (DOT && is_nil D2) eqn:G; [|reflexivity]. simpl in *. apply Hsd; exact Dd. }
        rewrite Dd'. exact H.
Qed.

Lemma read_num_dot : forall t n v, read_num (ch_dot :: t) = NOk n v -> 2 <= n.
Proof.
  intros t n v H. unfold read_num in H.
  assert (Bw : based_window (ch_dot :: t) = false) by (destruct t as [|c1 [|c2 t']]; reflexivity).
  rewrite Bw in H. rewrite read_dec_eq in H.
  assert (E1 : p_d1 (ch_dot :: t) = []) by reflexivity.
  assert (E2 : p_dot (ch_dot :: t) = true) by reflexivity.
  rewrite E1, E2 in H. simpl is_nil in H. simpl andb in H.
  destruct (is_nil (p_d2 (ch_dot :: t))) eqn:Nn; [discriminate|].
  unfold dec_result in H. rewrite Nn in H. rewrite andb_false_r in H. simpl andb in H.
  assert (L : 1 <= List.length (p_d2 (ch_dot :: t))) by (destruct (p_d2 (ch_dot :: t)); [discriminate|simpl; lia]).
  destruct (exp_match (p_r3 (ch_dot :: t))) as [[[neg es] k]|];
    apply nres_of_ok in H; destruct H as [-> _]; simpl; lia.
Qed.

Lemma takew_ge : forall p (a b : text), forallb p a = true ->
  takew p (a ++ b) = a ++ takew p b.
Proof.
  intros p a b; induction a as [|c a IH]; simpl; intro H; [reflexivity|].
  apply andb_true_iff in H; destruct H as [Hc Ha]. rewrite Hc, (IH Ha). reflexivity.
Qed.

(* ================================================================== the lexer proper *)
Section WithClasses.
  Variables isspace isalpha isnumeric : N -> bool.
  Variables ctoks atoks : list text.
  Notation sigc := (sig_char ctoks).
  Notation rd := (read_token isalpha isnumeric ctoks atoks).
  Notation tk := (toks isspace isalpha isnumeric ctoks atoks).
  Notation hit := (entry_hit isalpha atoks).
  Notation scn := (scan isalpha atoks).

  Hypothesis Hclass : forall c, class_ok_b isspace isalpha isnumeric ctoks c = true.
  Hypothesis Hne : all_nonempty ctoks = true.
  Hypothesis Halpha : alpha_consistent ctoks atoks = true.

  (* ---------------------------------------------------------------- class facts *)
  Lemma cls_ws : forall c, isspace c = true -> sigc c = false /\ isalpha c = false /\ isnumeric c = false.
  Proof.
    intros c H. specialize (Hclass c). unfold class_ok_b in Hclass. rewrite H in Hclass.
    destruct (sigc c), (isalpha c), (isnumeric c); simpl in Hclass; try discriminate. auto.
  Qed.
  Lemma cls_letter : forall c, is_letter c = true -> isalpha c = true.
  Proof.
    intros c H. specialize (Hclass c). unfold class_ok_b in Hclass. rewrite H in Hclass.
    destruct (isalpha c); [reflexivity|]. simpl in Hclass. rewrite !andb_false_r in Hclass.
    rewrite ?andb_false_l in Hclass. discriminate.
  Qed.
  Lemma cls_sig_alpha : forall c, sigc c = true -> isalpha c = true -> ident_char c = true.
  Proof.
    intros c H1 H2. specialize (Hclass c). unfold class_ok_b in Hclass. rewrite H1, H2 in Hclass.
    destruct (ident_char c); [reflexivity|]. simpl in Hclass. rewrite !andb_false_r in Hclass.
    rewrite ?andb_false_l in Hclass. discriminate.
  Qed.
  Lemma cls_digit : forall c, is_digit c = true -> isnumeric c = true.
  Proof.
    intros c H. specialize (Hclass c). unfold class_ok_b in Hclass. rewrite H in Hclass.
    destruct (isnumeric c); [reflexivity|]. simpl in Hclass. rewrite !andb_false_r in Hclass.
    rewrite ?andb_false_l in Hclass. discriminate.
  Qed.
  Lemma cls_dot : isnumeric ch_dot = false.
  Proof.
    specialize (Hclass ch_dot). unfold class_ok_b in Hclass.
    destruct (isnumeric ch_dot); [|reflexivity]. simpl in Hclass. rewrite !andb_false_r in Hclass. discriminate.
  Qed.

  Lemma sig_ident : forall c, ident_char c = true -> sigc c = true.
  Proof. intros c H; unfold sig_char; rewrite H; rewrite ?orb_true_r; reflexivity. Qed.
  Lemma sig_tok : forall t c, In t ctoks -> In c t -> sigc c = true.
  Proof.
    intros t c Ht Hc. unfold sig_char. apply orb_true_iff; right.
    apply existsb_exists. exists t; split; [exact Ht|]. apply existsb_exists. exists c; split; [exact Hc|apply N.eqb_refl].
  Qed.
  Lemma ws_dead : forall w, isspace w = true -> dead w.
  Proof.
    intros w H. destruct (cls_ws _ H) as [S _]. unfold sig_char in S.
    repeat (apply orb_false_iff in S; destruct S as [S ?]).
    unfold dead. nb. repeat split; assumption.
  Qed.
  Lemma sig_not_ws : forall c, sigc c = true -> isspace c = false.
  Proof. intros c H; destruct (isspace c) eqn:E; [destruct (cls_ws _ E); congruence|reflexivity]. Qed.

  Lemma tok_nonempty : forall t, In t ctoks -> t <> [].
  Proof.
    intros t Ht. unfold all_nonempty in Hne. rewrite forallb_forall in Hne.
    specialize (Hne _ Ht). destruct t; [discriminate|discriminate].
  Qed.
  Lemma tok_alpha : forall t, In t ctoks -> mem t atoks = forallb is_letter t.
  Proof.
    intros t Ht. unfold alpha_consistent in Halpha. rewrite forallb_forall in Halpha.
    specialize (Halpha _ Ht). apply eqb_prop in Halpha. exact Halpha.
  Qed.

  (* ---------------------------------------------------------------- the constant-token scan *)
  Lemma scan_some : forall tbl r t, scn tbl r = Some t -> In t tbl /\ hit t r = true.
  Proof.
    induction tbl as [|t0 tl IH]; intros r t H; simpl in H; [discriminate|].
    destruct (hit t0 r) eqn:E.
    - injection H as <-. split; [left; reflexivity|exact E].
    - destruct (IH _ _ H) as [A B]. split; [right; exact A|exact B].
  Qed.
  Lemma scan_none : forall tbl r, scn tbl r = None -> forall t, In t tbl -> hit t r = false.
  Proof.
    induction tbl as [|t0 tl IH]; intros r H t Ht; simpl in *; [contradiction|].
    destruct (hit t0 r) eqn:E; [discriminate|]. destruct Ht as [<-|Ht]; [exact E|exact (IH _ H _ Ht)].
  Qed.
  Lemma hit_starts : forall t r, hit t r = true -> starts_with t r = true.
  Proof. intros t r H; unfold entry_hit in H; apply andb_true_iff in H; tauto. Qed.

  (* the first hit is the longest hit (C11_longest_const) *)
  Lemma scan_longest : forall tbl r t, order_ok atoks tbl = true -> scn tbl r = Some t ->
    forall t', In t' tbl -> hit t' r = true -> List.length t' <= List.length t.
  Proof.
    induction tbl as [|t0 tl IH]; intros r t Ho H t' Ht' Hh; simpl in *; [contradiction|].
    apply andb_true_iff in Ho; destruct Ho as [Ho1 Ho2].
    destruct (hit t0 r) eqn:E.
    - injection H as <-. destruct Ht' as [<-|Ht']; [lia|].
      destruct (le_lt_dec (List.length t') (List.length t0)) as [L|L]; [exact L|exfalso].
      rewrite forallb_forall in Ho1. specialize (Ho1 _ Ht').
      pose proof (hit_starts _ _ E) as S0. pose proof (hit_starts _ _ Hh) as S1.
      apply starts_with_app in S0; destruct S0 as [y0 E0]. apply starts_with_app in S1; destruct S1 as [y1 E1].
      assert (Ep : exists z, t' = t0 ++ z /\ y0 = z ++ y1).
      { rewrite E0 in E1. destruct (app_split_le t0 y0 t' y1 E1) as (z & A & B); [lia|]. exists z; auto. }
      destruct Ep as (z & -> & ->).
      assert (PP : proper_prefix t0 (t0 ++ z) = true).
      { unfold proper_prefix. apply andb_true_iff; split; [apply starts_with_app; exists z; reflexivity|].
        apply Nat.ltb_lt. exact L. }
      rewrite PP in Ho1. simpl in Ho1. apply andb_true_iff in Ho1. destruct Ho1 as [Hm Hl].
      destruct z as [|c z]; [rewrite app_nil_r in L; lia|].
      rewrite app_nth2 in Hl by lia. rewrite Nat.sub_diag in Hl. simpl in Hl.
      unfold entry_hit in E. rewrite Hm in E. simpl in E.
      rewrite E0 in E. rewrite skipn_app_exact in E. simpl in E.
      rewrite (cls_letter _ Hl) in E. simpl in E. rewrite andb_false_r in E. discriminate.
    - destruct Ht' as [<-|Ht']; [congruence|]. exact (IH _ _ Ho2 H _ Ht' Hh).
  Qed.

  Lemma starts_with_prefix_ins : forall t a b w x, List.length t <= List.length a ->
    starts_with t (a ++ w :: x) = starts_with t (a ++ b).
  Proof.
    induction t as [|c t IH]; intros a b w x L; simpl; [reflexivity|].
    destruct a as [|y a]; simpl in *; [lia|]. rewrite (IH a b w x) by lia. reflexivity.
  Qed.
  Lemma skipn_short_app : forall k (a b : text), k < List.length a ->
    exists z r, skipn k (a ++ b) = z :: r ++ b /\ skipn k a = z :: r.
  Proof.
    induction k as [|k IH]; intros a b L; destruct a as [|y a]; simpl in *; try lia.
    - exists y, a; split; reflexivity.
    - destruct (IH a b) as (z & r & A & B); [lia|]. exists z, r; split; assumption.
  Qed.

  Lemma hit_ins_true : forall t a b w x, isspace w = true ->
    hit t (a ++ b) = true -> List.length t <= List.length a -> hit t (a ++ w :: x) = true.
  Proof.
    intros t a b w x Hw H L. unfold entry_hit in *. apply andb_true_iff in H; destruct H as [S A].
    rewrite (starts_with_prefix_ins t a b w x L), S. simpl.
    destruct (negb (mem t atoks)); [reflexivity|]. simpl in *.
    destruct (Nat.eq_dec (List.length t) (List.length a)) as [El|Nl].
    - rewrite El, skipn_app_exact. simpl. destruct (cls_ws _ Hw) as (_ & Al & _). rewrite Al. reflexivity.
    - destruct (skipn_short_app (List.length t) a b) as (z & r & E1 & _); [lia|].
      destruct (skipn_short_app (List.length t) a (w :: x)) as (z' & r' & E1' & E2'); [lia|].
      destruct (skipn_short_app (List.length t) a b) as (z2 & r2 & _ & E2); [lia|].
      rewrite E2 in E2'. injection E2' as <- <-. rewrite E1'. rewrite E1 in A.
      destruct (skipn_short_app (List.length t) a b) as (z3 & r3 & E3 & E4); [lia|].
      rewrite E3 in E1. rewrite E4 in E2. injection E2 as -> ->. injection E1 as -> _. exact A.
  Qed.

  (* an entry that is not a hit before the insertion can become one only in the situation
     "an alphabetic token exactly as long as [a], followed in [b] by a letter" *)
  Lemma hit_ins_false : forall t a b w x, isspace w = true -> In t ctoks ->
    hit t (a ++ b) = false ->
    (List.length t = List.length a -> starts_with t a = true -> mem t atoks = true ->
       next_not_alpha isalpha b = true) ->
    hit t (a ++ w :: x) = false.
  Proof.
    intros t a b w x Hw Ht H Hx. destruct (hit t (a ++ w :: x)) eqn:E; [exfalso|reflexivity].
    unfold entry_hit in *. apply andb_true_iff in E; destruct E as [S A].
    destruct (le_lt_dec (List.length t) (List.length a)) as [L|L].
    - rewrite (starts_with_prefix_ins t a b w x L) in S. rewrite S in H. simpl in H.
      destruct (mem t atoks) eqn:M; simpl in *; [|discriminate].
      destruct (Nat.eq_dec (List.length t) (List.length a)) as [El|Nl].
      + rewrite El, skipn_app_exact in H. rewrite Hx in H; [discriminate|exact El| |reflexivity].
        apply starts_with_app in S. destruct S as [y Ey]. apply starts_with_app.
        destruct (app_split_le t y a b (eq_sym Ey)) as (z & Ez & _); [lia|]. exists z; exact Ez.
      + destruct (skipn_short_app (List.length t) a b) as (z & r & E1 & E2); [lia|].
        destruct (skipn_short_app (List.length t) a (w :: x)) as (z' & r' & E1' & E2'); [lia|].
        rewrite E2 in E2'. injection E2' as <- <-. rewrite E1 in H. rewrite E1' in A. simpl in *. congruence.
    - apply starts_with_app in S. destruct S as [y Ey].
      destruct (app_split_le a (w :: x) t y Ey) as (z & Ez & Ew); [lia|].
      destruct z as [|z0 z]; [rewrite app_nil_r in Ez; subst t; lia|]. injection Ew as <- _.
      assert (Sg : sigc w = true) by (apply (sig_tok t w Ht); rewrite Ez; apply in_or_app; right; left; reflexivity).
      destruct (cls_ws _ Hw) as [Sf _]. congruence.
  Qed.

  Lemma all_letters_prefix : forall (t z : text), forallb is_letter (t ++ z) = true -> forallb is_letter t = true.
  Proof. intros t z H; rewrite forallb_app in H; apply andb_true_iff in H; tauto. Qed.

  Lemma scan_ins_some : forall tbl a b w x t, incl tbl ctoks -> isspace w = true ->
    scn tbl (a ++ b) = Some t -> List.length t <= List.length a ->
    scn tbl (a ++ w :: x) = Some t.
  Proof.
    induction tbl as [|t0 tl IH]; intros a b w x t Hi Hw H L; simpl in *; [discriminate|].
    assert (Hi0 : In t0 ctoks) by (apply Hi; left; reflexivity).
    assert (Hil : incl tl ctoks) by (intros u Hu; apply Hi; right; exact Hu).
    destruct (hit t0 (a ++ b)) eqn:E.
    - injection H as <-. rewrite (hit_ins_true t0 a b w x Hw E L). reflexivity.
    - rewrite (hit_ins_false t0 a b w x Hw Hi0 E); [exact (IH a b w x t Hil Hw H L)|].
      (* t0 alphabetic, exactly a, followed by a letter: then t, a prefix of t0 made of letters, is blocked too *)
      intros El S0 M0. exfalso.
      destruct (scan_some _ _ _ H) as [Ht Hh].
      assert (Htc : In t ctoks) by (apply Hil; exact Ht).
      pose proof (hit_starts _ _ Hh) as S1.
      assert (Ea : t0 = a).
      { apply starts_with_firstn in S0. rewrite El, firstn_all in S0. symmetry; exact S0. }
      subst a. apply starts_with_app in S1. destruct S1 as [y Ey].
      destruct (app_split_le t y t0 b (eq_sym Ey)) as (z & Ez & Eyz); [lia|].
      rewrite (tok_alpha _ Hi0) in M0. rewrite Ez in M0.
      assert (Mt : mem t atoks = true) by (rewrite (tok_alpha _ Htc); exact (all_letters_prefix _ _ M0)).
      destruct z as [|c z].
      + rewrite app_nil_r in Ez. subst t0. congruence.
      + unfold entry_hit in Hh. rewrite Mt in Hh. simpl in Hh. apply andb_true_iff in Hh. destruct Hh as [_ Hh].
        rewrite Ey, skipn_app_exact, Eyz in Hh. simpl in Hh.
        rewrite forallb_app in M0. apply andb_true_iff in M0. destruct M0 as [_ M0]. simpl in M0.
        apply andb_true_iff in M0. destruct M0 as [M0 _]. rewrite (cls_letter _ M0) in Hh. discriminate.
  Qed.

  Lemma scan_ins_none : forall tbl a b w x, incl tbl ctoks -> isspace w = true ->
    scn tbl (a ++ b) = None ->
    (forallb is_letter a = true -> next_not_alpha isalpha b = true) ->
    scn tbl (a ++ w :: x) = None.
  Proof.
    induction tbl as [|t0 tl IH]; intros a b w x Hi Hw H Hx; simpl in *; [reflexivity|].
    assert (Hi0 : In t0 ctoks) by (apply Hi; left; reflexivity).
    assert (Hil : incl tl ctoks) by (intros u Hu; apply Hi; right; exact Hu).
    destruct (hit t0 (a ++ b)) eqn:E; [discriminate|].
    rewrite (hit_ins_false t0 a b w x Hw Hi0 E); [exact (IH a b w x Hil Hw H Hx)|].
    intros El S0 M0. apply Hx.
    apply starts_with_firstn in S0. rewrite El, firstn_all in S0. subst a.
    rewrite (tok_alpha _ Hi0) in M0. exact M0.
  Qed.

  (* ---------------------------------------------------------------- read_token *)
  Lemma read_num_first : forall c x n v, read_num (c :: x) = NOk n v -> is_digit c = true \/ c = ch_dot.
  Proof.
    intros c x n v H. unfold read_num in H. destruct (based_window (c :: x)) eqn:Bw.
    - destruct (based_window_inv _ Bw) as (bc & hs & R & E & _). injection E as -> _. left; reflexivity.
    - destruct (is_digit c) eqn:Dc; [left; reflexivity|right].
      rewrite read_dec_eq in H.
      assert (E1 : p_d1 (c :: x) = []) by (unfold p_d1; simpl; rewrite Dc; reflexivity).
      assert (E2 : p_r1 (c :: x) = c :: x) by (unfold p_r1; simpl; rewrite Dc; reflexivity).
      destruct (c =? ch_dot)%N eqn:Ed; [apply N.eqb_eq in Ed; exact Ed|exfalso].
      assert (E3 : p_dot (c :: x) = false) by (unfold p_dot; rewrite E2; simpl; exact Ed).
      destruct (dec_parts (c :: x)) as (_ & _ & _ & _ & H4). destruct (H4 E3) as [E4 _].
      rewrite E1, E4 in H. simpl in H. discriminate.
  Qed.

  Lemma read_token_bounds : forall r tg n v, rd r = RTok tg n v -> 1 <= n <= List.length r.
  Proof.
    intros r tg n v H. unfold read_token in H. destruct r as [|c t]; [discriminate|].
    destruct (c =? ch_quote)%N.
    { destruct (str_end t) as [k|] eqn:E; [|discriminate]. injection H as <- <- <-.
      destruct (str_end_closed _ _ E) as (L & _). simpl; lia. }
    destruct (c =? ch_hash)%N.
    { destruct (inst_end t) as [k|] eqn:E; [|discriminate]. injection H as <- <- <-.
      destruct (inst_end_closed _ _ E) as (L & _). simpl; lia. }
    destruct (num_start isnumeric (c :: t)).
    { destruct (read_num (c :: t)) eqn:E; [|discriminate]. injection H as <- <- <-.
      apply read_num_bounds in E. tauto. }
    destruct (scn ctoks (c :: t)) as [tk0|] eqn:E.
    - injection H as <- <- <-. destruct (scan_some _ _ _ E) as [A B]. split.
      + pose proof (tok_nonempty _ A). destruct tk0; [congruence|simpl; lia].
      + apply starts_with_len. apply hit_starts with (1 := B).
    - destruct (ident_start c); [|discriminate]. injection H as <- <- <-. split; [lia|].
      simpl. pose proof (takew_len ident_char t). lia.
  Qed.

  Lemma read_token_sig : forall c x tg n v, rd (c :: x) = RTok tg n v -> sigc c = true.
  Proof.
    intros c x tg n v H. unfold read_token in H.
    destruct (c =? ch_quote)%N eqn:Eq; [unfold sig_char; rewrite Eq; reflexivity|].
    destruct (c =? ch_hash)%N eqn:Eh; [unfold sig_char; rewrite Eh; rewrite ?orb_true_r; reflexivity|].
    destruct (num_start isnumeric (c :: x)).
    { destruct (read_num (c :: x)) eqn:E; [|discriminate].
      destruct (read_num_first _ _ _ _ E) as [D| ->]; [apply sig_ident, digit_ident; exact D|reflexivity]. }
    destruct (scn ctoks (c :: x)) as [tk0|] eqn:E.
    - destruct (scan_some _ _ _ E) as [A B]. apply hit_starts in B.
      pose proof (tok_nonempty _ A). destruct tk0 as [|c0 tk1]; [congruence|].
      simpl in B. apply andb_true_iff in B. destruct B as [B _]. apply N.eqb_eq in B. subst c0.
      apply (sig_tok _ _ A). left; reflexivity.
    - destruct (ident_start c) eqn:Ei; [|discriminate]. apply sig_ident, ident_start_char; exact Ei.
  Qed.

  (* what may follow a token without changing how the token itself is read when a whitespace
     character is put in between: nothing, or a character that is not "alphabetic but not an
     identifier character" (é after the identifier "to" would be such a character) *)
  Definition nxt_ok (b : text) : Prop :=
    match b with [] => True | c :: _ => isalpha c = true -> ident_char c = true end.

  Lemma firstn_app_le : forall k (a b : text), k <= List.length a -> firstn k (a ++ b) = firstn k a.
  Proof.
    intros k a b L. rewrite firstn_app. replace (k - List.length a) with 0 by lia. simpl. apply app_nil_r.
  Qed.

  Lemma read_token_ins : forall a b w x tg n v, isspace w = true ->
    rd (a ++ b) = RTok tg n v -> n <= List.length a ->
    (List.length a = n -> nxt_ok b) ->
    (tg = TNum -> List.length a = S n -> starts_dot (skipn n a) = true -> starts_dot b = false) ->
    rd (a ++ w :: x) = RTok tg n v.
  Proof.
    intros a b w x tg n v Hw H Hn Hnx Hdd.
    pose proof (read_token_bounds _ _ _ _ H) as [Hn1 _].
    pose proof (ws_dead _ Hw) as Hd.
    destruct a as [|c a1]; [simpl in Hn; lia|]. simpl app in *. unfold read_token in *.
    destruct (c =? ch_quote)%N.
    { destruct (str_end (a1 ++ b)) as [k|] eqn:E; [|discriminate]. injection H as <- <- <-.
      destruct (str_end_closed _ _ E) as (_ & _ & B). simpl in Hn.
      assert (Lk : S k <= List.length a1) by lia.
      specialize (B (skipn (S k) a1 ++ w :: x)).
      rewrite firstn_app_le in B by exact Lk. rewrite app_assoc, firstn_skipn in B. rewrite B.
      rewrite !firstn_app_le by lia. reflexivity. }
    destruct (c =? ch_hash)%N.
    { destruct (inst_end (a1 ++ b)) as [k|] eqn:E; [|discriminate]. injection H as <- <- <-.
      destruct (inst_end_closed _ _ E) as (_ & _ & _ & B). simpl in Hn.
      assert (Lk : S k <= List.length a1) by lia.
      specialize (B (skipn (S k) a1 ++ w :: x)).
      rewrite firstn_app_le in B by exact Lk. rewrite app_assoc, firstn_skipn in B. rewrite B.
      rewrite !firstn_app_le by lia. reflexivity. }
    destruct (num_start isnumeric (c :: a1 ++ b)) eqn:Ns.
    { destruct (read_num (c :: a1 ++ b)) as [m l|] eqn:E; [|discriminate]. injection H as <- <- <-.
      assert (Ns' : num_start isnumeric (c :: a1 ++ w :: x) = true).
      { unfold num_start in *. destruct (isnumeric c) eqn:Nc; [reflexivity|]. simpl in *.
        destruct (c =? ch_dot)%N eqn:Ed; [|discriminate]. simpl in *.
        destruct a1 as [|c1 a2]; [|exact Ns].
        apply N.eqb_eq in Ed; subst c. apply read_num_dot in E. simpl in Hn. lia. }
      rewrite Ns'.
      change (c :: a1 ++ w :: x) with ((c :: a1) ++ w :: x).
      rewrite (read_num_ins (c :: a1) b w x m l Hd E Hn); [reflexivity|].
      intros A B. apply Hdd; [reflexivity|exact A|exact B]. }
    assert (Ns' : num_start isnumeric (c :: a1 ++ w :: x) = false).
    { unfold num_start in *. destruct (isnumeric c) eqn:Nc; [discriminate|]. simpl in *.
      destruct (c =? ch_dot)%N eqn:Ed; [|reflexivity]. simpl in *.
      destruct a1 as [|c1 a2]; [|exact Ns]. simpl. destruct (cls_ws _ Hw) as (_ & _ & Nw). exact Nw. }
    rewrite Ns'.
    change (c :: a1 ++ b) with ((c :: a1) ++ b) in *. change (c :: a1 ++ w :: x) with ((c :: a1) ++ w :: x).
    destruct (scn ctoks ((c :: a1) ++ b)) as [tk0|] eqn:E.
    - injection H as <- <- <-.
      rewrite (scan_ins_some ctoks (c :: a1) b w x tk0 (incl_refl _) Hw E Hn). reflexivity.
    - destruct (ident_start c) eqn:Ei; [|discriminate]. injection H as <- <- <-.
      simpl in Hn.
      assert (Hl : List.length (takew ident_char (a1 ++ b)) <= List.length a1) by lia.
      destruct Hd as (Hdi & _).
      destruct (takew_ins ident_char a1 b w x Hdi Hl) as (E1 & _ & _).
      rewrite (scan_ins_none ctoks (c :: a1) b w x (incl_refl _) Hw E); [rewrite E1; reflexivity|].
      intro Hall. simpl in Hall. apply andb_true_iff in Hall. destruct Hall as [_ Hall].
      assert (Hid : forallb ident_char a1 = true).
      { rewrite forallb_forall in *. intros z Hz. apply letter_ident. apply Hall; exact Hz. }
      rewrite (takew_ge ident_char a1 b Hid) in Hl. rewrite app_length in Hl.
      assert (Et : takew ident_char b = []) by (destruct (takew ident_char b); [reflexivity|simpl in Hl; lia]).
      destruct b as [|z b']; [reflexivity|]. simpl in Et. destruct (ident_char z) eqn:Iz; [discriminate|].
      simpl. assert (Hq : nxt_ok (z :: b')).
      { apply Hnx. rewrite (takew_ge ident_char a1 (z :: b') Hid), app_length. simpl. rewrite Iz. simpl. lia. }
      simpl in Hq. destruct (isalpha z); [rewrite Hq in Iz by reflexivity; discriminate|reflexivity].
  Qed.

  (* ---------------------------------------------------------------- lexemes *)
  Definition lexeme_ok (lex : text) (tg : tag) (v : tval) : Prop :=
    match tg with
    | TConst t => lex = t /\ In t ctoks /\ v = VNone
    | TVar => v = VText lex /\ forallb ident_char lex = true
              /\ exists c cs, lex = c :: cs /\ ident_start c = true
    | TStr => exists body, lex = ch_quote :: body ++ [ch_quote] /\ v = VText body
    | TInst => exists body, lex = ch_hash :: body ++ [ch_hash] /\ v = VText body /\ ~ In ch_hash body
    | TNum => exists l, v = VLit l /\ read_num lex = NOk (List.length lex) l
              \/ (exists l, v = VLit l /\ read_num (lex ++ [ch_dot; ch_dot]) = NOk (List.length lex) l)
    end.

  Lemma firstn_S_nth : forall k (t : text) c, nth_error t k = Some c -> firstn (S k) t = firstn k t ++ [c].
  Proof.
    induction k as [|k IH]; intros t c H; destruct t as [|y t]; simpl in *; try discriminate.
    - injection H as ->; reflexivity.
    - rewrite (IH _ _ H); reflexivity.
  Qed.

  Lemma read_token_lexeme_basic : forall r tg n v, rd r = RTok tg n v ->
    match tg with
    | TConst t => firstn n r = t /\ In t ctoks /\ v = VNone
    | TVar => v = VText (firstn n r) /\ forallb ident_char (firstn n r) = true
              /\ (exists c cs, firstn n r = c :: cs /\ ident_start c = true)
              /\ hd_fails ident_char (skipn n r)
    | TStr => exists body, firstn n r = ch_quote :: body ++ [ch_quote] /\ v = VText body
    | TInst => exists body, firstn n r = ch_hash :: body ++ [ch_hash] /\ v = VText body /\ ~ In ch_hash body
    | TNum => exists l, v = VLit l /\ read_num r = NOk n l
    end.
  Proof.
    intros r tg n v H. unfold read_token in H. destruct r as [|c t]; [discriminate|].
    destruct (c =? ch_quote)%N eqn:Eq.
    { destruct (str_end t) as [k|] eqn:E; [|discriminate]. injection H as <- <- <-.
      apply N.eqb_eq in Eq; subst c. destruct (str_end_closed _ _ E) as (L & A & _).
      exists (firstn k t). split; [|reflexivity].
      replace (k + 2) with (S (S k)) by lia. cbn [firstn]. rewrite (firstn_S_nth _ _ _ A). reflexivity. }
    destruct (c =? ch_hash)%N eqn:Eh.
    { destruct (inst_end t) as [k|] eqn:E; [|discriminate]. injection H as <- <- <-.
      apply N.eqb_eq in Eh; subst c. destruct (inst_end_closed _ _ E) as (L & A & NI & _).
      exists (firstn k t). split; [|split; [reflexivity|exact NI]].
      replace (k + 2) with (S (S k)) by lia. cbn [firstn]. rewrite (firstn_S_nth _ _ _ A). reflexivity. }
    destruct (num_start isnumeric (c :: t)).
    { destruct (read_num (c :: t)) as [m l|] eqn:E; [|discriminate]. injection H as <- <- <-.
      exists l; split; reflexivity. }
    destruct (scn ctoks (c :: t)) as [tk0|] eqn:E.
    - injection H as <- <- <-. destruct (scan_some _ _ _ E) as [A B].
      split; [apply starts_with_firstn; apply hit_starts with (1 := B)|]. split; [exact A|reflexivity].
    - destruct (ident_start c) eqn:Ei; [|discriminate]. injection H as <- <- <-.
      assert (Ef : firstn (S (List.length (takew ident_char t))) (c :: t) = c :: takew ident_char t).
      { cbn [firstn]. f_equal. rewrite <- (takew_dropw ident_char t) at 2. apply firstn_app_exact. }
      rewrite Ef. split; [reflexivity|]. split.
      + simpl. rewrite (ident_start_char _ Ei). apply takew_all.
      + split; [exists c, (takew ident_char t); split; [reflexivity|exact Ei]|].
        cbn [skipn]. rewrite <- dropw_skipn. apply dropw_hd.
  Qed.
End WithClasses.
