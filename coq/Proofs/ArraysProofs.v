From Coq Require Import Qround Qpower Qabs Lia Lqa Qfield Sorting.Permutation Sorting.Sorted.
From Ka Require Import Model.Num Proofs.NumProofs Model.Qty Proofs.QtyProofs Model.Arrays.
Local Open Scope Z_scope.

(* ====================================================================================== *)
(* 1. integer ranges                                                                       *)
Lemma upto_spec n : forall c, upto n c = map (fun k => c + Z.of_nat k) (seq 0 n).
Proof.
  induction n as [|n IH]; intro c; cbn [upto seq map]; [reflexivity|].
  f_equal; [lia|]. rewrite IH, <- seq_shift, map_map. apply map_ext. intro k. lia.
Qed.

Theorem int_range_spec lo hi :
  int_range lo hi = map (fun k => Z.add lo (Z.of_nat k)) (seq 0 (Z.to_nat (hi - lo + 1))).
Proof. unfold int_range. rewrite upto_spec. f_equal. f_equal. lia. Qed.

Lemma int_range_empty lo hi : hi < lo -> int_range lo hi = [].
Proof. intro H. unfold int_range. replace (Z.to_nat (hi + 1 - lo)) with O by lia. reflexivity. Qed.

Lemma int_range_length lo hi : List.length (int_range lo hi) = Z.to_nat (hi - lo + 1).
Proof. rewrite int_range_spec, map_length, seq_length. reflexivity. Qed.

Lemma nth_error_seq0 n i : (i < n)%nat -> nth_error (seq 0 n) i = Some i.
Proof.
  intro H. destruct (nth_error (seq 0 n) i) as [x|] eqn:E.
  - pose proof (nth_error_nth _ _ O E) as N. rewrite seq_nth in N by exact H. cbn in N. congruence.
  - apply nth_error_None in E. rewrite seq_length in E. lia.
Qed.

Lemma int_range_nth lo hi i : (i < Z.to_nat (hi - lo + 1))%nat ->
  nth_error (int_range lo hi) i = Some (lo + Z.of_nat i).
Proof.
  intro H. rewrite int_range_spec, nth_error_map, (nth_error_seq0 _ _ H). reflexivity.
Qed.

Lemma int_range_In lo hi x : In x (int_range lo hi) <-> lo <= x <= hi.
Proof.
  rewrite int_range_spec, in_map_iff. split.
  - intros (k & <- & Hk). apply in_seq in Hk. lia.
  - intro H. exists (Z.to_nat (x - lo)). split; [lia|]. apply in_seq. lia.
Qed.

Lemma upto_sorted n : forall c, StronglySorted Z.lt (upto n c).
Proof.
  induction n as [|n IH]; intro c; cbn [upto]; constructor; [apply IH|].
  rewrite upto_spec. apply Forall_forall. intros x Hx. apply in_map_iff in Hx.
  destruct Hx as (k & <- & _). lia.
Qed.

Lemma int_range_sorted lo hi : StronglySorted Z.lt (int_range lo hi).
Proof. apply upto_sorted. Qed.

(* ====================================================================================== *)
(* 2. the stepped range                                                                    *)
Local Open Scope Q_scope.

Lemma Qleb_true a b : Qleb a b = true <-> a <= b.
Proof. unfold Qleb. rewrite Qle_alt. destruct (a ?= b); split; congruence. Qed.
Lemma Qleb_false a b : Qleb a b = false <-> b < a.
Proof.
  split; intro H.
  - apply Qnot_le_lt. intro L. apply Qleb_true in L. congruence.
  - destruct (Qleb a b) eqn:E; [|reflexivity]. apply Qleb_true in E.
    exfalso. exact (Qlt_not_le _ _ H E).
Qed.
Lemma Qltb_true a b : Qltb a b = true <-> a < b.
Proof. unfold Qltb. rewrite Qlt_alt. destruct (a ?= b); split; congruence. Qed.
Lemma Qltb_false a b : Qltb a b = false <-> b <= a.
Proof.
  split; intro H.
  - apply Qnot_lt_le. intro L. apply Qltb_true in L. congruence.
  - destruct (Qltb a b) eqn:E; [|reflexivity]. apply Qltb_true in E.
    exfalso. exact (Qlt_not_le _ _ E H).
Qed.

Lemma num_true_b2n b : num_true (b2n b) = b.
Proof. destruct b; reflexivity. Qed.

Lemma iZ_S k : inject_Z (Z.of_nat (S k)) == inject_Z (Z.of_nat k) + 1.
Proof. rewrite Nat2Z.inj_succ. unfold Z.succ. rewrite inject_Z_plus. reflexivity. Qed.

Lemma iZ_nat_nonneg k : 0 <= inject_Z (Z.of_nat k).
Proof. change 0 with (inject_Z 0). rewrite <- Zle_Qle. lia. Qed.

(* the loop appends exactly n elements when curr + (n-1) step <= hi < curr + n step *)
Lemma range_loop_count hi step : exact step -> 0 < toQ step ->
  forall n fuel curr, exact curr -> canonical curr -> (n < fuel)%nat ->
  (n = O -> toQ hi < toQ curr) ->
  (forall m, n = S m -> toQ curr + inject_Z (Z.of_nat m) * toQ step <= toQ hi) ->
  toQ hi < toQ curr + inject_Z (Z.of_nat n) * toQ step ->
  exists l, range_loop fuel curr hi step = Ok l /\ List.length l = n /\
    forall k v, nth_error l k = Some v ->
      exact v /\ canonical v /\ toQ v == toQ curr + inject_Z (Z.of_nat k) * toQ step.
Proof.
  intros Es Ps. induction n as [|m IH]; intros fuel curr Ec Cc Hf H0 Hm Hn.
  - destruct fuel as [|f]; [lia|]. cbn [range_loop]. unfold n_le. rewrite num_true_b2n.
    rewrite (proj2 (Qleb_false _ _) (H0 eq_refl)). exists []. split; [reflexivity|]. split; [reflexivity|].
    intros [|k] v; discriminate.
  - destruct fuel as [|f]; [lia|]. cbn [range_loop]. unfold n_le. rewrite num_true_b2n.
    pose proof (Hm m eq_refl) as Hle. pose proof (iZ_nat_nonneg m) as Nm.
    assert (Pm : 0 <= inject_Z (Z.of_nat m) * toQ step)
      by (apply Qmult_le_0_compat; [exact Nm | apply Qlt_le_weak; exact Ps]).
    assert (Lc : toQ curr <= toQ hi) by (clear - Hle Pm; lra).
    rewrite (proj2 (Qleb_true _ _) Lc).
    destruct (add_correct curr step (toQ curr) (toQ step) Ec Es (Qeq_refl _) (Qeq_refl _))
      as (nxt & -> & Vn & Cn & En).
    rewrite iZ_S in Hn.
    destruct (IH f nxt En Cn) as (rest & -> & Lr & Nr).
    + lia.
    + intros ->. rewrite Vn. change (inject_Z (Z.of_nat 0)) with 0 in Hn. lra.
    + intros m' ->. rewrite iZ_S in Hle. rewrite Vn. lra.
    + rewrite Vn. lra.
    + exists (curr :: rest). split; [reflexivity|]. split; [cbn; lia|].
      intros [|k] v Hv; cbn [nth_error] in Hv.
      * injection Hv as <-. split; [exact Ec|]. split; [exact Cc|]. cbn. ring.
      * destruct (Nr k v Hv) as (A & B & D). split; [exact A|]. split; [exact B|].
        rewrite D, Vn, iZ_S. ring.
Qed.

Definition range_count (lo hi step : num) : Z := Qfloor ((toQ hi - toQ lo) / toQ step).

Theorem ka_range_spec lo hi step :
  exact lo -> canonical lo -> exact hi -> exact step -> 0 < toQ step -> toQ lo <= toQ hi ->
  let N := range_count lo hi step in
  (0 <= N)%Z /\
  exists l, ka_range lo hi step = Ok l /\ List.length l = S (Z.to_nat N) /\
    (forall k v, nth_error l k = Some v ->
       exact v /\ canonical v /\ toQ v == toQ lo + inject_Z (Z.of_nat k) * toQ step /\ toQ v <= toQ hi) /\
    toQ hi < toQ lo + inject_Z (N + 1) * toQ step.
Proof.
  intros El Cl Eh Es Ps Hle N.
  set (q := (toQ hi - toQ lo) / toQ step).
  assert (Sn : ~ toQ step == 0) by (intro X; rewrite X in Ps; discriminate).
  assert (Hq : q * toQ step == toQ hi - toQ lo) by (unfold q; field; exact Sn).
  assert (Q0 : 0 <= q).
  { unfold q. apply Qle_shift_div_l; [exact Ps|]. nra. }
  assert (N0 : (0 <= N)%Z).
  { change 0%Z with (Qfloor 0). apply Qfloor_resp_le. exact Q0. }
  destruct (Qfloor_bounds q) as [B1 B2]. fold q in B1, B2. change (Qfloor q) with N in B1, B2.
  split; [exact N0|].
  assert (IN : inject_Z (Z.of_nat (Z.to_nat N)) == inject_Z N) by (rewrite Z2Nat.id by exact N0; reflexivity).
  assert (U1 : toQ lo + inject_Z N * toQ step <= toQ hi) by nra.
  assert (U2 : toQ hi < toQ lo + (inject_Z N + 1) * toQ step) by nra.
  unfold ka_range, n_le, n_lt. rewrite !num_true_b2n.
  rewrite (proj2 (Qleb_true _ _) Hle). cbn [negb].
  assert (P0 : Qltb (toQ (NInt 0)) (toQ step) = true) by (apply Qltb_true; exact Ps).
  rewrite P0. cbn [negb].
  destruct (range_loop_count hi step Es Ps (S (Z.to_nat N)) (range_fuel lo hi step) lo El Cl)
    as (l & Hl & Ll & Nl).
  - unfold range_fuel. fold q. change (Qfloor q) with N. lia.
  - discriminate.
  - intros m Hm. injection Hm as <-. rewrite IN. exact U1.
  - rewrite iZ_S, IN. exact U2.
  - exists l. split; [exact Hl|]. split; [exact Ll|]. split.
    + intros k v Hv. destruct (Nl k v Hv) as (A & B & D). repeat split; try assumption.
      assert (Kl : (k < S (Z.to_nat N))%nat) by (rewrite <- Ll; apply nth_error_Some; congruence).
      assert (Kq : inject_Z (Z.of_nat k) <= inject_Z N) by (rewrite <- Zle_Qle; lia).
      rewrite D. nra.
    + rewrite inject_Z_plus. exact U2.
Qed.

Lemma ka_range_bad_bounds lo hi step : toQ hi < toQ lo -> ka_range lo hi step = Raise FunctionArgError.
Proof.
  intro H. unfold ka_range, n_le. rewrite num_true_b2n, (proj2 (Qleb_false _ _) H). reflexivity.
Qed.

Lemma ka_range_bad_step lo hi step : toQ step <= 0 -> ka_range lo hi step = Raise FunctionArgError.
Proof.
  intro H. unfold ka_range, n_le, n_lt. rewrite !num_true_b2n.
  destruct (Qleb (toQ lo) (toQ hi)); [|reflexivity]. cbn [negb].
  assert (P0 : Qltb (toQ (NInt 0)) (toQ step) = false) by (apply Qltb_false; exact H).
  rewrite P0. reflexivity.
Qed.

(* ====================================================================================== *)
(* 3. aggregates over scalars (numbers and quantities)                                     *)
Lemma vadd_zero_r d : vadd d (vzero (List.length d)) = d.
Proof. unfold vzero. induction d as [|x d IH]; cbn; [reflexivity|]. f_equal; [lia|exact IH]. Qed.

Lemma veqb_neq a b : a <> b -> veqb a b = false.
Proof. intro H. destruct (veqb a b) eqn:E; [|reflexivity]. apply veqb_eq in E. contradiction. Qed.

Lemma n_add_total a b : exists r, n_add a b = Ok r.
Proof. destruct a, b; eexists; reflexivity. Qed.

Lemma foldM_app {A B} (f : A -> B -> res A) l1 l2 acc :
  foldM f (l1 ++ l2) acc = match foldM f l1 acc with Ok a => foldM f l2 a | Raise e => Raise e end.
Proof.
  revert acc. induction l1 as [|x l1 IH]; intro acc; cbn [foldM app]; [reflexivity|].
  destruct (f acc x); [apply IH|reflexivity].
Qed.

Definition Qsum (l : list Q) : Q := fold_right Qplus 0 l.
Definition Qprod (l : list Q) : Q := fold_right Qmult 1 l.
Definition mag (s : qval) : Q := toQ (qmag s).
Definition qexact (s : qval) : Prop := exact (qmag s).
Definition qcanon (s : qval) : Prop := canonical (qmag s).
(* less-or-equal on magnitudes *)
Definition lem (a b : qval) : Prop := mag a <= mag b.

Section Agg.
Variable ndims : nat.
Notation qd := (qdim ndims).
Definition udim (d : dimvec) (l : list qval) : Prop := Forall (fun s => qd s = d) l.

(* the result of a quantity operator: a Quantity as soon as one operand is one *)
Definition mk (isq : bool) (r : num) (d : dimvec) : qval := if isq then VQ r d else VN r.
Lemma mk_mag b r d : qmag (mk b r d) = r. Proof. destruct b; reflexivity. Qed.
Lemma mk_isq b r d : is_q (mk b r d) = b. Proof. destruct b; reflexivity. Qed.
Lemma mk_dim b r d : (b = false -> d = vzero ndims) -> qd (mk b r d) = d.
Proof. destruct b; cbn; intro H; [reflexivity|]. symmetry. apply H. reflexivity. Qed.
Lemma isq_false_dim s : is_q s = false -> qd s = vzero ndims.
Proof. destruct s; [reflexivity|discriminate]. Qed.
Lemma isq_false_VN s : is_q s = false -> s = VN (qmag s).
Proof. destruct s; [reflexivity|discriminate]. Qed.

Lemma q_add_ok a b d r : qd a = d -> qd b = d -> n_add (qmag a) (qmag b) = Ok r ->
  q_binop ndims QAdd a b = Ok (mk (is_q a || is_q b) r d).
Proof.
  intros Da Db Hr. destruct a as [x|m1 d1], b as [y|m2 d2]; cbn in Da, Db, Hr |- *; unfold q_binop; cbn.
  - rewrite Hr. reflexivity.
  - subst d2. rewrite <- Da, veqb_refl. cbn. rewrite Hr. reflexivity.
  - subst d1. rewrite <- Db, veqb_refl. cbn. rewrite Hr. reflexivity.
  - subst d1 d2. rewrite veqb_refl. cbn. rewrite Hr. reflexivity.
Qed.

Lemma q_add_mismatch a b : qd a <> qd b -> q_binop ndims QAdd a b = Raise IncompatibleQuantitiesError.
Proof.
  intro H. destruct a as [x|m1 d1], b as [y|m2 d2]; cbn in H; unfold q_binop; cbn.
  - contradiction H; reflexivity.
  - rewrite (veqb_neq _ _ H). reflexivity.
  - rewrite (veqb_neq _ _ H). reflexivity.
  - rewrite (veqb_neq _ _ H). reflexivity.
Qed.

Lemma q_mul_ok a b r : n_mul (qmag a) (qmag b) = Ok r ->
  q_binop ndims QMul a b = Ok (mk (is_q a || is_q b) r (vadd (qd a) (qd b))).
Proof.
  intros Hr. destruct a as [x|m1 d1], b as [y|m2 d2]; cbn in Hr |- *; unfold q_binop; cbn; rewrite Hr; reflexivity.
Qed.

Lemma q_div_ok a b : q_binop ndims QDiv a b =
  match n_div (qmag a) (qmag b) with
  | Ok r => Ok (mk (is_q a || is_q b) r (vsub (qd a) (qd b)))
  | Raise e => Raise e
  end.
Proof.
  destruct a as [x|m1 d1], b as [y|m2 d2]; unfold q_binop; cbn;
    match goal with |- context [n_div ?u ?v] => destruct (n_div u v) end; reflexivity.
Qed.

Lemma q_cmp_ok c a b : qd a = qd b ->
  q_cmp ndims c a b = match qcmp_num c (qmag a) (qmag b) with Ok r => Ok (VN r) | Raise e => Raise e end.
Proof.
  intro H. destruct a as [x|m1 d1], b as [y|m2 d2]; cbn in H; unfold q_cmp; cbn; try reflexivity;
    rewrite H, veqb_refl; reflexivity.
Qed.

Lemma q_cmp_mismatch c a b : qd a <> qd b -> q_cmp ndims c a b = Raise IncompatibleQuantitiesError.
Proof.
  intro H. destruct a as [x|m1 d1], b as [y|m2 d2]; cbn in H; unfold q_cmp; cbn.
  - contradiction H; reflexivity.
  - rewrite (veqb_neq _ _ H). reflexivity.
  - rewrite (veqb_neq _ _ H). reflexivity.
  - rewrite (veqb_neq _ _ H). reflexivity.
Qed.

Lemma v_lt_ok a b : qd a = qd b ->
  v_cmp ndims QLt (VS a) (VS b) = Ok (VS (VN (b2n (Qltb (mag a) (mag b))))).
Proof. intro H. cbn [v_cmp]. rewrite (q_cmp_ok _ _ _ H). reflexivity. Qed.
Lemma v_eq_ok a b : qd a = qd b ->
  v_cmp ndims QEq (VS a) (VS b) = Ok (VS (VN (b2n (Qeqb (mag a) (mag b))))).
Proof. intro H. cbn [v_cmp]. rewrite (q_cmp_ok _ _ _ H). reflexivity. Qed.
Lemma truthy_b2n b : truthy (VS (VN (b2n b))) = b.
Proof. destruct b; reflexivity. Qed.

(* ---------------------------------------------------------------- sum *)
Lemma sum_fold r : forall acc d, qd acc = d -> udim d r ->
  exists res, foldM (fun a e => v_binop ndims QAdd a e) (map VS r) (VS acc) = Ok (VS res)
    /\ qd res = d /\ is_q res = (is_q acc || existsb is_q r)%bool
    /\ (qexact acc -> Forall qexact r ->
        mag res == mag acc + Qsum (map mag r) /\ qexact res /\ (qcanon acc -> qcanon res)).
Proof.
  induction r as [|e r IH]; intros acc d Da Dr.
  - exists acc. split; [reflexivity|]. split; [exact Da|]. split; [rewrite orb_false_r; reflexivity|].
    intros Ea _. split; [cbn; unfold mag; ring|]. split; [exact Ea|auto].
  - inversion Dr as [|? ? De Dr']; subst.
    destruct (n_add_total (qmag acc) (qmag e)) as [v Hv].
    cbn [map foldM v_binop]. rewrite (q_add_ok acc e (qd acc) v eq_refl De Hv). cbn [lift_s].
    set (acc' := mk (is_q acc || is_q e) v (qd acc)).
    assert (Dacc' : qd acc' = qd acc).
    { apply mk_dim. intro F. apply orb_false_iff in F. apply isq_false_dim. apply F. }
    destruct (IH acc' (qd acc) Dacc' Dr') as (res & Hres & Dres & Ires & Xres).
    exists res. split; [exact Hres|]. split; [exact Dres|]. split.
    + rewrite Ires. unfold acc'. rewrite mk_isq. cbn [existsb]. rewrite orb_assoc. reflexivity.
    + intros Ea Er. inversion Er as [|? ? Ee Er']; subst.
      destruct (add_correct (qmag acc) (qmag e) (mag acc) (mag e) Ea Ee (Qeq_refl _) (Qeq_refl _))
        as (v' & Hv' & Vv & Cv & Ev).
      rewrite Hv in Hv'. injection Hv' as <-.
      assert (Ea' : qexact acc') by (unfold qexact, acc'; rewrite mk_mag; exact Ev).
      destruct (Xres Ea' Er') as (M & E & Cn).
      split; [|split; [exact E|]].
      * rewrite M. unfold mag at 1. unfold acc'. rewrite mk_mag, Vv. unfold Qsum. cbn [map fold_right]. ring.
      * intros _. apply Cn. unfold qcanon, acc'. rewrite mk_mag. exact Cv.
Qed.

Theorem sum_spec x l d : udim d (x :: l) -> Forall qexact (x :: l) -> Forall qcanon (x :: l) ->
  exists r, array_sum ndims (map VS (x :: l)) = Ok (VS r)
    /\ qd r = d /\ mag r == Qsum (map mag (x :: l)) /\ qcanon r /\ qexact r
    /\ is_q r = existsb is_q (x :: l).
Proof.
  intros D E Cn. inversion D as [|? ? Dx Dl]; inversion E as [|? ? Ex El]; inversion Cn as [|? ? Cx _]; subst.
  destruct (sum_fold l x (qd x) eq_refl Dl) as (res & Hres & Dres & Ires & Xres).
  destruct (Xres Ex El) as (M & Er & Cr).
  exists res. cbn [map array_sum]. split; [exact Hres|]. split; [exact Dres|]. split; [exact M|].
  split; [apply Cr; exact Cx|]. split; [exact Er|exact Ires].
Qed.

Theorem sum_mixed p pre x post d : udim d (p :: pre) -> qd x <> d ->
  array_sum ndims (map VS ((p :: pre) ++ x :: post)) = Raise IncompatibleQuantitiesError.
Proof.
  intros D Hx. inversion D as [|? ? Dp Dpre]; subst.
  cbn [app map array_sum]. rewrite map_app, foldM_app.
  destruct (sum_fold pre p (qd p) eq_refl Dpre) as (res & -> & Dres & _).
  cbn [map foldM v_binop]. rewrite q_add_mismatch; [reflexivity|]. rewrite Dres. auto.
Qed.

(* ---------------------------------------------------------------- product *)
Definition dims_sum (l : list qval) (d0 : dimvec) : dimvec :=
  fold_left (fun dacc s => vadd (qd s) dacc) l d0.

Lemma prod_fold l : forall acc, Forall qexact l -> qexact acc -> qcanon acc ->
  exists res, foldM (fun a e => v_binop ndims QMul e a) (map VS l) (VS acc) = Ok (VS res)
    /\ qd res = dims_sum l (qd acc) /\ mag res == mag acc * Qprod (map mag l)
    /\ qcanon res /\ qexact res /\ is_q res = (is_q acc || existsb is_q l)%bool.
Proof.
  induction l as [|e l IH]; intros acc El Ea Ca.
  - exists acc. split; [reflexivity|]. split; [reflexivity|]. split; [cbn; ring|].
    split; [exact Ca|]. split; [exact Ea|]. rewrite orb_false_r. reflexivity.
  - inversion El as [|? ? Ee El']; subst.
    destruct (mul_correct (qmag e) (qmag acc) (mag e) (mag acc) Ee Ea (Qeq_refl _) (Qeq_refl _))
      as (v & Hv & Vv & Cv & Ev).
    cbn [map foldM v_binop]. rewrite (q_mul_ok e acc v Hv). cbn [lift_s].
    set (acc' := mk (is_q e || is_q acc) v (vadd (qd e) (qd acc))).
    assert (Dacc' : qd acc' = vadd (qd e) (qd acc)).
    { apply mk_dim. intro F. apply orb_false_iff in F. destruct F as [F1 F2].
      rewrite (isq_false_dim _ F1), (isq_false_dim _ F2). apply vadd_zero. }
    destruct (IH acc' El') as (res & Hres & Dres & M & Cr & Er & Ires).
    { unfold qexact, acc'. rewrite mk_mag. exact Ev. }
    { unfold qcanon, acc'. rewrite mk_mag. exact Cv. }
    exists res. split; [exact Hres|]. split; [|split; [|split; [exact Cr|split; [exact Er|]]]].
    + rewrite Dres, Dacc'. reflexivity.
    + rewrite M. unfold mag at 1. unfold acc'. rewrite mk_mag, Vv. unfold Qprod. cbn [map fold_right]. ring.
    + rewrite Ires. unfold acc'. rewrite mk_isq. cbn [existsb].
      destruct (is_q e), (is_q acc), (existsb is_q l); reflexivity.
Qed.

Theorem prod_spec l : Forall qexact l ->
  exists r, array_prod ndims (map VS l) = Ok (VS r)
    /\ qd r = dims_sum l (vzero ndims) /\ mag r == Qprod (map mag l) /\ qcanon r /\ qexact r
    /\ is_q r = existsb is_q l.
Proof.
  intro E. destruct (prod_fold l (VN (NInt 1)) E eq_refl I) as (res & H & D & M & Cn & Ex & Iq).
  exists res. split; [exact H|]. split; [exact D|]. split; [|auto].
  rewrite M. change (mag (VN (NInt 1))) with 1. ring.
Qed.

(* ---------------------------------------------------------------- mean *)
Lemma vsub_zero_r d : List.length d = ndims -> vsub d (vzero ndims) = d.
Proof. intros <-. unfold vsub. rewrite vneg_zero. apply vadd_zero_r. Qed.

Lemma div_by_int s d n : qd s = d -> List.length d = ndims -> qexact s -> (0 < n)%Z ->
  exists r, v_binop ndims QDiv (VS s) (vint n) = Ok (VS r)
    /\ qd r = d /\ mag r == mag s / inject_Z n /\ qcanon r /\ qexact r /\ is_q r = is_q s.
Proof.
  intros Ds Ld Es Hn. cbn [v_binop vint]. rewrite q_div_ok. cbn [qmag].
  assert (Z : Qis_zero (inject_Z n) = false).
  { destruct (Qis_zero (inject_Z n)) eqn:Zq; [|reflexivity]. apply Qis_zero_spec in Zq.
    exfalso. assert (0 < inject_Z n) by (change 0 with (inject_Z 0); rewrite <- Zlt_Qlt; exact Hn).
    rewrite Zq in H. discriminate. }
  destruct (div_correct (qmag s) (NInt n) (mag s) (inject_Z n) Es eq_refl (Qeq_refl _) (Qeq_refl _) Z)
    as (v & -> & Vv & Cv & Ev).
  cbn [lift_s is_q]. rewrite orb_false_r.
  exists (mk (is_q s) v (vsub (qd s) (qd (VN (NInt n))))). split; [reflexivity|].
  unfold mag, qcanon, qexact. rewrite !mk_mag, mk_isq.
  split; [|split; [exact Vv|split; [exact Cv|split; [exact Ev|reflexivity]]]].
  destruct s as [x|m ds]; cbn [is_q mk qdim] in *.
  - exact Ds.
  - subst ds. apply vsub_zero_r. exact Ld.
Qed.

Theorem mean_spec x l d : udim d (x :: l) -> List.length d = ndims ->
  Forall qexact (x :: l) -> Forall qcanon (x :: l) ->
  exists r, array_mean ndims (map VS (x :: l)) = Ok (VS r)
    /\ qd r = d /\ mag r == Qsum (map mag (x :: l)) / inject_Z (Z.of_nat (List.length (x :: l)))
    /\ qcanon r /\ qexact r /\ is_q r = existsb is_q (x :: l).
Proof.
  intros D Ld E Cn.
  destruct (sum_spec x l d D E Cn) as (s & Hs & Ds & Ms & Cs & Es & Is).
  unfold array_mean. cbn [map]. cbn [map] in Hs. rewrite Hs.
  destruct (div_by_int s d (Z.of_nat (List.length (VS x :: map VS l))) Ds Ld Es) as (r & Hr & Dr & Mr & Cr & Er & Ir).
  { cbn [List.length]. lia. }
  exists r. split; [exact Hr|]. split; [exact Dr|]. split.
  - rewrite Mr, Ms. cbn [List.length]. rewrite map_length. reflexivity.
  - split; [exact Cr|]. split; [exact Er|]. rewrite Ir. exact Is.
Qed.

Theorem mean_mixed p pre x post d : udim d (p :: pre) -> qd x <> d ->
  array_mean ndims (map VS ((p :: pre) ++ x :: post)) = Raise IncompatibleQuantitiesError.
Proof.
  intros D Hx. unfold array_mean. rewrite (sum_mixed p pre x post d D Hx). reflexivity.
Qed.

(* ---------------------------------------------------------------- min / max *)
Lemma min_fold l : forall acc pre mid d, qd acc = d -> udim d l ->
  Forall (fun s => mag acc < mag s) pre -> Forall (fun s => mag acc <= mag s) mid ->
  exists r pre' post', foldM (min_step ndims) (map VS l) (VS acc) = Ok (VS r) /\ qd r = d
    /\ pre ++ acc :: mid ++ l = pre' ++ r :: post'
    /\ Forall (fun s => mag r < mag s) pre' /\ Forall (fun s => mag r <= mag s) post'.
Proof.
  induction l as [|e l IH]; intros acc pre mid d Da Dl Hp Hm.
  - exists acc, pre, mid. rewrite app_nil_r. repeat split; auto.
  - inversion Dl as [|? ? De Dl']; subst.
    cbn [map foldM]. unfold min_step at 1. rewrite (v_lt_ok e acc De), truthy_b2n.
    destruct (Qltb (mag e) (mag acc)) eqn:L.
    + apply Qltb_true in L.
      destruct (IH e (pre ++ acc :: mid) [] (qd acc) De Dl') as (r & pre' & post' & H & Dr & Eq & A & B).
      * apply Forall_app. split; [|constructor].
        -- eapply Forall_impl; [|exact Hp]. cbn. intros s Hs. eapply Qlt_trans; eassumption.
        -- exact L.
        -- eapply Forall_impl; [|exact Hm]. cbn. intros s Hs. eapply Qlt_le_trans; eassumption.
      * constructor.
      * exists r, pre', post'. split; [exact H|]. split; [exact Dr|]. split; [|auto].
        rewrite <- Eq. cbn [app]. rewrite <- app_assoc. reflexivity.
    + apply Qltb_false in L.
      destruct (IH acc pre (mid ++ [e]) (qd acc) eq_refl Dl' Hp) as (r & pre' & post' & H & Dr & Eq & A & B).
      * apply Forall_app. split; [exact Hm|]. constructor; [exact L|constructor].
      * exists r, pre', post'. split; [exact H|]. split; [exact Dr|]. split; [|auto].
        rewrite <- Eq. rewrite <- app_assoc. reflexivity.
Qed.

Theorem min_spec x l d : udim d (x :: l) ->
  exists r pre post, array_min ndims (map VS (x :: l)) = Ok (VS r) /\ qd r = d
    /\ x :: l = pre ++ r :: post
    /\ Forall (fun s => mag r < mag s) pre /\ Forall (fun s => mag r <= mag s) post.
Proof.
  intro D. inversion D as [|? ? Dx Dl]; subst.
  cbn [map array_min foldM]. unfold min_step at 1. rewrite (v_lt_ok x x eq_refl), truthy_b2n.
  assert (L : Qltb (mag x) (mag x) = false) by (apply Qltb_false; apply Qle_refl).
  rewrite L.
  destruct (min_fold l x [] [] (qd x) eq_refl Dl (Forall_nil _) (Forall_nil _)) as (r & pre & post & H & Dr & Eq & A & B).
  exists r, pre, post. auto.
Qed.

Theorem min_mixed p pre x post d : udim d (p :: pre) -> qd x <> d ->
  array_min ndims (map VS ((p :: pre) ++ x :: post)) = Raise IncompatibleQuantitiesError.
Proof.
  intros D Hx. cbn [app map array_min].
  change (VS p :: map VS (pre ++ x :: post)) with (map VS ((p :: pre) ++ x :: post)).
  rewrite map_app, foldM_app.
  inversion D as [|? ? Dp _]; subst.
  destruct (min_fold (p :: pre) p [] [] (qd p) eq_refl D (Forall_nil _) (Forall_nil _)) as (r & _ & _ & -> & Dr & _).
  cbn [map foldM]. unfold min_step at 1. cbn [v_cmp]. rewrite q_cmp_mismatch; [reflexivity|].
  rewrite Dr. exact Hx.
Qed.

Lemma max_fold l : forall acc pre mid d, qd acc = d -> udim d l ->
  Forall (fun s => mag s < mag acc) pre -> Forall (fun s => mag s <= mag acc) mid ->
  exists r pre' post', foldM (max_step ndims) (map VS l) (VS acc) = Ok (VS r) /\ qd r = d
    /\ pre ++ acc :: mid ++ l = pre' ++ r :: post'
    /\ Forall (fun s => mag s < mag r) pre' /\ Forall (fun s => mag s <= mag r) post'.
Proof.
  induction l as [|e l IH]; intros acc pre mid d Da Dl Hp Hm.
  - exists acc, pre, mid. rewrite app_nil_r. repeat split; auto.
  - inversion Dl as [|? ? De Dl']; subst.
    cbn [map foldM]. unfold max_step at 1. rewrite (v_lt_ok acc e (eq_sym De)), truthy_b2n.
    destruct (Qltb (mag acc) (mag e)) eqn:L.
    + apply Qltb_true in L.
      destruct (IH e (pre ++ acc :: mid) [] (qd acc) De Dl') as (r & pre' & post' & H & Dr & Eq & A & B).
      * apply Forall_app. split; [|constructor].
        -- eapply Forall_impl; [|exact Hp]. cbn. intros s Hs. eapply Qlt_trans; eassumption.
        -- exact L.
        -- eapply Forall_impl; [|exact Hm]. cbn. intros s Hs. eapply Qle_lt_trans; eassumption.
      * constructor.
      * exists r, pre', post'. split; [exact H|]. split; [exact Dr|]. split; [|auto].
        rewrite <- Eq. cbn [app]. rewrite <- app_assoc. reflexivity.
    + apply Qltb_false in L.
      destruct (IH acc pre (mid ++ [e]) (qd acc) eq_refl Dl' Hp) as (r & pre' & post' & H & Dr & Eq & A & B).
      * apply Forall_app. split; [exact Hm|]. constructor; [exact L|constructor].
      * exists r, pre', post'. split; [exact H|]. split; [exact Dr|]. split; [|auto].
        rewrite <- Eq. rewrite <- app_assoc. reflexivity.
Qed.

Theorem max_spec x l d : udim d (x :: l) ->
  exists r pre post, array_max ndims (map VS (x :: l)) = Ok (VS r) /\ qd r = d
    /\ x :: l = pre ++ r :: post
    /\ Forall (fun s => mag s < mag r) pre /\ Forall (fun s => mag s <= mag r) post.
Proof.
  intro D. inversion D as [|? ? Dx Dl]; subst.
  cbn [map array_max foldM]. unfold max_step at 1. rewrite (v_lt_ok x x eq_refl), truthy_b2n.
  assert (L : Qltb (mag x) (mag x) = false) by (apply Qltb_false; apply Qle_refl).
  rewrite L.
  destruct (max_fold l x [] [] (qd x) eq_refl Dl (Forall_nil _) (Forall_nil _)) as (r & pre & post & H & Dr & Eq & A & B).
  exists r, pre, post. auto.
Qed.

Theorem max_mixed p pre x post d : udim d (p :: pre) -> qd x <> d ->
  array_max ndims (map VS ((p :: pre) ++ x :: post)) = Raise IncompatibleQuantitiesError.
Proof.
  intros D Hx. cbn [app map array_max].
  change (VS p :: map VS (pre ++ x :: post)) with (map VS ((p :: pre) ++ x :: post)).
  rewrite map_app, foldM_app.
  inversion D as [|? ? Dp _]; subst.
  destruct (max_fold (p :: pre) p [] [] (qd p) eq_refl D (Forall_nil _) (Forall_nil _)) as (r & _ & _ & -> & Dr & _).
  cbn [map foldM]. unfold max_step at 1. cbn [v_cmp]. rewrite q_cmp_mismatch; [reflexivity|].
  rewrite Dr. auto.
Qed.

(* ---------------------------------------------------------------- in *)
Theorem in_spec x l d : qd x = d -> udim d l ->
  in_array ndims (VS x) (map VS l) = Ok (vbool (existsb (fun s => Qeqb (mag x) (mag s)) l)).
Proof.
  intros Dx Dl. induction l as [|e l IH]; [reflexivity|].
  inversion Dl as [|? ? De Dl']; subst.
  cbn [map in_array existsb]. rewrite (v_eq_ok x e (eq_sym De)), truthy_b2n.
  destruct (Qeqb (mag x) (mag e)); [reflexivity|]. apply IH. exact Dl'.
Qed.

Corollary in_iff x l d : qd x = d -> udim d l ->
  (in_array ndims (VS x) (map VS l) = Ok (vint 1) <-> exists s, In s l /\ mag x == mag s)
  /\ (in_array ndims (VS x) (map VS l) = Ok (vint 0) <-> forall s, In s l -> ~ mag x == mag s).
Proof.
  intros Dx Dl. rewrite (in_spec x l d Dx Dl).
  destruct (existsb (fun s => Qeqb (mag x) (mag s)) l) eqn:E; cbn [vbool].
  - apply existsb_exists in E. destruct E as (s & Hs & Q). apply Qeqb_true in Q. split; split.
    + intros _. exists s. auto.
    + reflexivity.
    + discriminate.
    + intro H. exfalso. exact (H s Hs Q).
  - split; split.
    + discriminate.
    + intros (s & Hs & Q). exfalso. apply Qeqb_true in Q.
      assert (X : existsb (fun s => Qeqb (mag x) (mag s)) l = true) by (apply existsb_exists; eauto).
      congruence.
    + intros _ s Hs Q. apply Qeqb_true in Q.
      assert (X : existsb (fun s => Qeqb (mag x) (mag s)) l = true) by (apply existsb_exists; eauto).
      congruence.
    + reflexivity.
Qed.

Theorem in_mixed x pre y post d : qd x = d -> udim d pre ->
  Forall (fun s => ~ mag x == mag s) pre -> qd y <> d ->
  in_array ndims (VS x) (map VS (pre ++ y :: post)) = Raise IncompatibleQuantitiesError.
Proof.
  intros Dx Dp Np Hy. induction pre as [|e pre IH].
  - cbn [app map in_array v_cmp]. rewrite q_cmp_mismatch; [reflexivity|]. rewrite Dx. auto.
  - inversion Dp as [|? ? De Dp']; inversion Np as [|? ? Ne Np']; subst.
    cbn [app map in_array]. rewrite (v_eq_ok x e (eq_sym De)), truthy_b2n.
    destruct (Qeqb (mag x) (mag e)) eqn:Q; [apply Qeqb_true in Q; contradiction|].
    apply IH; assumption.
Qed.

End Agg.

(* ====================================================================================== *)
(* 4. the sort behind median, and median                                                   *)
(* the pure insertion sort on magnitudes: x goes after every element that is not greater *)
Fixpoint qins (x : qval) (l : list qval) : list qval :=
  match l with
  | [] => [x]
  | y :: r => if Qltb (mag x) (mag y) then x :: y :: r else y :: qins x r
  end.
Definition qsort_from (l acc : list qval) : list qval := fold_left (fun a x => qins x a) l acc.
Definition qsort (l : list qval) : list qval := qsort_from l [].

Lemma qins_perm x l : Permutation (x :: l) (qins x l).
Proof.
  induction l as [|y r IH]; cbn [qins]; [apply Permutation_refl|].
  destruct (Qltb (mag x) (mag y)); [apply Permutation_refl|].
  eapply perm_trans; [apply perm_swap|]. apply perm_skip. exact IH.
Qed.

Lemma qins_sorted x l : StronglySorted lem l -> StronglySorted lem (qins x l).
Proof.
  induction l as [|y r IH]; intro S; cbn [qins].
  - constructor; constructor.
  - inversion S as [|? ? Sr Fy]; subst.
    destruct (Qltb (mag x) (mag y)) eqn:L.
    + apply Qltb_true in L. constructor; [exact S|]. constructor; [apply Qlt_le_weak; exact L|].
      eapply Forall_impl; [|exact Fy]. unfold lem. intros s Hs. apply Qlt_le_weak.
      eapply Qlt_le_trans; eassumption.
    + apply Qltb_false in L. constructor; [apply IH; exact Sr|].
      eapply Permutation_Forall; [apply qins_perm|]. constructor; [exact L|exact Fy].
Qed.

Lemma qsort_from_perm l : forall acc, Permutation (l ++ acc) (qsort_from l acc).
Proof.
  induction l as [|x l IH]; intro acc; cbn [qsort_from fold_left app]; [apply Permutation_refl|].
  eapply perm_trans; [|apply IH]. eapply perm_trans; [apply Permutation_middle|].
  apply Permutation_app_head. apply qins_perm.
Qed.

Lemma qsort_from_sorted l : forall acc, StronglySorted lem acc -> StronglySorted lem (qsort_from l acc).
Proof.
  induction l as [|x l IH]; intros acc S; cbn [qsort_from fold_left]; [exact S|].
  apply IH. apply qins_sorted. exact S.
Qed.

Theorem qsort_perm l : Permutation l (qsort l).
Proof. pose proof (qsort_from_perm l []) as H. rewrite app_nil_r in H. exact H. Qed.
Theorem qsort_sorted l : StronglySorted lem (qsort l).
Proof. apply qsort_from_sorted. constructor. Qed.

(* stability: elements that compare equal keep their original order *)
Definition same_mag (q : Q) (s : qval) : bool := Qeqb (mag s) q.

Lemma Qeqb_false_lt a b : Qeqb a b = false <-> ~ a == b.
Proof.
  split; intro H.
  - intro E. apply Qeqb_true in E. congruence.
  - destruct (Qeqb a b) eqn:E; [|reflexivity]. apply Qeqb_true in E. contradiction.
Qed.

Lemma filter_none_gt q x l : Forall (fun s => mag x < mag s) l -> mag x == q -> filter (same_mag q) l = [].
Proof.
  intros F E. induction l as [|y r IH]; [reflexivity|]. inversion F as [|? ? Hy Fr]; subst.
  cbn [filter]. unfold same_mag at 1.
  assert (N : Qeqb (mag y) q = false).
  { apply Qeqb_false_lt. intro X. rewrite X, <- E in Hy. exact (Qlt_irrefl _ Hy). }
  rewrite N. apply IH. exact Fr.
Qed.

Lemma qins_stable q x l : StronglySorted lem l ->
  filter (same_mag q) (qins x l) = filter (same_mag q) l ++ filter (same_mag q) [x].
Proof.
  induction l as [|y r IH]; intro S; cbn [qins]; [reflexivity|].
  inversion S as [|? ? Sr Fy]; subst.
  destruct (Qltb (mag x) (mag y)) eqn:L.
  - apply Qltb_true in L. cbn [filter]. destruct (same_mag q x) eqn:Ex; [|rewrite app_nil_r; reflexivity].
    unfold same_mag in Ex. apply Qeqb_true in Ex.
    assert (G : Forall (fun s => mag x < mag s) (y :: r)).
    { constructor; [exact L|]. eapply Forall_impl; [|exact Fy]. unfold lem. intros s Hs.
      eapply Qlt_le_trans; eassumption. }
    pose proof (filter_none_gt q x (y :: r) G Ex) as N. cbn [filter] in N. rewrite N. reflexivity.
  - cbn [filter]. rewrite (IH Sr). destruct (same_mag q y); reflexivity.
Qed.

Lemma qsort_from_stable q l : forall acc, StronglySorted lem acc ->
  filter (same_mag q) (qsort_from l acc) = filter (same_mag q) acc ++ filter (same_mag q) l.
Proof.
  induction l as [|x l IH]; intros acc S; cbn [qsort_from fold_left]; [rewrite app_nil_r; reflexivity|].
  change (fold_left (fun a x0 => qins x0 a) l (qins x acc)) with (qsort_from l (qins x acc)).
  rewrite (IH (qins x acc) (qins_sorted x acc S)), (qins_stable q x acc S), <- app_assoc.
  f_equal. cbn [filter]. destruct (same_mag q x); reflexivity.
Qed.

Theorem qsort_stable q l : filter (same_mag q) (qsort l) = filter (same_mag q) l.
Proof. unfold qsort. rewrite qsort_from_stable by constructor. reflexivity. Qed.

Section Median.
Variable ndims : nat.
Notation qd := (qdim ndims).

Lemma ka_cmp_ok a b : qd a = qd b ->
  ka_cmp ndims (VS a) (VS b) =
    Ok (if Qltb (mag a) (mag b) then (-1)%Z else if Qeqb (mag a) (mag b) then 0%Z else 1%Z).
Proof.
  intro H. unfold ka_cmp. rewrite (v_lt_ok ndims a b H), truthy_b2n.
  destruct (Qltb (mag a) (mag b)); [reflexivity|].
  rewrite (v_eq_ok ndims a b H), truthy_b2n. destruct (Qeqb (mag a) (mag b)); reflexivity.
Qed.

Lemma ins_ok x l d : qd x = d -> udim ndims d l -> ins ndims (VS x) (map VS l) = Ok (map VS (qins x l)).
Proof.
  intros Dx Dl. induction l as [|y r IH]; [reflexivity|].
  inversion Dl as [|? ? Dy Dr]; subst.
  cbn [map ins qins]. rewrite (ka_cmp_ok x y (eq_sym Dy)).
  destruct (Qltb (mag x) (mag y)); [reflexivity|].
  assert (E : ((if Qeqb (mag x) (mag y) then 0 else 1) <? 0)%Z = false) by (destruct (Qeqb (mag x) (mag y)); reflexivity).
  rewrite E, (IH Dr). reflexivity.
Qed.

Lemma udim_perm d l l' : Permutation l l' -> udim ndims d l -> udim ndims d l'.
Proof. intros P U. eapply Permutation_Forall; eassumption. Qed.

Lemma sort_from_ok l d : forall acc, udim ndims d l -> udim ndims d acc ->
  foldM (fun a x => ins ndims x a) (map VS l) (map VS acc) = Ok (map VS (qsort_from l acc)).
Proof.
  induction l as [|x l IH]; intros acc Dl Da; [reflexivity|].
  inversion Dl as [|? ? Dx Dl']; subst.
  cbn [map foldM qsort_from fold_left]. rewrite (ins_ok x acc (qd x) eq_refl Da).
  apply IH; [exact Dl'|]. eapply udim_perm; [apply qins_perm|]. constructor; [reflexivity|exact Da].
Qed.

Theorem sort_ok l d : udim ndims d l -> ka_sort ndims (map VS l) = Ok (map VS (qsort l)).
Proof. intro D. unfold ka_sort. apply (sort_from_ok l d [] D). constructor. Qed.

Lemma nth_lt_some {A} (l : list A) k : (k < List.length l)%nat -> exists a, nth_error l k = Some a.
Proof.
  intro H. destruct (nth_error l k) as [a|] eqn:E; [eauto|]. apply nth_error_None in E. lia.
Qed.

Lemma div2_lt n : (0 < n)%nat -> (Nat.div2 n < n)%nat.
Proof. apply Nat.lt_div2. Qed.

Theorem median_spec x l d : udim ndims d (x :: l) -> List.length d = ndims -> Forall qexact (x :: l) ->
  let sl := qsort (x :: l) in
  let n := List.length (x :: l) in
  (Nat.even n = false ->
     exists m, nth_error sl (Nat.div2 n) = Some m /\ array_median ndims (map VS (x :: l)) = Ok (VS m))
  /\ (Nat.even n = true ->
     exists a b r, nth_error sl (Nat.div2 n - 1) = Some a /\ nth_error sl (Nat.div2 n) = Some b
       /\ array_median ndims (map VS (x :: l)) = Ok (VS r)
       /\ qd r = d /\ mag r == (mag a + mag b) / 2 /\ qcanon r /\ qexact r
       /\ is_q r = (is_q a || is_q b)%bool).
Proof.
  intros D Ld E sl n.
  pose proof (qsort_perm (x :: l)) as P. fold sl in P.
  assert (Ln : List.length sl = n) by (symmetry; apply Permutation_length; exact P).
  assert (Dsl : udim ndims d sl) by (eapply udim_perm; eassumption).
  assert (Esl : Forall qexact sl) by (eapply Permutation_Forall; eassumption).
  assert (Npos : (0 < n)%nat) by (unfold n; cbn; lia).
  assert (Med : array_median ndims (map VS (x :: l)) =
      let k := List.length (map VS sl) in
      if Nat.even k then
        match nth_error (map VS sl) (Nat.div2 k - 1), nth_error (map VS sl) (Nat.div2 k) with
        | Some a, Some b => match v_binop ndims QAdd a b with
                            | Raise e => Raise e
                            | Ok s => v_binop ndims QDiv s (vint 2)
                            end
        | _, _ => Raise IndexError
        end
      else match nth_error (map VS sl) (Nat.div2 k) with Some m => Ok m | None => Raise IndexError end).
  { unfold array_median. cbn [map]. change (VS x :: map VS l) with (map VS (x :: l)).
    rewrite (sort_ok (x :: l) d D). reflexivity. }
  rewrite map_length, Ln in Med. cbv zeta in Med.
  destruct (nth_lt_some sl (Nat.div2 n)) as [b Hb]; [rewrite Ln; apply div2_lt; exact Npos|].
  split; intro Ev; rewrite Ev in Med.
  - exists b. split; [exact Hb|]. rewrite Med, nth_error_map, Hb. reflexivity.
  - destruct (nth_lt_some sl (Nat.div2 n - 1)) as [a Ha].
    { rewrite Ln. pose proof (div2_lt n Npos). lia. }
    rewrite !nth_error_map, Ha, Hb in Med. cbn [option_map] in Med.
    assert (Da : qd a = d) by (eapply Forall_forall in Dsl; [exact Dsl|eapply nth_error_In; exact Ha]).
    assert (Db : qd b = d) by (eapply Forall_forall in Dsl; [exact Dsl|eapply nth_error_In; exact Hb]).
    assert (Ea : qexact a) by (eapply Forall_forall in Esl; [exact Esl|eapply nth_error_In; exact Ha]).
    assert (Eb : qexact b) by (eapply Forall_forall in Esl; [exact Esl|eapply nth_error_In; exact Hb]).
    destruct (add_correct (qmag a) (qmag b) (mag a) (mag b) Ea Eb (Qeq_refl _) (Qeq_refl _))
      as (v & Hv & Vv & Cv & Evv).
    cbn [v_binop] in Med. rewrite (q_add_ok ndims a b d v Da Db Hv) in Med. cbn [lift_s] in Med.
    set (s := mk (is_q a || is_q b) v d) in Med.
    assert (Dsd : qd s = d).
    { apply mk_dim. intro F. apply orb_false_iff in F. rewrite <- Da. apply isq_false_dim. apply F. }
    assert (Es : qexact s) by (unfold qexact, s; rewrite mk_mag; exact Evv).
    destruct (div_by_int ndims s d 2 Dsd Ld Es) as (r & Hr & Dr & Mr & Cr & Er & Ir); [lia|].
    exists a, b, r. split; [exact Ha|]. split; [exact Hb|]. split; [rewrite Med; exact Hr|].
    split; [exact Dr|]. split.
    + rewrite Mr. unfold mag at 1. unfold s. rewrite mk_mag, Vv. reflexivity.
    + split; [exact Cr|]. split; [exact Er|]. rewrite Ir. unfold s. apply mk_isq.
Qed.

Theorem median_mixed p pre x post d : udim ndims d (p :: pre) -> qd x <> d ->
  array_median ndims (map VS ((p :: pre) ++ x :: post)) = Raise IncompatibleQuantitiesError.
Proof.
  intros D Hx.
  assert (S : ka_sort ndims (map VS ((p :: pre) ++ x :: post)) = Raise IncompatibleQuantitiesError).
  { unfold ka_sort. rewrite map_app, foldM_app.
    change (@nil value) with (map VS []).
    rewrite (sort_from_ok (p :: pre) d [] D (Forall_nil _)).
    pose proof (qsort_from_perm (p :: pre) []) as P. rewrite app_nil_r in P.
    assert (Ds : udim ndims d (qsort_from (p :: pre) [])) by (eapply udim_perm; eassumption).
    destruct (qsort_from (p :: pre) []) as [|y ys] eqn:Q.
    - apply Permutation_length in P. discriminate.
    - pose proof (Forall_inv Ds) as Dy. cbn beta in Dy.
      cbn [map foldM ins]. unfold ka_cmp. cbn [v_cmp]. rewrite q_cmp_mismatch; [reflexivity|].
      rewrite Dy. exact Hx. }
  unfold array_median. rewrite S. cbn [app map]. reflexivity.
Qed.

End Median.

(* ====================================================================================== *)
(* 5. plain numbers                                                                        *)
Section Numbers.
Variable ndims : nat.
Definition nvals (nl : list num) : list value := map VS (map VN nl).

Lemma udim_nums nl : udim ndims (vzero ndims) (map VN nl).
Proof. induction nl; constructor; auto. Qed.
Lemma noq_nums nl : existsb is_q (map VN nl) = false.
Proof. induction nl; auto. Qed.
Lemma mag_nums nl : map mag (map VN nl) = map toQ nl.
Proof. rewrite map_map. reflexivity. Qed.
Lemma qexact_nums nl : Forall exact nl -> Forall qexact (map VN nl).
Proof. intro H. induction H; constructor; auto. Qed.
Lemma qcanon_nums nl : Forall canonical nl -> Forall qcanon (map VN nl).
Proof. intro H. induction H; constructor; auto. Qed.

Theorem sum_numbers nl : Forall exact nl -> Forall canonical nl ->
  exists r, array_sum ndims (nvals nl) = Ok (VS (VN r))
    /\ toQ r == Qsum (map toQ nl) /\ canonical r /\ exact r.
Proof.
  intros E Cn. destruct nl as [|x l].
  - exists (NInt 0). split; [reflexivity|]. split; [reflexivity|]. split; [exact I|reflexivity].
  - destruct (sum_spec ndims (VN x) (map VN l) (vzero ndims) (udim_nums (x :: l))
                (qexact_nums _ E) (qcanon_nums _ Cn)) as (r & H & _ & M & Cr & Er & Ir).
    change (VN x :: map VN l) with (map VN (x :: l)) in *.
    rewrite noq_nums in Ir. rewrite mag_nums in M.
    exists (qmag r). rewrite <- (isq_false_VN r Ir). auto.
Qed.

Theorem prod_numbers nl : Forall exact nl ->
  exists r, array_prod ndims (nvals nl) = Ok (VS (VN r))
    /\ toQ r == Qprod (map toQ nl) /\ canonical r /\ exact r.
Proof.
  intros E. destruct (prod_spec ndims (map VN nl) (qexact_nums _ E)) as (r & H & _ & M & Cr & Er & Ir).
  rewrite noq_nums in Ir. rewrite mag_nums in M.
  exists (qmag r). rewrite <- (isq_false_VN r Ir). auto.
Qed.

Theorem mean_numbers x l : Forall exact (x :: l) -> Forall canonical (x :: l) ->
  exists r, array_mean ndims (nvals (x :: l)) = Ok (VS (VN r))
    /\ toQ r == Qsum (map toQ (x :: l)) / inject_Z (Z.of_nat (List.length (x :: l)))
    /\ canonical r /\ exact r.
Proof.
  intros E Cn.
  destruct (mean_spec ndims (VN x) (map VN l) (vzero ndims) (udim_nums (x :: l))
              (repeat_length _ _) (qexact_nums _ E) (qcanon_nums _ Cn)) as (r & H & _ & M & Cr & Er & Ir).
  change (VN x :: map VN l) with (map VN (x :: l)) in *.
  rewrite noq_nums in Ir. rewrite mag_nums, map_length in M.
  exists (qmag r). rewrite <- (isq_false_VN r Ir). auto.
Qed.

(* an integral result is delivered as an int *)
Lemma integral_as_int r z : canonical r -> exact r -> toQ r == inject_Z z -> r = NInt z.
Proof. intros Cn E H. apply canonical_toQ_eq; try assumption; try exact I; reflexivity. Qed.

Theorem size_spec (l : list value) : array_size l = Ok (vint (Z.of_nat (List.length l))).
Proof. reflexivity. Qed.

End Numbers.

(* ====================================================================================== *)
(* 6. comprehensions                                                                       *)
Section CompProofs.
Variables (V E : Type).
Variable setv : string -> V -> E -> E.
Variable as_arr : V -> option (list V).
Variable blike : V -> option bool.
Local Open Scope nat_scope.

Notation bind_at := (bind_at V E setv).
Notation bind_row := (bind_row V E setv).
Notation eval_conds := (eval_conds V E blike).
Notation comp_loop := (comp_loop V E setv blike).
Notation comp_rows := (comp_rows V E setv blike).
Notation comp_spec := (comp_spec V E setv blike).
Notation min_len := (min_len V).
Notation row_at := (row_at V).

Lemma min_len_cons a r :
  min_len (a :: r) = match r with [] => List.length a | _ => Nat.min (List.length a) (min_len r) end.
Proof. destruct r; reflexivity. Qed.

Lemma bind_at_lt names : forall arrs i env, List.length names = List.length arrs -> i < min_len arrs ->
  bind_at i names arrs env = (bind_row names (row_at arrs i) env, false).
Proof.
  induction names as [|n ns IH]; intros [|a rest] i env L H; try discriminate; [reflexivity|].
  rewrite min_len_cons in H.
  assert (Ha : i < List.length a) by (destruct rest; lia).
  destruct (nth_error a i) as [v|] eqn:N; [|apply nth_error_None in N; lia].
  cbn [Arrays.bind_at]. rewrite N. unfold Arrays.row_at. cbn [flat_map]. rewrite N. cbn [app Arrays.bind_row].
  destruct rest as [|b rest'].
  - destruct ns; [reflexivity|discriminate].
  - apply IH; [cbn in L |- *; lia|lia].
Qed.

Lemma bind_at_short names : forall arrs i env, List.length names = List.length arrs ->
  (exists a, In a arrs /\ List.length a <= i) -> snd (bind_at i names arrs env) = true.
Proof.
  induction names as [|n ns IH]; intros [|a rest] i env L (a0 & Hin & Hle); try discriminate.
  - destruct Hin.
  - cbn [Arrays.bind_at]. destruct (nth_error a i) as [v|] eqn:N; [|reflexivity].
    apply IH; [cbn in L; lia|]. destruct Hin as [<-|Hin]; [|eauto].
    exfalso. assert (nth_error a i <> None) by congruence. apply nth_error_Some in H. lia.
Qed.

Lemma min_len_witness arrs : arrs <> [] -> exists a, In a arrs /\ List.length a <= min_len arrs.
Proof.
  induction arrs as [|a r IH]; intro H; [contradiction|]. rewrite min_len_cons.
  destruct r as [|b r'].
  - exists a. split; [left; reflexivity|lia].
  - destruct (IH ltac:(discriminate)) as (a0 & Hin & Hle).
    destruct (Nat.le_ge_cases (List.length a) (min_len (b :: r'))).
    + exists a. split; [left; reflexivity|lia].
    + exists a0. split; [right; exact Hin|lia].
Qed.

Lemma comp_loop_S f i names arrs conds body env :
  comp_loop (S f) i names arrs conds body env =
  let '(env1, exhausted) := bind_at i names arrs env in
  if exhausted then Ok ([], env1)
  else match eval_conds conds env1 true with
       | Raise x => Raise x
       | Ok (ok, env2) =>
           if ok then
             match body env2 with
             | Raise x => Raise x
             | Ok (v, env3) =>
                 match comp_loop f (S i) names arrs conds body env3 with
                 | Raise x => Raise x
                 | Ok (vs, envf) => Ok (v :: vs, envf)
                 end
             end
           else comp_loop f (S i) names arrs conds body env2
       end.
Proof. reflexivity. Qed.

Lemma comp_loop_rows names arrs conds body :
  List.length names = List.length arrs -> names <> [] ->
  forall k i env, i + k = min_len arrs ->
  comp_loop (S k) i names arrs conds body env =
  match comp_rows names conds body (map (row_at arrs) (seq i k)) env with
  | Raise x => Raise x
  | Ok (vs, envf) => Ok (vs, fst (bind_at (min_len arrs) names arrs envf))
  end.
Proof.
  intros L Hn. induction k as [|k IH]; intros i env Hik; rewrite comp_loop_S.
  - assert (X : snd (bind_at i names arrs env) = true).
    { apply bind_at_short; [exact L|]. replace i with (min_len arrs) by lia.
      apply min_len_witness. destruct arrs; [destruct names; [contradiction|discriminate]|discriminate]. }
    replace (min_len arrs) with i by lia. cbn [seq map Arrays.comp_rows].
    destruct (bind_at i names arrs env) as [env1 ex]. cbn in X. subst ex. reflexivity.
  - rewrite (bind_at_lt names arrs i env L) by lia.
    cbn [seq map Arrays.comp_rows].
    destruct (eval_conds conds (bind_row names (row_at arrs i) env) true) as [[ok env2]|]; [|reflexivity].
    destruct ok.
    + destruct (body env2) as [[v env3]|]; [|reflexivity].
      rewrite (IH (S i) env3) by lia.
      destruct (comp_rows names conds body (map (row_at arrs) (seq (S i) k)) env3) as [[vs envf]|]; reflexivity.
    + apply IH. lia.
Qed.

Lemma eval_list_length gs : forall env vs env1,
  eval_list V E gs env = Ok (vs, env1) -> List.length vs = List.length gs.
Proof.
  induction gs as [|g r IH]; intros env vs env1 H; cbn [eval_list] in H.
  - injection H as <- _. reflexivity.
  - destruct (g env) as [[v e1]|]; [|discriminate].
    destruct (eval_list V E r e1) as [[vs' e2]|] eqn:R; [|discriminate].
    injection H as <- _. cbn. f_equal. eapply IH. exact R.
Qed.

Lemma all_arrays_length vs : forall arrs, all_arrays V as_arr vs = Some arrs -> List.length arrs = List.length vs.
Proof.
  induction vs as [|v r IH]; intros arrs H; cbn [all_arrays] in H.
  - injection H as <-. reflexivity.
  - destruct (as_arr v); [|discriminate]. destruct (all_arrays V as_arr r); [|discriminate].
    injection H as <-. cbn. f_equal. apply IH. reflexivity.
Qed.

Theorem eval_comprehension_spec body names gens conds env :
  names <> [] -> List.length names = List.length gens ->
  eval_comprehension V E setv as_arr blike body names gens conds env =
  match eval_list V E gens env with
  | Raise x => Raise x
  | Ok (vs, env1) =>
      match all_arrays V as_arr vs with
      | None => Raise EvalError
      | Some arrs => comp_spec body names arrs conds env1
      end
  end.
Proof.
  intros Hn L. unfold eval_comprehension. destruct names as [|n ns]; [contradiction|].
  destruct (eval_list V E gens env) as [[vs env1]|] eqn:G; [|reflexivity].
  destruct (all_arrays V as_arr vs) as [arrs|] eqn:A; [|reflexivity].
  assert (L2 : List.length (n :: ns) = List.length arrs).
  { rewrite (all_arrays_length _ _ A), (eval_list_length _ _ _ _ G). exact L. }
  rewrite (comp_loop_rows (n :: ns) arrs conds body L2 Hn (min_len arrs) 0 env1) by reflexivity.
  reflexivity.
Qed.

Theorem comp_no_generator body gens conds env :
  eval_comprehension V E setv as_arr blike body [] gens conds env = Raise EvalError.
Proof. reflexivity. Qed.

Lemma all_arrays_none vs : Exists (fun v => as_arr v = None) vs -> all_arrays V as_arr vs = None.
Proof.
  induction 1 as [v r H|v r _ IH]; cbn [all_arrays].
  - rewrite H. reflexivity.
  - rewrite IH. destruct (as_arr v); reflexivity.
Qed.

Theorem comp_non_array body names gens conds env vs env1 :
  names <> [] -> eval_list V E gens env = Ok (vs, env1) -> Exists (fun v => as_arr v = None) vs ->
  eval_comprehension V E setv as_arr blike body names gens conds env = Raise EvalError.
Proof.
  intros Hn G X. unfold eval_comprehension. destruct names; [contradiction|].
  rewrite G, (all_arrays_none vs X). reflexivity.
Qed.

(* ---- evaluators that only read the environment *)
Notation pure := (pure V E).
Notation conds_pure := (conds_pure V E blike).
Notation filter_map_pure := (filter_map_pure V E blike).
Notation row_envs := (row_envs V E setv).

Lemma eval_conds_pure cs : forall env ok,
  eval_conds (map pure cs) env ok =
  match conds_pure cs env ok with Ok b => Ok (b, env) | Raise x => Raise x end.
Proof.
  induction cs as [|c r IH]; intros env ok; cbn [map Arrays.eval_conds Arrays.conds_pure]; [reflexivity|].
  unfold Arrays.pure at 1. destruct (c env) as [v|]; [|reflexivity].
  destruct (blike v); [apply IH|reflexivity].
Qed.

Lemma last_cons {A} (a : A) l d : last (a :: l) d = last l a.
Proof. revert a. induction l as [|b l IH]; intro a; [reflexivity|]. cbn [last] in *. destruct l; [reflexivity|apply IH]. Qed.

Theorem comp_rows_pure names cs body rs : forall env,
  comp_rows names (map pure cs) (pure body) rs env =
  match filter_map_pure cs body (row_envs names rs env) with
  | Ok vs => Ok (vs, last (row_envs names rs env) env)
  | Raise x => Raise x
  end.
Proof.
  induction rs as [|r rest IH]; intro env; [reflexivity|].
  cbn [Arrays.comp_rows Arrays.row_envs Arrays.filter_map_pure]. rewrite eval_conds_pure, last_cons.
  set (e1 := bind_row names r env).
  destruct (conds_pure cs e1 true) as [ok|]; [|reflexivity].
  destruct ok.
  - unfold Arrays.pure at 1. destruct (body e1) as [v|]; [|reflexivity].
    rewrite IH. destruct (filter_map_pure cs body (row_envs names rest e1)); reflexivity.
  - apply IH.
Qed.

Theorem filter_map_success cs body envs (keep : E -> bool) (bval : E -> V) :
  (forall e, In e envs -> conds_pure cs e true = Ok (keep e) /\ (keep e = true -> body e = Ok (bval e))) ->
  filter_map_pure cs body envs = Ok (map bval (filter keep envs)).
Proof.
  induction envs as [|e rest IH]; intro H; [reflexivity|].
  cbn [Arrays.filter_map_pure filter]. destruct (H e (or_introl eq_refl)) as [Hc Hb]. rewrite Hc.
  assert (IH' := IH (fun e' I' => H e' (or_intror I'))).
  destruct (keep e).
  - rewrite (Hb eq_refl), IH'. reflexivity.
  - exact IH'.
Qed.

(* every condition is evaluated; the result is the conjunction *)
Lemma conds_pure_ok cs e : forall ok bs,
  Forall2 (fun c b => exists v, c e = Ok v /\ blike v = Some b) cs bs ->
  conds_pure cs e ok = Ok (ok && forallb (fun b => b) bs)%bool.
Proof.
  induction cs as [|c r IH]; intros ok bs F; inversion F as [|? b ? bs' (v & Hv & Hb) F']; subst.
  - rewrite andb_true_r. reflexivity.
  - cbn [Arrays.conds_pure forallb]. rewrite Hv, Hb, (IH _ _ F'), andb_assoc. reflexivity.
Qed.

(* a condition that is neither 0 nor 1 raises, whatever the earlier conditions gave *)
Lemma conds_pure_nonbool pre c post e v : forall ok bs,
  Forall2 (fun c b => exists v, c e = Ok v /\ blike v = Some b) pre bs ->
  c e = Ok v -> blike v = None ->
  conds_pure (pre ++ c :: post) e ok = Raise EvalError.
Proof.
  induction pre as [|p r IH]; intros ok bs F Hv Hb; inversion F as [|? b ? bs' (v' & Hv' & Hb') F']; subst.
  - cbn [app Arrays.conds_pure]. rewrite Hv, Hb. reflexivity.
  - cbn [app Arrays.conds_pure]. rewrite Hv', Hb'. eapply IH; eassumption.
Qed.

End CompProofs.

(* ====================================================================================== *)
(* 7. the statements of Properties/C12.v, assembled                                        *)
Local Open Scope Z_scope.

Theorem int_range_all lo hi :
  int_range lo hi = map (fun k => Z.add lo (Z.of_nat k)) (seq 0 (Z.to_nat (hi - lo + 1)))
  /\ (hi < lo -> int_range lo hi = [])
  /\ List.length (int_range lo hi) = Z.to_nat (hi - lo + 1)
  /\ (forall i, (i < Z.to_nat (hi - lo + 1))%nat -> nth_error (int_range lo hi) i = Some (lo + Z.of_nat i))
  /\ (forall x, In x (int_range lo hi) <-> lo <= x <= hi)
  /\ StronglySorted Z.lt (int_range lo hi).
Proof.
  split; [apply int_range_spec|]. split; [apply int_range_empty|]. split; [apply int_range_length|].
  split; [apply int_range_nth|]. split; [apply int_range_In|apply int_range_sorted].
Qed.

Theorem ka_range_errors lo hi step :
  (toQ hi < toQ lo -> ka_range lo hi step = Raise FunctionArgError)%Q
  /\ (toQ step <= 0 -> ka_range lo hi step = Raise FunctionArgError)%Q.
Proof. split; [apply ka_range_bad_bounds|apply ka_range_bad_step]. Qed.

Theorem empty_cases ndims :
  array_sum ndims [] = Ok (vint 0) /\ array_prod ndims [] = Ok (vint 1) /\ array_size [] = Ok (vint 0)
  /\ array_mean ndims [] = Raise FunctionArgError /\ array_median ndims [] = Raise FunctionArgError
  /\ array_min ndims [] = Raise FunctionArgError /\ array_max ndims [] = Raise FunctionArgError
  /\ (forall x, in_array ndims x [] = Ok (vint 0))
  /\ vararg_ext ndims true [] = Raise FunctionArgError /\ vararg_ext ndims false [] = Raise FunctionArgError.
Proof. repeat split. Qed.

Theorem mixed_dimensions ndims p pre x post d : udim ndims d (p :: pre) -> qdim ndims x <> d ->
  let l := map VS ((p :: pre) ++ x :: post) in
  array_sum ndims l = Raise IncompatibleQuantitiesError
  /\ array_mean ndims l = Raise IncompatibleQuantitiesError
  /\ array_min ndims l = Raise IncompatibleQuantitiesError
  /\ array_max ndims l = Raise IncompatibleQuantitiesError
  /\ array_median ndims l = Raise IncompatibleQuantitiesError.
Proof.
  intros D H l. split; [apply (sum_mixed ndims p pre x post d D H)|].
  split; [apply (mean_mixed ndims p pre x post d D H)|].
  split; [apply (min_mixed ndims p pre x post d D H)|].
  split; [apply (max_mixed ndims p pre x post d D H)|apply (median_mixed ndims p pre x post d D H)].
Qed.

Theorem sort_all ndims l d : udim ndims d l ->
  ka_sort ndims (map VS l) = Ok (map VS (qsort l))
  /\ Permutation l (qsort l) /\ StronglySorted lem (qsort l)
  /\ (forall q, filter (same_mag q) (qsort l) = filter (same_mag q) l).
Proof.
  intro D. split; [apply (sort_ok ndims l d D)|]. split; [apply qsort_perm|].
  split; [apply qsort_sorted|]. intro q. apply qsort_stable.
Qed.
