(* IntervalFacts.v — the resolution table [resolve] of Model/Interval.v agrees with the
   regenerated registry (Gen/GenFunctions.v) under the dispatch model of C10
   (Model/Dispatch.v), re-proved by computation on every run.

   For every C07 function name and every tuple (length 1, 2, 3) of runtime kinds drawn from
   {int, Fraction, float, Interval} that contains an Interval — and, for "interval", "±",
   "tol", also the all-number pairs — dispatch() on the live registry selects exactly the
   body [resolve] names (by its recorded g_impl text, closures included) or rejects with
   NoMatchingFunctionSignatureError exactly where [resolve] is None. *)
From Ka Require Import Model.Dispatch Model.Interval.
From Ka Require Import Gen.GenConstants.
From Coq Require Import Arith.
Open Scope string_scope.

(* runtime kinds: an abstract kind and the live class standing for it *)
Definition rkinds : list (kind * nat) :=
  [(KN, kind_ix "int"); (KN, kind_ix "Fraction"); (KN, kind_ix "float"); (KI, kind_ix "Interval")].

Fixpoint rtuples (n : nat) : list (list (kind * nat)) :=
  match n with
  | O => [[]]
  | S n' => flat_map (fun k => map (cons k) (rtuples n')) rkinds
  end.

Definition has_interval (t : list (kind * nat)) : bool :=
  existsb (fun k => match fst k with KI => true | KN => false end) t.

Definition claimed (f : fname) (t : list (kind * nat)) : bool :=
  has_interval t ||
  match f with FInterval | FPm | FTol => Nat.eqb (List.length t) 2 | _ => false end.

Definition agrees (f : fname) (t : list (kind * nat)) : bool :=
  match dispatch_decision (fname_str f) (map snd t) [], resolve f (map fst t) with
  | Reject NoMatchingFunctionSignatureError, None => true
  | Run impl _, Some b =>
      match body_impl b with Some s => String.eqb impl s | None => false end
  | _, _ => false
  end.

Definition resolution_agrees : bool :=
  forallb (fun f =>
    forallb (fun t => implb (claimed f t) (agrees f t))
            (rtuples 1 ++ rtuples 2 ++ rtuples 3))
    all_fnames.

Lemma resolution_agrees_true : resolution_agrees = true.
Proof. vm_compute. reflexivity. Qed.

(* the kinds are really present in the dump (kind_ix answers 999 for an unknown name) *)
Lemma rkinds_known : forallb (fun k => Nat.ltb (snd k) (List.length kind_names)) rkinds = true.
Proof. vm_compute. reflexivity. Qed.

(* the constant `e` of the language is the float the model uses for ln *)
Lemma e_float_is_constant_e :
  match assoc "e" constants with
  | Some (_, q, _) => Qeq_bool q e_float
  | None => false
  end = true.
Proof. vm_compute. reflexivity. Qed.

(* every modelled name is a registered function name *)
Lemma names_registered :
  forallb (fun f => match sigs_of (fname_str f) with Some _ => true | None => false end) all_fnames = true.
Proof. vm_compute. reflexivity. Qed.
