(* NumSrcElemFacts.v — continuation of GenFacts/NumSrcFacts.v for property C16: the plans of Model/Elem.v (what an
   elementary function does before and instead of calling libm: Ka's guards, CPython's conversions, the exact
   branches) ARE the source's.  Gen/GenNumSrc.v is regenerated from the Python AST of ka/functions.py and
   ka/types.py on every run (harness/trans_num.py); here the model's plan_pow, plan_log, plan1, simp-under-wrapv
   and coerce are proved equal to the generated strict_pow, ka_log, ka_ln/log10/log2, ka_sqrt, the key table of the
   one-argument functions, simplify_type and coerce_to.

   The generated R-valued functions are instantiated with the result algebra [plan_alg]: carrier [plan], a number
   computed without libm is [PExact], a raise is [PRaise], Python's ** / math.log / math.sqrt / sin cos tan are the
   parts of the model that are NOT Ka's code (py_pow_plan, math_log_plan, libm1 c: CPython's argument conversions
   followed by the libm call [PCall]).  try/except is modelled on the plan: an exception raised by the conversions
   is caught; what libm itself returns is the section variable [ext] of Elem.v and is outside this equality. *)
From Coq Require Import ZArith QArith Qround Qabs Qreduction Bool Lia Lqa.
From Ka Require Import Model.Elem Proofs.NumProofs Gen.GenNumSrc GenFacts.NumSrcFacts.
From Ka Require Model.Dispatch.
Local Open Scope Q_scope.

(* Python's ** on the tower, as Elem.v models it: plan_pow without its first line (the guard) *)
Definition py_pow_plan (x y : num) : plan :=
  match y with
  | NInt n =>
      match x with
      | NInt z => if (0 <=? n)%Z then PExact (NInt (z ^ n)) else conv_pow x y
      | NFrac q => if Qis_zero q && (n <? 0)%Z then PRaise ZeroDivisionError
                   else PExact (norm (Qpower q n))
      | NFlt _ => conv_pow x y
      end
  | _ => conv_pow x y
  end.

(* math.log(x, b) as CPython runs it: x converted first, then b; a Fraction that underflows to 0.0 makes it
   raise ValueError (Elem.v's log_conv already shows the KaRuntimeError the source's except clause turns it into) *)
Definition log_conv_py (n : num) : res Q :=
  match n with
  | NInt z => Ok (inject_Z z)
  | NFrac q => if underflows q then Raise ValueError else to_dbl q
  | NFlt q => Ok q
  end.
Definition math_log_plan (x b : num) : plan :=
  match log_conv_py x with
  | Raise e => PRaise e
  | Ok qx => match log_conv_py b with
             | Raise e => PRaise e
             | Ok qb => PCall (CLog qx qb)
             end
  end.
Definition catch_plan (p : plan) (x : exn) (h : plan) : plan :=
  match p with PRaise e => if exn_eqb e x then h else p | _ => p end.
(* math.sqrt / sin / cos / tan: the argument converted to a double, then libm *)
Definition libm1 (c : Q -> call) (n : num) : plan := with_conv n (fun q => PCall (c q)).

Definition plan_alg : ralg :=
  {| R := plan; ret_ := PExact; raise_ := PRaise; catch_ := catch_plan; ext_pow := py_pow_plan;
     ext_log := math_log_plan; ext_sqrt := libm1 CSqrt; ext_sin := libm1 CSin; ext_cos := libm1 CCos;
     ext_tan := libm1 CTan |}.

(* ---- strict_pow *)
Lemma strict_pow_plan_is_source x y : plan_pow x y = g_strict_pow plan_alg x y.
Proof.
  unfold g_strict_pow, plan_pow. open_guards. cbn [plan_alg ext_pow raise_].
  fold (py_pow_plan x y). guard_atoms.
Qed.

(* ---- ka_log *)
Lemma to_dbl_not_value_error q : to_dbl q <> Raise ValueError.
Proof. unfold to_dbl. destruct (Qleb dbl_ovf (Qabs q)); discriminate. Qed.

Lemma log_conv_catch x b :
  match log_conv x with
  | Raise e => PRaise e
  | Ok qx => match log_conv b with Raise e => PRaise e | Ok qb => PCall (CLog qx qb) end
  end = catch_plan (math_log_plan x b) ValueError (PRaise KaRuntimeError).
Proof.
  unfold math_log_plan.
  assert (L : forall n, (log_conv n = log_conv_py n /\ log_conv_py n <> Raise ValueError)
                        \/ (log_conv n = Raise KaRuntimeError /\ log_conv_py n = Raise ValueError)).
  { intros [z|q|q]; cbn [log_conv log_conv_py]; try (left; split; [reflexivity|discriminate]).
    destruct (underflows q); [right; split; reflexivity|left; split; [reflexivity|apply to_dbl_not_value_error]]. }
  destruct (L x) as [[E1 N1]|[E1 N1]]; rewrite E1; [|rewrite N1; reflexivity].
  destruct (log_conv_py x) as [qx|e].
  - destruct (L b) as [[E2 N2]|[E2 N2]]; rewrite E2; [|rewrite N2; reflexivity].
    destruct (log_conv_py b) as [qb|e]; [reflexivity|].
    cbn [catch_plan]. destruct e; try reflexivity. congruence.
  - cbn [catch_plan]. destruct e; try reflexivity. congruence.
Qed.

Lemma ka_log_is_source x b : plan_log x b = g_ka_log plan_alg x b.
Proof.
  unfold g_ka_log, plan_log. open_guards. cbn [plan_alg ext_log raise_ catch_].
  rewrite <- log_conv_catch. guard_atoms.
Qed.

(* ---- ka_sqrt, ka_ln, ka_log10, ka_log2 *)
Lemma ka_sqrt_is_source n : plan1 FSqrt n = g_ka_sqrt plan_alg n.
Proof.
  unfold g_ka_sqrt. cbn [plan1]. open_guards. cbn [plan_alg ext_sqrt raise_]. unfold libm1. guard_atoms.
Qed.
Lemma ka_ln_is_source n : plan1 FLn n = g_ka_ln plan_alg n.
Proof. unfold g_ka_ln. rewrite <- ka_log_is_source. reflexivity. Qed.
Lemma ka_log10_is_source n : plan1 FLog10 n = g_ka_log10 plan_alg n.
Proof. unfold g_ka_log10. rewrite <- ka_log_is_source. reflexivity. Qed.
Lemma ka_log2_is_source n : plan1 FLog2 n = g_ka_log2 plan_alg n.
Proof. unfold g_ka_log2. rewrite <- ka_log_is_source. reflexivity. Qed.

(* ---- the bodies behind the registry keys (the keys are those GenFacts/ElemFacts.v's elem_table proves to be the
   overloads the live registry has for these names) *)
Local Open Scope string_scope.
Definition efun1_impl (g : efun1) : string :=
  match g with
  | FSin => "math.sin" | FCos => "math.cos" | FTan => "math.tan"
  | FSqrt => "ka.functions.ka_sqrt" | FLn => "ka.functions.ka_ln"
  | FLog10 => "ka.functions.ka_log10" | FLog2 => "ka.functions.ka_log2"
  | FAbs => "builtins.abs" | FFloor => "math.floor" | FCeil => "math.ceil"
  | FRound => "builtins.round" | FInt => "class:builtins.int" | FFloat => "class:builtins.float"
  end.

Lemma plan1_is_source g n :
  option_map (fun f => f n) (Dispatch.assoc (efun1_impl g) (g_impl1 plan_alg)) = Some (plan1 g n).
Proof.
  destruct g; cbn -[plan1 g_ka_sqrt g_ka_ln g_ka_log10 g_ka_log2]; f_equal;
    try reflexivity;
    first [ symmetry; apply ka_sqrt_is_source | symmetry; apply ka_ln_is_source
          | symmetry; apply ka_log10_is_source | symmetry; apply ka_log2_is_source | idtac ].
  cbn [plan1]. unfold with_conv, p_float, bindR, bind. destruct (conv n); reflexivity.
Qed.

Lemma plan2_is_source x y :
  option_map (fun f => f x y) (Dispatch.assoc "ka.functions.ka_log" (g_impl2 plan_alg)) = Some (plan_log x y) /\
  option_map (fun f => f x y) (Dispatch.assoc "ka.functions.strict_pow" (g_impl2 plan_alg)) = Some (plan_pow x y).
Proof.
  split; cbn -[g_ka_log g_strict_pow plan_log plan_pow]; f_equal; symmetry;
    [apply ka_log_is_source | apply strict_pow_plan_is_source].
Qed.

(* ---- types.py: simplify_type, on what a body hands back (a number, or the Quantity quantity_function builds):
   Elem.v's deliver simplifies the number and then wraps it *)
Lemma simplify_type_is_source w n : reduced n -> Ok (wrapv w (simp n)) = g_simplify_type (wrapv w n).
Proof.
  intro H. destruct w; cbn [wrapv g_simplify_type]; rewrite <- (simplify_number_is_source n H); reflexivity.
Qed.

(* ---- types.py: the NaN test of simplify_number (`if fraction != fraction: raise OverflowError`).  A NaN is not
   representable in the model (an idealised float is an exact rational), so on the model's floats the test is dead:
   simplify_number_is_source holds with or without it, and [nan_guard_dead] says why.  That the SOURCE contains the
   test, first thing after math.modf and raising OverflowError, is pinned by [simplify_number_nan_guard_is_source]:
   its proof is by conversion on purpose (x != x on an abstract rational does not compute), so it checks the shape of
   the regenerated definition; removing or moving the test breaks it.  The real NaN path (C16: never a NaN as a value)
   is exercised on the implementation by the C16 check. *)
Lemma nan_guard_dead x : let '(f, _) := p_modf x in p_ne f f = false.
Proof. unfold p_modf. apply p_ne_self. Qed.

Lemma simplify_number_nan_guard_is_source q :
  g_simplify_number (NFlt q) =
  let '(f, w) := p_modf (NFlt q) in
  if p_ne f f then Raise OverflowError
  else if p_eq f (NInt 0) then Ok (p_int w) else Ok (NFlt q).
Proof. reflexivity. Qed.

(* ---- functions.py: coerce_to for a Number parameter (and resolve_combinatoric), on a number or a lazy value *)
Lemma coerce_to_is_source c : bind (coerce c) (fun n => Ok (CNum n)) = g_coerce_to c TNumber.
Proof. destruct c; reflexivity. Qed.
Lemma coerce_to_other_is_source c : Ok c = g_coerce_to c TOther.
Proof. destruct c; reflexivity. Qed.

Print Assumptions strict_pow_plan_is_source.
Print Assumptions ka_log_is_source.
Print Assumptions ka_sqrt_is_source.
Print Assumptions ka_ln_is_source.
Print Assumptions ka_log10_is_source.
Print Assumptions ka_log2_is_source.
Print Assumptions plan1_is_source.
Print Assumptions plan2_is_source.
Print Assumptions simplify_type_is_source.
Print Assumptions nan_guard_dead.
Print Assumptions simplify_number_nan_guard_is_source.
Print Assumptions coerce_to_is_source.
Print Assumptions coerce_to_other_is_source.
