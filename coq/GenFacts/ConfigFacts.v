(* Facts about the regenerated tables (Gen/GenInterp.v except lists, Gen/GenCurrency.v built-in
   table, Gen/GenConfig.v options, Gen/GenUnits.v live registry), re-proved by computation on
   every run.  If a handler in /repo is narrowed or removed, [handlers_catch_true] stops checking. *)
From Coq Require Import Qabs.
From Ka Require Import Model.Config Proofs.CurrencyProofs.
Local Open Scope string_scope.

Lemma handlers_catch_true : handlers_catch.
Proof.
  unfold handlers_catch.
  repeat split; try (intros e; destruct e as [[]|] || destruct e); vm_compute; reflexivity.
Qed.

Lemma builtin_table_ok_true : builtin_table_ok.
Proof. split; [vm_compute; reflexivity | discriminate]. Qed.

Lemma props_okb_true : props_okb = true.
Proof. vm_compute. reflexivity. Qed.

(* the unit names and symbols that exist before the currency loop are duplicate-free *)
Lemma pre_keys_nodup : NoDup pre_names /\ NoDup pre_syms.
Proof.
  split; apply nodupb_NoDup; vm_compute; reflexivity.
Qed.

(* the registration model, run on the built-in table with the default base, yields exactly the
   cash units of the live registry (symbol, singular, plural; multiples within 1e-15 relative,
   the live ones being float quotients) *)
Definition live_cash : list GenUnits.gunit := filter is_cash GenUnits.units.
Definition close (a b : Q) : bool :=
  Qle_bool (Qabs (a - b)) ((1 # 1000000000000000) * Qabs b).
Definition same_unit (p : cunit * GenUnits.gunit) : bool :=
  String.eqb (cu_sym (fst p)) (GenUnits.u_symbol (snd p))
  && String.eqb (cu_name (fst p)) (GenUnits.u_singular (snd p))
  && String.eqb (cu_plural (fst p)) (GenUnits.u_plural (snd p))
  && close (cu_mult (fst p)) (GenUnits.u_mult (snd p)).
(* Python's NFKD/ASCII reduction of the built-in names that are not ASCII (hand-written; if the
   built-in table gains another such name, [registration_matches_live_true] stops checking until
   it is added here) *)
Definition builtin_name_norm : namenorm_t := name_norm [
  ("venezuelanbolívar", "venezuelanbolivar");
  ("bolivianbolíviano", "bolivianboliviano")
].
Definition registration_matches_live : bool :=
  match GenUnits.base_currency with
  | None => true
  | Some b =>
      match register_currencies builtin_name_norm pre_names pre_syms currency_data b with
      | POk st => Nat.eqb (List.length (rs_cash st)) (List.length live_cash)
                  && forallb same_unit (combine (rs_cash st) live_cash)
      | PRaise _ => false
      end
  end.
Lemma registration_matches_live_true : registration_matches_live = true.
Proof. vm_compute. reflexivity. Qed.

(* every built-in currency is reachable: by its symbol, or (when a unit already owns the symbol,
   e.g. `cup`) by its name; under the default base *)
Definition resolves_to (st : regstate) (ident : string) (c : cur) : bool :=
  match lookup_unit st ident with
  | RCash u => String.eqb (c_sym (cu_row u)) (c_sym c) && Qeq_bool (c_rate (cu_row u)) (c_rate c)
  | _ => false
  end.
Definition builtin_reachable : bool :=
  match register_currencies builtin_name_norm pre_names pre_syms currency_data default_base_currency with
  | POk st => forallb (fun c => resolves_to st (c_sym c) c || resolves_to st (builtin_name_norm (c_name c)) c) currency_data
  | PRaise _ => false
  end.
Lemma builtin_reachable_true : builtin_reachable = true.
Proof. vm_compute. reflexivity. Qed.
