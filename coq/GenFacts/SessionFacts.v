(* SessionFacts.v — facts about the regenerated constants table Gen/GenConstants.v (ka.eval.CONSTANTS),
   re-proved by computation on every run (property C14). *)
From Ka Require Import Model.Session.
Local Open Scope string_scope.

(* the four constants, in the dict's order, with their values: true/false are the ints 1/0, pi and e
   are floats — carried as the exact rationals of the doubles math.pi and math.e *)
Lemma constants_table :
  const_table =
  [("e", VNum (NFlt (6121026514868073 # 2251799813685248)));
   ("pi", VNum (NFlt (884279719003555 # 281474976710656)));
   ("true", VNum (NInt 1)); ("false", VNum (NInt 0))].
Proof. vm_compute. reflexivity. Qed.

Lemma constants_initial : forall i,
  sessions (new_session i init_store) i = Some const_table
  /\ tget "pi" const_table = Some (VNum (NFlt (884279719003555 # 281474976710656)))
  /\ tget "e" const_table = Some (VNum (NFlt (6121026514868073 # 2251799813685248)))
  /\ tget "true" const_table = Some (VNum (NInt 1))
  /\ tget "false" const_table = Some (VNum (NInt 0))
  /\ Qabs ((884279719003555 # 281474976710656) - (314159265358979323846 # 100000000000000000000)) < 1 # 1000000000000000
  /\ Qabs ((6121026514868073 # 2251799813685248) - (271828182845904523536 # 100000000000000000000)) < 1 # 1000000000000000.
Proof.
  intro i. split.
  - unfold new_session, init_store, upd. cbn [sessions consts]. rewrite Nat.eqb_refl. reflexivity.
  - rewrite constants_table. vm_compute. repeat split; reflexivity.
Qed.

(* in a fresh session every other name is unassigned *)
Lemma fresh_unassigned : forall x, x <> "e" -> x <> "pi" -> x <> "true" -> x <> "false" ->
  tget x const_table = None.
Proof.
  intros x A B C D. rewrite constants_table. cbn [tget].
  destruct (String.eqb_spec x "e"); [contradiction|].
  destruct (String.eqb_spec x "pi"); [contradiction|].
  destruct (String.eqb_spec x "true"); [contradiction|].
  destruct (String.eqb_spec x "false"); [contradiction|]. reflexivity.
Qed.

(* the shadowing examples of the property, by computation on the live registries:
   `sin = 3; sin(0)` is still 0, `m = 5; 2 m` is still 2 metres, `max = 1; max(2,3)` is still 3 *)
Lemma shadowing_examples :
  run_one [Assign "sin" (ELit 3); Expr (ECall1 "sin" (ELit 0))] const_table
    = (Ok (Some (VNum (NInt 0))), tset "sin" (VNum (NInt 3)) const_table)
  /\ run_one [Assign "m" (ELit 5); Expr (EQty (ELit 2) "m")] const_table
    = (Ok (Some (VQty (NInt 2) [0; 1; 0; 0; 0; 0; 0; 0]%Z)), tset "m" (VNum (NInt 5)) const_table)
  /\ run_one [Assign "max" (ELit 1); Expr (ECall2 "max" (ELit 2) (ELit 3))] const_table
    = (Ok (Some (VNum (NInt 3))), tset "max" (VNum (NInt 1)) const_table)
  /\ run_one [Assign "x" (ELit 1); Expr (ECall1 "x" (ELit 2))] const_table
    = (Raise UnknownFunctionError, tset "x" (VNum (NInt 1)) const_table).
Proof. vm_compute. repeat split; reflexivity. Qed.
