(* CombSrcFacts.v — the hand-written lazy-combinatorics model (Model/Comb.v) IS the source:
   Gen/GenCombSrc.v is regenerated on every run from the Python AST of ka/types.py (IntRange.__init__,
   IntRange.copy, class Combinatoric: __init__, mul, resolve) and ka/functions.py (resolve_combinatoric,
   get_ratio, comb_times_comb, comb_div_comb, comb_times_frac, comb_div_frac, frac_times_comb,
   frac_div_comb and the register_function rows that mention Combinatoric) by harness/trans_comb.py,
   and every model definition C05 rests on is proved equal to the generated one.

   Shape of the statements.
   * Lists are in Python order on the generated side; Comb.v keeps the ds stack of mul and the
     denominator ranges of resolve with their LAST element first, so the loop lemmas relate a
     generated list l to the model's `rev l` (g_loop .. (rev stack) = mul_loop .. stack).
   * Every while loop of the source is a Fixpoint on explicit fuel in the generated file.  The loop
     lemmas are  forall fuel state, ...  by induction on the fuel (mul's outer loop, where the model
     has the same fuel) or  forall fuel >= the exact iteration count  (the scan over ns, the two
     range walks of resolve, where the model recurses structurally): so the fuel the translator
     hands to a loop is checked, not trusted -- were it too small the generated function would
     return Raise OutOfFuel and the equality below would be false.
   * A Combinatoric object is the record `comb` (ns, ds and the memo `value`); the model's
     functions take ns and ds.  resolve() is stated with the memo: on an object whose memo is
     consistent (None, or the value resolve computes) it returns that value and leaves the object
     with the memo set.  Objects are born with memo None (Combinatoric_init_is_source) and
     g_attr_stores shows that nothing else writes ns / ds / value.
   * c_mul / c_div (the model's dispatch of * and / on lazy operands) are tied to the source's
     registration rows and, through g_comb_run, to the translated function each row names. *)
From Coq Require Import ZArith QArith Qreduction List String Bool Lia.
From Ka Require Import Model.Num Model.Qty Model.Comb Proofs.CombProofs.
From Ka Require Import Gen.GenLogic GenFacts.LogicFacts Gen.GenNumSrc GenFacts.NumSrcFacts Gen.GenCombSrc.
Import ListNotations.
Local Open Scope Z_scope.

Lemma bind_Ok_r {A} (r : res A) : (do x <- r; Ok x) = r.
Proof. destruct r; reflexivity. Qed.

(* ------------------------------------------------------------------ Python's list primitives on the
   two shapes the loops use: the last element (index -1, pop) and the element at position |pre| *)
Lemma py_nonempty_snoc {A} (l : list A) x : py_nonempty (l ++ [x]) = true.
Proof. destruct l; reflexivity. Qed.

Lemma py_norm_nonneg {A} (l : list A) i : 0 <= i -> py_norm_index l i = i.
Proof. intro H. unfold py_norm_index. destruct (Z.ltb_spec i 0); [lia|reflexivity]. Qed.

Lemma py_norm_last {A} (l : list A) x : py_norm_index (l ++ [x]) (-1) = Z.of_nat (List.length l).
Proof.
  unfold py_norm_index, py_len. change (-1 <? 0) with true. cbv iota.
  rewrite app_length. cbn [List.length]. lia.
Qed.

Lemma in_range {A} (l : list A) j : 0 <= j < py_len l -> (j <? 0) || (py_len l <=? j) = false.
Proof.
  intro H. destruct (Z.ltb_spec j 0); [lia|]. destruct (Z.leb_spec (py_len l) j); [lia|]. reflexivity.
Qed.

Lemma py_len_app {A} (a b : list A) : py_len (a ++ b) = py_len a + py_len b.
Proof. unfold py_len. rewrite app_length. lia. Qed.

Lemma py_index_mid {A} (p : list A) n rest k : List.length p = k ->
  py_index (p ++ n :: rest) (Z.of_nat k) = Ok n.
Proof.
  intros <-. unfold py_index. rewrite py_norm_nonneg by lia. cbv zeta.
  rewrite in_range by (rewrite py_len_app; unfold py_len; cbn [List.length]; lia).
  rewrite Nat2Z.id, nth_error_app2 by lia. rewrite Nat.sub_diag. reflexivity.
Qed.

Lemma py_index_last {A} (l : list A) x : py_index (l ++ [x]) (-1) = Ok x.
Proof.
  unfold py_index. rewrite py_norm_last. cbv zeta.
  rewrite in_range by (rewrite py_len_app; unfold py_len; cbn [List.length]; lia).
  rewrite Nat2Z.id, nth_error_app2 by lia. rewrite Nat.sub_diag. reflexivity.
Qed.

Lemma py_setitem_last {A} (l : list A) x v : py_setitem (l ++ [x]) (-1) v = Ok (l ++ [v]).
Proof.
  unfold py_setitem. rewrite py_norm_last. cbv zeta.
  rewrite in_range by (rewrite py_len_app; unfold py_len; cbn [List.length]; lia).
  rewrite Nat2Z.id.
  rewrite firstn_app, Nat.sub_diag, firstn_all. cbn [firstn]. rewrite app_nil_r.
  rewrite skipn_all2 by (rewrite app_length; cbn [List.length]; lia). reflexivity.
Qed.

Lemma py_pop_snoc {A} (l : list A) x : py_pop (l ++ [x]) = Ok (x, l).
Proof. unfold py_pop. rewrite rev_app_distr. cbn [rev app]. rewrite rev_involutive. reflexivity. Qed.

Lemma py_clip_mid {A} (p : list A) n rest k j : List.length p = k -> (j <= 1)%nat ->
  py_clip (p ++ n :: rest) (Z.of_nat k + Z.of_nat j) = (k + j)%nat.
Proof.
  intros <- Hj. unfold py_clip. rewrite py_norm_nonneg by lia.
  rewrite py_len_app. unfold py_len. cbn [List.length]. lia.
Qed.

Lemma py_slice_to_mid {A} (p : list A) n rest k : List.length p = k ->
  py_slice_to (p ++ n :: rest) (Z.of_nat k) = p.
Proof.
  intro H. unfold py_slice_to.
  replace (Z.of_nat k) with (Z.of_nat k + Z.of_nat 0) by lia.
  rewrite (py_clip_mid p n rest k 0 H) by lia. subst k. rewrite Nat.add_0_r.
  rewrite firstn_app, Nat.sub_diag, firstn_all. cbn [firstn]. apply app_nil_r.
Qed.

Lemma py_slice_from_mid {A} (p : list A) n rest k : List.length p = k ->
  py_slice_from (p ++ n :: rest) (Z.of_nat k + 1) = rest.
Proof.
  intro H. unfold py_slice_from. change 1 with (Z.of_nat 1).
  rewrite (py_clip_mid p n rest k 1 H) by lia. subst k.
  rewrite skipn_app. rewrite skipn_all2 by lia. cbn [app].
  replace (List.length p + 1 - List.length p)%nat with 1%nat by lia. reflexivity.
Qed.

(* ------------------------------------------------------------------ types.py: IntRange.__init__, copy *)
Lemma IntRange_init_is_source a b : mkr a b = g_IntRange_init a b.
Proof. reflexivity. Qed.

Lemma IntRange_copy_is_source r : r = g_IntRange_copy r.
Proof. destruct r; reflexivity. Qed.

Lemma map_copy l : map (fun r => g_IntRange_copy r) l = l.
Proof. induction l as [|r l IH]; cbn [map]; [|rewrite IH, <- IntRange_copy_is_source]; reflexivity. Qed.

(* ------------------------------------------------------------------ types.py: Combinatoric.__init__
   (`ns if ns else []`: None and the empty list both give []; the memo starts as None) *)
Definition or_nil (o : option (list range)) : list range := match o with Some l => l | None => [] end.

Lemma Combinatoric_init_is_source ons ods :
  mkcomb (or_nil ons) (or_nil ods) None = g_Combinatoric_init ons ods.
Proof. unfold g_Combinatoric_init. destruct ons as [[|? ?]|], ods as [[|? ?]|]; reflexivity. Qed.

Lemma Combinatoric_init_some ns ds : g_Combinatoric_init (Some ns) (Some ds) = mkcomb ns ds None.
Proof. symmetry. apply (Combinatoric_init_is_source (Some ns) (Some ds)). Qed.

(* ------------------------------------------------------------------ types.py: Combinatoric.mul *)
(* the inner `while i < len(ns)` scan, started at i = |pre| on ns = rev pre ++ rest, is scan_ns;
   the fuel the translator hands it (len(ns)) suffices: any fuel >= |rest| does.  The final value of the
   counter i is not used by the source after the loop. *)
Lemma scan_is_source d : forall rest pre ds fuel, (List.length rest <= fuel)%nat ->
  exists i',
    g_Combinatoric_mul_loop2 fuel d (rev pre ++ rest) ds (Z.of_nat (List.length pre)) false =
    Ok (match scan_ns pre rest d with
        | Some (ns', rd) => (ns', ds ++ rd, i', true)
        | None => (rev pre ++ rest, ds, i', false)
        end).
Proof.
  induction rest as [|n rest IH]; intros pre ds fuel Hf.
  - exists (Z.of_nat (List.length pre)).
    destruct fuel; cbn [g_Combinatoric_mul_loop2 scan_ns];
      rewrite app_nil_r, rev_length, Z.ltb_irrefl; reflexivity.
  - destruct fuel as [|fuel]; [cbn [List.length] in Hf; lia|].
    cbn [g_Combinatoric_mul_loop2 scan_ns].
    destruct (Z.ltb_spec (Z.of_nat (List.length pre)) (Z.of_nat (List.length (rev pre ++ n :: rest)))) as [_|H];
      [|rewrite app_length, rev_length in H; cbn [List.length] in H; lia].
    rewrite (py_index_mid (rev pre) n rest (List.length pre) (rev_length pre)). cbn [bind].
    rewrite <- intersects_is_source. destruct (intersects n d).
    + rewrite <- difference_is_source. destruct (difference n d) as [rn rd].
      rewrite (py_slice_to_mid (rev pre) n rest _ (rev_length pre)).
      rewrite (py_slice_from_mid (rev pre) n rest _ (rev_length pre)).
      exists (Z.of_nat (List.length pre)). rewrite <- app_assoc. reflexivity.
    + specialize (IH (n :: pre) ds fuel). cbn [List.length rev] in IH.
      rewrite <- app_assoc in IH. cbn [app] in IH.
      replace (Z.of_nat (List.length pre) + 1) with (Z.of_nat (S (List.length pre))) by lia.
      apply IH. cbn [List.length] in Hf. lia.
Qed.

(* the outer `while ds` loop: same fuel, same state; the generated ds is the model's stack reversed *)
Lemma mul_loop_is_source : forall fuel ns stack rds,
  g_Combinatoric_mul_loop1 fuel rds ns (rev stack) =
  match mul_loop fuel ns stack rds with
  | Ok (ns', rds') => Ok (rds', ns', [])
  | Raise e => Raise e
  end.
Proof.
  induction fuel as [|fuel IH]; intros ns stack rds; destruct stack as [|d st];
    cbn [g_Combinatoric_mul_loop1 mul_loop rev]; try reflexivity.
  - rewrite py_nonempty_snoc. reflexivity.
  - rewrite py_nonempty_snoc, py_pop_snoc. cbn [bind].
    destruct (scan_is_source d ns [] (rev st) (List.length ns) (le_n _)) as [i' E].
    cbn [rev app List.length Z.of_nat] in E. rewrite E. clear E.
    destruct (scan_ns [] ns d) as [[ns' rd]|]; cbn [bind negb].
    + rewrite <- (rev_involutive rd) at 1. rewrite <- rev_app_distr. apply IH.
    + apply IH.
Qed.

Lemma mul_is_source c new_ns new_ds :
  g_Combinatoric_mul c new_ns new_ds =
  match comb_mul (c_ns c) (c_ds c) new_ns new_ds with
  | Ok (ns', ds') => Ok (mkcomb ns' ds' None)
  | Raise e => Raise e
  end.
Proof.
  unfold g_Combinatoric_mul, comb_mul. cbv zeta.
  pose proof (mul_loop_is_source (mul_fuel (c_ds c ++ new_ds)) (c_ns c ++ new_ns) (rev (c_ds c ++ new_ds)) []) as H.
  rewrite rev_involutive in H. rewrite H. clear H.
  destruct (mul_loop _ _ _ _) as [[ns' ds']|e]; cbn [bind]; [rewrite Combinatoric_init_some|]; reflexivity.
Qed.

(* ------------------------------------------------------------------ types.py: Combinatoric.resolve *)
(* the inner `while not numerator_range.is_empty()` walk over [l, h]: the generated denom_ranges is the
   model's den reversed (denom_ranges[-1] / .pop() work at the model's head).  k is the exact number
   of iterations; the translator's fuel rcount(numerator_range) equals it. *)
Lemma resolve_loop2_is_source l : forall k h result den fuel,
  k = Z.to_nat (h - l + 1) -> (k <= fuel)%nat ->
  g_Combinatoric_resolve_loop2 fuel result (rev den) (mkr l h) =
  match num_loop k h result den with
  | Ok (r', den') => Ok (r', rev den', mkr l (h - Z.of_nat k))
  | Raise e => Raise e
  end.
Proof.
  induction k as [|k IH]; intros h result den fuel Hk Hf.
  - destruct fuel; cbn [g_Combinatoric_resolve_loop2 num_loop];
      rewrite <- is_empty_is_source; unfold is_empty; cbn [lo hi];
      (destruct (Z.ltb_spec h l) as [_|H]; [|lia]); cbn [negb Z.of_nat]; rewrite Z.sub_0_r; reflexivity.
  - destruct fuel as [|fuel]; [lia|].
    cbn [g_Combinatoric_resolve_loop2 num_loop].
    rewrite <- is_empty_is_source. unfold is_empty at 1. cbn [lo hi].
    destruct (Z.ltb_spec h l) as [H|_]; [lia|]. cbn [negb].
    assert (Hk' : k = Z.to_nat (h - 1 - l + 1)) by lia.
    assert (Hf' : (k <= fuel)%nat) by lia.
    assert (Hend : forall r' (den' : list range),
               @Ok (Z * list range * range) (r', rev den', mkr l (h - 1 - Z.of_nat k)) =
               Ok (r', rev den', mkr l (h - Z.of_nat (S k)))).
    { intros. do 3 f_equal. lia. }
    destruct den as [|d rest].
    + cbn [rev py_nonempty bind].
      pose proof (IH (h - 1) (result * h) [] fuel Hk' Hf') as E. cbn [rev] in E. rewrite E. clear E.
      destruct (num_loop k (h - 1) (result * h) []) as [[r' den']|e]; [apply Hend|reflexivity].
    + cbn [rev]. rewrite py_nonempty_snoc, py_index_last. cbn [bind]. unfold py_mod.
      destruct (Z.eqb_spec (lo d) 0) as [Hz|Hz]; [reflexivity|]. cbn [bind].
      destruct (result * h mod lo d =? 0).
      * cbn [bind]. unfold py_floordiv.
        destruct (Z.eqb_spec (lo d) 0) as [Hz'|_]; [contradiction|]. cbn [bind].
        rewrite py_setitem_last. cbn [bind].
        rewrite py_index_last. cbn [bind]. rewrite <- is_empty_is_source.
        destruct (is_empty (mkr (lo d + 1) (hi d))).
        -- rewrite py_pop_snoc. cbn [bind].
           rewrite (IH (h - 1) (result * h / lo d) rest fuel Hk' Hf').
           destruct (num_loop k (h - 1) (result * h / lo d) rest) as [[r' den']|e]; [apply Hend|reflexivity].
        -- change (rev rest ++ [mkr (lo d + 1) (hi d)]) with (rev (mkr (lo d + 1) (hi d) :: rest)).
           rewrite (IH (h - 1) (result * h / lo d) _ fuel Hk' Hf').
           destruct (num_loop k (h - 1) (result * h / lo d) _) as [[r' den']|e]; [apply Hend|reflexivity].
      * change (rev rest ++ [d]) with (rev (d :: rest)).
        rewrite (IH (h - 1) (result * h) _ fuel Hk' Hf').
        destruct (num_loop k (h - 1) (result * h) _) as [[r' den']|e]; [apply Hend|reflexivity].
Qed.

(* `for numerator_range in self.ns` *)
Lemma resolve_loop1_is_source : forall ns result den,
  g_Combinatoric_resolve_loop1 ns result (rev den) =
  match num_ranges ns result den with
  | Ok (r, den') => Ok (r, rev den')
  | Raise e => Raise e
  end.
Proof.
  induction ns as [|r ns IH]; intros result den; cbn [g_Combinatoric_resolve_loop1 num_ranges]; [reflexivity|].
  rewrite <- IntRange_copy_is_source. destruct r as [l h]. unfold rcount. cbn [lo hi].
  rewrite (resolve_loop2_is_source l _ h result den _ eq_refl (le_n _)).
  destruct (num_loop _ h result den) as [[r' den']|e]; cbn [bind]; [apply IH|reflexivity].
Qed.

(* the denominator walk `while not denom_range.is_empty(): denom *= denom_range.lo; denom_range.lo += 1` *)
Lemma resolve_loop4_is_source h : forall k l denom fuel,
  k = Z.to_nat (h - l + 1) -> (k <= fuel)%nat ->
  g_Combinatoric_resolve_loop4 fuel denom (mkr l h) = Ok (denom * prod_from l k, mkr (l + Z.of_nat k) h).
Proof.
  induction k as [|k IH]; intros l denom fuel Hk Hf.
  - destruct fuel; cbn [g_Combinatoric_resolve_loop4 prod_from];
      rewrite <- is_empty_is_source; unfold is_empty; cbn [lo hi];
      (destruct (Z.ltb_spec h l) as [_|H]; [|lia]); cbn [negb Z.of_nat];
      rewrite Z.mul_1_r, Z.add_0_r; reflexivity.
  - destruct fuel as [|fuel]; [lia|].
    cbn [g_Combinatoric_resolve_loop4 prod_from].
    rewrite <- is_empty_is_source. unfold is_empty. cbn [lo hi].
    destruct (Z.ltb_spec h l) as [H|_]; [lia|]. cbn [negb].
    rewrite (IH (l + 1) (denom * l) fuel) by lia.
    f_equal. f_equal; [ring|f_equal; lia].
Qed.

(* `for denom_range in denom_ranges` *)
Lemma resolve_loop3_is_source : forall dr denom,
  g_Combinatoric_resolve_loop3 dr denom = Ok (denom * prod_ranges dr).
Proof.
  induction dr as [|r dr IH]; intro denom; cbn [g_Combinatoric_resolve_loop3].
  - rewrite prod_ranges_nil, Z.mul_1_r. reflexivity.
  - destruct r as [l h]. unfold rcount at 1. cbn [lo hi].
    rewrite (resolve_loop4_is_source h _ l denom _ eq_refl (le_n _)). cbn [bind].
    rewrite IH, prod_ranges_cons. unfold prod_range, rcount. cbn [lo hi]. f_equal. ring.
Qed.

(* simplify_type on a number is simplify_number (package num's translation of simplify_type) *)
Lemma simplify_type_num_eq x : simplify_type_num x = g_simplify_number x.
Proof. unfold simplify_type_num, g_simplify_type. destruct (g_simplify_number x); reflexivity. Qed.

Lemma fraction_divide_simplify {B} x y (K : num -> res B) :
  (do t <- g_fraction_divide (NInt x) (NInt y); do u <- simplify_type_num t; K u) =
  (do v <- n_div (NInt x) (NInt y); K v).
Proof.
  rewrite fraction_divide_is_source.
  destruct (g_fraction_divide (NInt x) (NInt y)) as [t|e]; cbn [bind]; [rewrite simplify_type_num_eq|]; reflexivity.
Qed.

(* the object resolve() leaves behind *)
Definition resolved (c : comb) (v : num) : comb := mkcomb (c_ns c) (c_ds c) (Some v).

(* with no (truthy) memo, resolve() computes the model's resolve and stores it *)
Lemma resolve_fresh_is_source c : py_truthy_onum (c_value c) = false ->
  g_Combinatoric_resolve c =
  match resolve (c_ns c) (c_ds c) with
  | Ok v => Ok (Some v, resolved c v)
  | Raise e => Raise e
  end.
Proof.
  intro Hm. unfold g_Combinatoric_resolve, resolve. rewrite Hm. cbv zeta. rewrite map_copy.
  pose proof (resolve_loop1_is_source (c_ns c) 1 (rev (c_ds c))) as H.
  rewrite rev_involutive in H. rewrite H. clear H.
  destruct (num_ranges (c_ns c) 1 (rev (c_ds c))) as [[r den']|e]; cbn [bind]; [|reflexivity].
  rewrite resolve_loop3_is_source. cbn [bind]. rewrite Z.mul_1_l, prod_ranges_rev.
  rewrite fraction_divide_simplify. unfold n_div, Qis_zero. cbn [toQ inject_Z Qnum].
  destruct (prod_ranges den' =? 0); reflexivity.
Qed.

(* the memo is consistent: absent, or the value resolve computes *)
Definition memo_ok (c : comb) : Prop :=
  match c_value c with None => True | Some v => resolve (c_ns c) (c_ds c) = Ok v end.

Theorem resolve_is_source c : memo_ok c ->
  g_Combinatoric_resolve c =
  match resolve (c_ns c) (c_ds c) with
  | Ok v => Ok (Some v, resolved c v)
  | Raise e => Raise e
  end.
Proof.
  intro Hm. destruct (py_truthy_onum (c_value c)) eqn:T; [|apply resolve_fresh_is_source; exact T].
  unfold memo_ok in Hm. unfold g_Combinatoric_resolve. rewrite T.
  destruct c as [ns ds [v|]]; cbn [c_value c_ns c_ds] in *; [|discriminate T].
  rewrite Hm. reflexivity.
Qed.

(* consistency is established by the constructor and kept by resolve() and mul() *)
Lemma memo_ok_init ons ods : memo_ok (g_Combinatoric_init ons ods).
Proof. rewrite <- Combinatoric_init_is_source. exact I. Qed.
Lemma memo_ok_resolved c v : resolve (c_ns c) (c_ds c) = Ok v -> memo_ok (resolved c v).
Proof. intro H. exact H. Qed.
Lemma memo_ok_mul c a b r : g_Combinatoric_mul c a b = Ok r -> memo_ok r.
Proof.
  rewrite mul_is_source. destruct (comb_mul _ _ _ _) as [[ns' ds']|e]; intro H; inversion H. exact I.
Qed.

(* ------------------------------------------------------------------ functions.py *)
Lemma resolve_combinatoric_is_source co : memo_ok co ->
  g_resolve_combinatoric co =
  match resolve (c_ns co) (c_ds co) with
  | Ok v => Ok (Some v, resolved co v)
  | Raise e => Raise e
  end.
Proof.
  intro Hm. unfold g_resolve_combinatoric. rewrite (resolve_is_source co Hm).
  destruct (resolve (c_ns co) (c_ds co)); reflexivity.
Qed.

(* package "num" translated resolve_combinatoric with `co.resolve()` standing for the model's resolve
   (trusted there); that is what the source's resolve() computes on a new object *)
Corollary num_resolve_combinatoric_is_source ns ds :
  GenNumSrc.g_resolve_combinatoric ns ds =
  match g_resolve_combinatoric (mkcomb ns ds None) with
  | Ok (Some v, _) => Ok v
  | Ok (None, _) => Raise Unmodelled
  | Raise e => Raise e
  end.
Proof.
  rewrite (resolve_combinatoric_is_source (mkcomb ns ds None) I). cbn [c_ns c_ds].
  unfold GenNumSrc.g_resolve_combinatoric. destruct (resolve ns ds); reflexivity.
Qed.

Definition lift_comb (r : res (list range * list range)) : res comb :=
  match r with Ok (ns', ds') => Ok (mkcomb ns' ds' None) | Raise e => Raise e end.

Lemma comb_times_comb_is_source c1 c2 :
  g_comb_times_comb c1 c2 = lift_comb (comb_mul (c_ns c1) (c_ds c1) (c_ns c2) (c_ds c2)).
Proof. unfold g_comb_times_comb. rewrite bind_Ok_r. apply mul_is_source. Qed.

Lemma comb_div_comb_is_source c1 c2 :
  g_comb_div_comb c1 c2 = lift_comb (comb_mul (c_ns c1) (c_ds c1) (c_ds c2) (c_ns c2)).
Proof. unfold g_comb_div_comb. rewrite bind_Ok_r. apply mul_is_source. Qed.

Lemma get_ratio_is_source f : Ok (ratio f) = g_get_ratio f.
Proof. destruct f; reflexivity. Qed.

(* a value of the lazy slice as a Python object and back (a new object: memo None) *)
Definition inj (v : cval) : pv :=
  match v with CNum n => PNum n | CComb ns ds => PComb (mkcomb ns ds None) end.
Definition erase (p : pv) : cval :=
  match p with PNum n => CNum n | PComb c => CComb (c_ns c) (c_ds c) end.
Definition inj_res (r : res cval) : res pv :=
  match r with Ok v => Ok (inj v) | Raise e => Raise e end.
Definition erase_res (r : res pv) : res cval :=
  match r with Ok p => Ok (erase p) | Raise e => Raise e end.
Lemma erase_inj v : erase (inj v) = v.
Proof. destruct v; reflexivity. Qed.
Lemma erase_inj_res r : erase_res (inj_res r) = r.
Proof. destruct r as [v|e]; cbn; [rewrite erase_inj|]; reflexivity. Qed.

Lemma comb_times_frac_is_source c f :
  g_comb_times_frac c f = inj_res (comb_times_frac (c_ns c) (c_ds c) f).
Proof.
  unfold g_comb_times_frac, comb_times_frac. rewrite <- get_ratio_is_source. cbn [bind].
  destruct (ratio f) as [n d]. destruct (n =? 0); [reflexivity|].
  rewrite mul_is_source. rewrite <- !IntRange_init_is_source.
  destruct (comb_mul _ _ _ _) as [[ns' ds']|e]; reflexivity.
Qed.

(* frac(1, f) is a reduced Fraction, the model's recip normalises it to an int when it can:
   get_ratio reads the same numerator and denominator off both *)
Lemma ratio_norm q : ratio (norm q) = ratio (NFrac (Qred q)).
Proof.
  unfold norm. destruct (Pos.eqb_spec (Qden (Qred q)) 1) as [E|E]; [|reflexivity].
  cbn [ratio]. rewrite E. reflexivity.
Qed.

Lemma comb_times_frac_ratio ns ds f g : ratio f = ratio g ->
  comb_times_frac ns ds f = comb_times_frac ns ds g.
Proof. intro H. unfold comb_times_frac. rewrite H. reflexivity. Qed.

(* (Combinatoric, Rational): the divisor is an int or a Fraction *)
Lemma comb_div_frac_is_source c f : is_flt f = false ->
  g_comb_div_frac c f = inj_res (comb_div_frac (c_ns c) (c_ds c) f).
Proof.
  intro Hf. unfold g_comb_div_frac, comb_div_frac, recip, p_frac. rewrite Hf. cbn [is_flt orb].
  destruct (Qis_zero (toQ f)); [reflexivity|]. cbn [bind]. rewrite bind_Ok_r.
  rewrite comb_times_frac_is_source. f_equal.
  apply comb_times_frac_ratio. rewrite ratio_norm. do 2 f_equal.
  apply Qred_complete. cbn [toQ]. unfold Qdiv. change (inject_Z 1) with 1%Q. apply Qmult_1_l.
Qed.

Lemma frac_times_comb_is_source f c :
  g_frac_times_comb f c = inj_res (comb_times_frac (c_ns c) (c_ds c) f).
Proof. unfold g_frac_times_comb. rewrite bind_Ok_r. apply comb_times_frac_is_source. Qed.

(* f / c: the ranges of c swapped, in a NEW object *)
Lemma frac_div_comb_is_source f c :
  g_frac_div_comb f c = inj_res (comb_times_frac (c_ds c) (c_ns c) f).
Proof.
  unfold g_frac_div_comb. rewrite bind_Ok_r, Combinatoric_init_some. apply comb_times_frac_is_source.
Qed.

(* ------------------------------------------------------------------ registrations -> c_mul / c_div
   GenFacts/ResolutionFacts.v proves which key the LIVE registry selects for every pair of runtime
   classes; here, from the source text alone: which function is registered for which operand kinds of
   * and /, and that the model's c_mul / c_div run exactly the translated function the row names. *)
Open Scope string_scope.

Fixpoint sig_eqb (a b : list string) : bool :=
  match a, b with
  | [], [] => true
  | x :: a', y :: b' => String.eqb x y && sig_eqb a' b'
  | _, _ => false
  end.

(* the row registered for exactly this name and signature *)
Definition sel (name : string) (sig : list string) : option string :=
  match find (fun r => match r with (n, s, _) => String.eqb n name && sig_eqb s sig end) g_comb_registered with
  | Some (_, _, key) => Some key
  | None => None
  end.

(* no name/signature is registered twice among the rows that mention Combinatoric *)
Fixpoint nodup_rows (l : list (string * list string * string)) : bool :=
  match l with
  | [] => true
  | (n, s, _) :: r =>
      negb (existsb (fun q => match q with (n2, s2, _) => String.eqb n n2 && sig_eqb s s2 end) r) && nodup_rows r
  end.
Lemma registered_nodup : nodup_rows g_comb_registered = true.
Proof. vm_compute. reflexivity. Qed.

(* the rows for * and /: Combinatoric with Combinatoric, with a Rational, and a Rational with it *)
Lemma registered_mul_div :
  sel "*" ["Combinatoric"; "Combinatoric"] = Some "ka.functions.comb_times_comb"
  /\ sel "/" ["Combinatoric"; "Combinatoric"] = Some "ka.functions.comb_div_comb"
  /\ sel "*" ["Combinatoric"; "Rational"] = Some "ka.functions.comb_times_frac"
  /\ sel "/" ["Combinatoric"; "Rational"] = Some "ka.functions.comb_div_frac"
  /\ sel "*" ["Rational"; "Combinatoric"] = Some "ka.functions.frac_times_comb"
  /\ sel "/" ["Rational"; "Combinatoric"] = Some "ka.functions.frac_div_comb"
  /\ filter (fun r => match r with (n, _, _) => String.eqb n "*" || String.eqb n "/" end) g_comb_registered
     = [("*", ["Combinatoric"; "Combinatoric"], "ka.functions.comb_times_comb");
        ("/", ["Combinatoric"; "Combinatoric"], "ka.functions.comb_div_comb");
        ("*", ["Combinatoric"; "Rational"], "ka.functions.comb_times_frac");
        ("/", ["Combinatoric"; "Rational"], "ka.functions.comb_div_frac");
        ("*", ["Rational"; "Combinatoric"], "ka.functions.frac_times_comb");
        ("/", ["Rational"; "Combinatoric"], "ka.functions.frac_div_comb")].
Proof. vm_compute. repeat split. Qed.

(* signature type of a value of the slice: a lazy value, or an int / Fraction (a float matches neither
   Combinatoric nor Rational: those pairs go to the (Number, Number) overload, package "num") *)
Definition sig_kind (v : cval) : option string :=
  match v with
  | CComb _ _ => Some "Combinatoric"
  | CNum n => if is_flt n then None else Some "Rational"
  end.

Ltac pick_key := cbv beta iota delta [g_comb_run String.eqb Ascii.eqb Bool.eqb andb inj].

Theorem c_mul_is_source a b ka kb key :
  sig_kind a = Some ka -> sig_kind b = Some kb -> sel "*" [ka; kb] = Some key ->
  c_mul a b = erase_res (g_comb_run key (inj a) (inj b)).
Proof.
  intros Ha Hb Hs.
  destruct a as [x|ns1 ds1], b as [y|ns2 ds2]; cbn [sig_kind] in Ha, Hb;
    try (destruct (is_flt x) eqn:Fx; [discriminate Ha|]);
    try (destruct (is_flt y) eqn:Fy; [discriminate Hb|]);
    inversion Ha; inversion Hb; subst ka kb; vm_compute in Hs; inversion Hs; subst key;
    pick_key; cbn [c_mul]; rewrite ?Fx, ?Fy.
  - rewrite bind_Ok_r, frac_times_comb_is_source. cbn [c_ns c_ds]. symmetry. apply erase_inj_res.
  - rewrite bind_Ok_r, comb_times_frac_is_source. cbn [c_ns c_ds]. symmetry. apply erase_inj_res.
  - rewrite comb_times_comb_is_source. cbn [c_ns c_ds]. unfold wrap.
    destruct (comb_mul ns1 ds1 ns2 ds2) as [[n' d']|e]; reflexivity.
Qed.

Theorem c_div_is_source a b ka kb key :
  sig_kind a = Some ka -> sig_kind b = Some kb -> sel "/" [ka; kb] = Some key ->
  c_div a b = erase_res (g_comb_run key (inj a) (inj b)).
Proof.
  intros Ha Hb Hs.
  destruct a as [x|ns1 ds1], b as [y|ns2 ds2]; cbn [sig_kind] in Ha, Hb;
    try (destruct (is_flt x) eqn:Fx; [discriminate Ha|]);
    try (destruct (is_flt y) eqn:Fy; [discriminate Hb|]);
    inversion Ha; inversion Hb; subst ka kb; vm_compute in Hs; inversion Hs; subst key;
    pick_key; cbn [c_div]; rewrite ?Fx, ?Fy.
  - rewrite bind_Ok_r, frac_div_comb_is_source. cbn [c_ns c_ds]. symmetry. apply erase_inj_res.
  - rewrite bind_Ok_r, (comb_div_frac_is_source _ _ Fy). cbn [c_ns c_ds]. symmetry. apply erase_inj_res.
  - rewrite comb_div_comb_is_source. cbn [c_ns c_ds]. unfold wrap.
    destruct (comb_mul ns1 ds1 ds2 ns2) as [[n' d']|e]; reflexivity.
Qed.

(* ------------------------------------------------------------------ who writes the fields
   ns / ds / value of a Combinatoric are written by __init__ (and value by resolve) only; lo / hi of an
   IntRange by __init__ and, on copies, by resolve.  (The translator admits the stores in resolve only on
   objects resolve owns: .copy() results and the comprehension of copies.) *)
Lemma attr_stores_are :
  g_attr_stores =
  [("types:IntRange.__init__", "lo"); ("types:IntRange.__init__", "hi");
   ("types:Combinatoric.__init__", "ns"); ("types:Combinatoric.__init__", "ds");
   ("types:Combinatoric.__init__", "value");
   ("types:Combinatoric.resolve", "hi"); ("types:Combinatoric.resolve", "lo");
   ("types:Combinatoric.resolve", "value")].
Proof. reflexivity. Qed.

Print Assumptions IntRange_init_is_source.
Print Assumptions IntRange_copy_is_source.
Print Assumptions Combinatoric_init_is_source.
Print Assumptions scan_is_source.
Print Assumptions mul_loop_is_source.
Print Assumptions mul_is_source.
Print Assumptions resolve_loop2_is_source.
Print Assumptions resolve_loop1_is_source.
Print Assumptions resolve_loop4_is_source.
Print Assumptions resolve_loop3_is_source.
Print Assumptions resolve_fresh_is_source.
Print Assumptions resolve_is_source.
Print Assumptions memo_ok_init.
Print Assumptions memo_ok_mul.
Print Assumptions resolve_combinatoric_is_source.
Print Assumptions num_resolve_combinatoric_is_source.
Print Assumptions comb_times_comb_is_source.
Print Assumptions comb_div_comb_is_source.
Print Assumptions get_ratio_is_source.
Print Assumptions comb_times_frac_is_source.
Print Assumptions comb_div_frac_is_source.
Print Assumptions frac_times_comb_is_source.
Print Assumptions frac_div_comb_is_source.
Print Assumptions registered_nodup.
Print Assumptions registered_mul_div.
Print Assumptions c_mul_is_source.
Print Assumptions c_div_is_source.
Print Assumptions attr_stores_are.
