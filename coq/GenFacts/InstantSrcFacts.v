(* InstantSrcFacts.v — the hand-written instant model (Model/Instant.v on Model/Calendar.v) IS the
   source: Gen/GenInstantSrc.v is regenerated on every run from the Python AST of the Instant part
   of ka/types.py (Instant.__eq__, check_same_awareness .. validate_time) and of the
   `# Dates & times #` section of ka/functions.py (harness/trans_instant.py), and every model
   definition is proved equal, for all arguments, to the generated one.  A change of an operand
   order, comparison, constant, branch order, exception, completion suffix or registration in the
   source breaks one of these lemmas (or leaves the generated file without the definition: fail
   closed).

   Shape of the statements.  The model works on naive instants, a microsecond count i : Z.  The
   source works on Instant objects whose datetime may carry a UTC offset, so the generated
   functions take an `instant` = mkInstant (mk_dt us off).  Every lemma is stated for ALL
   instants, aware ones included: the model's operation is applied to the wall-clock count
   [us_of I] (arithmetic, fields, floor/ceil) or to the UTC count [utc_of I] (differences and
   comparisons), and the awareness rule of the source (check_same_awareness, before anything
   else) is spelled out by [same_awareness].  The `_naive` corollaries are the model's functions
   on Z verbatim, on [naive_inst i].

   Registrations.  [registered_is_expected] fixes the name / signature / function table of the
   section as read from the source text; [registered_live] and [live_instant_rows_registered] tie
   it to the LIVE registry (Gen/GenFunctions.v, regenerated from the imported module on every
   run); [run_*] say which translated function each registered key denotes, in the vocabulary of
   the model's [op]s (Model/Instant.v run_op). *)
From Coq Require Import ZArith QArith Bool String List Lia.
From Ka Require Import Model.Instant Proofs.InstantProofs Gen.GenFunctions Gen.GenInstantSrc.
Import ListNotations.
Local Open Scope string_scope.
Local Open Scope Z_scope.

(* ------------------------------------------------------------------ vocabulary *)
Definition naive_inst (i : Z) : instant := mkInstant (naive i).
Definition us_of (I : instant) : Z := dt_us (i_dt I).
Definition off_of (I : instant) : option Z := dt_off (i_dt I).
Definition utc_of (I : instant) : Z := dt_utc (i_dt I).
(* the same time zone, another wall-clock count *)
Definition with_us (I : instant) (r : Z) : instant := mkInstant (mk_dt r (off_of I)).
(* both naive or both aware *)
Definition same_awareness (A B : instant) : bool :=
  Bool.eqb (is_none (off_of A)) (is_none (off_of B)).

Lemma bind_Ok_r {A} (r : res A) : (do x <- r; Ok x) = r.
Proof. destruct r; reflexivity. Qed.

Lemma naive_us i : us_of (naive_inst i) = i.          Proof. reflexivity. Qed.
Lemma naive_utc i : utc_of (naive_inst i) = i.        Proof. reflexivity. Qed.
Lemma naive_same i j : same_awareness (naive_inst i) (naive_inst j) = true.  Proof. reflexivity. Qed.
Lemma naive_with_us i r : with_us (naive_inst i) r = naive_inst r.           Proof. reflexivity. Qed.

Lemma dims_eqb_sym a : forall b, dims_eqb a b = dims_eqb b a.
Proof.
  induction a as [|x a IH]; intros [|y b]; try reflexivity.
  cbn [dims_eqb]. rewrite IH. f_equal.
  unfold Qeq_bool, Zeq_bool.
  rewrite (Z.compare_antisym (Qnum x * QDen y) (Qnum y * QDen x)).
  destruct (Qnum x * QDen y ?= Qnum y * QDen x); reflexivity.
Qed.

Lemma eqb_negb_sym (a b : bool) : Bool.eqb a b = Bool.eqb b a.
Proof. destruct a, b; reflexivity. Qed.

(* ------------------------------------------------------------------ validate_time, seconds_to_timedelta *)
(* only a quantity whose dimension vector is seconds^1; KaRuntimeError otherwise *)
Lemma validate_time_is_source q : validate_time q = g_validate_time q.
Proof.
  unfold g_validate_time, validate_time.
  rewrite ?(dims_eqb_sym (q_dims q) seconds_dims).
  destruct (dims_eqb seconds_dims (q_dims q)); reflexivity.
Qed.

(* int exact; Fraction: timedelta(seconds=numerator) / denominator, rounded half-even; float
   rounded half-even to the microsecond; OverflowError beyond 999999999 days *)
Lemma seconds_to_timedelta_is_source n : td_of_seconds n = g_seconds_to_timedelta n.
Proof.
  unfold g_seconds_to_timedelta, td_of_seconds.
  destruct n as [z|q|q]; cbn [is_frac num_numerator num_denominator timedelta_seconds bind negb];
    try rewrite bind_Ok_r; try reflexivity.
  all: destruct (td_check (Qnum q * US_PER_SEC)); reflexivity.
Qed.

(* ------------------------------------------------------------------ awareness *)
Lemma check_same_awareness_is_source A B :
  (if same_awareness A B then Ok tt else Raise KaRuntimeError) = g_check_same_awareness A B.
Proof.
  unfold g_check_same_awareness, same_awareness, off_of, dt_utcoffset.
  rewrite ?(eqb_negb_sym (is_none (dt_off (i_dt B))) (is_none (dt_off (i_dt A)))).
  destruct (Bool.eqb (is_none (dt_off (i_dt A))) (is_none (dt_off (i_dt B)))); reflexivity.
Qed.

Lemma same_awareness_dt A B : dt_same_awareness (i_dt A) (i_dt B) = same_awareness A B.
Proof. reflexivity. Qed.

(* ------------------------------------------------------------------ ordering: instant_lt .. instant_geq
   the awareness check first (KaRuntimeError), then the comparison of the UTC counts *)
Definition cmp_bool (op : cmpop) (i j : Z) : bool :=
  match op with
  | CEq => i =? j | CNe => negb (i =? j)
  | CLt => i <? j | CLe => i <=? j | CGt => i >? j | CGe => i >=? j
  end.
Lemma instant_cmp_bool op i j : instant_cmp op i j = intify (cmp_bool op i j).
Proof. destruct op; reflexivity. Qed.

Definition lift_ord (op : cmpop) (A B : instant) : res bool :=
  if same_awareness A B then Ok (cmp_bool op (utc_of A) (utc_of B)) else Raise KaRuntimeError.

Ltac ord :=
  intros; unfold lift_ord;
  match goal with |- _ = ?g ?A ?B => unfold g end;
  match goal with |- context [g_check_same_awareness ?A ?B] =>
    rewrite <- (check_same_awareness_is_source A B) end;
  unfold dt_lt, dt_le, dt_gt, dt_ge, dt_cmp; rewrite ?same_awareness_dt;
  match goal with |- context [same_awareness ?A ?B] => destruct (same_awareness A B) end;
  reflexivity.

Lemma instant_lt_is_source A B : lift_ord CLt A B = g_instant_lt A B.   Proof. ord. Qed.
Lemma instant_leq_is_source A B : lift_ord CLe A B = g_instant_leq A B. Proof. ord. Qed.
Lemma instant_gt_is_source A B : lift_ord CGt A B = g_instant_gt A B.   Proof. ord. Qed.
Lemma instant_geq_is_source A B : lift_ord CGe A B = g_instant_geq A B. Proof. ord. Qed.

(* intify(f).f_new: 1 if f(x, y) else 0 *)
Lemma intify_is_source {X Y} (f : X -> Y -> res bool) x y :
  (do b <- f x y; Ok (intify b)) = g_intify_f_new f x y.
Proof. unfold g_intify_f_new. destruct (f x y) as [[|]|]; reflexivity. Qed.

(* register_commutative_op(f, ..).reverse_f: the operands swapped back *)
Lemma reverse_f_is_source {X Y R} (f : X -> Y -> res R) y x :
  f x y = g_register_commutative_op_reverse_f f y x.
Proof. unfold g_register_commutative_op_reverse_f. rewrite bind_Ok_r. reflexivity. Qed.

(* the registered comparison (the number 0 / 1): Model/Instant.v instant_cmp on the UTC counts *)
Definition lift_cmp (op : cmpop) (A B : instant) : res Z :=
  if same_awareness A B then Ok (instant_cmp op (utc_of A) (utc_of B)) else Raise KaRuntimeError.

Lemma lift_cmp_ord op A B : lift_cmp op A B = do b <- lift_ord op A B; Ok (intify b).
Proof. unfold lift_cmp, lift_ord. rewrite instant_cmp_bool. destruct (same_awareness A B); reflexivity. Qed.

Lemma cmp_lt_is_source A B : lift_cmp CLt A B = g_intify_f_new g_instant_lt A B.
Proof. rewrite lift_cmp_ord, instant_lt_is_source. apply intify_is_source. Qed.
Lemma cmp_leq_is_source A B : lift_cmp CLe A B = g_intify_f_new g_instant_leq A B.
Proof. rewrite lift_cmp_ord, instant_leq_is_source. apply intify_is_source. Qed.
Lemma cmp_gt_is_source A B : lift_cmp CGt A B = g_intify_f_new g_instant_gt A B.
Proof. rewrite lift_cmp_ord, instant_gt_is_source. apply intify_is_source. Qed.
Lemma cmp_geq_is_source A B : lift_cmp CGe A B = g_intify_f_new g_instant_geq A B.
Proof. rewrite lift_cmp_ord, instant_geq_is_source. apply intify_is_source. Qed.

(* == and != go through Instant.__eq__ (operator.eq / operator.ne), WITHOUT the awareness check:
   a naive and an aware instant are simply unequal *)
Definition lift_eq (A B : instant) : bool := same_awareness A B && (utc_of A =? utc_of B).

Lemma instant_eq_is_source A B : Ok (lift_eq A B) = g_Instant___eq__ A B.
Proof.
  unfold g_Instant___eq__, lift_eq, dt_eq. cbn [bind]. rewrite same_awareness_dt. reflexivity.
Qed.

(* ------------------------------------------------------------------ getters: the wall-clock fields *)
Lemma get_year_is_source I : Ok (get_year (us_of I)) = g_get_year I.       Proof. reflexivity. Qed.
Lemma get_month_is_source I : Ok (get_month (us_of I)) = g_get_month I.    Proof. reflexivity. Qed.
Lemma get_day_is_source I : Ok (get_day (us_of I)) = g_get_day I.          Proof. reflexivity. Qed.
Lemma get_hour_is_source I : Ok (get_hour (us_of I)) = g_get_hour I.       Proof. reflexivity. Qed.
Lemma get_minute_is_source I : Ok (get_minute (us_of I)) = g_get_minute I. Proof. reflexivity. Qed.
Lemma get_second_is_source I : Ok (get_second (us_of I)) = g_get_second I. Proof. reflexivity. Qed.

(* ------------------------------------------------------------------ I1 - I2
   awareness check first; Quantity((I1.dt - I2.dt).total_seconds(), SECONDS) *)
Lemma instant_minus_instant_is_source A B :
  (if same_awareness A B
   then Ok {| q_mag := NFlt (total_seconds (instant_minus_instant (utc_of A) (utc_of B)));
              q_dims := seconds_dims |}
   else Raise KaRuntimeError) = g_instant_minus_instant A B.
Proof.
  unfold g_instant_minus_instant. rewrite <- (check_same_awareness_is_source A B).
  unfold dt_minus_dt. rewrite same_awareness_dt.
  destruct (same_awareness A B); reflexivity.
Qed.

(* ------------------------------------------------------------------ floor / ceil
   datetime(dt.year, dt.month, dt.day, tzinfo=dt.tzinfo): midnight of the wall-clock date, in
   the SAME time zone (the offset is kept; a naive instant stays naive); ceil adds
   timedelta(days=1), OverflowError on 9999-12-31 *)
Lemma floor_instant_is_source I :
  (do r <- floor_instant (us_of I); Ok (with_us I r)) = g_floor_instant I.
Proof.
  unfold g_floor_instant, floor_instant, datetime3_tz, dt_tzinfo, dt_year, dt_month, dt_day,
    get_year, get_month, get_day, us_of, with_us, off_of.
  destruct (date_of (dt_us (i_dt I))) as [[y m] d]. cbn [fst snd].
  destruct (datetime_new y m d 0 0 0 0); reflexivity.
Qed.

Lemma ceil_instant_is_source I :
  (do r <- ceil_instant (us_of I); Ok (with_us I r)) = g_ceil_instant I.
Proof.
  unfold g_ceil_instant, ceil_instant, floor_instant, datetime3_tz, dt_tzinfo, dt_plus_td, dt_year, dt_month,
    dt_day, get_year, get_month, get_day, us_of, with_us, off_of.
  destruct (date_of (dt_us (i_dt I))) as [[y m] d]. cbn [fst snd].
  destruct (datetime_new y m d 0 0 0 0) as [f|]; cbn [bind]; [|reflexivity].
  destruct (td_of_days 1) as [t|]; cbn [bind]; [|reflexivity].
  cbn [dt_us dt_off].
  destruct (add_td f t); reflexivity.
Qed.

(* floor and ceil keep the awareness and the offset of their argument *)
Lemma floor_ceil_keep_offset I R :
  g_floor_instant I = Ok R \/ g_ceil_instant I = Ok R -> off_of R = off_of I.
Proof.
  rewrite <- floor_instant_is_source, <- ceil_instant_is_source.
  intros [H|H];
    [destruct (floor_instant (us_of I)) | destruct (ceil_instant (us_of I))];
    cbn [bind] in H; inversion H; reflexivity.
Qed.

Lemma with_us_same I r s :
  same_awareness (with_us I r) I = true /\ same_awareness I (with_us I r) = true
  /\ same_awareness (with_us I r) (with_us I s) = true.
Proof.
  unfold same_awareness, with_us, off_of. cbn [i_dt dt_off].
  destruct (is_none (dt_off (i_dt I))); repeat split.
Qed.
Lemma with_us_utc I r : utc_of (with_us I r) = r - (us_of I - utc_of I).
Proof.
  unfold utc_of, dt_utc, with_us, off_of, us_of. cbn [i_dt dt_off dt_us].
  destruct (dt_off (i_dt I)); lia.
Qed.

(* for EVERY instant of years 1..9999, aware or naive: floor(I) exists, floor(I) <= I and
   I < ceil(I) are comparable (no KaRuntimeError) and true, ceil(I) - floor(I) is one day; ceil
   fails only with OverflowError (9999-12-31, Properties/C17.v C17_ceil_overflow_iff) *)
Theorem floor_le_lt_ceil_comparable I : in_range (us_of I) = true ->
  exists F, g_floor_instant I = Ok F
    /\ off_of F = off_of I
    /\ g_intify_f_new g_instant_leq F I = Ok 1
    /\ (forall C, g_ceil_instant I = Ok C ->
          off_of C = off_of I
          /\ g_intify_f_new g_instant_lt I C = Ok 1
          /\ g_instant_minus_instant C F
             = Ok {| q_mag := NFlt (total_seconds US_PER_DAY); q_dims := seconds_dims |})
    /\ (g_ceil_instant I = Raise OverflowError \/ exists C, g_ceil_instant I = Ok C).
Proof.
  intro Hr.
  destruct (floor_ceil_laws (us_of I) Hr) as (f & Hf & Hle & _ & _ & _ & _ & Hc).
  exists (with_us I f).
  rewrite <- floor_instant_is_source, <- ceil_instant_is_source, Hf. cbn [bind].
  destruct (with_us_same I f (f + US_PER_DAY)) as (S1 & S2 & S3).
  split; [reflexivity|]. split; [reflexivity|]. split.
  - rewrite <- cmp_leq_is_source. unfold lift_cmp. rewrite S1, with_us_utc.
    unfold instant_cmp. rewrite (proj2 (Z.leb_le _ _)) by lia. reflexivity.
  - split.
    + intros C HC. destruct Hc as [[Hok _]|[Hov _]]; [rewrite Hok in HC|rewrite Hov in HC];
        cbn [bind] in HC; [|discriminate]. inversion HC; subst C; clear HC.
      destruct (with_us_same I (f + US_PER_DAY) f) as (_ & S5 & S4).
      split; [reflexivity|]. split.
      * rewrite <- cmp_lt_is_source. unfold lift_cmp. rewrite S5, with_us_utc.
        unfold instant_cmp. rewrite (proj2 (Z.ltb_lt _ _)) by lia. reflexivity.
      * rewrite <- instant_minus_instant_is_source. rewrite S4.
        rewrite !with_us_utc. unfold instant_minus_instant.
        replace (f + US_PER_DAY - (us_of I - utc_of I) - (f - (us_of I - utc_of I))) with US_PER_DAY by lia.
        reflexivity.
    + destruct Hc as [[Hok _]|[Hov _]]; [right; exists (with_us I (f + US_PER_DAY)); rewrite Hok
                                         | left; rewrite Hov]; reflexivity.
Qed.

(* ------------------------------------------------------------------ I + q, I - q, I + n, I - n
   on the wall-clock count; the time zone is kept *)
Lemma instant_plus_quantity_is_source I q :
  (do r <- instant_plus_quantity (us_of I) q; Ok (with_us I r)) = g_instant_plus_quantity I q.
Proof.
  unfold g_instant_plus_quantity.
  rewrite <- (validate_time_is_source q), <- (seconds_to_timedelta_is_source (q_mag q)).
  unfold instant_plus_quantity.
  destruct (validate_time q); cbn [bind]; [|reflexivity].
  destruct (td_of_seconds (q_mag q)) as [t|]; cbn [bind]; [|reflexivity].
  unfold dt_plus_td, us_of. destruct (add_td (dt_us (i_dt I)) t); reflexivity.
Qed.

Lemma instant_minus_quantity_is_source I q :
  (do r <- instant_minus_quantity (us_of I) q; Ok (with_us I r)) = g_instant_minus_quantity I q.
Proof.
  unfold g_instant_minus_quantity.
  rewrite <- (validate_time_is_source q), <- (seconds_to_timedelta_is_source (q_mag q)).
  unfold instant_minus_quantity.
  destruct (validate_time q); cbn [bind]; [|reflexivity].
  destruct (td_of_seconds (q_mag q)) as [t|]; cbn [bind]; [|reflexivity].
  unfold dt_minus_td, us_of. destruct (add_td (dt_us (i_dt I)) (- t)); reflexivity.
Qed.

Lemma instant_plus_int_is_source I n :
  (do r <- instant_plus_int (us_of I) n; Ok (with_us I r)) = g_instant_plus_int I n.
Proof.
  unfold g_instant_plus_int, instant_plus_int.
  destruct (td_of_days n) as [t|]; cbn [bind]; [|reflexivity].
  unfold dt_plus_td, us_of. destruct (add_td (dt_us (i_dt I)) t); reflexivity.
Qed.

Lemma instant_minus_int_is_source I n :
  (do r <- instant_minus_int (us_of I) n; Ok (with_us I r)) = g_instant_minus_int I n.
Proof.
  unfold g_instant_minus_int, instant_minus_int.
  destruct (td_of_days n) as [t|]; cbn [bind]; [|reflexivity].
  unfold dt_minus_td, us_of. destruct (add_td (dt_us (i_dt I)) (- t)); reflexivity.
Qed.

(* ------------------------------------------------------------------ instant_from_iso
   "YYYY" is completed with "-01-01", then "YYYY-MM" with "-01" (in this order, the second test
   on the completed text), then datetime.fromisoformat; its ValueError becomes KaRuntimeError *)
Lemma instant_from_iso_is_source s :
  (do i <- instant_from_iso s; Ok (naive_inst i)) = g_instant_from_iso s.
Proof.
  unfold g_instant_from_iso, instant_from_iso, dt_fromisoformat.
  destruct (just_year s);
    match goal with |- context [just_year_month ?t] => destruct (just_year_month t) end;
    match goal with |- context [fromisoformat ?t] => destruct (fromisoformat t) as [i|[]] end;
    reflexivity.
Qed.

(* ------------------------------------------------------------------ the model's own functions (naive instants) *)
Lemma cmp_naive_is_source i j :
  Ok (instant_cmp CLt i j) = g_intify_f_new g_instant_lt (naive_inst i) (naive_inst j)
  /\ Ok (instant_cmp CLe i j) = g_intify_f_new g_instant_leq (naive_inst i) (naive_inst j)
  /\ Ok (instant_cmp CGt i j) = g_intify_f_new g_instant_gt (naive_inst i) (naive_inst j)
  /\ Ok (instant_cmp CGe i j) = g_intify_f_new g_instant_geq (naive_inst i) (naive_inst j)
  /\ Ok (instant_cmp CEq i j)
     = g_intify_f_new (fun a b => g_Instant___eq__ a b) (naive_inst i) (naive_inst j)
  /\ Ok (instant_cmp CNe i j)
     = g_intify_f_new (fun a b => do r <- g_Instant___eq__ a b; Ok (negb r)) (naive_inst i) (naive_inst j).
Proof.
  rewrite <- cmp_lt_is_source, <- cmp_leq_is_source, <- cmp_gt_is_source, <- cmp_geq_is_source.
  repeat split; try reflexivity;
    rewrite <- intify_is_source, <- instant_eq_is_source; reflexivity.
Qed.

Lemma fields_naive_is_source i :
  Ok (get_year i) = g_get_year (naive_inst i) /\ Ok (get_month i) = g_get_month (naive_inst i)
  /\ Ok (get_day i) = g_get_day (naive_inst i) /\ Ok (get_hour i) = g_get_hour (naive_inst i)
  /\ Ok (get_minute i) = g_get_minute (naive_inst i) /\ Ok (get_second i) = g_get_second (naive_inst i).
Proof. repeat split. Qed.

Lemma floor_ceil_naive_is_source i :
  (do r <- floor_instant i; Ok (naive_inst r)) = g_floor_instant (naive_inst i)
  /\ (do r <- ceil_instant i; Ok (naive_inst r)) = g_ceil_instant (naive_inst i).
Proof. split; [apply (floor_instant_is_source (naive_inst i)) | apply (ceil_instant_is_source (naive_inst i))]. Qed.

Lemma minus_instant_naive_is_source i j :
  Ok {| q_mag := NFlt (total_seconds (instant_minus_instant i j)); q_dims := seconds_dims |}
  = g_instant_minus_instant (naive_inst i) (naive_inst j).
Proof. apply (instant_minus_instant_is_source (naive_inst i) (naive_inst j)). Qed.

Lemma arith_naive_is_source i q n :
  (do r <- instant_plus_quantity i q; Ok (naive_inst r)) = g_instant_plus_quantity (naive_inst i) q
  /\ (do r <- instant_minus_quantity i q; Ok (naive_inst r)) = g_instant_minus_quantity (naive_inst i) q
  /\ (do r <- instant_plus_int i n; Ok (naive_inst r)) = g_instant_plus_int (naive_inst i) n
  /\ (do r <- instant_minus_int i n; Ok (naive_inst r)) = g_instant_minus_int (naive_inst i) n.
Proof.
  repeat split.
  - apply (instant_plus_quantity_is_source (naive_inst i) q).
  - apply (instant_minus_quantity_is_source (naive_inst i) q).
  - apply (instant_plus_int_is_source (naive_inst i) n).
  - apply (instant_minus_int_is_source (naive_inst i) n).
Qed.

(* ------------------------------------------------------------------ registrations *)
(* which function under which name and signature, as the model's run_op assumes (source order) *)
Definition expected_registered : list (string * list skind * string) := [
  ("now", [], "ka.types.now");
  ("today", [], "ka.types.today");
  ("floor", [KInstant], "ka.types.floor_instant");
  ("ceil", [KInstant], "ka.types.ceil_instant");
  ("-", [KInstant; KInstant], "ka.types.instant_minus_instant");
  ("+", [KInstant; KQuantity], "ka.types.instant_plus_quantity");
  ("+", [KQuantity; KInstant],
     "ka.functions.register_commutative_op.<locals>.reverse_f[f=ka.types.instant_plus_quantity]");
  ("+", [KInstant; KIntegral], "ka.types.instant_plus_int");
  ("+", [KIntegral; KInstant],
     "ka.functions.register_commutative_op.<locals>.reverse_f[f=ka.types.instant_plus_int]");
  ("-", [KInstant; KQuantity], "ka.types.instant_minus_quantity");
  ("-", [KInstant; KIntegral], "ka.types.instant_minus_int");
  ("==", [KInstant; KInstant], "ka.functions.intify.<locals>.f_new[f=_operator.eq]");
  ("!=", [KInstant; KInstant], "ka.functions.intify.<locals>.f_new[f=_operator.ne]");
  ("<", [KInstant; KInstant], "ka.functions.intify.<locals>.f_new[f=ka.types.instant_lt]");
  ("<=", [KInstant; KInstant], "ka.functions.intify.<locals>.f_new[f=ka.types.instant_leq]");
  (">", [KInstant; KInstant], "ka.functions.intify.<locals>.f_new[f=ka.types.instant_gt]");
  (">=", [KInstant; KInstant], "ka.functions.intify.<locals>.f_new[f=ka.types.instant_geq]");
  ("year", [KInstant], "ka.types.get_year");
  ("month", [KInstant], "ka.types.get_month");
  ("day", [KInstant], "ka.types.get_day");
  ("hour", [KInstant], "ka.types.get_hour");
  ("minute", [KInstant], "ka.types.get_minute");
  ("second", [KInstant], "ka.types.get_second")
].

Lemma registered_is_expected : g_registered = expected_registered.
Proof. reflexivity. Qed.

(* -- against the live registry (Gen/GenFunctions.v) *)
Definition skind_name (k : skind) : string :=
  match k with KInstant => "Instant" | KQuantity => "Quantity" | KIntegral => "Integral" end.
Definition skind_eqb (a b : skind) : bool :=
  match a, b with
  | KInstant, KInstant | KQuantity, KQuantity | KIntegral, KIntegral => true
  | _, _ => false
  end.
Fixpoint strs_eqb (a b : list string) : bool :=
  match a, b with
  | [], [] => true
  | x :: a', y :: b' => String.eqb x y && strs_eqb a' b'
  | _, _ => false
  end.
Definition live_sig (g : gsig) : list string := map (fun i => nth i type_names "?") (g_args g).
Definition live_rows (name : string) : list gsig :=
  match find (fun p => String.eqb (fst p) name) registry with Some (_, rows) => rows | None => [] end.
Definition plain (g : gsig) : bool :=
  match g_vararg g, g_kws g with None, [] => true | _, _ => false end.

(* every row of the section is a row of the live registry: same name, signature, function *)
Definition row_live (r : string * list skind * string) : bool :=
  let '(name, sig, key) := r in
  existsb (fun g => String.eqb (g_impl g) key && strs_eqb (live_sig g) (map skind_name sig) && plain g)
          (live_rows name).
Lemma registered_live : forallb row_live g_registered = true.
Proof. vm_compute. reflexivity. Qed.

(* conversely: under every name, the live rows with an Instant in the signature are exactly the
   section's rows of that name with an Instant in the signature, in the same order (so nothing
   else is registered for instants anywhere in the program) *)
Definition mentions_instant (sig : list string) : bool := existsb (String.eqb "Instant") sig.
Definition live_instant_keys (rows : list gsig) : list (list string * string) :=
  map (fun g => (live_sig g, g_impl g)) (filter (fun g => mentions_instant (live_sig g)) rows).
Definition src_instant_keys (name : string) : list (list string * string) :=
  map (fun r => (map skind_name (snd (fst r)), snd r))
      (filter (fun r => String.eqb (fst (fst r)) name && mentions_instant (map skind_name (snd (fst r))))
              g_registered).
Fixpoint keys_eqb (a b : list (list string * string)) : bool :=
  match a, b with
  | [], [] => true
  | (s, k) :: a', (s', k') :: b' => strs_eqb s s' && String.eqb k k' && keys_eqb a' b'
  | _, _ => false
  end.
Lemma live_instant_rows_registered :
  forallb (fun p => keys_eqb (live_instant_keys (snd p)) (src_instant_keys (fst p))) registry = true.
Proof. vm_compute. reflexivity. Qed.

(* -- what each registered key runs: the model's operations (Model/Instant.v run_op) *)
Definition lookup (name : string) (sig : list skind) : option string :=
  match find (fun r => String.eqb (fst (fst r)) name
                       && (Nat.eqb (List.length (snd (fst r))) (List.length sig))
                       && forallb (fun p => skind_eqb (fst p) (snd p)) (combine (snd (fst r)) sig))
             g_registered with
  | Some r => Some (snd r)
  | None => None
  end.
Definition run (name : string) (args : list val) : res val :=
  let kind_of v := match v with VInst _ => KInstant | VQty _ => KQuantity | VInt _ => KIntegral end in
  match lookup name (map kind_of args) with
  | Some key => g_run key args
  | None => Raise NoMatchingFunctionSignatureError
  end.
Definition inst_res (r : res instant) : res val := do x <- r; Ok (VInst x).

Lemma run_floor I : run "floor" [VInst I] = inst_res (do r <- floor_instant (us_of I); Ok (with_us I r)).
Proof. rewrite floor_instant_is_source. reflexivity. Qed.
Lemma run_ceil I : run "ceil" [VInst I] = inst_res (do r <- ceil_instant (us_of I); Ok (with_us I r)).
Proof. rewrite ceil_instant_is_source. reflexivity. Qed.

Lemma run_year I : run "year" [VInst I] = Ok (VInt (get_year (us_of I))).     Proof. reflexivity. Qed.
Lemma run_month I : run "month" [VInst I] = Ok (VInt (get_month (us_of I))).  Proof. reflexivity. Qed.
Lemma run_day I : run "day" [VInst I] = Ok (VInt (get_day (us_of I))).        Proof. reflexivity. Qed.
Lemma run_hour I : run "hour" [VInst I] = Ok (VInt (get_hour (us_of I))).     Proof. reflexivity. Qed.
Lemma run_minute I : run "minute" [VInst I] = Ok (VInt (get_minute (us_of I))). Proof. reflexivity. Qed.
Lemma run_second I : run "second" [VInst I] = Ok (VInt (get_second (us_of I))). Proof. reflexivity. Qed.

(* I + q and q + I, I + n and n + I (register_commutative_op); I - q and I - n only in this order *)
Lemma run_plus_quantity I q :
  run "+" [VInst I; VQty q] = inst_res (do r <- instant_plus_quantity (us_of I) q; Ok (with_us I r))
  /\ run "+" [VQty q; VInst I] = run "+" [VInst I; VQty q].
Proof.
  rewrite instant_plus_quantity_is_source. split; [reflexivity|].
  change (run "+" [VQty q; VInst I])
    with (inst_res (g_register_commutative_op_reverse_f g_instant_plus_quantity q I)).
  rewrite <- reverse_f_is_source. reflexivity.
Qed.
Lemma run_plus_int I n :
  run "+" [VInst I; VInt n] = inst_res (do r <- instant_plus_int (us_of I) n; Ok (with_us I r))
  /\ run "+" [VInt n; VInst I] = run "+" [VInst I; VInt n].
Proof.
  rewrite instant_plus_int_is_source. split; [reflexivity|].
  change (run "+" [VInt n; VInst I])
    with (inst_res (g_register_commutative_op_reverse_f g_instant_plus_int n I)).
  rewrite <- reverse_f_is_source. reflexivity.
Qed.
Lemma run_minus_quantity I q :
  run "-" [VInst I; VQty q] = inst_res (do r <- instant_minus_quantity (us_of I) q; Ok (with_us I r))
  /\ run "-" [VQty q; VInst I] = Raise NoMatchingFunctionSignatureError.
Proof. rewrite instant_minus_quantity_is_source. split; reflexivity. Qed.
Lemma run_minus_int I n :
  run "-" [VInst I; VInt n] = inst_res (do r <- instant_minus_int (us_of I) n; Ok (with_us I r))
  /\ run "-" [VInt n; VInst I] = Raise NoMatchingFunctionSignatureError.
Proof. rewrite instant_minus_int_is_source. split; reflexivity. Qed.

Lemma run_minus_instant A B :
  run "-" [VInst A; VInst B] =
  if same_awareness A B
  then Ok (VQty {| q_mag := NFlt (total_seconds (instant_minus_instant (utc_of A) (utc_of B)));
                   q_dims := seconds_dims |})
  else Raise KaRuntimeError.
Proof.
  change (run "-" [VInst A; VInst B]) with (do r <- g_instant_minus_instant A B; Ok (VQty r)).
  rewrite <- instant_minus_instant_is_source. destruct (same_awareness A B); reflexivity.
Qed.

Definition int_res (r : res Z) : res val := do x <- r; Ok (VInt x).
Lemma run_cmp A B :
  run "<" [VInst A; VInst B] = int_res (lift_cmp CLt A B)
  /\ run "<=" [VInst A; VInst B] = int_res (lift_cmp CLe A B)
  /\ run ">" [VInst A; VInst B] = int_res (lift_cmp CGt A B)
  /\ run ">=" [VInst A; VInst B] = int_res (lift_cmp CGe A B)
  /\ run "==" [VInst A; VInst B] = Ok (VInt (intify (lift_eq A B)))
  /\ run "!=" [VInst A; VInst B] = Ok (VInt (intify (negb (lift_eq A B)))).
Proof.
  rewrite cmp_lt_is_source, cmp_leq_is_source, cmp_gt_is_source, cmp_geq_is_source.
  repeat split; try reflexivity.
  - change (run "==" [VInst A; VInst B])
      with (int_res (g_intify_f_new (fun a b => g_Instant___eq__ a b) A B)).
    rewrite <- intify_is_source, <- instant_eq_is_source. reflexivity.
  - change (run "!=" [VInst A; VInst B])
      with (int_res (g_intify_f_new (fun a b => do r <- g_Instant___eq__ a b; Ok (negb r)) A B)).
    rewrite <- intify_is_source, <- instant_eq_is_source. reflexivity.
Qed.

(* on naive instants the six registered comparisons are the model's instant_cmp *)
Lemma run_cmp_naive i j :
  let a := [VInst (naive_inst i); VInst (naive_inst j)] in
  run "<" a = Ok (VInt (instant_cmp CLt i j)) /\ run "<=" a = Ok (VInt (instant_cmp CLe i j))
  /\ run ">" a = Ok (VInt (instant_cmp CGt i j)) /\ run ">=" a = Ok (VInt (instant_cmp CGe i j))
  /\ run "==" a = Ok (VInt (instant_cmp CEq i j)) /\ run "!=" a = Ok (VInt (instant_cmp CNe i j)).
Proof.
  cbv zeta. destruct (run_cmp (naive_inst i) (naive_inst j)) as (H1 & H2 & H3 & H4 & H5 & H6).
  rewrite H1, H2, H3, H4, H5, H6. repeat split.
Qed.

(* nothing is registered for an instant and a quantity / integer under the comparison names, nor
   for ceil/floor/getters on anything but one instant *)
Lemma now_today_registered : lookup "now" [] = Some "ka.types.now" /\ lookup "today" [] = Some "ka.types.today".
Proof. split; reflexivity. Qed.

Print Assumptions validate_time_is_source.
Print Assumptions seconds_to_timedelta_is_source.
Print Assumptions check_same_awareness_is_source.
Print Assumptions instant_lt_is_source.
Print Assumptions instant_leq_is_source.
Print Assumptions instant_gt_is_source.
Print Assumptions instant_geq_is_source.
Print Assumptions intify_is_source.
Print Assumptions reverse_f_is_source.
Print Assumptions cmp_lt_is_source.
Print Assumptions cmp_leq_is_source.
Print Assumptions cmp_gt_is_source.
Print Assumptions cmp_geq_is_source.
Print Assumptions instant_eq_is_source.
Print Assumptions get_year_is_source.
Print Assumptions get_month_is_source.
Print Assumptions get_day_is_source.
Print Assumptions get_hour_is_source.
Print Assumptions get_minute_is_source.
Print Assumptions get_second_is_source.
Print Assumptions floor_instant_is_source.
Print Assumptions ceil_instant_is_source.
Print Assumptions floor_ceil_keep_offset.
Print Assumptions floor_le_lt_ceil_comparable.
Print Assumptions instant_minus_instant_is_source.
Print Assumptions instant_plus_quantity_is_source.
Print Assumptions instant_minus_quantity_is_source.
Print Assumptions instant_plus_int_is_source.
Print Assumptions instant_minus_int_is_source.
Print Assumptions instant_from_iso_is_source.
Print Assumptions cmp_naive_is_source.
Print Assumptions fields_naive_is_source.
Print Assumptions floor_ceil_naive_is_source.
Print Assumptions minus_instant_naive_is_source.
Print Assumptions arith_naive_is_source.
Print Assumptions registered_is_expected.
Print Assumptions registered_live.
Print Assumptions live_instant_rows_registered.
Print Assumptions run_floor.
Print Assumptions run_ceil.
Print Assumptions run_year.
Print Assumptions run_month.
Print Assumptions run_day.
Print Assumptions run_hour.
Print Assumptions run_minute.
Print Assumptions run_second.
Print Assumptions run_plus_quantity.
Print Assumptions run_plus_int.
Print Assumptions run_minus_quantity.
Print Assumptions run_minus_int.
Print Assumptions run_minus_instant.
Print Assumptions run_cmp.
Print Assumptions run_cmp_naive.
Print Assumptions now_today_registered.
