(* The hand-written definitions of Model/Qty.v (dimension vectors, compose_units, make/convert, the quantity
   operators) ARE the source's: Gen/GenUnitsSrc.v is regenerated from the Python AST of ka/units.py, types.py,
   eval.py and functions.py on every run (harness/trans_units.py) and proved equal to the model here, for all
   arguments.  A change to Vector / QuantityVector / QuantitySpace.get_zero / compose_units / make_quantity /
   convert_quantity / register_quantities_op (closures, registrations) / quantity_function breaks one of these
   lemmas, or leaves GenUnitsSrc.v without the definition (fail closed).

   Proof style: never a bare conversion of the whole function; the generated term is taken apart by case
   analysis on every test and every result, so a harmless restructuring of the source (renamed local, swapped
   branches of a negated test, reordered conjuncts) still proves and a change of meaning does not. *)
From Coq Require Import ZArith List String Bool Lia.
From Ka Require Import Model.Qty Gen.GenUnitsSrc.
Import ListNotations.
Local Open Scope Z_scope.

(* ------------------------------------------------------------------ generic case analysis *)
Ltac bool_atom c k :=
  lazymatch c with
  | negb ?x => bool_atom x k
  | andb ?x _ => bool_atom x k
  | orb ?x _ => bool_atom x k
  | _ => k c
  end.
Ltac res_step :=
  match goal with
  | |- context [match ?x with Ok _ => _ | Raise _ => _ end] =>
      lazymatch x with
      | context [match _ with _ => _ end] => fail
      | context [if _ then _ else _] => fail
      | _ => destruct x eqn:?
      end
  | |- context [if ?c then _ else _] =>
      lazymatch type of c with
      | bool => bool_atom c ltac:(fun a => destruct a eqn:?)
      end
  end.
Ltac res_cases :=
  repeat (cbv beta iota delta [bind]; cbn [negb andb orb fst snd g_mag g_qv g_q2v];
          rewrite ?andb_false_r, ?andb_true_r, ?orb_false_r, ?orb_true_r; try res_step);
  try reflexivity; try congruence.

(* ------------------------------------------------------------------ units.py: class Vector *)
Lemma veqb_spec a : forall b, veqb a b = true <-> a = b.
Proof.
  induction a as [|x a IH]; destruct b as [|y b]; cbn [veqb]; try (split; congruence).
  rewrite andb_true_iff, Z.eqb_eq, IH. split; [intros [-> ->]; reflexivity | intros H; inversion H; auto].
Qed.

Lemma tuple_eq_spec a b : g_tuple_eq a b = true <-> a = b.
Proof. unfold g_tuple_eq. destruct (list_eq_dec Z.eq_dec a b); split; congruence. Qed.

Lemma veqb_tuple_eq a b : veqb a b = g_tuple_eq a b.
Proof.
  destruct (g_tuple_eq a b) eqn:E.
  - apply veqb_spec, tuple_eq_spec, E.
  - destruct (veqb a b) eqn:E'; [|reflexivity]. apply veqb_spec, tuple_eq_spec in E'. congruence.
Qed.

Ltac veqb_subst :=
  repeat match goal with H : veqb ?a ?b = true |- _ => apply veqb_spec in H; subst end.

(* Vector.__eq__ (the second definition in the class: the one Python keeps) *)
Lemma vector_eq_is_source : forall a b, veqb a b = g_Vector_eq a b.
Proof. intros. unfold g_Vector_eq. rewrite ?andb_true_l, ?andb_true_r. apply veqb_tuple_eq. Qed.

(* Vector.__add__: zip semantics *)
Lemma vector_add_is_source : forall a b, vadd a b = g_Vector_add a b.
Proof.
  unfold g_Vector_add. induction a as [|x a IH]; destruct b as [|y b]; cbn [vadd List.combine map]; try reflexivity.
  rewrite IH. f_equal; lia.
Qed.

(* Vector.__mul__ / __rmul__ (scalar) and __neg__ *)
Lemma vector_mul_is_source : forall k a, vscale k a = g_Vector_mul a k.
Proof. intros. unfold vscale, g_Vector_mul. apply map_ext. intros. lia. Qed.
Lemma vector_rmul_is_source : forall k a, vscale k a = g_Vector_rmul a k.
Proof. intros. unfold g_Vector_rmul. apply vector_mul_is_source. Qed.
Lemma vector_neg_is_source : forall a, vneg a = g_Vector_neg a.
Proof. intros. unfold vneg, g_Vector_neg. apply map_ext. intros. lia. Qed.

(* ------------------------------------------------------------------ units.py: class QuantityVector, QuantitySpace *)
Lemma qv_mul_is_source : forall a b, vadd a b = g_QuantityVector_mul a b.
Proof. intros. unfold g_QuantityVector_mul. apply vector_add_is_source. Qed.
Lemma qv_pow_is_source : forall k a, vscale k a = g_QuantityVector_pow a k.
Proof.
  intros. unfold g_QuantityVector_pow.
  first [apply vector_rmul_is_source | apply vector_mul_is_source].
Qed.
Lemma qv_truediv_is_source : forall a b, vsub a b = g_QuantityVector_truediv a b.
Proof.
  intros. unfold vsub, g_QuantityVector_truediv.
  rewrite <- ?vector_neg_is_source, <- ?qv_mul_is_source, <- ?vector_add_is_source. reflexivity.
Qed.
Lemma qv_eq_is_source : forall a b, veqb a b = g_QuantityVector_eq a b.
Proof. intros. unfold g_QuantityVector_eq. rewrite ?andb_true_l, ?andb_true_r. apply vector_eq_is_source. Qed.
Lemma get_zero_is_source : forall bu : list string, vzero (List.length bu) = g_QuantitySpace_get_zero bu.
Proof.
  unfold vzero, g_QuantitySpace_get_zero. induction bu as [|x bu IH]; cbn [List.length repeat map]; [reflexivity|].
  rewrite IH. reflexivity.
Qed.

(* ------------------------------------------------------------------ types.py: simplify_type
   (the model keeps every num simplified, so on its values simplify_type changes nothing) *)
Lemma simplify_type_is_source : forall v : qval, v = g_simplify_type v.
Proof. intros [n|m d]; reflexivity. Qed.

(* ------------------------------------------------------------------ eval.py: compose_units *)
(* one iteration of the model's compose_loop *)
Definition cstep (nspecs : nat) (u : unit) (e : Z) (qv : dimvec) (mult off : num) : res (dimvec * num * num) :=
  let qv' := vadd qv (vscale e (ud u)) in
  match (if num_is_one (um u) then Ok mult
         else match n_pow (um u) (NInt e) with
              | Raise x => Raise x
              | Ok p => n_mul mult p
              end) with
  | Raise x => Raise x
  | Ok mult' =>
      let off' := uo u in
      if negb (num_is_zero off') && (1 <? Z.of_nat nspecs) then Raise EvalError
      else if negb (num_is_zero off') && negb (e =? 1) then Raise EvalError
      else Ok (qv', mult', off')
  end.

Lemma compose_loop_cons n u e rest qv m o :
  compose_loop n ((u, e) :: rest) qv m o
  = match cstep n u e qv m o with
    | Ok (qv', m', o') => compose_loop n rest qv' m' o'
    | Raise x => Raise x
    end.
Proof. unfold cstep. cbn [compose_loop]. res_cases. Qed.

Lemma num_is_one_src a : g_num_eq a (NInt 1) = num_is_one a.
Proof. reflexivity. Qed.
Lemma num_is_zero_src a : g_num_eq a (NInt 0) = num_is_zero a.
Proof. reflexivity. Qed.

(* g_num_dispatch on a literal operator name: decide the string tests *)
Ltac dispatch_compute := cbv beta iota delta [g_num_dispatch String.eqb Ascii.eqb Bool.eqb].

Section Compose.
Context {N : Type} (lk : N -> g_lkres).

(* a spelling of the source's signature resolves to the unit the model's signature carries *)
Definition spec_resolves (ne : N * Z) (ue : unit * Z) : Prop :=
  lk (fst ne) = LkOk (Some (fst ue)) /\ snd ne = snd ue.
Definition sig_resolves (s : list (N * Z) * list (N * Z)) (s' : usig) : Prop :=
  Forall2 spec_resolves (fst s) (fst s') /\ Forall2 spec_resolves (snd s) (snd s').

(* the source's (name, exp, invert) against the model's (unit, signed exponent) *)
Definition tagged_resolves (t : N * Z * bool) (ue : unit * Z) : Prop :=
  lk (fst (fst t)) = LkOk (Some (fst ue)) /\ snd ue = (if snd t then - snd (fst t) else snd (fst t)).

Lemma for_each_compose_loop (f : N * Z * bool -> dimvec * num * num -> res (dimvec * num * num)) (n : nat) :
  (forall nm e inv u qv m o, lk nm = LkOk (Some u) ->
     f (nm, e, inv) (qv, m, o) = cstep n u (if inv then - e else e) qv m o) ->
  forall l l', Forall2 tagged_resolves l l' ->
  forall qv m o, g_for_each l (qv, m, o) f = compose_loop n l' qv m o.
Proof.
  intros Hf l l' HR. induction HR as [|[[nm e] inv] [u e'] l l' [H1 H2] HR IH]; intros qv m o.
  - reflexivity.
  - cbn [fst snd] in H1, H2. subst e'. cbn [g_for_each]. rewrite compose_loop_cons, (Hf _ _ _ _ _ _ _ H1).
    unfold bind. destruct (cstep _ _ _ _ _ _) as [[[qv' m'] o']|x]; [apply IH | reflexivity].
Qed.

Lemma resolves_length l l' : Forall2 tagged_resolves l l' -> List.length l = List.length l'.
Proof. induction 1; cbn [List.length]; congruence. Qed.

Lemma tagged_units (a : list (N * Z)) (a' : list (unit * Z)) (F : N * Z -> N * Z * bool) :
  (forall nm e, F (nm, e) = (nm, e, false)) ->
  Forall2 spec_resolves a a' -> Forall2 tagged_resolves (map F a) a'.
Proof.
  intros HF H. induction H as [|[nm e] [u e'] a a' [H1 H2] H IH]; cbn [map]; constructor; auto.
  rewrite HF. split; cbn [fst snd] in *; congruence.
Qed.
Lemma tagged_inverted (b : list (N * Z)) (b' : list (unit * Z)) (F : N * Z -> N * Z * bool) :
  (forall nm e, F (nm, e) = (nm, e, true)) ->
  Forall2 spec_resolves b b' ->
  Forall2 tagged_resolves (map F b) (map (fun ue => (fst ue, - snd ue)) b').
Proof.
  intros HF H. induction H as [|[nm e] [u e'] b b' [H1 H2] H IH]; cbn [map]; constructor; auto.
  rewrite HF. split; cbn [fst snd] in *; congruence.
Qed.

(* compose_units: for every lookup function, every quantity space and every signature whose spellings resolve *)
Theorem compose_units_is_source : forall (bu : list string) s s', sig_resolves s s' ->
  compose_units (List.length bu) s' = g_compose_units lk bu s.
Proof.
  intros bu [a b] [a' b'] [Ha Hb]. cbn [fst snd] in Ha, Hb.
  unfold g_compose_units, compose_units. cbv zeta. cbn [fst snd].
  rewrite <- get_zero_is_source.
  match goal with
  | |- _ = bind (g_for_each ?L ?st ?F) ?K =>
      assert (HL : Forall2 tagged_resolves L (specs_of (a', b')));
      [ unfold specs_of; cbn [fst snd]; apply Forall2_app;
        [ apply tagged_units; [intros; reflexivity | exact Ha]
        | apply tagged_inverted; [intros; reflexivity | exact Hb] ]
      | assert (HF : forall nm e inv u qv m o, lk nm = LkOk (Some u) ->
                  F (nm, e, inv) (qv, m, o) = cstep (List.length L) u (if inv then - e else e) qv m o) ]
  end.
  - intros nm e inv u qv m o Hlk. cbv beta iota. rewrite Hlk. unfold cstep. cbv zeta.
    rewrite <- ?qv_pow_is_source, <- ?qv_mul_is_source, ?num_is_one_src, ?num_is_zero_src.
    destruct inv; res_cases.
  - rewrite (for_each_compose_loop _ _ HF _ _ HL).
    rewrite (resolves_length _ _ HL).
    unfold bind. destruct (compose_loop _ _ _ _ _) as [[[qv m] o]|x]; reflexivity.
Qed.

(* ------------------------------------------------------------------ eval.py: make_quantity, convert_quantity *)
Theorem make_quantity_is_source : forall (bu : list string) v s s', sig_resolves s s' ->
  make_quantity (List.length bu) v s' = g_make_quantity lk bu v s.
Proof.
  intros bu v s s' H. unfold make_quantity, g_make_quantity.
  destruct v as [mag|m d]; [|reflexivity].
  rewrite <- (compose_units_is_source bu s s' H).
  destruct (compose_units _ _) as [[[qv mult] off]|x]; [|reflexivity].
  cbv beta iota delta [bind].
  destruct (n_mul mult mag) as [t|x]; [|reflexivity].
  destruct (n_add t off) as [r|x]; [|reflexivity].
  rewrite <- simplify_type_is_source. reflexivity.
Qed.

Theorem convert_quantity_is_source : forall (bu : list string) v s s', sig_resolves s s' ->
  convert_quantity (List.length bu) v s' = g_convert_quantity lk bu v s.
Proof.
  intros bu v s s' H. unfold convert_quantity, g_convert_quantity.
  rewrite <- (compose_units_is_source bu s s' H).
  destruct (compose_units _ _) as [[[qv mult] off]|x]; [|reflexivity].
  cbv beta iota delta [bind].
  destruct v as [n|mag d]; [reflexivity|].
  cbv zeta. cbn [g_mag g_qv].
  rewrite <- ?qv_eq_is_source. dispatch_compute.
  res_cases.
Qed.
End Compose.

(* the model's own setting: the signature already carries the resolved units *)
Definition resolved (u : unit) : g_lkres := LkOk (Some u).
Lemma resolved_sig (s : usig) : sig_resolves resolved s s.
Proof.
  assert (H : forall l : list (unit * Z), Forall2 (spec_resolves resolved) l l)
    by (induction l; constructor; [split; reflexivity | assumption]).
  split; apply H.
Qed.
Corollary compose_units_is_source_resolved : forall bu s,
  compose_units (List.length bu) s = g_compose_units resolved bu s.
Proof. intros. apply compose_units_is_source, resolved_sig. Qed.
Corollary make_quantity_is_source_resolved : forall bu v s,
  make_quantity (List.length bu) v s = g_make_quantity resolved bu v s.
Proof. intros. apply make_quantity_is_source, resolved_sig. Qed.
Corollary convert_quantity_is_source_resolved : forall bu v s,
  convert_quantity (List.length bu) v s = g_convert_quantity resolved bu v s.
Proof. intros. apply convert_quantity_is_source, resolved_sig. Qed.

(* a spelling that does not resolve: EvalError (both ways lookup_unit can fail), provided nothing before it fails *)
Lemma compose_units_unknown_first : forall {N} (lk : N -> g_lkres) bu nm e rest inv,
  lk nm = LkOk None \/ lk nm = LkInvalidPrefix ->
  g_compose_units lk bu ((nm, e) :: rest, inv) = Raise EvalError.
Proof.
  intros N lk bu nm e rest inv H. unfold g_compose_units. cbv zeta. cbn [fst snd map app g_for_each].
  destruct H as [H|H]; rewrite H; reflexivity.
Qed.

(* ------------------------------------------------------------------ functions.py: register_quantities_op *)
Local Open Scope string_scope.
(* Ka's operator names, as the harness renders the model's constructors (harness/props/qtycommon.py QOP, QCMP) *)
Definition qop_name (o : qop) : string :=
  match o with QAdd => "+" | QSub => "-" | QMul => "*" | QDiv => "/" end.
Definition qcmp_name (c : qcmp) : string :=
  match c with QLt => "<" | QLe => "<=" | QEq => "==" | QNe => "!=" | QGt => ">" | QGe => ">=" end.

(* what dispatch finds for (Quantity|Number, Quantity|Number) operands under a name: the row registered by the
   module-level call of register_quantities_op, then the arm for the two kinds *)
Definition find_qop (nm : string) := find (fun r => String.eqb (fst (fst r)) nm) g_quantities_ops.
Definition g_apply_qop (bu : list string) (nm : string) (a b : qval) : option (res qval) :=
  match find_qop nm with
  | Some (_, comb, wrap) => g_quantities_op_dispatch bu nm comb wrap a b
  | None => None
  end.

Fixpoint nodupb (l : list string) : bool :=
  match l with [] => true | x :: r => negb (existsb (String.eqb x) r) && nodupb r end.
(* every name is registered once (so "the row" is well defined whatever dispatch does with ties) ... *)
Lemma quantities_ops_names_unique : nodupb (map (fun r => fst (fst r)) g_quantities_ops) = true.
Proof. vm_compute. reflexivity. Qed.
(* ... and is one of the ten operators the model knows *)
Lemma quantities_ops_known :
  forallb (fun r => existsb (String.eqb (fst (fst r)))
                      (map qop_name [QAdd; QSub; QMul; QDiv] ++ map qcmp_name [QLt; QLe; QEq; QNe; QGt; QGe]))
          g_quantities_ops = true.
Proof. vm_compute. reflexivity. Qed.

Ltac qop_row :=
  match goal with
  | |- context [find_qop ?nm] =>
      let r := eval cbv beta iota delta [find_qop find g_quantities_ops String.eqb Ascii.eqb Bool.eqb fst snd] in (find_qop nm) in
      lazymatch r with
      | Some _ => change (find_qop nm) with r
      end
  end.

(* + - * / with at least one quantity operand (two plain numbers: Model/Num.v, property C01) *)
Theorem q_binop_is_source : forall (bu : list string) o a b, is_q a || is_q b = true ->
  g_apply_qop bu (qop_name o) a b = Some (q_binop (List.length bu) o a b).
Proof.
  intros bu o a b H. unfold g_apply_qop.
  destruct o; cbn [qop_name]; qop_row; cbv beta iota;
    destruct a as [x|m1 d1], b as [y|m2 d2]; try discriminate H;
    unfold g_quantities_op_dispatch, g_quantities_op_left_is_number, g_quantities_op_right_is_number,
           g_quantities_op_f, q_binop;
    cbn [is_q negb andb lift_q g_mag g_qv g_q2v]; f_equal;
    rewrite <- ?get_zero_is_source, <- ?qv_eq_is_source, <- ?qv_mul_is_source, <- ?qv_truediv_is_source;
    dispatch_compute; cbn [qop_num]; res_cases; veqb_subst; reflexivity.
Qed.

(* the six comparisons *)
Theorem q_cmp_is_source : forall (bu : list string) c a b, is_q a || is_q b = true ->
  g_apply_qop bu (qcmp_name c) a b = Some (q_cmp (List.length bu) c a b).
Proof.
  intros bu c a b H. unfold g_apply_qop.
  destruct c; cbn [qcmp_name]; qop_row; cbv beta iota;
    destruct a as [x|m1 d1], b as [y|m2 d2]; try discriminate H;
    unfold g_quantities_op_dispatch, g_quantities_op_left_is_number, g_quantities_op_right_is_number,
           g_quantities_op_f, q_cmp;
    cbn [is_q negb andb lift_q g_mag g_qv g_q2v]; f_equal;
    rewrite <- ?get_zero_is_source, <- ?qv_eq_is_source;
    dispatch_compute; cbn [qcmp_num]; res_cases; veqb_subst; reflexivity.
Qed.

(* register_quantities_op registers nothing for two plain numbers *)
Lemma quantities_op_not_for_numbers : forall bu nm x y, g_apply_qop bu nm (VN x) (VN y) = None.
Proof. intros. unfold g_apply_qop. destruct (find_qop nm) as [[[? ?] ?]|]; reflexivity. Qed.

(* ------------------------------------------------------------------ functions.py: register_numeric_function.quantity_function
   (unary minus of a quantity: f = operator.neg, the model's n_neg) *)
Lemma q_neg_is_source : forall m d,
  q_neg (VQ m d) = (do q <- g_quantity_function n_neg (g_Quantity m d); Ok (g_q2v q)).
Proof. intros. unfold q_neg, g_quantity_function. res_cases. Qed.

Print Assumptions vector_eq_is_source.
Print Assumptions vector_add_is_source.
Print Assumptions vector_mul_is_source.
Print Assumptions vector_rmul_is_source.
Print Assumptions vector_neg_is_source.
Print Assumptions qv_mul_is_source.
Print Assumptions qv_pow_is_source.
Print Assumptions qv_truediv_is_source.
Print Assumptions qv_eq_is_source.
Print Assumptions get_zero_is_source.
Print Assumptions simplify_type_is_source.
Print Assumptions compose_units_is_source.
Print Assumptions make_quantity_is_source.
Print Assumptions convert_quantity_is_source.
Print Assumptions compose_units_is_source_resolved.
Print Assumptions make_quantity_is_source_resolved.
Print Assumptions convert_quantity_is_source_resolved.
Print Assumptions compose_units_unknown_first.
Print Assumptions quantities_ops_names_unique.
Print Assumptions quantities_ops_known.
Print Assumptions q_binop_is_source.
Print Assumptions q_cmp_is_source.
Print Assumptions quantities_op_not_for_numbers.
Print Assumptions q_neg_is_source.
